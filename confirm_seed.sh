#!/bin/sh
# usage: confirm_seed.sh <name>   (files /tmp/seed/<name>.patch, _demo_test.go, .json)
# Confirms in a scratch worktree: builds, suite green with the change, demo fails with / passes without.
name="$1"
export GOFLAGS=-mod=mod GOPROXY=off GOSUMDB=off GOTOOLCHAIN=local
wt=/tmp/sw-$name
git -C /repo worktree remove --force $wt >/dev/null 2>&1
git -C /repo worktree add --detach $wt HEAD >/dev/null 2>&1 || { echo "worktree failed"; exit 2; }
trap "git -C /repo worktree remove --force $wt >/dev/null 2>&1" EXIT
cd $wt
if ! git apply /tmp/seed/$name.patch 2>/dev/null && ! git apply --3way /tmp/seed/$name.patch 2>/dev/null; then echo "$name: PATCH-DOES-NOT-APPLY"; exit 1; fi
dir=$(python3 -c "import json;print(json.load(open('/tmp/seed/$name.json')).get('demo_dir','.') or '.')")
build=ok; go build ./... >/dev/null 2>&1 || build=FAIL
buildv=ok; go build -tags verif ./... >/dev/null 2>&1 || buildv=FAIL
suite=pass; go test -vet=off -count=1 ./... >/tmp/sw-$name.suite 2>&1 || suite=FAIL
cp /tmp/seed/${name}_demo_test.go $dir/seed_demo_test.go
with=pass; (cd $dir && go test -vet=off -count=1 -run 'TestSeedDemo' . >/tmp/sw-$name.with 2>&1) || with=fail
rm -f $dir/seed_demo_test.go
git apply -R /tmp/seed/$name.patch 2>/dev/null || git checkout -q -- .
cp /tmp/seed/${name}_demo_test.go $dir/seed_demo_test.go
without=pass; (cd $dir && go test -vet=off -count=1 -run 'TestSeedDemo' . >/tmp/sw-$name.without 2>&1) || without=fail
echo "$name: build=$build buildverif=$buildv suite_with_change=$suite demo_with_change=$with demo_without=$without"
rm -f /tmp/sw-$name.*
