#!/bin/sh
SFX=${1:-b}
# process every finished b-series seed that has not been processed yet: confirm + run its check
mkdir -p /tmp/seed/done
for j in /tmp/seed/*-$SFX.json; do
  n=$(basename $j .json); p=${n%-$SFX}
  [ -f /tmp/seed/done/$n ] && continue
  [ -f /tmp/seed/$n.patch ] || continue
  c=$(/verif/confirm_seed.sh $n 2>&1 | tail -1)
  r=$(/verif/seedtest.sh /tmp/seed/$n.patch $p 2>&1 | tail -1 | cut -c1-200)
  echo "$c"; echo "   $r"
  echo "$c | $r" > /tmp/seed/done/$n
done
