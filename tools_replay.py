#!/usr/bin/env python3
"""tools_replay.py <result.json> <prop> [kind]: re-run every non-oracle issue of a jetcheck result on the
current build with JV_DEBUG set, print implementation error messages next to both observations."""
import json,sys,subprocess,os,re
res=json.load(open(sys.argv[1])); prop=sys.argv[2]
def unhex(m):
    try: return '"'+bytes.fromhex(m.group(1)).decode('utf8','replace')+'"'
    except Exception: return m.group(0)
def dh(s): return re.sub(r'#([0-9a-f]+)', unhex, s)
n=0
for i in res['issues']:
    if i['kind']=='oracle' and len(sys.argv)<4: continue
    n+=1
    if n>6: break
    case="(%s %s %s)"%(i['stream'], i['case'], i.get('meta') or '()')
    try: os.remove('/tmp/jvdbg.txt')
    except OSError: pass
    env=dict(os.environ, JV_DEBUG='/tmp/jvdbg.txt')
    subprocess.run(['/verif/build/jetcheck','-prop',prop,'-tier','quick','-seed','1','-driver','/verif/lean/.lake/build/bin/jetdriver','-out','/tmp/replay_out.json','-case',case],env=env,capture_output=True)
    out=json.load(open('/tmp/replay_out.json'))
    print('== issue', n, i['kind'], '| now:', [ (x['kind'], dh(x['impl'])[:200], dh(x.get('model',''))[:200]) for x in out['issues']] or 'agrees')
    if os.path.exists('/tmp/jvdbg.txt'): print('   impl error:', open('/tmp/jvdbg.txt').read()[:400])
