#!/bin/sh
# usage: seedall.sh [<suffix-regex>]   -- the whole battery of archived seeded changes (seeded/*/patch.diff):
# each is applied to the checkout under test, the quick check of its own property runs, the change is
# reverted.  Works on VERIF_REPO (or VP_RUN_REPO under `vp run --with-repo`), never on /repo unless
# neither is set.  One line per seed; "MISSED" when the check exits 0.
cd "$(dirname "$0")"
REPO="${VERIF_REPO:-${VP_RUN_REPO:-/repo}}"
export VERIF_REPO="$REPO"
PAT="${1:-.}"
[ -x build/jetcheck ] && [ -z "$FORCE_SETUP" ] || ./setup.sh >/dev/null 2>&1 || { echo "setup failed"; exit 2; }
git -C "$REPO" diff --quiet || { echo "checkout under test is dirty"; exit 2; }
n=0; missed=0; noinput=0
for d in seeded/*/; do
  id=$(basename "$d"); p=${id%-*}
  echo "$id" | grep -Eq "$PAT" || continue
  if ! git -C "$REPO" apply "$PWD/$d/patch.diff" 2>/dev/null && ! git -C "$REPO" apply --3way "$PWD/$d/patch.diff" 2>/dev/null; then
    echo "$id PATCH-DOES-NOT-APPLY"; git -C "$REPO" reset -q --hard HEAD; continue
  fi
  out=$(./check "$p" ${TIER:-quick} 2>&1); rc=$?
  git -C "$REPO" reset -q --hard HEAD; git -C "$REPO" clean -fdq -- . >/dev/null 2>&1
  n=$((n+1))
  v=$(echo "$out" | grep -E 'VIOLATION' | head -1)
  if [ $rc -eq 0 ]; then missed=$((missed+1)); echo "$id MISSED | $(echo "$out" | tail -1 | cut -c1-140)";
  else case "$v" in *no-failing-input-found*) noinput=$((noinput+1)); echo "$id caught-no-input | $(echo "$out" | tail -1 | cut -c1-140)";; *) echo "$id caught | $(echo "$out" | tail -1 | cut -c1-140)";; esac; fi
done
echo "battery: $n seeds, $missed missed, $noinput without a failing input"
