// Package h: the correspondence/oracle harness framework.
//
// A check for one property generates cases (deterministically from VERIF_SEED), runs each
// case on the real implementation in a worker subprocess (so a crash or hang is contained
// and attributed to one case), runs the same cases through the Lean model driver, and
// compares the two observation streams.  Independently of the model, each case may carry a
// direct oracle verdict computed on the implementation side.
package h

import (
	"bufio"
	"encoding/json"
	"fmt"
	"io"
	"os"
	"os/exec"
	"sort"
	"strings"
	"sync"
	"time"

	"jetverif/harness/sx"
)

// ---------------------------------------------------------------- PRNG

type Rand struct{ s uint64 }

// NewRand: the seed is hashed first, so that neighbouring seeds give unrelated streams (the state
// advances by a fixed increment per draw: without the hash, seed n+1 is seed n shifted by one draw)
func NewRand(seed uint64) *Rand {
	z := seed*0x9E3779B97F4A7C15 + 0x1234567
	z = (z ^ (z >> 30)) * 0xBF58476D1CE4E5B9
	z = (z ^ (z >> 27)) * 0x94D049BB133111EB
	return &Rand{s: z ^ (z >> 31)}
}

func (r *Rand) U64() uint64 {
	r.s += 0x9E3779B97F4A7C15
	z := r.s
	z = (z ^ (z >> 30)) * 0xBF58476D1CE4E5B9
	z = (z ^ (z >> 27)) * 0x94D049BB133111EB
	return z ^ (z >> 31)
}
func (r *Rand) Intn(n int) int {
	if n <= 0 {
		return 0
	}
	return int(r.U64() % uint64(n))
}
func (r *Rand) Bool() bool          { return r.U64()&1 == 1 }
func (r *Rand) Chance(pct int) bool { return r.Intn(100) < pct }
func (r *Rand) Pick(xs []string) string {
	return xs[r.Intn(len(xs))]
}
func (r *Rand) Fork() *Rand { return &Rand{s: r.U64()} }

// ---------------------------------------------------------------- cases

type Case struct {
	ID         int
	Stream     string
	Cmd        *sx.Sexp // executed by both sides
	Meta       *sx.Sexp // worker only (oracle expectations); may be nil
	Tags       []string // distribution statistics
	NonTrivial bool
	NoModel    bool // oracle-only case (no model counterpart)
	Corpus     string
	// two-phase cases: Prep is first executed by the worker (real code); Finish turns its
	// answer into the command both sides then run (e.g. the AST dump of the case's templates).
	Prep   *sx.Sexp
	Finish func(prepResult *sx.Sexp) *sx.Sexp
}

// ModelNormalizers rewrite a model observation before comparison (by command head), e.g. to
// render float placeholders with the implementation's own formatter.
// PairNormalizers see both observations (e.g. to skip the calls of a history the model cannot express)
var PairNormalizers = map[string]func(impl, model string) (string, string){}

var ModelNormalizers = map[string]func(*sx.Sexp) *sx.Sexp{}

type ImplFunc func(cmd, meta *sx.Sexp) (obs *sx.Sexp, oracleFail string)

var impls = map[string]ImplFunc{}

func RegisterImpl(head string, f ImplFunc) { impls[head] = f }

type Prop struct {
	ID  string
	Gen func(r *Rand, tier string) []Case
}

var props = map[string]*Prop{}

func RegisterProp(p *Prop) { props[p.ID] = p }

// ---------------------------------------------------------------- worker

func headOf(cmd *sx.Sexp) string {
	if cmd.K == sx.List && len(cmd.Xs) > 0 && cmd.Xs[0].K == sx.Atom {
		return cmd.Xs[0].A
	}
	return ""
}

func runOne(cmd, meta *sx.Sexp) (obs *sx.Sexp, fail string) {
	defer func() {
		if e := recover(); e != nil {
			obs = sx.L(sx.A("crash"), sx.S(fmt.Sprint(e)))
			fail = ""
		}
	}()
	f := impls[headOf(cmd)]
	if f == nil {
		return sx.L(sx.A("no-impl")), ""
	}
	return f(cmd, meta)
}

// WorkerMain: reads "(id cmd meta)" lines on stdin, answers "(id obs verdict)" per line.
func WorkerMain() {
	in := bufio.NewReaderSize(os.Stdin, 1<<20)
	out := bufio.NewWriterSize(os.Stdout, 1<<16)
	for {
		line, err := in.ReadString('\n')
		if len(line) > 0 {
			x, perr := sx.Parse(strings.TrimRight(line, "\n"))
			if perr != nil || x.K != sx.List || len(x.Xs) < 2 {
				fmt.Fprintf(out, "(? (bad-line))\n")
			} else {
				var meta *sx.Sexp
				if len(x.Xs) > 2 {
					meta = x.Xs[2]
				}
				obs, fail := runOne(x.Xs[1], meta)
				v := sx.L(sx.A("ok"))
				if fail != "" {
					v = sx.L(sx.A("fail"), sx.S(fail))
				}
				fmt.Fprintf(out, "%s\n", sx.L(x.Xs[0], obs, v).String())
			}
			out.Flush()
		}
		if err != nil {
			return
		}
	}
}

type implRes struct {
	obs    string
	fail   string
	stderr string // what a dying worker wrote to stderr
}

type worker struct {
	cmd    *exec.Cmd
	stdin  io.WriteCloser
	lines  chan string
	stderr *tailBuf
}

// tailBuf keeps the first bytes a dying worker wrote to stderr (race report, fatal error, panic)
type tailBuf struct {
	mu  sync.Mutex
	b   []byte
	max int
}

func (t *tailBuf) Write(p []byte) (int, error) {
	t.mu.Lock()
	if len(t.b) < t.max {
		t.b = append(t.b, p...)
		if len(t.b) > t.max {
			t.b = t.b[:t.max]
		}
	}
	t.mu.Unlock()
	return len(p), nil
}

func (t *tailBuf) String() string {
	t.mu.Lock()
	defer t.mu.Unlock()
	return string(t.b)
}

func startWorker() (*worker, error) {
	self, err := os.Executable()
	if err != nil {
		return nil, err
	}
	c := exec.Command(self, "--worker")
	c.Env = append(os.Environ(), "GOMEMLIMIT=3GiB", "GOTRACEBACK=single")
	errTail := &tailBuf{max: 6000}
	c.Stderr = errTail
	stdin, err := c.StdinPipe()
	if err != nil {
		return nil, err
	}
	stdout, err := c.StdoutPipe()
	if err != nil {
		return nil, err
	}
	if err := c.Start(); err != nil {
		return nil, err
	}
	w := &worker{cmd: c, stdin: stdin, lines: make(chan string, 64), stderr: errTail}
	go func() {
		sc := bufio.NewReaderSize(stdout, 1<<20)
		for {
			l, err := sc.ReadString('\n')
			if len(l) > 0 && strings.HasSuffix(l, "\n") {
				w.lines <- strings.TrimRight(l, "\n")
			}
			if err != nil {
				close(w.lines)
				return
			}
		}
	}()
	return w, nil
}

func (w *worker) kill() {
	w.stdin.Close()
	w.cmd.Process.Kill()
	w.cmd.Wait()
}

// runImpl executes all cases on the implementation; crashes/hangs are contained per case.
func runImpl(cases []Case, perCase time.Duration) ([]implRes, int) {
	res := make([]implRes, len(cases))
	restarts := 0
	var w *worker
	defer func() {
		if w != nil {
			w.kill()
		}
	}()
	for i := range cases {
		if w == nil {
			var err error
			w, err = startWorker()
			if err != nil {
				fmt.Fprintln(os.Stderr, "cannot start worker:", err)
				os.Exit(3)
			}
		}
		c := &cases[i]
		meta := c.Meta
		if meta == nil {
			meta = sx.L()
		}
		line := sx.L(sx.I(int64(c.ID)), c.Cmd, meta).String() + "\n"
		_, werr := io.WriteString(w.stdin, line)
		var got string
		var ok bool
		if werr == nil {
			select {
			case got, ok = <-w.lines:
			case <-time.After(perCase):
				w.kill()
				w = nil
				restarts++
				res[i] = implRes{obs: "(hang)"}
				continue
			}
		}
		if werr != nil || !ok {
			w.kill()
			res[i] = implRes{obs: "(crash process-died)", stderr: w.stderr.String()}
			w = nil
			restarts++
			continue
		}
		x, err := sx.Parse(got)
		if err != nil || x.K != sx.List || len(x.Xs) != 3 {
			res[i] = implRes{obs: "(bad-worker-output)"}
			continue
		}
		res[i].obs = x.Xs[1].String()
		v := x.Xs[2]
		if len(v.Xs) == 2 && v.Xs[0].A == "fail" {
			res[i].fail = string(v.Xs[1].B)
			if res[i].fail == "" {
				res[i].fail = "oracle failed"
			}
		}
	}
	// A case that did not return within the limit may just have been starved (other checks, a seed battery
	// and a dozen compilers can share the machine): it is run again, alone in a fresh worker, with fifteen
	// times the limit, and only if it does not return then either is it a hang.  Once three hangs are
	// confirmed the remaining time-outs are taken at their word - there is a failing input already.
	confirmed := 0
	for i := range cases {
		if res[i].obs != "(hang)" || confirmed >= 3 {
			continue
		}
		w2, err := startWorker()
		if err != nil {
			break
		}
		c := &cases[i]
		meta := c.Meta
		if meta == nil {
			meta = sx.L()
		}
		line := sx.L(sx.I(int64(c.ID)), c.Cmd, meta).String() + "\n"
		if _, werr := io.WriteString(w2.stdin, line); werr != nil {
			w2.kill()
			continue
		}
		select {
		case got, ok := <-w2.lines:
			if !ok {
				res[i] = implRes{obs: "(crash process-died)", stderr: w2.stderr.String()}
				break
			}
			x, err := sx.Parse(got)
			if err != nil || x.K != sx.List || len(x.Xs) != 3 {
				res[i] = implRes{obs: "(bad-worker-output)"}
				break
			}
			res[i] = implRes{obs: x.Xs[1].String()}
			v := x.Xs[2]
			if len(v.Xs) == 2 && v.Xs[0].A == "fail" {
				res[i].fail = string(v.Xs[1].B)
				if res[i].fail == "" {
					res[i].fail = "oracle failed"
				}
			}
		case <-time.After(15 * perCase):
			confirmed++
		}
		w2.kill()
	}
	return res, restarts
}

// runModel pipes all model cases through the Lean driver.
func runModel(cases []Case, driver string) (map[int]string, error) {
	out := map[int]string{}
	var pending []int
	for i := range cases {
		if !cases[i].NoModel {
			pending = append(pending, i)
		}
	}
	deaths := 0
	for len(pending) > 0 {
		answered, err := runDriverOnce(cases, pending, driver, out)
		if answered >= len(pending) {
			break
		}
		// the driver died (stack exhaustion on a deeply recursive program, typically) while working on
		// pending[answered]: that case is outside what the executable model can evaluate; go on after it
		deaths++
		out[cases[pending[answered]].ID] = "(unsupported model-driver-died)"
		pending = pending[answered+1:]
		if deaths > 50 {
			return out, fmt.Errorf("model driver died %d times, last: %v", deaths, err)
		}
	}
	return out, nil
}

// runDriverOnce feeds the pending cases to one driver process; answers come back in order, one line
// per case, flushed per line.  Returns how many were answered.
func runDriverOnce(cases []Case, pending []int, driver string, out map[int]string) (int, error) {
	cmd := exec.Command("sh", "-c", `ulimit -s 4000000 2>/dev/null || ulimit -s unlimited 2>/dev/null; exec "$0"`, driver)
	stdin, err := cmd.StdinPipe()
	if err != nil {
		return 0, err
	}
	stdout, err := cmd.StdoutPipe()
	if err != nil {
		return 0, err
	}
	cmd.Stderr = io.Discard
	if err := cmd.Start(); err != nil {
		return 0, err
	}
	go func() {
		bw := bufio.NewWriterSize(stdin, 1<<20)
		for _, i := range pending {
			bw.WriteString(sx.L(sx.I(int64(cases[i].ID)), cases[i].Cmd).String())
			bw.WriteByte('\n')
		}
		bw.Flush()
		stdin.Close()
	}()
	rd := bufio.NewReaderSize(stdout, 1<<20)
	answered := 0
	for {
		l, err := rd.ReadString('\n')
		if len(l) > 0 && strings.HasSuffix(l, "\n") {
			x, perr := sx.Parse(strings.TrimRight(l, "\n"))
			if perr == nil && x.K == sx.List && len(x.Xs) == 2 && x.Xs[0].K == sx.Atom {
				var id int
				fmt.Sscanf(x.Xs[0].A, "%d", &id)
				out[id] = x.Xs[1].String()
			}
			answered++
		}
		if err != nil {
			break
		}
	}
	werr := cmd.Wait()
	return answered, werr
}

// ---------------------------------------------------------------- results

type Issue struct {
	Kind     string `json:"kind"` // "disagreement" | "oracle" | "impl-crash" | "impl-hang"
	Stream   string `json:"stream"`
	Case     string `json:"case"`
	Meta     string `json:"meta,omitempty"`
	Impl     string `json:"impl"`
	Model    string `json:"model,omitempty"`
	ModelRaw string `json:"model_raw,omitempty"`
	Oracle   string `json:"oracle,omitempty"`
	Corpus   string `json:"corpus,omitempty"`
}

type StreamStat struct {
	Cases          int            `json:"cases"`
	Distinct       int            `json:"distinct"`
	NonTrivial     int            `json:"distinct_nontrivial"`
	ModelCases     int            `json:"model_cases"`
	Unsupported    int            `json:"unsupported"`
	UnsupportedWhy map[string]int `json:"unsupported_why,omitempty"`
	Agreements     int            `json:"agreements"`
	OracleChecks   int            `json:"oracle_checked"`
	Tags           map[string]int `json:"tags"`
	ImplClasses    map[string]int `json:"impl_result_classes"`
}

type Result struct {
	Property     string                 `json:"property"`
	Seed         uint64                 `json:"seed"`
	Tier         string                 `json:"tier"`
	Streams      map[string]*StreamStat `json:"streams"`
	Issues       []Issue                `json:"issues"`
	Samples      []map[string]string    `json:"samples"`
	DriverDeaths []string               `json:"model_driver_deaths,omitempty"` // cases the executable model could not evaluate (driver process died)
	Restarts     int                    `json:"worker_restarts"`
	WallS        float64                `json:"wall_s"`
	Error        string                 `json:"error,omitempty"`
}

func classOf(obs string) string {
	// first atom of the observation, e.g. "(ok ...)" -> ok; byte strings -> "bytes"
	if strings.HasPrefix(obs, "#") {
		return "bytes"
	}
	s := strings.TrimLeft(obs, "(")
	i := strings.IndexAny(s, " )")
	if i < 0 {
		return s
	}
	if i > 24 {
		i = 24
	}
	return s[:i]
}

// Run executes property p and writes the result JSON.
func Run(pid, tier string, seed uint64, driver, outPath, corpusDir string, only string) int {
	p := props[pid]
	if p == nil {
		fmt.Fprintln(os.Stderr, "unknown property", pid)
		return 3
	}
	t0 := time.Now()
	r := NewRand(seed)
	var cases []Case
	cases = append(cases, loadCorpus(corpusDir, pid)...)
	if only == "" {
		cases = append(cases, p.Gen(r, tier)...)
	} else if only != "corpus" {
		// replay of a single case given as "(stream cmd meta)"
		x, err := sx.Parse(only)
		if err == nil && x.K == sx.List && len(x.Xs) >= 2 {
			c := Case{Stream: x.Xs[0].A, Cmd: x.Xs[1], NonTrivial: true, Corpus: "replay"}
			if len(x.Xs) > 2 {
				c.Meta = x.Xs[2]
			}
			if len(x.Xs) > 3 && x.Xs[3].A == "nomodel" {
				c.NoModel = true
			}
			cases = []Case{c}
		}
	}
	for i := range cases {
		cases[i].ID = i
	}
	res := &Result{Property: pid, Seed: seed, Tier: tier, Streams: map[string]*StreamStat{}, Issues: []Issue{}}
	// phase 1: preparation commands (real code) for two-phase cases
	var prepIdx []int
	var prepCases []Case
	for i := range cases {
		if cases[i].Prep != nil && cases[i].Cmd == nil {
			prepIdx = append(prepIdx, i)
			prepCases = append(prepCases, Case{ID: len(prepCases), Cmd: cases[i].Prep, Meta: cases[i].Meta})
		}
	}
	prepFailed := map[int]string{}
	if len(prepCases) > 0 {
		pres, prs := runImpl(prepCases, 20*time.Second)
		res.Restarts += prs
		for k, i := range prepIdx {
			x, err := sx.Parse(pres[k].obs)
			if err != nil || strings.HasPrefix(pres[k].obs, "(crash") || strings.HasPrefix(pres[k].obs, "(hang") {
				prepFailed[i] = pres[k].obs
				cases[i].Cmd = sx.L(sx.A("prep-failed"), cases[i].Prep)
				cases[i].NoModel = true
				continue
			}
			cases[i].Cmd = cases[i].Finish(x)
		}
	}
	impl, restarts := runImpl(cases, 6*time.Second)
	for i, why := range prepFailed {
		impl[i] = implRes{obs: why, fail: "the implementation crashed or hung while preparing (parsing) the case"}
	}
	res.Restarts += restarts
	model, merr := runModel(cases, driver)
	if merr != nil {
		res.Error = merr.Error()
	}
	seen := map[string]bool{}
	for i := range cases {
		c := &cases[i]
		st := res.Streams[c.Stream]
		if st == nil {
			st = &StreamStat{Tags: map[string]int{}, ImplClasses: map[string]int{}}
			res.Streams[c.Stream] = st
		}
		st.Cases++
		key := c.Stream + "|" + c.Cmd.String()
		if !seen[key] {
			seen[key] = true
			st.Distinct++
			if c.NonTrivial {
				st.NonTrivial++
			}
		}
		for _, t := range c.Tags {
			st.Tags[t]++
		}
		st.ImplClasses[classOf(impl[i].obs)]++
		metaS := ""
		if c.Meta != nil {
			metaS = c.Meta.String()
		}
		iss := Issue{Stream: c.Stream, Case: c.Cmd.String(), Meta: metaS, Impl: impl[i].obs, Corpus: c.Corpus}
		st.OracleChecks++
		if impl[i].fail == "" && (impl[i].obs == "(hang)" || impl[i].obs == "(crash process-died)") {
			// the worker process died (fatal error, unrecovered panic in any goroutine, stack overflow) or did
			// not return: a failing input by itself, unless the model says the program diverges as well
			diverges := !c.NoModel && strings.HasPrefix(model[c.ID], "(unsupported fuel")
			if !diverges {
				if impl[i].obs == "(hang)" {
					impl[i].fail = "the implementation did not return within the per-case time limit"
				} else {
					impl[i].fail = "the implementation killed its process (fatal error, unrecovered panic or detected data race): " + firstLines(impl[i].stderr, 14)
				}
			}
		}
		if impl[i].fail != "" {
			x := iss
			x.Kind = "oracle"
			x.Oracle = impl[i].fail
			res.Issues = append(res.Issues, x)
		}
		if !c.NoModel {
			st.ModelCases++
			m, ok := model[c.ID]
			if !ok {
				m = "(no-model-output)"
			}
			iss.ModelRaw = clip(m, 400)
			if nf := ModelNormalizers[headOf(c.Cmd)]; nf != nil {
				if mx, err := sx.Parse(m); err == nil {
					m = nf(mx).String()
				}
			}
			implObs := impl[i].obs
			if pf := PairNormalizers[headOf(c.Cmd)]; pf != nil {
				implObs, m = pf(implObs, m)
			}
			iss.Model = m
			if strings.HasPrefix(m, "(unsupported") {
				st.Unsupported++
				if st.UnsupportedWhy == nil {
					st.UnsupportedWhy = map[string]int{}
				}
				st.UnsupportedWhy[clip(m, 60)]++
				if os.Getenv("VERIF_DBG_UNSUP") != "" && strings.Contains(m, os.Getenv("VERIF_DBG_UNSUP")) {
					fmt.Fprintln(os.Stderr, "UNSUP", m, clip(c.Cmd.String(), 2000), "META", clip(metaS, 3000))
				}
				if strings.HasPrefix(m, "(unsupported model-driver-died") && len(res.DriverDeaths) < 10 {
					res.DriverDeaths = append(res.DriverDeaths, clip(c.Cmd.String(), 300)+" | meta "+clip(metaS, 12000))
				}
				bothDiverge := strings.HasPrefix(m, "(unsupported fuel") && (impl[i].obs == "(hang)" || impl[i].obs == "(crash process-died)")
				if !bothDiverge && (impl[i].obs == "(hang)" || strings.HasPrefix(impl[i].obs, "(crash")) {
					x := iss
					x.Kind = "impl-" + classOf(impl[i].obs)
					x.Model = m
					res.Issues = append(res.Issues, x)
				}
			} else if m == implObs {
				st.Agreements++
			} else {
				x := iss
				x.Kind = "disagreement"
				res.Issues = append(res.Issues, x)
			}
		}
		if ds := os.Getenv("VERIF_DBG_STREAM"); ds != "" && ds == c.Stream {
			fmt.Fprintln(os.Stderr, "CASE", strings.Join(c.Tags, ","), "|", clip(c.Cmd.String(), 1500), "|", clip(impl[i].obs, 400))
		}
		if len(res.Samples) < 12 && (i%((len(cases)/12)+1) == 0) {
			res.Samples = append(res.Samples, map[string]string{"stream": c.Stream, "case": clip(c.Cmd.String(), 600), "impl": clip(impl[i].obs, 300), "model": clip(iss.Model, 300)})
		}
	}
	if len(res.Issues) > 200 {
		res.Issues = res.Issues[:200]
	}
	res.WallS = time.Since(t0).Seconds()
	b, _ := json.MarshalIndent(res, "", " ")
	if outPath == "" || outPath == "-" {
		os.Stdout.Write(b)
		fmt.Println()
	} else {
		os.WriteFile(outPath, b, 0o644)
	}
	return 0
}

func firstLines(s string, n int) string {
	ls := strings.Split(strings.TrimSpace(s), "\n")
	if len(ls) > n {
		ls = ls[:n]
	}
	return clip(strings.Join(ls, " | "), 1500)
}

func clip(s string, n int) string {
	if len(s) > n {
		return s[:n] + "…"
	}
	return s
}

// corpus files: one "(stream cmd meta [nomodel])" per line, '#'-prefixed lines are comments
func loadCorpus(dir, pid string) []Case {
	var out []Case
	ents, err := os.ReadDir(dir + "/" + pid)
	if err != nil {
		return nil
	}
	names := []string{}
	for _, e := range ents {
		names = append(names, e.Name())
	}
	sort.Strings(names)
	for _, n := range names {
		b, err := os.ReadFile(dir + "/" + pid + "/" + n)
		if err != nil {
			continue
		}
		for _, line := range strings.Split(string(b), "\n") {
			line = strings.TrimSpace(line)
			if line == "" || strings.HasPrefix(line, ";") {
				continue
			}
			x, err := sx.Parse(line)
			if err != nil || x.K != sx.List || len(x.Xs) < 2 {
				continue
			}
			c := Case{Stream: x.Xs[0].A, Cmd: x.Xs[1], NonTrivial: true, Corpus: n, Tags: []string{"corpus"}}
			if len(x.Xs) > 2 {
				c.Meta = x.Xs[2]
			}
			if len(x.Xs) > 3 && x.Xs[3].A == "nomodel" {
				c.NoModel = true
			}
			out = append(out, c)
		}
	}
	return out
}

// Perm returns a random permutation of 0..n-1
func (r *Rand) Perm(n int) []int {
	p := make([]int, n)
	for i := range p {
		p[i] = i
	}
	for i := n - 1; i > 0; i-- {
		j := r.Intn(i + 1)
		p[i], p[j] = p[j], p[i]
	}
	return p
}
