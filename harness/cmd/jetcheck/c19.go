package main

import (
	"embed"
	"fmt"
	"io"
	"io/ioutil"
	"net/http"
	"os"
	"path"
	"strings"
	"path/filepath"
	"strconv"

	"github.com/CloudyKit/jet/v6"
	"github.com/CloudyKit/jet/v6/loaders/embedfs"
	"github.com/CloudyKit/jet/v6/loaders/httpfs"
	"github.com/CloudyKit/jet/v6/loaders/multi"

	"jetverif/harness/h"
	"jetverif/harness/sx"
)

//go:embed all:embedtree
var embedTree embed.FS

// the tree every file-system loader is rooted at: canonical path -> content; directories listed
// (names with dots in odd places are ordinary names: "..", as a path element, never reaches a loader)
var fsFiles = map[string]string{"/a.jet": "A", "/sub/b.jet": "B", "/sub/deep/c.jet": "C", "/x.html.jet": "X",
	"/rep.v1..v2.jet": "R", "/arch..2024/x.jet": "Y", "/sub/..c.jet": "D"}
var shadowFiles = map[string]string{"/a.jet/part.jet": "P", "/sub/b.jet/x/y.jet": "Q", "/" + strings.Repeat("n", 300) + ".jet": "L", "/sub/" + strings.Repeat("é", 200) + "/z.jet": "Z"}
var fsDirs = []string{"/", "/sub", "/sub/deep", "/emptydir", "/arch..2024"}

func genC19(r *h.Rand, tier string) []h.Case {
	n := 500
	if tier == "search" {
		n = 2000
	} else if tier != "quick" {
		n = 20000
	}
	var cs []h.Case
	for i := 0; i < n; i++ {
		switch i % 5 {
		case 0, 1: // in-memory loader histories with arbitrary spellings
			nops := 3 + r.Intn(10)
			cmd := sx.L(sx.A("inmem"))
			pool := []string{}
			for k := 0; k < 3; k++ {
				pool = append(pool, genName(r))
			}
			spell := func() string {
				base := r.Pick(pool)
				switch r.Intn(7) {
				case 0:
					return "./" + base
				case 1:
					return "/" + base
				case 2:
					return base + "/"
				case 3:
					return "x/../" + base
				case 4:
					return path.Clean("/" + base)
				case 5:
					return "//" + base + "/."
				}
				return base
			}
			nt := false
			for k := 0; k < nops; k++ {
				switch r.Intn(5) {
				case 0, 1:
					cmd.Add(sx.L(sx.A("set"), sx.S(spell()), sx.S(strconv.Itoa(r.Intn(100)))))
				case 2:
					cmd.Add(sx.L(sx.A("delete"), sx.S(spell())))
					nt = true
				case 3:
					cmd.Add(sx.L(sx.A("exists"), sx.S(spell())))
				default:
					cmd.Add(sx.L(sx.A("open"), sx.S(spell())))
				}
			}
			cs = append(cs, h.Case{Stream: "inmem", Cmd: cmd, NonTrivial: nt, Tags: []string{"inmem-history"}})
		case 2: // multi loader over overlapping in-memory loaders
			nl := r.Intn(4)
			loaders := sx.L()
			paths := []string{"/a", "/b", "/d/c", "/a.jet"}
			for k := 0; k < nl; k++ {
				l := sx.L()
				for _, p := range paths {
					if r.Chance(45) {
						l.Add(sx.L(sx.S(p), sx.S("L"+strconv.Itoa(k)+p)))
					}
				}
				loaders.Add(l)
			}
			qs := sx.L()
			for _, p := range append(paths, "/zz") {
				qs.Add(sx.L(sx.A("exists"), sx.S(p)))
				qs.Add(sx.L(sx.A("open"), sx.S(p)))
			}
			cs = append(cs, h.Case{Stream: "multi", Cmd: sx.L(sx.A("multi"), loaders, qs), NonTrivial: nl > 1, Tags: []string{"multi"}})
		case 3:
			if i%10 == 3 {
				cs = append(cs, genMultiTree(r))
				continue
			}
			nl := 2 + r.Intn(2)
			paths := []string{"/a.jet", "/b.jet", "/d/c.jet"}
			c := sx.L(sx.A("multi-history"), sx.I(int64(nl)))
			nops := 5 + r.Intn(10)
			ver := 0
			for k := 0; k < nops; k++ {
				p := r.Pick(paths)
				switch pickW(r, "set", 3, "del", 1, "exists", 3, "open", 4) {
				case "set":
					ver++
					c.Add(sx.L(sx.A("set"), sx.I(int64(r.Intn(nl))), sx.S(r.Pick([]string{p, "/x/.." + p, p[1:]})), sx.S(fmt.Sprintf("v%d", ver))))
				case "del":
					c.Add(sx.L(sx.A("del"), sx.I(int64(r.Intn(nl))), sx.S(p)))
				case "exists":
					c.Add(sx.L(sx.A("exists"), sx.S(p)))
				default:
					c.Add(sx.L(sx.A("open"), sx.S(p)))
				}
			}
			if r.Chance(60) {
				// a path first served by a later loader, then gained (or lost) by an earlier one
				p := r.Pick(paths)
				late := 1 + r.Intn(nl-1)
				c.Add(sx.L(sx.A("del"), sx.I(0), sx.S(p)))
				c.Add(sx.L(sx.A("set"), sx.I(int64(late)), sx.S(p), sx.S("late")))
				c.Add(sx.L(sx.A(r.Pick([]string{"exists", "open"})), sx.S(p)))
				c.Add(sx.L(sx.A("set"), sx.I(int64(r.Intn(late))), sx.S(p), sx.S("early")))
				c.Add(sx.L(sx.A("open"), sx.S(p)))
				c.Add(sx.L(sx.A("exists"), sx.S(p)))
				c.Add(sx.L(sx.A("del"), sx.I(int64(late)), sx.S(p)))
				c.Add(sx.L(sx.A("open"), sx.S(p)))
			}
			cs = append(cs, h.Case{Stream: "multi-history", Cmd: c, NonTrivial: true, Tags: []string{"multi-history"}})
		default: // file-system loaders: every canonical path of the tree and near-misses (oracle only)
			all := []string{}
			for p := range fsFiles {
				all = append(all, p)
			}
			all = append(all, fsDirs...)
			all = append(all, "/missing.jet", "/sub/missing", "/a.jet/x", "/sub/deep/c", "/a", "/rep.v1.v2.jet", "/arch.2024/x.jet", "/sub/.c.jet", "/...", "/sub/...")
			sortStrings(all)
			p := r.Pick(all)
			kind := r.Pick([]string{"os", "http", "embed", "os-stack", "shadow-stack"})
			if kind == "shadow-stack" {
				// a later loader holds paths an earlier file-system loader cannot even look at (a regular file where
				// the path has a directory, a segment longer than a file name may be): still first-loader-that-has-it
				keys := []string{"/a.jet", "/sub/b.jet", "/missing.jet"}
				for k := range shadowFiles {
					keys = append(keys, k, k)
				}
				sortStrings(keys)
				p = r.Pick(keys)
			}
			cmd := sx.L(sx.A("fsq"), sx.A(kind), sx.S(p))
			if kind == "embed" {
				// the directory inside the embed.FS, in every spelling that names it - or its parent, with the
				// directory's name in front of the path asked for
				cmd.Add(sx.S(r.Pick([]string{"embedtree", "embedtree", "./embedtree", "embedtree/", "embedtree/.", "embedtree/sub/..", ".", "./", "embedtree/..", "embedtree/sub/../.."})))
			}
			cs = append(cs, h.Case{Stream: "fs", Cmd: cmd, NoModel: true, NonTrivial: true, Tags: []string{kind}})
		}
	}
	return cs
}

// a forest: in-memory leaves and Multi loaders nested into one another (a Multi only into one with a
// smaller index), stacks and leaves edited while every Multi is queried
func genMultiTree(r *h.Rand) h.Case {
	nl, nm := 2+r.Intn(3), 2+r.Intn(2)
	paths := []string{"/a.jet", "/b.jet", "/d/c.jet"}
	c := sx.L(sx.A("multi-tree"), sx.I(int64(nl)), sx.I(int64(nm)))
	leaf := func() *sx.Sexp { return sx.L(sx.A("leaf"), sx.I(int64(r.Intn(nl)))) }
	if r.Chance(40) {
		// two of the stacks are built from ONE list of loaders (NewLoader(base...) twice): they share nothing but
		// their first members; clearing and refilling one must not change what the other answers
		i := r.Intn(nm)
		j := (i + 1 + r.Intn(nm-1)) % nm
		c.Add(sx.L(sx.A("init"), sx.I(int64(i)), sx.I(int64(j)), sx.I(int64(r.Intn(nl))), sx.I(int64(r.Intn(nl)))))
		c.Add(sx.L(sx.A("set"), sx.I(int64(r.Intn(nl))), sx.S("/a.jet"), sx.S("i0")))
		c.Add(sx.L(sx.A("set"), sx.I(int64(r.Intn(nl))), sx.S("/b.jet"), sx.S("i1")))
		c.Add(sx.L(sx.A("clear"), sx.I(int64(i))))
		c.Add(sx.L(sx.A("add"), sx.I(int64(i)), leaf()))
		c.Add(sx.L(sx.A("open"), sx.I(int64(j)), sx.S("/a.jet")))
		c.Add(sx.L(sx.A("open"), sx.I(int64(j)), sx.S("/b.jet")))
	}
	// an initial shape: multi 0 holds a leaf and multi 1
	c.Add(sx.L(sx.A("add"), sx.I(0), leaf()))
	c.Add(sx.L(sx.A("add"), sx.I(0), sx.L(sx.A("multi"), sx.I(1))))
	ver := 0
	nops := 8 + r.Intn(14)
	for k := 0; k < nops; k++ {
		p := r.Pick(paths)
		switch pickW(r, "set", 4, "del", 1, "add", 3, "clear", 1, "exists", 3, "open", 5) {
		case "set":
			ver++
			c.Add(sx.L(sx.A("set"), sx.I(int64(r.Intn(nl))), sx.S(r.Pick([]string{p, p[1:]})), sx.S(fmt.Sprintf("v%d", ver))))
		case "del":
			c.Add(sx.L(sx.A("del"), sx.I(int64(r.Intn(nl))), sx.S(p)))
		case "add":
			m := r.Intn(nm)
			if m+1 < nm && r.Chance(35) {
				c.Add(sx.L(sx.A("add"), sx.I(int64(m)), sx.L(sx.A("multi"), sx.I(int64(m+1+r.Intn(nm-m-1))))))
			} else {
				c.Add(sx.L(sx.A("add"), sx.I(int64(m)), leaf()))
			}
		case "clear":
			c.Add(sx.L(sx.A("clear"), sx.I(int64(r.Intn(nm)))))
		case "exists":
			c.Add(sx.L(sx.A("exists"), sx.I(int64(r.Intn(nm))), sx.S(p)))
		default:
			c.Add(sx.L(sx.A("open"), sx.I(int64(r.Intn(nm))), sx.S(p)))
		}
	}
	for _, p := range paths {
		c.Add(sx.L(sx.A("open"), sx.I(0), sx.S(p)))
		c.Add(sx.L(sx.A("exists"), sx.I(0), sx.S(p)))
	}
	return h.Case{Stream: "multi-tree", Cmd: c, NonTrivial: true, Tags: []string{"multi-tree"}}
}

func refNormalize(p string) string { return path.Join("/", filepath.ToSlash(p)) }

func fsRoot() string {
	root := filepath.Join(scratch(), "c19root")
	if _, err := os.Stat(root); err != nil {
		for p, c := range fsFiles {
			os.MkdirAll(filepath.Join(root, filepath.Dir(p)), 0o755)
			os.WriteFile(filepath.Join(root, p), []byte(c), 0o644)
		}
		for _, d := range fsDirs {
			os.MkdirAll(filepath.Join(root, d), 0o755)
		}
	}
	return root
}

func init() {
	h.RegisterProp(&h.Prop{ID: "C19", Gen: genC19})
	h.RegisterImpl("inmem", func(cmd, _ *sx.Sexp) (*sx.Sexp, string) {
		l := jet.NewInMemLoader()
		ref := map[string]string{} // the oracle's own record, keyed by clean absolute path
		out := sx.L()
		fail := ""
		for _, op := range cmd.Xs[1:] {
			p := string(op.Xs[1].B)
			switch op.Xs[0].A {
			case "set":
				l.Set(p, string(op.Xs[2].B))
				ref[refNormalize(p)] = string(op.Xs[2].B)
			case "delete":
				l.Delete(p)
				delete(ref, refNormalize(p))
			case "exists":
				e := l.Exists(p)
				out.Add(sx.Bool(e))
				_, want := ref[refNormalize(p)]
				if e != want && fail == "" {
					fail = "InMemLoader.Exists(" + strconv.Quote(p) + ") = " + strconv.FormatBool(e) + " but an entry with the same clean path " + map[bool]string{true: "exists", false: "does not exist"}[want]
				}
				if e {
					if f, err := l.Open(p); err != nil && fail == "" {
						fail = "Exists(" + strconv.Quote(p) + ") is true but Open fails"
					} else if err == nil {
						f.Close()
					}
				}
			case "open":
				f, err := l.Open(p)
				want, has := ref[refNormalize(p)]
				if err != nil {
					out.Add(sx.A("none"))
					if has && fail == "" {
						fail = "Open(" + strconv.Quote(p) + ") fails although content was stored under the same clean path"
					}
				} else {
					b, _ := ioutil.ReadAll(f)
					f.Close()
					out.Add(sx.B(b))
					if (!has || string(b) != want) && fail == "" {
						fail = "Open(" + strconv.Quote(p) + ") = " + strconv.Quote(string(b)) + ", stored: " + strconv.Quote(want)
					}
				}
			}
		}
		return out, fail
	})
	// (multi-history n ops...): one long-lived Multi over n in-memory loaders that are edited while it is queried
	h.RegisterImpl("multi-history", func(cmd, _ *sx.Sexp) (*sx.Sexp, string) {
		n := atoi(cmd.Xs[1].A)
		var ims []*jet.InMemLoader
		var ls []jet.Loader
		var refs []map[string]string
		for i := 0; i < n; i++ {
			im := jet.NewInMemLoader()
			ims = append(ims, im)
			ls = append(ls, im)
			refs = append(refs, map[string]string{})
		}
		m := multi.NewLoader(ls[0])
		m.AddLoaders(ls[1:]...)
		out := sx.L()
		fail := ""
		for _, op := range cmd.Xs[2:] {
			switch op.Xs[0].A {
			case "set":
				i := atoi(op.Xs[1].A)
				ims[i].Set(string(op.Xs[2].B), string(op.Xs[3].B))
				refs[i][refNormalize(string(op.Xs[2].B))] = string(op.Xs[3].B)
				out.Add(sx.A("ok"))
			case "del":
				i := atoi(op.Xs[1].A)
				ims[i].Delete(string(op.Xs[2].B))
				delete(refs[i], refNormalize(string(op.Xs[2].B)))
				out.Add(sx.A("ok"))
			default:
				p := string(op.Xs[1].B)
				want, has := "", false
				for _, ref := range refs {
					if c, ok := ref[refNormalize(p)]; ok {
						want, has = c, true
						break
					}
				}
				if op.Xs[0].A == "exists" {
					e := m.Exists(p)
					out.Add(sx.Bool(e))
					if e != has && fail == "" {
						fail = fmt.Sprintf("Multi.Exists(%s) = %v, the first loader that has it: %v", p, e, has)
					}
				} else {
					f, err := m.Open(p)
					if err != nil {
						out.Add(sx.A("none"))
						if has && fail == "" {
							fail = "Multi.Open(" + p + ") failed although a stacked loader has the path"
						}
					} else {
						b, _ := io.ReadAll(f)
						f.Close()
						out.Add(sx.S(string(b)))
						if (!has || string(b) != want) && fail == "" {
							fail = fmt.Sprintf("Multi.Open(%s) returned %q, the first stacked loader that has the path holds %q (exists=%v)", p, b, want, has)
						}
					}
				}
			}
		}
		return out, fail
	})
	h.RegisterImpl("multi-tree", func(cmd, _ *sx.Sexp) (*sx.Sexp, string) {
		nl, nm := atoi(cmd.Xs[1].A), atoi(cmd.Xs[2].A)
		var ims []*jet.InMemLoader
		var refs []map[string]string
		for i := 0; i < nl; i++ {
			ims = append(ims, jet.NewInMemLoader())
			refs = append(refs, map[string]string{})
		}
		type child struct {
			multi bool
			i     int
		}
		var ms []*multi.Multi
		stacks := make([][]child, nm)
		for i := 0; i < nm; i++ {
			ms = append(ms, multi.NewLoader())
		}
		// the rule of the property, by direct recursion over the stacks as they are now
		var lookup func(m int, p string) (string, bool)
		lookup = func(m int, p string) (string, bool) {
			for _, c := range stacks[m] {
				if c.multi {
					if v, ok := lookup(c.i, p); ok {
						return v, true
					}
				} else if v, ok := refs[c.i][refNormalize(p)]; ok {
					return v, true
				}
			}
			return "", false
		}
		out := sx.L()
		fail := ""
		for _, op := range cmd.Xs[3:] {
			switch op.Xs[0].A {
			case "set":
				i := atoi(op.Xs[1].A)
				ims[i].Set(string(op.Xs[2].B), string(op.Xs[3].B))
				refs[i][refNormalize(string(op.Xs[2].B))] = string(op.Xs[3].B)
				out.Add(sx.A("ok"))
			case "del":
				i := atoi(op.Xs[1].A)
				ims[i].Delete(string(op.Xs[2].B))
				delete(refs[i], refNormalize(string(op.Xs[2].B)))
				out.Add(sx.A("ok"))
			case "add":
				i, j := atoi(op.Xs[1].A), atoi(op.Xs[2].Xs[1].A)
				if op.Xs[2].Xs[0].A == "multi" {
					ms[i].AddLoaders(ms[j])
					stacks[i] = append(stacks[i], child{true, j})
				} else {
					ms[i].AddLoaders(ims[j])
					stacks[i] = append(stacks[i], child{false, j})
				}
				out.Add(sx.A("ok"))
			case "init":
				i, j, a, b := atoi(op.Xs[1].A), atoi(op.Xs[2].A), atoi(op.Xs[3].A), atoi(op.Xs[4].A)
				base := []jet.Loader{ims[a], ims[b]}
				ms[i] = multi.NewLoader(base...)
				ms[j] = multi.NewLoader(base...)
				stacks[i] = []child{{false, a}, {false, b}}
				stacks[j] = []child{{false, a}, {false, b}}
				out.Add(sx.A("ok"))
			case "clear":
				i := atoi(op.Xs[1].A)
				ms[i].ClearLoaders()
				stacks[i] = nil
				out.Add(sx.A("ok"))
			default:
				m, p := atoi(op.Xs[1].A), string(op.Xs[2].B)
				want, has := lookup(m, p)
				if op.Xs[0].A == "exists" {
					e := ms[m].Exists(p)
					out.Add(sx.Bool(e))
					if e != has && fail == "" {
						fail = fmt.Sprintf("Multi#%d.Exists(%s) = %v, but walking its current stack finds the path: %v", m, p, e, has)
					}
				} else {
					f, err := ms[m].Open(p)
					if err != nil {
						out.Add(sx.A("none"))
						if has && fail == "" {
							fail = fmt.Sprintf("Multi#%d.Open(%s) failed although a loader on its current stack has the path", m, p)
						}
					} else {
						b, _ := io.ReadAll(f)
						f.Close()
						out.Add(sx.S(string(b)))
						if (!has || string(b) != want) && fail == "" {
							fail = fmt.Sprintf("Multi#%d.Open(%s) returned %q, the first loader on its current stack that has the path holds %q (exists=%v)", m, p, b, want, has)
						}
					}
				}
			}
		}
		return out, fail
	})
	h.RegisterImpl("multi", func(cmd, _ *sx.Sexp) (*sx.Sexp, string) {
		var ls []jet.Loader
		var refs []map[string]string
		for _, l := range cmd.Xs[1].Xs {
			im := jet.NewInMemLoader()
			ref := map[string]string{}
			for _, e := range l.Xs {
				im.Set(string(e.Xs[0].B), string(e.Xs[1].B))
				ref[string(e.Xs[0].B)] = string(e.Xs[1].B)
			}
			ls = append(ls, im)
			refs = append(refs, ref)
		}
		var m *multi.Multi
		if len(ls) > 1 {
			m = multi.NewLoader(ls[0])
			m.AddLoaders(ls[1:]...)
		} else {
			m = multi.NewLoader(ls...)
		}
		out := sx.L()
		fail := ""
		for _, q := range cmd.Xs[2].Xs {
			p := string(q.Xs[1].B)
			want, has := "", false
			for _, ref := range refs {
				if c, ok := ref[p]; ok {
					want, has = c, true
					break
				}
			}
			if q.Xs[0].A == "exists" {
				e := m.Exists(p)
				out.Add(sx.Bool(e))
				if e != has && fail == "" {
					fail = "Multi.Exists(" + p + ") = " + strconv.FormatBool(e)
				}
			} else {
				f, err := m.Open(p)
				if err != nil {
					out.Add(sx.A("none"))
					if has && fail == "" {
						fail = "Multi.Open(" + p + ") fails"
					}
				} else {
					b, _ := ioutil.ReadAll(f)
					f.Close()
					out.Add(sx.B(b))
					if string(b) != want && fail == "" {
						fail = "Multi.Open(" + p + ") = " + strconv.Quote(string(b)) + " but the first loader that has it stores " + strconv.Quote(want)
					}
				}
			}
		}
		return out, fail
	})
	h.RegisterImpl("fsq", func(cmd, _ *sx.Sexp) (*sx.Sexp, string) {
		kind := cmd.Xs[1].A
		p := string(cmd.Xs[2].B)
		var l jet.Loader
		switch kind {
		case "os":
			l = jet.NewOSFileSystemLoader(fsRoot())
		case "http":
			l, _ = httpfs.NewLoader(http.Dir(fsRoot()))
		case "embed":
			root := "embedtree"
			if len(cmd.Xs) > 3 {
				root = string(cmd.Xs[3].B)
			}
			l = embedfs.NewLoader(root, embedTree)
			kind = "embed(root " + strconv.Quote(root) + ")"
		case "os-stack":
			l = multi.NewLoader(jet.NewInMemLoader(), jet.NewOSFileSystemLoader(fsRoot()))
		case "shadow-stack":
			im := jet.NewInMemLoader()
			for k, v := range shadowFiles {
				im.Set(k, v)
			}
			l = multi.NewLoader(jet.NewOSFileSystemLoader(fsRoot()), im)
		}
		want, isFile := fsFiles[p]
		if kind == "shadow-stack" && !isFile {
			want, isFile = shadowFiles[p]
		}
		if len(cmd.Xs) > 3 && !strings.Contains(path.Clean(string(cmd.Xs[3].B)), "embedtree") {
			p = "/embedtree" + p // the root names the parent directory
		}
		e := l.Exists(p)
		fail := ""
		if e != isFile {
			fail = kind + " loader: Exists(" + strconv.Quote(p) + ") = " + strconv.FormatBool(e) + " but the tree has " + map[bool]string{true: "a regular file", false: "no regular file"}[isFile] + " there"
		}
		if e {
			f, err := l.Open(p)
			if err != nil {
				if fail == "" {
					fail = kind + " loader: Exists(" + strconv.Quote(p) + ") is true but Open fails: " + err.Error()
				}
			} else {
				b, rerr := ioutil.ReadAll(f)
				f.Close()
				if (rerr != nil || string(b) != want) && fail == "" {
					fail = kind + " loader: Open(" + strconv.Quote(p) + ") does not yield the stored content"
				}
			}
		}
		return sx.L(sx.Bool(e)), fail
	})
}
