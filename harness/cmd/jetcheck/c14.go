package main

import (
	"bytes"
	"encoding/json"
	"fmt"
	"html"
	"strconv"
	"net/url"
	"strings"

	"github.com/CloudyKit/jet/v6"

	"jetverif/harness/h"
	"jetverif/harness/sx"
)

// C14.  Stream "forms": one call, written in every surface form the property lists; the direct
// oracle (independent of the model) is that all spellings render the same bytes or all fail.
// Every spelling is also executed through the model (stream "eval").
// Stream "builtins": each documented built-in against the Go function it is documented to expose.

type callable struct {
	name     string // how it is written in a template
	fixed    int    // number of fixed parameters
	variadic bool
	kinds    string // one letter per fixed parameter (+ one for the variadic element): s string, i int, a any
	jetFunc  bool
}

var callables = []callable{
	{"add3", 3, false, "iii", false},
	{"cat", 1, true, "ss", false},
	{"sum", 0, true, "i", false},
	{"joinv", 1, true, "sa", false},
	{"hasPrefix", 2, false, "ss", false},
	{"upper", 1, false, "s", false},
	{"lower", 1, false, "s", false},
	{"trimSpace", 1, false, "s", false},
	{"html", 1, false, "s", false},
	{"stage", 2, false, "is", false},
	{"repeat", 2, false, "si", false},
	{"replace", 4, false, "sssi", false},
	{"ident", 1, false, "a", false},
	{"rec", 0, true, "a", true},
	{"len", 1, false, "a", true},
	{"slice", 0, true, "a", true},
	{"m3.Tag", 2, false, "si", false},
	{"pm3.Tag", 2, false, "si", false},
	{"pm3.PTag", 1, false, "s", false},
	{"m3.Cat", 0, true, "s", false},
	{"pm3.Mix", 1, true, "ia", false},
	{"st.P.B", -1, false, "", false}, // not a function: every call form must fail
}

func argOfKind(r *h.Rand, k byte) string {
	switch k {
	case 's':
		return r.Pick([]string{`"a"`, `"<b>"`, `s`, `e`, `g`, `"x" + s`, `st.B`, `ls[0]`, `"ab"`, `ident(st).B`})
	case 'i':
		return r.Pick([]string{`1`, `2`, `i`, `j`, `z`, `i + 1`, `li[0]`, `st.A`, `2.0`, `f`, `ident(st).A`})
	default:
		return r.Pick([]string{`1`, `"q"`, `s`, `i`, `t`, `l`, `li`, `st.A`, `1.5`, `"<"`, `m`, `ident(st).B`, `ident(st).A`})
	}
}

type formSet struct {
	forms []string
	note  string
}

func genForms(r *h.Rand) formSet {
	c := callables[r.Intn(len(callables))]
	n := c.fixed
	if c.fixed < 0 {
		n = 1 + r.Intn(2)
	}
	if c.variadic {
		n += r.Intn(4)
	}
	note := "ok"
	switch {
	case c.fixed >= 0 && r.Chance(12) && n > 0:
		n-- // too few (or, for variadics with n > fixed, still fine)
		note = "maybe-too-few"
	case c.fixed >= 0 && !c.variadic && r.Chance(15):
		n++
		note = "too-many"
	}
	var args []string
	for i := 0; i < n; i++ {
		k := byte('a')
		if i < len(c.kinds) {
			k = c.kinds[i]
		} else if len(c.kinds) > 0 {
			k = c.kinds[len(c.kinds)-1]
		}
		a := argOfKind(r, k)
		if r.Chance(4) {
			a = r.Pick([]string{"n", "np", `"zz"`, "el"}) // invalid / wrong-kind values
			note += "+odd-arg"
		}
		args = append(args, a)
	}
	f := c.name
	join := func(xs []string) string { return strings.Join(xs, ", ") }
	var forms []string
	forms = append(forms, f+"("+join(args)+")")
	if n > 0 {
		forms = append(forms, f+": "+join(args))
		rest := args[1:]
		if len(rest) == 0 {
			forms = append(forms, args[0]+" | "+f)
			forms = append(forms, args[0]+" | "+f+"()")
		} else {
			forms = append(forms, args[0]+" | "+f+"("+join(rest)+")")
			forms = append(forms, args[0]+" | "+f+": "+join(rest))
		}
		if args[0] != "n" { // ident itself rejects an invalid value
			forms = append(forms, args[0]+" | ident | "+f+"("+join(rest)+")")
		}
		// slot at every position
		for k := 0; k < n; k++ {
			with := append([]string{}, args...)
			with[k] = "_"
			forms = append(forms, args[k]+" | "+f+"("+join(with)+")")
			if r.Chance(30) {
				forms = append(forms, args[k]+" | "+f+": "+join(with))
			}
		}
		// the call as an argument of another call and as a piped source
		forms = append(forms, "ident("+f+"("+join(args)+"))")
		forms = append(forms, f+"("+join(args)+") | ident")
	}
	return formSet{forms: forms, note: c.name + " " + note}
}

func formsProg(r *h.Rand, fs formSet) *prog {
	p := newProg(r)
	p.esc = "html"
	p.vars.Add(bind("m3", sx.L(sx.A("struct"), sx.A("T3"), sx.L(sx.S("Pre"), vStr("m<")), sx.L(sx.S("N"), vInt(int64(r.Intn(5)))))))
	p.vars.Add(bind("pm3", vPtr("T3", sx.L(sx.A("struct"), sx.A("T3"), sx.L(sx.S("Pre"), vStr("p")), sx.L(sx.S("N"), vInt(1))))))
	p.globals.Add(bind("sum", vFunc("sum")))
	p.globals.Add(bind("joinv", vFunc("joinv")))
	p.globals.Add(bind("stage", vFunc("stage")))
	p.globals.Add(bind("stageb", vFunc("stageb")))
	return p
}

func genFormsCases(r *h.Rand) []h.Case {
	fs := genForms(r)
	if r.Chance(12) {
		// a SafeWriter command anywhere but last is an error in every spelling - also as the FIRST command of
		// the pipeline (prefix and colon calls), whatever the stage after it does with its arguments
		w := r.Pick([]string{"raw", "unsafe", "safeHtml", "safeJs"})
		next := r.Pick([]string{"isset", "rec", "rec()", "stage(1, _)", "len", "upper", "ident"})
		v := r.Pick([]string{`"a"`, `"<b>"`, "m3.Pre"})
		fs = formSet{note: "writer-not-last " + w + " " + next, forms: []string{
			v + " | " + w + " | " + next,
			w + ": " + v + " | " + next,
			w + "(" + v + ") | " + next,
			v + " | ident | " + w + " | " + next,
			w + "(" + v + ") | ident | " + next,
		}}
	}
	p := formsProg(r, fs)
	var cs []h.Case
	meta := sx.L(sx.A("files"))
	for i, f := range fs.forms {
		path := fmt.Sprintf("/f%d.jet", i)
		src := "[{{ " + f + " }}]"
		p.files[path] = src
		meta.Add(sx.L(sx.S(path), sx.S(src)))
	}
	cs = append(cs, h.Case{
		Stream: "forms", Meta: meta, NonTrivial: len(fs.forms) > 2, NoModel: true, Tags: []string{strings.Fields(fs.note)[0]},
		Cmd: sx.L(sx.A("forms"), sx.A(p.esc), p.globals, p.vars, p.data, sx.S(fs.note)),
	})
	// each spelling through the model too
	for i := range fs.forms {
		q := *p
		q.files = map[string]string{"/main.jet": p.files[fmt.Sprintf("/f%d.jet", i)]}
		q.tags = map[string]bool{"form": true}
		if i > 3 && r.Chance(50) {
			continue
		}
		cs = append(cs, evalCase("eval", &q))
	}
	return cs
}

// pipelines of recording stages: each stage exactly once, left to right
func genStageCase(r *h.Rand) h.Case {
	p := formsProg(r, formSet{})
	n := 2 + r.Intn(4)
	src := `"s"`
	want := "s"
	var ids []int
	piped := false
	if r.Chance(35) {
		// the innermost call yields a []byte: a func(string) string callee converts it - and calls it once
		ids = append(ids, 90)
		switch r.Intn(3) {
		case 0:
			src, want = `upper(stageb(90, "s"))`, "S90"
		case 1:
			src, want = `lower: stageb(90, "S")`, "s90"
			piped = true // a colon call takes the rest of the action: only pipes may follow
		default:
			src, want = `trimSpace(stageb(90, " s"))`, "s90"
		}
	}
	for k := 1; k <= n; k++ {
		ids = append(ids, k)
		form := r.Intn(4)
		if piped && form == 1 {
			form = 0 // a pipeline cannot be an argument
		}
		switch form {
		case 0:
			src += fmt.Sprintf(" | stage(%d, _)", k)
			piped = true
		case 1:
			src = fmt.Sprintf("stage(%d, %s)", k, src)
		case 2:
			src += fmt.Sprintf(" | ident | stage(%d, _)", k)
			piped = true
		default:
			src += fmt.Sprintf(" | stage: %d, _", k)
			piped = true
		}
		want += fmt.Sprint(k)
	}
	if piped && r.Chance(35) {
		// the expression that names a later stage's function is evaluated when that stage is reached: after the
		// stages before it (a call inside it is recorded after theirs)
		k := 70 + r.Intn(9)
		src += fmt.Sprintf(" | probe(%d, pm3).Cat", k)
		want = "p(" + want + ")"
		ids = append(ids, k)
	}
	p.files["/main.jet"] = "[{{ " + src + " }}]"
	log := sx.L()
	for _, k := range ids {
		log.Add(sx.L(sx.A("probe"), sx.I(int64(k))))
	}
	return withExpect(evalCase("stages", p), "["+want+"]", log)
}

func init() {
	h.RegisterImpl("forms", func(cmd, meta *sx.Sexp) (*sx.Sexp, string) {
		paths, files := filesOf(meta)
		if len(cmd.Xs) > 6 {
			paths = nil
			for _, x := range cmd.Xs[6].Xs {
				paths = append(paths, string(x.B))
			}
		}
		set := newSetFor(files, cmd.Xs[1].A, cmd.Xs[2])
		out := sx.L(sx.A("forms"))
		first := ""
		firstSrc := ""
		oracle := ""
		for _, pth := range paths {
			t, err := set.GetTemplate(pth)
			var res string
			if err != nil {
				res = "parse-error"
			} else {
				vars := jet.VarMap{}
				for _, g := range cmd.Xs[3].Xs {
					vars.Set(string(g.Xs[0].B), decodeVal(g.Xs[1]))
				}
				var buf bytes.Buffer
				xerr := executeContained(t, &buf, vars, decodeVal(cmd.Xs[4]))
				if ce, isCrash := xerr.(crashErr); isCrash {
					res = "crash"
					if oracle == "" && !ce.callee {
						oracle = "Execute panicked on " + files[pth] + ": " + xerr.Error()
					}
				} else if xerr != nil {
					res = "err"
				} else {
					res = "ok " + string(canonOut(addrText.ReplaceAll(buf.Bytes(), []byte("PTR"))))
				}
			}
			out.Add(sx.L(sx.S(files[pth]), sx.S(res)))
			if first == "" {
				first, firstSrc = res, files[pth]
			} else if res != first && oracle == "" {
				oracle = fmt.Sprintf("spellings that must be equivalent render %q and %q: %s vs %s", clipS(first), clipS(res), clipS(firstSrc), clipS(files[pth]))
			}
		}
		return out, oracle
	})
	h.RegisterProp(&h.Prop{ID: "C14", Gen: func(r *h.Rand, tier string) []h.Case {
		n := 150
		if tier == "search" {
			n = 600
		} else if tier != "quick" {
			n = 4000
		}
		var cs []h.Case
		for i := 0; i < n; i++ {
			cs = append(cs, genFormsCases(r)...)
		}
		for i := 0; i < n; i++ {
			cs = append(cs, genStageCase(r))
		}
		for i := 0; i < n; i++ {
			cs = append(cs, genBuiltinCase(r))
		}
		// jet.Func values reading their arguments through Get / ParseInto / IsSet next to a reflected
		// function receiving the same call, in every call shape (shared with C18)
		for i := 0; i < n/3; i++ {
			cs = append(cs, genArgposCases(r)...)
		}
		for i := 0; i < n; i++ {
			cs = append(cs, evalCase("eval", genProgram(r, "calls")))
		}
		for i := 0; i < n/2; i++ {
			cs = append(cs, oracleCase("oracle", r, "calls"))
		}
		return cs
	}})
}

// ---- built-ins against the Go function each is documented to expose

func genBuiltinCase(r *h.Rand) h.Case {
	strs := []string{"", "a", "Hello World", "  pad\t\n", "<a href='x'>&\"", "aXbXc", "ÀÉîõü straße", "a,b,,c", "x y&z=1/2?", "ǅ",
		"a\x00b<", "\x00", "caf\xc3&", "\r\n+\u2028", "\ufffd'"}
	s1, s2, s3 := r.Pick(strs), r.Pick([]string{"", "a", "X", ",", "l", "He", "c", " "}), r.Pick([]string{"", "Y", "<>", "--"})
	n := r.Intn(5) - 1
	type bc struct {
		src  string
		want func() string
	}
	esc := func(s string) string { return htmlEsc(s) }
	q := strconv.Quote // Go syntax, which is what jet's string literals are read with
	jsonOf := func(v interface{}) string { b, _ := json.Marshal(v); return string(b) }
	cases := []bc{
		{`{{lower(` + q(s1) + `)}}`, func() string { return esc(strings.ToLower(s1)) }},
		{`{{upper(` + q(s1) + `)}}`, func() string { return esc(strings.ToUpper(s1)) }},
		{`{{` + q(s1) + ` | upper | lower}}`, func() string { return esc(strings.ToLower(strings.ToUpper(s1))) }},
		{`{{hasPrefix(` + q(s1) + `, ` + q(s2) + `)}}`, func() string { return fmt.Sprint(strings.HasPrefix(s1, s2)) }},
		{`{{hasSuffix(` + q(s1) + `, ` + q(s2) + `)}}`, func() string { return fmt.Sprint(strings.HasSuffix(s1, s2)) }},
		{`{{repeat(` + q(s2) + `, ` + fmt.Sprint(n+1) + `)}}`, func() string { return esc(strings.Repeat(s2, n+1)) }},
		{`{{replace(` + q(s1) + `, ` + q(s2) + `, ` + q(s3) + `, ` + fmt.Sprint(n) + `)}}`, func() string { return esc(strings.Replace(s1, s2, s3, n)) }},
		{`{{range i, x := split(` + q(s1) + `, ` + q(s2) + `)}}<{{i}}:{{x|raw}}>{{end}}`, func() string {
			o := ""
			for i, x := range strings.Split(s1, s2) {
				o += fmt.Sprintf("<%d:%s>", i, x)
			}
			return o
		}},
		{`{{len(split(` + q(s1) + `, ` + q(s2) + `))}}`, func() string { return fmt.Sprint(len(strings.Split(s1, s2))) }},
		{`{{trimSpace(` + q(s1) + `)}}`, func() string { return esc(strings.TrimSpace(s1)) }},
		{`{{html(` + q(s1) + `) | raw}}`, func() string { return html.EscapeString(s1) }},
		{`{{html(` + q(s1) + `)}}`, func() string { return esc(html.EscapeString(s1)) }},
		{`{{url(` + q(s1) + `) | raw}}`, func() string { return url.QueryEscape(s1) }},
		{`{{json(` + q(s1) + `) | raw}}`, func() string { return jsonOf(s1) }},
		{`{{json(li) | raw}}`, func() string { return "LI" }},
		{`{{writeJson(` + q(s1) + `)}}`, func() string { return jsonOf(s1) + "\n" }},
		{`{{len(` + q(s1) + `)}}`, func() string { return fmt.Sprint(len(s1)) }},
		{`{{len(split(` + q(s1) + `, ""))}}`, func() string { return fmt.Sprint(len(strings.Split(s1, ""))) }},
		{`{{range k, x := ints(` + fmt.Sprint(n) + `, ` + fmt.Sprint(n+3) + `)}}{{k}}:{{x}},{{end}}`, func() string { return fmt.Sprintf("0:%d,1:%d,2:%d,", n, n+1, n+2) }},
		{`{{ ` + q(s1) + ` | slice(1, _, 3) | len }}/{{ ` + q(s1) + ` | slice(_) | len }}`, func() string { return "3/1" }},
		{`{{ ` + q(s1) + ` | map("k", _) | len }}/{{ "k" | map(_, 1) | len }}`, func() string { return "1/1" }},
		{`{{ ` + q(s1) + ` | len }}/{{ len: ` + q(s1) + ` }}`, func() string { return fmt.Sprintf("%d/%d", len(s1), len(s1)) }},
		{`{{m := map("k", ` + q(s1) + `, "n", ` + fmt.Sprint(n) + `)}}{{m["k"]|raw}}/{{m.n}}/{{len(m)}}`, func() string { return fmt.Sprintf("%s/%d/2", s1, n) }},
		{`{{x := slice(` + q(s1) + `, ` + fmt.Sprint(n) + `, true)}}{{x[0]|raw}}/{{x[1]}}/{{x[2]}}/{{len(x)}}`, func() string { return fmt.Sprintf("%s/%d/true/3", s1, n) }},
		{`{{x := array(` + q(s1) + `)}}{{x[0]|raw}}/{{len(x)}}`, func() string { return s1 + "/1" }},
	}
	// the escaping built-ins on what escapers treat differently from one another: NUL, the quote
	// characters, bytes that are not UTF-8, '+' and space
	hard := r.Pick([]string{"a\x00b", "\x00<", "'\"&<>", "caf\xc3", "a b+c", "\x00"})
	cases = append(cases,
		bc{`{{html(` + q(hard) + `) | raw}}`, func() string { return html.EscapeString(hard) }},
		bc{`{{` + q(hard) + ` | html | raw}}|{{len(html(` + q(hard) + `))}}`, func() string { return html.EscapeString(hard) + "|" + fmt.Sprint(len(html.EscapeString(hard))) }},
		bc{`{{html: ` + q(hard) + `}}`, func() string { return esc(html.EscapeString(hard)) }},
		bc{`{{url(` + q(hard) + `) | raw}}|{{` + q(hard) + ` | url | raw}}`, func() string { return url.QueryEscape(hard) + "|" + url.QueryEscape(hard) }},
		bc{`{{json(` + q(hard) + `) | raw}}`, func() string { return jsonOf(hard) }},
	)
	c := cases[r.Intn(len(cases))]
	p := formsProg(r, formSet{})
	p.files["/main.jet"] = c.src
	want := c.want()
	if want == "LI" {
		// the li variable of this program
		var li []int
		for _, x := range p.vars.Xs {
			if string(x.Xs[0].B) == "li" {
				li = decodeVal(x.Xs[1]).([]int)
			}
		}
		want = jsonOf(li)
	}
	return withExpect(evalCase("builtins", p), want, nil)
}
