package main

import (
	"runtime/debug"
	"bytes"
	"fmt"
	"io"
	"math"
	"os"
	"reflect"
	"regexp"
	"sort"
	"strconv"
	"strings"

	"github.com/CloudyKit/fastprinter"
	"github.com/CloudyKit/jet/v6"

	"jetverif/harness/h"
	"jetverif/harness/sx"
)

// ---------------------------------------------------------------- type zoo

type T1 struct {
	A int
	B string
	C []interface{}
	D map[string]interface{}
	P *T1
	I interface{}
	hidden int
}

type T2 struct {
	Name string
	N    float64
	Ok   bool
}

type goHolder struct {
	Arr [2]string
	F   func(int) int
}

// Boom fails with a Go runtime error (nil dereference) - a defect of the callee, not of the engine
func (goHolder) Boom() *goHolder {
	var p *goHolder
	_ = p.Arr[0]
	return p
}

// the same field name at different positions of two struct types reached through one interface-typed field
type langKey string

// nil values of interface types that have methods, as field, map element and slice element
type nilErrs struct {
	E    error
	St   fmt.Stringer
	Errs map[string]error
	Strs []fmt.Stringer
}

type petCat struct{ Name, Sound string }
type petDog struct{ Owner, Name string }
type petHolder struct{ Pet interface{} }

type nInt int
type nBool bool
type nFloat float64
type nStr string
type nU8 uint8
type nStruct struct{ A int }
type nErr struct{ m string }

func namedText(kind string, v interface{}) string { return fmt.Sprintf("<%s %v&>", kind, v) }

func (n nInt) String() string    { return namedText("int", int(n)) }
func (n nBool) String() string   { return namedText("bool", bool(n)) }
func (n nFloat) Error() string   { return namedText("float", float64(n)) }
func (n nStr) String() string    { return namedText("str", string(n)) }
func (n nU8) Error() string      { return namedText("u8", uint8(n)) }
func (n nStruct) String() string { return namedText("struct", n.A) }
func (n nErr) Error() string     { return n.m }

// T3 carries methods (value and pointer receivers, fixed and variadic); opaque to the model
type T3 struct {
	Pre string
	N   int
}

func (t T3) Tag(p string, n int) string { return fmt.Sprintf("%s:%s:%d", t.Pre, p, n+t.N) }
func (t *T3) PTag(p string) string      { return "*" + t.Pre + ":" + p }
func (t T3) Cat(xs ...string) string    { return t.Pre + "(" + strings.Join(xs, ",") + ")" }
func (t T3) Mix(a int, xs ...interface{}) string {
	return fmt.Sprint(append([]interface{}{t.Pre, a}, xs...)...)
}

// decodeVal turns the s-expression form of a value (the model's `Val`) into a Go value.
func decodeVal(x *sx.Sexp) interface{} {
	if x.K != sx.List || len(x.Xs) == 0 {
		panic("bad value sexp")
	}
	switch x.Xs[0].A {
	case "invalid":
		return nil
	case "bool":
		return x.Xs[1].A == "true"
	case "int":
		n, _ := strconv.ParseInt(x.Xs[1].A, 10, 64)
		return int(n)
	case "uint":
		n, _ := strconv.ParseUint(x.Xs[1].A, 10, 64)
		return uint(n)
	case "float":
		n, _ := strconv.ParseUint(x.Xs[1].A, 10, 64)
		return math.Float64frombits(n)
	case "str":
		return string(x.Xs[1].B)
	case "bytes":
		return append([]byte{}, x.Xs[1].B...)
	case "slice":
		iface := x.Xs[1].A == "true"
		isNil := x.Xs[2].A == "true"
		if iface {
			if isNil {
				return []interface{}(nil)
			}
			// spare capacity holding sentinels: nothing beyond the length may ever be reached
			out := make([]interface{}, 0, len(x.Xs)-3+2)
			for _, e := range x.Xs[3:] {
				out = append(out, decodeVal(e))
			}
			return append(out, "BEYOND<", 777)[:len(out)]
		}
		// typed slice: element kind from the first element (generators keep them homogeneous)
		if len(x.Xs) == 3 {
			if isNil {
				return []int(nil)
			}
			return []int{}
		}
		switch x.Xs[3].Xs[0].A {
		case "str":
			out := []string{}
			for _, e := range x.Xs[3:] {
				out = append(out, decodeVal(e).(string))
			}
			return append(out, "BEYOND<", "B2")[:len(out)]
		default:
			out := []int{}
			for _, e := range x.Xs[3:] {
				out = append(out, decodeVal(e).(int))
			}
			return append(out, 777, 778)[:len(out)]
		}
	case "smap":
		iface := x.Xs[1].A == "true"
		isNil := x.Xs[2].A == "true"
		if iface {
			if isNil {
				return map[string]interface{}(nil)
			}
			out := map[string]interface{}{}
			for _, e := range x.Xs[3:] {
				out[string(e.Xs[0].B)] = decodeVal(e.Xs[1])
			}
			return out
		}
		if isNil {
			return map[string]int(nil)
		}
		if len(x.Xs) > 3 && x.Xs[3].Xs[1].Xs[0].A == "struct" {
			out := map[string]T2{}
			for _, e := range x.Xs[3:] {
				out[string(e.Xs[0].B)] = decodeVal(e.Xs[1]).(T2)
			}
			return out
		}
		out := map[string]int{}
		for _, e := range x.Xs[3:] {
			out[string(e.Xs[0].B)] = decodeVal(e.Xs[1]).(int)
		}
		return out
	case "struct":
		f := map[string]*sx.Sexp{}
		for _, e := range x.Xs[2:] {
			f[string(e.Xs[0].B)] = e.Xs[1]
		}
		switch x.Xs[1].A {
		case "T1":
			t := T1{}
			t.A = decodeVal(f["A"]).(int)
			t.B = decodeVal(f["B"]).(string)
			if v := decodeVal(f["C"]); v != nil {
				t.C = v.([]interface{})
			}
			if v := decodeVal(f["D"]); v != nil {
				t.D = v.(map[string]interface{})
			}
			if v := decodeVal(f["P"]); v != nil {
				t.P = v.(*T1)
			}
			t.I = decodeVal(f["I"])
			return t
		case "T3":
			return T3{Pre: decodeVal(f["Pre"]).(string), N: decodeVal(f["N"]).(int)}
		case "T2":
			return T2{Name: decodeVal(f["Name"]).(string), N: decodeVal(f["N"]).(float64), Ok: decodeVal(f["Ok"]).(bool)}
		}
		panic("unknown struct type " + x.Xs[1].A)
	case "ptr":
		if x.Xs[2].K == sx.Atom { // nil
			switch x.Xs[1].A {
			case "T1":
				return (*T1)(nil)
			case "T2":
				return (*T2)(nil)
			}
			return (*int)(nil)
		}
		v := decodeVal(x.Xs[2])
		switch t := v.(type) {
		case T1:
			return &t
		case T2:
			return &t
		case T3:
			return &t
		case int:
			return &t
		case string:
			return &t
		}
		panic("unsupported pointer target")
	case "goval":
		// Go values of kinds outside the model: arrays, nil funcs, channels (fresh per decoding)
		switch x.Xs[1].A {
		case "arr3":
			return [3]int{3, 0, 7}
		case "parr3":
			return &[3]int{3, 0, 7}
		case "nilfunc":
			return (func(string) string)(nil)
		case "niljfunc":
			return jet.Func(nil)
		case "sendch":
			return (chan<- int)(make(chan int, 1))
		case "recvch":
			c := make(chan int, 3)
			c <- 4
			c <- 5
			close(c)
			return (<-chan int)(c)
		case "holder":
			return goHolder{Arr: [2]string{"x<", "y"}}
		case "ifacemap":
			return map[interface{}]int{1: 10, "a": 11, [2]int{1, 2}: 12}
		case "map8":
			return map[uint8]string{44: "x"}
		case "mapint":
			return map[int]string{1: "one", -1: "neg"}
		case "mapuint":
			return map[uint]string{1: "uone", 18446744073709551615: "umax"}
		case "nilerrs":
			return nilErrs{Errs: map[string]error{"k": nil}, Strs: []fmt.Stringer{nil}}
		case "langmap":
			return map[langKey]string{"en": "Hello<", "de": "Hallo"}
		case "nanmap1":
			return map[float64]string{math.NaN(): "n<"}
		case "nanmap2":
			return map[[1]float64][]int{{math.NaN()}: {2}}
		case "pets":
			return []petHolder{{Pet: petCat{"Tom", "m"}}, {Pet: petDog{"Ann", "Rex"}}, {Pet: petCat{"Kit", "p"}}}
		}
		panic("unknown goval " + x.Xs[1].A)
	case "named":
		// named types whose printed form comes from a method, whatever their kind
		v := decodeVal(x.Xs[2])
		switch x.Xs[1].A {
		case "int":
			return nInt(v.(int))
		case "bool":
			return nBool(v.(bool))
		case "float":
			return nFloat(v.(float64))
		case "str":
			return nStr(v.(string))
		case "u8":
			return nU8(uint8(v.(int)))
		case "struct":
			return nStruct{A: v.(int)}
		case "pint":
			n := nInt(v.(int))
			return &n
		case "err":
			return nErr{v.(string)}
		}
		panic("unknown named type " + x.Xs[1].A)
	case "iface":
		return decodeVal(x.Xs[1])
	case "func", "jfunc":
		return funcRegistry[x.Xs[1].A]
	case "swriter":
		return safeWriters[x.Xs[1].A]
	}
	panic("unknown value kind " + x.Xs[0].A)
}

// ---------------------------------------------------------------- function registry

var probeLog []string

type failErr struct{ msg string }

func (e failErr) Error() string { return e.msg }

var funcRegistry = map[string]interface{}{
	"probe":  func(id int, v interface{}) interface{} { probeLog = append(probeLog, fmt.Sprintf("(probe %d)", id)); return v },
	"probeb": func(id int, b bool) bool { probeLog = append(probeLog, fmt.Sprintf("(probe %d)", id)); return b },
	"fail":   func(msg string) string { panic(failErr{msg}) },
	"add3":   func(a, b, c int) int { return a + b + c },
	"cat":    func(a string, rest ...string) string { return a + strings.Join(rest, "") },
	"ident":  func(v interface{}) interface{} { return v },
	"shout":  func(s string) string { return s + "!" },
	"bumpf":  func(p *float64) string { *p += 2; return "" },
	"bumps":  func(p *string) string { *p += "!"; return "" },
	"sum": func(xs ...int) int {
		t := 0
		for _, x := range xs {
			t += x
		}
		return t
	},
	"joinv": func(sep string, xs ...interface{}) string {
		ps := make([]string, len(xs))
		for i, x := range xs {
			ps[i] = fmt.Sprint(x)
		}
		return strings.Join(ps, sep)
	},
	// a recording stage whose result is not of string kind (converted when a string is expected)
	"stageb": func(id int, s string) []byte {
		probeLog = append(probeLog, fmt.Sprintf("(probe %d)", id))
		return []byte(s + strconv.Itoa(id))
	},
	"stage": func(id int, s string) string {
		probeLog = append(probeLog, fmt.Sprintf("(probe %d)", id))
		return s + strconv.Itoa(id)
	},
	"rec": jet.Func(func(a jet.Arguments) reflect.Value {
		n := a.NumOfArguments()
		probeLog = append(probeLog, fmt.Sprintf("(call rec %d)", n))
		out := make([]interface{}, 0, n)
		for i := 0; i < n; i++ {
			v := a.Get(i)
			if v.IsValid() {
				out = append(out, v.Interface())
			} else {
				out = append(out, nil)
			}
		}
		return reflect.ValueOf(out)
	}),
}

func ifaceOf(v reflect.Value) interface{} {
	if !v.IsValid() {
		return nil
	}
	return v.Interface()
}

func init() {
	// jet.Func wrappers around the exported Runtime API, acting on the call site's runtime
	two := func(name string, k func(rt *jet.Runtime, n string, v interface{})) {
		funcRegistry[name] = jet.Func(func(a jet.Arguments) reflect.Value {
			a.RequireNumOfArguments(name, 2, 2)
			n := a.Get(0)
			v := a.Get(1)
			k(a.Runtime(), n.String(), ifaceOf(v))
			return reflect.Value{}
		})
	}
	two("apiLet", func(rt *jet.Runtime, n string, v interface{}) { rt.Let(n, v) })
	two("apiSet", func(rt *jet.Runtime, n string, v interface{}) {
		if err := rt.Set(n, v); err != nil {
			panic(err)
		}
	})
	two("apiSetOrLet", func(rt *jet.Runtime, n string, v interface{}) { rt.SetOrLet(n, v) })
	two("apiLetGlobal", func(rt *jet.Runtime, n string, v interface{}) { rt.LetGlobal(n, v) })
	funcRegistry["apiResolve"] = jet.Func(func(a jet.Arguments) reflect.Value {
		a.RequireNumOfArguments("apiResolve", 1, 1)
		return a.Runtime().Resolve(a.Get(0).String())
	})
	funcRegistry["apiContext"] = jet.Func(func(a jet.Arguments) reflect.Value {
		a.RequireNumOfArguments("apiContext", 0, 0)
		return a.Runtime().Context()
	})
	funcRegistry["apiYield"] = jet.Func(func(a jet.Arguments) reflect.Value {
		a.RequireNumOfArguments("apiYield", 1, 2)
		n := a.Get(0).String()
		var ctx interface{}
		if a.NumOfArguments() == 2 {
			ctx = ifaceOf(a.Get(1))
		}
		a.Runtime().YieldBlock(n, ctx)
		return reflect.Value{}
	})
	// Arguments accessors next to a reflected function receiving the same call
	funcRegistry["refl"] = func(xs ...interface{}) []interface{} {
		if xs == nil {
			return []interface{}{}
		}
		return xs
	}
	funcRegistry["recset"] = jet.Func(func(a jet.Arguments) reflect.Value {
		out := make([]interface{}, 0, a.NumOfArguments())
		for i := 0; i < a.NumOfArguments(); i++ {
			out = append(out, a.IsSet(i))
		}
		return reflect.ValueOf(out)
	})
	funcRegistry["parse3"] = jet.Func(func(a jet.Arguments) reflect.Value {
		var i int
		var s string
		var v interface{}
		if err := a.ParseInto(&i, &s, &v); err != nil {
			panic(err)
		}
		if a.NumOfArguments() != 3 {
			panic(fmt.Errorf("parse3 needs 3 arguments"))
		}
		return reflect.ValueOf(fmt.Sprint(i, "/", s, "/", v))
	})
	funcRegistry["refl3"] = func(i int, s string, v interface{}) string { return fmt.Sprint(i, "/", s, "/", v) }
}

var safeWriters = map[string]jet.SafeWriter{
	"brackets": func(w io.Writer, b []byte) { w.Write(append(append([]byte{'['}, b...), ']')) },
}

func escapeeOption(name string) jet.Option {
	switch name {
	case "nil":
		return jet.WithSafeWriter(nil)
	case "html":
		return func(*jet.Set) {}
	default:
		return jet.WithSafeWriter(safeWriters[name])
	}
}

// ---------------------------------------------------------------- store

func filesOf(meta *sx.Sexp) (paths []string, files map[string]string) {
	files = map[string]string{}
	for _, f := range meta.Xs[1:] {
		p := string(f.Xs[0].B)
		if strings.HasPrefix(p, "\x00") {
			continue
		}
		paths = append(paths, p)
		files[p] = string(f.Xs[1].B)
	}
	sort.Strings(paths)
	return
}

func newSetFor(files map[string]string, esc string, globals *sx.Sexp) *jet.Set {
	ld := jet.NewInMemLoader()
	for p, c := range files {
		ld.Set(p, c)
	}
	set := jet.NewSet(ld, escapeeOption(esc))
	if globals != nil {
		for _, g := range globals.Xs {
			set.AddGlobal(string(g.Xs[0].B), decodeVal(g.Xs[1]))
		}
	}
	return set
}

var rtErrRe = regexp.MustCompile(`^Jet Runtime Error \("((?:[^"\\]|\\.)*)":(\d+)\)`)

// errObs projects an Execute error to (located path line); the message text is never compared.
func errObs(err error) (*sx.Sexp, *sx.Sexp, *sx.Sexp) {
	m := rtErrRe.FindStringSubmatch(err.Error())
	if m == nil {
		return sx.Bool(false), sx.S(""), sx.I(0)
	}
	p, uerr := strconv.Unquote(`"` + m[1] + `"`)
	if uerr != nil {
		p = m[1]
	}
	n, _ := strconv.Atoi(m[2])
	return sx.Bool(true), sx.S(p), sx.I(int64(n))
}

func logSexp() *sx.Sexp {
	l := sx.L()
	for _, e := range probeLog {
		x, _ := sx.Parse(e)
		l.Add(x)
	}
	return l
}

var mapRegion = regexp.MustCompile(`\x1c([^\x1c\x1d]*)\x1d`)

// canonOut sorts the \x1e-separated records of every \x1d...\x1d region (bodies of ranges over
// maps, whose iteration order is unspecified).
func canonOut(b []byte) []byte {
	for k := 0; k < 8 && bytes.Contains(b, []byte{0x1c}); k++ {
		// innermost regions first; a canonicalised region is re-delimited with \x1f so that an
		// enclosing region can be canonicalised in the next round
		nb := mapRegion.ReplaceAllFunc(b, func(m []byte) []byte {
			recs := strings.Split(string(m[1:len(m)-1]), "\x1e")
			sort.Strings(recs)
			return []byte("\x1f" + strings.Join(recs, "\x1f") + "\x1f")
		})
		if bytes.Equal(nb, b) {
			break
		}
		b = nb
	}
	return b
}

func outSexp(b []byte) *sx.Sexp {
	b = canonOut(b)
	if len(b) == 0 {
		return sx.L()
	}
	return sx.L(sx.B(b))
}

func init() {
	// (dump-store) with meta (files (#path #src)...): parse every file with the real Set and dump it
	h.RegisterImpl("dump-store", func(cmd, meta *sx.Sexp) (*sx.Sexp, string) {
		paths, files := filesOf(meta)
		set := newSetFor(files, "html", nil)
		out := sx.L(sx.A("store"))
		for _, p := range paths {
			t, err := set.GetTemplate(p)
			if err != nil {
				out.Add(sx.L(sx.S(p), sx.A("err")))
				continue
			}
			d, perr := sx.Parse(jet.VerifDumpTemplate(t))
			if perr != nil {
				panic("unparsable dump: " + perr.Error())
			}
			out.Add(sx.L(sx.S(p), d))
		}
		return out, ""
	})
	// the sources themselves, each with the conversion table of its literal items
	h.RegisterImpl("src-store", func(cmd, meta *sx.Sexp) (*sx.Sexp, string) {
		paths, files := filesOf(meta)
		out := sx.L(sx.A("store"))
		for _, p := range paths {
			toks, _ := jet.VerifLex(files[p], "", "", "", "")
			lits := sx.L()
			seen := map[string]bool{}
			for _, t := range toks {
				k := strconv.Itoa(t.Typ) + "|" + t.Val
				if !seen[k] {
					seen[k] = true
					if e := litSexp(t.Typ, t.Val); e != nil {
						lits.Add(e)
					}
				}
			}
			out.Add(sx.L(sx.S(p), sx.S(files[p]), lits))
		}
		return out, ""
	})
	h.RegisterImpl("exec-src", func(cmd, meta *sx.Sexp) (*sx.Sexp, string) {
		_, files := filesOf(meta)
		return prepareExec(cmd, files).run(cmd, meta)
	})
	h.ModelNormalizers["exec-src"] = normalizeExecModel
	// (exec store #entry (exts ...) esc globals vars data fuel) with meta (files ...)
	h.RegisterImpl("exec", func(cmd, meta *sx.Sexp) (*sx.Sexp, string) {
		_, files := filesOf(meta)
		return prepareExec(cmd, files).run(cmd, meta)
	})
	// model output: render float placeholders with the implementation's formatter, merge pieces
	h.ModelNormalizers["exec"] = normalizeExecModel
}

func normalizeExecModel(m *sx.Sexp) *sx.Sexp {
	{
		if m.K != sx.List || len(m.Xs) < 2 {
			return m
		}
		idx := -1
		switch m.Xs[0].A {
		case "ok":
			idx = 1
		case "err":
			idx = 4
		case "crash", "callee-panic":
			idx = 1
		}
		if idx < 0 || idx >= len(m.Xs) {
			return m
		}
		var b bytes.Buffer
		for _, piece := range m.Xs[idx].Xs {
			if piece.K == sx.Bytes {
				b.Write(piece.B)
			} else if piece.K == sx.List && len(piece.Xs) == 3 && piece.Xs[0].A == "F" {
				bits, _ := strconv.ParseUint(piece.Xs[1].A, 10, 64)
				var fb bytes.Buffer
				fastprinter.PrintFloat(&fb, math.Float64frombits(bits))
				if sw, ok := safeWriters[piece.Xs[2].A]; ok {
					sw(&b, fb.Bytes())
				} else {
					b.Write(fb.Bytes()) // html / raw / nil escapee: identity on a float's text
				}
			}
		}
		m.Xs[idx] = outSexp(b.Bytes())
		if m.Xs[0].A == "err" && len(m.Xs) == 7 {
			m.Xs = m.Xs[:6] // drop the model's error description (never compared)
		}
		return m
	}
}

// preparedExec: a Set and the entry template of one (exec ...) command
type preparedExec struct {
	set *jet.Set
	t   *jet.Template
}

func prepareExec(cmd *sx.Sexp, files map[string]string) *preparedExec {
	set := newSetFor(files, cmd.Xs[4].A, cmd.Xs[5])
	t, err := set.GetTemplate(string(cmd.Xs[2].B))
	if err != nil {
		return &preparedExec{set: set}
	}
	return &preparedExec{set: set, t: t}
}

// run executes the entry template once and returns the observation and the direct-oracle verdict
// failingWriter accepts `left` bytes and then fails every Write with a short count
type failingWriter struct{ left int }

func (w *failingWriter) Write(p []byte) (int, error) {
	if len(p) <= w.left {
		w.left -= len(p)
		return len(p), nil
	}
	n := w.left
	w.left = 0
	return n, fmt.Errorf("writer closed")
}

// runInto executes the prepared program into w and ignores the outcome
func (pe *preparedExec) runInto(cmd *sx.Sexp, w io.Writer) {
	if pe.t == nil {
		return
	}
	vars := jet.VarMap{}
	for _, g := range cmd.Xs[6].Xs {
		vars.Set(string(g.Xs[0].B), decodeVal(g.Xs[1]))
	}
	if len(cmd.Xs[6].Xs) == 0 {
		vars = nil
	}
	saved := probeLog
	executeContained(pe.t, w, vars, decodeVal(cmd.Xs[7]))
	probeLog = saved
}

func (pe *preparedExec) run(cmd, meta *sx.Sexp) (*sx.Sexp, string) {
	if pe.t == nil {
		if meta != nil {
			for _, f := range meta.Xs[1:] {
				if string(f.Xs[0].B) == "\x00expect" {
					return sx.L(sx.A("parse-error")), "a program the generator built to be valid did not parse"
				}
			}
		}
		return sx.L(sx.A("parse-error")), ""
	}
	t := pe.t
	vars := jet.VarMap{}
	for _, g := range cmd.Xs[6].Xs {
		vars.Set(string(g.Xs[0].B), decodeVal(g.Xs[1]))
	}
	data := decodeVal(cmd.Xs[7])
	probeLog = nil
	var buf bytes.Buffer
	if len(cmd.Xs[6].Xs) == 0 {
		vars = nil // no variables: the caller passes a nil VarMap
	}
	xerr := executeContained(t, &buf, vars, data)
	if ce, ok := xerr.(crashErr); ok {
		if ce.callee {
			return sx.L(sx.A("callee-panic"), outSexp(buf.Bytes())), ""
		}
		return sx.L(sx.A("crash"), outSexp(buf.Bytes())), "Execute panicked: " + ce.msg
	}
	oracle := ""
	if meta != nil {
		oracle = checkExpectation(meta, buf.Bytes(), xerr)
	}
	if xerr != nil {
		if dbg := os.Getenv("JV_DEBUG"); dbg != "" {
			if f, ferr := os.OpenFile(dbg, os.O_APPEND|os.O_CREATE|os.O_WRONLY, 0o644); ferr == nil {
				fmt.Fprintln(f, xerr.Error())
				f.Close()
			}
		}
		loc, p, ln := errObs(xerr)
		return sx.L(sx.A("err"), loc, p, ln, outSexp(buf.Bytes()), logSexp()), oracle
	}
	return sx.L(sx.A("ok"), outSexp(buf.Bytes()), logSexp()), oracle
}

// checkExpectation: the direct oracle of constructive cases (expected output / error position
// computed by the generator from the property, not from the model).
func checkExpectation(meta *sx.Sexp, out []byte, xerr error) string {
	var exp *sx.Sexp
	for _, f := range meta.Xs[1:] {
		if string(f.Xs[0].B) == "\x00expect" {
			exp, _ = sx.Parse(string(f.Xs[1].B))
		}
	}
	for _, f := range meta.Xs[1:] {
		if string(f.Xs[0].B) == "\x00expectlog" {
			if got := logSexp().String(); got != string(f.Xs[1].B) && xerr == nil {
				return fmt.Sprintf("call log: got %s want %s (each stage exactly once, left to right)", clipS(got), f.Xs[1].B)
			}
		}
	}
	if exp == nil {
		return ""
	}
	want := string(exp.Xs[1].B)
	if strings.Contains(string(out), "DEAD") {
		return "a branch/body that must not be rendered was rendered (DEAD marker in output)"
	}
	if len(exp.Xs) > 2 {
		f := exp.Xs[2]
		if xerr == nil {
			return "a failing action (" + string(f.Xs[3].B) + ") did not make Execute return an error"
		}
		if string(out) != want {
			return fmt.Sprintf("output before the failing action: got %q want %q", clipS(string(out)), clipS(want))
		}
		loc, p, ln := errObs(xerr)
		act := string(f.Xs[3].B)
		// errors reported by a called function - the registry's fail() and jet's own built-ins, which use
		// Arguments.Panicf - need not carry a position; everything jet's evaluator detects itself must
		selfDetected := true
		for _, fn := range []string{"{{ fail(", "{{ map(", "{{ ints(", "{{ len(", "{{ includeIfExists(", "{{if includeIfExists(", "{{ exec("} {
			if strings.HasPrefix(act, fn) {
				selfDetected = false
			}
		}
		if selfDetected {
			if loc.A != "true" {
				return "error for " + act + " carries no file/line: " + clipS(xerr.Error())
			}
			if string(p.B) != string(f.Xs[1].B) || ln.A != f.Xs[2].A {
				return fmt.Sprintf("error for %s names %s:%s, want %s:%s", act, p.B, ln.A, f.Xs[1].B, f.Xs[2].A)
			}
		}
		return ""
	}
	if xerr != nil {
		return "unexpected error: " + clipS(xerr.Error())
	}
	if string(out) != want {
		return fmt.Sprintf("output: got %q want %q", clipS(string(out)), clipS(want))
	}
	return ""
}

// printed pointer values differ from run to run
var addrText = regexp.MustCompile(`0xc000[0-9a-f]{3,8}`)

func withExpect(c h.Case, want string, log *sx.Sexp) h.Case {
	c.Meta.Add(sx.L(sx.S("\x00expect"), sx.S(sx.L(sx.A("expect"), sx.S(want)).String())))
	if log != nil {
		c.Meta.Add(sx.L(sx.S("\x00expectlog"), sx.S(log.String())))
	}
	return c
}

func clipS(s string) string {
	if len(s) > 300 {
		return s[:300] + "..."
	}
	return s
}

type crashErr struct {
	msg    string
	callee bool // raised by a Go function called from the template with a non-error value (re-raised by design)
}

// panicOrigin inspects the stack of a recovered panic: a panic raised inside package jet, or by
// reflect/runtime on jet's behalf, is jet's; one raised inside a function jet called (standard
// library function exposed as a built-in, registry function) with a non-error value is re-raised by
// Runtime.recover by design and is not a defect of jet.
func panicOrigin(stack []byte) (callee bool) {
	lines := strings.Split(string(stack), "\n")
	seenPanic := false
	for _, ln := range lines {
		if strings.HasPrefix(ln, "\t") {
			continue
		}
		if !seenPanic {
			if strings.HasPrefix(ln, "panic(") {
				seenPanic = true
			}
			continue
		}
		if strings.HasPrefix(ln, "runtime.") || strings.HasPrefix(ln, "panic(") {
			continue
		}
		if strings.HasPrefix(ln, "github.com/CloudyKit/jet/v6.(*Runtime).recover(") {
			// Execute's deferred recover re-raising the value: the original panic is further down
			seenPanic = false
			continue
		}
		if strings.HasPrefix(ln, "github.com/CloudyKit/jet/v6") || strings.HasPrefix(ln, "reflect.") {
			return false
		}
		return true
	}
	return false
}

// executeContained runs Execute and turns a panic into a crashErr
func executeContained(t *jet.Template, w io.Writer, vars jet.VarMap, data interface{}) (xerr error) {
	defer func() {
		if e := recover(); e != nil {
			// anything that reaches here was re-raised by Runtime.recover on purpose (runtime errors and
			// non-error values); whose defect it is depends on where it was raised
			xerr = crashErr{msg: fmt.Sprint(e), callee: panicOrigin(debug.Stack())}
		}
	}()
	return t.Execute(w, vars, data)
}

func (c crashErr) Error() string { return c.msg }
