package main

import (
	"fmt"
	"math"
	"strings"

	"jetverif/harness/h"
	"jetverif/harness/sx"
)

// ---------------------------------------------------------------- value sexps

func vInt(n int64) *sx.Sexp     { return sx.L(sx.A("int"), sx.I(n)) }
func vStr(s string) *sx.Sexp    { return sx.L(sx.A("str"), sx.S(s)) }
func vBool(b bool) *sx.Sexp     { return sx.L(sx.A("bool"), sx.Bool(b)) }
func vFloat(f float64) *sx.Sexp { return sx.L(sx.A("float"), sx.U(math.Float64bits(f))) }
func vUint(n uint64) *sx.Sexp   { return sx.L(sx.A("uint"), sx.U(n)) }
func vNil() *sx.Sexp            { return sx.L(sx.A("invalid")) }
func vFunc(id string) *sx.Sexp  { return sx.L(sx.A("func"), sx.A(id)) }
func vJFunc(id string) *sx.Sexp { return sx.L(sx.A("jfunc"), sx.A(id)) }
func vSliceI(es ...*sx.Sexp) *sx.Sexp {
	return sx.L(append([]*sx.Sexp{sx.A("slice"), sx.Bool(true), sx.Bool(false)}, es...)...)
}
func vSliceT(es ...*sx.Sexp) *sx.Sexp {
	return sx.L(append([]*sx.Sexp{sx.A("slice"), sx.Bool(false), sx.Bool(false)}, es...)...)
}
func vMapI(kv ...interface{}) *sx.Sexp {
	x := sx.L(sx.A("smap"), sx.Bool(true), sx.Bool(false))
	for i := 0; i+1 < len(kv); i += 2 {
		x.Add(sx.L(sx.S(kv[i].(string)), kv[i+1].(*sx.Sexp)))
	}
	return x
}
func vT1(a int64, b string, c, d, p, i *sx.Sexp) *sx.Sexp {
	return sx.L(sx.A("struct"), sx.A("T1"), sx.L(sx.S("A"), vInt(a)), sx.L(sx.S("B"), vStr(b)), sx.L(sx.S("C"), c), sx.L(sx.S("D"), d), sx.L(sx.S("P"), p), sx.L(sx.S("I"), sx.L(sx.A("iface"), i)))
}
func vT2(name string, n float64, ok bool) *sx.Sexp {
	return sx.L(sx.A("struct"), sx.A("T2"), sx.L(sx.S("Name"), vStr(name)), sx.L(sx.S("N"), vFloat(n)), sx.L(sx.S("Ok"), vBool(ok)))
}
func vMapT(kv ...interface{}) *sx.Sexp {
	x := sx.L(sx.A("smap"), sx.Bool(false), sx.Bool(false))
	for i := 0; i+1 < len(kv); i += 2 {
		x.Add(sx.L(sx.S(kv[i].(string)), kv[i+1].(*sx.Sexp)))
	}
	return x
}
func vPtr(tn string, v *sx.Sexp) *sx.Sexp {
	if v == nil {
		return sx.L(sx.A("ptr"), sx.A(tn), sx.A("nil"))
	}
	return sx.L(sx.A("ptr"), sx.A(tn), v)
}
func nilSliceI() *sx.Sexp { return sx.L(sx.A("slice"), sx.Bool(true), sx.Bool(true)) }
func nilMapI() *sx.Sexp   { return sx.L(sx.A("smap"), sx.Bool(true), sx.Bool(true)) }

var specialStrings = []string{"<a&'\">", "x", "", "a<b", "&amp;", "'q'", "\"", "é<", "plain", "<<>>", "a\x00b", "T&C", "1", "0",
	"caf\xc3<i>", "\xe9 <b>&", "\xf0\"><img>", "\xe2\x82<", "\xff'", // malformed UTF-8 right before a special byte
	"caf\xc3", "<e\xe2\x82", "&\xf0\x9f\x98", "\xe2"} // the last four: values that END in an incomplete multi-byte sequence

func genScalar(r *h.Rand) *sx.Sexp {
	switch r.Intn(7) {
	case 0:
		return vInt(int64(r.Intn(7)) - 2)
	case 1:
		return vStr(r.Pick(specialStrings))
	case 2:
		return vBool(r.Bool())
	case 3:
		return vNil()
	case 4:
		return vInt(0)
	case 5:
		return vStr("")
	}
	return vInt(int64(r.Intn(100)))
}

func genSliceI(r *h.Rand) *sx.Sexp {
	n := r.Intn(5)
	es := []*sx.Sexp{}
	for k := 0; k < n; k++ {
		es = append(es, genScalar(r))
	}
	return vSliceI(es...)
}

func genMapI(r *h.Rand) *sx.Sexp {
	keys := []string{"k", "a", "b", "z"}
	kv := []interface{}{}
	for _, k := range keys {
		if r.Chance(60) {
			kv = append(kv, k, genScalar(r))
		}
	}
	return vMapI(kv...)
}

// ---------------------------------------------------------------- programs

type prog struct {
	files   map[string]string
	entry   string
	vars    *sx.Sexp
	globals *sx.Sexp
	data    *sx.Sexp
	esc     string
	tags    map[string]bool
}

type pgen struct {
	r      *h.Rand
	p      *prog
	flavor string
	lets   []string // let-variables possibly in scope
	noInc  bool     // inside a partial: no include/exec (keeps the include graph acyclic)
	depth  int
	inBlk  bool
	errPct int // chance of planting a failing expression
}

func (g *pgen) tag(t string) { g.p.tags[t] = true }

func bind(name string, v *sx.Sexp) *sx.Sexp { return sx.L(sx.S(name), v) }

func newProg(r *h.Rand) *prog {
	p := &prog{files: map[string]string{}, entry: "/main.jet", tags: map[string]bool{}}
	p.esc = pickW(r, "html", 6, "nil", 2, "brackets", 1)
	inner := vT1(int64(r.Intn(9)), r.Pick(specialStrings), genSliceI(r), genMapI(r), vPtr("T1", nil), genScalar(r))
	st := vT1(int64(r.Intn(9)), r.Pick(specialStrings), genSliceI(r), genMapI(r), vPtr("T1", inner), genScalar(r))
	p.vars = sx.L(
		bind("i", vInt(int64(r.Intn(9))-1)),
		bind("j", vInt(int64(r.Intn(5)))),
		bind("z", vInt(0)),
		bind("bi", vInt(9007199254740993)),
		bind("bj", vInt(9007199254740992)),
		bind("bu", vUint(9223372036854775808)),
		bind("bv", vUint(18446744073709551615)),
		bind("f", vFloat([]float64{1.5, 0, 2, -0.25, 100}[r.Intn(5)])),
		bind("s", vStr(r.Pick(specialStrings))),
		bind("e", vStr("")),
		bind("t", vBool(true)),
		bind("ff", vBool(false)),
		bind("l", genSliceI(r)),
		bind("li", vSliceT(vInt(3), vInt(0), vInt(int64(r.Intn(9))))),
		bind("ls", vSliceT(vStr("a<"), vStr(""), vStr(r.Pick(specialStrings)))),
		bind("el", vSliceI()),
		bind("nl", nilSliceI()),
		bind("m", genMapI(r)),
		bind("nm", nilMapI()),
		bind("st", st),
		bind("pt", vPtr("T1", inner)),
		bind("np", vPtr("T1", nil)),
		bind("n", vNil()),
		bind("ms", vMapT("a", vT2("na<", 1, true), "b", vT2("nb", 2, false), "c", vT2("", 0, false))),
		bind("mz", vMapI("k", vInt(0))),
		bind("me", vMapI("", vStr(r.Pick(specialStrings)), "k", vStr(""))),
		bind("mn", vMapI("p", vPtr("T1", nil), "m", nilMapI(), "s", nilSliceI(), "i", vNil(), "v", vInt(1))),
	)
	p.globals = sx.L(
		bind("g", vStr(r.Pick(specialStrings))),
		bind("probe", vFunc("probe")), bind("probeb", vFunc("probeb")), bind("fail", vFunc("fail")),
		bind("add3", vFunc("add3")), bind("cat", vFunc("cat")), bind("ident", vFunc("ident")),
		bind("rec", vJFunc("rec")),
	)
	switch r.Intn(5) {
	case 0, 4:
		p.data = vMapI("A", genScalar(r), "B", vStr(r.Pick(specialStrings)), "L", genSliceI(r),
			"Np", vPtr("T1", nil), "Nm", nilMapI(), "Ns", nilSliceI(), "Ni", vNil(), "M", vMapI("Np", vPtr("T1", nil), "k", vInt(0)))
	case 1:
		p.data = vInt(int64(r.Intn(50)))
	case 2:
		p.data = vStr(r.Pick(specialStrings))
	default:
		p.data = vNil()
	}
	return p
}

var probeN int

func (g *pgen) intExpr(d int) string {
	r := g.r
	if g.errPct > 0 && r.Chance(g.errPct) {
		g.tag("planted-error")
		return r.Pick([]string{"nope", "i / z", "l[99]", "st.Missing", "np.A", "i % z", "s - 1", "li[-1]", "i * \"x\"", "j < \"x\"", "i - n", "f * st", "i % l", "m[n]", "st[n]", "li[bu]", "l[bv]", "ls[bv - 1]", "i % 0.5", "j % f", "i / \"0\"", "i % t", "f % 0.25", "i / t"})
	}
	if d <= 0 {
		return r.Pick([]string{"i", "j", "z", "1", "2", "0", "i", "st.A", "len(l)", "li[0]", "pt.A", "bi", "bj", "i", "j"})
	}
	switch r.Intn(9) {
	case 0:
		return g.intExpr(d-1) + r.Pick([]string{" + ", "+", " - ", " * ", "*"}) + g.intExpr(d-1)
	case 1:
		return "(" + g.intExpr(d-1) + ")" + r.Pick([]string{"-1", "+1", " % 3", "*2"})
	case 2:
		return "add3(" + g.intExpr(d-1) + ", j, 1)"
	case 3:
		return "len(" + r.Pick([]string{"l", "s", "m", "li", "st.C", "ls"}) + ")"
	case 4:
		return g.boolExpr(d-1) + " ? " + g.intExpr(d-1) + " : " + g.intExpr(d-1)
	case 5:
		return "-" + r.Pick([]string{"i", "j", "1", "st.A"})
	case 6:
		return "i / " + r.Pick([]string{"2", "j", "(j+1)"})
	}
	return g.intExpr(0)
}

func (g *pgen) strExpr(d int) string {
	r := g.r
	if g.errPct > 0 && r.Chance(g.errPct) {
		g.tag("planted-error")
		return r.Pick([]string{"nope", "fail(\"boom\")", "st.missing", "np.B", "ls[7]", "m.k.x.y"})
	}
	if d <= 0 {
		return r.Pick([]string{"s", "e", "g", `"lit"`, `"<b>"`, "st.B", "ls[0]", "ls[2]", "pt.B", "st.P.B", `"a'b"`})
	}
	switch r.Intn(8) {
	case 0:
		return g.strExpr(d-1) + " + " + g.strExpr(d-1)
	case 1:
		return "cat(" + g.strExpr(d-1) + ", " + g.strExpr(0) + ")"
	case 2:
		return r.Pick([]string{"lower", "upper", "trimSpace"}) + "(" + g.strExpr(d-1) + ")"
	case 3:
		return g.boolExpr(d-1) + " ? " + g.strExpr(d-1) + " : " + g.strExpr(d-1)
	case 4:
		return g.strExpr(d-1) + " + " + g.intExpr(0)
	case 5:
		return "repeat(" + g.strExpr(0) + ", " + r.Pick([]string{"2", "1", "0", "len(li)"}) + ")"
	}
	return g.strExpr(0)
}

func (g *pgen) boolExpr(d int) string {
	r := g.r
	if d <= 0 {
		return r.Pick([]string{"t", "ff", "i", "z", "s", "e", "n", "l", "el", "nl", "m.k", "true", "false", "st.A", "f", "np", "pt"})
	}
	switch r.Intn(10) {
	case 0:
		return g.intExpr(d-1) + r.Pick([]string{" < ", " <= ", " > ", ">=", "<"}) + g.intExpr(d-1)
	case 1:
		return g.intExpr(d-1) + r.Pick([]string{" == ", " != ", "=="}) + g.intExpr(d-1)
	case 2:
		return g.strExpr(d-1) + r.Pick([]string{" == ", " != "}) + g.strExpr(d-1)
	case 3:
		return g.boolExpr(d-1) + r.Pick([]string{" && ", " || ", " and ", " or "}) + g.boolExpr(d-1)
	case 4:
		return r.Pick([]string{"!", "not "}) + g.boolExpr(d-1)
	case 5:
		probeN++
		return fmt.Sprintf("probeb(%d, %s)", probeN, r.Pick([]string{"true", "false", "t", "ff"}))
	case 6:
		return "isset(" + r.Pick([]string{"m.k", "m.zz", "st.P", "np", "l[1]", "nope", "st.P.P", "m", "nm", "n", "s", "e", "z", "l[9]", "st.D.a"}) + ")"
	case 7:
		return "hasPrefix(" + g.strExpr(0) + `, "a")`
	}
	return g.boolExpr(0)
}

func (g *pgen) anyExpr(d int) string {
	r := g.r
	switch r.Intn(11) {
	case 0, 1:
		return g.intExpr(d)
	case 2, 3, 4:
		return g.strExpr(d)
	case 5:
		return g.boolExpr(d)
	case 6:
		return r.Pick([]string{"l[0]", "l[1]", "m.k", "m.a", "st.C[0]", "st.D.k", "st.I", ".", "m[\"b\"]", "f", "f * 2", "1.5 + i"})
	case 7:
		probeN++
		return fmt.Sprintf("probe(%d, %s)", probeN, g.strExpr(0))
	case 8:
		if len(g.lets) > 0 {
			return r.Pick(g.lets)
		}
		return "s"
	case 9:
		// slice expressions, bounds on both sides of the length (the Go values carry spare capacity)
		base := r.Pick([]string{"l", "li", "ls", "s", "st.C", "el", "ident(li)", "g"}) // a slice expression takes no further postfix
		lo := r.Pick([]string{"", "0", "1", "j", "2", "4"})
		hi := r.Pick([]string{"", "1", "2", "3", "4", "5", "j", "len(" + base + ")", "len(" + base + ")+1"})
		e := base + "[" + lo + ":" + hi + "]"
		if r.Bool() {
			return "len(" + e + ")"
		}
		return e
	}
	return r.Pick([]string{".A", ".B", ".", "s", "l[2]", "li[1]", "ls[1]"})
}

func (g *pgen) printAction() string {
	r := g.r
	e := g.anyExpr(r.Intn(3))
	switch r.Intn(12) {
	case 0:
		g.tag("safewriter")
		return "{{ " + e + " | " + r.Pick([]string{"raw", "unsafe", "safeHtml"}) + " }}"
	case 1:
		g.tag("pipe")
		return "{{ " + g.strExpr(1) + " | " + r.Pick([]string{"upper", "lower", "cat: \"z\"", "cat(\"p\", _)", "ident"}) + " }}"
	case 2:
		g.tag("safewriter")
		return "{{ " + r.Pick([]string{"raw", "unsafe", "safeHtml"}) + ": " + e + " }}"
	case 3:
		g.tag("pipe")
		return "{{ " + g.strExpr(0) + " | upper | " + r.Pick([]string{"raw", "lower", "safeHtml"}) + " }}"
	}
	return "{{ " + e + " }}"
}

// callAction: one call in a random surface form (plain, prefix, piped, slot, chained), over reflected
// fixed/variadic functions, jet.Func values and non-functions, with argument counts and kinds that
// are sometimes wrong.
func (g *pgen) callAction() string {
	r := g.r
	arg := func(k byte) string {
		if r.Chance(5) {
			return r.Pick([]string{"n", "np", "nope", "el", "nl"})
		}
		switch k {
		case 's':
			return g.strExpr(r.Intn(2))
		case 'i':
			if r.Chance(15) {
				return r.Pick([]string{"f", "2.0", "1.5", "li[1]"})
			}
			return g.intExpr(r.Intn(2))
		}
		return g.anyExpr(r.Intn(2))
	}
	type fn struct {
		name     string
		kinds    string
		variadic bool
	}
	fns := []fn{{"add3", "iii", false}, {"cat", "ss", true}, {"hasPrefix", "ss", false}, {"hasSuffix", "ss", false}, {"repeat", "si", false},
		{"ident", "a", false}, {"rec", "a", true}, {"len", "a", false}, {"upper", "s", false}, {"lower", "s", false}, {"probe", "ia", false},
		{"slice", "a", true}, {"s", "a", false}, {"nope", "a", false}, {"st.A", "", false}}
	f := fns[r.Intn(len(fns))]
	n := len(f.kinds)
	if f.variadic {
		n = len(f.kinds) - 1 + r.Intn(4)
	}
	if r.Chance(10) {
		n += r.Intn(3) - 1
		if n < 0 {
			n = 0
		}
	}
	var args []string
	for k := 0; k < n; k++ {
		kk := byte('a')
		if k < len(f.kinds) {
			kk = f.kinds[k]
		} else if len(f.kinds) > 0 {
			kk = f.kinds[len(f.kinds)-1]
		}
		args = append(args, arg(kk))
	}
	join := func(xs []string) string { return strings.Join(xs, ", ") }
	tail := r.Pick([]string{"", "", "", " | raw", " | ident", " | upper", " | safeHtml | lower", " | raw | raw"})
	form := r.Intn(6)
	if n == 0 && form != 0 {
		form = 0
	}
	switch form {
	case 0:
		return "{{ " + f.name + "(" + join(args) + ")" + tail + " }}"
	case 1:
		return "{{ " + f.name + ": " + join(args) + " }}"
	case 2:
		if n == 1 {
			return "{{ " + args[0] + " | " + f.name + tail + " }}"
		}
		return "{{ " + args[0] + " | " + f.name + r.Pick([]string{"(" + join(args[1:]) + ")", ": " + join(args[1:])}) + tail + " }}"
	case 3:
		k := r.Intn(n)
		with := append([]string{}, args...)
		with[k] = "_"
		if r.Chance(10) && n > 1 {
			with[(k+1)%n] = "_" // two slots
		}
		return "{{ " + args[k] + " | " + f.name + r.Pick([]string{"(" + join(with) + ")", ": " + join(with)}) + tail + " }}"
	case 4:
		// slot marker with nothing piped, or nested call with a slot (often in the variadic tail)
		with := append([]string{}, args...)
		if f.variadic && n > len(f.kinds)-1 && r.Chance(60) {
			with[len(f.kinds)-1+r.Intn(n-len(f.kinds)+1)] = "_"
		} else {
			with[r.Intn(n)] = "_"
		}
		return "{{ " + r.Pick([]string{f.name + "(" + join(with) + ")", "ident(" + f.name + "(" + join(with) + "))", "s | ident(" + f.name + "(" + join(with) + "))"}) + " }}"
	}
	return "{{ " + g.strExpr(0) + " | ident | " + f.name + "(" + join(args[1:]) + ")" + tail + " }}"
}

func (g *pgen) list(d int) string {
	n := 1 + g.r.Intn(3)
	var sb strings.Builder
	saved := len(g.lets)
	for k := 0; k < n; k++ {
		sb.WriteString(g.stmt(d))
	}
	g.lets = g.lets[:saved]
	return sb.String()
}

var textBits = []string{"a", "b ", "<i>", "&", "\n", " ", "x'y", "é", "|"}

func (g *pgen) weights() []interface{} {
	w := map[string]int{"text": 4, "print": 6, "let": 2, "set": 1, "if": 3, "range": 3, "yield": 1, "include": 1, "try": 1, "exec": 1, "blockdef": 1, "issetp": 1, "content": 0, "call": 1}
	switch g.flavor {
	case "escape":
		w["print"] = 12
		w["try"] = 2
		w["include"] = 2
		w["yield"] = 2
	case "control":
		w["if"] = 8
		w["range"] = 8
	case "scope":
		w["let"] = 6
		w["set"] = 4
		w["if"] = 4
		w["range"] = 4
		w["include"] = 2
		w["yield"] = 2
	case "blocks":
		w["yield"] = 6
		w["blockdef"] = 4
		w["include"] = 2
	case "include":
		w["include"] = 6
		w["exec"] = 5
	case "try":
		w["try"] = 8
		w["range"] = 4
		w["yield"] = 3
		w["let"] = 3
	case "isset":
		w["issetp"] = 8
	case "errors":
		w["call"] = 5
		w["issetp"] = 2
	case "fields":
		w["print"] = 14
		w["issetp"] = 3
		w["let"] = 3
	case "calls":
		w["call"] = 14
		w["print"] = 3
		w["let"] = 3
	}
	if g.inBlk {
		w["content"] = 3
	}
	out := []interface{}{}
	for _, k := range []string{"text", "print", "let", "set", "if", "range", "yield", "include", "try", "exec", "blockdef", "issetp", "content", "call"} {
		if w[k] > 0 {
			out = append(out, k, w[k])
		}
	}
	return out
}

var blockNames = []string{"b1", "b2", "b3"}

func (g *pgen) stmt(d int) string {
	r := g.r
	kind := pickW(r, g.weights()...)
	if (g.noInc || g.inBlk) && (kind == "include" || kind == "exec") {
		kind = "print"
	}
	if g.inBlk && (kind == "yield" || kind == "blockdef") {
		kind = "content" // no block recursion: a block body never yields a named block
	}
	if d <= 0 && (kind == "if" || kind == "range" || kind == "try" || kind == "yield" || kind == "blockdef") {
		kind = "print"
	}
	switch kind {
	case "text":
		return r.Pick(textBits)
	case "print":
		return g.printAction()
	case "call":
		g.tag("call")
		return g.callAction()
	case "let":
		name := r.Pick([]string{"x", "y", "w", "i", "s"})
		g.lets = append(g.lets, name)
		g.tag("let")
		if r.Chance(20) {
			return "{{ " + name + ", _ := " + g.anyExpr(1) + ", 1 }}"
		}
		if r.Chance(15) {
			g.lets = append(g.lets, "ok")
			return "{{ " + name + ", ok := m[" + r.Pick([]string{`"k"`, `"zz"`, `"a"`}) + "] }}"
		}
		return "{{ " + name + " := " + g.anyExpr(1) + " }}"
	case "set":
		g.tag("set")
		name := "i"
		if len(g.lets) > 0 && r.Bool() {
			name = r.Pick(g.lets)
		} else {
			name = r.Pick([]string{"i", "j", "s", "x", "g", "undeclared"})
		}
		return "{{ " + name + " = " + g.anyExpr(1) + " }}"
	case "if":
		g.tag("if")
		hd := g.boolExpr(r.Intn(3))
		if r.Chance(20) {
			g.tag("if-let")
			hd = "q := " + g.anyExpr(0) + "; " + r.Pick([]string{"q", "t", "ff"})
		}
		s := "{{if " + hd + "}}" + g.list(d-1)
		for r.Chance(25) {
			s += "{{else if " + g.boolExpr(1) + "}}" + g.list(d-1)
		}
		if r.Bool() {
			s += "{{else}}" + g.list(d-1)
		}
		return s + "{{end}}"
	case "range":
		g.tag("range")
		if r.Chance(8) {
			// a loop value stored in an outer variable keeps its value when the ranger advances
			g.tag("range-capture")
			return "{{ cap := 0 }}{{range k, v := ms}}{{if k == \"" + r.Pick([]string{"a", "b", "c"}) + "\"}}{{ cap = v }}{{end}}{{end}}[{{cap.Name}}|{{cap.N}}]"
		}
		subj := r.Pick([]string{"l", "li", "ls", "m", "el", "nl", "ints(0, 3)", "ints(j, j+2)", "st.C", "slice(0, 1, \"\", \"x\", false)", "l[1:]", "nm", "st.D", "map(\"p\", s, \"q\", 2)"})
		if g.errPct > 0 && r.Chance(g.errPct) {
			g.tag("planted-error")
			subj = r.Pick([]string{"i", "n", "np", "nope", "ints(3, 3)"})
		}
		isMap := subj == "m" || subj == "st.D" || strings.HasPrefix(subj, "map(") || subj == "nm"
		form := r.Intn(4)
		if isMap && form == 3 {
			form = 2
		}
		saved := len(g.lets)
		var hd string
		switch form {
		case 0:
			hd = "range " + subj
		case 1:
			hd = "range k := " + subj
			g.lets = append(g.lets, "k")
		case 2:
			hd = "range k, v := " + subj
			g.lets = append(g.lets, "k", "v")
		default:
			// the assigning form; '_' discards a position, as in an assignment outside range (D59)
			hd = "range " + r.Pick([]string{"i, s", "i, s", "_, s", "i, _", "_", "s"}) + " = " + subj
			g.tag("range-assign")
		}
		body := ""
		if isMap {
			// iteration order of a map is unspecified: records are delimited and sorted on both sides;
			// the body has no side effects
			g.tag("range-map")
			switch form {
			case 0:
				body = "\x1e{{.}}" + r.Pick([]string{"", "{{if .}}T{{else}}F{{end}}", "x"})
			case 1:
				body = "\x1e{{k}}={{.}}"
			default:
				body = "\x1e{{k}}={{v}}" + r.Pick([]string{"", "{{if v}}T{{else}}F{{end}}", "{{.}}"})
			}
		} else {
			body = g.list(d-1)
			if r.Chance(50) {
				body += r.Pick([]string{"{{.}}", "[{{k}}]", "{{ k }}:{{ v }};", "{{ . }},"})
			}
		}
		g.lets = g.lets[:saved]
		s := "{{" + hd + "}}" + body
		if isMap {
			s = "\x1c" + s
		}
		if r.Chance(30) {
			s += "{{else}}" + g.list(d-1)
		}
		if isMap {
			return s + "{{end}}\x1d"
		}
		return s + "{{end}}"
	case "yield":
		g.tag("yield")
		name := r.Pick(blockNames)
		if g.errPct > 0 && r.Chance(g.errPct) {
			g.tag("planted-error")
			name = "missingBlock"
		}
		args := r.Pick([]string{"()", "()", "(p=" + g.anyExpr(0) + ")", "(q=" + g.strExpr(0) + ", p=i)", "(p=1, q=2)"})
		ctx := ""
		if r.Chance(25) {
			ctx = " " + r.Pick([]string{"s", "st", "m", "l", "i"})
		}
		if r.Chance(35) {
			g.tag("yield-content")
			return "{{yield " + name + args + ctx + " content}}" + g.list(d-1) + "{{end}}"
		}
		return "{{yield " + name + args + ctx + "}}"
	case "content":
		g.tag("yield-content-site")
		if r.Chance(25) {
			return "{{yield content " + r.Pick([]string{"s", "i", "st"}) + "}}"
		}
		return "{{yield content}}"
	case "blockdef":
		g.tag("blockdef")
		name := r.Pick(blockNames)
		params := r.Pick([]string{"()", "(p=0)", "(p=s, q=\"d\")", "(q=i+1, p=\"\")"})
		ctx := ""
		if r.Chance(20) {
			ctx = " " + r.Pick([]string{"s", "st"})
		}
		was := g.inBlk
		g.inBlk = true
		saved := len(g.lets)
		g.lets = append(g.lets, "p", "q")
		body := g.list(d-1) + r.Pick([]string{"{{p}}", "{{q}}", "", "{{.}}"})
		g.lets = g.lets[:saved]
		s := "{{block " + name + params + ctx + "}}" + body
		if r.Chance(30) {
			// the default content is rendered from inside the body: a definition or yield in it could
			// re-enter this block without end (a divergent program, not a subject of any property)
			s += "{{content}}" + g.list(d-1)
		}
		g.inBlk = was
		return s + "{{end}}"
	case "include":
		g.tag("include")
		target := r.Pick([]string{`"/inc.jet"`, `"inc"`, `"sub/inc2.jet"`, `"/sub/inc2"`, `"/sub/../inc.jet"`, "incname", `"/page.jet"`, `"/page.jet"`})
		if g.errPct > 0 && r.Chance(g.errPct) {
			g.tag("planted-error")
			target = `"/absent.jet"`
		}
		ctx := ""
		if r.Chance(35) {
			ctx = " " + r.Pick([]string{"s", "st", "m", "i", "l"})
		}
		return "{{include " + target + ctx + "}}"
	case "try":
		g.tag("try")
		was := g.errPct
		if g.errPct < 25 {
			g.errPct = 25
		}
		body := g.list(d - 1)
		g.errPct = was
		s := "{{try}}" + body
		if r.Chance(60) {
			cv := r.Pick([]string{"", " err", " ex", " s", " i", " x", " g"})
			s += "{{catch" + cv + "}}" + r.Pick([]string{"C", "[caught]", "{{s}}", ""})
			if cv != "" && r.Bool() {
				s += "{{isset(" + strings.TrimSpace(cv) + ")}}"
			}
		}
		s += "{{end}}"
		if r.Chance(40) {
			s += "[{{isset(s)}}{{ i }}{{isset(x)}}]" // the catch variable must leave no trace in same-named variables
		}
		return s
	case "exec":
		g.tag("exec")
		switch r.Intn(4) {
		case 0:
			return `{{ rv := exec("/ret.jet") }}[{{rv}}]`
		case 1:
			return `{{ exec("/ret.jet", ` + r.Pick([]string{"s", "i", "st"}) + `) }}`
		case 2:
			return `{{ includeIfExists("/inc.jet") }}`
		default:
			return `{{if includeIfExists(` + r.Pick([]string{`"/absent.jet"`, `"/inc.jet"`, `"/sub/inc2.jet", s`}) + `)}}Y{{else}}N{{end}}`
		}
	case "issetp":
		g.tag("isset")
		args := []string{}
		n := 1 + r.Intn(3)
		pool := []string{"m.k", "m.zz", "st.P", "st.P.P", "st.P.P.A", "np", "np.A", "l[1]", "l[9]", "nope", "nope.x", "m", "nm", "nm.k", "n", "s", "e", "z", "ff", "st.D.a", "st.D.zz", "st.C[0]", "st.I", "pt.P", ".A", ".zz", "li[1]", "m[\"k\"]", "st.hidden", "st.Missing", "l[i]", "m[s]", "me[\"\"]", "me[e]", "m[e]", "me.k", "ms.a", "ms.a.Name", "ms.zz.Name", "mz.k", "ms[\"b\"].Ok",
			"mn.p", "mn.m", "mn.s", "mn.i", "mn.v", "mn[\"p\"]", "mn.p.A", ".Np", ".Nm", ".Ns", ".Ni", ".M.Np", ".M.k", ".M.zz", ".A", ".Np.A", ".L"}
		for k := 0; k < n; k++ {
			args = append(args, r.Pick(pool))
		}
		if r.Chance(25) {
			g.tag("isset-piped")
			rest := ""
			if n > 1 {
				rest = "(_, " + strings.Join(args[1:], ", ") + ")"
			}
			return "{{ " + args[0] + " | isset" + rest + " }}"
		}
		return "{{ isset(" + strings.Join(args, ", ") + ") }}"
	}
	return g.printAction()
}

// retFile: a template meant for exec(): returns at various positions
func (g *pgen) retFile() string {
	r := g.r
	parts := []string{}
	n := 1 + r.Intn(4)
	for k := 0; k < n; k++ {
		switch r.Intn(7) {
		case 0:
			parts = append(parts, "{{return "+g.anyExpr(1)+"}}")
		case 1:
			parts = append(parts, "{{if "+g.boolExpr(1)+"}}{{return "+g.intExpr(0)+"}}{{end}}")
		case 2:
			parts = append(parts, "{{range li}}{{if . }}{{return .}}{{end}}{{end}}")
		case 3:
			parts = append(parts, "{{try}}{{return "+g.strExpr(0)+"}}{{end}}")
		case 4:
			parts = append(parts, "out"+g.printAction())
		case 5:
			parts = append(parts, "{{if t}}y{{end}}")
		default:
			parts = append(parts, "{{include \"/inc.jet\"}}")
		}
	}
	return strings.Join(parts, "")
}

// genProgram builds a template set + inputs for one evaluator case.
func genProgram(r *h.Rand, flavor string) *prog {
	p := newProg(r)
	// names of built-ins shadowed by a variable of the execution or by a Set global: identifier lookup
	// (scopes, then globals, then defaults) decides what a call means wherever the call is written
	if r.Chance(25) {
		p.vars.Add(bind(r.Pick([]string{"upper", "lower", "trimSpace"}), vFunc("shout")))
		p.tags["shadowed-builtin"] = true
	}
	if r.Chance(15) {
		p.globals.Add(bind(r.Pick([]string{"upper", "lower", "html"}), vFunc("shout")))
		p.tags["shadowed-builtin"] = true
	}

	g := &pgen{r: r, p: p, flavor: flavor}
	if flavor == "errors" {
		g.errPct = 12
	} else if r.Chance(30) {
		g.errPct = 3
	}
	p.vars.Add(bind("incname", vStr(r.Pick([]string{"/inc.jet", "sub/inc2.jet", "inc"}))))
	depth := 2 + r.Intn(2)
	// partials
	g.noInc = true
	p.files["/inc.jet"] = "I(" + g.list(1) + ")"
	p.files["/sub/inc2.jet"] = "J(" + g.list(1) + r.Pick([]string{"", `{{include "../inc.jet"}}`, `{{include "inc3.jet"}}`}) + ")"
	p.files["/sub/inc3.jet"] = "K{{.}}"
	// an includable page that extends a layout and overrides one of its blocks
	p.files["/layout.jet"] = "L<{{block body()}}default{{end}}|{{block side(w=1)}}side{{w}}{{end}}>"
	p.files["/page.jet"] = `{{extends "/layout.jet"}}` + r.Pick([]string{"", `{{import "/plib.jet"}}`}) + "{{block body()}}page:{{.}}" + r.Pick([]string{"", "{{yield side(w=2)}}", "{{yield extra()}}"}) + "{{end}}"
	p.files["/plib.jet"] = "{{block extra()}}X{{end}}{{block side(w=3)}}libside{{w}}{{end}}"
	p.files["/ret.jet"] = g.retFile()
	g.noInc = false
	// layout / library
	useBase := flavor == "blocks" && r.Chance(70) || r.Chance(15)
	useLib := flavor == "blocks" && r.Chance(60) || r.Chance(10)
	header := ""
	if useBase {
		g.tag("extends")
		g.inBlk = true
		base := "BASE[" + "{{block b1(p=\"bp\", q=\"bd\")}}b1:{{p}}{{q}}" + g.list(1) + "{{end}}" + "|{{block b2()}}b2" + g.list(1) + "{{content}}dc{{end}}" + "|{{yield b3(p=1)}}]"
		g.inBlk = false
		p.files["/base.jet"] = base + "{{block b3(p=7)}}base-b3{{p}}{{end}}"
		if r.Chance(40) {
			g.tag("extends-chain")
			p.files["/mid.jet"] = `{{extends "/base.jet"}}` + "MIDTEXT{{block b2()}}mid-b2{{yield content}}{{end}}"
			header = `{{extends "/mid.jet"}}`
		} else {
			header = `{{extends "/base.jet"}}`
		}
	}
	if useLib {
		g.tag("import")
		p.files["/lib.jet"] = "LIBTEXT{{block b3(p)}}lib-b3{{p}}{{end}}{{block b2()}}lib-b2{{yield content}}{{end}}{{block b1(q, p=2)}}lib-b1{{p}}{{q}}{{end}}"
		header += r.Pick([]string{"", "\n", " "}) + `{{import "/lib.jet"}}`
	}
	g.inBlk = false
	body := ""
	n := 2 + r.Intn(4)
	for k := 0; k < n; k++ {
		body += g.stmt(depth)
	}
	if (useBase || flavor == "blocks") && r.Chance(80) {
		g.inBlk = true
		body += "{{block b1(p=i, q=\"md\")}}main-b1{{p}}{{q}}" + g.list(1) + "{{end}}"
		g.inBlk = false
	}
	if !useLib && strings.Contains(body+p.files["/inc.jet"]+p.files["/sub/inc2.jet"], "{{yield b") {
		// every yielded block exists somewhere: import a library that defines all three
		g.tag("import")
		p.files["/lib.jet"] = "LIBTEXT{{block b1(p, q=\"ld\")}}lib-b1{{p}}{{q}}{{yield content}}{{end}}{{block b2()}}lib-b2{{.}}{{content}}ldc{{end}}{{block b3(p)}}lib-b3{{p}}{{yield content}}{{end}}"
		header += `{{import "/lib.jet"}}`
	}
	p.files["/main.jet"] = header + body
	return p
}

func (p *prog) filesMeta() *sx.Sexp {
	m := sx.L(sx.A("files"))
	for path, src := range p.files {
		m.Add(sx.L(sx.S(path), sx.S(src)))
	}
	return m
}

// evalCase wraps a program as a two-phase case: parse+dump with the real parser, then execute on
// both sides.
// e2eCase: the same program, but the model side starts from the source bytes: lexer model, parser
// model, block-table model, evaluator model (stream "e2e").  The literal tables the parser model needs
// are computed by the preparation step with the real conversion code (hook VerifLiteral).
func e2eCase(p *prog, extraTags ...string) h.Case {
	tags := append([]string{}, extraTags...)
	for t := range p.tags {
		tags = append(tags, t)
	}
	pp := p
	return h.Case{
		Stream: "e2e", Meta: p.filesMeta(), Tags: tags, NonTrivial: true,
		Prep: sx.L(sx.A("src-store")),
		Finish: func(store *sx.Sexp) *sx.Sexp {
			return sx.L(sx.A("exec-src"), store, sx.S(pp.entry),
				sx.L(sx.A("exts"), sx.S(""), sx.S(".jet"), sx.S(".html.jet"), sx.S(".jet.html")),
				sx.A(pp.esc), pp.globals, pp.vars, pp.data, sx.I(400))
		},
	}
}

func evalCase(stream string, p *prog, extraTags ...string) h.Case {
	tags := append([]string{}, extraTags...)
	for t := range p.tags {
		tags = append(tags, t)
	}
	pp := p
	return h.Case{
		Stream: stream, Meta: p.filesMeta(), Tags: tags, NonTrivial: true,
		Prep: sx.L(sx.A("dump-store")),
		Finish: func(store *sx.Sexp) *sx.Sexp {
			return sx.L(sx.A("exec"), store, sx.S(pp.entry),
				sx.L(sx.A("exts"), sx.S(""), sx.S(".jet"), sx.S(".html.jet"), sx.S(".jet.html")),
				sx.A(pp.esc), pp.globals, pp.vars, pp.data, sx.I(400))
		},
	}
}
