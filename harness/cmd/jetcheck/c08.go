package main

import (
	"bytes"
	"fmt"
	"sort"
	"strings"

	"github.com/CloudyKit/jet/v6"

	"jetverif/harness/h"
	"jetverif/harness/sx"
)

// C08.  Stream "blocksets": random acyclic template sets (libraries importing libraries, layout
// chains, leaves with import lists in random order, overlapping block names, nested definitions,
// yields with named arguments in any order, caller content and default content) with the output
// the property demands for every template of the set, computed by the generator from the
// precedence rule.  The templates are parsed in a random order in ONE Set and then all executed.
// Stream "tables": the effective block table of every template, real parser vs model.

type bElem struct {
	kind    string // text | def | yield | p | q | ycontent | cv | if | range
	text    string
	name    string
	def     *bDef
	args    map[string]string // yield: p / q -> source literal
	argOrd  []string
	content []bElem // yield content (nil = none)
	hasCont bool
	body    []bElem // if / range
}

type bDef struct {
	id, name   string
	params     bool
	pdef       string
	qdef       int
	body       []bElem
	defContent []bElem
	hasDefCont bool
}

type bTmpl struct {
	path    string
	ext     string
	imports []string
	root    []bElem
}

var bNames = []string{"ba", "bb", "bc", "bd"}

type bgen struct {
	r    *h.Rand
	nid  int
	tmpl string
}

func nameIdx(n string) int {
	for i, x := range bNames {
		if x == n {
			return i
		}
	}
	return -1
}

// elements allowed inside the body of a definition of names[idx]: only later names are referenced
func (g *bgen) bodyElems(idx, depth int) []bElem {
	var out []bElem
	n := 1 + g.r.Intn(3)
	for k := 0; k < n; k++ {
		switch pickW(g.r, "text", 3, "cv", 2, "yield", 2, "def", 1) {
		case "text":
			out = append(out, bElem{kind: "text", text: g.r.Pick([]string{"-", "t", "&", " "})})
		case "cv":
			out = append(out, bElem{kind: "cv"})
		case "yield":
			if idx+1 < len(bNames) && depth > 0 {
				out = append(out, g.yield(bNames[idx+1+g.r.Intn(len(bNames)-idx-1)], idx, depth-1))
			}
		case "def":
			if idx+1 < len(bNames) && depth > 0 {
				nn := bNames[idx+1+g.r.Intn(len(bNames)-idx-1)]
				out = append(out, bElem{kind: "def", name: nn, def: g.def(nn, depth-1)})
			}
		}
	}
	return out
}

func (g *bgen) yield(name string, idx, depth int) bElem {
	e := bElem{kind: "yield", name: name, args: map[string]string{}}
	for _, a := range []string{"p", "q"} {
		if g.r.Chance(50) {
			if a == "p" {
				e.args["p"] = fmt.Sprintf(`"y%d"`, g.r.Intn(90))
			} else {
				e.args["q"] = fmt.Sprint(g.r.Intn(90))
			}
			e.argOrd = append(e.argOrd, a)
		}
	}
	// arguments the definition does not declare are bound too, and never replace a declared default
	for _, a := range []string{"x", "zz"} {
		if g.r.Chance(20) {
			e.args[a] = fmt.Sprint(g.r.Intn(9))
			e.argOrd = append(e.argOrd, a)
		}
	}
	if len(e.argOrd) >= 2 && g.r.Bool() {
		perm := g.r.Perm(len(e.argOrd))
		ord := make([]string, len(perm))
		for i, k := range perm {
			ord[i] = e.argOrd[k]
		}
		e.argOrd = ord
	}
	if g.r.Chance(50) {
		e.hasCont = true
		e.content = []bElem{{kind: "text", text: fmt.Sprintf("c%d", g.r.Intn(90))}, {kind: "cv"}}
		if g.r.Chance(20) {
			// an empty content section still is the caller's content: nothing, not the enclosing content
			e.content = []bElem{}
		}
		if g.r.Chance(20) && depth > 0 && idx+1 < len(bNames) {
			e.content = append(e.content, g.yield(bNames[len(bNames)-1], len(bNames)-1, 0))
		}
	}
	return e
}

func (g *bgen) def(name string, depth int) *bDef {
	g.nid++
	d := &bDef{id: fmt.Sprintf("%s%d.%s", g.tmpl, g.nid, name), name: name}
	d.params = g.r.Chance(70)
	d.pdef = fmt.Sprintf("d%d", g.nid)
	d.qdef = g.r.Intn(9)
	idx := nameIdx(name)
	d.body = append(d.body, bElem{kind: "text", text: "[" + d.id + ":"})
	if d.params {
		d.body = append(d.body, bElem{kind: "p"}, bElem{kind: "text", text: ":"}, bElem{kind: "q"}, bElem{kind: "text", text: ":"})
	}
	d.body = append(d.body, g.bodyElems(idx, depth)...)
	if g.r.Chance(70) {
		d.body = append(d.body, bElem{kind: "ycontent"})
	}
	d.body = append(d.body, bElem{kind: "text", text: "]"})
	if g.r.Chance(50) {
		d.hasDefCont = true
		d.defContent = []bElem{{kind: "text", text: "dc-" + d.id}, {kind: "cv"}}
		if g.r.Chance(20) {
			d.defContent = []bElem{}
		}
	}
	return d
}

// ---- source

func srcElems(es []bElem) string {
	var b strings.Builder
	for _, e := range es {
		switch e.kind {
		case "text":
			b.WriteString(e.text)
		case "p":
			b.WriteString("{{p}}")
		case "q":
			b.WriteString("{{q}}")
		case "cv":
			b.WriteString("{{cv}}")
		case "ycontent":
			b.WriteString("{{yield content}}")
		case "def":
			b.WriteString(srcDef(e.def))
		case "yield":
			var as []string
			for _, a := range e.argOrd {
				as = append(as, a+"="+e.args[a])
			}
			b.WriteString("{{yield " + e.name + "(" + strings.Join(as, ", ") + ")")
			if e.hasCont {
				b.WriteString(" content}}" + srcElems(e.content) + "{{end}}")
			} else {
				b.WriteString("}}")
			}
		case "if":
			b.WriteString("{{if true}}" + srcElems(e.body) + "{{end}}")
		case "range":
			b.WriteString("{{range two}}" + srcElems(e.body) + "{{end}}")
		}
	}
	return b.String()
}

func srcDef(d *bDef) string {
	ps := ""
	if d.params {
		ps = fmt.Sprintf(`p="%s", q=%d`, d.pdef, d.qdef)
		if len(d.id)%2 == 0 {
			ps = fmt.Sprintf(`q=%d, p="%s"`, d.qdef, d.pdef)
		}
	}
	s := "{{block " + d.name + "(" + ps + ")}}" + `{{ cv := "in-` + d.id + `" }}` + srcElems(d.body)
	if d.hasDefCont {
		s += "{{content}}" + srcElems(d.defContent)
	}
	return s + "{{end}}"
}

// ---- the property's rule, computed by the generator

type bSet struct {
	tmpls map[string]*bTmpl
}

func ownDefs(es []bElem, out map[string]*bDef) {
	// parser registration order: nested definitions first, then the enclosing one; later wins
	for _, e := range es {
		switch e.kind {
		case "def":
			ownDefs(e.def.body, out)
			ownDefs(e.def.defContent, out)
			out[e.def.name] = e.def
		case "yield":
			ownDefs(e.content, out)
		case "if", "range":
			ownDefs(e.body, out)
		}
	}
}

func (s *bSet) table(path string) map[string]*bDef {
	t := s.tmpls[path]
	out := map[string]*bDef{}
	if t.ext != "" {
		for k, v := range s.table(t.ext) {
			out[k] = v
		}
	}
	for _, im := range t.imports {
		for k, v := range s.table(im) {
			out[k] = v
		}
	}
	own := map[string]*bDef{}
	ownDefs(t.root, own)
	for k, v := range own {
		out[k] = v
	}
	return out
}

type bContent struct {
	elems []bElem
	cv    string
	outer *bContent
	args  map[string]string
}

type bEnv struct {
	table   map[string]*bDef
	cv      string
	p, q    string
	content *bContent
}

func (s *bSet) render(es []bElem, env bEnv, b *strings.Builder) {
	for _, e := range es {
		switch e.kind {
		case "text":
			b.WriteString(e.text)
		case "p":
			b.WriteString(htmlEsc(env.p))
		case "q":
			b.WriteString(env.q)
		case "cv":
			b.WriteString(htmlEsc(env.cv))
		case "ycontent":
			if c := env.content; c != nil {
				ce := env
				ce.cv = c.cv
				ce.content = c.outer
				s.render(c.elems, ce, b)
			}
		case "def":
			d := env.table[e.name]
			if d == nil {
				d = e.def
			}
			var c *bContent
			if d.hasDefCont {
				c = &bContent{elems: d.defContent, cv: env.cv, outer: env.content}
			} else {
				c = env.content
			}
			s.renderDef(d, map[string]string{}, c, env, b)
		case "yield":
			d := env.table[e.name]
			if d == nil {
				b.WriteString("\x00UNRESOLVED")
				continue
			}
			var c *bContent
			if e.hasCont {
				c = &bContent{elems: e.content, cv: env.cv, outer: env.content}
			} else {
				c = env.content
			}
			s.renderDef(d, e.args, c, env, b)
		case "if":
			s.render(e.body, env, b)
		case "range":
			s.render(e.body, env, b)
			s.render(e.body, env, b)
		}
	}
}

func unq(lit string) string { return strings.Trim(lit, `"`) }

func (s *bSet) renderDef(d *bDef, args map[string]string, c *bContent, env bEnv, b *strings.Builder) {
	ne := env
	ne.cv = "in-" + d.id
	ne.content = c
	if d.params {
		ne.p, ne.q = d.pdef, fmt.Sprint(d.qdef)
		if v, ok := args["p"]; ok {
			ne.p = unq(v)
		}
		if v, ok := args["q"]; ok {
			ne.q = v
		}
	}
	s.render(d.body, ne, b)
}

func (s *bSet) expected(path string) string {
	t := s.tmpls[path]
	root := t
	for root.ext != "" {
		root = s.tmpls[root.ext]
	}
	var b strings.Builder
	s.render(root.root, bEnv{table: s.table(path), cv: "top"}, &b)
	return b.String()
}

func (s *bSet) source(path string) string {
	t := s.tmpls[path]
	hdr := ""
	// whitespace-only text around the leading clauses is dropped, whatever kind of white space it is
	// (the rule is strings.TrimSpace: \v, \f, NBSP, NEL, the Unicode separators count)
	blanks := []string{"", "", "\n", " \t", "\v\n", "\f", "\u00a0", "\u0085\n", "\u2028", " \u3000 "}
	k := len(path)
	blank := func() string {
		if t.ext == "" && len(t.imports) == 0 {
			return ""
		}
		k = k*7 + 3
		return blanks[k%len(blanks)]
	}
	if t.ext != "" {
		hdr += blank() + `{{extends "` + t.ext + `"}}`
	}
	for _, im := range t.imports {
		hdr += blank() + `{{import "` + im + `"}}`
	}
	return hdr + blank() + `{{ cv := "top" }}` + srcElems(t.root)
}

// ---- generation of a set

func genBlockSet(r *h.Rand) *bSet {
	g := &bgen{r: r}
	s := &bSet{tmpls: map[string]*bTmpl{}}
	var libs []string
	nl := 2 + r.Intn(3)
	rootOf := func(tag string, defsOnly bool, allowYield bool) []bElem {
		g.tmpl = tag
		g.nid = 0
		var es []bElem
		if !defsOnly {
			es = append(es, bElem{kind: "text", text: "<" + tag + ">"})
		}
		for _, n := range bNames {
			switch pickW(r, "def", 4, "none", 4, "yield", 2, "nest", 1) {
			case "def":
				es = append(es, bElem{kind: "def", name: n, def: g.def(n, 2)})
			case "yield":
				if allowYield {
					es = append(es, g.yield(n, -1, 1))
				}
			case "nest":
				inner := []bElem{{kind: "def", name: n, def: g.def(n, 1)}}
				es = append(es, bElem{kind: r.Pick([]string{"if", "range"}), body: inner})
			}
			if r.Chance(30) {
				es = append(es, bElem{kind: "text", text: "|"})
			}
		}
		return es
	}
	for i := 0; i < nl; i++ {
		p := fmt.Sprintf("/lib%d.jet", i)
		t := &bTmpl{path: p, root: rootOf(fmt.Sprintf("L%d", i), true, false)}
		for _, prev := range libs {
			if r.Chance(20) {
				t.imports = append(t.imports, prev)
			}
		}
		s.tmpls[p] = t
		libs = append(libs, p)
	}
	pickLibs := func() []string {
		var out []string
		perm := r.Perm(len(libs))
		k := r.Intn(len(libs) + 1)
		for _, i := range perm[:k] {
			out = append(out, libs[i])
		}
		if len(out) >= 2 && r.Chance(30) {
			out = append(out, out[r.Intn(len(out)-1)]) // imported again after the others: the later import wins
		}
		return out
	}
	// layout chain
	s.tmpls["/base.jet"] = &bTmpl{path: "/base.jet", root: rootOf("B0", false, false), imports: nil}
	if r.Chance(40) {
		s.tmpls["/base.jet"].imports = pickLibs()
	}
	chain := []string{"/base.jet"}
	if r.Chance(60) {
		s.tmpls["/mid.jet"] = &bTmpl{path: "/mid.jet", ext: "/base.jet", root: rootOf("M1", false, false), imports: pickLibs()}
		chain = append(chain, "/mid.jet")
	}
	for i := 0; i < 1+r.Intn(3); i++ {
		p := fmt.Sprintf("/leaf%d.jet", i)
		t := &bTmpl{path: p, imports: pickLibs()}
		if r.Chance(75) {
			t.ext = chain[r.Intn(len(chain))]
		}
		if r.Chance(35) {
			t.root = nil // no own definitions at all
			if t.ext == "" {
				t.root = []bElem{{kind: "text", text: "<" + p + ">"}}
			}
		} else {
			t.root = rootOf(fmt.Sprintf("F%d", i), t.ext != "", t.ext == "")
		}
		// a standalone template may yield any name its table has
		if t.ext == "" {
			s.tmpls[p] = t
			tb := s.table(p)
			for _, n := range bNames {
				if tb[n] != nil && r.Chance(60) {
					t.root = append(t.root, g.yield(n, -1, 1))
				}
			}
		}
		s.tmpls[p] = t
	}
	// the layout's yields: only names every user of the layout resolves (the layout's own table)
	bt := s.table("/base.jet")
	for _, n := range bNames {
		if bt[n] != nil && r.Chance(50) {
			s.tmpls["/base.jet"].root = append(s.tmpls["/base.jet"].root, g.yield(n, -1, 1))
		}
	}
	return s
}

func (s *bSet) paths() []string {
	var ps []string
	for p := range s.tmpls {
		ps = append(ps, p)
	}
	sort.Strings(ps)
	return ps
}

func genBlockSetCases(r *h.Rand) []h.Case {
	s := genBlockSet(r)
	ps := s.paths()
	meta := sx.L(sx.A("files"))
	for _, p := range ps {
		meta.Add(sx.L(sx.S(p), sx.S(s.source(p))))
	}
	order := sx.L()
	for _, i := range r.Perm(len(ps)) {
		order.Add(sx.S(ps[i]))
	}
	want := sx.L()
	for _, p := range ps {
		want.Add(sx.L(sx.S(p), sx.S(s.expected(p))))
	}
	two := sx.L(sx.A("slice"), sx.Bool(false), sx.Bool(false), vInt(1), vInt(2))
	vars := sx.L(bind("two", two))
	var cs []h.Case
	cs = append(cs, h.Case{Stream: "blocksets", Meta: meta, NonTrivial: true, NoModel: true,
		Cmd: sx.L(sx.A("blockset-exec"), order, want, vars)})
	ord := order
	cs = append(cs, h.Case{Stream: "tables", Meta: meta, NonTrivial: true,
		Prep:   sx.L(sx.A("dump-store-ordered"), ord),
		Finish: func(store *sx.Sexp) *sx.Sexp { return sx.L(sx.A("blocktables"), store, ord) }})
	// every template also through the evaluator model
	for _, p := range ps {
		if !r.Chance(40) {
			continue
		}
		pr := newProg(r)
		pr.esc = "html"
		pr.vars = vars
		pr.data = vNil()
		pr.entry = p
		pr.files = map[string]string{}
		for _, q := range ps {
			pr.files[q] = s.source(q)
		}
		pr.tags["blockset"] = true
		if exp := s.expected(p); strings.Contains(exp, "\x00UNRESOLVED") {
			cs = append(cs, evalCase("eval", pr)) // a block the executing template's table lacks: an error, compared with the model only
		} else {
			cs = append(cs, withExpect(evalCase("eval", pr), exp, nil))
		}
	}
	return cs
}

func init() {
	h.RegisterImpl("dump-store-ordered", func(cmd, meta *sx.Sexp) (*sx.Sexp, string) {
		paths, files := filesOf(meta)
		set := newSetFor(files, "html", nil)
		for _, o := range cmd.Xs[1].Xs {
			set.GetTemplate(string(o.B))
		}
		out := sx.L(sx.A("store"))
		for _, p := range paths {
			t, err := set.GetTemplate(p)
			if err != nil {
				out.Add(sx.L(sx.S(p), sx.A("err")))
				continue
			}
			d, perr := sx.Parse(jet.VerifDumpTemplate(t))
			if perr != nil {
				panic("unparsable dump: " + perr.Error())
			}
			out.Add(sx.L(sx.S(p), d))
		}
		return out, ""
	})
	h.RegisterImpl("blocktables", func(cmd, meta *sx.Sexp) (*sx.Sexp, string) {
		paths, files := filesOf(meta)
		set := newSetFor(files, "html", nil)
		for _, o := range cmd.Xs[2].Xs {
			set.GetTemplate(string(o.B))
		}
		out := sx.L(sx.A("tables"))
		for _, p := range paths {
			t, err := set.GetTemplate(p)
			if err != nil {
				out.Add(sx.L(sx.S(p), sx.A("err")))
				continue
			}
			row := sx.L(sx.S(p))
			for _, e := range jet.VerifBlockTable(t) {
				f := strings.Split(e, "\x00")
				row.Add(sx.L(sx.S(f[0]), sx.S(f[1]), sx.A(f[2])))
			}
			out.Add(row)
		}
		return out, ""
	})
	h.ModelNormalizers["blocktables"] = func(m *sx.Sexp) *sx.Sexp {
		if m.K != sx.List || len(m.Xs) == 0 || m.Xs[0].A != "tables" {
			return m
		}
		for _, row := range m.Xs[1:] {
			if row.K == sx.List && len(row.Xs) > 1 && row.Xs[1].K == sx.List {
				es := row.Xs[1:]
				sort.SliceStable(es, func(i, j int) bool { return bytes.Compare(es[i].Xs[0].B, es[j].Xs[0].B) < 0 })
			}
		}
		return m
	}
	h.RegisterImpl("blockset-exec", func(cmd, meta *sx.Sexp) (*sx.Sexp, string) {
		_, files := filesOf(meta)
		set := newSetFor(files, "html", nil)
		oracle := ""
		for _, o := range cmd.Xs[1].Xs {
			if _, err := set.GetTemplate(string(o.B)); err != nil && oracle == "" {
				oracle = "a template of a generated, valid set did not parse: " + string(o.B) + ": " + clipS(err.Error())
			}
		}
		vars := jet.VarMap{}
		for _, g := range cmd.Xs[3].Xs {
			vars.Set(string(g.Xs[0].B), decodeVal(g.Xs[1]))
		}
		out := sx.L(sx.A("rendered"))
		for _, w := range cmd.Xs[2].Xs {
			p := string(w.Xs[0].B)
			t, err := set.GetTemplate(p)
			if err != nil {
				out.Add(sx.L(sx.S(p), sx.A("parse-error")))
				continue
			}
			var buf bytes.Buffer
			xerr := executeContained(t, &buf, vars, nil)
			got := buf.String()
			if xerr != nil {
				got = "ERROR: " + xerr.Error()
			}
			out.Add(sx.L(sx.S(p), sx.S(got)))
			if want := string(w.Xs[1].B); got != want && oracle == "" && !strings.Contains(want, "\x00UNRESOLVED") {
				oracle = fmt.Sprintf("%s renders %q, the precedence rule demands %q", p, clipS(got), clipS(want))
			}
		}
		return out, oracle
	})
	h.RegisterProp(&h.Prop{ID: "C08", Gen: func(r *h.Rand, tier string) []h.Case {
		n := 150
		if tier == "search" {
			n = 600
		} else if tier != "quick" {
			n = 4000
		}
		var cs []h.Case
		for i := 0; i < n; i++ {
			cs = append(cs, genBlockSetCases(r)...)
		}
		for i := 0; i < n; i++ {
			cs = append(cs, evalCase("eval", genProgram(r, "blocks")))
		}
		for i := 0; i < n/2; i++ {
			cs = append(cs, oracleCase("oracle", r, "blocks"))
		}
		return cs
	}})
}
