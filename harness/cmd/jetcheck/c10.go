package main

import (
	"fmt"
	"regexp"
	"strconv"

	"github.com/CloudyKit/jet/v6"

	"jetverif/harness/h"
	"jetverif/harness/sx"
)

// C10: histories of Execute calls in one process (one goroutine, so pooled runtimes are reused).
// The model has no state between executions: it answers every call from that call's inputs alone.
// Direct oracle (independent of the model): the same call gives the same result wherever it occurs
// in the history, and no template's structure changes.

// probe programs: they observe what a fresh runtime must not contain
func residueProbes(r *h.Rand) []*prog {
	mk := func(src string, data *sx.Sexp) *prog {
		p := newProg(r)
		p.esc = "html"
		p.files["/main.jet"] = src
		p.data = data
		p.tags["probe"] = true
		return p
	}
	ps := []*prog{
		mk(`P1[{{yield content}}|{{content}}]`, vNil()),
		mk(`P2[{{.}}|{{isset(.)}}|{{isset(.A)}}]`, vNil()),
		mk(`P3[{{isset(v1)}}{{isset(x)}}{{isset(p)}}{{isset(q)}}{{isset(w)}}{{isset(y)}}{{isset(k)}}{{isset(err)}}]`, vNil()),
		mk(`P4[{{block pb(a=1)}}{{a}}<{{yield content}}>{{end}}|{{yield pb(a=2)}}]`, vNil()),
		mk(`P5[{{try}}{{yield content}}{{x}}{{catch}}c{{end}}{{yield content}}]`, vInt(3)),
		mk(`P6[{{range i := li}}{{yield content}}{{i}}{{end}}{{isset(i)}}]`, vNil()),
		mk(`P7[{{try}}ok{{end}}|{{try}}a{{try}}b{{end}}c{{catch}}X{{end}}]`, vNil()),
		mk(`P8[{{range li}}{{range x := ls}}{{x}}{{end}};{{end}}|{{range k, v := m}}{{end}}{{range li}}{{.}}{{range li}}{{.}}{{end}},{{end}}]`, vNil()),
		mk(`P9[{{range el}}x{{else}}e{{end}}{{range nl}}x{{else}}e{{end}}{{range nm}}x{{else}}e{{end}}|{{range li}}{{range el}}x{{else}}{{.}}{{end}}{{end}}]`, vNil()),
		mk(`P10[{{ x := 1 }}{{include "/inc.jet"}}{{ exec("/inc.jet") }}{{.}}{{isset(x)}}]`, vStr("ctx")),
	}
	// without any variables the caller passes a nil VarMap: whatever an earlier execution bound there is gone
	p11 := mk(`P11[{{isset(leak)}}{{isset(gl2)}}{{ g }}]`, vNil())
	p11.vars = sx.L()
	p12 := mk(`P12[{{ apiLetGlobal("gl2", 5) }}{{gl2}}{{isset(leak)}}]`, vNil())
	p12.vars = sx.L()
	p12.globals.Add(bind("apiLetGlobal", vJFunc("apiLetGlobal")))
	// the debugging built-in: what it prints is a function of this execution's variables and context only
	p13 := mk(`P13[{{ dump("li", "m") }}|{{ dump() }}]`, vInt(7))
	// Go functions with pointer parameters, fed with literals and variables declared from literals: whatever the
	// engine does with such a call, it does the same on every execution (the literals belong to the parsed template)
	p14 := mk(`P14[{{ n := 0 }}{{try}}{{ bumpf(n) }}{{catch}}c{{end}}{{n}}|{{try}}{{ bumps("hey") }}{{catch}}c{{end}}|{{ w := "hey" }}{{try}}{{ bumps(w) }}{{catch}}c{{end}}{{w}}|{{block pb14(q=1)}}{{try}}{{ bumpf(q) }}{{catch}}c{{end}}{{q}}{{end}}{{try}}{{ bumpf(2) }}{{catch}}c{{end}}]`, vNil())
	p14.globals.Add(bind("bumpf", vFunc("bumpf"))).Add(bind("bumps", vFunc("bumps")))
	ps = append(ps, p11, p12, p13, p14)
	for _, p := range ps {
		p.files["/inc.jet"] = `I{{.}}{{isset(x)}}`
	}
	ps = append(ps[:0:0], ps...)
	_ = ps
	return ps
}

// programs that fail in interesting places
func residueFailers(r *h.Rand) []*prog {
	mk := func(src string) *prog {
		p := newProg(r)
		p.esc = pickW(r, "html", 3, "nil", 1)
		p.files["/main.jet"] = src
		p.files["/inc.jet"] = `INC{{x := 5}}{{fail("in include")}}`
		p.files["/n1.jet"] = `{{ w := 1 }}{{include "/n2.jet"}}`
		p.files["/n2.jet"] = `{{yield content}}`
		p.tags["failer"] = true
		return p
	}
	secret := r.Pick([]string{"SECRET", "<s>", "s&t"})
	return []*prog{
		mk(`{{block fb(a)}}[{{a}}{{yield content}}]{{end}}{{yield fb(a=1) content}}` + secret + `{{x := 9}}{{fail("in content")}}{{end}}`),
		mk(`{{block fb(a)}}[{{a}}{{yield content}}{{fail("after content")}}]{{end}}{{yield fb(a=1) content}}` + secret + `{{end}}`),
		mk(`{{range k, x := li}}{{y := x}}{{if k == 1}}{{fail("in range")}}{{end}}{{end}}`),
		mk(`{{w := "` + secret + `"}}{{include "/inc.jet" w}}`),
		mk(`{{try}}{{block fb(a)}}{{yield content}}{{end}}{{yield fb(a=2) content}}{{try}}{{fail("inner")}}{{end}}` + secret + `{{fail("in try")}}{{end}}{{catch err}}{{fail("in catch")}}{{end}}`),
		mk(`{{block fb(a)}}{{yield content}}{{end}}{{yield fb(a=2) content}}{{yield fb(a=3) content}}` + secret + `{{nosuch.field}}{{end}}{{end}}`),
		mk(`{{block fb(a) s}}{{.}}{{yield content}}{{end}}{{yield fb(a=2) "ctx` + secret + `" content}}{{.}}{{1/z}}{{end}}`),
		mk(`{{try}}` + secret + `{{ missing }}{{catch}}{{ missing2 }}{{end}}`),
		mk(`{{try}}` + secret + `{{try}}x{{ missing }}{{catch}}y{{ missing2 }}{{end}}{{end}}{{ missing3 }}`),
		mk(`{{range el}}x{{else}}e{{end}}{{range nl}}{{else}}{{range el}}{{else}}{{fail("in else")}}{{end}}{{end}}`),
		mk(`{{range li}}{{range ls}}{{range k, v := m}}{{fail("deep")}}{{end}}{{end}}{{end}}`),
		mk(`{{block wrap()}}[{{include "/n1.jet"}}]{{end}}{{yield wrap() content}}` + secret + `{{ missing }}{{end}}`),
		mk(`{{ x := "` + secret + `" }}{{ exec("/inc.jet", x) }}{{include "/inc.jet" x}}`),
		novars(mk(`{{ apiLetGlobal("leak", "` + secret + `") }}[{{leak}}]{{ fail("after a root binding") }}`)),
		novars(mk(`{{if true}}{{ apiLetGlobal("leak", "` + secret + `") }}{{ apiSetOrLet("gl2", 1) }}{{end}}{{ gl2 }}{{ missing }}`)),
		novars(mk(`{{ apiLetGlobal("leak", "` + secret + `") }}[{{leak}}]`)),
		nodata(mk(`D[{{ dump() }}]`)),                              // fails half-way: there is no context to describe
		nodata(mk(`D[{{ dump("li", "nosuchvar", "m") }}{{ dump() }}]`)), // a name that is not there, then the failing form
	}
}

func nodata(p *prog) *prog { p.data = vNil(); return p }

// novars: the program is executed with a nil VarMap; the API functions it uses are Set globals
func novars(p *prog) *prog {
	p.vars = sx.L()
	for _, n := range []string{"apiLetGlobal", "apiSetOrLet", "apiLet"} {
		p.globals.Add(bind(n, vJFunc(n)))
	}
	return p
}

// several entry templates of one Set that share an included partial: what one execution resolved
// (a block of its includer, found up the scope chain) is nobody else's business
func sharedPartialProg(r *h.Rand) (*prog, []string) {
	p := newProg(r)
	p.esc = "html"
	a, b := r.Pick([]string{"A", "<a>"}), r.Pick([]string{"B", "b&b"})
	p.files["/part.jet"] = `{{block own()}}o{{end}}[{{yield shared()}}]`
	p.files["/plain.jet"] = `({{yield shared()}})`
	p.files["/incA.jet"] = `{{block shared()}}` + a + `{{end}}{{include "/part.jet"}}{{include "/plain.jet"}}`
	p.files["/incB.jet"] = `{{block shared()}}` + b + `{{end}}{{include "/part.jet"}}{{include "/plain.jet"}}`
	p.files["/incC.jet"] = `c{{try}}{{include "/part.jet"}}{{catch}}unresolved{{end}}`
	p.files["/main.jet"] = `{{include "/incB.jet"}}|{{include "/incA.jet"}}|{{include "/incC.jet"}}|{{include "/incB.jet"}}`
	p.tags["shared-partial"] = true
	return p, []string{"/incB.jet", "/incA.jet", "/incC.jet", "/incB.jet", "/main.jet", "/incC.jet"}
}

func execCmdOf(p *prog, store *sx.Sexp) *sx.Sexp {
	return execCmdOfEntry(p, store, p.entry)
}

func execCmdOfEntry(p *prog, store *sx.Sexp, entry string) *sx.Sexp {
	return sx.L(sx.A("exec"), store, sx.S(entry),
		sx.L(sx.A("exts"), sx.S(""), sx.S(".jet"), sx.S(".html.jet"), sx.S(".jet.html")),
		sx.A(p.esc), p.globals, p.vars, p.data, sx.I(400))
}

func genHistory(r *h.Rand) h.Case {
	var progs []*prog
	probes := residueProbes(r)
	failers := residueFailers(r)
	n := 2 + r.Intn(3)
	for i := 0; i < n; i++ {
		switch pickW(r, "probe", 3, "failer", 3, "random", 3, "oracle", 1) {
		case "probe":
			progs = append(progs, probes[r.Intn(len(probes))])
		case "failer":
			progs = append(progs, failers[r.Intn(len(failers))])
		case "oracle":
			p, _ := genOracleProgram(r, r.Pick([]string{"try", "errors", "include", "scope"}))
			progs = append(progs, p)
		default:
			progs = append(progs, genProgram(r, r.Pick([]string{"errors", "try", "include", "scope", "blocks", "control"})))
		}
	}
	entriesOf := map[int][]string{}
	if r.Chance(30) {
		sp, es := sharedPartialProg(r)
		entriesOf[len(progs)] = es
		progs = append(progs, sp)
	}
	// at least one probe, executed again after everything else
	progs = append(progs, probes[r.Intn(len(probes))])
	var order []int
	ncalls := 4 + r.Intn(6)
	for i := 0; i < ncalls; i++ {
		order = append(order, r.Intn(len(progs)))
	}
	order = append([]int{len(progs) - 1}, order...)
	order = append(order, len(progs)-1, r.Intn(len(progs)))
	// a program with several entries is called through them in turn (so each entry recurs)
	entryAt := make([]string, len(order))
	for k, es := range entriesOf {
		order = append(order, k, k, k, k)
		entryAt = append(entryAt, "", "", "", "")
		n := 0
		for i, o := range order {
			if o == k {
				entryAt[i] = es[n%len(es)]
				n++
			}
		}
	}
	meta := sx.L(sx.A("hist"))
	tags := map[string]bool{}
	for _, p := range progs {
		meta.Add(p.filesMeta())
		for t := range p.tags {
			tags[t] = true
		}
	}
	var tagl []string
	for t := range tags {
		tagl = append(tagl, t)
	}
	ps := progs
	return h.Case{
		Stream: "history", Meta: meta, Tags: tagl, NonTrivial: true,
		Prep: sx.L(sx.A("dump-stores")),
		Finish: func(stores *sx.Sexp) *sx.Sexp {
			c := sx.L(sx.A("history"))
			for i, k := range order {
				if entryAt[i] != "" {
					c.Add(sx.L(sx.A("call"), sx.I(int64(k)), execCmdOfEntry(ps[k], stores.Xs[k+1], entryAt[i])))
				} else {
					c.Add(sx.L(sx.A("call"), sx.I(int64(k)), execCmdOf(ps[k], stores.Xs[k+1])))
				}
			}
			return c
		},
	}
}

// printed pointer values (hex of "0xc000…") differ between calls that decode fresh input values
var addrRe = regexp.MustCompile(`307863303030[0-9a-f]{6,16}`)

func dumpAll(set *jet.Set, paths []string) string {
	s := ""
	for _, p := range paths {
		t, err := set.GetTemplate(p)
		if err != nil {
			s += "|" + p + ":err"
			continue
		}
		s += "|" + p + ":" + jet.VerifDumpTemplate(t)
	}
	return s
}

func init() {
	h.RegisterImpl("dump-stores", func(cmd, meta *sx.Sexp) (*sx.Sexp, string) {
		out := sx.L(sx.A("stores"))
		for _, fm := range meta.Xs[1:] {
			paths, files := filesOf(fm)
			set := newSetFor(files, "html", nil)
			st := sx.L(sx.A("store"))
			for _, p := range paths {
				t, err := set.GetTemplate(p)
				if err != nil {
					st.Add(sx.L(sx.S(p), sx.A("err")))
					continue
				}
				d, perr := sx.Parse(jet.VerifDumpTemplate(t))
				if perr != nil {
					panic("unparsable dump: " + perr.Error())
				}
				st.Add(sx.L(sx.S(p), d))
			}
			out.Add(st)
		}
		return out, ""
	})
	h.RegisterImpl("history", func(cmd, meta *sx.Sexp) (*sx.Sexp, string) {
		prepared := map[int64]*preparedExec{}
		pathsOf := map[int64][]string{}
		before := map[int64]string{}
		seen := map[string]string{}
		oracle := ""
		out := sx.L(sx.A("results"))
		for ci, call := range cmd.Xs[1:] {
			k, _ := strconv.ParseInt(call.Xs[1].A, 10, 64)
			ec := call.Xs[2]
			pe, ok := prepared[k]
			if !ok {
				paths, files := filesOf(meta.Xs[1+int(k)])
				pe = prepareExec(ec, files)
				prepared[k] = pe
				pathsOf[k] = paths
				before[k] = dumpAll(pe.set, paths)
			}
			// the entry template of this call (a Set serves several)
			entry := string(ec.Xs[2].B)
			if t, err := pe.set.GetTemplate(entry); err == nil {
				pe.t = t
			} else {
				pe.t = nil
			}
			if (ci*7+int(k)*3)%4 == 1 {
				// an execution of the same program whose writer gives up part-way (a closed connection):
				// whatever it leaves behind must not show in any later execution
				pe.runInto(ec, &failingWriter{left: (ci*13 + int(k)*5) % 23})
			}
			res, perr := pe.run(ec, nil)
			if perr != "" && oracle == "" {
				oracle = fmt.Sprintf("call %d (program %d): %s", ci, k, perr)
			}
			rs := addrRe.ReplaceAllString(res.String(), "PTR")
			key := fmt.Sprintf("%d %s", k, entry)
			if prev, dup := seen[key]; dup && prev != rs && oracle == "" {
				oracle = fmt.Sprintf("call %d (program %d, entry %s) returned %s, the same call earlier in the history returned %s", ci, k, entry, clipS(rs), clipS(prev))
			}
			seen[key] = rs
			out.Add(res)
		}
		for k, pe := range prepared {
			if after := dumpAll(pe.set, pathsOf[k]); after != before[k] && oracle == "" {
				oracle = fmt.Sprintf("executing modified the parsed templates of program %d", k)
			}
		}
		return out, oracle
	})
	h.ModelNormalizers["history"] = func(m *sx.Sexp) *sx.Sexp {
		if m.K != sx.List || len(m.Xs) < 1 || m.Xs[0].A != "results" {
			return m
		}
		for i := 1; i < len(m.Xs); i++ {
			m.Xs[i] = normalizeExecModel(m.Xs[i])
		}
		return m
	}
	h.PairNormalizers["history"] = func(impl, model string) (string, string) {
		ix, e1 := sx.Parse(impl)
		mx, e2 := sx.Parse(model)
		if e1 != nil || e2 != nil || ix.K != sx.List || mx.K != sx.List || len(ix.Xs) != len(mx.Xs) || len(mx.Xs) == 0 || mx.Xs[0].A != "results" {
			return impl, model
		}
		kept := 0
		for i := 1; i < len(mx.Xs); i++ {
			if mx.Xs[i].K == sx.List && len(mx.Xs[i].Xs) > 0 && mx.Xs[i].Xs[0].A == "unsupported" {
				ix.Xs[i] = sx.A("skipped")
				mx.Xs[i] = sx.A("skipped")
			} else {
				kept++
			}
		}
		if kept < 2 {
			return impl, "(unsupported history-with-fewer-than-2-expressible-calls)"
		}
		return ix.String(), mx.String()
	}
	h.RegisterProp(&h.Prop{ID: "C10", Gen: func(r *h.Rand, tier string) []h.Case {
		n := 250
		if tier == "search" {
			n = 1000
		} else if tier != "quick" {
			n = 6000
		}
		var cs []h.Case
		for i := 0; i < n; i++ {
			cs = append(cs, genHistory(r))
		}
		// process-wide state keyed by Go type (the struct field cache): the same struct type executed with
		// different values, in either order, must behave as on first use
		for i := 0; i < n/3; i++ {
			for _, c := range genStructCases(r) {
				if c.Stream == "structs" {
					c.Stream = "typecache-history"
					cs = append(cs, c)
				}
			}
		}
		return cs
	}})
}
