// jetcheck: correspondence + direct-oracle runner for one property.
//   jetcheck -prop C15 -tier quick -seed 1 -driver <jetdriver> -out result.json [-case "(stream cmd meta)"]
package main

import (
	"flag"
	"os"
	"runtime/debug"

	"jetverif/harness/h"
)

func main() {
	if len(os.Args) > 1 && os.Args[1] == "--worker" {
		debug.SetMaxStack(24 << 20)
		h.WorkerMain()
		return
	}
	prop := flag.String("prop", "", "property id")
	tier := flag.String("tier", "quick", "quick|thorough|search")
	seed := flag.Uint64("seed", 1, "seed")
	driver := flag.String("driver", "/verif/lean/.lake/build/bin/jetdriver", "model driver")
	out := flag.String("out", "-", "result json")
	corpus := flag.String("corpus", "/verif/corpus", "corpus dir")
	only := flag.String("case", "", "run only this case, or 'corpus'")
	flag.Parse()
	os.Exit(h.Run(*prop, *tier, *seed, *driver, *out, *corpus, *only))
}
