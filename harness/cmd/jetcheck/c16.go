package main

import (
	"bytes"
	"fmt"
	"io"
	"io/ioutil"
	"path"
	"regexp"
	"strconv"
	"strings"
	"sync"

	"github.com/CloudyKit/jet/v6"

	"jetverif/harness/h"
	"jetverif/harness/sx"
)

// recCache: a custom Cache that records every call (and otherwise behaves like the default one)
type recCache struct {
	mu  sync.Mutex
	m   map[string]*jet.Template
	log *[]string
}

func (c *recCache) Get(p string) *jet.Template {
	c.mu.Lock()
	defer c.mu.Unlock()
	*c.log = append(*c.log, "G:"+p)
	return c.m[p]
}
func (c *recCache) Put(p string, t *jet.Template) {
	c.mu.Lock()
	defer c.mu.Unlock()
	*c.log = append(*c.log, "P:"+p)
	c.m[p] = t
}

// orderedLoader: records into the same log as the cache so the order of calls is kept
type orderedLoader struct {
	files map[string]string
	fault map[string]string // "openfails" | "readfails": Exists is true
	log   *[]string
}

func (l *orderedLoader) Exists(p string) bool {
	*l.log = append(*l.log, "E:"+p)
	if _, ok := l.files[p]; ok {
		return true
	}
	_, ok := l.fault[p]
	return ok
}

func (l *orderedLoader) Open(p string) (io.ReadCloser, error) {
	*l.log = append(*l.log, "O:"+p)
	if f, ok := l.fault[p]; ok {
		if f == "openfails" {
			return nil, fmt.Errorf("injected open fault")
		}
		return faultReader{}, nil
	}
	c, ok := l.files[p]
	if !ok {
		return nil, fmt.Errorf("%s does not exist", p)
	}
	return ioutil.NopCloser(strings.NewReader(c)), nil
}

var markRe = regexp.MustCompile(`M(\d+);`)
var importRe = regexp.MustCompile(`\{\{import "([^"]*)"\}\}`)

func contentSrc(c *sx.Sexp, i int) string {
	// c.Xs[i:] = mark (refs) (incs) bad
	var sb strings.Builder
	for _, r := range c.Xs[i+1].Xs {
		sb.WriteString("{{import " + strconv.Quote(string(r.B)) + "}}")
	}
	sb.WriteString("M" + c.Xs[i].A + ";")
	for _, n := range c.Xs[i+2].Xs {
		sb.WriteString("{{include " + strconv.Quote(string(n.B)) + "}}")
	}
	if c.Xs[i+3].A == "true" {
		sb.WriteString("{{end}}")
	}
	return sb.String()
}

// level: includes only point to templates of a higher level, so the include graph is acyclic
// (import cycles are allowed: they are detected and reported by the Set)
func levelOf(p string) int {
	switch {
	case strings.HasPrefix(p, "/a"):
		return 0
	case strings.HasPrefix(p, "/b"):
		return 1
	case strings.HasPrefix(p, "/d/c"):
		return 2
	case strings.HasPrefix(p, "/x"):
		return 3
	}
	return 0
}

func genContentAt(r *h.Rand, mark int, names []string, level int) []*sx.Sexp {
	refs := sx.L()
	for r.Chance(25) {
		refs.Add(sx.S(r.Pick(names)))
	}
	incs := sx.L()
	higher := []string{}
	for _, n := range []string{"/b", "/d/c", "/x", "/zz", "/b.jet"} {
		if levelOf(n) > level || n == "/zz" {
			higher = append(higher, n)
		}
	}
	for r.Chance(35) {
		incs.Add(sx.S(r.Pick(higher)))
	}
	return []*sx.Sexp{sx.I(int64(mark)), refs, incs, sx.Bool(r.Chance(12))}
}

func genContent(r *h.Rand, mark int, names []string) []*sx.Sexp {
	refs := sx.L()
	for r.Chance(25) {
		refs.Add(sx.S(r.Pick(names)))
	}
	incs := sx.L()
	for r.Chance(35) {
		incs.Add(sx.S(r.Pick([]string{"/a", "/b", "/d/c", "/x", "/zz"})))
	}
	return []*sx.Sexp{sx.I(int64(mark)), refs, incs, sx.Bool(r.Chance(12))}
}

func genC16(r *h.Rand, tier string) []h.Case {
	n := 400
	if tier == "search" {
		n = 1500
	} else if tier != "quick" {
		n = 12000
	}
	extLists := [][]string{{"", ".jet", ".html.jet", ".jet.html"}, {".jet"}, {".html", ""}, {".a", ".b"}}
	var cs []h.Case
	for i := 0; i < n; i++ {
		dev := r.Chance(35)
		exts := extLists[r.Intn(len(extLists))]
		el := sx.L(sx.A("exts"))
		for _, e := range exts {
			el.Add(sx.S(e))
		}
		cmd := sx.L(sx.A("setm"), sx.Bool(dev), el)
		// request names and the files behind them
		bases := []string{"/a", "/b", "/d/c", "/x"}
		names := []string{"/a", "b", "/d/c", "c", "/x", "../x", "/a.jet", "/zz"}
		filePaths := []string{}
		for _, b := range bases {
			for _, e := range exts {
				if r.Chance(55) {
					filePaths = append(filePaths, b+e)
				}
			}
		}
		mark := 0
		putFile := func(p string) {
			mark++
			switch r.Intn(12) {
			case 0:
				cmd.Add(sx.L(sx.A("file"), sx.S(p), sx.A("openfails")))
			case 1:
				cmd.Add(sx.L(sx.A("file"), sx.S(p), sx.A("readfails")))
			default:
				cmd.Add(sx.L(append([]*sx.Sexp{sx.A("file"), sx.S(p), sx.A("ok")}, genContentAt(r, mark, names, levelOf(p))...)...))
			}
		}
		for _, p := range filePaths {
			putFile(p)
		}
		nops := 4 + r.Intn(12)
		nret := 0
		tags := []string{fmt.Sprintf("dev=%v", dev)}
		if r.Chance(20) {
			// a chain of header references two levels deep below a Parse'd text, nothing of it cached yet:
			// Parse may cache none of it (not only not its own result)
			e := exts[0]
			mark += 3
			cmd.Add(sx.L(sx.A("file"), sx.S("/a"+e), sx.A("ok"), sx.I(int64(mark-2)), sx.L(sx.S("/b")), sx.L(), sx.Bool(false)))
			cmd.Add(sx.L(sx.A("file"), sx.S("/b"+e), sx.A("ok"), sx.I(int64(mark-1)), sx.L(sx.S("/d/c")), sx.L(), sx.Bool(false)))
			cmd.Add(sx.L(sx.A("file"), sx.S("/d/c"+e), sx.A("ok"), sx.I(int64(mark)), sx.L(), sx.L(), sx.Bool(false)))
			mark++
			cmd.Add(sx.L(sx.A("parse"), sx.S("/p.jet"), sx.I(int64(mark)), sx.L(sx.S("/a")), sx.L(), sx.Bool(false)))
			nret++
			tags = append(tags, "deep-parse")
		}
		if r.Chance(20) && len(exts) > 1 {
			// one base name with files under two extensions, asked for under the later one first
			b := r.Pick(bases)
			mark += 2
			cmd.Add(sx.L(sx.A("file"), sx.S(b+exts[0]), sx.A("ok"), sx.I(int64(mark-1)), sx.L(), sx.L(), sx.Bool(false)))
			cmd.Add(sx.L(sx.A("file"), sx.S(b+exts[1]), sx.A("ok"), sx.I(int64(mark)), sx.L(), sx.L(), sx.Bool(false)))
			later := b + exts[1]
			if exts[0] != "" && strings.HasSuffix(exts[1], exts[0]) {
				later = b + strings.TrimSuffix(exts[1], exts[0]) // "/page.html" finds /page.html.jet
			}
			cmd.Add(sx.L(sx.A("get"), sx.S(later)))
			cmd.Add(sx.L(sx.A("get"), sx.S(b)))
			nret += 2
			tags = append(tags, "two-extensions")
		}
		if r.Chance(20) {
			// a file asked for by its full name (and remembered), then edited, then asked for by its base name
			// for the first time: that is a lookup of its own, it reads the file as it is now
			hasEmpty, e := false, ""
			for _, x := range exts {
				if x == "" {
					hasEmpty = true
				} else if e == "" {
					e = x
				}
			}
			if hasEmpty && e != "" {
				b := r.Pick(bases)
				for _, x := range exts {
					if x != e {
						cmd.Add(sx.L(sx.A("delfile"), sx.S(b+x)))
					}
				}
				mark += 2
				cmd.Add(sx.L(sx.A("file"), sx.S(b+e), sx.A("ok"), sx.I(int64(mark-1)), sx.L(), sx.L(), sx.Bool(false)))
				cmd.Add(sx.L(sx.A("get"), sx.S(b+e)))
				cmd.Add(sx.L(sx.A("file"), sx.S(b+e), sx.A("ok"), sx.I(int64(mark)), sx.L(), sx.L(), sx.Bool(false)))
				cmd.Add(sx.L(sx.A("get"), sx.S(b)))
				nret += 2
				cmd.Add(sx.L(sx.A("exec"), sx.I(int64(nret-1))))
				tags = append(tags, "alias-after-edit")
			}
		}
		for k := 0; k < nops; k++ {
			switch r.Intn(10) {
			case 0, 1, 2, 3:
				nm := r.Pick(names)
				cmd.Add(sx.L(sx.A("get"), sx.S(nm)))
				if r.Chance(40) {
					cmd.Add(sx.L(sx.A("get"), sx.S(nm))) // immediate repeat: the identical-and-silent case
				}
				nret += 2
			case 4:
				mark++
				cmd.Add(sx.L(append([]*sx.Sexp{sx.A("parse"), sx.S(r.Pick([]string{"/p.jet", "q", "/d/p2"}))}, genContent(r, mark, names)...)...))
				nret++
			case 5, 6:
				if nret > 0 {
					cmd.Add(sx.L(sx.A("exec"), sx.I(int64(r.Intn(nret)))))
				}
			case 7:
				if len(filePaths) > 0 {
					putFile(r.Pick(filePaths)) // edit / inject or clear a fault
				}
			case 8:
				if len(filePaths) > 0 {
					cmd.Add(sx.L(sx.A("delfile"), sx.S(r.Pick(filePaths))))
				}
			default:
				putFile(r.Pick(bases) + r.Pick(exts))
			}
		}
		cs = append(cs, h.Case{Stream: "set-history", Cmd: cmd, NonTrivial: nops > 5, Tags: tags})
	}
	return cs
}

type faultReader struct{}

func (faultReader) Read([]byte) (int, error) { return 0, fmt.Errorf("injected read fault") }
func (faultReader) Close() error             { return nil }

func init() {
	h.RegisterProp(&h.Prop{ID: "C16", Gen: genC16})
	h.RegisterImpl("setm", func(cmd, _ *sx.Sexp) (*sx.Sexp, string) {
		dev := cmd.Xs[1].A == "true"
		var exts []string
		for _, e := range cmd.Xs[2].Xs[1:] {
			exts = append(exts, string(e.B))
		}
		var log []string
		ld := &orderedLoader{files: map[string]string{}, fault: map[string]string{}, log: &log}
		cache := &recCache{m: map[string]*jet.Template{}, log: &log}
		opts := []jet.Option{jet.WithCache(cache), jet.WithTemplateNameExtensions(exts), jet.WithSafeWriter(nil)}
		if dev {
			opts = append(opts, jet.InDevelopmentMode())
		}
		// options commute: apply them in an order derived from the case
		hsh := uint64(1469598103934665603)
		for _, c := range []byte(cmd.String()) {
			hsh = (hsh ^ uint64(c)) * 1099511628211
		}
		for i := len(opts) - 1; i > 0; i-- {
			j := int(hsh % uint64(i+1))
			hsh /= 7
			opts[i], opts[j] = opts[j], opts[i]
		}
		set := jet.NewSet(ld, opts...)
		var rets []*jet.Template
		out := sx.L()
		fail := ""
		takeTrace := func() (*sx.Sexp, []string) {
			t := sx.L()
			raw := log
			for _, e := range log {
				t.Add(sx.L(sx.A(e[:1]), sx.S(e[2:])))
			}
			log = nil
			return t, raw
		}
		classOf := func(t *jet.Template) int {
			for i, x := range rets {
				if x == t {
					return i
				}
			}
			return len(rets)
		}
		var lastGet string
		var lastGetT *jet.Template
		stale := map[string]bool{}   // markers of file contents that were since replaced or deleted
		markOf := map[string]string{} // path -> marker of its current content
		for _, op := range cmd.Xs[3:] {
			switch op.Xs[0].A {
			case "file":
				p := string(op.Xs[1].B)
				delete(ld.files, p)
				delete(ld.fault, p)
				if m, ok := markOf[p]; ok {
					stale[m] = true
					delete(markOf, p)
				}
				switch op.Xs[2].A {
				case "ok":
					ld.files[p] = contentSrc(op, 3)
					markOf[p] = op.Xs[3].A
				default:
					ld.fault[p] = op.Xs[2].A
				}
				lastGet = ""
			case "delfile":
				p := string(op.Xs[1].B)
				delete(ld.files, p)
				delete(ld.fault, p)
				if m, ok := markOf[p]; ok {
					stale[m] = true
					delete(markOf, p)
				}
				lastGet = ""
			case "get", "parse":
				var t *jet.Template
				var err error
				name := string(op.Xs[1].B)
				// the request path and whether something is remembered under it (before the call)
				resolved := path.Join("/", name)
				if path.IsAbs(name) {
					resolved = path.Clean(name)
				}
				cache.mu.Lock()
				_, remembered := cache.m[resolved]
				cache.mu.Unlock()
				if op.Xs[0].A == "get" {
					t, err = set.GetTemplate(name)
				} else {
					t, err = set.Parse(name, contentSrc(op, 2))
				}
				tr, raw := takeTrace()
				// direct oracles
				if err != nil && op.Xs[0].A == "get" {
					// a lookup that failed - not found, a load fault, a parse error here or in a template it pulls in -
					// leaves nothing behind under the name that was asked for
					cache.mu.Lock()
					_, nowRemembered := cache.m[resolved]
					cache.mu.Unlock()
					if nowRemembered && !remembered && fail == "" {
						fail = "GetTemplate(" + strconv.Quote(name) + ") failed (" + clipS(err.Error()) + ") and yet something is remembered under " + resolved + ": the failure will not be retried"
					}
				}
				for _, e := range raw {
					if dev && (e[0] == 'G' || e[0] == 'P') && fail == "" {
						fail = "development mode touched the cache: " + e
					}
					if op.Xs[0].A == "parse" && e[0] == 'P' && fail == "" {
						fail = "Set.Parse put something into the cache: " + e
					}
				}
				if err != nil {
					out.Add(sx.L(sx.A("err"), tr))
					lastGet = ""
					continue
				}
				for _, e := range raw {
					// the first existing candidate wins: a file that exists but cannot be opened / read / parsed
					// makes the lookup fail, it is never skipped in favour of a later candidate
					if e[0] == 'O' && ld.fault[e[2:]] != "" && fail == "" {
						fail = "the lookup of " + strconv.Quote(name) + " succeeded although opening " + e[2:] + " failed (" + ld.fault[e[2:]] + "): a fault was swallowed"
					}
				}
				if op.Xs[0].A == "get" && !remembered {
					// a name that is not remembered (or any name in development mode) is resolved by the extension
					// order: the first candidate that exists in the loader now
					want := ""
					for _, e := range exts {
						_, ok1 := ld.files[resolved+e]
						_, ok2 := ld.fault[resolved+e]
						if ok1 || ok2 {
							want = resolved + e
							break
						}
					}
					if t.Name != want && fail == "" {
						fail = "GetTemplate(" + strconv.Quote(name) + "), a name not asked for before, returned the template of " + t.Name + "; the first existing candidate in extension order is " + want
					}
					// ... and it is read from the loader now: what is remembered under another name (the same file
					// asked for with its extension, say) is not an answer to this one - it may be older than the file
					openedNow := false
					for _, e := range raw {
						if e == "O:"+want {
							openedNow = true
						}
					}
					if !openedNow && fail == "" {
						fail = "GetTemplate(" + strconv.Quote(name) + "), a name not asked for before, was answered without opening " + want + " (trace " + strings.Join(raw, " ") + ")"
					}
				}
				if op.Xs[0].A == "get" && dev && err == nil && t != nil {
					// development mode: every lookup reads again what the template's header pulls in (its block table
					// depends on the files it imports, whose edits must be visible at once)
					for _, im := range importRe.FindAllStringSubmatch(ld.files[t.Name], -1) {
						ref := path.Clean(im[1])
						for _, e := range exts {
							if _, ok := ld.files[ref+e]; ok {
								opened := false
								for _, ev := range raw {
									if ev == "O:"+ref+e {
										opened = true
									}
								}
								if !opened && fail == "" {
									fail = "development mode: GetTemplate(" + strconv.Quote(name) + ") did not read " + ref + e + ", which " + t.Name + " imports, from the loader again (trace " + strings.Join(raw, " ") + ")"
								}
								break
							}
						}
					}
				}
				if op.Xs[0].A == "get" && !dev && lastGet == name {
					if t != lastGetT && fail == "" {
						fail = "repeated GetTemplate(" + strconv.Quote(name) + ") returned a different template"
					}
					for _, e := range raw {
						if (e[0] == 'E' || e[0] == 'O') && fail == "" {
							fail = "repeated GetTemplate(" + strconv.Quote(name) + ") touched the loader: " + e
						}
					}
				}
				if op.Xs[0].A == "get" {
					lastGet, lastGetT = name, t
				} else {
					lastGet = ""
				}
				cl := classOf(t)
				rets = append(rets, t)
				out.Add(sx.L(sx.A("ok"), sx.I(int64(cl)), tr))
			case "exec":
				k, _ := strconv.Atoi(op.Xs[1].A)
				if k >= len(rets) {
					out.Add(sx.A("no-such-template"))
					continue
				}
				var b bytes.Buffer
				err := rets[k].Execute(&b, nil, nil)
				tr, rawx := takeTrace()
				opened := map[string]bool{}
				for _, e := range rawx {
					if e[0] == 'O' {
						opened[e[2:]] = true
					}
				}
				marks := sx.L()
				for i, m := range markRe.FindAllStringSubmatch(b.String(), -1) {
					marks.Add(sx.A(m[1]))
					if dev && i > 0 && stale[m[1]] && fail == "" {
						fail = "development mode rendered the stale content (marker " + m[1] + ") of an included template that was edited or deleted"
					}
				}
				if dev && fail == "" {
					for _, mk := range marks.Xs[min(1, len(marks.Xs)):] {
						for pth, cur := range markOf {
							if cur == mk.A && !opened[pth] {
								fail = "development mode rendered the included template " + pth + " without re-reading it from the loader"
							}
						}
					}
				}
				if err != nil {
					out.Add(sx.L(sx.A("err"), marks, tr))
				} else {
					out.Add(sx.L(sx.A("ok"), marks, tr))
				}
				lastGet = ""
			}
		}
		return out, fail
	})
}
