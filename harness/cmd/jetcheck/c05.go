package main

import (
	"bytes"
	"fmt"
	"reflect"
	"sort"

	"github.com/CloudyKit/jet/v6"

	"jetverif/harness/h"
	"jetverif/harness/sx"
)

// C05, stream "rangers" (direct oracle): user-defined jet.Ranger implementations whose own type is
// of slice, map, struct or pointer kind.  A Ranger decides what a range iterates: the body runs
// once per value its Range() yields, in that order, and the else branch runs exactly when the first
// Range() call reports the end.

// slice kind; element 0 is the cursor, the rest is the data; yields data reversed, times 100
type sliceKindRanger []int

func (r sliceKindRanger) Range() (reflect.Value, reflect.Value, bool) {
	n := len(r) - 1
	c := r[0]
	if c >= n {
		return reflect.Value{}, reflect.Value{}, true
	}
	r[0]++
	return reflect.ValueOf(c), reflect.ValueOf(r[n-c] * 100), false
}
func (r sliceKindRanger) ProvidesIndex() bool { return true }

// map kind; key "\x00" holds the cursor; yields keys sorted descending with value+1000
type mapKindRanger map[string]int

func (r mapKindRanger) Range() (reflect.Value, reflect.Value, bool) {
	var ks []string
	for k := range r {
		if k != "\x00" {
			ks = append(ks, k)
		}
	}
	sort.Sort(sort.Reverse(sort.StringSlice(ks)))
	c := r["\x00"]
	if c >= len(ks) {
		return reflect.Value{}, reflect.Value{}, true
	}
	r["\x00"] = c + 1
	return reflect.ValueOf(ks[c]), reflect.ValueOf(r[ks[c]] + 1000), false
}
func (r mapKindRanger) ProvidesIndex() bool { return true }

// pointer-to-struct kind, no index
type evenRanger struct{ cur, max int }

func (r *evenRanger) Range() (reflect.Value, reflect.Value, bool) {
	if r.cur >= r.max {
		return reflect.Value{}, reflect.Value{}, true
	}
	r.cur += 2
	return reflect.Value{}, reflect.ValueOf(r.cur), false
}
func (r *evenRanger) ProvidesIndex() bool { return false }

// collections behind more than one indirection: a pointer to a pointer, a field of a non-empty interface
// type, a pointer to an interface - the ranger follows all of them down to the slice / map / channel
type lenIface interface{ Len() int }
type lenSlice []int

func (s lenSlice) Len() int { return len(s) }

type indirData struct {
	PP   **[]int
	PPM  **map[string]int
	L    lenIface
	PI   *interface{}
	PL   *lenIface
	Inner struct{ Q **[]string }
}

func genRangerCase(r *h.Rand) h.Case {
	if r.Chance(35) {
		return h.Case{Stream: "rangers", NoModel: true, NonTrivial: true, Tags: []string{"indirect"},
			Cmd: sx.L(sx.A("indirect-range"), sx.I(int64(r.Intn(4))), sx.I(int64(r.Intn(6))), sx.I(int64(r.Intn(50))))}
	}
	n := r.Intn(4)
	kind := r.Pick([]string{"slice", "map", "ptr", "chan"})
	form := r.Intn(4)
	return h.Case{Stream: "rangers", NoModel: true, NonTrivial: true, Tags: []string{kind, fmt.Sprintf("n%d", n)},
		Cmd: sx.L(sx.A("custom-ranger"), sx.A(kind), sx.I(int64(n)), sx.I(int64(form)), sx.I(int64(r.Intn(50))))}
}

func init() {
	h.RegisterImpl("indirect-range", func(cmd, _ *sx.Sexp) (*sx.Sexp, string) {
		n := atoi(cmd.Xs[1].A)
		which := atoi(cmd.Xs[2].A)
		base := atoi(cmd.Xs[3].A)
		xs := []int{}
		ss := []string{}
		for i := 0; i < n; i++ {
			xs = append(xs, base+i)
			ss = append(ss, fmt.Sprintf("s%d", base+i))
		}
		pxs := &xs
		m := map[string]int{}
		if n > 0 {
			m["k"] = base
		}
		pm := &m
		var any interface{} = xs
		var li lenIface = lenSlice(xs)
		pss := &ss
		d := indirData{PP: &pxs, PPM: &pm, L: lenSlice(xs), PI: &any, PL: &li}
		d.Inner.Q = &pss
		field := []string{".PP", ".L", ".PI", ".PL", ".Inner.Q", ".PPM"}[which]
		src := `{{range i, x := ` + field + `}}{{i}}={{x}};{{else}}E{{end}}|{{range ` + field + `}}<{{.}}>{{else}}E{{end}}|`
		want := ""
		seq := func(f func(i int) string) string {
			o := ""
			for i := 0; i < n; i++ {
				o += f(i)
			}
			if n == 0 {
				o = "E"
			}
			return o + "|"
		}
		switch which {
		case 4:
			want = seq(func(i int) string { return fmt.Sprintf("%d=%s;", i, ss[i]) }) + seq(func(i int) string { return "<" + ss[i] + ">" })
		case 5:
			want = seq(func(i int) string { return fmt.Sprintf("k=%d;", base) }) + seq(func(i int) string { return fmt.Sprintf("<%d>", base) })
			if n > 1 {
				n = 1
				want = seq(func(i int) string { return fmt.Sprintf("k=%d;", base) }) + seq(func(i int) string { return fmt.Sprintf("<%d>", base) })
			}
		default:
			want = seq(func(i int) string { return fmt.Sprintf("%d=%d;", i, xs[i]) }) + seq(func(i int) string { return fmt.Sprintf("<%d>", xs[i]) })
		}
		set := newSetFor(map[string]string{"/t.jet": src}, "html", nil)
		t, err := set.GetTemplate("/t.jet")
		if err != nil {
			return sx.L(sx.A("parse-error")), "range template did not parse: " + err.Error()
		}
		var buf bytes.Buffer
		xerr := executeContained(t, &buf, nil, d)
		if xerr != nil {
			return sx.L(sx.A("err"), sx.S(xerr.Error())), "ranging over " + field + " (a collection behind several pointers / a non-empty interface) failed: " + clipS(xerr.Error())
		}
		if buf.String() != want {
			return sx.L(sx.A("ok"), sx.S(buf.String())), fmt.Sprintf("%s renders %q, the %d elements demand %q", src, buf.String(), n, want)
		}
		return sx.L(sx.A("ok"), sx.S(buf.String())), ""
	})
	h.RegisterImpl("custom-ranger", func(cmd, _ *sx.Sexp) (*sx.Sexp, string) {
		kind := cmd.Xs[1].A
		n := atoi(cmd.Xs[2].A)
		form := atoi(cmd.Xs[3].A)
		base := atoi(cmd.Xs[4].A)
		var rg interface{}
		var keys, vals []string
		switch kind {
		case "slice":
			s := sliceKindRanger{0}
			for i := 0; i < n; i++ {
				s = append(s, base+i)
			}
			rg = s
			for i := 0; i < n; i++ {
				keys = append(keys, fmt.Sprint(i))
				vals = append(vals, fmt.Sprint((base+n-1-i)*100))
			}
		case "map":
			m := mapKindRanger{}
			names := []string{"a", "b", "c"}
			for i := 0; i < n; i++ {
				m[names[i]] = base + i
			}
			rg = m
			for i := n - 1; i >= 0; i-- {
				keys = append(keys, names[i])
				vals = append(vals, fmt.Sprint(base+i+1000))
			}
		case "chan":
			// a channel is index-less like evenRanger: the one-variable form binds the element
			ch := make(chan int, n)
			for i := 1; i <= n; i++ {
				ch <- base + i
				keys = append(keys, "")
				vals = append(vals, fmt.Sprint(base+i))
			}
			close(ch)
			rg = ch
			kind = "ptr"
		default:
			rg = &evenRanger{max: 2 * n}
			for i := 1; i <= n; i++ {
				keys = append(keys, "")
				vals = append(vals, fmt.Sprint(2*i))
			}
		}
		var src, want string
		switch {
		case form == 0 && kind != "ptr":
			src = `{{range k, v := cr}}{{k}}={{v}};{{else}}E{{end}}|`
			for i := range vals {
				want += keys[i] + "=" + vals[i] + ";"
			}
		case form == 1:
			src = `{{range cr}}<{{.}}>{{else}}E{{end}}|`
			for i := range vals {
				want += "<" + vals[i] + ">"
			}
		case form == 2 && kind != "ptr":
			src = `{{range k := cr}}{{k}}:{{.}};{{else}}E{{end}}|`
			for i := range vals {
				want += keys[i] + ":" + vals[i] + ";"
			}
		default:
			// one variable: the index where the ranger provides one ('.' is then the element), the element
			// where it does not ('.' then stays what it was)
			src = `{{range v := cr}}{{.}}/{{ v }},{{end}}{{.}}|`
			if kind == "ptr" {
				for i := range vals {
					want += "ctx/" + vals[i] + ","
				}
			} else {
				for i := range keys {
					want += vals[i] + "/" + keys[i] + ","
				}
			}
			want += "ctx"
		}
		if len(vals) == 0 && (form <= 2) {
			if !(form == 0 && kind == "ptr") && !(form == 2 && kind == "ptr") {
				want = "E"
			}
		}
		if len(vals) == 0 && kind == "ptr" && (form == 0 || form == 2) {
			want = "ctx" // falls to the default form without else: only the context after the loop
		}
		want += "|"
		set := newSetFor(map[string]string{"/t.jet": src}, "html", nil)
		t, err := set.GetTemplate("/t.jet")
		if err != nil {
			return sx.L(sx.A("parse-error")), "ranger template did not parse: " + err.Error()
		}
		var buf bytes.Buffer
		xerr := executeContained(t, &buf, jet.VarMap{"cr": reflect.ValueOf(rg)}, "ctx")
		if xerr != nil {
			return sx.L(sx.A("err"), sx.S(xerr.Error())), "ranging over a user-defined Ranger failed: " + clipS(xerr.Error())
		}
		if buf.String() != want {
			return sx.L(sx.A("ok"), sx.S(buf.String())), fmt.Sprintf("%s over a %s-kind Ranger with %d values renders %q, its Range() sequence demands %q", src, kind, n, buf.String(), want)
		}
		return sx.L(sx.A("ok"), sx.S(buf.String())), ""
	})
}
