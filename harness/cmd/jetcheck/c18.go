package main

import (
	"fmt"
	"strings"

	"jetverif/harness/h"
	"jetverif/harness/sx"
)

// C18.  Twin programs: the same sequence of variable / context / block operations, written once with
// template syntax and once through the exported Runtime API from inside a custom function; the
// direct oracle is that both render the same bytes (or both fail).  Every program also runs through
// the model (the API wrappers are jet.Func values the model knows).
// Stream "argpos": Arguments.Get/NumOfArguments/IsSet/ParseInto next to a reflected function that
// receives the same call, over all call shapes.

type twin struct {
	syn, api strings.Builder
	r        *h.Rand
	declared [][]string // lexical stack of names declared per open list
	nOps     int
}

var twinNames = []string{"x", "y", "g", "len", "s", "fresh", "i"}
var twinRoot = map[string]bool{"s": true, "i": true} // names present in the root VarMap

func (t *twin) both(s string)   { t.syn.WriteString(s); t.api.WriteString(s) }
func (t *twin) emit(a, b string) { t.syn.WriteString(a); t.api.WriteString(b) }

func (t *twin) isDeclared(n string) bool {
	if twinRoot[n] {
		return true
	}
	for _, fr := range t.declared {
		for _, d := range fr {
			if d == n {
				return true
			}
		}
	}
	return false
}

func (t *twin) val() string {
	return t.r.Pick([]string{`1`, `"v<"`, `i + 1`, `s`, `li`, `st.A`, `true`, `"q" + s`, `2`, `ls`, `ls[0]`, `st.A + 1`})
}

// one list; `opened` says whether a scope is already open for this list in both twins
func (t *twin) list(d int) {
	r := t.r
	t.declared = append(t.declared, nil)
	// open the list's scope in both spellings, so that Let and := hit the same scope
	t.both("{{ d := 0 }}")
	n := 2 + r.Intn(4)
	for k := 0; k < n; k++ {
		t.nOps++
		name := r.Pick(twinNames)
		q := `"` + name + `"`
		switch pickW(r, "let", 4, "set", 3, "get", 5, "setorlet", 3, "ctx", 1, "nest", 3, "yield", 2, "text", 1, "incl", 1) {
		case "let":
			v := t.val()
			t.emit("{{ "+name+" := "+v+" }}", "{{ apiLet("+q+", "+v+") }}")
			top := len(t.declared) - 1
			t.declared[top] = append(t.declared[top], name)
		case "set":
			v := t.val()
			t.emit("{{ "+name+" = "+v+" }}", "{{ apiSet("+q+", "+v+") }}")
		case "get":
			if t.isDeclared(name) || name == "g" || name == "len" {
				t.emit("[{{ "+name+" }}]", "[{{ apiResolve("+q+") }}]")
			} else {
				// Resolve ignores the lookup error by contract: an unknown name is an invalid value, which prints nothing
				t.emit("[]", "[{{ apiResolve("+q+") }}]")
			}
		case "setorlet":
			v := t.val()
			if t.isDeclared(name) {
				t.emit("{{ "+name+" = "+v+" }}", "{{ apiSetOrLet("+q+", "+v+") }}")
			} else {
				t.emit("{{ "+name+" := "+v+" }}", "{{ apiSetOrLet("+q+", "+v+") }}")
				top := len(t.declared) - 1
				t.declared[top] = append(t.declared[top], name)
			}
		case "ctx":
			t.emit("<{{ . }}>", "<{{ apiContext() }}>")
		case "text":
			t.both(r.Pick([]string{"a", " ", "&", "\n"}))
		case "yield":
			b := r.Pick([]string{"tb1", "tb2", "tb3"})
			if r.Chance(25) {
				// from inside the body of a block that was yielded with content: the active content stays
				// available to the yielded block, whichever way it is yielded
				c := r.Pick([]string{"s", "i", `"c"`})
				t.both("{{yield tw() " + c + " content}}C<{{.}}>{{end}}")
			} else if r.Bool() {
				c := r.Pick([]string{"s", "i", "st.B", `"c"`, "ls", "np", "li"})
				t.emit("{{yield "+b+"() "+c+"}}", `{{ apiYield("`+b+`", `+c+`) }}`)
			} else {
				t.emit("{{yield "+b+"()}}", `{{ apiYield("`+b+`") }}`)
			}
		case "incl":
			// the included template uses the API / the syntax itself: blocks of the includer, variables, context
			c := r.Pick([]string{"s", "i", "st.B"})
			switch r.Intn(3) {
			case 0:
				t.emit(`{{include "/tinc_s.jet" `+c+`}}`, `{{include "/tinc_a.jet" `+c+`}}`)
			case 1:
				t.emit(`{{ includeIfExists("/tinc_s.jet", `+c+`) }}`, `{{ includeIfExists("/tinc_a.jet", `+c+`) }}`)
			default:
				t.both(`{{include "/tinc.jet" ` + c + `}}`)
			}
		case "nest":
			if d <= 0 {
				t.both("|")
				continue
			}
			switch r.Intn(5) {
			case 0:
				t.both("{{if true}}")
				t.list(d - 1)
				t.both("{{end}}")
			case 1:
				t.both("{{range k, e := li}}")
				t.declared = append(t.declared, []string{"k", "e"})
				t.list(d - 1)
				t.declared = t.declared[:len(t.declared)-1]
				t.both("{{end}}")
			case 2:
				t.both("{{range ls}}")
				t.list(d - 1)
				t.both("{{end}}")
			case 3:
				t.both("{{try}}")
				t.list(d - 1)
				t.both("{{catch}}C{{end}}")
			default:
				t.both("{{if w := 3; w}}")
				t.declared = append(t.declared, []string{"w"})
				t.list(d - 1)
				t.declared = t.declared[:len(t.declared)-1]
				t.both("{{end}}")
			}
		}
	}
	t.declared = t.declared[:len(t.declared)-1]
}

func twinProg(r *h.Rand) (*prog, string, string) {
	p := newProg(r)
	p.esc = pickW(r, "html", 4, "nil", 1)
	for _, n := range []string{"apiLet", "apiSet", "apiSetOrLet", "apiLetGlobal", "apiResolve", "apiContext", "apiYield", "recset", "parse3"} {
		p.globals.Add(bind(n, vJFunc(n)))
	}
	p.globals.Add(bind("refl", vFunc("refl")))
	p.globals.Add(bind("refl3", vFunc("refl3")))
	switch r.Intn(3) {
	case 0:
		p.data = vStr(r.Pick(specialStrings))
	case 1:
		p.data = vInt(int64(r.Intn(100)))
	default:
		p.data = vMapI("A", vInt(int64(r.Intn(9))), "B", vStr(r.Pick(specialStrings)))
	}
	t := &twin{r: r}
	hdr := `{{block tb1()}}(tb1:{{.}}:{{isset(x)}}{{s}}){{end}}{{block tb2()}}(tb2{{ y := 7 }}{{y}}{{.}}){{end}}`
	// the definitions render once in place; identical in both spellings
	t.both(hdr)
	t.both(`{{block tb3()}}(tb3:{{.}}:{{yield content}}){{end}}`)
	t.emit(`{{block tw()}}[{{yield tb3() 4}}|{{yield tb3()}}|{{yield tb1() "q"}}|{{yield content}}]{{end}}`,
		`{{block tw()}}[{{ apiYield("tb3", 4) }}|{{ apiYield("tb3") }}|{{ apiYield("tb1", "q") }}|{{yield content}}]{{end}}`)
	t.list(2)
	t.both("#[{{isset(x)}}{{isset(y)}}{{isset(fresh)}}{{ g }}{{ s }}{{ i }}]")
	p.files["/tinc.jet"] = `(inc:{{.}})`
	p.files["/tinc_s.jet"] = `(inc:{{ . }}{{yield tb1()}}{{yield tb2() 5}}{{ q9 := 1 }}{{ s }}{{ isset(d) }})`
	p.files["/tinc_a.jet"] = `(inc:{{ apiContext() }}{{ apiYield("tb1") }}{{ apiYield("tb2", 5) }}{{ apiLet("q9", 1) }}{{ apiResolve("s") }}{{ isset(d) }})`
	return p, t.syn.String(), t.api.String()
}

func genTwinCases(r *h.Rand) []h.Case {
	p, syn, api := twinProg(r)
	meta := sx.L(sx.A("files"), sx.L(sx.S("/f0.jet"), sx.S(syn)), sx.L(sx.S("/f1.jet"), sx.S(api)), sx.L(sx.S("/tinc.jet"), sx.S(p.files["/tinc.jet"])),
		sx.L(sx.S("/tinc_s.jet"), sx.S(p.files["/tinc_s.jet"])), sx.L(sx.S("/tinc_a.jet"), sx.S(p.files["/tinc_a.jet"])))
	cs := []h.Case{{
		Stream: "twins", Meta: meta, NonTrivial: true, NoModel: true,
		Cmd: sx.L(sx.A("forms"), sx.A(p.esc), p.globals, p.vars, p.data, sx.S("twin"), sx.L(sx.S("/f0.jet"), sx.S("/f1.jet"))),
	}}
	q := *p
	q.files = map[string]string{"/main.jet": api, "/tinc.jet": p.files["/tinc.jet"], "/tinc_a.jet": p.files["/tinc_a.jet"], "/tinc_s.jet": p.files["/tinc_s.jet"]}
	q.tags = map[string]bool{"api": true}
	cs = append(cs, evalCase("eval", &q))
	return cs
}

// direct expectations for what has no template-syntax twin
func genApiExpect(r *h.Rand) h.Case {
	p, _, _ := twinProg(r)
	type ec struct{ src, want string }
	v := r.Intn(50)
	cases := []ec{
		// LetGlobal binds in the outermost template scope, whatever the depth, and survives the scopes in between
		{fmt.Sprintf(`{{if true}}{{ a := 1 }}{{range li}}{{ b := 2 }}{{ apiLetGlobal("gv", %d) }}{{end}}{{end}}[{{gv}}]`, v), fmt.Sprintf("[%d]", v)},
		{fmt.Sprintf(`{{if true}}{{ gv := 2 }}{{ apiLetGlobal("gv", %d) }}<{{gv}}>{{end}}[{{gv}}]`, v), fmt.Sprintf("<2>[%d]", v)},
		{fmt.Sprintf(`{{block lb()}}{{ apiLetGlobal("gv", %d) }}{{end}}[{{gv}}]`, v), fmt.Sprintf("[%d]", v)},
		{`{{include "/lg.jet"}}[{{gv}}]`, "[1]"},
		{`{{include "/lg2.jet"}}[{{gv}}]`, "[in:2][2]"},
		{`{{include "/lg3.jet"}}[{{gv}}]`, "[3]"},
		{`{{if true}}{{ a := 1 }}{{include "/lg2.jet"}}{{end}}[{{gv}}]`, "[in:2][2]"},
		{`{{ x := includeIfExists("/lg2.jet") }}[{{gv}}]`, "[in:2][2]"},
		{`{{ exec("/lg2.jet") }}[{{gv}}]`, "[2]"},
		{`{{block lb2(p=1)}}{{include "/lg2.jet"}}{{end}}[{{gv}}]`, "[in:2][2]"},
		// a Go function called in the header of a declaring range acts on the scope the range statement is in,
		// like the header expression itself: what it declares is still there after {{end}}
		{fmt.Sprintf(`{{range i, v := (apiLet("hq", %d) ? ls : li)}}<{{v}}>{{end}}[{{hq}}]`, v), fmt.Sprintf("LI[%d]", v)},
		{fmt.Sprintf(`{{range k, v := (apiSetOrLet("hq", %d) ? ls : li)}}{{end}}[{{hq}}]`, v), fmt.Sprintf("[%d]", v)},
		{fmt.Sprintf(`{{if true}}{{ d := 0 }}{{range v := (apiLet("hq", %d) ? ls : li)}}{{end}}<{{hq}}>{{end}}[{{isset(hq)}}]`, v), fmt.Sprintf("<%d>[false]", v)},
		{fmt.Sprintf(`{{if w := (apiLet("hq", %d) ? 0 : 1); w}}<{{hq}}>{{end}}[{{isset(hq)}}]`, v), fmt.Sprintf("<%d>[false]", v)},
		// a variable that holds nil is declared all the same: SetOrLet rebinds it where it lives
		{fmt.Sprintf(`{{ nx := nil }}{{if true}}{{ d := 0 }}{{ apiSetOrLet("nx", %d) }}{{end}}[{{nx}}]`, v), fmt.Sprintf("[%d]", v)},
		{fmt.Sprintf(`{{ nx, ok := m["zz"] }}{{range li}}{{ apiSetOrLet("nx", %d) }}{{end}}[{{nx}}]`, v), fmt.Sprintf("[%d]", v)},
		{fmt.Sprintf(`{{ nx := 1 }}{{if true}}{{ nx := nil }}{{ apiSetOrLet("nx", %d) }}<{{nx}}>{{end}}[{{nx}}]`, v), fmt.Sprintf("<%d>[1]", v)},
		// SetOrLet: declares when only a global / default of that name exists, rebinds when a template variable exists
		{fmt.Sprintf(`{{ d := 0 }}{{ apiSetOrLet("g", %d) }}[{{g}}]`, v), fmt.Sprintf("[%d]", v)},
		{fmt.Sprintf(`{{ d := 0 }}{{ apiSetOrLet("len", %d) }}[{{len}}]`, v), fmt.Sprintf("[%d]", v)},
		{fmt.Sprintf(`{{ d := 0 }}{{ apiSetOrLet("lower", %d) }}[{{lower}}]`, v), fmt.Sprintf("[%d]", v)},
		{fmt.Sprintf(`{{ q := 1 }}{{if true}}{{ d := 0 }}{{ apiSetOrLet("q", %d) }}{{end}}[{{q}}]`, v), fmt.Sprintf("[%d]", v)},
		{fmt.Sprintf(`{{if true}}{{ d := 0 }}{{ apiSetOrLet("q", %d) }}<{{q}}>{{end}}[{{isset(q)}}]`, v), fmt.Sprintf("<%d>[false]", v)},
		// Let shadows, Set reaches the declaring scope
		{fmt.Sprintf(`{{ q := 1 }}{{if true}}{{ d := 0 }}{{ apiLet("q", %d) }}<{{q}}>{{end}}[{{q}}]`, v), fmt.Sprintf("<%d>[1]", v)},
		{fmt.Sprintf(`{{ q := 1 }}{{if true}}{{ d := 0 }}{{ apiSet("q", %d) }}<{{q}}>{{end}}[{{q}}]`, v), fmt.Sprintf("<%d>[%d]", v, v)},
		// YieldBlock renders exactly once, with and without context
		{fmt.Sprintf(`{{block yb()}}(yb{{.}}){{end}}|{{ apiYield("yb", %d) }}|{{ apiYield("yb") }}|`, v), fmt.Sprintf("(yb%s)|(yb%d)|(yb%s)|", "CTX", v, "CTX")},
		{`{{block yb()}}({{ probe(7, "p") }}){{end}}|{{ apiYield("yb", "c") }}|`, "(p)|(p)|"},
		// Resolve is identifier lookup, Context is '.'
		{fmt.Sprintf(`{{ q := %d }}[{{ apiResolve("q") }}][{{ apiResolve("g") | raw }}][{{ apiResolve("nope") }}][{{ apiResolve(".") }}]`, v), fmt.Sprintf("[%d][G][][CTX]", v)},
		{`{{range li}}<{{ apiContext() }}>{{end}}[{{ apiContext() }}]`, "LI[CTX]"},
		// Resolve is identifier lookup also for the variables of a range over an interface slice / map: what it
		// returns behaves like the variable (arithmetic, comparison, indexing), not like a boxed interface
		{`{{range k, v := isl}}{{ apiResolve("v") + 10 }}/{{ v + 10 }},{{end}}`, "14/14,15/15,"},
		{`{{range k, v := isl}}{{if apiResolve("v") < 5}}lt{{else}}ge{{end}}{{ apiResolve("k") + 1 }};{{end}}`, "lt1;ge2;"},
		{`{{range k, v := ism}}{{ apiResolve("v") * 2 }}{{ upper(apiResolve("k")) }}{{end}}`, "8A"},
		{`{{range v := isl}}{{end}}{{range i, row := isr}}{{ apiResolve("row")[0] + 1 }}|{{ len(apiResolve("row")) }};{{end}}`, "2|2;4|1;"},
	}
	c := cases[r.Intn(len(cases))]
	p.esc = "html"
	p.data = vStr("ctx")
	p.vars.Add(bind("isl", vSliceI(vInt(4), vInt(5)))).Add(bind("ism", vMapI("a", vInt(4)))).
		Add(bind("isr", vSliceI(vSliceI(vInt(1), vInt(2)), vSliceI(vInt(3)))))
	gval := ""
	var li []int
	for _, x := range p.globals.Xs {
		if string(x.Xs[0].B) == "g" {
			gval = decodeVal(x.Xs[1]).(string)
		}
	}
	for _, x := range p.vars.Xs {
		if string(x.Xs[0].B) == "li" {
			li = decodeVal(x.Xs[1]).([]int)
		}
	}
	want := strings.ReplaceAll(c.want, "CTX", "ctx")
	want = strings.ReplaceAll(want, "[G]", "["+gval+"]")
	if strings.HasPrefix(want, "LI") {
		o := ""
		for _, e := range li {
			o += fmt.Sprintf("<%d>", e)
		}
		want = o + want[2:]
	}
	p.files = map[string]string{"/main.jet": c.src, "/lg.jet": `{{ apiLetGlobal("gv", 1) }}`,
		"/lg2.jet": `{{ q := 1 }}{{if true}}{{ z := 2 }}{{range li}}{{ apiLetGlobal("gv", 2) }}{{end}}{{end}}[in:{{gv}}]`,
		"/lg3.jet": `{{include "/lg3b.jet"}}`, "/lg3b.jet": `{{if w := 1; w}}{{ apiLetGlobal("gv", 3) }}{{end}}`}
	cs := withExpect(evalCase("api-expect", p), want, nil)
	if strings.Contains(c.src, "probe(7") {
		cs = withExpect(evalCase("api-expect", p), want, sx.L(sx.L(sx.A("probe"), sx.I(7)), sx.L(sx.A("probe"), sx.I(7))))
	}
	return cs
}

// Arguments accessors vs a reflected function receiving the same call
func genArgposCases(r *h.Rand) []h.Case {
	p, _, _ := twinProg(r)
	p.esc = "html"
	n := r.Intn(5)
	pool := []string{`1`, `"a<"`, `s`, `i`, `t`, `li[0]`, `st.A`, `1.5`, `i + 2`, `st.B`, `ls[0]`, `li`, `e`, `ident(st).B`, `ident(st).A`, `ident(ident(st)).B`}
	var args []string
	for k := 0; k < n; k++ {
		args = append(args, r.Pick(pool))
	}
	join := func(xs []string) string { return strings.Join(xs, ", ") }
	form := r.Intn(5)
	slot := r.Intn(5)
	spellOf := func(f string, args []string) string {
		n := len(args)
		switch {
		case n == 0 || form == 0:
			return f + "(" + join(args) + ")"
		case form == 1:
			return f + ": " + join(args)
		case form == 2:
			return args[0] + " | " + f + "(" + join(args[1:]) + ")"
		case form == 3:
			k := slot % n
			with := append([]string{}, args...)
			with[k] = "_"
			return args[k] + " | " + f + "(" + join(with) + ")"
		}
		if n == 1 {
			return args[0] + " | ident | " + f
		}
		return args[0] + " | ident | " + f + ": " + join(args[1:])
	}
	spell := func(f string) string { return spellOf(f, args) }
	var cs []h.Case
	mk := func(stream string, a, b string) {
		meta := sx.L(sx.A("files"), sx.L(sx.S("/f0.jet"), sx.S(a)), sx.L(sx.S("/f1.jet"), sx.S(b)))
		cs = append(cs, h.Case{Stream: stream, Meta: meta, NonTrivial: n > 0, NoModel: true,
			Cmd: sx.L(sx.A("forms"), sx.A(p.esc), p.globals, p.vars, p.data, sx.S("argpos"))})
		q := *p
		q.files = map[string]string{"/main.jet": a}
		q.tags = map[string]bool{"argpos": true}
		cs = append(cs, evalCase("eval", &q))
	}
	// Get / NumOfArguments: rec (jet.Func) and refl (reflected, variadic interface{}) see the same vector
	mk("argpos", "[{{ "+spell("rec")+" }}]", "[{{ "+spell("refl")+" }}]")
	// ParseInto places piped and slot values where a reflected func(int, string, interface{}) gets them
	a3 := []string{r.Pick([]string{"1", "i", "2.0", "st.A", "f", `"zz"`}), r.Pick([]string{`"a"`, "s", "st.B", "e"}), r.Pick(pool)}
	if r.Chance(10) {
		a3 = a3[:2]
	}
	mk("argpos", "[{{ "+spellOf("parse3", a3)+" }}]", "[{{ "+spellOf("refl3", a3)+" }}]")
	// IsSet(i) is isset of the i-th effective argument
	setPool := []string{"m.k", "m.zz", "st.P", "np", "l[1]", "l[9]", "nope", "s", "e", "n", "nm.k", "st.D.a", "st.D.zz", "ms.a.Name"}
	var sargs, iss []string
	for k := 0; k < 1+r.Intn(3); k++ {
		x := r.Pick(setPool)
		sargs = append(sargs, x)
		iss = append(iss, "{{isset("+x+")}}")
	}
	mk("argpos", "[{{ recset("+join(sargs)+") }}]", "[["+strings.Join(iss, " ")+"]]")
	// a piped value that is invalid (missing map entry, nil) is still an argument of a jet.Func: it is counted,
	// sits where the pipe or the slot puts it, and reads as "not set" - exactly as in the plain call
	inv := r.Pick([]string{"m.zz", "n", "st.D.zz", "nm.k"})
	rest := args
	if len(rest) > 3 {
		rest = rest[:3]
	}
	plainArgs := append([]string{inv}, rest...)
	piped := inv + " | rec(" + join(rest) + ")"
	switch r.Intn(4) {
	case 0:
		piped = inv + " | rec: " + join(rest)
		if len(rest) == 0 {
			piped = inv + " | rec"
		}
	case 1:
		k := r.Intn(len(rest) + 1)
		plainArgs = append(append(append([]string{}, rest[:k]...), inv), rest[k:]...)
		with := append(append(append([]string{}, rest[:k]...), "_"), rest[k:]...)
		piped = inv + " | rec(" + join(with) + ")"
	}
	mk("argpos", "[{{ "+piped+" }}]", "[{{ rec("+join(plainArgs)+") }}]")
	mk("argpos", "[{{ "+strings.Replace(piped, "rec", "recset", 1)+" }}]", "[{{ recset("+join(plainArgs)+") }}]")
	return cs
}

func init() {
	h.RegisterProp(&h.Prop{ID: "C18", Gen: func(r *h.Rand, tier string) []h.Case {
		n := 200
		if tier == "search" {
			n = 800
		} else if tier != "quick" {
			n = 5000
		}
		var cs []h.Case
		for i := 0; i < n; i++ {
			cs = append(cs, genTwinCases(r)...)
		}
		for i := 0; i < n/2; i++ {
			cs = append(cs, genApiExpect(r))
		}
		for i := 0; i < n/2; i++ {
			cs = append(cs, genArgposCases(r)...)
		}
		return cs
	}})
}
