package main

import (
	"fmt"
	"strings"
	"text/template"

	"jetverif/harness/h"
	"jetverif/harness/sx"
)

// Constructive oracle: programs are built bottom-up together with the output the *property*
// demands (independently of the Lean model): literal text verbatim, values escaped once by the
// Set's escaper, exactly one if-branch, one body per element, try all-or-nothing, exec silent, ...

type onode struct {
	src     string
	out     string
	failOff int // byte offset in src of the action that fails (-1: none); out is then the output up to it
}

type ogen struct {
	r       *h.Rand
	p       *prog
	esc     string
	nfile   int
	nblock  int
	nvar    int
	flavor  string
	strVals map[string]string // string variables: name -> value
	intVals map[string]int
	failPct int
	blocks  []string // definitions appended to the entry file (rendered at definition site!) -> kept in lib
	lib     string
	errFile string // file and line of the planted failure (after assembling)
	ctxOut  string // rendering of '.' at the top level of the program
	named   bool   // the program prints values of named types with print methods (outside the model)
	ctxOK   bool   // '.' is still the program's data here (not inside a body that rebinds it)
	jx      bool   // the program uses the tenth-round constructs (Go values outside the model are bound)
}

// tenth-round constructs: each is a fixed source with the output the property demands
func (g *ogen) jxNode() onode {
	r := g.r
	v, ok := g.freshVar(), g.freshVar()
	type gc struct{ src, out string }
	cs := []gc{
		// the two-value lookup says whether the key is PRESENT; a present key holding nil (typed or not) is present
		{"{{if " + v + ", " + ok + " := mn[\"p\"]; " + ok + "}}P{{else}}DEAD{{end}}", "P"},
		{"{{ " + v + ", " + ok + " := mn[\"i\"] }}{{" + ok + "}}", g.E("true")},
		{"{{ " + v + ", " + ok + " := mn[\"m\"] }}{{" + ok + "}}", g.E("true")},
		{"{{ " + v + ", " + ok + " := mn[\"s\"] }}{{" + ok + "}}", g.E("true")},
		{"{{ " + v + ", " + ok + " := mn[\"zz\"] }}{{" + ok + "}}", g.E("false")},
		{"{{ " + v + ", " + ok + " := mn[\"p\"] }}{{ " + ok + " = false }}{{ " + v + ", " + ok + " = mn[\"s\"] }}{{" + ok + "}}", g.E("true")},
		// a piped value that is invalid (a missing map entry) is still the piped argument of a jet.Func
		{"{{ m.missing | rec(\"a\") }}", g.escape("[<nil> a]")},
		{"{{ m.missing | rec(\"a\", _) }}", g.escape("[a <nil>]")},
		{"{{ m.missing | rec }}", g.escape("[<nil>]")},
		{"{{ m.missing | isset(m.k) }}", g.E("false")},
		{"{{ n | rec: 1 }}", g.escape("[<nil> 1]")},
		// every entry of a map is ranged over with ITS value, also an entry whose key is not equal to itself
		{"{{range k, v := nan1}}[{{v}}]{{end}}", "[" + g.escape("n<") + "]"},
		{"{{range nan1}}[{{.}}]{{end}}", "[" + g.escape("n<") + "]"},
		{"{{range k, v := nan2}}{{range v}}({{.}}){{end}}{{end}}{{range nan2}}{{len(.)}}{{end}}", "(" + g.E(2) + ")" + g.E(1)},
		// the same field chain through an interface-typed field holding values of different struct types
		{"{{range pets}}{{.Pet.Name}};{{end}}", g.E("Tom") + ";" + g.E("Rex") + ";" + g.E("Kit") + ";"},
		{"{{range pets}}{{.Pet.Name}}={{.Pet[\"Name\"]}};{{end}}", g.E("Tom") + "=" + g.E("Tom") + ";" + g.E("Rex") + "=" + g.E("Rex") + ";" + g.E("Kit") + "=" + g.E("Kit") + ";"},
		{"{{range i, p := pets}}{{if i != 1}}{{p.Pet.Sound}}{{else}}{{p.Pet.Owner}}{{end}},{{end}}", g.E("m") + "," + g.E("Ann") + "," + g.E("p") + ","},
		// an explicit context that evaluates to nil is the context: the callee sees no data
		{"{{include \"/octx.jet\" nil}}", "none"}, {"{{include \"/octx.jet\" m[\"absent\"]}}", "none"}, {"{{include \"/octx.jet\" n}}", "none"},
		{"{{ exec(\"/octxr.jet\", nil) }}", g.E("false")}, {"{{ exec(\"/octxr.jet\", m[\"absent\"]) }}", g.E("false")},
		{"{{ includeIfExists(\"/octx.jet\", m[\"absent\"]) }}", "none"}, {"{{ includeIfExists(\"/octx.jet\", nil) }}", "none"},
		{"{{include \"/octx.jet\" ia}}", "has"}, {"{{ exec(\"/octxr.jet\", ia) }}", g.E("true")},
		// ... also when the template's name is piped in: the explicit context is the argument after it
		{"{{ \"/octxr.jet\" | exec: nil }}|{{ \"/octxr.jet\" | exec(nil) }}|{{ \"/octxr.jet\" | exec: ia }}|{{ nm | exec(\"/octxr.jet\", _) }}", g.E("false") + "|" + g.E("false") + "|" + g.E("true") + "|" + g.E("false")},
		{"{{ \"/octx.jet\" | includeIfExists: nil }}|{{ \"/octx.jet\" | includeIfExists(m[\"absent\"]) }}|{{ \"/octx.jet\" | includeIfExists: ia }}", "none|none|has"},
		// try is all-or-nothing whatever makes the body fail - also a Go runtime error inside a called method
		{"{{try}}a{{ hold.Boom() }}b{{catch}}c{{end}}d", "cd"},
		{"{{try}}a{{ hold.Boom().Arr }}b{{end}}d", "d"},
		{"{{range li}}{{try}}a{{if " + v + " := hold.Boom(); " + v + "}}x{{end}}b{{catch " + ok + "}}c{{end}}{{.}}{{end}}", "c" + g.E(3) + "c" + g.E(0) + "c" + g.E(7)},
		{"{{try}}{{try}}a{{ hold.Boom() }}{{catch}}{{ hold.Boom() }}{{end}}DEAD{{catch}}k{{end}}", "k"},
		// a writer command keeps its own escaper while its arguments run template code with writer commands of their own
		{"{{ safeHtml: exec(\"/owr.jet\") }}", htmlEsc("r<&")}, {"{{ raw: exec(\"/owr2.jet\") }}", "r<&"},
		{"{{ safeHtml: ident(exec(\"/owr.jet\")) }}|{{ \"<\" }}", htmlEsc("r<&") + "|" + g.escape("<")},
		{"{{ unsafe: includeIfExists(\"/owr3.jet\") }}", htmlEsc("<i>") + "true"},
		// ints(a, b) runs from a up to b-1 however far apart the two are
		{"{{ exec(\"/owide.jet\") }}", g.E(int64(-6000000000000000000))}, {"{{ exec(\"/owide2.jet\") }}", g.E("0:-6000000000000000000;1:-5999999999999999999;")},
		// every := of an if / else-if chain is gone after {{end}}
		{"{{if " + v + " := 1; " + v + " == 2}}DEAD{{else if " + ok + " := 2; " + ok + " == 3}}DEAD{{else}}C{{end}}|{{isset(" + v + ")}},{{isset(" + ok + ")}}", "C|" + g.E("false") + "," + g.E("false")},
		{"{{ " + v + " := \"o\" }}{{if " + v + " := 1; " + v + " == 2}}DEAD{{else if " + ok + " := 2; " + ok + " == 2}}{{" + v + "}}{{" + ok + "}}{{end}}|{{" + v + "}}{{isset(" + ok + ")}}", g.E(1) + g.E(2) + "|" + g.E("o") + g.E("false")},
		{"{{range li}}{{if " + v + " := .; " + v + " == 9}}DEAD{{else if " + ok + " := " + v + "; " + ok + " == 0}}z{{else}}n{{end}}{{isset(" + v + ", " + ok + ")}};{{end}}", "n" + g.E("false") + ";z" + g.E("false") + ";n" + g.E("false") + ";"},
		// the piped value goes where the slot is, whatever the other arguments evaluate on the way
		{"{{ \"x\" | cat(exec(\"/opipe.jet\"), \"+\", _) }}", g.escape("r+x")}, {"{{ \"x\" | cat: exec(\"/opipe.jet\"), _ }}", g.escape("rx")},
		{"{{ \"x\" | rec(exec(\"/opipe.jet\"), _) }}", g.escape("[r x]")}, {"{{ \"x\" | rec(exec(\"/opipe.jet\")) }}", g.escape("[x r]")},
		// D57: a numeric index the key type cannot represent names no entry (it is not the key it wraps / truncates to)
		{"{{ m8[44] }}|{{ m8[300] }}|{{ isset(m8[300]) }}|{{ " + v + ", " + ok + " := m8[300] }}{{" + ok + "}}", g.E("x") + "||" + g.E("false") + "|" + g.E("false")},
		{"{{ mi1[1] }}|{{ mi1[1.5] }}|{{ isset(mi1[1.5]) }}|{{ isset(mi1[ia - ia + 1]) }}", g.E("one") + "||" + g.E("false") + "|" + g.E("true")},
		{"{{ mu1[1] }}|{{ mu1[0 - 1] }}|{{ isset(mu1[0 - ia]) }}", g.E("uone") + "||" + g.E("false")},
		// D58: a nil value of an interface type with methods prints like any nil, through every writer
		{"{{ nerr.E }}|{{ nerr.St | raw }}|{{ nerr.Errs[\"k\"] }}|{{range nerr.Strs}}[{{.}}]{{end}}|{{ isset(nerr.E) }}", g.escape("<nil>") + "|<nil>|" + g.escape("<nil>") + "|[" + g.escape("<nil>") + "]|" + g.E("false")},
		{"{{try}}{{ nerr.E }}{{catch}}DEAD{{end}}{{ safeHtml: nerr.St }}", g.escape("<nil>") + htmlEsc("<nil>")},
		{"{{ " + v + ", " + ok + " := nerr.Errs[\"k\"] }}{{" + ok + "}}|{{ _, " + ok + " = nerr.Errs[\"zz\"] }}{{" + ok + "}}|{{if x9, ok9 := nerr.Errs[\"k\"]; ok9}}P{{else}}DEAD{{end}}", g.E("true") + "|" + g.E("false") + "|P"},
		// D59: '_' as a target of the assigning form of range discards
		{"{{ " + v + " := 0 }}{{range _, " + v + " = li}}{{" + v + "}};{{end}}{{" + v + "}}", g.E(3) + ";" + g.E(0) + ";" + g.E(7) + ";" + g.E(7)},
		{"{{ " + v + " := 9 }}{{range " + v + ", _ = li}}{{" + v + "}}{{end}}|{{range _ = li}}x{{end}}", g.E(0) + g.E(1) + g.E(2) + "|xxx"},
		// a map keyed by a defined string type is a map with string keys
		{"{{ isset(langs.en) }}{{ isset(langs[\"de\"]) }}{{ isset(langs.fr) }}", g.E("true") + g.E("true") + g.E("false")},
		{"{{ langs.en }}|{{ langs[\"de\"] }}|{{ " + v + ", " + ok + " := langs[\"en\"] }}{{" + ok + "}}", g.escape("Hello<") + "|" + g.E("Hallo") + "|" + g.E("true")},
	}
	if r.Chance(12) || (g.flavor == "scope" || g.flavor == "blocks") && r.Chance(30) {
		// a block whose body is empty - a slot that exists to be overridden - still binds and then DROPS its parameters
		g.nblock++
		bn := fmt.Sprintf("jslot%d", g.nblock)
		pn := g.freshVar()
		g.lib += "{{block " + bn + "(" + pn + "=\"d\")}}{{end}}"
		cs = []gc{
			{"{{yield " + bn + "(" + pn + "=\"x\")}}[{{isset(" + pn + ")}}]", "[" + g.E("false") + "]"},
			{"{{ " + pn + " := \"o\" }}{{yield " + bn + "(" + pn + "=\"x\")}}[{{" + pn + "}}]", "[" + g.E("o") + "]"},
			{"{{if " + v + " := 1; " + v + "}}{{yield " + bn + "()}}{{ " + ok + " := 2 }}{{end}}[{{isset(" + v + ", " + ok + ")}}{{isset(" + pn + ")}}]", "[" + g.E("false") + g.E("false") + "]"},
			{"{{range li}}{{ " + ok + " := . }}{{yield " + bn + "(" + pn + "=.)}}{{end}}[{{isset(" + ok + ")}}]", "[" + g.E("false") + "]"},
		}
	}
	if r.Chance(8) || g.flavor == "try" && r.Chance(30) {
		// a try around a content yield WITH a context: when the caller's content fails, '.' is the block's again after the try
		g.nblock++
		bn := fmt.Sprintf("jwrap%d", g.nblock)
		g.lib += "{{block " + bn + "()}}<{{.}}{{try}}{{yield content \"inner\"}}{{catch}}!{{end}}{{.}}>{{end}}"
		g.lib += "{{block " + bn + "b(p=1)}}<{{.}}{{try}}a{{yield content p}}{{end}}{{.}}{{p}}>{{end}}"
		cs = []gc{
			{"{{yield " + bn + "() \"c0\" content}}{{ nope }}{{end}}", "<" + g.E("c0") + "!" + g.E("c0") + ">"},
			{"{{yield " + bn + "() \"c0\" content}}ok{{.}}{{end}}", "<" + g.E("c0") + "ok" + g.E("inner") + g.E("c0") + ">"},
			{"{{yield " + bn + "b(p=7) \"c1\" content}}{{.}}{{ li[9] }}{{end}}", "<" + g.E("c1") + g.E("c1") + g.E(7) + ">"},
			{"{{range li}}{{yield " + bn + "() . content}}{{ 1 % zero }}{{end}}{{end}}", "<" + g.E(3) + "!" + g.E(3) + "><" + g.E(0) + "!" + g.E(0) + "><" + g.E(7) + "!" + g.E(7) + ">"},
		}
	}
	c := cs[r.Intn(len(cs))]
	// each flavour leans towards the constructs that speak about its own property
	want := map[string]string{"fields": r.Pick([]string{"pets", "m8[", "mi1[", "nerr"}), "isset": r.Pick([]string{"mn[", "langs", "nerr.Errs"}), "try": "{{try}}", "include": "octx", "control": r.Pick([]string{"nan", "owide", "else if", "range _"}), "calls": r.Pick([]string{"| rec", "opipe"}), "escape": r.Pick([]string{"owr", "nerr"}), "errors": r.Pick([]string{"nerr", "range _", "mu1["}), "scope": "else if"}[g.flavor]
	for try := 0; want != "" && try < 4 && !strings.Contains(c.src, want); try++ {
		c = cs[r.Intn(len(cs))]
	}
	return onode{src: c.src, out: c.out, failOff: -1}
}

func htmlEsc(s string) string {
	var sb strings.Builder
	template.HTMLEscape(&sb, []byte(s))
	return sb.String()
}

func (g *ogen) escape(s string) string {
	switch g.esc {
	case "nil":
		return s
	case "brackets":
		// the test escaper wraps every Write; strings are written in 4096-byte chunks, "" not at all
		out := ""
		for len(s) > 0 {
			n := len(s)
			if n > 4096 {
				n = 4096
			}
			out += "[" + s[:n] + "]"
			s = s[n:]
		}
		return out
	default:
		return htmlEsc(s)
	}
}

func (g *ogen) E(x interface{}) string { return g.escape(fmt.Sprint(x)) }

func (g *ogen) freshVar() string { g.nvar++; return fmt.Sprintf("v%d", g.nvar) }

var oracleTexts = []string{"a", "<p>", "&", " x ", "\n", "é", "'q'", "}", "{ ", "\t", "T:"}

func (g *ogen) text() onode {
	t := g.r.Pick(oracleTexts)
	return onode{src: t, out: t, failOff: -1}
}

// value print: the bytes must be the escaper applied once to the printed form
func (g *ogen) print() onode {
	r := g.r
	if g.jx && r.Chance(40) {
		return g.jxNode()
	}
	if r.Chance(6) {
		// literals and actions that span lines: the lines after them keep their numbers
		type gc struct{ src, val string }
		cs := []gc{{"{{ `r<\nw` }}", "r<\nw"}, {"{{ `\n\n` }}", "\n\n"}, {"{{ \"a\" +\n\"b\" }}", "ab"}, {"{{ `x\ny\nz` | lower }}", "x\ny\nz"}, {"{{\n\n\"q\"\n}}", "q"}}
		c := cs[r.Intn(len(cs))]
		return onode{src: c.src, out: g.escape(c.val), failOff: -1}
	}
	k9 := r.Intn(9)
	if g.named && (g.flavor == "isset" || g.flavor == "escape") && r.Chance(25) {
		k9 = 8
	}
	if k9 == 8 && !g.named {
		k9 = r.Intn(8)
	}
	switch k9 {
	case 8:
		// the printed form of a value with a String / Error method is that method's text, whatever the
		// kind of the value; it is data like any other and goes through the escaper once
		if r.Chance(40) || g.flavor == "isset" && r.Chance(60) {
			// kinds the model has no value for: arrays (sliced through a copy when not addressable),
			// channels, nil funcs; every printed value goes through the escaper on its own
			type gc struct{ src, out string }
			cs := []gc{
				{"{{ arr[0:2] }}", g.escape("[3 0]")}, {"{{ arr[1:] }}", g.escape("[0 7]")}, {"{{ arr[2] }}", g.E(7)}, {"{{ len(arr) }}", g.E(3)},
				{"{{ len(arr[:0]) }}", g.E(0)}, {"{{range arr}}{{.}},{{end}}", g.E(3) + "," + g.E(0) + "," + g.E(7) + ","}, {"{{ parr[2] }}", g.E(7)},
				{"{{ hold.Arr[0:1] }}", g.escape("[x<]")}, {"{{ hold.Arr[1] }}", g.escape("y")},
				{"{{range i, v := arr[1:3]}}{{i}}{{v}}{{end}}", g.E(0) + g.E(0) + g.E(1) + g.E(7)},
{"{{ isset(nf) }}", g.E("false")}, {"{{ isset(hold.F) }}", g.E("false")},
				{"{{if nf}}DEAD{{else}}n{{end}}", "n"},
				// isset is false, never a failure, whatever goes wrong while its argument is evaluated
				{"{{ isset(mi[li]) }}", g.E("false")}, {"{{ isset(mi[m]) }}", g.E("false")}, {"{{ isset(hold.Boom().Arr) }}", g.E("false")}, {"{{ isset(hold.Boom()) }}", g.E("true")},
				{"{{if isset(ia, hold.Boom().x)}}DEAD{{else}}n{{end}}", "n"}, {"{{ mi[\"a\"] }}", g.E(11)}, {"{{ isset(mi[\"a\"]) }}", g.E("true")}, {"{{ isset(mi[arr]) }}", g.E("false")},
				{"{{ isset(arr[5]) }}", g.E("false")}, {"{{ isset(nf(\"a\")) }}", g.E("true")}, {"{{ isset(mi[nf]) }}", g.E("false")},
			}
			c := cs[r.Intn(len(cs))]
			if g.flavor == "isset" {
				for try := 0; try < 6 && !strings.Contains(c.src, "isset"); try++ {
					c = cs[r.Intn(len(cs))]
				}
			}
			return onode{src: c.src, out: c.out, failOff: -1}
		}
		k := r.Pick([]string{"int", "bool", "float", "str", "u8", "struct", "pint", "err"})
		var want string
		switch k {
		case "int", "pint":
			want = namedText("int", 3)
		case "bool":
			want = namedText("bool", true)
		case "float":
			want = namedText("float", 1.5)
		case "str":
			want = namedText("str", "s'")
		case "u8":
			want = namedText("u8", 7)
		case "struct":
			want = namedText("struct", 4)
		default:
			want = "e<\"&"
		}
		n := "nv_" + k
		switch r.Intn(7) {
		case 5, 6:
			// string concatenation formats its right operand like printing does (fmt.Sprint)
			if k != "float" {
				return onode{src: "{{ \"p:\" + " + n + " }}", out: g.escape("p:" + want), failOff: -1}
			}
		case 0:
			return onode{src: "{{ " + n + " | raw }}", out: want, failOff: -1}
		case 1:
			return onode{src: "{{ " + n + " | safeHtml }}", out: htmlEsc(want), failOff: -1}
		case 2:
			return onode{src: "{{ ident(" + n + ") }}", out: g.escape(want), failOff: -1}
		}
		return onode{src: "{{ " + n + " }}", out: g.escape(want), failOff: -1}
	case 0, 1, 2:
		names := []string{}
		for n := range g.strVals {
			names = append(names, n)
		}
		sortStrings(names)
		n := r.Pick(names)
		v := g.strVals[n]
		switch r.Intn(6) {
		case 0:
			return onode{src: "{{ " + n + " | raw }}", out: v, failOff: -1}
		case 1:
			return onode{src: "{{ " + n + " | safeHtml }}", out: htmlEsc(v), failOff: -1}
		case 2:
			return onode{src: "{{ unsafe: " + n + " }}", out: v, failOff: -1}
		}
		return onode{src: "{{ " + n + " }}", out: g.escape(v), failOff: -1}
	case 3:
		names := []string{}
		for n := range g.intVals {
			names = append(names, n)
		}
		sortStrings(names)
		n := r.Pick(names)
		return onode{src: "{{" + n + "}}", out: g.escape(fmt.Sprint(g.intVals[n])), failOff: -1}
	case 4:
		lit := r.Pick([]string{"<b>", "a&b", "it's", `q"q`, "plain"})
		return onode{src: "{{ " + fmt.Sprintf("%q", lit) + " }}", out: g.escape(lit), failOff: -1}
	case 5:
		return onode{src: "{{ true }}{{ false }}", out: g.escape("true") + g.escape("false"), failOff: -1}
	case 6:
		a, b := r.Intn(9), r.Intn(9)
		return onode{src: fmt.Sprintf("{{ ia + %d * ib }}", b), out: g.escape(fmt.Sprint(g.intVals["ia"] + b*g.intVals["ib"])), failOff: -1}
		_ = a
	}
	return onode{src: "{{ sa + sb }}", out: g.escape(g.strVals["sa"] + g.strVals["sb"]), failOff: -1}
}

func sortStrings(xs []string) {
	for i := 1; i < len(xs); i++ {
		for j := i; j > 0 && xs[j] < xs[j-1]; j-- {
			xs[j], xs[j-1] = xs[j-1], xs[j]
		}
	}
}

func (g *ogen) failing() onode {
	if g.r.Chance(15) {
		// the caller's content fails below nested includes: still an error with the position of the
		// failing action, after everything rendered so far
		g.nblock++
		bn := fmt.Sprintf("fblk%d", g.nblock)
		g.nfile++
		i1, i2 := fmt.Sprintf("/fci%da.jet", g.nfile), fmt.Sprintf("/fci%db.jet", g.nfile)
		g.p.files[i1] = fmt.Sprintf("{{ w := 1 }}{{include %q}}", i2)
		g.p.files[i2] = "<{{yield content}}>"
		g.lib += fmt.Sprintf("{{block %s()}}[{{include %q}}]{{end}}", bn, i1)
		pre := "{{yield " + bn + "() content}}C"
		return onode{src: pre + "{{ nope }}{{end}}", out: "[<C", failOff: len(pre)}
	}
	if g.r.Chance(12) {
		// the failing operand is a constant that was spelled before, on another line of the same file: the error
		// names the line of the failing action
		type fc struct{ pre, out, act string }
		c := []fc{{"{{ 0 }}\n{{ \"x\" }}\n", g.E(0) + "\n" + g.E("x") + "\n", "{{ ia % 0 }}"},
			{"{{if ia > 0}}p{{end}}\n\n", "p\n\n", "{{ ia % 0 }}"},
			{"{{ \"px\" }}\n{{ 20 }}\n\n", g.E("px") + "\n" + g.E(20) + "\n\n", "{{ ia + \"px\" }}"},
			{"{{ \"-\" }}{{ 20 }}\n", g.E("-") + g.E(20) + "\n", "{{ \"-\" * 20 }}"},
			{"{{ 'a' }}\n{{ 9 }}\n", g.E(97) + "\n" + g.E(9) + "\n", "{{ li[9] }}"}}[g.r.Intn(5)]
		return onode{src: c.pre + c.act, out: c.out, failOff: len(c.pre)}
	}
	act := g.r.Pick([]string{"{{ nope }}", "{{ ia / zero }}", "{{ li[9] }}", "{{ st.Missing }}", "{{ np.A }}", "{{ fail(\"x\") }}", "{{yield nosuchblock()}}", "{{include \"/absent.jet\"}}", "{{ sa - 1 }}", "{{ li[1:9] }}", "{{range ia}}x{{end}}", "{{ upper(_) }}", "{{ ident(n(1)) }}", "{{ v9 := n() }}", "{{ ident(np()) }}", "{{ rec(1, _) }}", "{{ slice(_, 1) }}", "{{ ident(rec(_)) }}",
		"{{ cat(\"a\", _) }}", "{{ cat(\"a\", \"b\", _) }}", "{{ add3(1, _, 2) }}", "{{ add3(1, 2) }}", "{{ add3(1, 2, 3, 4) }}", "{{ sa() }}", "{{ st.A() }}",
		"{{ ident(n) }}", "{{ sa | nope }}", "{{ upper(ia, ia) }}", "{{ repeat(sa, sa) }}", "{{ len() }}", "{{ map(\"k\") }}", "{{ ints(3, 1) }}", "{{ li[sa] }}", "{{ m.k.x.y }}", "{{ -sa }}",
		"{{ ia % zero }}", "{{ ia % 0.5 }}", "{{ ia % -0.25 }}", "{{ ia / \"0\" }}", "{{ ia % \"0\" }}", "{{ ia % t }}", "{{ ia / t }}", "{{ 1.5 % 0.9 }}", "{{ ia / (zero * ib) }}", "{{ n.x }}", "{{ li[-1] }}", "{{ sa[5:2] }}",
		"{{ includeIfExists(\"/obroken.jet\") }}", "{{if includeIfExists(\"/obroken.jet\")}}DEAD{{end}}", "{{ includeIfExists(\"/obroken2.jet\", ia) }}", "{{include \"/obroken.jet\"}}", "{{ exec(\"/obroken2.jet\") }}",
		"{{ li[bu] }}", "{{ ls[bv] }}", "{{ li[bu - ub] }}", "{{ sa[bv] }}",
		"{{ ia * \"x\" }}", "{{ ia < \"x\" }}", "{{ ia * n }}", "{{ ia - \"x\" }}", "{{ 2 * \"a\" }}", "{{ ia * st }}", "{{ 1.5 * li }}", "{{ ia % \"1.5\" }}", "{{ ub + \"-1\" }}", "{{ ia >= m }}", "{{ ia / np }}",
		"{{if mn.i()}}x{{end}}", "{{ v9 := mn.i(1, 2) }}", "{{ upper(mn.i()) }}", "{{ ident(st.I()) }}", "{{range mn.i()}}x{{end}}", "{{ 1 + mn.i() }}", "{{ mn.i() ? 1 : 2 }}", "{{ li[mn.i()] }}",
		"{{ m[n] }}", "{{ st[n] }}", "{{ li[n] }}", "{{ ms[n].Name }}", "{{ m[st.I] }}", "{{ li[1:4] }}", "{{ li[:5] }}", "{{ ls[0:4] }}", "{{ len(li[:4]) }}", "{{ li[4:] }}", "{{range li[2:4]}}x{{end}}", "{{ li[3] }}", "{{ ls[3] }}"})
	if g.named && g.r.Chance(35) {
		act = g.r.Pick([]string{"{{ arr[0:4] }}", "{{ arr[3] }}", "{{ arr[2:1] }}", "{{ parr[0:1] }}", "{{ nf(\"a\") }}", "{{ \"a\" | nf }}", "{{ hold.F(1) }}", "{{ njf(1) }}", "{{ 1 | njf }}",
			"{{range sch}}x{{end}}", "{{range k, v := sch}}x{{end}}", "{{ mi[li] }}", "{{ mi[m] }}", "{{ mi[nf] }}", "{{ mi[hold] }}", "{{ x9, ok9 := mi[ls] }}", "{{ ia[0:1] }}", "{{ m[0:1] }}", "{{ st[0:1] }}", "{{ n[0:1] }}", "{{ t[:] }}"})
	}
	return onode{src: act, out: "", failOff: 0}
}

func cat(a, b onode) onode {
	if a.failOff >= 0 {
		return onode{src: a.src + b.src, out: a.out, failOff: a.failOff}
	}
	off := -1
	if b.failOff >= 0 {
		off = len(a.src) + b.failOff
	}
	return onode{src: a.src + b.src, out: a.out + b.out, failOff: off}
}

func wrap(pre string, n onode, post string) onode {
	off := -1
	if n.failOff >= 0 {
		off = len(pre) + n.failOff
	}
	return onode{src: pre + n.src + post, out: n.out, failOff: off}
}

func lit(s string) onode { return onode{src: s, out: "", failOff: -1} }

func (g *ogen) seq(d int, allowFail bool) onode {
	n := 1 + g.r.Intn(3)
	res := onode{failOff: -1}
	for i := 0; i < n; i++ {
		res = cat(res, g.node(d, allowFail))
	}
	return res
}

// dead: a sequence that must not be rendered at all (the branch not taken, the body of an empty
// range, ...): it contains marker text that may not appear
func (g *ogen) dead(d int) onode {
	n := g.seq(d, false)
	return onode{src: "DEAD" + n.src, out: "", failOff: -1}
}

func (g *ogen) node(d int, allowFail bool) onode {
	r := g.r
	if allowFail && g.failPct > 0 && r.Chance(g.failPct) {
		g.failPct = 0 // one planted failure per program
		return g.failing()
	}
	k := r.Intn(20)
	if d <= 0 {
		k = r.Intn(3)
	}
	switch k {
	case 0:
		return g.text()
	case 1, 2:
		return g.print()
	case 3: // if: exactly one branch
		truthy := r.Pick([]string{"true", "ia", "sa", "t", "li", "1", `"x"`, "st", "not zero", "ia > 0 || zero"})
		falsy := r.Pick([]string{"false", "zero", "e", "ff", "n", "np", "nl", "not t", "zero && t", "ia < 0"})
		a := g.seq(d-1, allowFail)
		if r.Bool() {
			if r.Bool() {
				return wrap("{{if "+truthy+"}}", a, "{{else}}"+g.dead(d-1).src+"{{end}}")
			}
			return wrap("{{if "+truthy+"}}", a, "{{end}}")
		}
		switch r.Intn(3) {
		case 0:
			return wrap("{{if "+falsy+"}}"+g.dead(d-1).src+"{{else}}", a, "{{end}}")
		case 1:
			return wrap("{{if "+falsy+"}}"+g.dead(d-1).src+"{{else if "+truthy+"}}", a, "{{else}}"+g.dead(0).src+"{{end}}")
		}
		return lit("{{if " + falsy + "}}" + g.dead(d-1).src + "{{end}}")
	case 4: // range: once per element, in order
		savedCtx := g.ctxOK
		g.ctxOK = false // most of these loops rebind '.'
		body := g.seq(d-1, false)
		g.ctxOK = savedCtx
		switch r.Intn(6) {
		case 5:
			// an empty range that took its else branch has no influence on the ranges after it: an outer
			// and an inner range over collections of the same kind still run once per element each
			// (slices in slices, maps in maps - whatever an implementation pools per kind)
			out := g.E("e")
			src := "{{range " + r.Pick([]string{"el", "li[1:1]", "nl"}) + "}}DEAD{{else}}{{\"e\"}}{{end}}"
			if r.Chance(30) {
				// (map order is Go's: only the number of rounds is predictable)
				src = "{{range nm}}DEAD{{else}}{{\"e\"}}{{end}}{{range k, v := ms}}<{{range k2, v2 := ms}}m{{end}}>{{end}}"
				return onode{src: src, out: out + "<mmm><mmm><mmm>", failOff: -1}
			}
			src += "{{range i, x := li}}<{{x}}:{{range j, y := ls}}{{j}}{{end}}" + body.src + ">{{end}}"
			for _, x := range []int{3, 0, 7} {
				out += "<" + g.E(x) + ":" + g.E(0) + g.E(1) + g.E(2) + body.out + ">"
			}
			return onode{src: src, out: out, failOff: -1}
		case 0:
			out := ""
			src := "{{range i, x := li}}[{{i}}:{{x}}]" + body.src + "{{end}}"
			for i, x := range []int{3, 0, 7} {
				out += "[" + g.E(i) + ":" + g.E(x) + "]" + body.out
			}
			return onode{src: src, out: out, failOff: -1}
		case 1:
			out := ""
			for _, x := range []string{"a<", "", "b"} {
				out += g.escape(x) + "," + body.out
			}
			return onode{src: "{{range ls}}{{.}}," + body.src + "{{end}}", out: out, failOff: -1}
		case 2:
			out := ""
			for i := 0; i < 3; i++ {
				out += g.E(i+2) + body.out
			}
			return onode{src: "{{range ints(2, 5)}}{{.}}" + body.src + "{{else}}" + g.dead(0).src + "{{end}}", out: out, failOff: -1}
		case 3:
			e := g.seq(d-1, allowFail)
			return wrap("{{range "+r.Pick([]string{"el", "nl", "nm", "li[1:1]"})+"}}"+g.dead(0).src+"{{else}}", e, "{{end}}")
		default:
			out := ""
			for i := range []int{0, 1, 2} {
				out += g.E(i) + body.out
			}
			return onode{src: "{{range k := li}}{{k}}" + body.src + "{{end}}", out: out, failOff: -1}
		}
	case 5: // let / set: visible to the end of the body, restored afterwards
		v := g.freshVar()
		val := r.Pick([]string{"<x>", "k&k", "zz"})
		inner := g.seq(d-1, allowFail)
		use := onode{src: "{{" + v + "}}", out: g.escape(val), failOff: -1}
		return cat(cat(onode{src: fmt.Sprintf("{{ %s := %q }}", v, val), failOff: -1}, inner), use)
	case 6: // shadowing inside if: the outer value is back after the body
		outer := g.strVals["sh"]
		g.strVals["sh"] = "inner"
		a := g.seq(d-1, false)
		g.strVals["sh"] = outer
		return onode{src: "{{if sh := \"inner\"; true}}{{sh}}" + a.src + "{{end}}{{sh}}", out: g.E("inner") + a.out + g.escape(outer), failOff: -1}
	case 7: // try: all or nothing
		body := g.seq(d-1, false)
		if r.Bool() {
			return wrap("{{try}}", body, "{{catch}}"+g.dead(0).src+"{{end}}")
		}
		if r.Chance(25) {
			// the catch body fails too: the whole inner try is a failure of the outer body, nothing of it
			// (body, catch prefix) may surface - not here, and not in any later try
			b2 := g.seq(d-1, false)
			c1 := g.seq(d-1, false)
			f1, f2 := g.failing(), g.failing()
			c2 := g.seq(d-1, false)
			after := g.seq(d-1, false)
			src := "{{try}}" + body.src + "{{try}}LEAK" + b2.src + f1.src + "{{catch}}" + c1.src + f2.src + "{{end}}" + g.dead(0).src + "{{catch}}"
			return cat(wrap(src, c2, "{{end}}"), wrap("{{try}}", after, "{{end}}"))
		}
		if r.Chance(15) && g.ctxOK {
			// a try without catch swallows the failure and still restores '.', the scopes and the content,
			// wherever the failure was raised (range body, if-let, block with arguments)
			fr := r.Pick([]string{"{{range li}}{{q9 := 1}}{{ nope }}{{end}}", "{{if q9 := 2; true}}{{ li[9] }}{{end}}", "{{range k, q9 := ms}}{{ st.Missing }}{{end}}"})
			return onode{src: "{{try}}" + body.src + fr + g.dead(0).src + "{{end}}[{{.}}|{{isset(q9)}}|{{ia}}]",
				out: "[" + g.ctxOut + "|" + g.E("false") + "|" + g.E(g.intVals["ia"]) + "]", failOff: -1}
		}
		if r.Chance(10) {
			// a thousand includes failing inside try (at run time, inside the included template) leave nothing
			// behind: the next include still works
			g.nfile++
			name := fmt.Sprintf("/inct%d.jet", g.nfile)
			g.p.files[name] = "I"
			g.p.files["/incfails.jet"] = "{{if true}}{{ nope.x }}{{end}}"
			return onode{src: fmt.Sprintf("{{range ints(0, 1003)}}{{try}}{{include \"/incfails.jet\"}}{{catch}}{{end}}{{end}}<{{include %q}}>", name), out: "<I>", failOff: -1}
		}
		c := g.seq(d-1, allowFail)
		f := g.failing()
		if r.Chance(20) {
			// the failure is raised while the arguments of a writer command are evaluated: whatever the
			// command had installed is gone afterwards, a later value is escaped by the Set's escaper again
			f = onode{src: r.Pick([]string{"{{ raw: nope.x }}", "{{ unsafe: st.Missing }}", "{{ safeHtml: li[9] }}", "{{ raw: fail(\"x\") }}", "{{ sa | raw: nope }}", "{{ raw: includeIfExists(\"/obroken.jet\") }}"}), out: "", failOff: 0}
			cv := r.Pick([]string{"", " err"})
			after := onode{src: "<{{sa}}|{{ \"a<b\" }}>", out: "<" + g.escape(g.strVals["sa"]) + "|" + g.escape("a<b") + ">", failOff: -1}
			return cat(wrap("{{try}}"+body.src+f.src+g.dead(0).src+"{{catch"+cv+"}}", c, "{{end}}"), after)
		}
		cv := r.Pick([]string{"", " err"})
		probe := ""
		probeOut := ""
		if r.Bool() {
			// a failing range/if-let/yield-content inside the try must leave no trace
			f = onode{src: "{{range li}}{{q9 := 1}}{{ nope }}{{end}}", out: "", failOff: 0}
			probe = "[{{ia}}|{{isset(q9)}}]"
			probeOut = "[" + g.E(g.intVals["ia"]) + "|" + g.E("false") + "]"
		}
		return cat(wrap("{{try}}"+body.src+f.src+g.dead(0).src+"{{catch"+cv+"}}", c, "{{end}}"), onode{src: probe, out: probeOut, failOff: -1})
	case 8: // include: renders in place
		if r.Chance(20) {
			// a template that exists but does not parse is a failure however it is included; one that
			// does not exist is a failure for include and "false, nothing rendered" for includeIfExists
			cs := [][2]string{
				{"{{try}}A{{ includeIfExists(\"/obroken.jet\") }}DEAD{{catch}}c{{end}}", "c"},
				{"{{try}}A{{if includeIfExists(\"/obroken2.jet\")}}DEAD{{else}}DEAD{{end}}{{catch}}c{{end}}", "c"},
				{"{{try}}{{include \"/obroken.jet\"}}DEAD{{catch}}c{{end}}", "c"},
				{"{{try}}{{include \"/oabsent.jet\"}}DEAD{{catch}}c{{end}}", "c"},
				{"{{if includeIfExists(\"/oabsent.jet\")}}DEAD{{else}}n{{end}}", "n"},
				{"[{{ includeIfExists(\"/oabsent.jet\", ia) }}]", "[]"}, // the result renders as nothing
			}
			c := cs[r.Intn(len(cs))]
			return onode{src: c[0], out: c[1], failOff: -1}
		}
		if r.Chance(15) {
			// what a Go function declares from inside an included template (Runtime.Let / SetOrLet) belongs
			// to that template like a := of its own: it is gone after the include, in every iteration
			g.nfile++
			name := fmt.Sprintf("/incl%d.jet", g.nfile)
			v := g.freshVar()
			api := r.Pick([]string{"apiLet", "apiSetOrLet"})
			g.p.files[name] = fmt.Sprintf("{{ %s(%q, 7) }}({{%s}})", api, v, v) + r.Pick([]string{"", "{{if true}}{{ " + v + "b := 1 }}{{end}}"})
			if r.Bool() {
				return onode{src: fmt.Sprintf("{{include %q}}[{{isset(%s)}}]", name, v), out: "(" + g.E(7) + ")[" + g.E("false") + "]", failOff: -1}
			}
			return onode{src: fmt.Sprintf("{{range ints(0, 2)}}<{{isset(%s)}}>{{include %q}}{{end}}[{{isset(%s)}}]", v, name, v),
				out: "<" + g.E("false") + ">(" + g.E(7) + ")<" + g.E("false") + ">(" + g.E(7) + ")[" + g.E("false") + "]", failOff: -1}
		}
		g.nfile++
		name := fmt.Sprintf("/inc%d.jet", g.nfile)
		body := g.seq(d-1, false)
		g.p.files[name] = body.src
		ref := name
		if r.Bool() {
			ref = strings.TrimSuffix(name[1:], ".jet")
		}
		return onode{src: fmt.Sprintf("{{include %q}}", ref), out: body.out, failOff: -1}
	case 9: // exec: no output, value of the last return
		g.nfile++
		name := fmt.Sprintf("/exec%d.jet", g.nfile)
		body := g.seq(d-1, false)
		rv := r.Intn(50)
		g.p.files[name] = body.src + fmt.Sprintf("{{return %d}}", rv+1) + r.Pick([]string{"", "{{if true}}y{{end}}", "{{range el}}{{end}}"}) + fmt.Sprintf("{{if zero}}{{return 99}}{{end}}")
		v := g.freshVar()
		if r.Bool() {
			return onode{src: fmt.Sprintf("{{ %s := exec(%q) }}<{{%s}}>", v, name, v), out: "<" + g.E(rv+1) + ">", failOff: -1}
		}
		return onode{src: fmt.Sprintf("<{{ exec(%q) }}>", name), out: "<" + g.E(rv+1) + ">", failOff: -1}
	case 10: // block defined in the imported library, yielded with arguments / content
		g.nblock++
		bn := fmt.Sprintf("blk%d", g.nblock)
		body := g.seq(d-1, false)
		content := g.seq(d-1, false)
		// a block that renders its caller's content is only ever yielded *with* content: what
		// `yield content` renders when the caller supplied none is not fixed by the property
		if r.Intn(3) == 2 {
			g.lib += "{{block " + bn + "(p, q=\"dq\")}}(" + body.src + "{{p}}{{q}}{{yield content}}){{end}}"
			return onode{src: "{{yield " + bn + "(p=2) content}}" + content.src + "{{end}}", out: "(" + body.out + g.E(2) + g.E("dq") + content.out + ")", failOff: -1}
		}
		g.lib += "{{block " + bn + "(p, q=\"dq\")}}(" + body.src + "{{p}}{{q}}){{end}}"
		if r.Bool() {
			return onode{src: "{{yield " + bn + "(p=ia)}}", out: "(" + body.out + g.E(g.intVals["ia"]) + g.E("dq") + ")", failOff: -1}
		}
		return onode{src: "{{yield " + bn + "(q=sa, p=1)}}", out: "(" + body.out + g.E(1) + g.escape(g.strVals["sa"]) + ")", failOff: -1}
	case 11: // includeIfExists
		if r.Bool() {
			return onode{src: `{{if includeIfExists("/nonexistent.jet")}}DEAD{{else}}N{{end}}`, out: "N", failOff: -1}
		}
		g.nfile++
		name := fmt.Sprintf("/iie%d.jet", g.nfile)
		body := g.seq(d-1, false)
		g.p.files[name] = body.src
		return onode{src: fmt.Sprintf("{{ includeIfExists(%q) }}", name), out: body.out, failOff: -1}
	case 13:
		switch r.Intn(6) {
		case 0: // zero values reached through a map are falsy; nil too
			return onode{src: "{{range mz}}{{if .}}DEAD{{else}}F{{end}}{{end}}{{range k := mz}}{{if .}}DEAD{{else}}Z{{end}}{{end}}{{range k, v := mz}}{{if v}}DEAD{{else}}V{{end}}{{end}}", out: "FZV", failOff: -1}
		case 1: // a stored loop value keeps its value
			key := r.Pick([]string{"a", "b", "c"})
			name := map[string]string{"a": "na<", "b": "nb", "c": ""}[key]
			return onode{src: "{{ cap := 0 }}{{range k, v := ms}}{{if k == \"" + key + "\"}}{{ cap = v }}{{end}}{{end}}[{{cap.Name}}]", out: "[" + g.escape(name) + "]", failOff: -1}
		case 2: // include of a page that extends a layout: the page's own blocks win
			g.nfile++
			lay := fmt.Sprintf("/lay%d.jet", g.nfile)
			page := fmt.Sprintf("/page%d.jet", g.nfile)
			g.p.files[lay] = "L<{{block body()}}DEADdefault{{end}}>"
			g.p.files[page] = fmt.Sprintf("{{extends %q}}DEADtext{{block body()}}page:{{.}}{{end}}", lay)
			if r.Chance(40) {
				// ... also two levels below the layout: the root ancestor's body renders, and exec returns
				// the root ancestor's value
				mid := fmt.Sprintf("/mid%d.jet", g.nfile)
				k3 := r.Intn(3)
				ret := func(n int) string {
					if k3 == 2 {
						return fmt.Sprintf("{{return %d}}", n) // only the exec variant returns (a return ends the includer's list too)
					}
					return ""
				}
				g.p.files[lay] = "L<{{block body()}}DEADdefault{{end}}>" + ret(7)
				g.p.files[mid] = fmt.Sprintf("{{extends %q}}DEADmid{{block body()}}DEADmidbody{{end}}", lay) + ret(8)
				g.p.files[page] = fmt.Sprintf("{{extends %q}}DEADtext{{block body()}}page:{{.}}{{end}}", mid) + ret(9)
				switch k3 {
				case 0:
					return onode{src: fmt.Sprintf("{{include %q ia}}", page), out: "L<page:" + g.E(g.intVals["ia"]) + ">", failOff: -1}
				case 1:
					return onode{src: fmt.Sprintf("{{ includeIfExists(%q, ia) }}", page), out: "L<page:" + g.E(g.intVals["ia"]) + ">", failOff: -1}
				}
				return onode{src: fmt.Sprintf("[{{ exec(%q, ia) }}]", page), out: "[" + g.E(7) + "]", failOff: -1}
			}
			switch r.Intn(3) {
			case 0:
				return onode{src: fmt.Sprintf("{{include %q ia}}", page), out: "L<page:" + g.E(g.intVals["ia"]) + ">", failOff: -1}
			case 1: // the same through includeIfExists ...
				return onode{src: fmt.Sprintf("{{ includeIfExists(%q, ia) }}", page), out: "L<page:" + g.E(g.intVals["ia"]) + ">", failOff: -1}
			}
			return onode{src: fmt.Sprintf("{{if includeIfExists(%q, ia)}}Y{{else}}DEAD{{end}}", page), out: "L<page:" + g.E(g.intVals["ia"]) + ">Y", failOff: -1}
		case 3: // the catch variable leaves no trace, also when a variable of that name exists
			v := g.freshVar()
			return onode{src: fmt.Sprintf("{{ %s := \"kept\" }}{{try}}DEAD{{ nope }}{{catch %s}}c{{end}}[{{%s}}]{{try}}{{ nope }}{{catch sa}}d{{end}}[{{sa}}]", v, v, v),
				out: "c[" + g.E("kept") + "]d[" + g.escape(g.strVals["sa"]) + "]", failOff: -1}
		case 4: // isset with empty-string keys and indexes; isset of the context itself and of indexes into it
			if r.Bool() {
				src := "{{range li}}{{ isset(.) }}{{end}}|{{range ms}}{{ isset(.[\"Name\"]) }}{{ isset(.[\"Nope\"]) }}{{end}}|"
				out := g.E("true") + g.E("true") + g.E("true") + "|" + g.E("true") + g.E("false") + g.E("true") + g.E("false") + g.E("true") + g.E("false") + "|"
				if g.ctxOK {
					src += "{{ isset(.) }}"
					if g.ctxOut == "" {
						out += g.E("false") // no data: '.' is nil
					} else {
						out += g.E("true")
					}
				}
				return onode{src: src, out: out, failOff: -1}
			}
			return onode{src: "{{ isset(me[\"\"]) }}{{ isset(me[e]) }}{{ isset(m[\"\"]) }}{{ isset(me.k) }}", out: g.E("true") + g.E("true") + g.E("false") + g.E("true"), failOff: -1}
		default: // comments and trim markers spanning lines (they must not shift reported lines)
			switch r.Intn(3) {
			case 0:
				return onode{src: "|{* a\nb\n\nc *}", out: "|", failOff: -1}
			case 1:
				return onode{src: "|\n\n {{- \"x\" }}", out: "|" + g.E("x"), failOff: -1}
			}
			return onode{src: "{{ \"y\" -}} \n\n|", out: g.E("y") + "|", failOff: -1}
		}
	case 14: // '.' is restored after every construct that rebinds it, however the construct ends
		if !g.ctxOK {
			return g.text()
		}
		probe := onode{src: "[{{.}}]", out: "[" + g.ctxOut + "]", failOff: -1}
		switch r.Intn(9) {
		case 8: // caller content failing below nested includes: every scope in between is released properly
			g.nblock++
			bn := fmt.Sprintf("nblk%d", g.nblock)
			g.nfile++
			i1, i2 := fmt.Sprintf("/nci%da.jet", g.nfile), fmt.Sprintf("/nci%db.jet", g.nfile)
			g.p.files[i1] = fmt.Sprintf("{{ w := 1 }}{{include %q}}", i2)
			g.p.files[i2] = "{{if true}}{{ z9 := 2 }}{{yield content}}{{end}}"
			g.lib += fmt.Sprintf("{{block %s()}}[{{include %q}}]{{end}}", bn, i1)
			return cat(onode{src: "{{try}}{{yield " + bn + "() content}}C{{ nope }}{{end}}{{catch}}c{{end}}{{ isset(w, z9) }}", out: "c" + g.E("false"), failOff: -1}, probe)
		case 0:
			return cat(onode{src: "{{range k := li}}{{k}}{{end}}", out: g.E(0) + g.E(1) + g.E(2), failOff: -1}, probe)
		case 1:
			return cat(onode{src: "{{ kk := 0 }}{{range kk = li}}{{.}}{{end}}", out: g.E(3) + g.E(0) + g.E(7), failOff: -1}, probe)
		case 2:
			return cat(onode{src: "{{range ls}}{{end}}{{range k, v := li}}{{end}}{{range ints(0, 2)}}{{end}}", failOff: -1}, probe)
		case 3:
			g.nfile++
			name := fmt.Sprintf("/ctx%d.jet", g.nfile)
			g.p.files[name] = "({{.}})"
			return cat(onode{src: fmt.Sprintf("{{include %q ia}}", name), out: "(" + g.E(g.intVals["ia"]) + ")", failOff: -1}, probe)
		case 4:
			g.nblock++
			bn := fmt.Sprintf("cblk%d", g.nblock)
			g.lib += "{{block " + bn + "()}}<{{.}}>{{end}}"
			return cat(onode{src: "{{yield " + bn + "() sa}}", out: "<" + g.escape(g.strVals["sa"]) + ">", failOff: -1}, probe)
		case 5: // a failure inside a rebinding body, swallowed by try
			return cat(onode{src: "{{try}}{{range k := li}}{{ nope }}{{end}}{{catch}}c{{end}}", out: "c", failOff: -1}, probe)
		case 6: // ... or by isset
			g.nfile++
			name := fmt.Sprintf("/ctxe%d.jet", g.nfile)
			g.p.files[name] = "{{range ls}}{{ nope }}{{end}}"
			return cat(onode{src: fmt.Sprintf("{{ isset(exec(%q).x) }}", name), out: g.E("false"), failOff: -1}, probe)
		default:
			g.nfile++
			name := fmt.Sprintf("/ctxx%d.jet", g.nfile)
			g.p.files[name] = "{{.}}{{return 1}}"
			return cat(onode{src: fmt.Sprintf("{{ exec(%q, sa) }}{{ includeIfExists(%q, ib) }}", name, name), out: g.E(1) + g.E(g.intVals["ib"]), failOff: -1}, probe)
		}
	case 15: // exec returns the value of the last return statement executed, however deeply nested earlier ones were
		g.nfile++
		name := fmt.Sprintf("/ret%d.jet", g.nfile)
		a, b := r.Intn(40)+100, r.Intn(40)+200
		var src string
		var want int
		switch r.Intn(5) {
		case 0:
			src, want = fmt.Sprintf("{{if t}}{{return %d}}{{end}}{{return %d}}", a, b), b
		case 1:
			src, want = fmt.Sprintf("{{range li}}{{if . == 0}}{{return %d}}{{end}}{{end}}x{{return %d}}", a, b), b
		case 2:
			src, want = fmt.Sprintf("{{try}}{{return %d}}{{end}}{{if zero}}{{return 1}}{{end}}{{return %d}}", a, b), b
		case 3:
			src, want = fmt.Sprintf("{{return %d}}{{if t}}{{return %d}}{{end}}{{range el}}{{end}}", a, b), b
		default:
			src, want = fmt.Sprintf("{{if t}}{{if t}}{{return %d}}{{end}}{{end}}{{if zero}}{{return %d}}{{end}}", a, b), a
		}
		g.p.files[name] = src
		return onode{src: fmt.Sprintf("<{{ exec(%q) }}>", name), out: "<" + g.E(want) + ">", failOff: -1}
	case 16: // yield arguments are evaluated in the caller's scope; defaults may use supplied parameters
		g.nblock++
		bn := fmt.Sprintf("pblk%d", g.nblock)
		switch r.Intn(5) {
		case 3: // ... with the caller's '.', also when the yield names a context for the block
			g.lib += "{{block " + bn + "(p=0)}}({{p}}|{{.}}){{end}}"
			out := ""
			for _, e := range []int{3, 0, 7} {
				out += "(" + g.E(e) + "|" + g.escape("ctx<") + ")"
			}
			return onode{src: "{{range li}}{{yield " + bn + "(p=.) \"ctx<\"}}{{end}}", out: out, failOff: -1}
		case 4: // ... and so are the defaults of parameters the yield leaves out
			g.lib += "{{block " + bn + "(p=., q=\"d\")}}({{p}}|{{q}}|{{.}}){{end}}"
			out := ""
			for _, e := range []string{"a<", "", "b"} {
				out += "(" + g.escape(e) + "|" + g.escape("d") + "|" + g.E(g.intVals["ia"]) + ")"
			}
			return onode{src: "{{range ls}}{{yield " + bn + "() ia}}{{end}}", out: out, failOff: -1}
		case 0:
			g.lib += "{{block " + bn + "(sa=\"dflt\", ia=0)}}({{sa}}|{{ia}}){{end}}"
			return onode{src: "{{yield " + bn + "(ia=ia, sa=sa)}}", out: "(" + g.escape(g.strVals["sa"]) + "|" + g.E(g.intVals["ia"]) + ")", failOff: -1}
		case 1:
			g.lib += "{{block " + bn + "(href, label=href)}}({{href}}|{{label}}){{end}}"
			return onode{src: "{{yield " + bn + "(href=sa)}}", out: "(" + g.escape(g.strVals["sa"]) + "|" + g.escape(g.strVals["sa"]) + ")", failOff: -1}
		default:
			g.lib += "{{block " + bn + "(sa, q=1)}}({{sa}}|{{q}}){{end}}"
			return onode{src: "{{yield " + bn + "(q=ib)}}[{{sa}}]", out: "(" + g.E("false") + "|" + g.E(g.intVals["ib"]) + ")[" + g.escape(g.strVals["sa"]) + "]", failOff: -1}
		}
	case 18: // a name resolves through scopes, then the execution's variables, then globals, then built-ins - wherever the call is written
		E := g.escape
		switch r.Intn(3) {
		case 0: // `trimSpace` is a variable of this execution (it appends "!")
			return onode{src: `{{ x9 := trimSpace(" a") }}[{{x9}}][{{ trimSpace("b") + "c" }}][{{ ident(trimSpace("d")) }}]{{if trimSpace("e") == "e!"}}Y{{else}}DEAD{{end}}[{{ "f" | trimSpace }}][{{ trimSpace: "g" }}]`,
				out: "[" + E(" a!") + "][" + E("b!c") + "][" + E("d!") + "]Y[" + E("f!") + "][" + E("g!") + "]", failOff: -1}
		case 1: // `html` is a Set global
			return onode{src: `[{{ html("<") }}][{{ y9 := html("x") }}{{y9}}][{{ ident(html("y")) + "z" }}]`, out: "[" + E("<!") + "][" + E("x!") + "][" + E("y!z") + "]", failOff: -1}
		default: // a local shadows both
			return onode{src: `{{if true}}{{ html := upper }}{{ trimSpace := lower }}{{ z9 := html("q") + trimSpace("R") }}[{{z9}}][{{ ident(html("s")) }}]{{end}}[{{ ident(html("t")) }}]`,
				out: "[" + E("Qr") + "][" + E("S") + "][" + E("t!") + "]", failOff: -1}
		}
	case 17: // isset: typed nils stored in maps are not set, whichever way they are reached
		g.nfile++
		name := fmt.Sprintf("/iss%d.jet", g.nfile)
		g.p.files[name] = "{{ isset(.p) }}{{ isset(.m) }}{{ isset(.s) }}{{ isset(.i) }}{{ isset(.v) }}{{ isset(.zz) }}{{ isset(.p.A) }}{{ isset(.v, .p) }}"
		f, t := g.E("false"), g.E("true")
		return onode{src: fmt.Sprintf("{{include %q mn}}|{{ isset(mn.p) }}{{ isset(mn[\"m\"]) }}{{ isset(mn.v) }}{{ mn.s | isset }}", name),
			out: f + f + f + f + t + f + f + f + "|" + f + f + t + f, failOff: -1}
	case 12: // isset
		return onode{src: "{{ isset(m.k) }}{{ isset(m.nokey) }}{{ isset(np) }}{{ isset(zero, e, ff) }}{{ isset(st.P.P.A) }}{{ m.nokey | isset }}", out: g.E("true") + g.E("false") + g.E("false") + g.E("true") + g.E("false") + g.E("false"), failOff: -1}
	}
	return g.text()
}

// genOracleProgram: a program with the output (and, if a failure is planted, the error position)
// the properties demand.
func genOracleProgram(r *h.Rand, flavor string) (*prog, *sx.Sexp) {
	p := newProg(r)
	p.esc = pickW(r, "html", 4, "nil", 1, "brackets", 1)
	g := &ogen{r: r, p: p, esc: p.esc, flavor: flavor, strVals: map[string]string{}, intVals: map[string]int{}}
	nonEmpty := []string{}
	for _, x := range specialStrings {
		if x != "" {
			nonEmpty = append(nonEmpty, x)
		}
	}
	g.strVals["sa"] = r.Pick(nonEmpty) // used as a truthy condition
	g.strVals["sb"] = r.Pick(specialStrings)
	g.strVals["sh"] = "outer<"
	g.strVals["big"] = strings.Repeat("<", 1+r.Intn(3)) + strings.Repeat("ab&", []int{5, 1365, 1366, 2731}[r.Intn(4)])
	g.intVals["ia"] = 1 + r.Intn(40)
	g.intVals["ib"] = r.Intn(9)
	vars := sx.L()
	for n, v := range g.strVals {
		vars.Add(bind(n, vStr(v)))
	}
	for n, v := range g.intVals {
		vars.Add(bind(n, vInt(int64(v))))
	}
	inner := vT1(3, "in", vSliceI(vInt(1)), vMapI("k", vInt(1)), vPtr("T1", nil), vNil())
	vars.Add(bind("zero", vInt(0))).Add(bind("e", vStr(""))).Add(bind("t", vBool(true))).Add(bind("ff", vBool(false))).
		Add(bind("n", vNil())).Add(bind("np", vPtr("T1", nil))).Add(bind("nl", nilSliceI())).Add(bind("nm", nilMapI())).
		Add(bind("el", vSliceI())).Add(bind("li", vSliceT(vInt(3), vInt(0), vInt(7)))).Add(bind("ls", vSliceT(vStr("a<"), vStr(""), vStr("b")))).
		Add(bind("m", vMapI("k", vStr("v")))).Add(bind("mn", vMapI("p", vPtr("T1", nil), "m", nilMapI(), "s", nilSliceI(), "i", vNil(), "v", vInt(1)))).Add(bind("mz", vMapI("k", vInt(0)))).Add(bind("me", vMapI("", vStr("x"), "k", vStr("")))).
		Add(bind("ms", vMapT("a", vT2("na<", 1, true), "b", vT2("nb", 2, false), "c", vT2("", 0, false)))).Add(bind("st", vT1(5, "B<", vSliceI(vInt(1)), vMapI("k", vInt(1)), vPtr("T1", inner), vNil())))
	g.named = r.Chance(30) || (flavor == "isset" || flavor == "escape") && r.Chance(30)
	named := func(k string, v *sx.Sexp) *sx.Sexp { return sx.L(sx.A("named"), sx.A(k), v) }
	vars.Add(bind("nv_int", named("int", vInt(3)))).Add(bind("nv_pint", named("pint", vInt(3)))).Add(bind("nv_bool", named("bool", vBool(true)))).
		Add(bind("nv_float", named("float", vFloat(1.5)))).Add(bind("nv_str", named("str", vStr("s'")))).Add(bind("nv_u8", named("u8", vInt(7)))).
		Add(bind("nv_struct", named("struct", vInt(4)))).Add(bind("nv_err", named("err", vStr("e<\"&"))))
	gov := func(k string) *sx.Sexp { return sx.L(sx.A("goval"), sx.A(k)) }
	if g.named {
		vars.Add(bind("arr", gov("arr3"))).Add(bind("parr", gov("parr3"))).Add(bind("nf", gov("nilfunc"))).Add(bind("njf", gov("niljfunc"))).
			Add(bind("mi", gov("ifacemap"))).Add(bind("sch", gov("sendch"))).Add(bind("rch", gov("recvch"))).Add(bind("hold", gov("holder")))
	}
	g.jx = r.Chance(30)
	if g.jx {
		if !g.named {
			vars.Add(bind("hold", gov("holder")))
		}
		vars.Add(bind("nan1", gov("nanmap1"))).Add(bind("nan2", gov("nanmap2"))).Add(bind("pets", gov("pets"))).Add(bind("rec", vJFunc("rec")))
		p.files["/octx.jet"] = "{{if .}}has{{else}}none{{end}}"
		p.files["/octxr.jet"] = "{{return isset(.)}}"
		p.files["/owr.jet"] = "{{ \"<i>\" | raw }}{{ return \"r<&\" }}"
		p.files["/owr2.jet"] = "{{ \"<i>\" | safeHtml }}{{ return \"r<&\" }}"
		p.files["/owr3.jet"] = "{{ \"<i>\" | safeHtml }}"
		p.files["/owide.jet"] = "{{range i, v := ints(wlo, whi)}}{{return v}}{{else}}{{return \"EMPTY\"}}{{end}}"
		p.files["/owide2.jet"] = "{{ o := \"\" }}{{range i, v := ints(wlo, whi)}}{{ o = o + i + \":\" + v + \";\" }}{{if i == 1}}{{return o}}{{end}}{{else}}{{return \"EMPTY\"}}{{end}}"
		p.files["/opipe.jet"] = "{{ \"in\" | upper }}{{ return \"r\" }}"
		vars.Add(bind("wlo", vInt(-6000000000000000000))).Add(bind("whi", vInt(6000000000000000000))).Add(bind("langs", gov("langmap"))).Add(bind("cat", vFunc("cat"))).
			Add(bind("m8", gov("map8"))).Add(bind("mi1", gov("mapint"))).Add(bind("mu1", gov("mapuint"))).Add(bind("nerr", gov("nilerrs")))
	}
	vars.Add(bind("bu", vUint(9223372036854775808))).Add(bind("bv", vUint(18446744073709551615))).Add(bind("ub", vUint(1)))
	// templates that exist but do not parse: including them is a failure, however it is spelled
	p.files["/obroken.jet"] = "x{{if}}"
	p.files["/obroken2.jet"] = "{{extends \"/onowhere.jet\"}}"
	vars.Add(bind("trimSpace", vFunc("shout")))
	p.globals.Add(bind("html", vFunc("shout")))
	p.globals.Add(bind("apiLet", vJFunc("apiLet"))).Add(bind("apiSetOrLet", vJFunc("apiSetOrLet")))
	p.vars = vars
	p.data = vStr("c<x")
	g.ctxOut = g.escape("c<x")
	if r.Chance(25) {
		// no data: '.' prints nothing - also right after an execution (same process, pooled runtime) that had data
		p.data = vNil()
		g.ctxOut = ""
	}
	g.ctxOK = true
	if flavor == "errors" || flavor == "try" && r.Chance(20) {
		g.failPct = 15
	}
	body := g.seq(3, true)
	if g.failPct > 0 && flavor == "errors" {
		// make sure a failure is planted
		body = cat(body, g.failing())
	}
	p.files = mergeFiles(p.files, g.p.files)
	p.files["/olib.jet"] = "LIBTEXT" + g.lib
	pre := r.Pick([]string{"z", "y\n", "x\n\n"}) // not whitespace-only: that is dropped next to import
	p.files["/main.jet"] = `{{import "/olib.jet"}}` + pre + body.src
	p.entry = "/main.jet"
	exp := sx.L(sx.A("expect"), sx.S(pre+body.out))
	if body.failOff >= 0 {
		full := p.files["/main.jet"]
		off := len(`{{import "/olib.jet"}}`) + len(pre) + body.failOff
		line := 1 + strings.Count(full[:off], "\n")
		exp.Add(sx.L(sx.A("fails"), sx.S("/main.jet"), sx.I(int64(line)), sx.S(full[off:min(len(full), off+40)])))
	}
	p.tags["oracle"] = true
	return p, exp
}

func min(a, b int) int {
	if a < b {
		return a
	}
	return b
}

func mergeFiles(a, b map[string]string) map[string]string {
	for k, v := range b {
		a[k] = v
	}
	return a
}

// oracleCase: an evaluator case whose meta carries the expected output
func oracleCase(stream string, r *h.Rand, flavor string) h.Case {
	p, exp := genOracleProgram(r, flavor)
	c := evalCase(stream, p)
	c.Meta = sx.L(sx.A("files"))
	for path, src := range p.files {
		c.Meta.Add(sx.L(sx.S(path), sx.S(src)))
	}
	// the expectation rides along as a pseudo-file entry the store builder ignores
	c.Meta.Add(sx.L(sx.S("\x00expect"), sx.S(exp.String())))
	return c
}
