package main

import (
	"jetverif/harness/h"
)

func genC02(r *h.Rand, tier string) []h.Case {
	n := 1200
	if tier != "quick" {
		n = 40000
	}
	var cs []h.Case
	for i := 0; i < n; i++ {
		d := pickDelims(r)
		src := genTemplateSrc(r, d, 3)
		tags := []string{"valid-grammar"}
		if i%2 == 1 {
			src = mutate(r, src)
			tags = []string{"mutated"}
			if r.Chance(30) {
				src = mutate(r, src)
			}
		}
		if d.L != "" {
			tags = append(tags, "custom-delims")
		}
		cs = append(cs, h.Case{Stream: "lex", Cmd: lexCmd(d, src), NonTrivial: len(src) > 8, Tags: tags})
	}
	return cs
}

func init() {
	h.RegisterProp(&h.Prop{ID: "C02", Gen: genC02})
}
