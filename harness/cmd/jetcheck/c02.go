package main

import (
	"fmt"
	"regexp"
	"runtime"
	"strconv"
	"strings"
	"time"

	"github.com/CloudyKit/jet/v6"

	"jetverif/harness/h"
	"jetverif/harness/sx"
)

// C02.  Stream "lex": the real lexer vs the model, token by token.  Stream "parse" (direct oracle):
// Set.Parse and Set.GetTemplate on generated, mutated and deliberately malformed sources under every
// delimiter family: a template or an error, never a panic (the worker process would die) or a hang
// (per-case timeout), no goroutine left behind, syntax errors name the template and a line inside
// the source, structural mistakes are always reported.  Stream "cycles": extends/import cycles
// through every way of naming a template.

func genC02(r *h.Rand, tier string) []h.Case {
	n := 1200
	if tier == "search" {
		n = 4000
	} else if tier != "quick" {
		n = 40000
	}
	var cs []h.Case
	for i := 0; i < n; i++ {
		d := pickDelims(r)
		if i%6 == 5 {
			d = pickHostileDelims(r)
		}
		src := genTemplateSrc(r, d, 3)
		tags := []string{"valid-grammar"}
		if i%2 == 1 {
			src = mutate(r, src)
			tags = []string{"mutated"}
			if r.Chance(30) {
				src = mutate(r, src)
			}
		}
		if d.L != "" {
			tags = append(tags, "custom-delims")
		}
		if i%6 == 5 {
			tags = append(tags, "hostile-delims")
		}
		cs = append(cs, h.Case{Stream: "lex", Cmd: lexCmd(d, src), NonTrivial: len(src) > 8, Tags: tags})
		if i%3 == 0 {
			cs = append(cs, h.Case{Stream: "parse", NoModel: true, NonTrivial: len(src) > 8, Tags: tags,
				Cmd: sx.L(sx.A("parse-total"), sx.S(d.L), sx.S(d.R), sx.S(d.LC), sx.S(d.RC), sx.S(src), sx.A("any"))})
		}
	}
	for i := 0; i < n/4; i++ {
		d := pickDelims(r)
		src, want := genStructural(r, d)
		cs = append(cs, h.Case{Stream: "parse", NoModel: true, NonTrivial: true, Tags: []string{"structural-" + want},
			Cmd: sx.L(sx.A("parse-total"), sx.S(d.L), sx.S(d.R), sx.S(d.LC), sx.S(d.RC), sx.S(src), sx.A(want))})
	}
	for i := 0; i < n/8; i++ {
		cs = append(cs, genCycleCase(r))
	}
	// the abstract Set model the termination theorem is about, against the real Set (C16's histories:
	// loads through extends/import references, cycles included)
	hist := genC16(r, "quick")
	if len(hist) > n/8 {
		hist = hist[:n/8]
	}
	cs = append(cs, hist...)
	// the parser model against the real parser: whole trees with every Line, error lines and messages
	cs = append(cs, genParseTree(r, "parsetree", n/2, "mixed")...)
	return cs
}

// structural mistakes that must always be reported, and their well-formed counterparts
func genStructural(r *h.Rand, d delims) (string, string) {
	L, R, LC, RC := d.left(), d.right(), d.lcomment(), d.rcomment()
	act := func(s string) string { return L + r.Pick([]string{"", " ", "- "}) + s + r.Pick([]string{"", " ", " -"}) + R }
	pre := r.Pick([]string{"", "text\n", act(`"x"`), LC + " c " + RC, "a\n\nb"})
	post := r.Pick([]string{"", "\ntail", act("1")})
	type sc struct {
		src  string
		want string
	}
	cases := []sc{
		{pre + L + ` "x" ` + post, "error"},                                        // unterminated action
		{pre + LC + ` never closed ` + post, "error"},                              // unterminated comment
		{pre + LC + RC[1:] + " t", "error"},                                        // the closing marker may not overlap the opening one
		{pre + LC + RC[1:] + " hidden " + RC + post, "ok"},                         // ... a comment whose body starts like the end of the closing marker
		{pre + LC + LC + RC + post, "ok"},                                          // ... or contains the opening marker
		{pre + act(`"abc`) + post, "error"},                                        // unterminated string
		{pre + act("`abc") + post, "error"},                                        // unterminated raw string
		{pre + act(`'a`) + post, "error"},                                          // unterminated char
		{pre + act("if true") + "x" + post, "error"},                               // missing end
		{pre + act("range x") + "x" + act("else") + post, "error"},                 // missing end after else
		{pre + "x" + act("end") + post, "error"},                                   // surplus end
		{pre + act("if true") + "x" + act("end") + act("end") + post, "error"},     // surplus end
		{pre + act("block b()") + "x" + post, "error"},                             // missing end of block
		{pre + act("try") + "x" + act("catch") + "y" + post, "error"},              // missing end of try
		{pre + act("else") + post, "error"},                                        // stray else
		{pre + act("content") + post, "error"},                                     // stray content
		{"x" + act(`extends "/base.jet"`) + post, "error"},                         // extends after content
		{act(`"x"`) + act(`import "/base.jet"`) + post, "error"},                   // import after an action
		{act(`import "/base.jet"`) + act(`extends "/base.jet"`), "error"},          // extends after import
		{act(`extends "/base.jet"`) + act(`extends "/base.jet"`), "error"},         // two extends
		{pre + act("if true") + "x" + act("else") + "y" + act("else") + "z" + act("end") + post, "error"}, // two else
		{pre + act("yield b() content") + "c" + post, "error"},                     // yield content without end
		{pre + act("(1 + 2") + post, "error"},                                      // unclosed paren
		{pre + act("1 + 2)") + post, "error"},                                      // surplus paren
		{pre + act("if true") + "x" + act("end") + post, "ok"},
		{pre + act("range x") + "x" + act("else") + "y" + act("end") + post, "ok"},
		{pre + act("try") + "x" + act("catch e") + "y" + act("end") + post, "ok"},
		{act(`extends "/base.jet"`) + act(`import "/base.jet"`) + post, "ok"},
		{"  \n" + act(`extends "/base.jet"`) + "\n " + LC + "c" + RC + post, "ok"},
		{pre + act("block b()") + "x" + act("content") + "d" + act("end") + act("yield b() content") + "c" + act("end") + post, "ok"},
	}
	if r.Chance(40) {
		return genStrayClause(r, act, pre)
	}
	c := cases[r.Intn(len(cases))]
	return c.src, c.want
}

// a clause marker (else / else if / content / catch) in every kind of body: accepted only by the
// construct it belongs to, a parse error everywhere else - whatever follows
func genStrayClause(r *h.Rand, act func(string) string, pre string) (string, string) {
	type ctx struct {
		open  string
		kind  string
		depth int
	}
	ctxs := []ctx{
		{"", "top", 0},
		{act("if true"), "if", 1},
		{act("if true") + "a" + act("else"), "else", 1},
		{act("if true") + "a" + act("else if false"), "if", 1},
		{act("range x"), "range", 1},
		{act("range x") + "a" + act("else"), "else", 1},
		{act("block sb()"), "block", 1},
		{act("block sb()") + "a" + act("content"), "content", 1},
		{act("try"), "try", 1},
		{act("try") + "a" + act("catch"), "catch", 1},
		{act("try") + "a" + act("catch e"), "catch", 1},
		{act("yield sb() content"), "ycontent", 1},
	}
	markers := []struct{ src, legalIn string }{
		{"else", "if range"}, {"else if true", "if"}, {"content", "block"}, {"catch", "try"}, {"catch e", "try"},
	}
	c := ctxs[r.Intn(len(ctxs))]
	m := markers[r.Intn(len(markers))]
	open, kind, depth := c.open, c.kind, c.depth
	if r.Chance(30) {
		// one more body in between: the marker no longer sits in the construct it belongs to
		w := r.Pick([]string{"if true", "range x", "try", "block sw()"})
		open += "b" + act(w)
		kind = map[string]string{"if true": "if", "range x": "range", "try": "try", "block sw()": "block"}[w]
		depth++
	}
	legal := false
	for _, k := range strings.Fields(m.legalIn) {
		if k == kind {
			legal = true
		}
	}
	src := pre + open + "c" + act(m.src) + "d"
	if legal {
		for i := 0; i < depth; i++ {
			src += act("end")
		}
		return src + "e", "ok"
	}
	for i := r.Intn(depth + 3); i > 0; i-- {
		src += act("end") + "e"
	}
	return src, "error"
}

func genCycleCase(r *h.Rand) h.Case {
	n := 2 + r.Intn(3)
	files := map[string]string{}
	names := []string{"/a.jet", "/dir/b.jet", "/c.html.jet", "/dir/sub/d.jet"}[:n]
	ref := func(to string) string {
		// every way of naming a template: absolute, without extension, relative, unclean
		switch r.Intn(5) {
		case 0:
			return to
		case 1:
			return strings.TrimSuffix(strings.TrimSuffix(to, ".jet"), ".html")
		case 2:
			return "/x/.." + to
		case 3:
			return "/" + strings.TrimPrefix(strings.TrimSuffix(to, ".jet"), "/")
		}
		return "/." + to
	}
	kind := func() string { return r.Pick([]string{"extends", "import"}) }
	closed := r.Chance(80)
	for i, nm := range names {
		next := names[(i+1)%n]
		if i == n-1 && !closed {
			files[nm] = "leaf " + nm
			continue
		}
		k := kind()
		hdr := `{{` + k + ` "` + ref(next) + `"}}`
		if r.Chance(30) && i+2 < n {
			hdr += `{{import "` + ref(names[i+2]) + `"}}`
		}
		files[nm] = hdr + "body of " + nm + `{{block b()}}x{{end}}`
	}
	entry := names[r.Intn(n)]
	if r.Chance(15) {
		files[names[0]] = `{{` + kind() + ` "` + ref(names[0]) + `"}}self`
		closed = true
		entry = names[0]
	}
	meta := sx.L(sx.A("files"))
	for p, s := range files {
		meta.Add(sx.L(sx.S(p), sx.S(s)))
	}
	want := "ok"
	if closed {
		want = "error"
	}
	return h.Case{Stream: "cycles", NoModel: true, NonTrivial: true, Meta: meta, Tags: []string{"cycle-" + want},
		Cmd: sx.L(sx.A("load-cyclic"), sx.S(entry), sx.A(want))}
}

var parseErrRe = regexp.MustCompile(`^template: ([^:]+):(\d+): `)

func init() {
	h.RegisterImpl("parse-total", func(cmd, _ *sx.Sexp) (*sx.Sexp, string) {
		d, src := cmdDelims(cmd)
		want := cmd.Xs[6].A
		before := runtime.NumGoroutine()
		files := map[string]string{"/t.jet": src, "/base.jet": "base{{block m()}}{{end}}"}
		oracle := ""
		res := sx.L(sx.A("parsed"))
		for _, via := range []string{"GetTemplate", "Parse"} {
			set := setWithDelims(files, d)
			var err error
			var t *jet.Template
			if via == "GetTemplate" {
				t, err = set.GetTemplate("/t.jet")
			} else {
				t, err = set.Parse("/t.jet", src)
			}
			switch {
			case err == nil && t == nil:
				oracle = via + " returned neither a template nor an error"
			case err == nil:
				res.Add(sx.A("ok"))
				if want == "error" && oracle == "" {
					oracle = via + " silently accepted a structural mistake"
				}
			default:
				res.Add(sx.A("error"))
				if want == "ok" && oracle == "" {
					oracle = via + " rejected a well-formed template: " + clipS(err.Error())
				}
				m := parseErrRe.FindStringSubmatch(err.Error())
				if m == nil {
					if oracle == "" {
						oracle = via + ": error does not name template and line: " + clipS(err.Error())
					}
				} else {
					ln, _ := strconv.Atoi(m[2])
					lines := strings.Count(src, "\n") + 1
					if (m[1] != "/t.jet" || ln < 1 || ln > lines) && oracle == "" {
						oracle = fmt.Sprintf("%s: error names %s line %d, the source is /t.jet with %d lines: %s", via, m[1], ln, lines, clipS(err.Error()))
					}
				}
			}
		}
		// the lexer goroutine must be gone
		deadline := time.Now().Add(200 * time.Millisecond)
		for runtime.NumGoroutine() > before && time.Now().Before(deadline) {
			time.Sleep(time.Millisecond)
		}
		if g := runtime.NumGoroutine(); g > before && oracle == "" {
			oracle = fmt.Sprintf("%d goroutine(s) still running after parsing", g-before)
		}
		return res, oracle
	})
	h.RegisterImpl("load-cyclic", func(cmd, meta *sx.Sexp) (*sx.Sexp, string) {
		_, files := filesOf(meta)
		entry := string(cmd.Xs[1].B)
		want := cmd.Xs[2].A
		set := newSetFor(files, "html", nil)
		before := runtime.NumGoroutine()
		_, err := set.GetTemplate(entry)
		oracle := ""
		got := "ok"
		if err != nil {
			got = "error"
		}
		if got != want {
			oracle = fmt.Sprintf("GetTemplate(%s) on a set %s: got %s (%v)", entry, map[string]string{"error": "with an extends/import cycle", "ok": "without a cycle"}[want], got, err)
		}
		_, err2 := set.GetTemplate(entry) // and again: the failure must not poison the set
		if (err2 != nil) != (err != nil) && oracle == "" {
			oracle = "a second GetTemplate gives a different verdict"
		}
		deadline := time.Now().Add(200 * time.Millisecond)
		for runtime.NumGoroutine() > before && time.Now().Before(deadline) {
			time.Sleep(time.Millisecond)
		}
		if g := runtime.NumGoroutine(); g > before && oracle == "" {
			oracle = fmt.Sprintf("%d goroutine(s) still running after loading", g-before)
		}
		return sx.L(sx.A(got)), oracle
	})
	h.RegisterProp(&h.Prop{ID: "C02", Gen: genC02})
}
