package main

import (
	"fmt"
	"reflect"
	"strings"

	"github.com/CloudyKit/jet/v6"
	"github.com/CloudyKit/jet/v6/utils"

	"jetverif/harness/h"
	"jetverif/harness/sx"
)

// grammar-covering snippets: every production, optional parts present and absent
var c20Snippets = []string{
	`{{ s[1:] }}`, `{{ s[:2] }}`, `{{ s[:] }}`, `{{ s[1:2] }}`, `{{ -a }}`, `{{ +a * -b }}`, `{{ 1 | f(_) }}`, `{{ _ := 1 }}`,
	`{{yield content}}`, `{{yield content a}}`, `{{yield b() content}}x{{end}}`, `{{yield b(p=1, 2) a}}`, `{{include "/x"}}`, `{{include "/x" a.b}}`,
	`{{try}}x{{end}}`, `{{try}}x{{catch}}y{{end}}`, `{{try}}{{ a }}{{catch err}}{{ err }}{{end}}`, `{{return 1}}`, `{{return a ? b : c}}`,
	`{{if a}}x{{end}}`, `{{if x := 1; x}}y{{else if b}}z{{else}}w{{end}}`, `{{range a}}{{.}}{{end}}`, `{{range i := a}}x{{else}}y{{end}}`, `{{range k, v = m}}{{end}}`,
	`{{block b(p, q=1) c}}x{{content}}y{{end}}`, `{{block b()}}{{end}}`, `{{ a.b.c }}`, `{{ f(a).b[1].c }}`, `{{ .A.B }}`, `{{ a, b = 1, 2 }}`, `{{ v, ok := m["k"] }}`,
	`{{ x := 1; x | f: 2, 3 | raw }}`, `{{ not a && !b || c == nil }}`, `{{ a < b ? "x" : 'c' }}`, `{{ isset(a.b, c[1]) }}`, `text`, `{* comment *}`,
}

func genC20(r *h.Rand, tier string) []h.Case {
	n := 400
	if tier == "search" {
		n = 1500
	} else if tier != "quick" {
		n = 15000
	}
	var cs []h.Case
	for i := 0; i < n; i++ {
		var src string
		tags := []string{}
		if i%16 == 7 {
			// deep trees: long operator chains, else-if ladders, nested bodies, nested parentheses
			k := 40 + r.Intn(260)
			switch r.Intn(5) {
			case 0:
				src = "{{ v0"
				for j := 1; j < k; j++ {
					src += fmt.Sprintf(" + v%d", j)
				}
				src += " }}"
			case 1:
				src = "{{if c0}}b0"
				for j := 1; j < k; j++ {
					src += fmt.Sprintf("{{else if c%d}}b%d{{ x%d }}", j, j, j)
				}
				src += "{{else}}last{{end}}"
			case 2:
				for j := 0; j < k/2; j++ {
					src += fmt.Sprintf("{{if c%d}}{{range r%d}}", j, j)
				}
				src += "{{ leaf }}" + strings.Repeat("{{end}}{{end}}", k/2)
			case 3:
				src = "{{ " + strings.Repeat("(", k) + "x" + strings.Repeat(")", k) + " }}"
			default:
				src = "{{ f(" + strings.Repeat("g(", k) + "x, 1" + strings.Repeat(")", k) + ", 2) | h | h2: 3 }}"
			}
			cs = append(cs, h.Case{Stream: "walk", Meta: sx.L(sx.A("src"), sx.S(src)), Tags: []string{"deep"}, NonTrivial: true,
				Prep:   sx.L(sx.A("walk-prep")),
				Finish: func(tree *sx.Sexp) *sx.Sexp { return sx.L(sx.A("walk"), tree) }})
			continue
		}
		switch i % 4 {
		case 1:
			// structural near-misses (clause markers in every kind of body, missing / surplus ends):
			// whatever the parser accepts must be walkable
			src, _ = genStructural(r, delims{})
			src = strings.ReplaceAll(strings.ReplaceAll(src, `{{extends "/base.jet"}}`, ""), `{{import "/base.jet"}}`, "")
			tags = append(tags, "structural")
		case 0:
			k := 1 + r.Intn(4)
			for j := 0; j < k; j++ {
				src += r.Pick(c20Snippets)
			}
			tags = append(tags, "snippets")
		default:
			src = genTemplateSrc(r, delims{}, 3)
			src = strings.ReplaceAll(strings.ReplaceAll(src, `{{extends "/base.jet"}}`, ""), `{{import "/lib.jet"}}`, "")
			tags = append(tags, "grammar")
		}
		cs = append(cs, h.Case{Stream: "walk", Meta: sx.L(sx.A("src"), sx.S(src)), Tags: tags, NonTrivial: len(src) > 10,
			Prep: sx.L(sx.A("walk-prep")),
			Finish: func(tree *sx.Sexp) *sx.Sexp { return sx.L(sx.A("walk"), tree) }})
	}
	return cs
}

type treeBuilder struct {
	ids  map[interface{}]int
	kind map[int]string
	next int
}

var nodeIface = reflect.TypeOf((*jet.Node)(nil)).Elem()

func (b *treeBuilder) build(n jet.Node) *sx.Sexp {
	v := reflect.ValueOf(n)
	id := b.next
	b.next++
	b.ids[n] = id
	kind := v.Elem().Type().Name()
	b.kind[id] = kind
	out := sx.L(sx.A("n"), sx.I(int64(id)), sx.A(kind))
	b.slots(v.Elem(), out)
	return out
}

func (b *treeBuilder) nodeOf(v reflect.Value) (jet.Node, bool) {
	if (v.Kind() == reflect.Ptr || v.Kind() == reflect.Interface) && v.IsNil() {
		return nil, false
	}
	if v.Kind() == reflect.Interface {
		v = v.Elem()
	}
	if !v.CanInterface() {
		return nil, false
	}
	n, ok := v.Interface().(jet.Node)
	return n, ok
}

// slots mirrors factgen's flattening of node.go's struct declarations
func (b *treeBuilder) slots(s reflect.Value, out *sx.Sexp) {
	t := s.Type()
	for i := 0; i < t.NumField(); i++ {
		f := t.Field(i)
		fv := s.Field(i)
		if f.Anonymous {
			if f.Type.Name() == "NodeBase" {
				continue
			}
			if f.Type.Kind() == reflect.Struct {
				b.slots(fv, out)
			}
			continue
		}
		switch {
		case f.Type.Kind() == reflect.Interface && f.Type.Implements(nodeIface):
			if n, ok := b.nodeOf(fv); ok {
				out.Add(sx.L(b.build(n)))
			} else {
				out.Add(sx.A("nil"))
			}
		case f.Type.Kind() == reflect.Ptr && f.Type.Elem().Name() == "BlockParameterList":
			if fv.IsNil() {
				out.Add(sx.A("nil"))
			} else {
				l := sx.L()
				list := fv.Elem().FieldByName("List")
				for k := 0; k < list.Len(); k++ {
					if n, ok := b.nodeOf(list.Index(k).FieldByName("Expression")); ok {
						l.Add(b.build(n))
					}
				}
				out.Add(l)
			}
		case f.Type.Kind() == reflect.Ptr && f.Type.Elem().Name() == "catchNode":
			if fv.IsNil() {
				out.Add(sx.A("nil")).Add(sx.A("nil"))
			} else {
				for _, fn := range []string{"Err", "List"} {
					if n, ok := b.nodeOf(fv.Elem().FieldByName(fn)); ok {
						out.Add(sx.L(b.build(n)))
					} else {
						out.Add(sx.A("nil"))
					}
				}
			}
		case f.Type.Kind() == reflect.Ptr && strings.HasSuffix(f.Type.Elem().Name(), "Node"):
			if n, ok := b.nodeOf(fv); ok {
				out.Add(sx.L(b.build(n)))
			} else {
				out.Add(sx.A("nil"))
			}
		case f.Type.Kind() == reflect.Slice && (f.Type.Elem().Implements(nodeIface)):
			l := sx.L()
			for k := 0; k < fv.Len(); k++ {
				if n, ok := b.nodeOf(fv.Index(k)); ok {
					l.Add(b.build(n))
				}
			}
			out.Add(l)
		}
	}
}

var c20state struct {
	tmpl *jet.Template
	b    *treeBuilder
}

func init() {
	h.RegisterProp(&h.Prop{ID: "C20", Gen: genC20})
	// parse with the real parser and hand the tree (built by reflection) to both sides
	h.RegisterImpl("walk-prep", func(cmd, meta *sx.Sexp) (*sx.Sexp, string) {
		set := jet.NewSet(jet.NewInMemLoader())
		t, err := set.Parse("/t.jet", string(meta.Xs[1].B))
		if err != nil {
			return sx.L(sx.A("n"), sx.I(0), sx.A("ParseError")), ""
		}
		b := &treeBuilder{ids: map[interface{}]int{}, kind: map[int]string{}}
		return b.build(t.Root), ""
	})
	h.RegisterImpl("walk", func(cmd, meta *sx.Sexp) (*sx.Sexp, string) {
		if cmd.Xs[1].Xs[2].A == "ParseError" {
			return sx.L(sx.A("parse-error")), ""
		}
		set := jet.NewSet(jet.NewInMemLoader())
		t, err := set.Parse("/t.jet", string(meta.Xs[1].B))
		if err != nil {
			return sx.L(sx.A("parse-error")), ""
		}
		b := &treeBuilder{ids: map[interface{}]int{}, kind: map[int]string{}}
		b.build(t.Root)
		var visited []int
		stray := 0
		budget := 200000
		var panicked interface{}
		func() {
			defer func() { panicked = recover() }()
			utils.Walk(t, utils.VisitorFunc(func(vc utils.VisitorContext, n jet.Node) {
				budget--
				if budget < 0 {
					panic("walk does not terminate (re-entry budget exhausted)")
				}
				id, ok := b.ids[n]
				if !ok {
					id = -1
					stray++
				} else {
					_ = n.Type() // what any visitor does with a node
				}
				visited = append(visited, id)
				vc.Visit(n)
			}))
		}()
		if panicked != nil {
			return sx.L(sx.L(sx.A("wf"), sx.Bool(true)), sx.L(sx.A("crash"))), "utils.Walk panicked: " + fmt.Sprint(panicked)
		}
		// direct oracle: every non-list node exactly once
		count := map[int]int{}
		out := sx.L(sx.A("ok"))
		for _, id := range visited {
			count[id]++
			if b.kind[id] != "ListNode" {
				out.Add(sx.I(int64(id)))
			}
		}
		fail := ""
		if stray > 0 {
			fail = fmt.Sprintf("the visitor was handed %d value(s) that are not nodes of the tree (a nil node, typically)", stray)
		}
		for id := 0; id < b.next; id++ {
			if b.kind[id] == "ListNode" {
				if count[id] > 1 && fail == "" {
					fail = fmt.Sprintf("list node %d visited %d times", id, count[id])
				}
				continue
			}
			if count[id] != 1 && fail == "" {
				fail = fmt.Sprintf("%s node (id %d) visited %d times (want exactly once)", b.kind[id], id, count[id])
			}
		}
		return sx.L(sx.L(sx.A("wf"), sx.Bool(true)), out), fail
	})
	// the model visits block-body list nodes too: compare non-list nodes only
	h.ModelNormalizers["walk"] = func(m *sx.Sexp) *sx.Sexp { return m }
}
