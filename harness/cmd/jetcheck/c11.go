package main

import (
	"bytes"
	"fmt"
	"io"
	"reflect"
	"strconv"
	"strings"
	"sync"
	"time"

	"github.com/CloudyKit/jet/v6"

	"jetverif/harness/h"
	"jetverif/harness/sx"
)

// C11.  Stream "concurrent" (direct oracle, run in a worker built with the Go race detector and
// GORACE=halt_on_error=1, so a detected race kills the worker and the case is a failing input):
// N goroutines issue random mixes of GetTemplate, Parse, Execute, AddGlobal, LookupGlobal and
// in-memory loader edits on ONE Set; every concurrent Execute must produce exactly one of the
// outputs the same call produces when run alone (one per admissible version of the edited template
// / global).

type raceT1 struct {
	A int
	B string
}
type raceT2 struct {
	raceT1
	C []int
	Z []int
	M map[string]int
}
type raceT3 struct {
	N    int
	Name string
	In   raceT2
}

func raceFiles(v int) map[string]string {
	edit := []string{"EDIT-one {{ 1 + 1 }}", "EDIT-two {{ 2 * 2 }} longer text", "E3"}[v%3]
	return map[string]string{
		"/base.jet":  `BASE[{{block body()}}d{{end}}|{{block side(w=1)}}s{{w}}{{end}}]`,
		"/page.jet":  `{{extends "/base.jet"}}{{import "/lib.jet"}}{{block body()}}page:{{.A}}:{{yield extra()}}{{end}}`,
		"/lib.jet":   `{{block extra()}}X{{ gfn(2) }}{{end}}{{block side(w=3)}}L{{w}}{{end}}`,
		"/inc.jet":   `I({{.}})`,
		// templates first loaded while others execute: every shape of extends / import / own blocks
		"/late0.jet": `{{extends "/base.jet"}}{{import "/lib.jet"}}`,
		"/late1.jet": `{{extends "/base.jet"}}{{import "/lib.jet"}}{{block body()}}late1{{end}}`,
		"/late2.jet": `{{extends "/page.jet"}}`,
		"/late3.jet": `{{import "/lib.jet"}}{{yield side()}}{{yield extra()}}`,
		"/late4.jet": `{{extends "/base.jet"}}{{import "/lib2.jet"}}{{import "/lib.jet"}}`,
		"/late5.jet": `{{extends "/late0.jet"}}{{block side(w=9)}}five{{w}}{{end}}`,
		"/lib2.jet":  `{{import "/lib.jet"}}{{block body()}}lib2-body{{end}}{{block side(w=4)}}M{{w}}{{end}}`,
		"/main.jet":  `{{range i, x := .C}}{{i}}={{x}};{{end}}{{include "/inc.jet" .B}}{{ .A + 1 }}{{ upper(.B) }}{{try}}{{ nope }}{{catch}}c{{end}}`,
		"/glob.jet":  `[{{ gv }}]{{ isset(gnew) }}`,
		"/edit.jet":  edit,
		"/deep.jet":  `{{ .In.A }}/{{ .In.B }}/{{ .Name }}/{{ len(.In.C) }}`,
		"/incl2.jet": `{{include "/edit.jet"}}|{{include "/inc.jet" 5}}`,
		// a function called by the template adds a global while the execution is running (and so may any
		// other goroutine): the execution goes on and sees it
		"/addg.jet":  `{{ addg("gfromfn") }}[{{ isset(gfromfn) }}]{{ addg("gv2") }}{{ gv2 }}`,
		"/keep.jet":  `{{w := "none"}}{{u := 0}}{{range k, v := .M}}{{if v == .A}}{{w = k}}{{u = v}}{{end}}{{end}}{{.A}}:[{{w}}={{u}}]{{include "/inc.jet" 1}}{{range k2, v2 := .M}}{{end}}{{range .C}}{{.}};{{end}}{{range .M}}{{end}}[{{w}}={{u}}]`,
		"/rng.jet":   `{{range .Z}}x{{else}}e{{end}}{{range i, x := .C}}{{range .C}}{{.}}{{end}};{{range .Z}}{{else}}{{range k, v := .M}}{{k}}{{v}}{{end}}{{end}}{{end}}{{range .M}}{{.}}{{else}}E{{end}}`,
	}
}

func raceData(name string) interface{} {
	switch name {
	case "/deep.jet":
		return raceT3{N: 3, Name: "n<", In: raceT2{raceT1: raceT1{A: 9, B: "b"}, C: []int{1, 2}}}
	default:
		return raceT2{raceT1: raceT1{A: 4, B: "x&y"}, C: []int{7, 8, 9}, M: map[string]int{"k": 1}}
	}
}

func atoi(s string) int { n, _ := strconv.Atoi(s); return n }

func newRaceSet(files map[string]string, dev bool) (*jet.Set, *jet.InMemLoader) {
	ld := jet.NewInMemLoader()
	for p, c := range files {
		ld.Set(p, c)
	}
	opts := []jet.Option{}
	if dev {
		opts = append(opts, jet.InDevelopmentMode())
	}
	set := jet.NewSet(ld, opts...)
	set.AddGlobal("gv", "g0")
	set.AddGlobalFunc("gfn", func(a jet.Arguments) reflect.Value { return reflect.ValueOf(a.Get(0).Float() * 2) })
	set.AddGlobalFunc("addg", func(a jet.Arguments) reflect.Value {
		set.AddGlobal(a.Get(0).String(), 1)
		return reflect.ValueOf("")
	})
	return set, ld
}

func renderAlone(set *jet.Set, name string) string {
	t, err := set.GetTemplate(name)
	if err != nil {
		return "LOADERR " + err.Error()
	}
	var buf bytes.Buffer
	if err := t.Execute(&buf, nil, raceData(name)); err != nil {
		return "ERR " + err.Error()
	}
	return buf.String()
}

func init() {
	// (concurrent seed goroutines ops dev)
	h.RegisterImpl("concurrent", func(cmd, _ *sx.Sexp) (*sx.Sexp, string) {
		seed := uint64(atoi(cmd.Xs[1].A))
		ng := atoi(cmd.Xs[2].A)
		nops := atoi(cmd.Xs[3].A)
		dev := cmd.Xs[4].A == "true"
		names := []string{"/addg.jet", "/page.jet", "/main.jet", "/glob.jet", "/edit.jet", "/deep.jet", "/incl2.jet", "/base.jet", "/rng.jet", "/rng.jet",
			"/late0.jet", "/late1.jet", "/late2.jet", "/late3.jet", "/late4.jet", "/late5.jet", "/base.jet", "/page.jet"}
		// serial expectations: every admissible version of the edited file and of the global
		allowed := map[string]map[string]bool{}
		for _, n := range names {
			allowed[n] = map[string]bool{}
		}
		for v := 0; v < 3; v++ {
			for g := 0; g < 3; g++ {
				set, _ := newRaceSet(raceFiles(v), false)
				set.AddGlobal("gv", fmt.Sprintf("g%d", g))
				for _, gn := range []bool{false, true} {
					if gn {
						set.AddGlobal("gnew", 1)
					}
					for _, n := range names {
						allowed[n][renderAlone(set, n)] = true
					}
				}
			}
		}
		set, ld := newRaceSet(raceFiles(0), dev)
		var wg sync.WaitGroup
		var mu sync.Mutex
		oracle := ""
		report := func(s string) {
			mu.Lock()
			if oracle == "" {
				oracle = s
			}
			mu.Unlock()
		}
		for gi := 0; gi < ng; gi++ {
			wg.Add(1)
			go func(gi int) {
				defer wg.Done()
				defer func() {
					if e := recover(); e != nil {
						report(fmt.Sprintf("goroutine %d panicked: %v", gi, e))
					}
				}()
				r := h.NewRand(seed*1000 + uint64(gi))
				own := 0
				for k := 0; k < nops; k++ {
					switch pickW(r, "exec", 10, "get", 3, "global", 2, "lookup", 2, "edit", 3, "parse", 1, "newtype", 1, "keep", 3, "ownglobal", 3) {
					case "keep":
						// a key and a value kept beyond their iteration, then more ranges over maps of the same Go
						// type - here and, at the same time, in the other goroutines, each with data of its own:
						// what was kept belongs to this execution
						a := 1 + r.Intn(1000)
						data := raceT2{raceT1: raceT1{A: a, B: "x"}, C: []int{1, 2}, M: map[string]int{fmt.Sprintf("a%d", a): a, fmt.Sprintf("b%d", a): -a, "c": 0}}
						t, err := set.GetTemplate("/keep.jet")
						if err != nil {
							report("concurrent GetTemplate failed: " + err.Error())
							break
						}
						var buf bytes.Buffer
						want := fmt.Sprintf("%d:[a%d=%d]I(1)1;2;[a%d=%d]", a, a, a, a, a)
						if err := t.Execute(&buf, nil, data); err != nil || buf.String() != want {
							report(fmt.Sprintf("Execute of /keep.jet over %v produced %q, %v; want %q", data.M, clipS(buf.String()), err, want))
						}
					case "exec":
						n := names[r.Intn(len(names))]
						got := renderAlone(set, n)
						if !allowed[n][got] {
							report(fmt.Sprintf("concurrent Execute of %s produced %q, which it never produces when run alone", n, clipS(got)))
						}
					case "get":
						if _, err := set.GetTemplate(names[r.Intn(len(names))]); err != nil {
							report("concurrent GetTemplate failed: " + err.Error())
						}
					case "ownglobal":
						// a global only this goroutine writes: what AddGlobal stored is there once it has returned,
						// whatever the other goroutines add at the same time
						own++
						key := fmt.Sprintf("own%d", gi)
						set.AddGlobal(key, own)
						if v, ok := set.LookupGlobal(key); !ok || fmt.Sprint(v) != fmt.Sprint(own) {
							report(fmt.Sprintf("AddGlobal(%s, %d) returned, LookupGlobal gives %v, %v", key, own, v, ok))
						}
						if t, err := set.Parse("/own.jet", "{{ "+key+" }}"); err == nil {
							var buf bytes.Buffer
							if err := t.Execute(&buf, nil, nil); err != nil || buf.String() != fmt.Sprint(own) {
								report(fmt.Sprintf("after AddGlobal(%s, %d) returned, {{ %s }} renders %q, %v", key, own, key, buf.String(), err))
							}
						}
					case "global":
						if r.Chance(30) {
							set.AddGlobal("gnew", 1)
						} else {
							set.AddGlobal("gv", fmt.Sprintf("g%d", r.Intn(3)))
						}
					case "lookup":
						if v, ok := set.LookupGlobal("gv"); !ok || !strings.HasPrefix(fmt.Sprint(v), "g") {
							report(fmt.Sprintf("LookupGlobal(gv) = %v, %v", v, ok))
						}
					case "edit":
						ld.Set("/edit.jet", raceFiles(r.Intn(3))["/edit.jet"])
					case "parse":
						if t, err := set.Parse("/adhoc.jet", `{{ .A }}{{include "/inc.jet" 1}}`); err != nil {
							report("concurrent Parse failed: " + err.Error())
						} else {
							var buf bytes.Buffer
							if err := t.Execute(&buf, nil, raceData("")); err != nil || buf.String() != "4I(1)" {
								report(fmt.Sprintf("concurrently parsed template renders %q, %v", buf.String(), err))
							}
						}
					case "newtype":
						// a struct type the field cache has not seen: population races
						type fresh struct{ raceT2 }
						t, err := set.GetTemplate("/main.jet")
						if err == nil {
							var buf bytes.Buffer
							t.Execute(&buf, nil, fresh{raceT2{raceT1: raceT1{A: 4, B: "x&y"}, C: []int{7, 8, 9}}})
							if !allowed["/main.jet"][buf.String()] {
								report(fmt.Sprintf("Execute over a fresh struct type produced %q", clipS(buf.String())))
							}
						}
					}
				}
			}(gi)
		}
		wg.Wait()
		return sx.L(sx.A("done")), oracle
	})
	// (firstload seed goroutines): templates that refer to each other - also in a cycle, which is an error - are
	// asked for, for the FIRST time, by several goroutines at once and from different ends; a loader wrapper makes
	// the first readers of two files meet (a legal schedule, pinned).  Every call returns, and returns what the
	// same call returns on a fresh Set when run alone (the rendered output, or "an error").
	h.RegisterImpl("firstload", func(cmd, _ *sx.Sexp) (*sx.Sexp, string) {
		seed := uint64(atoi(cmd.Xs[1].A))
		ng := atoi(cmd.Xs[2].A)
		files := map[string]string{
			"/cyA.jet": `{{import "/cyB.jet"}}A{{yield bb()}}{{block ba()}}a{{end}}`,
			"/cyB.jet": `{{import "/cyA.jet"}}B{{yield ba()}}{{block bb()}}b{{end}}`,
			"/cx1.jet": `{{extends "/cx2.jet"}}`, "/cx2.jet": `{{extends "/cx3.jet"}}`, "/cx3.jet": `{{extends "/cx1.jet"}}`,
			"/dl.jet": `{{block shared()}}S{{end}}`, "/d1.jet": `{{import "/dl.jet"}}1{{yield shared()}}`, "/d2.jet": `{{import "/dl.jet"}}2{{yield shared()}}{{include "/d1.jet"}}`,
			"/top.jet": `{{include "/d1.jet"}}{{include "/d2.jet"}}{{try}}{{include "/cyA.jet"}}{{catch}}cycle{{end}}`,
		}
		names := []string{"/cyA.jet", "/cyB.jet", "/cx1.jet", "/cx2.jet", "/cx3.jet", "/d1.jet", "/d2.jet", "/top.jet", "/dl.jet"}
		result := func(set *jet.Set, n string) string {
			t, err := set.GetTemplate(n)
			if err != nil {
				return "error"
			}
			var buf bytes.Buffer
			if err := t.Execute(&buf, nil, nil); err != nil {
				return "exec-error " + buf.String()
			}
			return "ok " + buf.String()
		}
		alone := map[string]string{}
		for _, n := range names {
			set, _ := newRaceSet(files, false)
			alone[n] = result(set, n)
		}
		r := h.NewRand(seed)
		_, ld := newRaceSet(files, false)
		meet := &meetLoader{Loader: ld, want: map[string]bool{}, arrived: make(chan struct{})}
		pair := [][2]string{{"/cyA.jet", "/cyB.jet"}, {"/cx1.jet", "/cx3.jet"}, {"/d1.jet", "/dl.jet"}, {"/cx2.jet", "/cx1.jet"}}[r.Intn(4)]
		meet.want[pair[0]], meet.want[pair[1]] = true, true
		set := jet.NewSet(meet)
		type res struct{ gi int; n, got string }
		out := make(chan res, ng*2)
		for gi := 0; gi < ng; gi++ {
			n := names[r.Intn(len(names))]
			if gi < 2 {
				n = pair[gi] // two goroutines enter from the two ends
			}
			go func(gi int, n string) {
				defer func() {
					if e := recover(); e != nil {
						out <- res{gi, n, fmt.Sprintf("panic %v", e)}
					}
				}()
				out <- res{gi, n, result(set, n)}
			}(gi, n)
		}
		oracle := ""
		deadline := time.After(4 * time.Second)
		for k := 0; k < ng; k++ {
			select {
			case x := <-out:
				if x.got != alone[x.n] && oracle == "" {
					oracle = fmt.Sprintf("concurrent first load of %s gave %q, alone it gives %q (first readers of %s and %s met)", x.n, clipS(x.got), clipS(alone[x.n]), pair[0], pair[1])
				}
			case <-deadline:
				if oracle == "" {
					oracle = fmt.Sprintf("%d of %d concurrent first loads did not return within 4s (first readers of %s and %s met): deadlock", ng-k, ng, pair[0], pair[1])
				}
				return sx.L(sx.A("done")), oracle
			}
		}
		return sx.L(sx.A("done")), oracle
	})
	h.RegisterProp(&h.Prop{ID: "C11", Gen: func(r *h.Rand, tier string) []h.Case {
		n := 40
		if tier == "search" {
			n = 120
		} else if tier != "quick" {
			n = 600
		}
		var cs []h.Case
		for i := 0; i < n; i++ {
			cs = append(cs, h.Case{Stream: "concurrent", NoModel: true, NonTrivial: true,
				Tags: []string{map[bool]string{true: "dev-mode", false: "cached"}[i%2 == 0]},
				Cmd: sx.L(sx.A("concurrent"), sx.I(int64(r.Intn(1<<30))), sx.I(int64(4+r.Intn(6))), sx.I(int64(40+r.Intn(80))), sx.Bool(i%2 == 0))})
		}
		for i := 0; i < n/4; i++ {
			cs = append(cs, h.Case{Stream: "firstload", NoModel: true, NonTrivial: true, Tags: []string{"first-load"},
				Cmd: sx.L(sx.A("firstload"), sx.I(int64(r.Intn(1<<30))), sx.I(int64(2+r.Intn(5))))})
		}
		return cs
	}})
}

// meetLoader makes the first readers of two files wait for each other (for at most 300ms)
type meetLoader struct {
	jet.Loader
	mu      sync.Mutex
	want    map[string]bool
	seen    int
	arrived chan struct{}
}

func (m *meetLoader) Open(name string) (io.ReadCloser, error) {
	m.mu.Lock()
	first := m.want[name]
	if first {
		delete(m.want, name)
		m.seen++
		if m.seen == 2 {
			close(m.arrived)
		}
	}
	m.mu.Unlock()
	if first {
		select {
		case <-m.arrived:
		case <-time.After(300 * time.Millisecond):
		}
	}
	return m.Loader.Open(name)
}
