package main

import (
	"bytes"
	"os"
	"path"
	"path/filepath"
	"strconv"
	"strings"

	"github.com/CloudyKit/jet/v6"

	"jetverif/harness/h"
	"jetverif/harness/sx"
)

var pathSegs = []string{"", "", ".", ".", "..", "..", "a", "b", "dir", "x.jet", "..a", "...", "é", " ", "a.b", "\\", "c\\d"}

func genName(r *h.Rand) string {
	n := r.Intn(6)
	var segs []string
	for i := 0; i < n; i++ {
		segs = append(segs, r.Pick(pathSegs))
	}
	s := strings.Join(segs, "/")
	switch r.Intn(6) {
	case 0, 1:
		s = "/" + s
	case 2:
		s = "//" + s
	}
	if r.Chance(15) {
		s += "/"
	}
	return s
}

// a canonical sibling (template name): clean absolute path + ordinary file name
func genSibling(r *h.Rand) string {
	d := r.Intn(5)
	s := ""
	for i := 0; i < d; i++ {
		s += "/" + r.Pick([]string{"a", "b", "dir", "é", "x.y"})
	}
	return s + "/" + r.Pick([]string{"t.jet", "page", "t.html.jet"})
}

func hasDotty(s string) bool {
	return strings.Contains(s, "..") || strings.Contains(s, "//") || strings.Contains(s, "/./")
}

func genC15(r *h.Rand, tier string) []h.Case {
	n := 1500
	if tier != "quick" {
		n = 60000
	}
	var cs []h.Case
	for i := 0; i < n; i++ {
		name := genName(r)
		nt := hasDotty(name)
		switch i % 8 {
		case 0:
			cs = append(cs, h.Case{Stream: "path-stdlib", Cmd: sx.L(sx.A("path-clean"), sx.S(name)), NonTrivial: nt, Tags: []string{"clean"}})
		case 1:
			a := genName(r)
			cs = append(cs, h.Case{Stream: "path-stdlib", Cmd: sx.L(sx.A("path-join"), sx.S(a), sx.S(name)), NonTrivial: nt, Tags: []string{"join"}})
		case 2:
			cs = append(cs, h.Case{Stream: "path-stdlib", Cmd: sx.L(sx.A("path-dir"), sx.S(name)), NonTrivial: nt, Tags: []string{"dir"}})
			cs = append(cs, h.Case{Stream: "path-stdlib", Cmd: sx.L(sx.A("path-base"), sx.S(name)), NonTrivial: nt, Tags: []string{"base"}})
		case 3:
			cs = append(cs, h.Case{Stream: "parse-name", Cmd: sx.L(sx.A("parsename"), sx.S(name)), NonTrivial: nt, Tags: []string{"parsename"}})
		case 4:
			cs = append(cs, h.Case{Stream: "resolve", Cmd: sx.L(sx.A("resolve"), sx.S(name), sx.S("/")), Meta: sx.L(sx.A("gettemplate")), NonTrivial: nt, Tags: []string{"gettemplate"}})
		default:
			via := r.Pick([]string{"extends", "import", "include", "include-computed", "exec", "includeIfExists"})
			sib := genSibling(r)
			if via == "exec" || via == "includeIfExists" {
				// these resolve against the root, as GetTemplate does
				cs = append(cs, h.Case{Stream: "resolve", Cmd: sx.L(sx.A("resolve"), sx.S(name), sx.S("/")), Meta: sx.L(sx.A(via), sx.S(sib)), NonTrivial: nt, Tags: []string{via}})
			} else {
				cs = append(cs, h.Case{Stream: "resolve", Cmd: sx.L(sx.A("resolve"), sx.S(name), sx.S(sib)), Meta: sx.L(sx.A(via)), NonTrivial: nt, Tags: []string{via}})
			}
		}
		if i%10 == 3 {
			// several lookups on one Set; among them pairs whose directory and name concatenate to the same
			// string although they are different templates ("/blog" + "post.jet" and "/" + "blogpost.jet")
			cmd := sx.L(sx.A("resolve-seq"), sx.Bool(r.Chance(40)))
			k := 2 + r.Intn(4)
			w1, w2 := r.Pick([]string{"blog", "a", "dir", "é"}), r.Pick([]string{"post.jet", "b.jet", "x", "b"})
			usedSib := map[string]bool{}
			for j := 0; j < k; j++ {
				var nm, sib string
				via := r.Pick([]string{"include", "extends", "import", "include-computed", "gettemplate"})
				switch r.Intn(4) {
				case 0:
					nm, sib = w2, "/"+w1+"/h"+strconv.Itoa(j)+".jet"
				case 1:
					nm, sib = w1+w2, "/g"+strconv.Itoa(j)+".jet"
				case 2:
					nm, sib = w1+"/"+w2, "/g"+strconv.Itoa(j)+".jet"
				default:
					nm, sib = genName(r), genSibling(r)
				}
				if via == "gettemplate" {
					sib = "/"
				} else if usedSib[sib] {
					// a referring template is written once per history: outside development mode the Set
					// would serve its first body from the cache, and the second name would never be looked up
					continue
				}
				usedSib[sib] = true
				cmd.Add(sx.L(sx.S(nm), sx.S(sib), sx.A(via)))
			}
			cs = append(cs, h.Case{Stream: "resolve-history", Cmd: cmd, NonTrivial: true, Tags: []string{"history"}})
		}
		if i%16 == 7 {
			cs = append(cs, h.Case{Stream: "os-root", Cmd: sx.L(sx.A("osload"), sx.S(name)), NoModel: true, NonTrivial: nt, Tags: []string{"osload"}})
		}
	}
	return cs
}


// resolveOnce looks `name` up through `via` from the referring template `sib` (or the root) on the
// given Set and returns the first path the loader was asked for on behalf of the name.
func resolveOnce(set *jet.Set, ld *recLoader, name, sib, via, rootHost string) (string, string) {
	host := sib
	var err error
	q := strconv.Quote(name)
	switch via {
	case "gettemplate":
		_, err = set.GetTemplate(name)
	case "extends", "import":
		ld.files[host] = "{{" + via + " " + q + "}}"
		_, err = set.GetTemplate(host)
	case "include", "include-computed", "exec", "includeIfExists":
		if via == "exec" || via == "includeIfExists" {
			host = rootHost
		}
		switch via {
		case "include":
			ld.files[host] = "{{include " + q + "}}"
		case "include-computed":
			ld.files[host] = "{{include n}}"
		case "exec":
			ld.files[host] = "{{exec(n)}}"
		case "includeIfExists":
			ld.files[host] = "{{includeIfExists(n)}}"
		}
		var t *jet.Template
		t, err = set.GetTemplate(host)
		if err == nil {
			ld.take()
			vars := jet.VarMap{}
			vars.Set("n", name)
			err = t.Execute(&bytes.Buffer{}, vars, nil)
		}
	}
	_ = err
	log := ld.take()
	// skip the host's own lookup (paths equal to host)
	first := ""
	fail := ""
	for _, e := range log {
		p := e[2:]
		if via != "gettemplate" && (via == "extends" || via == "import") && strings.HasPrefix(p, host) && first == "" && e[0] == 'E' && p == host {
			continue
		}
		if via != "gettemplate" && p == host && e[0] == 'O' {
			continue
		}
		if first == "" && e[0] == 'E' {
			first = p
		}
		// direct oracle: everything the loader sees is canonical up to a configured extension
		base := p
		for _, ext := range []string{".html.jet", ".jet.html", ".jet"} {
			if strings.HasSuffix(base, ext) && !isCanonGo(base) {
				base = strings.TrimSuffix(base, ext)
				break
			}
		}
		if !isCanonGo(base) && !isCanonGo(p) && fail == "" {
			fail = "loader was handed non-canonical path " + strconv.Quote(p) + " for name " + q + " via " + via
		}
	}
	return first, fail
}

func init() {
	h.RegisterProp(&h.Prop{ID: "C15", Gen: genC15})
	// a lookup the Set answered from its cache shows no loader request: the model's path stands for it
	h.PairNormalizers["resolve-seq"] = func(impl, model string) (string, string) {
		ix, e1 := sx.Parse(impl)
		mx, e2 := sx.Parse(model)
		if e1 != nil || e2 != nil || ix.K != sx.List || mx.K != sx.List || len(ix.Xs) != len(mx.Xs) {
			return impl, model
		}
		for i := range ix.Xs {
			if ix.Xs[i].K == sx.Atom && ix.Xs[i].A == "cached" {
				seen := false
				for j := 0; j < i; j++ {
					if mx.Xs[j].String() == mx.Xs[i].String() {
						seen = true
					}
				}
				if seen {
					mx.Xs[i] = sx.A("cached")
				}
			}
		}
		return ix.String(), mx.String()
	}
	h.RegisterImpl("path-clean", func(cmd, _ *sx.Sexp) (*sx.Sexp, string) {
		return sx.S(path.Clean(string(bytesArg(cmd, 1)))), ""
	})
	h.RegisterImpl("path-join", func(cmd, _ *sx.Sexp) (*sx.Sexp, string) {
		var es []string
		for _, x := range cmd.Xs[1:] {
			es = append(es, string(x.B))
		}
		return sx.S(path.Join(es...)), ""
	})
	h.RegisterImpl("path-dir", func(cmd, _ *sx.Sexp) (*sx.Sexp, string) {
		return sx.S(path.Dir(string(bytesArg(cmd, 1)))), ""
	})
	h.RegisterImpl("path-base", func(cmd, _ *sx.Sexp) (*sx.Sexp, string) {
		return sx.S(path.Base(string(bytesArg(cmd, 1)))), ""
	})
	h.RegisterImpl("parsename", func(cmd, _ *sx.Sexp) (*sx.Sexp, string) {
		set := jet.NewSet(newRecLoader())
		t, err := set.Parse(string(bytesArg(cmd, 1)), "x")
		if err != nil {
			return sx.A("none"), ""
		}
		fail := ""
		if !isCanonGo(t.Name) {
			fail = "Parse produced a non-canonical template name " + strconv.Quote(t.Name)
		}
		return sx.S(t.Name), fail
	})
	// (resolve name sib) with meta (via [sibForRootVia]): observe the first path requested
	// for the referenced name through the real Set.
	h.RegisterImpl("resolve", func(cmd, meta *sx.Sexp) (*sx.Sexp, string) {
		name := string(bytesArg(cmd, 1))
		sib := string(bytesArg(cmd, 2))
		via := atomArg(meta, 0)
		ld := newRecLoader()
		set := jet.NewSet(ld)
		first, fail := resolveOnce(set, ld, name, sib, via, string(bytesArg(meta, 1)))
		if first == "" {
			return sx.A("no-request"), fail
		}
		return sx.S(first), fail
	})
	// (resolve-seq dev (name sib via)...): the same lookups one after the other on ONE Set - what an
	// earlier lookup resolved to has no influence on a later one
	h.RegisterImpl("resolve-seq", func(cmd, _ *sx.Sexp) (*sx.Sexp, string) {
		ld := newRecLoader()
		var set *jet.Set
		if cmd.Xs[1].A == "true" {
			set = jet.NewSet(ld, jet.InDevelopmentMode())
		} else {
			set = jet.NewSet(ld)
		}
		// some of the targets exist (and get cached outside development mode)
		for _, p := range []string{"/blogpost.jet", "/blog/post.jet", "/ab.jet", "/a/b.jet"} {
			ld.files[p] = "target " + p
		}
		out := sx.L()
		fail := ""
		asked := map[string]bool{}
		for _, st := range cmd.Xs[2:] {
			ld.take()
			name, sib := string(st.Xs[0].B), string(st.Xs[1].B)
			first, f := resolveOnce(set, ld, name, sib, st.Xs[2].A, "/h.jet")
			if f != "" && fail == "" {
				fail = f
			}
			// the rule of the property, independent of the model: absolute names are cleaned, relative ones
			// resolve against the directory of the referring template
			want := path.Clean(name)
			if !path.IsAbs(name) {
				want = path.Join(path.Dir(sib), name)
			}
			switch {
			case first == "" && asked[want]:
				out.Add(sx.A("cached")) // looked up before on this Set: may be answered from the cache
			case first == "":
				out.Add(sx.A("no-request"))
				if fail == "" {
					fail = "the loader was never asked for " + strconv.Quote(want) + " (name " + strconv.Quote(name) + " referred to from " + sib + ")"
				}
			default:
				out.Add(sx.S(first))
				if first != want && fail == "" {
					fail = "name " + strconv.Quote(name) + " referred to from " + sib + " was looked up as " + strconv.Quote(first) + ", it resolves to " + strconv.Quote(want)
				}
			}
			asked[want] = true
		}
		return out, fail
	})
	h.RegisterImpl("osload", func(cmd, _ *sx.Sexp) (*sx.Sexp, string) {
		name := string(bytesArg(cmd, 1))
		root := filepath.Join(scratch(), "c15", "root", "sub")
		if _, err := os.Stat(root); err != nil {
			os.MkdirAll(root, 0o755)
			os.WriteFile(filepath.Join(scratch(), "c15", "secret.jet"), []byte("SECRET-OUTSIDE"), 0o644)
			os.WriteFile(filepath.Join(scratch(), "c15", "root", "secret2.jet"), []byte("SECRET-OUTSIDE"), 0o644)
			os.WriteFile(filepath.Join(root, "a"), []byte("inside-a"), 0o644)
			os.WriteFile(filepath.Join(root, "x.jet"), []byte("inside-x"), 0o644)
		}
		set := jet.NewSet(jet.NewOSFileSystemLoader(root))
		t, err := set.GetTemplate(name)
		if err != nil {
			return sx.A("err"), ""
		}
		var b bytes.Buffer
		if err := t.Execute(&b, nil, nil); err != nil {
			return sx.A("exec-err"), ""
		}
		if strings.Contains(b.String(), "SECRET-OUTSIDE") {
			return sx.L(sx.A("ok"), sx.B(b.Bytes())), "OS loader rooted at <root> served a file outside its directory for name " + strconv.Quote(name)
		}
		return sx.L(sx.A("ok"), sx.B(b.Bytes())), ""
	})
}
