package main

import (
	"bytes"
	"os"
	"path"
	"path/filepath"
	"strconv"
	"strings"

	"github.com/CloudyKit/jet/v6"

	"jetverif/harness/h"
	"jetverif/harness/sx"
)

var pathSegs = []string{"", "", ".", ".", "..", "..", "a", "b", "dir", "x.jet", "..a", "...", "é", " ", "a.b", "\\", "c\\d"}

func genName(r *h.Rand) string {
	n := r.Intn(6)
	var segs []string
	for i := 0; i < n; i++ {
		segs = append(segs, r.Pick(pathSegs))
	}
	s := strings.Join(segs, "/")
	switch r.Intn(6) {
	case 0, 1:
		s = "/" + s
	case 2:
		s = "//" + s
	}
	if r.Chance(15) {
		s += "/"
	}
	return s
}

// a canonical sibling (template name): clean absolute path + ordinary file name
func genSibling(r *h.Rand) string {
	d := r.Intn(5)
	s := ""
	for i := 0; i < d; i++ {
		s += "/" + r.Pick([]string{"a", "b", "dir", "é", "x.y"})
	}
	return s + "/" + r.Pick([]string{"t.jet", "page", "t.html.jet"})
}

func hasDotty(s string) bool {
	return strings.Contains(s, "..") || strings.Contains(s, "//") || strings.Contains(s, "/./")
}

func genC15(r *h.Rand, tier string) []h.Case {
	n := 1500
	if tier != "quick" {
		n = 60000
	}
	var cs []h.Case
	for i := 0; i < n; i++ {
		name := genName(r)
		nt := hasDotty(name)
		switch i % 8 {
		case 0:
			cs = append(cs, h.Case{Stream: "path-stdlib", Cmd: sx.L(sx.A("path-clean"), sx.S(name)), NonTrivial: nt, Tags: []string{"clean"}})
		case 1:
			a := genName(r)
			cs = append(cs, h.Case{Stream: "path-stdlib", Cmd: sx.L(sx.A("path-join"), sx.S(a), sx.S(name)), NonTrivial: nt, Tags: []string{"join"}})
		case 2:
			cs = append(cs, h.Case{Stream: "path-stdlib", Cmd: sx.L(sx.A("path-dir"), sx.S(name)), NonTrivial: nt, Tags: []string{"dir"}})
			cs = append(cs, h.Case{Stream: "path-stdlib", Cmd: sx.L(sx.A("path-base"), sx.S(name)), NonTrivial: nt, Tags: []string{"base"}})
		case 3:
			cs = append(cs, h.Case{Stream: "parse-name", Cmd: sx.L(sx.A("parsename"), sx.S(name)), NonTrivial: nt, Tags: []string{"parsename"}})
		case 4:
			cs = append(cs, h.Case{Stream: "resolve", Cmd: sx.L(sx.A("resolve"), sx.S(name), sx.S("/")), Meta: sx.L(sx.A("gettemplate")), NonTrivial: nt, Tags: []string{"gettemplate"}})
		default:
			via := r.Pick([]string{"extends", "import", "include", "include-computed", "exec", "includeIfExists"})
			sib := genSibling(r)
			if via == "exec" || via == "includeIfExists" {
				// these resolve against the root, as GetTemplate does
				cs = append(cs, h.Case{Stream: "resolve", Cmd: sx.L(sx.A("resolve"), sx.S(name), sx.S("/")), Meta: sx.L(sx.A(via), sx.S(sib)), NonTrivial: nt, Tags: []string{via}})
			} else {
				cs = append(cs, h.Case{Stream: "resolve", Cmd: sx.L(sx.A("resolve"), sx.S(name), sx.S(sib)), Meta: sx.L(sx.A(via)), NonTrivial: nt, Tags: []string{via}})
			}
		}
		if i%16 == 7 {
			cs = append(cs, h.Case{Stream: "os-root", Cmd: sx.L(sx.A("osload"), sx.S(name)), NoModel: true, NonTrivial: nt, Tags: []string{"osload"}})
		}
	}
	return cs
}

func init() {
	h.RegisterProp(&h.Prop{ID: "C15", Gen: genC15})
	h.RegisterImpl("path-clean", func(cmd, _ *sx.Sexp) (*sx.Sexp, string) {
		return sx.S(path.Clean(string(bytesArg(cmd, 1)))), ""
	})
	h.RegisterImpl("path-join", func(cmd, _ *sx.Sexp) (*sx.Sexp, string) {
		var es []string
		for _, x := range cmd.Xs[1:] {
			es = append(es, string(x.B))
		}
		return sx.S(path.Join(es...)), ""
	})
	h.RegisterImpl("path-dir", func(cmd, _ *sx.Sexp) (*sx.Sexp, string) {
		return sx.S(path.Dir(string(bytesArg(cmd, 1)))), ""
	})
	h.RegisterImpl("path-base", func(cmd, _ *sx.Sexp) (*sx.Sexp, string) {
		return sx.S(path.Base(string(bytesArg(cmd, 1)))), ""
	})
	h.RegisterImpl("parsename", func(cmd, _ *sx.Sexp) (*sx.Sexp, string) {
		set := jet.NewSet(newRecLoader())
		t, err := set.Parse(string(bytesArg(cmd, 1)), "x")
		if err != nil {
			return sx.A("none"), ""
		}
		fail := ""
		if !isCanonGo(t.Name) {
			fail = "Parse produced a non-canonical template name " + strconv.Quote(t.Name)
		}
		return sx.S(t.Name), fail
	})
	// (resolve name sib) with meta (via [sibForRootVia]): observe the first path requested
	// for the referenced name through the real Set.
	h.RegisterImpl("resolve", func(cmd, meta *sx.Sexp) (*sx.Sexp, string) {
		name := string(bytesArg(cmd, 1))
		sib := string(bytesArg(cmd, 2))
		via := atomArg(meta, 0)
		ld := newRecLoader()
		set := jet.NewSet(ld)
		host := sib
		var err error
		q := strconv.Quote(name)
		switch via {
		case "gettemplate":
			_, err = set.GetTemplate(name)
		case "extends", "import":
			ld.files[host] = "{{" + via + " " + q + "}}"
			_, err = set.GetTemplate(host)
		case "include", "include-computed", "exec", "includeIfExists":
			if via == "exec" || via == "includeIfExists" {
				host = string(bytesArg(meta, 1))
			}
			switch via {
			case "include":
				ld.files[host] = "{{include " + q + "}}"
			case "include-computed":
				ld.files[host] = "{{include n}}"
			case "exec":
				ld.files[host] = "{{exec(n)}}"
			case "includeIfExists":
				ld.files[host] = "{{includeIfExists(n)}}"
			}
			var t *jet.Template
			t, err = set.GetTemplate(host)
			if err == nil {
				ld.take()
				vars := jet.VarMap{}
				vars.Set("n", name)
				err = t.Execute(&bytes.Buffer{}, vars, nil)
			}
		}
		_ = err
		log := ld.take()
		// skip the host's own lookup (paths equal to host)
		first := ""
		fail := ""
		for _, e := range log {
			p := e[2:]
			if via != "gettemplate" && (via == "extends" || via == "import") && strings.HasPrefix(p, host) && first == "" && e[0] == 'E' && p == host {
				continue
			}
			if via != "gettemplate" && p == host && e[0] == 'O' {
				continue
			}
			if first == "" && e[0] == 'E' {
				first = p
			}
			// direct oracle: everything the loader sees is canonical up to a configured extension
			base := p
			for _, ext := range []string{".html.jet", ".jet.html", ".jet"} {
				if strings.HasSuffix(base, ext) && !isCanonGo(base) {
					base = strings.TrimSuffix(base, ext)
					break
				}
			}
			if !isCanonGo(base) && !isCanonGo(p) && fail == "" {
				fail = "loader was handed non-canonical path " + strconv.Quote(p) + " for name " + q + " via " + via
			}
		}
		if first == "" {
			return sx.A("no-request"), fail
		}
		return sx.S(first), fail
	})
	h.RegisterImpl("osload", func(cmd, _ *sx.Sexp) (*sx.Sexp, string) {
		name := string(bytesArg(cmd, 1))
		root := filepath.Join(scratch(), "c15", "root", "sub")
		if _, err := os.Stat(root); err != nil {
			os.MkdirAll(root, 0o755)
			os.WriteFile(filepath.Join(scratch(), "c15", "secret.jet"), []byte("SECRET-OUTSIDE"), 0o644)
			os.WriteFile(filepath.Join(scratch(), "c15", "root", "secret2.jet"), []byte("SECRET-OUTSIDE"), 0o644)
			os.WriteFile(filepath.Join(root, "a"), []byte("inside-a"), 0o644)
			os.WriteFile(filepath.Join(root, "x.jet"), []byte("inside-x"), 0o644)
		}
		set := jet.NewSet(jet.NewOSFileSystemLoader(root))
		t, err := set.GetTemplate(name)
		if err != nil {
			return sx.A("err"), ""
		}
		var b bytes.Buffer
		if err := t.Execute(&b, nil, nil); err != nil {
			return sx.A("exec-err"), ""
		}
		if strings.Contains(b.String(), "SECRET-OUTSIDE") {
			return sx.L(sx.A("ok"), sx.B(b.Bytes())), "OS loader rooted at <root> served a file outside its directory for name " + strconv.Quote(name)
		}
		return sx.L(sx.A("ok"), sx.B(b.Bytes())), ""
	})
}
