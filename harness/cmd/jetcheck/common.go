package main

import (
	"bytes"
	"fmt"
	"io"
	"io/ioutil"
	"os"
	"path/filepath"
	"strings"
	"sync"

	"jetverif/harness/h"
	"jetverif/harness/sx"
)

// recLoader: an in-memory loader that records every path handed to it.
type recLoader struct {
	mu    sync.Mutex
	files map[string]string
	fault map[string]string // path -> "open" | "read"
	log   []string          // "E:<path>" / "O:<path>"
}

func newRecLoader() *recLoader { return &recLoader{files: map[string]string{}, fault: map[string]string{}} }

func (l *recLoader) Exists(p string) bool {
	l.mu.Lock()
	defer l.mu.Unlock()
	l.log = append(l.log, "E:"+p)
	_, ok := l.files[p]
	return ok
}

type failReader struct{}

func (failReader) Read([]byte) (int, error) { return 0, fmt.Errorf("injected read fault") }
func (failReader) Close() error             { return nil }

func (l *recLoader) Open(p string) (io.ReadCloser, error) {
	l.mu.Lock()
	defer l.mu.Unlock()
	l.log = append(l.log, "O:"+p)
	c, ok := l.files[p]
	if !ok {
		return nil, fmt.Errorf("%s does not exist", p)
	}
	switch l.fault[p] {
	case "open":
		return nil, fmt.Errorf("injected open fault")
	case "read":
		return failReader{}, nil
	}
	return ioutil.NopCloser(bytes.NewReader([]byte(c))), nil
}

func (l *recLoader) take() []string {
	l.mu.Lock()
	defer l.mu.Unlock()
	r := l.log
	l.log = nil
	return r
}

func bytesArg(x *sx.Sexp, i int) []byte {
	if x.K == sx.List && i < len(x.Xs) && x.Xs[i].K == sx.Bytes {
		return x.Xs[i].B
	}
	return nil
}

func atomArg(x *sx.Sexp, i int) string {
	if x.K == sx.List && i < len(x.Xs) && x.Xs[i].K == sx.Atom {
		return x.Xs[i].A
	}
	return ""
}

var scratchDir string

// scratch returns a per-worker scratch directory outside /repo and /verif.
func scratch() string {
	if scratchDir == "" {
		d, err := os.MkdirTemp("", "jetverif-w-")
		if err != nil {
			panic(err)
		}
		scratchDir = d
	}
	return scratchDir
}

func cleanupScratch() {
	m, _ := filepath.Glob(filepath.Join(os.TempDir(), "jetverif-w-*"))
	for _, d := range m {
		os.RemoveAll(d)
	}
}

func pickW(r *h.Rand, weighted ...interface{}) string {
	// pickW(r, "a", 3, "b", 1)
	total := 0
	for i := 1; i < len(weighted); i += 2 {
		total += weighted[i].(int)
	}
	n := r.Intn(total)
	for i := 0; i < len(weighted); i += 2 {
		n -= weighted[i+1].(int)
		if n < 0 {
			return weighted[i].(string)
		}
	}
	return weighted[0].(string)
}

func isCanonGo(p string) bool {
	if !strings.HasPrefix(p, "/") {
		return false
	}
	if p == "/" {
		return true
	}
	for _, s := range strings.Split(p[1:], "/") {
		if s == "" || s == "." || s == ".." {
			return false
		}
	}
	return true
}
