package main

import "jetverif/harness/h"

func genEvalFlavor(stream, flavor string, nQuick, nThorough int) func(r *h.Rand, tier string) []h.Case {
	return func(r *h.Rand, tier string) []h.Case {
		n := nQuick
		if tier == "search" {
			n = 4 * nQuick
		} else if tier != "quick" {
			n = nThorough
		}
		var cs []h.Case
		for i := 0; i < n; i++ {
			cs = append(cs, evalCase(stream, genProgram(r, flavor)))
		}
		for i := 0; i < n/2; i++ {
			cs = append(cs, oracleCase("oracle", r, flavor))
		}
		return cs
	}
}

func init() {
	h.RegisterProp(&h.Prop{ID: "C01", Gen: genEvalFlavor("eval", "escape", 600, 20000)})
	c05 := genEvalFlavor("eval", "control", 600, 20000)
	h.RegisterProp(&h.Prop{ID: "C05", Gen: func(r *h.Rand, tier string) []h.Case {
		cs := c05(r, tier)
		n := 150
		if tier == "search" {
			n = 600
		} else if tier != "quick" {
			n = 3000
		}
		for i := 0; i < n; i++ {
			cs = append(cs, genRangerCase(r))
		}
		return cs
	}})
	h.RegisterProp(&h.Prop{ID: "C07", Gen: genEvalFlavor("eval", "scope", 600, 20000)})
	h.RegisterProp(&h.Prop{ID: "C09", Gen: genEvalFlavor("eval", "include", 600, 20000)})
	h.RegisterProp(&h.Prop{ID: "C12", Gen: genEvalFlavor("eval", "errors", 600, 20000)})
	h.RegisterProp(&h.Prop{ID: "C13", Gen: genEvalFlavor("eval", "try", 600, 20000)})
	h.RegisterProp(&h.Prop{ID: "C17", Gen: genEvalFlavor("eval", "isset", 600, 20000)})
}
