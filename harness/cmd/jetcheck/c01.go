package main

import (
	"bytes"
	"fmt"
	"strings"

	"github.com/CloudyKit/jet/v6"

	"jetverif/harness/h"
	"jetverif/harness/sx"
)

func max0(x int) int {
	if x < 0 {
		return 0
	}
	return x
}

func genEvalFlavor(stream, flavor string, nQuick, nThorough int) func(r *h.Rand, tier string) []h.Case {
	return func(r *h.Rand, tier string) []h.Case {
		n := nQuick
		if tier == "search" {
			n = 4 * nQuick
		} else if tier != "quick" {
			n = nThorough
		}
		var cs []h.Case
		for i := 0; i < n; i++ {
			pr := genProgram(r, flavor)
			cs = append(cs, evalCase(stream, pr))
			if i%4 == 0 {
				cs = append(cs, e2eCase(pr)) // the same program through the whole model pipeline, from source
			}
		}
		for i := 0; i < n/2; i++ {
			cs = append(cs, oracleCase("oracle", r, flavor))
		}
		return cs
	}
}

// Stream "escape-sweep" (oracle only): one value of every length in a window, ending in a special
// character, through the default escaper and through safeHtml - the bytes written must be Go's own
// HTMLEscape of the value whatever its length (printers and escapers work in chunks and buffers).
func genEscapeSweep(r *h.Rand, tier string) []h.Case {
	windows := [][2]int{{0, 700}, {4060, 4140}, {4600, 4640}, {8180, 8210}}
	if tier != "quick" {
		windows = [][2]int{{0, 2300}, {3900, 5300}, {8000, 9400}, {12200, 12400}, {16300, 16500}}
	}
	var cs []h.Case
	for _, w := range windows {
		for _, sp := range []string{"&", "'", "\"", "<", ">", "&&", "\x00", "é"} {
			for _, mode := range []string{"plain", "safeHtml", "range"} {
				if tier == "quick" && r.Chance(50) {
					continue
				}
				cs = append(cs, h.Case{Stream: "escape-sweep", NoModel: true, NonTrivial: true, Tags: []string{mode},
					Cmd: sx.L(sx.A("escape-sweep"), sx.A(mode), sx.I(int64(w[0])), sx.I(int64(w[1])), sx.S(sp), sx.S(r.Pick([]string{"a", "<", "é", "&"})))})
			}
		}
	}
	return cs
}

func init() {
	h.RegisterImpl("escape-sweep", func(cmd, _ *sx.Sexp) (*sx.Sexp, string) {
		mode, lo, hi, sp, padc := cmd.Xs[1].A, atoi(cmd.Xs[2].A), atoi(cmd.Xs[3].A), string(cmd.Xs[4].B), string(cmd.Xs[5].B)
		src := map[string]string{"plain": "{{ v }}", "safeHtml": "{{ v | safeHtml }}", "range": "{{range vs}}{{.}}{{end}}"}[mode]
		ld := jet.NewInMemLoader()
		ld.Set("/s.jet", src)
		set := jet.NewSet(ld)
		t, err := set.GetTemplate("/s.jet")
		if err != nil {
			return sx.L(sx.A("parse-error")), "sweep template did not parse: " + err.Error()
		}
		for n := lo; n < hi; n++ {
			// the pad itself may need escaping: the special character lands at every offset of the output as well
			v := strings.Repeat(padc, n/len(padc)) + sp + "7;"
			want := htmlEsc(v)
			vars := jet.VarMap{}
			vars.Set("v", v)
			vars.Set("vs", []string{v, v})
			if mode == "range" {
				want += want
			}
			var buf bytes.Buffer
			if xerr := executeContained(t, &buf, vars, nil); xerr != nil {
				return sx.L(sx.A("err"), sx.I(int64(n))), fmt.Sprintf("rendering a %d-byte string failed: %v", len(v), xerr)
			}
			if got := buf.String(); got != want {
				k := 0
				for k < len(got) && k < len(want) && got[k] == want[k] {
					k++
				}
				return sx.L(sx.A("diff"), sx.I(int64(n))), fmt.Sprintf("%s of a %d-byte value (%d x %q + %q + \"7;\"): output differs from HTMLEscape(value) at byte %d: got ...%q want ...%q",
					src, len(v), n/len(padc), padc, sp, k, clipS(got[max0(k-8):]), clipS(want[max0(k-8):]))
			}
		}
		return sx.L(sx.A("ok")), ""
	})
	c01 := genEvalFlavor("eval", "escape", 600, 20000)
	h.RegisterProp(&h.Prop{ID: "C01", Gen: func(r *h.Rand, tier string) []h.Case {
		return append(c01(r, tier), genEscapeSweep(r, tier)...)
	}})
	c05 := genEvalFlavor("eval", "control", 600, 20000)
	h.RegisterProp(&h.Prop{ID: "C05", Gen: func(r *h.Rand, tier string) []h.Case {
		cs := c05(r, tier)
		n := 150
		if tier == "search" {
			n = 600
		} else if tier != "quick" {
			n = 3000
		}
		for i := 0; i < n; i++ {
			cs = append(cs, genRangerCase(r))
		}
		return cs
	}})
	h.RegisterProp(&h.Prop{ID: "C07", Gen: genEvalFlavor("eval", "scope", 600, 20000)})
	h.RegisterProp(&h.Prop{ID: "C09", Gen: genEvalFlavor("eval", "include", 600, 20000)})
	h.RegisterProp(&h.Prop{ID: "C12", Gen: genEvalFlavor("eval", "errors", 600, 20000)})
	h.RegisterProp(&h.Prop{ID: "C13", Gen: genEvalFlavor("eval", "try", 600, 20000)})
	h.RegisterProp(&h.Prop{ID: "C17", Gen: genEvalFlavor("eval", "isset", 600, 20000)})
}
