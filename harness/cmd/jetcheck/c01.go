package main

import "jetverif/harness/h"

func genEvalFlavor(stream, flavor string, nQuick, nThorough int) func(r *h.Rand, tier string) []h.Case {
	return func(r *h.Rand, tier string) []h.Case {
		n := nQuick
		if tier != "quick" {
			n = nThorough
		}
		var cs []h.Case
		for i := 0; i < n; i++ {
			cs = append(cs, evalCase(stream, genProgram(r, flavor)))
		}
		return cs
	}
}

func init() {
	h.RegisterProp(&h.Prop{ID: "C01", Gen: genEvalFlavor("eval", "escape", 600, 20000)})
}
