package main

import (
	"math"
	"regexp"
	"strconv"
	"strings"

	"github.com/CloudyKit/jet/v6"

	"jetverif/harness/h"
	"jetverif/harness/sx"
)

// Stream "parsetree": the parser model (lean/JetVerif/Model/Parse.lean) against the real parser.
// Both sides parse the same source under the same delimiters; the observation is the complete tree
// in the format of the hook VerifDumpTemplate (every node with its Line, the template's extends /
// imports / own block table) or, for a rejected source, the line the error names and its message
// (compared as far as the model produces it: messages that print a node or a lexer error are
// modelled up to that point).
//
// Two-phase: literal conversion (strconv / fmt.Sscan behind newNumber and unquote) is a parameter of
// the model, so the preparation step converts every literal token of the source with the real code
// (hook VerifLiteral) and the table travels with the case.

var parseTreeFiles = map[string]string{
	"/base.jet":       "base text",
	"/lib.jet":        "lib",
	"/d/base.jet":     "d base",
	"/d/lib.html.jet": "d lib html",
	"/inc.jet":        "inc",
}

func parseTreeCase(stream string, name string, d delims, src string, tags []string) h.Case {
	prep := sx.L(sx.A("parse-lits"), sx.S(d.L), sx.S(d.R), sx.S(d.LC), sx.S(d.RC), sx.S(src))
	files := sx.L()
	for p := range parseTreeFiles {
		files.Add(sx.S(p))
	}
	// deterministic order
	sortSexpBytes(files)
	return h.Case{Stream: stream, NonTrivial: len(src) > 6, Tags: tags, Prep: prep,
		Finish: func(lits *sx.Sexp) *sx.Sexp {
			return sx.L(sx.A("parsetree"), sx.S(name), sx.S(d.L), sx.S(d.R), sx.S(d.LC), sx.S(d.RC), sx.S(src), lits, files)
		}}
}

func sortSexpBytes(l *sx.Sexp) {
	xs := l.Xs
	for i := 1; i < len(xs); i++ {
		for j := i; j > 0 && string(xs[j].B) < string(xs[j-1].B); j-- {
			xs[j], xs[j-1] = xs[j-1], xs[j]
		}
	}
}

var parseTreeErrRe = regexp.MustCompile(`(?s)^template: ([^:]+):(\d+): (.*)$`)

// expression-heavy actions: every operator spelling and nesting, postfix chains, calls, slices
func genParseExprSrc(r *h.Rand, d delims) string {
	L, R := d.left(), d.right()
	var sb strings.Builder
	n := 1 + r.Intn(3)
	for i := 0; i < n; i++ {
		if r.Chance(40) {
			sb.WriteString(genText(r))
		}
		switch r.Intn(6) {
		case 0:
			sb.WriteString(L + sp(r) + genAssign(r) + sp(r) + R)
		case 1:
			sb.WriteString(L + " if " + genExprSrc(r, 3) + " " + R + "x" + L + "end" + R)
		default:
			sb.WriteString(L + sp(r) + genPipeline(r, 1+r.Intn(4)) + sp(r) + R)
		}
	}
	return sb.String()
}

// prologues: extends / import spellings, order, blank text around them
func genParsePrologueSrc(r *h.Rand, d delims) string {
	g := &srcGen{r: r, d: d}
	refs := []string{`"/base.jet"`, `"base"`, `"./lib"`, `"../base.jet"`, `"/d/lib"`, `"/d/lib.html"`, `"lib.jet"`, `"/nope"`, "`/lib.jet`", `"/inc.jet"`, `"\x2fbase.jet"`, `"/base.jet`, `base`}
	var sb strings.Builder
	n := r.Intn(4)
	for i := 0; i < n; i++ {
		sb.WriteString(r.Pick([]string{"", "", " ", "\n", " \n\t", " ", " \n", "x"}))
		if r.Chance(15) {
			sb.WriteString(d.lcomment() + " c " + d.rcomment())
		}
		sb.WriteString(g.act(r.Pick([]string{"extends", "import", "import"}) + " " + r.Pick(refs)))
	}
	sb.WriteString(r.Pick([]string{"", " ", "\n\n", "text", "\v\n", "\u00a0", "\u2029"}))
	m := r.Intn(3)
	for i := 0; i < m; i++ {
		sb.WriteString(g.stmt(2))
	}
	if r.Chance(10) {
		sb.WriteString(g.act(`extends "/base.jet"`))
	}
	return sb.String()
}

func genParseTree(r *h.Rand, stream string, n int, flavour string) []h.Case {
	var cs []h.Case
	for i := 0; i < n; i++ {
		d := pickDelims(r)
		name := r.Pick([]string{"/t.jet", "/t.jet", "/d/t.jet", "/d/e/t.jet"})
		var src string
		tags := []string{}
		switch {
		case flavour == "expr":
			src = genParseExprSrc(r, d)
			tags = append(tags, "expressions")
		case i%5 == 0:
			src = genParsePrologueSrc(r, d)
			tags = append(tags, "prologue")
		case i%5 == 1:
			src, _ = genStructural(r, d)
			tags = append(tags, "structural")
		default:
			src = genTemplateSrc(r, d, 3)
			tags = append(tags, "grammar")
		}
		if flavour != "expr" && i%3 == 2 || flavour == "expr" && i%4 == 3 {
			src = mutate(r, src)
			tags = append(tags, "mutated")
			if r.Chance(30) {
				src = mutate(r, src)
			}
		}
		if d.L != "" {
			tags = append(tags, "custom-delims")
		}
		cs = append(cs, parseTreeCase(stream, name, d, src, tags))
	}
	return cs
}

func litSexp(typ int, text string) *sx.Sexp {
	kind, isInt, isUint, isFloat, isComplex, i, u, f, s := jet.VerifLiteral(typ, text)
	if kind == "none" {
		return nil
	}
	e := sx.L(sx.I(int64(typ)), sx.S(text), sx.A(kind))
	switch kind {
	case "num":
		e.Add(sx.A(strconv.FormatBool(isInt))).Add(sx.A(strconv.FormatBool(isUint))).Add(sx.A(strconv.FormatBool(isFloat))).Add(sx.A(strconv.FormatBool(isComplex)))
		e.Add(sx.I(i)).Add(sx.A(strconv.FormatUint(u, 10))).Add(sx.A(strconv.FormatUint(math.Float64bits(f), 10)))
	default:
		e.Add(sx.S(s))
	}
	return e
}

func init() {
	h.RegisterImpl("parse-lits", func(cmd, _ *sx.Sexp) (*sx.Sexp, string) {
		d, src := cmdDelims(cmd)
		toks, _ := jet.VerifLex(src, d.L, d.R, d.LC, d.RC)
		out := sx.L()
		seen := map[string]bool{}
		for _, t := range toks {
			k := strconv.Itoa(t.Typ) + "|" + t.Val
			if !seen[k] {
				seen[k] = true
				if e := litSexp(t.Typ, t.Val); e != nil {
					out.Add(e)
				}
			}
		}
		return out, ""
	})
	h.RegisterImpl("parsetree", func(cmd, _ *sx.Sexp) (*sx.Sexp, string) {
		name := string(bytesArg(cmd, 1))
		d := delims{string(bytesArg(cmd, 2)), string(bytesArg(cmd, 3)), string(bytesArg(cmd, 4)), string(bytesArg(cmd, 5))}
		src := string(bytesArg(cmd, 6))
		files := map[string]string{}
		for p, c := range parseTreeFiles {
			files[p] = c
		}
		set := setWithDelims(files, d)
		t, err := set.Parse(name, src)
		if err != nil {
			m := parseTreeErrRe.FindStringSubmatch(err.Error())
			if m == nil {
				return sx.L(sx.A("err-unpositioned"), sx.S(err.Error())), ""
			}
			ln, _ := strconv.Atoi(m[2])
			oracle := ""
			if lines := strings.Count(src, "\n") + 1; m[1] != name || ln < 1 || ln > lines {
				oracle = "the error names " + m[1] + " line " + m[2] + "; the source is " + name + " with " + strconv.Itoa(lines) + " lines"
			}
			return sx.L(sx.A("err"), sx.I(int64(ln)), sx.A("true"), sx.S(m[3])), oracle
		}
		dump, perr := sx.Parse(jet.VerifDumpTemplate(t))
		if perr != nil {
			return sx.L(sx.A("bad-dump")), "the tree dump is not an s-expression: " + perr.Error()
		}
		return sx.L(sx.A("ok"), dump), ""
	})
	// an error message is compared as far as the model produces it
	h.PairNormalizers["parsetree"] = func(impl, model string) (string, string) {
		mx, err1 := sx.Parse(model)
		ix, err2 := sx.Parse(impl)
		if err1 != nil || err2 != nil || len(mx.Xs) != 4 || len(ix.Xs) != 4 || mx.Xs[0].A != "err" || ix.Xs[0].A != "err" {
			return impl, model
		}
		if mx.Xs[2].A == "false" && strings.HasPrefix(string(ix.Xs[3].B), string(mx.Xs[3].B)) {
			return sx.L(ix.Xs[0], ix.Xs[1], sx.A("false"), mx.Xs[3]).String(), model
		}
		return impl, model
	}
}
