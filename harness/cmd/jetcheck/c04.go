package main

import (
	"math"
	"bytes"
	"fmt"
	"strings"

	"github.com/CloudyKit/fastprinter"

	"jetverif/harness/h"
	"jetverif/harness/sx"
)

// C04.  Stream "exprs" (constructive direct oracle): typed expression trees over Go ints, float
// literals/variables, strings and bools with probe functions as operands; the generator evaluates
// the tree by the documented rules (int/int integral with truncation, any float operand promotes,
// string + x concatenates, comparisons and connectives yield bools, &&, || and ?: evaluate only what
// they need) and prints it with the minimal parentheses the documented precedence and
// associativity require - plus random redundant parentheses, and every binary operator either with
// a space on both sides or with none.  Rendered value and probe log must match.

type ev struct {
	k byte // i f s b
	i int64
	f float64
	s string
	b bool
}

func (v ev) truthy() bool {
	switch v.k {
	case 'i':
		return v.i != 0
	case 'f':
		return v.f != 0
	case 's':
		return v.s != ""
	}
	return v.b
}

func (v ev) num() float64 {
	if v.k == 'i' {
		return float64(v.i)
	}
	return v.f
}

func (v ev) render() string {
	switch v.k {
	case 'i':
		return fmt.Sprint(v.i)
	case 'f':
		var b bytes.Buffer
		fastprinter.PrintFloat(&b, v.f)
		return b.String()
	case 's':
		return htmlEsc(v.s)
	}
	return fmt.Sprint(v.b)
}

type enode struct {
	op    string // atom | neg | not | tern | binary operator
	src   string
	kids  []*enode
	level int
	probe int // probe id of an atom (0 = none)
}

const (
	lvTern = 1 + iota
	lvLogic
	lvEq
	lvRel
	lvAdd
	lvMul
	lvUnary
	lvAtom
)

type egen struct {
	r      *h.Rand
	nprobe int
}

var intAtoms = []struct {
	src string
	v   int64
}{{"a", 7}, {"b", 2}, {"c", -3}, {"n1", 1}, {"li[0]", 3}, {"st.A", 5}, {"(a)", 7}, {"add3(a, 0, 0)", 7}, {"li[2]", 4},
	{"bi", 9007199254740993}, {"bj", 9007199254740992}, {"bi", 9007199254740993}, {"bm", 9223372036854775807}, {"bn", -9223372036854775808},
	{"café", 6}, {"数", 8}} // the neighbour pairs in boolean() index this list: append only
var floatAtoms = []struct {
	src string
	v   float64
}{{"1", 1}, {"2", 2}, {"0.5", 0.5}, {"2.5", 2.5}, {"10", 10}, {"x", 1.5}, {"3", 3}, {"(2)", 2}, {"4.0", 4}, {"'a'", 97}, {`'\n'`, 10}, {"0x10", 16}, {"1e1", 10}, {"(9223372036854775808)", 9223372036854775808}, {"(0x8000000000000000)", 9223372036854775808}, {"(18446744073709551615)", 18446744073709551615}, {"(9223372036854775807)", 9223372036854775807}}
// not-a-number and the infinities, from Go data and from float division inside the template; used as
// operands of comparisons only (their conversion to an integer is not defined)
var specialFloatAtoms = []struct {
	src string
	v   float64
}{{"nan", math.NaN()}, {"(zf/zf)", math.NaN()}, {"inf", math.Inf(1)}, {"(0-inf)", math.Inf(-1)}, {"(x/zf)", math.Inf(1)}}
var strAtoms = []struct{ src, v string }{{`"q"`, "q"}, {"s", "a<b"}, {`"x y"`, "x y"}, {"e", ""}, {"ls[0]", "l0"}}

func atom(src string) *enode { return &enode{op: "atom", src: src, level: lvAtom} }

func (g *egen) num(d int) (*enode, ev) {
	r := g.r
	if d <= 0 || r.Chance(25) {
		if r.Chance(60) {
			a := intAtoms[r.Intn(len(intAtoms))]
			return atom(a.src), ev{k: 'i', i: a.v}
		}
		a := floatAtoms[r.Intn(len(floatAtoms))]
		return atom(a.src), ev{k: 'f', f: a.v}
	}
	switch r.Intn(7) {
	case 0: // unary minus on an operand
		if r.Bool() {
			a := intAtoms[r.Intn(len(intAtoms))]
			return &enode{op: "neg", kids: []*enode{atom(a.src)}, level: lvUnary}, ev{k: 'i', i: -a.v}
		}
		a := floatAtoms[r.Intn(len(floatAtoms))]
		return &enode{op: "neg", kids: []*enode{atom(a.src)}, level: lvUnary}, ev{k: 'f', f: -a.v}
	case 1: // ternary
		c, cv := g.boolean(d - 1)
		x, xv := g.num(d - 1)
		y, yv := g.num(d - 1)
		res := yv
		if cv.truthy() {
			res = xv
		}
		return &enode{op: "tern", kids: []*enode{c, x, y}, level: lvTern}, res
	}
	op := r.Pick([]string{"+", "-", "*", "/", "%", "+", "*"})
	for try := 0; try < 20; try++ {
		l, lv := g.num(d - 1)
		rt, rv := g.num(d - 1)
		lvl := lvAdd
		if op == "*" || op == "/" || op == "%" {
			lvl = lvMul
		}
		n := &enode{op: op, kids: []*enode{l, rt}, level: lvl}
		if lv.k == 'i' && rv.k == 'i' {
			switch op {
			case "+":
				return n, ev{k: 'i', i: lv.i + rv.i}
			case "-":
				return n, ev{k: 'i', i: lv.i - rv.i}
			case "*":
				return n, ev{k: 'i', i: lv.i * rv.i}
			case "/":
				if rv.i != 0 {
					return n, ev{k: 'i', i: lv.i / rv.i}
				}
			case "%":
				if rv.i != 0 {
					return n, ev{k: 'i', i: lv.i % rv.i}
				}
			}
			continue
		}
		a, b := lv.num(), rv.num()
		switch op {
		case "+":
			return n, ev{k: 'f', f: a + b}
		case "-":
			return n, ev{k: 'f', f: a - b}
		case "*":
			return n, ev{k: 'f', f: a * b}
		case "/":
			if b != 0 {
				return n, ev{k: 'f', f: a / b}
			}
		}
	}
	a := intAtoms[0]
	return atom(a.src), ev{k: 'i', i: a.v}
}

func (g *egen) str(d int) (*enode, ev) {
	r := g.r
	if d <= 0 || r.Chance(40) {
		a := strAtoms[r.Intn(len(strAtoms))]
		return atom(a.src), ev{k: 's', s: a.v}
	}
	l, lv := g.str(d - 1)
	if r.Bool() {
		rt, rv := g.str(d - 1)
		return &enode{op: "+", kids: []*enode{l, rt}, level: lvAdd}, ev{k: 's', s: lv.s + rv.s}
	}
	if r.Chance(25) {
		// the right operand of a string concatenation is formatted as printing would format it:
		// values of named types with a print method by that method, booleans and unsigned ints plainly
		na := []struct{ src, text string }{{"nvI", namedText("int", 3)}, {"nvS", namedText("str", "s'")}, {"nvB", namedText("bool", true)}, {"nvU", namedText("u8", 7)},
			{"t", "true"}, {"u9", "9"}, {"nvT", namedText("struct", 4)}}[r.Intn(7)]
		return &enode{op: "+", kids: []*enode{l, atom(na.src)}, level: lvAdd}, ev{k: 's', s: lv.s + na.text}
	}
	a := intAtoms[r.Intn(len(intAtoms))]
	return &enode{op: "+", kids: []*enode{l, atom(a.src)}, level: lvAdd}, ev{k: 's', s: lv.s + fmt.Sprint(a.v)}
}

func (g *egen) boolean(d int) (*enode, ev) {
	r := g.r
	if d <= 0 || r.Chance(20) {
		switch r.Intn(4) {
		case 0:
			return atom("t"), ev{k: 'b', b: true}
		case 1:
			return atom("ff"), ev{k: 'b', b: false}
		case 2:
			b := r.Bool()
			return atom(fmt.Sprint(b)), ev{k: 'b', b: b}
		}
		g.nprobe++
		b := r.Bool()
		n := atom(fmt.Sprintf("probeb(%d, %v)", g.nprobe, b))
		n.probe = g.nprobe
		return n, ev{k: 'b', b: b}
	}
	switch r.Intn(6) {
	case 0:
		op := r.Pick([]string{"<", "<=", ">", ">="})
		l, lv := g.num(d - 1)
		rt, rv := g.num(d - 1)
		if r.Chance(35) {
			sp := specialFloatAtoms[r.Intn(len(specialFloatAtoms))]
			if sp.v != sp.v {
				op = r.Pick([]string{"<=", ">=", "<=", ">=", "<", ">"}) // unordered: the negation of < is not >=
			}
			if r.Bool() {
				l, lv = atom(sp.src), ev{k: 'f', f: sp.v}
			} else {
				rt, rv = atom(sp.src), ev{k: 'f', f: sp.v}
			}
		}
		if r.Chance(25) { // Go integers whose difference does not fit an int64: ordered as integers all the same
			pair := [][2]int{{12, 2}, {2, 12}, {13, 3}, {3, 13}, {12, 13}, {13, 12}, {12, 12}, {13, 0}}[r.Intn(8)]
			l, lv = atom(intAtoms[pair[0]].src), ev{k: 'i', i: intAtoms[pair[0]].v}
			rt, rv = atom(intAtoms[pair[1]].src), ev{k: 'i', i: intAtoms[pair[1]].v}
		}
		a, b := lv.num(), rv.num()
		var res bool
		if lv.k == 'i' && rv.k == 'i' {
			res = map[string]bool{"<": lv.i < rv.i, "<=": lv.i <= rv.i, ">": lv.i > rv.i, ">=": lv.i >= rv.i}[op]
		} else {
			res = map[string]bool{"<": a < b, "<=": a <= b, ">": a > b, ">=": a >= b}[op]
		}
		return &enode{op: op, kids: []*enode{l, rt}, level: lvRel}, ev{k: 'b', b: res}
	case 1:
		op := r.Pick([]string{"==", "!="})
		var l, rt *enode
		var eq bool
		switch r.Intn(3) {
		case 0:
			var lv, rv ev
			l, lv = g.num(d - 1)
			rt, rv = g.num(d - 1)
			if r.Chance(50) { // close neighbours far beyond 2^53: equal as floats, different as ints
				pair := [][2]int{{9, 10}, {10, 9}, {9, 9}, {9, 10}, {10, 9}, {12, 12}}[r.Intn(6)]
				l, lv = atom(intAtoms[pair[0]].src), ev{k: 'i', i: intAtoms[pair[0]].v}
				rt, rv = atom(intAtoms[pair[1]].src), ev{k: 'i', i: intAtoms[pair[1]].v}
			}
			if lv.k == 'i' && rv.k == 'i' {
				eq = lv.i == rv.i // two Go integers compare integrally
			} else {
				eq = lv.num() == rv.num()
			}
		case 1:
			var lv, rv ev
			l, lv = g.str(d - 1)
			rt, rv = g.str(d - 1)
			eq = lv.s == rv.s
		default:
			var lv, rv ev
			l, lv = g.boolean(d - 1)
			rt, rv = g.boolean(d - 1)
			eq = lv.b == rv.b
		}
		return &enode{op: op, kids: []*enode{l, rt}, level: lvEq}, ev{k: 'b', b: eq == (op == "==")}
	case 2, 3:
		op := r.Pick([]string{"&&", "||", "and", "or"})
		any := func() (*enode, ev) {
			switch r.Intn(5) {
			case 0:
				return g.num(d - 1)
			case 1:
				return g.str(d - 1)
			}
			return g.boolean(d - 1)
		}
		l, lv := any()
		rt, rv := any()
		isAnd := op == "&&" || op == "and"
		res := lv.truthy() || rv.truthy()
		if isAnd {
			res = lv.truthy() && rv.truthy()
		}
		n := &enode{op: op, kids: []*enode{l, rt}, level: lvLogic}
		return n, ev{k: 'b', b: res}
	case 4:
		c, cv := g.boolean(d - 1)
		return &enode{op: "not", src: r.Pick([]string{"!", "not "}), kids: []*enode{c}, level: lvUnary}, ev{k: 'b', b: !cv.truthy()}
	}
	c, cv := g.boolean(d - 1)
	x, xv := g.boolean(d - 1)
	y, yv := g.boolean(d - 1)
	res := yv
	if cv.truthy() {
		res = xv
	}
	return &enode{op: "tern", kids: []*enode{c, x, y}, level: lvTern}, res
}

// evaluation order of probes: left to right, && / || / ?: only what they need
func (g *egen) probes(n *enode, val func(*enode) ev, out *[]int) {
	switch n.op {
	case "atom":
		if n.probe != 0 {
			*out = append(*out, n.probe)
		}
	case "tern":
		g.probes(n.kids[0], val, out)
		if val(n.kids[0]).truthy() {
			g.probes(n.kids[1], val, out)
		} else {
			g.probes(n.kids[2], val, out)
		}
	case "&&", "and":
		g.probes(n.kids[0], val, out)
		if val(n.kids[0]).truthy() {
			g.probes(n.kids[1], val, out)
		}
	case "||", "or":
		g.probes(n.kids[0], val, out)
		if !val(n.kids[0]).truthy() {
			g.probes(n.kids[1], val, out)
		}
	default:
		for _, k := range n.kids {
			g.probes(k, val, out)
		}
	}
}

func (g *egen) print(n *enode, tight bool) string {
	r := g.r
	wrap := func(s string, need bool) string {
		if need || r.Chance(12) {
			return "(" + s + ")"
		}
		return s
	}
	switch n.op {
	case "atom":
		return n.src
	case "neg":
		return "-" + g.print(n.kids[0], tight)
	case "not":
		k := n.kids[0]
		return n.src + wrap(g.print(k, tight), k.level < lvEq)
	case "tern":
		c, x, y := n.kids[0], n.kids[1], n.kids[2]
		sp := " "
		return wrap(g.print(c, tight), c.level < lvLogic || c.op == "not") + sp + "?" + sp + wrap(g.print(x, tight), x.op == "not" && false) + sp + ":" + sp + g.print(y, tight)
	}
	l, rt := n.kids[0], n.kids[1]
	needL := l.level < n.level || l.op == "not"
	needR := rt.level <= n.level || rt.op == "not"
	// a unary minus directly after a binary minus / plus would read as "--" / "+-"
	if rt.op == "neg" && (n.op == "-" || n.op == "+") {
		needR = true
	}
	if l.op == "neg" && false {
		needL = true
	}
	ls := wrap(g.print(l, tight), needL)
	rs := wrap(g.print(rt, tight), needR)
	op := n.op
	if op == "and" || op == "or" {
		return ls + " " + op + " " + rs
	}
	if tight && r.Chance(70) {
		// no space on either side; a following unary minus keeps its parentheses (set above)
		if strings.HasPrefix(rs, "-") {
			rs = "(" + rs + ")"
		}
		return ls + op + rs
	}
	return ls + " " + op + " " + rs
}

func genExprCase(r *h.Rand) h.Case {
	g := &egen{r: r}
	vals := map[*enode]ev{}
	var root *enode
	var rv ev
	d := 1 + r.Intn(4)
	// memoise values during generation by re-evaluating: generation returns values, record them
	var rec func(n *enode, v ev)
	rec = func(n *enode, v ev) { vals[n] = v }
	_ = rec
	switch r.Intn(3) {
	case 0:
		root, rv = g.num(d)
	case 1:
		if d < 2 {
			d = 2 // deep enough for a comparison or a connective at the root
		}
		root, rv = g.boolean(d)
	default:
		root, rv = g.str(d)
	}
	src := g.print(root, r.Chance(50))
	p := newProg(r)
	p.esc = "html"
	p.vars = sx.L(bind("a", vInt(7)), bind("café", vInt(6)), bind("数", vInt(8)), bind("b", vInt(2)), bind("c", vInt(-3)), bind("n1", vInt(1)), bind("x", vFloat(1.5)), bind("nan", vFloat(math.NaN())), bind("inf", vFloat(math.Inf(1))), bind("zf", vFloat(0)),
		bind("bi", vInt(9007199254740993)), bind("bj", vInt(9007199254740992)), bind("bm", vInt(9223372036854775807)), bind("bn", vInt(-9223372036854775808)),
		bind("li", vSliceT(vInt(3), vInt(0), vInt(4))), bind("ls", vSliceT(vStr("l0"), vStr(""), vStr("z"))),
		bind("st", vT1(5, "B", vSliceI(), vMapI(), vPtr("T1", nil), vInt(0))),
		bind("s", vStr("a<b")), bind("e", vStr("")), bind("t", vBool(true)), bind("ff", vBool(false)), bind("u9", vUint(9)))
	nv := func(k string, v *sx.Sexp) *sx.Sexp { return sx.L(sx.A("named"), sx.A(k), v) }
	if strings.Contains(src, "nv") {
		p.vars.Add(bind("nvI", nv("int", vInt(3)))).Add(bind("nvS", nv("str", vStr("s'")))).Add(bind("nvB", nv("bool", vBool(true)))).
			Add(bind("nvU", nv("u8", vInt(7)))).Add(bind("nvT", nv("struct", vInt(4))))
	}
	p.data = vNil()
	p.files = map[string]string{"/main.jet": "[{{ " + src + " }}]"}
	p.tags["expr"] = true
	c := evalCase("exprs", p)
	// the probe log needs the values of sub-expressions: recompute them with a second, deterministic pass
	log := sx.L()
	var ids []int
	g.probes(root, func(n *enode) ev { return evalNode(n) }, &ids)
	for _, id := range ids {
		log.Add(sx.L(sx.A("probe"), sx.I(int64(id))))
	}
	return withExpect(c, "["+rv.render()+"]", log)
}

// evalNode re-evaluates a generated tree (same rules as during generation)
func evalNode(n *enode) ev {
	switch n.op {
	case "atom":
		for _, a := range intAtoms {
			if a.src == n.src {
				return ev{k: 'i', i: a.v}
			}
		}
		for _, a := range floatAtoms {
			if a.src == n.src {
				return ev{k: 'f', f: a.v}
			}
		}
		for _, a := range specialFloatAtoms {
			if a.src == n.src {
				return ev{k: 'f', f: a.v}
			}
		}
		for _, a := range strAtoms {
			if a.src == n.src {
				return ev{k: 's', s: a.v}
			}
		}
		switch {
		case n.src == "t" || n.src == "true":
			return ev{k: 'b', b: true}
		case n.src == "ff" || n.src == "false":
			return ev{k: 'b', b: false}
		}
		return ev{k: 'b', b: strings.HasSuffix(n.src, "true)")}
	case "neg":
		v := evalNode(n.kids[0])
		if v.k == 'i' {
			return ev{k: 'i', i: -v.i}
		}
		return ev{k: 'f', f: -v.f}
	case "not":
		return ev{k: 'b', b: !evalNode(n.kids[0]).truthy()}
	case "tern":
		if evalNode(n.kids[0]).truthy() {
			return evalNode(n.kids[1])
		}
		return evalNode(n.kids[2])
	}
	l, r := evalNode(n.kids[0]), evalNode(n.kids[1])
	switch n.op {
	case "&&", "and":
		return ev{k: 'b', b: l.truthy() && r.truthy()}
	case "||", "or":
		return ev{k: 'b', b: l.truthy() || r.truthy()}
	case "==", "!=":
		var eq bool
		switch {
		case l.k == 's':
			eq = l.s == r.s
		case l.k == 'b':
			eq = l.b == r.b
		case l.k == 'i' && r.k == 'i':
			eq = l.i == r.i
		default:
			eq = l.num() == r.num()
		}
		return ev{k: 'b', b: eq == (n.op == "==")}
	case "<", "<=", ">", ">=":
		if l.k == 'i' && r.k == 'i' {
			return ev{k: 'b', b: map[string]bool{"<": l.i < r.i, "<=": l.i <= r.i, ">": l.i > r.i, ">=": l.i >= r.i}[n.op]}
		}
		a, b := l.num(), r.num()
		return ev{k: 'b', b: map[string]bool{"<": a < b, "<=": a <= b, ">": a > b, ">=": a >= b}[n.op]}
	}
	if l.k == 's' {
		if r.k == 's' {
			return ev{k: 's', s: l.s + r.s}
		}
		return ev{k: 's', s: l.s + fmt.Sprint(r.i)}
	}
	if l.k == 'i' && r.k == 'i' {
		switch n.op {
		case "+":
			return ev{k: 'i', i: l.i + r.i}
		case "-":
			return ev{k: 'i', i: l.i - r.i}
		case "*":
			return ev{k: 'i', i: l.i * r.i}
		case "/":
			return ev{k: 'i', i: l.i / r.i}
		}
		return ev{k: 'i', i: l.i % r.i}
	}
	a, b := l.num(), r.num()
	switch n.op {
	case "+":
		return ev{k: 'f', f: a + b}
	case "-":
		return ev{k: 'f', f: a - b}
	case "*":
		return ev{k: 'f', f: a * b}
	}
	return ev{k: 'f', f: a / b}
}

func init() {
	h.RegisterProp(&h.Prop{ID: "C04", Gen: func(r *h.Rand, tier string) []h.Case {
		n := 800
		if tier == "search" {
			n = 3000
		} else if tier != "quick" {
			n = 25000
		}
		var cs []h.Case
		for i := 0; i < n; i++ {
			cs = append(cs, genExprCase(r))
		}
		for i := 0; i < n/4; i++ {
			cs = append(cs, evalCase("eval", genProgram(r, "control")))
		}
		// sources with every operator spelling through the lexer model (sign vs operator)
		for i := 0; i < n/2; i++ {
			d := pickDelims(r)
			src := d.left() + " " + genExprSrc(r, 3) + " " + d.right()
			cs = append(cs, h.Case{Stream: "lex", Cmd: lexCmd(d, src), NonTrivial: true})
		}
		// the parser model against the real parser on expression-heavy sources (grouping, lines)
		cs = append(cs, genParseTree(r, "parsetree", n/2, "expr")...)
		return cs
	}})
}
