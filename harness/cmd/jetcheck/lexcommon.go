package main

import (
	"github.com/CloudyKit/jet/v6"

	"jetverif/harness/h"
	"jetverif/harness/sx"
)

func lexCmd(d delims, src string) *sx.Sexp {
	return sx.L(sx.A("lex"), sx.S(d.L), sx.S(d.R), sx.S(d.LC), sx.S(d.RC), sx.S(src))
}

func cmdDelims(cmd *sx.Sexp) (delims, string) {
	return delims{string(bytesArg(cmd, 1)), string(bytesArg(cmd, 2)), string(bytesArg(cmd, 3)), string(bytesArg(cmd, 4))}, string(bytesArg(cmd, 5))
}

const itemErrorCode = 0
const itemFieldCode = 6

func init() {
	// (lex L R LC RC src): the item stream of the real lexer
	h.RegisterImpl("lex", func(cmd, _ *sx.Sexp) (*sx.Sexp, string) {
		d, src := cmdDelims(cmd)
		toks, p := jet.VerifLex(src, d.L, d.R, d.LC, d.RC)
		head := "done"
		fail := ""
		if p != nil {
			head = "crash"
			fail = "lexer panicked"
		}
		out := sx.L(sx.A(head))
		// what the parser assumes of every item (hypothesis WfItem of Props/C02P.lean)
		for _, t := range toks {
			if t.Pos < 0 || t.Pos > len(src) {
				fail = "an item's position lies outside the source"
			}
			if t.Typ == itemFieldCode && (len(t.Val) < 2 || t.Val[0] != '.') {
				fail = "a field item is not a dot followed by a name"
			}
		}
		for _, t := range toks {
			v := sx.S(t.Val)
			if t.Typ == itemErrorCode {
				v = sx.S("")
			}
			out.Add(sx.L(sx.I(int64(t.Typ)), sx.I(int64(t.Pos)), v))
		}
		return out, fail
	})
}
