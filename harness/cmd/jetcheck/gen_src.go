package main

import (
	"strings"

	"jetverif/harness/h"
)

// ---------------------------------------------------------------- delimiter families

type delims struct{ L, R, LC, RC string }

func (d delims) left() string {
	if d.L == "" {
		return "{{"
	}
	return d.L
}
func (d delims) right() string {
	if d.R == "" {
		return "}}"
	}
	return d.R
}
func (d delims) lcomment() string {
	if d.LC == "" {
		return "{*"
	}
	return d.LC
}
func (d delims) rcomment() string {
	if d.RC == "" {
		return "*}"
	}
	return d.RC
}

var delimFamilies = []delims{
	{},
	{},
	{L: "[[", R: "]]"},
	{L: "<%", R: "%>", LC: "<#", RC: "#>"},
	{L: "[[", R: "]]", LC: "[#", RC: "#]"},
	{L: "«", R: "»", LC: "‹", RC: "›"},
	{L: "{%", R: "%}"},
	{L: "@(", R: ")@", LC: "@*", RC: "*@"},
}

func pickDelims(r *h.Rand) delims { return delimFamilies[r.Intn(len(delimFamilies))] }

// delimiters chosen to collide with the lexer's own markers: a right delimiter that starts like the
// right trim marker or with a space, a left delimiter that ends like the left trim marker, one-byte
// delimiters, comment delimiters that extend the action delimiters, delimiters that look like operators
var hostileDelims = []delims{
	{L: "{{", R: " -}"},
	{L: "<", R: " -"},
	{L: "{{", R: " }}"},
	{L: "{{-", R: "}}"},
	{L: "{{- ", R: " -}}"},
	{L: "{", R: "}"},
	{L: "(", R: ")"},
	{L: "{{", R: "}}", LC: "{{*", RC: "*}}"},
	{L: "{*", R: "*}", LC: "{{", RC: "}}"},
	{L: "-", R: "-"},
	{L: "{{", R: "|"},
	{L: ".", R: ":"},
	{L: "é", R: "é"},
	{L: "\xff", R: "\xfe"},
	{L: "{{", R: "}}", LC: "{", RC: "}"},
}

func pickHostileDelims(r *h.Rand) delims { return hostileDelims[r.Intn(len(hostileDelims))] }

// ---------------------------------------------------------------- expression source

var identPool = []string{"a", "b", "s", "m", "f", "x1", "_y", "é", "item", "upper", "len", "isset", "true", "false", "nil", "proč", "Ġa", "aРb"}
// operands that take a postfix (field chain, index, slice, call); the literals among the identifiers
// only now and then (a '.' after them is a parse error)
func postfixBase(r *h.Rand) string {
	if r.Chance(8) {
		return r.Pick(identPool)
	}
	return r.Pick(identPool[:12])
}

var fieldPool = []string{".A", ".B", ".A.B", ".x", ".é", "."}

func sp(r *h.Rand) string {
	switch r.Intn(6) {
	case 0:
		return " "
	case 1:
		return "  "
	case 2:
		return "\n"
	}
	return ""
}

func genLiteral(r *h.Rand) string {
	switch r.Intn(12) {
	case 0:
		return "0"
	case 1:
		return "1"
	case 2:
		return "42"
	case 3:
		return "3.5"
	case 4:
		return "0x1F"
	case 5:
		return "1e3"
	case 6:
		return `"str"`
	case 7:
		return `"a\"b\n"`
	case 8:
		return r.Pick([]string{"`raw`", "`raw`", "`r\nw`", "`\n\n`"})
	case 9:
		return "'c'"
	case 10:
		return r.Pick([]string{"true", "false", "nil"})
	}
	return r.Pick([]string{"-1", "+2", "-3.25", ".5", "7i", "1_0", "089", "0x", "-٣", "+１", "-४.5", "٣"})
}

func genOperand(r *h.Rand, depth int) string {
	switch r.Intn(10) {
	case 0, 1:
		return genLiteral(r)
	case 2, 3:
		return r.Pick(identPool)
	case 4:
		return r.Pick(fieldPool)
	case 5:
		if depth > 0 {
			return "(" + sp(r) + genExprSrc(r, depth-1) + sp(r) + ")"
		}
	case 6:
		if depth > 0 {
			return postfixBase(r) + "[" + genExprSrc(r, depth-1) + "]"
		}
	case 7:
		if depth > 0 {
			a, b := "", ""
			if r.Bool() {
				a = genExprSrc(r, 0)
			}
			if r.Bool() {
				b = genExprSrc(r, 0)
			}
			return postfixBase(r) + "[" + a + ":" + b + "]"
		}
	case 8:
		if depth > 0 {
			n := r.Intn(4)
			args := []string{}
			for i := 0; i < n; i++ {
				if r.Chance(10) {
					args = append(args, "_")
				} else {
					args = append(args, genExprSrc(r, depth-1))
				}
			}
			return postfixBase(r) + "(" + strings.Join(args, ","+sp(r)) + ")"
		}
	case 9:
		return postfixBase(r) + r.Pick([]string{".A", ".B.C", ".é"})
	}
	return r.Pick(identPool)
}

var binOps = []string{"+", "-", "*", "/", "%", "<", "<=", ">", ">=", "==", "!=", "&&", "||", " and ", " or "}

func genExprSrc(r *h.Rand, depth int) string {
	if depth <= 0 {
		return genOperand(r, 0)
	}
	switch r.Intn(10) {
	case 0, 1, 2, 3:
		op := r.Pick(binOps)
		if r.Bool() {
			return genExprSrc(r, depth-1) + op + genExprSrc(r, depth-1)
		}
		return genExprSrc(r, depth-1) + " " + op + " " + genExprSrc(r, depth-1)
	case 4:
		return genExprSrc(r, depth-1) + sp(r) + "?" + sp(r) + genExprSrc(r, depth-1) + sp(r) + ":" + sp(r) + genExprSrc(r, depth-1)
	case 5:
		return r.Pick([]string{"!", "not ", "-", "+"}) + genOperand(r, depth-1)
	}
	return genOperand(r, depth)
}

func genPipeline(r *h.Rand, depth int) string {
	s := genExprSrc(r, depth)
	n := r.Intn(3)
	for i := 0; i < n; i++ {
		s += sp(r) + "|" + sp(r) + r.Pick([]string{"upper", "lower", "raw", "f", "len", "m.F"})
		switch r.Intn(4) {
		case 0:
			s += ": " + genExprSrc(r, 0) + ", " + genExprSrc(r, 0)
		case 1:
			s += "(" + genExprSrc(r, 0) + ", _)"
		}
	}
	return s
}

func genAssign(r *h.Rand) string {
	switch r.Intn(5) {
	case 0:
		return "x := " + genExprSrc(r, 1)
	case 1:
		return "x, _y = " + genExprSrc(r, 0) + ", " + genExprSrc(r, 0)
	case 2:
		return "v, ok := m[" + genExprSrc(r, 0) + "]"
	case 3:
		return "_ := " + genExprSrc(r, 0)
	}
	return "s.A = " + genExprSrc(r, 1)
}

// ---------------------------------------------------------------- template source

var textAlphabet = []string{"a", "b", " ", "  ", "\n", "\t", "\r\n", "\v", "\f", "\u00a0", "\u2028", "\u0085", "{", "}", "*", "-", "é", "日本", "č", "Ġ", "ĉ", "Ċ", "Р", "†", "不", "\U0001f60d", "<b>", "&", "{ {", "}}x"[2:], "%", "[", "]", "<", "#", "@", "\x00", "\xff"}

func genText(r *h.Rand) string {
	n := 1 + r.Intn(6)
	var sb strings.Builder
	for i := 0; i < n; i++ {
		sb.WriteString(r.Pick(textAlphabet))
	}
	return sb.String()
}

type srcGen struct {
	r *h.Rand
	d delims
}

func (g *srcGen) act(body string) string {
	l, rt := g.d.left(), g.d.right()
	if g.r.Chance(15) {
		l += "- "
	} else if g.r.Chance(4) {
		l += "-" + g.r.Pick([]string{"", "\t", "\n", "\r", "  "}) // a minus that is not the trim marker
	} else {
		l += sp(g.r)
	}
	if g.r.Chance(15) {
		rt = " -" + rt
	} else {
		rt = sp(g.r) + rt
	}
	return l + body + rt
}

func (g *srcGen) list(depth int) string {
	n := g.r.Intn(4)
	var sb strings.Builder
	for i := 0; i < n; i++ {
		sb.WriteString(g.stmt(depth))
	}
	return sb.String()
}

func (g *srcGen) stmt(depth int) string {
	r := g.r
	if r.Chance(2) {
		// a clause of some other construct, complete with its own body and end, where a statement belongs
		return g.act(r.Pick([]string{"catch", "catch e", "else", "else if a", "content"})) + genText(r) + r.Pick([]string{"", g.act("end")})
	}
	k := r.Intn(16)
	if depth <= 0 && k >= 6 {
		k = r.Intn(6)
	}
	switch k {
	case 0, 1:
		return genText(r)
	case 2:
		return g.d.lcomment() + genText(r) + g.d.rcomment()
	case 3, 4:
		return g.act(genPipeline(r, 2))
	case 5:
		if r.Bool() {
			return g.act(genAssign(r))
		}
		return g.act(genAssign(r) + "; " + genPipeline(r, 1))
	case 6, 7:
		s := g.act("if "+genExprSrc(r, 2)) + g.list(depth-1)
		for r.Chance(25) {
			s += g.act("else if "+genExprSrc(r, 1)) + g.list(depth-1)
		}
		if r.Bool() {
			s += g.act("else") + g.list(depth-1)
		}
		return s + g.act("end")
	case 8, 9:
		hd := r.Pick([]string{"range ", "range i := ", "range i, v := ", "range k, v = "}) + genExprSrc(r, 1)
		s := g.act(hd) + g.list(depth-1)
		if r.Chance(30) {
			s += g.act("else") + g.list(depth-1)
		}
		return s + g.act("end")
	case 10:
		params := r.Pick([]string{"()", "(p)", "(p, q=1)", "(p=\"d\", q)"})
		ctx := ""
		if r.Chance(30) {
			ctx = " " + genExprSrc(r, 0)
		}
		s := g.act("block "+r.Pick([]string{"b1", "b2", "main"})+params+ctx) + g.list(depth-1)
		if r.Chance(30) {
			s += g.act("content") + g.list(depth-1)
		}
		return s + g.act("end")
	case 11:
		args := r.Pick([]string{"()", "(p=1)", "(q=a, p=2)", "(1)", "(a, b)"})
		ctx := ""
		if r.Chance(30) {
			ctx = " " + genExprSrc(r, 0)
		}
		if r.Chance(30) {
			return g.act("yield "+r.Pick([]string{"b1", "b2", "main"})+args+ctx+" content") + g.list(depth-1) + g.act("end")
		}
		if r.Chance(20) {
			return g.act("yield content" + ctx)
		}
		return g.act("yield " + r.Pick([]string{"b1", "b2", "main"}) + args + ctx)
	case 12:
		ctx := ""
		if r.Chance(30) {
			ctx = " " + genExprSrc(r, 0)
		}
		return g.act("include " + r.Pick([]string{`"/inc.jet"`, `"inc"`, "a", `"p" + a`}) + ctx)
	case 13:
		s := g.act("try") + g.list(depth-1)
		if r.Bool() {
			s += g.act("catch"+r.Pick([]string{"", " err", " e"})) + g.list(depth-1)
		}
		return s + g.act("end")
	case 14:
		return g.act("return " + genExprSrc(r, 1))
	}
	return g.act(genPipeline(r, 1))
}

// genTemplateSrc: a mostly-valid template source in the given delimiters.
func genTemplateSrc(r *h.Rand, d delims, depth int) string {
	g := &srcGen{r: r, d: d}
	var sb strings.Builder
	if r.Chance(12) {
		sb.WriteString(sp(r) + g.act(`extends "/base.jet"`) + sp(r))
	}
	for r.Chance(10) {
		sb.WriteString(g.act(`import "/lib.jet"`) + sp(r))
	}
	n := 1 + r.Intn(5)
	for i := 0; i < n; i++ {
		sb.WriteString(g.stmt(depth))
	}
	return sb.String()
}

var noiseBytes = []string{"٣", "-１", "\x00", "\xff", "\xc3", "\xe2\x82", "\xf0\x9f\x98\x80", "_é", "_", "é", "č", "†", "不", "Ċ", "&", "&&", "|", "||", ".", "..", "'", "\"", "`", "\\", "(", ")", "[", "]", "{{", "}}", "{*", "*}", "- ", " -", "-", "+", "1", "0x", "e", "\n", ":", "=", ":=", "!", "?", ",", ";"}

// mutate: a malformed variant of a valid source
func mutate(r *h.Rand, s string) string {
	if len(s) == 0 {
		return r.Pick(noiseBytes)
	}
	switch r.Intn(6) {
	case 0: // truncate
		return s[:r.Intn(len(s))]
	case 1: // delete a span
		i := r.Intn(len(s))
		j := i + 1 + r.Intn(3)
		if j > len(s) {
			j = len(s)
		}
		return s[:i] + s[j:]
	case 2: // duplicate a span
		i := r.Intn(len(s))
		j := i + 1 + r.Intn(4)
		if j > len(s) {
			j = len(s)
		}
		return s[:j] + s[i:j] + s[j:]
	case 3: // transpose
		if len(s) < 4 {
			return s + s
		}
		i := r.Intn(len(s) - 3)
		return s[:i] + s[i+2:i+4] + s[i:i+2] + s[i+4:]
	default: // insert noise
		i := r.Intn(len(s) + 1)
		return s[:i] + r.Pick(noiseBytes) + s[i:]
	}
}
