package main

import (
	"bytes"
	"fmt"
	"strings"

	"github.com/CloudyKit/jet/v6"

	"jetverif/harness/h"
	"jetverif/harness/sx"
)

// C03.  Stream "segments" (direct oracle): a template is built as a sequence of segments - text
// (arbitrary bytes incl. lone delimiter characters, multi-byte runes, every whitespace mix),
// actions that print a known marker (with or without a trim marker on either side) and comments -
// under a delimiter family; the expected output is assembled from the same segments by the rule the
// property states.  Stream "lex": the same sources through the lexer model.

type seg struct {
	kind      string // text | action | comment
	text      string
	marker    string
	trimL     bool
	trimR     bool
	src       string
	keepsText bool
}

// runs next to actions: the four trimmable bytes, and characters that merely look like space
// (vertical tab, form feed, NEL, no-break space, line separator, ideographic space): those are text
var wsRuns = []string{"", " ", "  ", "\n", "\t", "\r\n", " \n\t ", "\n\n", " \r",
	"\v", "\f", "\u0085", "\u00a0", "\u2028", "\u3000", " \u00a0 ", "\f\n", "\n\v", "\u00a0\t", " \u2003"}
var textBitsC03 = []string{"a", "b c", "é", "日本", "x", "<p>", "&amp;", "'", `"`, "-", "- ", " -", "--", "0", ".", "\\", "\x00", "\xff", "č", "†", "不", "Р", "Ċ", "ĉ", "\U0001f60d"}

func isTrimSpace(c byte) bool { return c == ' ' || c == '\t' || c == '\r' || c == '\n' }

func genSegments(r *h.Rand, d delims) ([]seg, string, string) {
	lone := []string{d.left()[:1], d.right()[:1], d.lcomment()[len(d.lcomment())-1:], d.rcomment(), d.right(), d.right()[len(d.right())-1:]}
	for attempt := 0; attempt < 50; attempt++ {
		var segs []seg
		n := 1 + r.Intn(7)
		if r.Chance(20) {
			// the source opens with blank text cut into several runs by comments (no extends / import follows):
			// every run is text like any other
			for k := 0; k < 2+r.Intn(2); k++ {
				segs = append(segs, seg{kind: "text", text: r.Pick([]string{"\n", " ", "\n\n", "\t\n", "  "})})
				segs = append(segs, seg{kind: "comment", src: d.lcomment() + r.Pick([]string{"c", " header ", ""}) + d.rcomment()})
			}
			if r.Chance(60) {
				segs = append(segs, seg{kind: "text", text: r.Pick([]string{"\n", " ", "\r\n"})})
			}
		}
		for i := 0; i < n; i++ {
			switch pickW(r, "text", 5, "action", 4, "comment", 2) {
			case "text":
				var b strings.Builder
				b.WriteString(r.Pick(wsRuns))
				for k := 0; k < r.Intn(4); k++ {
					if r.Chance(25) {
						b.WriteString(r.Pick(lone))
					} else {
						b.WriteString(r.Pick(textBitsC03))
					}
					if r.Chance(40) {
						b.WriteString(r.Pick(wsRuns))
					}
				}
				b.WriteString(r.Pick(wsRuns))
				if b.Len() == 0 {
					b.WriteString("t")
				}
				if len(segs) > 0 && segs[len(segs)-1].kind == "text" {
					segs[len(segs)-1].text += b.String() // adjacent text is one run
				} else {
					segs = append(segs, seg{kind: "text", text: b.String()})
				}
			case "action":
				s := seg{kind: "action", marker: fmt.Sprintf("M%d;", i), trimL: r.Chance(35), trimR: r.Chance(35)}
				inner := r.Pick([]string{"", " ", "  ", "\n", "\t"})
				body := `"` + s.marker + `"`
				if r.Chance(20) {
					body = `"` + s.marker + `" | raw`
				}
				src := d.left()
				if s.trimL {
					src += "- "
				} else if r.Chance(15) {
					// not a trim marker: a minus followed by something other than one space is a sign / unary minus
					dg := fmt.Sprint(1 + r.Intn(9))
					s.marker = "-" + dg
					inner = ""
					body = "-" + r.Pick([]string{"", "\t", "\n", "\r", "\t ", "\n  "}) + dg
				}
				src += inner + body + r.Pick([]string{"", " ", "\n "})
				if s.trimR {
					src += " -"
				}
				src += d.right()
				s.src = src
				segs = append(segs, s)
			default:
				var b strings.Builder
				for k := 0; k < r.Intn(4); k++ {
					b.WriteString(r.Pick([]string{"c", " ", "\n", d.left(), d.right(), d.lcomment(), "é", `"`, "- ", " -", "*"}))
				}
				body := b.String()
				if r.Chance(25) {
					body = d.rcomment()[1:] + body // looks like the tail of the closing marker right after the opener
				}
				if strings.Contains(body+d.rcomment()[:len(d.rcomment())-1], d.rcomment()) {
					body = "c"
				}
				segs = append(segs, seg{kind: "comment", src: d.lcomment() + body + d.rcomment()})
			}
		}
		// assemble and validate: every occurrence of an opening delimiter is the start of a segment
		var src strings.Builder
		starts := map[int]bool{}
		textRanges := [][2]int{}
		for _, s := range segs {
			if s.kind == "text" {
				textRanges = append(textRanges, [2]int{src.Len(), src.Len() + len(s.text)})
				src.WriteString(s.text)
			} else {
				starts[src.Len()] = true
				src.WriteString(s.src)
			}
		}
		full := src.String()
		ok := true
		for _, tr := range textRanges {
			for p := tr[0]; p < tr[1]; p++ {
				if strings.HasPrefix(full[p:], d.left()) || strings.HasPrefix(full[p:], d.lcomment()) {
					ok = false
				}
			}
		}
		if !ok {
			continue
		}
		// expected output, by the rule of the property
		var out bytes.Buffer
		for i, s := range segs {
			switch s.kind {
			case "text":
				t := s.text
				// a right trim marker of the action (not comment) immediately before removes the leading run
				if i > 0 && segs[i-1].kind == "action" && segs[i-1].trimR {
					k := 0
					for k < len(t) && isTrimSpace(t[k]) {
						k++
					}
					t = t[k:]
				}
				if i+1 < len(segs) && segs[i+1].kind == "action" && segs[i+1].trimL {
					k := len(t)
					for k > 0 && isTrimSpace(t[k-1]) {
						k--
					}
					t = t[:k]
				}
				out.WriteString(t)
			case "action":
				out.WriteString(s.marker)
			}
		}
		return segs, full, out.String()
	}
	return nil, "plain", "plain"
}

func setWithDelims(files map[string]string, d delims) *jet.Set {
	ld := jet.NewInMemLoader()
	for p, c := range files {
		ld.Set(p, c)
	}
	opts := []jet.Option{}
	if d.L != "" || d.R != "" {
		opts = append(opts, jet.WithDelims(d.L, d.R))
	}
	if d.LC != "" || d.RC != "" {
		opts = append(opts, jet.WithCommentDelims(d.LC, d.RC))
	}
	if len(opts) == 2 && len(files)%2 == 1 || len(opts) == 2 && len(d.L)%2 == 1 {
		opts[0], opts[1] = opts[1], opts[0] // options commute
	}
	return jet.NewSet(ld, opts...)
}

func init() {
	// (render-segments L R LC RC src expected)
	h.RegisterImpl("render-segments", func(cmd, _ *sx.Sexp) (*sx.Sexp, string) {
		d, src := cmdDelims(cmd)
		want := string(bytesArg(cmd, 6))
		set := setWithDelims(map[string]string{"/t.jet": src}, d)
		t, err := set.GetTemplate("/t.jet")
		if err != nil {
			return sx.L(sx.A("parse-error"), sx.S(err.Error())), "a template built from text, marker actions and comments did not parse: " + clipS(err.Error())
		}
		var buf bytes.Buffer
		xerr := executeContained(t, &buf, nil, nil)
		if xerr != nil {
			return sx.L(sx.A("err"), sx.S(xerr.Error())), "executing marker actions failed: " + clipS(xerr.Error())
		}
		if buf.String() != want {
			return sx.L(sx.A("ok"), sx.S(buf.String())), fmt.Sprintf("rendered %q, the segments demand %q", clipS(buf.String()), clipS(want))
		}
		return sx.L(sx.A("ok"), sx.S(buf.String())), ""
	})
	h.RegisterProp(&h.Prop{ID: "C03", Gen: func(r *h.Rand, tier string) []h.Case {
		n := 800
		if tier == "search" {
			n = 3000
		} else if tier != "quick" {
			n = 30000
		}
		var cs []h.Case
		for i := 0; i < n; i++ {
			d := pickDelims(r)
			segs, src, want := genSegments(r, d)
			tags := []string{}
			kinds := map[string]bool{}
			for _, s := range segs {
				kinds[s.kind] = true
				if s.trimL || s.trimR {
					kinds["trim"] = true
				}
			}
			for k := range kinds {
				tags = append(tags, k)
			}
			if d.L != "" {
				tags = append(tags, "custom-delims")
			}
			if d.LC != "" {
				tags = append(tags, "custom-comment-delims")
			}
			cs = append(cs, h.Case{Stream: "segments", NoModel: true, NonTrivial: len(segs) > 1, Tags: tags,
				Cmd: sx.L(sx.A("render-segments"), sx.S(d.L), sx.S(d.R), sx.S(d.LC), sx.S(d.RC), sx.S(src), sx.S(want))})
			cs = append(cs, h.Case{Stream: "lex", Cmd: lexCmd(d, src), NonTrivial: len(src) > 8, Tags: tags})
		}
		// the general source generator (and its mutations) through the lexer model as well
		for i := 0; i < n/2; i++ {
			d := pickDelims(r)
			src := genTemplateSrc(r, d, 2)
			if i%2 == 1 {
				src = mutate(r, src)
			}
			cs = append(cs, h.Case{Stream: "lex", Cmd: lexCmd(d, src), NonTrivial: len(src) > 8})
		}
		return cs
	}})
}
