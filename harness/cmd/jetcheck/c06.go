package main

import (
	"bytes"
	"fmt"
	"reflect"
	"sort"
	"strings"

	"github.com/CloudyKit/jet/v6"

	"jetverif/harness/h"
	"jetverif/harness/sx"
)

// C06.  Stream "cache": random struct types (reflect.StructOf: exported / unexported fields,
// embedded structs and embedded struct pointers to depth 4, clashing names) - the real buildCache
// (hook VerifBuildCache) vs the model's.  Stream "structs" (direct oracle): a value of such a type
// with a unique value in every leaf; `.Name` and `.["Name"]` must render the value Go's own
// selector rule reaches, unexported / missing names and nil embedded pointers must be errors.

type sField struct {
	name     string
	exported bool
	anon     bool
	kind     string // int | str | struct | ptr
	sub      []sField
	nilPtr   bool
}

var sNames = []string{"A", "B", "C", "Name", "First", "Last", "x", "hid"}

func genStructType(r *h.Rand, depth int, tag string) []sField {
	n := 1 + r.Intn(4)
	var fs []sField
	used := map[string]bool{}
	for i := 0; i < n; i++ {
		name := r.Pick(sNames)
		if used[name] {
			name = fmt.Sprintf("%s%d", name, i)
		}
		used[name] = true
		f := sField{name: name}
		f.exported = name[0] >= 'A' && name[0] <= 'Z'
		switch k := pickW(r, "int", 4, "str", 3, "struct", 3, "ptr", 1); {
		case (k == "struct" || k == "ptr") && depth > 0:
			f.kind = k
			f.anon = r.Chance(80)
			if f.anon {
				// an embedded field's name is its type's name: make it distinctive
				f.name = fmt.Sprintf("E%s%d", tag, i)
				f.exported = true // reflect.StructOf cannot build unexported embedded fields
			}
			f.sub = genStructType(r, depth-1, fmt.Sprintf("%s%d", tag, i))
			f.nilPtr = k == "ptr" && r.Chance(40)
		case k == "str":
			f.kind = "str"
		default:
			f.kind = "int"
		}
		fs = append(fs, f)
	}
	return fs
}

func typeSexp(fs []sField) *sx.Sexp {
	out := sx.L()
	for _, f := range fs {
		out.Add(sx.L(sx.S(f.name), sx.Bool(f.exported), sx.Bool(f.anon), sx.A(f.kind), typeSexp(f.sub), sx.Bool(f.nilPtr)))
	}
	return out
}

func readType(x *sx.Sexp) []sField {
	var fs []sField
	for _, e := range x.Xs {
		fs = append(fs, sField{name: string(e.Xs[0].B), exported: e.Xs[1].A == "true", anon: e.Xs[2].A == "true", kind: e.Xs[3].A, sub: readType(e.Xs[4]), nilPtr: len(e.Xs) > 5 && e.Xs[5].A == "true"})
	}
	return fs
}

func reflectType(fs []sField) reflect.Type {
	var sf []reflect.StructField
	for _, f := range fs {
		x := reflect.StructField{Name: f.name, Anonymous: f.anon}
		if !f.exported {
			x.PkgPath = "jetverif/zoo"
		}
		switch f.kind {
		case "int":
			x.Type = reflect.TypeOf(0)
		case "str":
			x.Type = reflect.TypeOf("")
		case "struct":
			x.Type = reflectType(f.sub)
		case "ptr":
			x.Type = reflect.PtrTo(reflectType(f.sub))
		}
		sf = append(sf, x)
	}
	return reflect.StructOf(sf)
}

// fill stores a unique value in every settable leaf; returns leaf path -> printed value
func fillValue(v reflect.Value, fs []sField, ctr *int, path string, out map[string]string) {
	for i, f := range fs {
		fv := v.Field(i)
		p := path + "/" + fmt.Sprint(i)
		switch f.kind {
		case "int":
			*ctr++
			if fv.CanSet() {
				fv.SetInt(int64(1000 + *ctr))
				out[p] = fmt.Sprint(1000 + *ctr)
			}
		case "str":
			*ctr++
			if fv.CanSet() {
				fv.SetString(fmt.Sprintf("s<%d>", *ctr))
				out[p] = htmlEsc(fmt.Sprintf("s<%d>", *ctr))
			}
		case "struct":
			fillValue(fv, f.sub, ctr, p, out)
		case "ptr":
			if !f.nilPtr && fv.CanSet() {
				nv := reflect.New(fv.Type().Elem())
				fillValue(nv.Elem(), f.sub, ctr, p, out)
				fv.Set(nv)
			}
		}
	}
}

// Go's selector rule: the shallowest depth at which the name occurs (descending through embedded
// structs and embedded struct pointers); more than one occurrence there is ambiguous.
type sHit struct {
	path   string
	f      sField
	viaNil bool
	viaHid bool // reached through an unexported embedded field
	viaPtr bool
}

func selectField(fs []sField, name string) (hits []sHit) {
	type lvl struct {
		fs     []sField
		path   string
		viaNil bool
		viaHid bool
		viaPtr bool
	}
	cur := []lvl{{fs: fs}}
	for len(cur) > 0 {
		var next []lvl
		for _, l := range cur {
			for i, f := range l.fs {
				p := l.path + "/" + fmt.Sprint(i)
				if f.name == name {
					hits = append(hits, sHit{path: p, f: f, viaNil: l.viaNil, viaHid: l.viaHid, viaPtr: l.viaPtr})
				}
				if f.anon && (f.kind == "struct" || f.kind == "ptr") {
					next = append(next, lvl{fs: f.sub, path: p, viaNil: l.viaNil || f.nilPtr, viaHid: l.viaHid || !f.exported, viaPtr: l.viaPtr || f.kind == "ptr"})
				}
			}
		}
		if len(hits) > 0 {
			return hits
		}
		cur = next
	}
	return nil
}

func allNames(fs []sField, out map[string]bool) {
	for _, f := range fs {
		out[f.name] = true
		allNames(f.sub, out)
	}
}

func genStructCases(r *h.Rand) []h.Case {
	ty := genStructType(r, 1+r.Intn(4), "")
	ts := typeSexp(ty)
	names := map[string]bool{"Missing": true}
	allNames(ty, names)
	var nl []string
	for n := range names {
		nl = append(nl, n)
	}
	sort.Strings(nl)
	q := sx.L()
	for _, n := range nl {
		q.Add(sx.S(n))
	}
	return []h.Case{
		{Stream: "cache", NonTrivial: len(ty) > 1, Cmd: sx.L(sx.A("buildcache"), stripNil(ts))},
		{Stream: "structs", NonTrivial: true, NoModel: true, Cmd: sx.L(sx.A("struct-access"), ts, q, sx.A(r.Pick([]string{"fwd", "rev"})))},
	}
}

// the model's reader takes 5-element field entries
func stripNil(ts *sx.Sexp) *sx.Sexp {
	out := sx.L()
	for _, e := range ts.Xs {
		out.Add(sx.L(e.Xs[0], e.Xs[1], e.Xs[2], e.Xs[3], stripNil(e.Xs[4])))
	}
	return out
}

func init() {
	h.RegisterImpl("buildcache", func(cmd, meta *sx.Sexp) (*sx.Sexp, string) {
		fs := readType(cmd.Xs[1])
		typ := reflectType(fs)
		cache := jet.VerifBuildCache(typ)
		var names []string
		for k := range cache {
			names = append(names, k)
		}
		sort.Strings(names)
		out := sx.L(sx.A("cache"))
		oracle := ""
		for _, k := range names {
			p := sx.L()
			for _, i := range cache[k] {
				p.Add(sx.I(int64(i)))
			}
			out.Add(sx.L(sx.S(k), p))
			// direct oracle: the path leads to a field of that name
			func() {
				defer func() {
					if e := recover(); e != nil && oracle == "" {
						oracle = fmt.Sprintf("cache[%q] = %v is not a valid index path: %v", k, cache[k], e)
					}
				}()
				if f := typ.FieldByIndex(cache[k]); f.Name != k && oracle == "" {
					oracle = fmt.Sprintf("cache[%q] = %v leads to field %q", k, cache[k], f.Name)
				}
			}()
		}
		return out, oracle
	})
	h.ModelNormalizers["buildcache"] = func(m *sx.Sexp) *sx.Sexp {
		if m.K != sx.List || len(m.Xs) == 0 || m.Xs[0].A != "cache" {
			return m
		}
		es := m.Xs[1:]
		sort.SliceStable(es, func(i, j int) bool { return bytes.Compare(es[i].Xs[0].B, es[j].Xs[0].B) < 0 })
		return m
	}
	h.RegisterImpl("struct-access", func(cmd, meta *sx.Sexp) (*sx.Sexp, string) {
		// the same struct type is used twice in this process: once with every embedded pointer set and
		// once with the generated nil pointers, in either order - what the first use leaves in the
		// process-wide field cache must not change what the second one sees
		gen := readType(cmd.Xs[1])
		full := clearNil(gen)
		order := [][]sField{full, gen}
		if len(cmd.Xs) > 3 && cmd.Xs[3].A == "rev" {
			order = [][]sField{gen, full}
		}
		out := sx.L(sx.A("access2"))
		for _, fs := range order {
			o, fail := structAccessOnce(fs, cmd.Xs[2])
			out.Add(o)
			if fail != "" {
				return out, fail
			}
		}
		return out, ""
	})
}

func clearNil(fs []sField) []sField {
	out := make([]sField, len(fs))
	for i, f := range fs {
		f.nilPtr = false
		f.sub = clearNil(f.sub)
		out[i] = f
	}
	return out
}

func structAccessOnce(fs []sField, names *sx.Sexp) (*sx.Sexp, string) {
	{
		typ := reflectType(fs)
		v := reflect.New(typ).Elem()
		ctr := 0
		leaves := map[string]string{}
		fillValue(v, fs, &ctr, "", leaves)
		data := v.Interface()
		out := sx.L(sx.A("access"))
		oracle := ""
		files := map[string]string{}
		for i, n := range names.Xs {
			files[fmt.Sprintf("/d%d.jet", i)] = "[{{ ." + string(n.B) + " }}]"
			files[fmt.Sprintf("/i%d.jet", i)] = `[{{ .["` + string(n.B) + `"] }}]`
		}
		set := newSetFor(files, "html", nil)
		run := func(p string) string {
			t, err := set.GetTemplate(p)
			if err != nil {
				return "parse-error"
			}
			var buf bytes.Buffer
			xerr := executeContained(t, &buf, nil, data)
			if ce, isCrash := xerr.(crashErr); isCrash {
				return "crash: " + ce.msg
			}
			if xerr != nil {
				return "err"
			}
			return "ok " + buf.String()
		}
		for i, n := range names.Xs {
			name := string(n.B)
			d := run(fmt.Sprintf("/d%d.jet", i))
			ix := run(fmt.Sprintf("/i%d.jet", i))
			out.Add(sx.L(sx.S(name), sx.S(d), sx.S(ix)))
			if oracle != "" {
				continue
			}
			fail := func(f string, a ...interface{}) {
				oracle = fmt.Sprintf("field %q of %s: ", name, describeType(fs)) + fmt.Sprintf(f, a...)
			}
			if strings.HasPrefix(d, "crash") || strings.HasPrefix(ix, "crash") {
				fail("Execute panicked (%s / %s)", d, ix)
				continue
			}
			hits := selectField(fs, name)
			switch {
			case len(hits) == 0:
				if d != "err" || ix != "err" {
					fail("no such field, but .%s gives %q and .[%q] gives %q", name, d, name, ix)
				}
			case len(hits) > 1:
				// ambiguous in Go: any of the candidates' values, or an error, but nothing else
				okv := map[string]bool{"err": true}
				for _, hh := range hits {
					if val, isLeaf := leaves[hh.path]; isLeaf {
						okv["ok ["+val+"]"] = true
					} else {
						okv[d] = true // a struct-valued candidate: printed form not checked
					}
				}
				if !okv[d] || d != ix && !(okv[ix]) {
					fail("ambiguous selector renders %q / %q, none of the candidates' values", d, ix)
				}
			default:
				hh := hits[0]
				val, isLeaf := leaves[hh.path]
				switch {
				case !hh.f.exported:
					if d != "err" || ix != "err" {
						fail("unexported field, but access gives %q / %q", d, ix)
					}
				case hh.viaNil:
					if d != "err" || ix != "err" {
						fail("reached through a nil embedded pointer, but access gives %q / %q", d, ix)
					}
				case isLeaf:
					if d != "ok ["+val+"]" {
						fail(".%s renders %q, the stored value is %q", name, d, val)
					} else if ix != d {
						fail(".[%q] renders %q but .%s renders %q", name, ix, name, d)
					}
				default:
					if d != ix {
						fail(".[%q] renders %q but .%s renders %q", name, ix, name, d)
					}
				}
			}
		}
		return out, oracle
	}
}

func init() {
	h.RegisterProp(&h.Prop{ID: "C06", Gen: func(r *h.Rand, tier string) []h.Case {
		n := 300
		if tier == "search" {
			n = 1200
		} else if tier != "quick" {
			n = 8000
		}
		var cs []h.Case
		for i := 0; i < n; i++ {
			cs = append(cs, genStructCases(r)...)
		}
		for i := 0; i < 25; i++ {
			cs = append(cs, genMethodCase(r))
		}
		for i := 0; i < n; i++ {
			cs = append(cs, evalCase("eval", genProgram(r, "fields")))
		}
		for i := 0; i < n/2; i++ {
			cs = append(cs, oracleCase("oracle", r, "fields"))
		}
		return cs
	}})
}

func describeType(fs []sField) string {
	var b strings.Builder
	b.WriteString("struct{")
	for i, f := range fs {
		if i > 0 {
			b.WriteString("; ")
		}
		if f.anon {
			b.WriteString("embedded ")
		}
		b.WriteString(f.name)
		switch f.kind {
		case "struct":
			b.WriteString(" " + describeType(f.sub))
		case "ptr":
			if f.nilPtr {
				b.WriteString(" nil*" + describeType(f.sub))
			} else {
				b.WriteString(" *" + describeType(f.sub))
			}
		default:
			b.WriteString(" " + f.kind)
		}
	}
	b.WriteString("}")
	return b.String()
}

// ---- methods vs promoted fields (static types: reflect.StructOf cannot attach methods)

type EmbF struct {
	F string
	G int
}
type methV struct{ EmbF }

func (methV) F() string { return "method-F" }

type methP struct{ EmbF }

func (*methP) F() string { return "pmethod-F" }

type methDeep struct {
	methV
	H string
}
type methNone struct {
	EmbF
	H string
}

func (methNone) Other() string { return "other" }

// value and pointer methods on one type: the method sets of T and *T number them differently
type mixM struct{ N string }

func (m mixM) Zed() string    { return "zed:" + m.N }
func (m *mixM) Alpha() string { return "alpha:" + m.N }
func (m mixM) Mid() string    { return "mid:" + m.N }

// struct types that embed a pointer to themselves, directly or through another type: only a value can
// end such a chain, the type does not
type CycNode struct {
	*CycNode
	Label string
}
type CycPage struct {
	*CycSite
	Title string
}
type CycSite struct {
	*CycPage
	Host string
}

// exported method (and field) names need not start with an ASCII letter: one-, two- and three-byte upper-case initials
type uniM struct{ Ếch string }

func (uniM) Name() string            { return "name" }
func (uniM) Über() string            { return "ueber" }
func (uniM) Ấn() string              { return "an" }
func (*uniM) Ḃump() string           { return "bump" }
func (uniM) Ｗide(s string) string    { return "wide:" + s }
func (uniM) Ωmega() string           { return "omega" }

type uniMap map[string]int

func (uniMap) Ẩn() string { return "map-an" }

type mixHolder struct {
	V mixM
	P *mixM
	M map[string]interface{}
}

func init() {
	h.RegisterImpl("method-access", func(cmd, _ *sx.Sexp) (*sx.Sexp, string) {
		which := cmd.Xs[1].A
		emb := EmbF{F: "field-F", G: 7}
		var data interface{}
		wantF := ""
		switch which {
		case "valueMethod":
			data, wantF = methV{emb}, "method-F"
		case "valueMethodPtr":
			data, wantF = &methV{emb}, "method-F"
		case "ptrMethod":
			data, wantF = &methP{emb}, "pmethod-F"
		case "deep":
			data, wantF = methDeep{methV{emb}, "h"}, "method-F"
		case "mixed", "mixedRev":
			data = mixHolder{V: mixM{"v"}, P: &mixM{"p"}, M: map[string]interface{}{"v": mixM{"m"}, "p": &mixM{"mp"}}}
		case "unicode":
			data = map[string]interface{}{"v": uniM{"frog"}, "p": &uniM{"pfrog"}, "d": uniMap{"k": 1}}
		case "cycSelf":
			data = CycNode{&CycNode{nil, "in"}, "out"}
		case "cycPair":
			data = &CycPage{&CycSite{nil, "host"}, "title"}
		default:
			data, wantF = methNone{emb, "h"}, ""
		}
		type q struct{ src, want string }
		qs := []q{{`{{ .G }}`, "7"}, {`{{ .EmbF.F }}`, "field-F"}, {`{{ .EmbF.G + 1 }}`, "8"}}
		if which == "unicode" {
			qs = []q{{`{{ .v.Name() }}|{{ .v.Über() }}|{{ .v.Ωmega() }}`, "name|ueber|omega"}, {`{{ .v.Ấn() }}`, "an"}, {`{{ .p.Ấn() }}|{{ .p.Ḃump() }}`, "an|bump"},
				{`{{ .v.Ｗide("x") }}`, "wide:x"}, {`{{ .v.Ếch }}|{{ .p.Ếch }}|{{ .v["Ếch"] }}`, "frog|pfrog|frog"}, {`{{ .d.Ẩn() }}|{{ .d.k }}`, "map-an|1"},
				{`{{ isset(.v.Ấn) }}|{{ isset(.d.Ẩn) }}|{{ isset(.v.Nope) }}`, "true|true|false"}, {`{{ x := .v.Ấn }}{{ x() }}`, "an"}, {`{{ .v.Ḃump() }}`, "ERR"}}
		} else if which == "cycSelf" {
			qs = []q{{`{{ .Label }}`, "out"}, {`{{ .CycNode.Label }}`, "in"}, {`{{ isset(.Label) }}|{{ isset(.Missing) }}`, "true|false"},
				{`{{ .["Label"] }}`, "out"}, {`{{ .CycNode.CycNode.Label }}`, "ERR"}, {`{{ .Missing }}`, "ERR"}}
		} else if which == "cycPair" {
			qs = []q{{`{{ .Title }}`, "title"}, {`{{ .Host }}`, "host"}, {`{{ .CycSite.Host }}`, "host"}, {`{{ isset(.CycSite.CycPage.Title) }}`, "false"},
				{`{{ .CycSite.CycPage.Title }}`, "ERR"}, {`{{ .Missing }}`, "ERR"}}
		} else
		if which == "mixed" || which == "mixedRev" {
			qs = []q{{`{{ .V.Zed() }}`, "zed:v"}, {`{{ .P.Zed() }}`, "zed:p"}, {`{{ .P.Alpha() }}`, "alpha:p"}, {`{{ .M.v.Zed() }}`, "zed:m"},
				{`{{ .M.p.Alpha() }}`, "alpha:mp"}, {`{{ .V.Mid() }}|{{ .P.Mid() }}`, "mid:v|mid:p"}, {`{{ .V.Alpha() }}`, "ERR"}, {`{{ .M.v.Alpha() }}`, "ERR"},
				{`{{ .M.p.Zed() }}|{{ .M.v.Mid() }}`, "zed:mp|mid:m"}}
			if which == "mixedRev" {
				for i, j := 0, len(qs)-1; i < j; i, j = i+1, j-1 {
					qs[i], qs[j] = qs[j], qs[i]
				}
			}
		} else if which == "cycSelf" || which == "cycPair" || which == "unicode" {
		} else if wantF != "" {
			qs = append(qs, q{`{{ .F() }}`, wantF}, q{`{{ x := .F }}{{ x() }}`, wantF})
		} else {
			qs = append(qs, q{`{{ .F }}`, "field-F"}, q{`{{ .["F"] }}`, "field-F"}, q{`{{ .Other() }}`, "other"})
		}
		if which == "deep" {
			qs = append(qs, q{`{{ .H }}`, "h"}, q{`{{ .methV.G }}`, "ERR"})
		}
		files := map[string]string{}
		for i, x := range qs {
			files[fmt.Sprintf("/m%d.jet", i)] = x.src
		}
		set := newSetFor(files, "html", nil)
		out := sx.L(sx.A("methods"))
		oracle := ""
		for i, x := range qs {
			t, err := set.GetTemplate(fmt.Sprintf("/m%d.jet", i))
			got := ""
			if err != nil {
				got = "PARSE"
			} else {
				var buf bytes.Buffer
				xerr := executeContained(t, &buf, nil, data)
				switch {
				case xerr == nil:
					got = buf.String()
				default:
					if ce, isCrash := xerr.(crashErr); isCrash && !ce.callee {
						got = "PANIC " + ce.msg
					} else {
						got = "ERR"
					}
				}
			}
			out.Add(sx.L(sx.S(x.src), sx.S(got)))
			if got != x.want && oracle == "" {
				oracle = fmt.Sprintf("%s on %T renders %q, Go's selector rule (a method hides a deeper promoted field) demands %q", x.src, data, got, x.want)
			}
		}
		return out, oracle
	})
}

var methodKindNext int

func genMethodCase(r *h.Rand) h.Case {
	// every kind in turn (the cases are deterministic: each kind once is what matters), then at random
	kinds := []string{"valueMethod", "valueMethodPtr", "ptrMethod", "deep", "none", "mixed", "mixedRev", "cycSelf", "cycPair", "unicode"}
	w := r.Pick(kinds)
	if methodKindNext < len(kinds) {
		w = kinds[methodKindNext]
		methodKindNext++
	}
	return h.Case{Stream: "methods", NoModel: true, NonTrivial: true, Tags: []string{w}, Cmd: sx.L(sx.A("method-access"), sx.A(w))}
}
