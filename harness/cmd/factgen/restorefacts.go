package main

import (
	"fmt"
	"go/ast"
	"go/token"
	"strings"
)

// ---- F14: the save / restore idioms of the evaluator (eval.go, exec.go, default.go): for every function
// (and every built-in defined by a function literal in default.go's table) the ordered list of
//   new            st.newScope()
//   release        st.releaseScope()            (an ordinary statement: skipped when the body panics)
//   defer-release  defer st.releaseScope()
//   set F          st.F = …  for F in scope, context, content, Writer (ordinary statement)
//   defer-set F    the same inside a deferred function literal
//   recover        a call of recover() inside a deferred function literal
//   handler-new / handler-release   newScope / releaseScope inside a deferred function literal
// The model's scoping combinators (withNewScopeND / withNewScopeD / withCtxND / withCtxD / withWriterD /
// withScopeContentD, executeTry's and isSet's handlers) are a transcription of exactly these lists.
func genRestoreFacts() {
	watched := map[string]bool{"scope": true, "context": true, "content": true, "Writer": true}
	recvNames := map[string]bool{"st": true, "a.runtime": true, "state": true, "r": true, "rt": true}
	var rows []string
	emitRow := func(name string, evs []string) {
		if len(evs) == 0 {
			return
		}
		rows = append(rows, fmt.Sprintf("(%s, %s)", leanStr(name), leanStrList(evs)))
	}
	var scan func(n ast.Node, deferred bool, evs *[]string)
	scan = func(n ast.Node, deferred bool, evs *[]string) {
		ast.Inspect(n, func(m ast.Node) bool {
			switch x := m.(type) {
			case *ast.DeferStmt:
				if fl, ok := x.Call.Fun.(*ast.FuncLit); ok {
					scan(fl.Body, true, evs)
					return false
				}
				r := render(x.Call.Fun)
				if strings.HasSuffix(r, ".releaseScope") {
					*evs = append(*evs, "defer-release")
				} else if strings.HasSuffix(r, ".newScope") {
					*evs = append(*evs, "defer-new")
				} else if strings.HasSuffix(r, ".recover") {
					*evs = append(*evs, "defer-recover-method")
				}
				return false
			case *ast.FuncLit:
				// a closure stored for later (st.content = func…): its own row, keyed by the enclosing name
				return true
			case *ast.CallExpr:
				r := render(x.Fun)
				switch {
				case strings.HasSuffix(r, ".newScope"):
					if deferred {
						*evs = append(*evs, "handler-new")
					} else {
						*evs = append(*evs, "new")
					}
				case strings.HasSuffix(r, ".releaseScope"):
					if deferred {
						*evs = append(*evs, "handler-release")
					} else {
						*evs = append(*evs, "release")
					}
				case r == "recover":
					*evs = append(*evs, "recover")
				}
			case *ast.AssignStmt:
				if x.Tok != token.ASSIGN {
					return true
				}
				for _, l := range x.Lhs {
					sel, ok := l.(*ast.SelectorExpr)
					if !ok || !watched[sel.Sel.Name] || !recvNames[render(sel.X)] {
						continue
					}
					if deferred {
						*evs = append(*evs, "defer-set "+sel.Sel.Name)
					} else {
						*evs = append(*evs, "set "+sel.Sel.Name)
					}
				}
			}
			return true
		})
	}
	for _, file := range []string{"eval.go", "exec.go", "default.go"} {
		f := parseFile(file)
		if f == nil {
			rows = append(rows, fmt.Sprintf("(%s, [\"unknownShape\"])", leanStr(file)))
			continue
		}
		for _, d := range f.Decls {
			switch fd := d.(type) {
			case *ast.FuncDecl:
				if fd.Body == nil {
					continue
				}
				name := fd.Name.Name
				if fd.Recv != nil && len(fd.Recv.List) == 1 {
					t := fd.Recv.List[0].Type
					if st, ok := t.(*ast.StarExpr); ok {
						t = st.X
					}
					name = render(t) + "." + name
				}
				if file == "default.go" && fd.Name.Name == "init" {
					// the built-in table: one row per entry defined by a function literal
					ast.Inspect(fd.Body, func(m ast.Node) bool {
						kv, ok := m.(*ast.KeyValueExpr)
						if !ok {
							return true
						}
						key := strings.Trim(render(kv.Key), "\"")
						var evs []string
						scan(kv.Value, false, &evs)
						emitRow("builtin "+key, evs)
						return false
					})
					continue
				}
				var evs []string
				scan(fd.Body, false, &evs)
				emitRow(name, evs)
			case *ast.GenDecl:
				if file != "default.go" {
					continue
				}
				ast.Inspect(fd, func(m ast.Node) bool {
					kv, ok := m.(*ast.KeyValueExpr)
					if !ok {
						return true
					}
					key := strings.Trim(render(kv.Key), "\"")
					var evs []string
					scan(kv.Value, false, &evs)
					emitRow("builtin "+key, evs)
					return false
				})
			}
		}
	}
	fmt.Fprintf(&out, "/-- F14: save / restore idioms of the evaluator, per function, in source order -/\n")
	fmt.Fprintf(&out, "def restoreSites : List (String × List String) := [\n  %s]\n\n", strings.Join(rows, ",\n  "))
}

func init() { generators = append(generators, genRestoreFacts) }
