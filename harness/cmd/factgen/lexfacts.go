package main

import (
	"bytes"
	"fmt"
	"go/ast"
	"go/printer"
	"go/token"
	"strconv"
	"strings"
)

func render(n ast.Node) string {
	var b bytes.Buffer
	printer.Fprint(&b, fset, n)
	return strings.Join(strings.Fields(b.String()), " ")
}

// 'c' literal -> code point
func charLit(e ast.Expr) (int, bool) {
	bl, ok := e.(*ast.BasicLit)
	if !ok || bl.Kind != token.CHAR {
		return 0, false
	}
	s, err := strconv.Unquote(bl.Value)
	if err != nil || len([]rune(s)) != 1 {
		return 0, false
	}
	return int([]rune(s)[0]), true
}

// matches `r == 'c'`
func rEqChar(e ast.Expr) (int, bool) {
	be, ok := e.(*ast.BinaryExpr)
	if !ok || be.Op != token.EQL {
		return 0, false
	}
	if id, ok := be.X.(*ast.Ident); !ok || id.Name != "r" {
		return 0, false
	}
	return charLit(be.Y)
}

// matches `l.emit(itemX)` statement
func emitStmt(s ast.Stmt) (string, bool) {
	es, ok := s.(*ast.ExprStmt)
	if !ok {
		return "", false
	}
	return emitCall(es.X)
}

func emitCall(e ast.Expr) (string, bool) {
	ce, ok := e.(*ast.CallExpr)
	if !ok || len(ce.Args) != 1 {
		return "", false
	}
	se, ok := ce.Fun.(*ast.SelectorExpr)
	if !ok || se.Sel.Name != "emit" {
		return "", false
	}
	id, ok := ce.Args[0].(*ast.Ident)
	if !ok {
		return "", false
	}
	return id.Name, true
}

func isCallStmt(s ast.Stmt, name string) bool {
	es, ok := s.(*ast.ExprStmt)
	if !ok {
		return false
	}
	ce, ok := es.X.(*ast.CallExpr)
	if !ok || len(ce.Args) != 0 {
		return false
	}
	se, ok := ce.Fun.(*ast.SelectorExpr)
	return ok && se.Sel.Name == name
}

// matches `l.next() == 'c'`
func nextEqChar(e ast.Expr) (int, bool) {
	be, ok := e.(*ast.BinaryExpr)
	if !ok || be.Op != token.EQL {
		return 0, false
	}
	ce, ok := be.X.(*ast.CallExpr)
	if !ok {
		return 0, false
	}
	se, ok := ce.Fun.(*ast.SelectorExpr)
	if !ok || se.Sel.Name != "next" {
		return 0, false
	}
	return charLit(be.Y)
}

// sign arm: if r := l.peek(); '0' <= r && r <= '9' && A != l.lastType && ... { l.backup(); return lexNumber }; l.emit(itemT)
func signArm(body []ast.Stmt) (excl []string, tok string, ok bool) {
	if len(body) != 2 {
		return nil, "", false
	}
	is, isIf := body[0].(*ast.IfStmt)
	if !isIf || is.Init == nil || is.Else != nil {
		return nil, "", false
	}
	if render(is.Init) != "r := l.peek()" {
		return nil, "", false
	}
	// flatten conjunction
	var conj []ast.Expr
	var flat func(e ast.Expr)
	flat = func(e ast.Expr) {
		if be, isB := e.(*ast.BinaryExpr); isB && be.Op == token.LAND {
			flat(be.X)
			flat(be.Y)
			return
		}
		conj = append(conj, e)
	}
	flat(is.Cond)
	if len(conj) < 2 || render(conj[0]) != "'0' <= r" || render(conj[1]) != "r <= '9'" {
		return nil, "", false
	}
	for _, c := range conj[2:] {
		be, isB := c.(*ast.BinaryExpr)
		if !isB || be.Op != token.NEQ {
			return nil, "", false
		}
		x, y := render(be.X), render(be.Y)
		switch {
		case y == "l.lastType":
			excl = append(excl, x)
		case x == "l.lastType":
			excl = append(excl, y)
		default:
			return nil, "", false
		}
	}
	if len(is.Body.List) != 2 || !isCallStmt(is.Body.List[0], "backup") || render(is.Body.List[1]) != "return lexNumber" {
		return nil, "", false
	}
	tok, ok = emitStmt(body[1])
	return excl, tok, ok
}

func genLexFacts() {
	f := parseFile("lex.go")
	shapeOK := true
	bad := func(where string) {
		shapeOK = false
		fmt.Fprintf(&out, "-- unknownShape %s\n", where)
	}
	// --- item type constants in order
	var itemNames []string
	if f != nil {
		for _, d := range f.Decls {
			gd, ok := d.(*ast.GenDecl)
			if !ok || gd.Tok != token.CONST {
				continue
			}
			first, ok := gd.Specs[0].(*ast.ValueSpec)
			if !ok || first.Type == nil || render(first.Type) != "itemType" {
				continue
			}
			for _, s := range gd.Specs {
				vs := s.(*ast.ValueSpec)
				for _, n := range vs.Names {
					itemNames = append(itemNames, n.Name)
				}
			}
		}
	}
	if len(itemNames) == 0 {
		bad("lex.go itemType const block")
	}
	fmt.Fprintf(&out, "def itemTypes : List String := %s\n\n", leanStrList(itemNames))
	// --- keyword map
	var kws []string
	if f != nil {
		for _, d := range f.Decls {
			gd, ok := d.(*ast.GenDecl)
			if !ok || gd.Tok != token.VAR {
				continue
			}
			for _, s := range gd.Specs {
				vs := s.(*ast.ValueSpec)
				if len(vs.Names) == 1 && vs.Names[0].Name == "key" && len(vs.Values) == 1 {
					if cl, ok := vs.Values[0].(*ast.CompositeLit); ok {
						for _, e := range cl.Elts {
							kv, ok := e.(*ast.KeyValueExpr)
							if !ok {
								bad("lex.go key map element")
								continue
							}
							k, ok1 := kv.Key.(*ast.BasicLit)
							v, ok2 := kv.Value.(*ast.Ident)
							if !ok1 || !ok2 {
								bad("lex.go key map element")
								continue
							}
							ks, _ := strconv.Unquote(k.Value)
							kws = append(kws, fmt.Sprintf("(%s, %s)", leanStr(ks), leanStr(v.Name)))
						}
					}
				}
			}
		}
	}
	if len(kws) == 0 {
		bad("lex.go key map")
	}
	fmt.Fprintf(&out, "def keywords : List (String × String) := [%s]\n\n", strings.Join(kws, ", "))
	// --- lexInsideAction switch
	var singles, doubles, armOrder []string
	var minusExcl, plusExcl []string
	minusTok, plusTok := "", ""
	fd := findFunc(f, "", "lexInsideAction")
	var sw *ast.SwitchStmt
	if fd != nil {
		for _, st := range fd.Body.List {
			if s, ok := st.(*ast.SwitchStmt); ok && s.Tag == nil && s.Init != nil && render(s.Init) == "r := l.next()" {
				sw = s
			}
		}
	}
	if sw == nil {
		bad("lex.go lexInsideAction switch")
	} else {
		for _, cc := range sw.Body.List {
			c := cc.(*ast.CaseClause)
			if c.List == nil {
				armOrder = append(armOrder, "default")
				continue
			}
			cond := render(c.List[0])
			if len(c.List) != 1 {
				bad("lex.go lexInsideAction multi-expression case " + pos(c))
			}
			armOrder = append(armOrder, cond)
			ch, isChar := rEqChar(c.List[0])
			if !isChar {
				continue // hand-modelled arm; its position is pinned through armOrder
			}
			switch {
			case ch == '-' || ch == '+':
				excl, tok, ok := signArm(c.Body)
				if !ok {
					bad("lex.go lexInsideAction sign arm " + pos(c))
				}
				if ch == '-' {
					minusExcl, minusTok = excl, tok
				} else {
					plusExcl, plusTok = excl, tok
				}
			case ch == '"' || ch == '`' || ch == '\'' || ch == '.' || ch == '_' || ch == '(' || ch == ')':
				// hand-modelled arms
			case len(c.Body) == 1:
				if tok, ok := emitStmt(c.Body[0]); ok {
					singles = append(singles, fmt.Sprintf("(%d, %s)", ch, leanStr(tok)))
				} else if is, ok := c.Body[0].(*ast.IfStmt); ok {
					// if l.next() == 'd' { emit A } else { backup; [emit B] }
					d, ok1 := nextEqChar(is.Cond)
					var a, b string
					ok2 := len(is.Body.List) == 1
					if ok2 {
						a, ok2 = emitStmt(is.Body.List[0])
					}
					eb, ok3 := is.Else.(*ast.BlockStmt)
					if ok3 {
						switch {
						case len(eb.List) == 1 && isCallStmt(eb.List[0], "backup"):
							b = ""
						case len(eb.List) == 2 && isCallStmt(eb.List[0], "backup"):
							b, ok3 = emitStmt(eb.List[1])
						default:
							ok3 = false
						}
					}
					if ok1 && ok2 && ok3 {
						doubles = append(doubles, fmt.Sprintf("(%d, %d, %s, %s)", ch, d, leanStr(a), leanStr(b)))
					} else {
						bad("lex.go lexInsideAction two-char arm " + pos(c))
					}
				} else {
					bad("lex.go lexInsideAction arm " + pos(c))
				}
			default:
				bad("lex.go lexInsideAction arm " + pos(c))
			}
		}
	}
	fmt.Fprintf(&out, "/-- arms `case r == 'c': l.emit(T)` of lexInsideAction: (code point, token) -/\n")
	fmt.Fprintf(&out, "def singleCharToks : List (Nat × String) := [%s]\n\n", strings.Join(singles, ", "))
	fmt.Fprintf(&out, "/-- arms `if l.next() == 'd' {emit A} else {backup; emit B}`: (c, d, A, B) with B = \"\" when nothing is emitted -/\n")
	fmt.Fprintf(&out, "def twoCharToks : List (Nat × Nat × String × String) := [%s]\n\n", strings.Join(doubles, ", "))
	fmt.Fprintf(&out, "def minusExcl : List String := %s\ndef minusTok : String := %s\n", leanStrList(minusExcl), leanStr(minusTok))
	fmt.Fprintf(&out, "def plusExcl : List String := %s\ndef plusTok : String := %s\n\n", leanStrList(plusExcl), leanStr(plusTok))
	fmt.Fprintf(&out, "/-- the case conditions of lexInsideAction's switch, in source order -/\n")
	fmt.Fprintf(&out, "def insideActionArms : List String := %s\n\n", leanStrList(armOrder))
	// --- atTerminator
	var terms []string
	hasEOF := false
	if fd := findFunc(f, "lexer", "atTerminator"); fd != nil {
		ast.Inspect(fd, func(n ast.Node) bool {
			c, ok := n.(*ast.CaseClause)
			if !ok {
				return true
			}
			for _, e := range c.List {
				if id, ok := e.(*ast.Ident); ok && id.Name == "eof" {
					hasEOF = true
				} else if ch, ok := charLit(e); ok {
					terms = append(terms, strconv.Itoa(ch))
				} else {
					bad("lex.go atTerminator case " + pos(e))
				}
			}
			return true
		})
	}
	if len(terms) == 0 {
		bad("lex.go atTerminator")
	}
	fmt.Fprintf(&out, "def terminatorChars : List Nat := [%s]\ndef terminatorEOF : Bool := %v\n\n", strings.Join(terms, ", "), hasEOF)
	// --- F4: which lexer fields the delimiter setters assign
	for _, fn := range []string{"setDelimiters", "setCommentDelimiters"} {
		var fields []string
		if fd := findFunc(f, "lexer", fn); fd != nil {
			ast.Inspect(fd, func(n ast.Node) bool {
				as, ok := n.(*ast.AssignStmt)
				if !ok {
					return true
				}
				for _, lhs := range as.Lhs {
					if se, ok := lhs.(*ast.SelectorExpr); ok {
						fields = append(fields, se.Sel.Name)
					}
				}
				return true
			})
		} else {
			bad("lex.go " + fn)
		}
		fmt.Fprintf(&out, "def %sAssigns : List String := %s\n", fn, leanStrList(fields))
	}
	fmt.Fprintf(&out, "\ndef lexShapeOk : Bool := %v\n\n", shapeOK)
}

func init() { generators = append(generators, genLexFacts) }
