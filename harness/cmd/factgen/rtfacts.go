package main

import (
	"fmt"
	"os"
	"go/ast"
	"sort"
	"strings"
)

// ---- F9: the pooled Runtime. Fields of Runtime (with the embedded *escapeeWriter and *scope
// flattened), the fields Template.Execute assigns before running, the fields Runtime.recover resets
// before the runtime goes back to the pool, and the fields that methods of these types use at all.

func structFields(f *ast.File, name string) []string {
	var out []string
	if f == nil {
		return nil
	}
	ast.Inspect(f, func(n ast.Node) bool {
		ts, ok := n.(*ast.TypeSpec)
		if !ok || ts.Name.Name != name {
			return true
		}
		st, ok := ts.Type.(*ast.StructType)
		if !ok {
			return false
		}
		for _, fl := range st.Fields.List {
			if len(fl.Names) == 0 {
				t := fl.Type
				if se, ok := t.(*ast.StarExpr); ok {
					t = se.X
				}
				if id, ok := t.(*ast.Ident); ok {
					out = append(out, "embed:"+id.Name)
				}
				continue
			}
			for _, n := range fl.Names {
				out = append(out, n.Name)
			}
		}
		return false
	})
	return out
}

func genRuntimeFacts() {
	ev := parseFile("eval.go")
	ex := parseFile("exec.go")
	ok := true
	bad := func(w string) { ok = false; fmt.Fprintf(&out, "-- unknownShape %s\n", w) }
	// fields, flattened, qualified by the struct that declares them
	var fields []string
	var flatten func(name string, depth int)
	flatten = func(name string, depth int) {
		fs := structFields(ev, name)
		if fs == nil || depth > 3 {
			bad("struct " + name)
			return
		}
		for _, fd := range fs {
			if strings.HasPrefix(fd, "embed:") {
				flatten(strings.TrimPrefix(fd, "embed:"), depth+1)
			} else {
				fields = append(fields, name+"."+fd)
			}
		}
	}
	flatten("Runtime", 0)
	short := map[string]string{} // field name -> qualified
	for _, q := range fields {
		short[q[strings.Index(q, ".")+1:]] = q
	}
	// assignments `recv.F = ...` (or `recv.embedded = ...`) in a function body
	assigns := func(fd *ast.FuncDecl, recv string) (uncond, cond []string) {
		if fd == nil {
			return
		}
		var walk func(stmts []ast.Stmt, nested bool)
		walk = func(stmts []ast.Stmt, nested bool) {
			for _, st := range stmts {
				switch s := st.(type) {
				case *ast.AssignStmt:
					for _, lhs := range s.Lhs {
						se, isSel := lhs.(*ast.SelectorExpr)
						if !isSel {
							continue
						}
						id, isID := se.X.(*ast.Ident)
						if !isID || id.Name != recv {
							continue
						}
						name := se.Sel.Name
						var hit []string
						if q, has := short[name]; has {
							hit = []string{q}
						} else {
							// assigning an embedded struct pointer resets all of its fields
							for _, q := range fields {
								if strings.HasPrefix(q, name+".") {
									hit = append(hit, q)
								}
							}
						}
						if nested {
							cond = append(cond, hit...)
						} else {
							uncond = append(uncond, hit...)
						}
					}
				case *ast.IfStmt:
					walk(s.Body.List, true)
					if eb, isB := s.Else.(*ast.BlockStmt); isB {
						walk(eb.List, true)
					}
				case *ast.ForStmt:
					walk(s.Body.List, true)
				}
			}
		}
		walk(fd.Body.List, false)
		return
	}
	execFn := findFunc(ex, "Template", "Execute")
	recvName := ""
	if execFn != nil {
		// st := pool_State.Get().(*Runtime)
		ast.Inspect(execFn, func(n ast.Node) bool {
			as, isAS := n.(*ast.AssignStmt)
			if isAS && len(as.Lhs) == 1 && strings.Contains(render(as.Rhs[0]), "pool_State.Get()") {
				if id, isID := as.Lhs[0].(*ast.Ident); isID {
					recvName = id.Name
				}
			}
			return true
		})
	}
	if recvName == "" {
		bad("exec.go Execute: pooled runtime variable")
	}
	eu, ec := assigns(execFn, recvName)
	recFn := findFunc(ev, "Runtime", "recover")
	rrecv := ""
	if recFn != nil && len(recFn.Recv.List[0].Names) == 1 {
		rrecv = recFn.Recv.List[0].Names[0].Name
	}
	ru, _ := assigns(recFn, rrecv)
	// recover must put the runtime back *after* the resets
	putAfterResets := false
	if recFn != nil {
		seenReset := false
		for _, st := range recFn.Body.List {
			if _, isAS := st.(*ast.AssignStmt); isAS {
				seenReset = true
			}
			if es, isES := st.(*ast.ExprStmt); isES && strings.Contains(render(es.X), "pool_State.Put(") {
				putAfterResets = seenReset
			}
		}
	}
	// fields used (read or written) through a receiver of the runtime types, anywhere in package jet
	used := map[string]bool{}
	for _, file := range []string{"eval.go", "exec.go", "func.go", "default.go", "dump.go", "ranger.go"} {
		f := parseFile(file)
		if f == nil {
			continue
		}
		for _, d := range f.Decls {
			fd, isFD := d.(*ast.FuncDecl)
			if !isFD || fd.Body == nil {
				continue
			}
			recvs := map[string]bool{}
			if fd.Recv != nil && len(fd.Recv.List) == 1 && len(fd.Recv.List[0].Names) == 1 {
				t := fd.Recv.List[0].Type
				if se, isSE := t.(*ast.StarExpr); isSE {
					t = se.X
				}
				if id, isID := t.(*ast.Ident); isID && (id.Name == "Runtime" || id.Name == "escapeeWriter" || id.Name == "scope") {
					recvs[fd.Recv.List[0].Names[0].Name] = true
				}
			}
			if fd == execFn {
				recvs[recvName] = true
			}
			ast.Inspect(fd.Body, func(n ast.Node) bool {
				se, isSel := n.(*ast.SelectorExpr)
				if !isSel {
					return true
				}
				q, has := short[se.Sel.Name]
				if !has {
					return true
				}
				base := render(se.X)
				if recvs[base] || strings.HasSuffix(base, ".runtime") || base == "a.runtime" {
					used[q] = true
				}
				// closures over the runtime: func(st *Runtime, ...)
				if id, isID := se.X.(*ast.Ident); isID && (id.Name == "st" || id.Name == "state") {
					used[q] = true
				}
				return true
			})
		}
	}
	// every function that takes a runtime from the pool defers recover() as its next statement
	poolGetters := []string{}
	allDefer := true
	ents, _ := os.ReadDir(repo)
	for _, e := range ents {
		if e.IsDir() || !strings.HasSuffix(e.Name(), ".go") || strings.HasSuffix(e.Name(), "_test.go") {
			continue
		}
		f := parseFile(e.Name())
		if f == nil {
			continue
		}
		for _, d := range f.Decls {
			fd, isFD := d.(*ast.FuncDecl)
			if !isFD || fd.Body == nil || !strings.Contains(render(fd.Body), "pool_State.Get()") {
				continue
			}
			poolGetters = append(poolGetters, e.Name()+":"+fd.Name.Name)
			good := false
			for i, st := range fd.Body.List {
				as, isAS := st.(*ast.AssignStmt)
				if !isAS || !strings.Contains(render(as.Rhs[0]), "pool_State.Get()") {
					continue
				}
				v := render(as.Lhs[0])
				if i+1 < len(fd.Body.List) {
					if ds, isDS := fd.Body.List[i+1].(*ast.DeferStmt); isDS && strings.HasPrefix(render(ds.Call), v+".recover(") {
						good = true
					}
				}
			}
			if !good {
				allDefer = false
			}
		}
	}
	// every sync.Pool of the package (package-level variables and pools inside composite literals)
	var pools []string
	for _, e := range ents {
		if e.IsDir() || !strings.HasSuffix(e.Name(), ".go") || strings.HasSuffix(e.Name(), "_test.go") {
			continue
		}
		f := parseFile(e.Name())
		if f == nil {
			continue
		}
		ast.Inspect(f, func(n ast.Node) bool {
			cl, isCL := n.(*ast.CompositeLit)
			if isCL && render(cl.Type) == "sync.Pool" {
				pools = append(pools, fmt.Sprintf("%s:%d", e.Name(), len(pools)))
			}
			return true
		})
	}
	poolNames := []string{}
	for _, e := range ents {
		if e.IsDir() || !strings.HasSuffix(e.Name(), ".go") || strings.HasSuffix(e.Name(), "_test.go") {
			continue
		}
		f := parseFile(e.Name())
		if f == nil {
			continue
		}
		cnt := 0
		ast.Inspect(f, func(n ast.Node) bool {
			if cl, isCL := n.(*ast.CompositeLit); isCL && render(cl.Type) == "sync.Pool" {
				cnt++
			}
			return true
		})
		if cnt > 0 {
			poolNames = append(poolNames, fmt.Sprintf("%s:%d", e.Name(), cnt))
		}
	}
	sort.Strings(poolNames)
	var usedL []string
	for q := range used {
		usedL = append(usedL, q)
	}
	sort.Strings(usedL)
	fmt.Fprintf(&out, "/-- F9: the pooled Runtime (eval.go / exec.go) -/\n")
	fmt.Fprintf(&out, "def runtimeFields : List String := %s\n", leanStrList(fields))
	fmt.Fprintf(&out, "def runtimeFieldsUsed : List String := %s\n", leanStrList(usedL))
	fmt.Fprintf(&out, "def executeAssignsAlways : List String := %s\n", leanStrList(eu))
	fmt.Fprintf(&out, "def executeAssignsSometimes : List String := %s\n", leanStrList(ec))
	fmt.Fprintf(&out, "def recoverResets : List String := %s\n", leanStrList(ru))
	fmt.Fprintf(&out, "def recoverPutsAfterResets : Bool := %v\n", putAfterResets)
	// pooled rangers: struct fields vs what Setup assigns
	var rangerRows []string
	if rf := parseFile("ranger.go"); rf != nil {
		for _, d := range rf.Decls {
			fd, isFD := d.(*ast.FuncDecl)
			if !isFD || fd.Name.Name != "Setup" || fd.Recv == nil || len(fd.Recv.List) != 1 || len(fd.Recv.List[0].Names) != 1 {
				continue
			}
			t := fd.Recv.List[0].Type
			if se, isSE := t.(*ast.StarExpr); isSE {
				t = se.X
			}
			tn := render(t)
			recv := fd.Recv.List[0].Names[0].Name
			var assigned []string
			for _, st := range fd.Body.List {
				if as, isAS := st.(*ast.AssignStmt); isAS {
					for _, l := range as.Lhs {
						if se, isSE := l.(*ast.SelectorExpr); isSE && render(se.X) == recv {
							assigned = append(assigned, se.Sel.Name)
						}
					}
				}
			}
			fs := structFields(rf, tn)
			rangerRows = append(rangerRows, fmt.Sprintf("(%s, %s, %s)", leanStr(tn), leanStrList(fs), leanStrList(assigned)))
		}
	}
	fmt.Fprintf(&out, "/-- pooled rangers: (type, fields, fields assigned unconditionally in Setup) -/\ndef pooledRangers : List (String × List String × List String) := [%s]\n", strings.Join(rangerRows, ", "))
	fmt.Fprintf(&out, "/-- sync.Pool literals per file (file:count) -/\ndef syncPools : List String := %s\n", leanStrList(poolNames))
	fmt.Fprintf(&out, "def poolGetters : List String := %s\n", leanStrList(poolGetters))
	fmt.Fprintf(&out, "def poolGettersDeferRecover : Bool := %v\n", allDefer)
	fmt.Fprintf(&out, "def runtimeShapeOk : Bool := %v\n\n", ok)
}

func init() { generators = append(generators, genRuntimeFacts) }
