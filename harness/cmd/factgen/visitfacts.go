package main

import (
	"fmt"
	"go/ast"
	"go/token"
	"strings"
)

// ---- F6: node struct declarations (node.go): per struct type that carries a NodeBase, its child
// slots in declaration order, embedded structs flattened, `*catchNode` inlined as a group.

type rawField struct{ path, kind string }

func typeKindOf(e ast.Expr) string {
	switch t := e.(type) {
	case *ast.Ident:
		if t.Name == "Node" || t.Name == "Expression" {
			return "iface"
		}
	case *ast.StarExpr:
		if id, ok := t.X.(*ast.Ident); ok {
			switch id.Name {
			case "BlockParameterList":
				return "paramsPtr"
			case "catchNode":
				return "group:catchNode"
			}
			if strings.HasSuffix(id.Name, "Node") {
				return "ptr"
			}
		}
	case *ast.ArrayType:
		if t.Len == nil {
			switch el := t.Elt.(type) {
			case *ast.Ident:
				if el.Name == "Node" || el.Name == "Expression" {
					return "slice"
				}
			case *ast.StarExpr:
				if id, ok := el.X.(*ast.Ident); ok && strings.HasSuffix(id.Name, "Node") {
					return "slice"
				}
			}
		}
	}
	return ""
}

func genNodeSchema() {
	f := parseFile("node.go")
	structs := map[string]*ast.StructType{}
	var order []string
	if f != nil {
		for _, d := range f.Decls {
			gd, ok := d.(*ast.GenDecl)
			if !ok || gd.Tok != token.TYPE {
				continue
			}
			for _, s := range gd.Specs {
				ts := s.(*ast.TypeSpec)
				if st, ok := ts.Type.(*ast.StructType); ok {
					structs[ts.Name.Name] = st
					order = append(order, ts.Name.Name)
				}
			}
		}
	}
	var flatten func(name, prefix string, seen map[string]bool) (fields []rawField, hasBase bool)
	flatten = func(name, prefix string, seen map[string]bool) ([]rawField, bool) {
		st := structs[name]
		if st == nil || seen[name] {
			return nil, false
		}
		seen[name] = true
		var out []rawField
		base := false
		for _, fl := range st.Fields.List {
			if len(fl.Names) == 0 { // embedded
				if id, ok := fl.Type.(*ast.Ident); ok {
					if id.Name == "NodeBase" {
						base = true
						continue
					}
					sub, b := flatten(id.Name, prefix, seen)
					out = append(out, sub...)
					base = base || b
				}
				continue
			}
			k := typeKindOf(fl.Type)
			for _, n := range fl.Names {
				switch {
				case strings.HasPrefix(k, "group:"):
					sub, _ := flatten(strings.TrimPrefix(k, "group:"), prefix+n.Name+".", map[string]bool{})
					out = append(out, sub...)
				case k != "":
					out = append(out, rawField{prefix + n.Name, k})
				}
			}
		}
		return out, base
	}
	var items []string
	for _, name := range order {
		fields, base := flatten(name, "", map[string]bool{})
		if !base {
			continue
		}
		var fs []string
		for _, fd := range fields {
			fs = append(fs, fmt.Sprintf("(%s, %s)", leanStr(fd.path), leanStr(fd.kind)))
		}
		items = append(items, fmt.Sprintf("(%s, [%s])", leanStr(name), strings.Join(fs, ", ")))
	}
	fmt.Fprintf(&out, "/-- node.go: every struct carrying a NodeBase, with its child slots (path, type kind) in\n    declaration order; embedded structs flattened, `*catchNode` inlined -/\n")
	fmt.Fprintf(&out, "def nodeStructs : List (String × List (String × String)) := [\n  %s]\n\n", strings.Join(items, ",\n  "))
}

// ---- F8: utils/visitor.go: the Visit switch and, per helper, its ordered visit actions.

type vact struct {
	op     string
	path   string
	guards []string
}

func selPath(e ast.Expr, recv string) (string, bool) {
	// x.A.B with x == recv  ->  "A.B"
	var parts []string
	for {
		se, ok := e.(*ast.SelectorExpr)
		if !ok {
			break
		}
		parts = append([]string{se.Sel.Name}, parts...)
		e = se.X
	}
	id, ok := e.(*ast.Ident)
	if !ok || id.Name != recv || len(parts) == 0 {
		return "", false
	}
	return strings.Join(parts, "."), true
}

func isVisitNodeCall(s ast.Stmt) (ast.Expr, bool) {
	es, ok := s.(*ast.ExprStmt)
	if !ok {
		return nil, false
	}
	ce, ok := es.X.(*ast.CallExpr)
	if !ok || len(ce.Args) != 1 {
		return nil, false
	}
	se, ok := ce.Fun.(*ast.SelectorExpr)
	if !ok || se.Sel.Name != "visitNode" {
		return nil, false
	}
	return ce.Args[0], true
}

func nilGuard(cond ast.Expr, recv string) (string, bool) {
	be, ok := cond.(*ast.BinaryExpr)
	if !ok || be.Op != token.NEQ {
		return "", false
	}
	if id, ok := be.Y.(*ast.Ident); !ok || id.Name != "nil" {
		return "", false
	}
	return selPath(be.X, recv)
}

func genVisitor() {
	f := parseFile("utils/visitor.go")
	ok := true
	bad := func(where string) {
		ok = false
		fmt.Fprintf(&out, "-- unknownShape %s\n", where)
	}
	helpers := map[string][]vact{}
	var extract func(stmts []ast.Stmt, recv string, guards []string, where string) []vact
	extract = func(stmts []ast.Stmt, recv string, guards []string, where string) []vact {
		var acts []vact
		for _, st := range stmts {
			if arg, isCall := isVisitNodeCall(st); isCall {
				if p, okp := selPath(arg, recv); okp {
					acts = append(acts, vact{"plain", p, append([]string{}, guards...)})
				} else {
					bad(where + " visitNode argument " + pos(st))
				}
				continue
			}
			switch s := st.(type) {
			case *ast.IfStmt:
				g, okg := nilGuard(s.Cond, recv)
				if !okg || s.Else != nil || s.Init != nil {
					bad(where + " if " + pos(st))
					continue
				}
				acts = append(acts, extract(s.Body.List, recv, append(append([]string{}, guards...), g), where)...)
			case *ast.RangeStmt:
				v, _ := s.Value.(*ast.Ident)
				p, okp := selPath(s.X, recv)
				if v == nil || !okp {
					bad(where + " range " + pos(st))
					continue
				}
				// body: vc.visitNode(v)  |  if v.Expression != nil { vc.visitNode(v.Expression) }
				body := s.Body.List
				switch {
				case len(body) == 1:
					if arg, isCall := isVisitNodeCall(body[0]); isCall {
						if id, isID := arg.(*ast.Ident); isID && id.Name == v.Name {
							acts = append(acts, vact{"each", p, append([]string{}, guards...)})
							continue
						}
					}
					if is, isIf := body[0].(*ast.IfStmt); isIf && strings.HasSuffix(p, ".List") {
						if g, okg := nilGuard(is.Cond, v.Name); okg && g == "Expression" && len(is.Body.List) == 1 {
							if arg, isCall := isVisitNodeCall(is.Body.List[0]); isCall {
								if pp, okpp := selPath(arg, v.Name); okpp && pp == "Expression" {
									acts = append(acts, vact{"each", strings.TrimSuffix(p, ".List"), append([]string{}, guards...)})
									continue
								}
							}
						}
					}
					bad(where + " range body " + pos(st))
				default:
					bad(where + " range body " + pos(st))
				}
			case *ast.ExprStmt:
				ce, isCE := s.X.(*ast.CallExpr)
				if !isCE || len(ce.Args) != 1 {
					bad(where + " statement " + pos(st))
					continue
				}
				se, isSE := ce.Fun.(*ast.SelectorExpr)
				if !isSE {
					bad(where + " statement " + pos(st))
					continue
				}
				switch {
				case se.Sel.Name == "visitListNode":
					if p, okp := selPath(ce.Args[0], recv); okp {
						acts = append(acts, vact{"inline", p, append([]string{}, guards...)})
					} else {
						bad(where + " visitListNode argument " + pos(st))
					}
				case strings.HasPrefix(se.Sel.Name, "visit"):
					// delegate to another helper on an embedded struct: vc.visitBranchNode(&x.BranchNode)
					acts = append(acts, vact{"delegate", se.Sel.Name, nil})
				default:
					bad(where + " call " + pos(st))
				}
			default:
				bad(where + " statement " + pos(st))
			}
		}
		return acts
	}
	if f != nil {
		for _, d := range f.Decls {
			fd, isFD := d.(*ast.FuncDecl)
			if !isFD || fd.Recv == nil || !strings.HasPrefix(fd.Name.Name, "visit") || fd.Name.Name == "visitNode" {
				continue
			}
			if len(fd.Type.Params.List) != 1 || len(fd.Type.Params.List[0].Names) != 1 {
				continue
			}
			recv := fd.Type.Params.List[0].Names[0].Name
			helpers[fd.Name.Name] = extract(fd.Body.List, recv, nil, fd.Name.Name)
		}
	}
	var expand func(name string, depth int) []vact
	expand = func(name string, depth int) []vact {
		var res []vact
		for _, a := range helpers[name] {
			if a.op == "delegate" {
				if depth > 4 || helpers[a.path] == nil {
					bad("delegate " + a.path)
					continue
				}
				res = append(res, expand(a.path, depth+1)...)
			} else {
				res = append(res, a)
			}
		}
		return res
	}
	// the Visit switch
	var arms []string
	vfd := findFunc(f, "VisitorContext", "Visit")
	found := false
	if vfd != nil {
		ast.Inspect(vfd, func(n ast.Node) bool {
			ts, isTS := n.(*ast.TypeSwitchStmt)
			if !isTS {
				return true
			}
			found = true
			for _, cc := range ts.Body.List {
				c := cc.(*ast.CaseClause)
				if c.List == nil {
					continue // default: panic
				}
				for _, te := range c.List {
					st, isStar := te.(*ast.StarExpr)
					if !isStar {
						bad("Visit case " + pos(te))
						continue
					}
					se, isSel := st.X.(*ast.SelectorExpr)
					if !isSel {
						bad("Visit case " + pos(te))
						continue
					}
					kind := se.Sel.Name
					if len(c.Body) == 0 {
						arms = append(arms, fmt.Sprintf("{ kind := %s, acts := [], leaf := true }", leanStr(kind)))
						continue
					}
					helper := ""
					if len(c.Body) == 1 {
						if es, isES := c.Body[0].(*ast.ExprStmt); isES {
							if ce, isCE := es.X.(*ast.CallExpr); isCE {
								if hs, isHS := ce.Fun.(*ast.SelectorExpr); isHS {
									helper = hs.Sel.Name
								}
							}
						}
					}
					if helper == "" || helpers[helper] == nil {
						bad("Visit arm for " + kind)
						continue
					}
					var as []string
					for _, a := range expand(helper, 0) {
						as = append(as, fmt.Sprintf("{ op := .%s, path := %s, guards := %s }", a.op, leanStr(a.path), leanStrList(a.guards)))
					}
					arms = append(arms, fmt.Sprintf("{ kind := %s, acts := [%s], leaf := false }", leanStr(kind), strings.Join(as, ", ")))
				}
			}
			return false
		})
	}
	if !found {
		bad("utils/visitor.go Visit type switch")
	}
	fmt.Fprintf(&out, "/-- utils/visitor.go: the arms of VisitorContext.Visit and the ordered visit actions of each helper -/\n")
	fmt.Fprintf(&out, "def visitArms : List JetVerif.Visitor.Arm := [\n  %s]\n\n", strings.Join(arms, ",\n  "))
	fmt.Fprintf(&out, "def visitorShapeOk : Bool := %v\n\n", ok)
}

func init() {
	generators = append(generators, genNodeSchema, genVisitor)
}
