package main

import (
	"fmt"
	"go/ast"
	"strconv"
	"strings"
)

// ---- F5: default.go's table of built-in variables: name -> the Go expression it exposes
// (`reflect.ValueOf(X)` gives X as source text; a `Func(func...)` literal is recorded as "jet.Func"),
// plus the import paths the package names in those expressions refer to.
func genBuiltinFacts() {
	f := parseFile("default.go")
	ok := f != nil
	var pairs []string
	var imports []string
	if f != nil {
		for _, im := range f.Imports {
			p, _ := strconv.Unquote(im.Path.Value)
			name := p[strings.LastIndex(p, "/")+1:]
			if im.Name != nil {
				name = im.Name.Name
			}
			imports = append(imports, fmt.Sprintf("(%s, %s)", leanStr(name), leanStr(p)))
		}
		found := false
		ast.Inspect(f, func(n ast.Node) bool {
			as, isAS := n.(*ast.AssignStmt)
			if !isAS || len(as.Lhs) != 1 || render(as.Lhs[0]) != "defaultVariables" {
				return true
			}
			cl, isCL := as.Rhs[0].(*ast.CompositeLit)
			if !isCL {
				return true
			}
			found = true
			for _, el := range cl.Elts {
				kv, isKV := el.(*ast.KeyValueExpr)
				if !isKV {
					ok = false
					continue
				}
				key, _ := strconv.Unquote(render(kv.Key))
				call, isCall := kv.Value.(*ast.CallExpr)
				if !isCall || render(call.Fun) != "reflect.ValueOf" || len(call.Args) != 1 {
					ok = false
					continue
				}
				val := render(call.Args[0])
				if inner, isInner := call.Args[0].(*ast.CallExpr); isInner && render(inner.Fun) == "Func" {
					val = "jet.Func"
				}
				pairs = append(pairs, fmt.Sprintf("(%s, %s)", leanStr(key), leanStr(val)))
			}
			return false
		})
		if !found {
			ok = false
		}
	}
	fmt.Fprintf(&out, "/-- F5: default.go `defaultVariables`: built-in name, the Go value it exposes -/\n")
	fmt.Fprintf(&out, "def builtinTable : List (String × String) := [%s]\n", strings.Join(pairs, ", "))
	fmt.Fprintf(&out, "def builtinImports : List (String × String) := [%s]\n", strings.Join(imports, ", "))
	fmt.Fprintf(&out, "def builtinShapeOk : Bool := %v\n\n", ok)
}

func init() { generators = append(generators, genBuiltinFacts) }
