package main

import (
	"fmt"
	"go/ast"
	"go/token"
	"os"
	"sort"
	"strings"
)

// ---- F10: lock discipline.  For every access to a shared map that has a guarding mutex - the Set's
// globals (gmx), the struct field-index cache (cachedStructsMutex), the in-memory loader's files
// (lock) - the enclosing function, whether it reads or writes, and which lock is held at that point
// (calls to Lock/RLock/Unlock/RUnlock on the guard, in source order; a deferred unlock holds to
// the end of the function).

type guarded struct {
	name  string
	field string // selector name or identifier
	guard string // selector name or identifier of the mutex
}

func genLockFacts() {
	gs := []guarded{
		{"Set.globals", "globals", "gmx"},
		{"cachedStructsFieldIndex", "cachedStructsFieldIndex", "cachedStructsMutex"},
		{"InMemLoader.files", "files", "lock"},
	}
	var sites []string
	ok := true
	ents, err := os.ReadDir(repo)
	if err != nil {
		ok = false
	}
	var files []string
	for _, e := range ents {
		if !e.IsDir() && strings.HasSuffix(e.Name(), ".go") && !strings.HasSuffix(e.Name(), "_test.go") && !strings.HasPrefix(e.Name(), "verif_") {
			files = append(files, e.Name())
		}
	}
	sort.Strings(files)
	for _, fn := range files {
		f := parseFile(fn)
		if f == nil {
			ok = false
			continue
		}
		for _, d := range f.Decls {
			fd, isFD := d.(*ast.FuncDecl)
			if !isFD || fd.Body == nil {
				continue
			}
			for _, g := range gs {
				if g.field == "files" && fn != "loader.go" {
					continue
				}
				type evt struct {
					pos  token.Pos
					what string // lockW lockR unlock read write
				}
				var evs []evt
				writes := map[token.Pos]bool{}
				isField := func(e ast.Expr) bool {
					switch x := e.(type) {
					case *ast.SelectorExpr:
						return x.Sel.Name == g.field
					case *ast.Ident:
						return x.Name == g.field && g.field == g.name
					}
					return false
				}
				baseOf := func(e ast.Expr) ast.Expr {
					for {
						switch x := e.(type) {
						case *ast.IndexExpr:
							e = x.X
						case *ast.ParenExpr:
							e = x.X
						default:
							return e
						}
					}
				}
				ast.Inspect(fd.Body, func(n ast.Node) bool {
					switch x := n.(type) {
					case *ast.AssignStmt:
						for _, l := range x.Lhs {
							if b := baseOf(l); isField(b) {
								writes[b.Pos()] = true
							}
						}
					case *ast.CallExpr:
						if id, isID := x.Fun.(*ast.Ident); isID && id.Name == "delete" && len(x.Args) > 0 {
							if b := baseOf(x.Args[0]); isField(b) {
								writes[b.Pos()] = true
							}
						}
						if se, isSE := x.Fun.(*ast.SelectorExpr); isSE {
							recv := render(se.X)
							if recv == g.guard || strings.HasSuffix(recv, "."+g.guard) {
								switch se.Sel.Name {
								case "Lock":
									evs = append(evs, evt{x.Pos(), "lockW"})
								case "RLock":
									evs = append(evs, evt{x.Pos(), "lockR"})
								case "Unlock", "RUnlock":
									evs = append(evs, evt{x.Pos(), "unlock"})
								}
							}
						}
					case *ast.DeferStmt:
						// a deferred unlock releases at return: not an unlock event in source order
						if se, isSE := x.Call.Fun.(*ast.SelectorExpr); isSE && (se.Sel.Name == "Unlock" || se.Sel.Name == "RUnlock") {
							return false
						}
					}
					return true
				})
				ast.Inspect(fd.Body, func(n ast.Node) bool {
					if e, isE := n.(ast.Expr); isE && isField(e) {
						// the selector `x.lock` itself (receiver of Lock calls) is the guard, not the field
						k := "read"
						if writes[e.Pos()] {
							k = "write"
						}
						evs = append(evs, evt{e.Pos(), k})
						return false
					}
					return true
				})
				sort.Slice(evs, func(i, j int) bool { return evs[i].pos < evs[j].pos })
				held := "none"
				recv := ""
				if fd.Recv != nil && len(fd.Recv.List) == 1 {
					recv = render(fd.Recv.List[0].Type) + "."
				}
				for _, e := range evs {
					switch e.what {
					case "lockW":
						held = "W"
					case "lockR":
						held = "R"
					case "unlock":
						held = "none"
					default:
						sites = append(sites, fmt.Sprintf("(%s, %s, %s, %s)", leanStr(g.name), leanStr(fn+":"+recv+fd.Name.Name), leanStr(e.what), leanStr(held)))
					}
				}
			}
		}
	}
	fmt.Fprintf(&out, "/-- F10: every access to a mutex-guarded shared map: (map, function, read|write, lock held) -/\n")
	fmt.Fprintf(&out, "def lockSites : List (String × String × String × String) := [%s]\n", strings.Join(sites, ",\n  "))
	fmt.Fprintf(&out, "def lockShapeOk : Bool := %v\n\n", ok)
}

func init() { generators = append(generators, genLockFacts) }

// ---- F11: the parsed template is immutable at execution time.  Every assignment in the
// execution-phase files whose target is a field that exists on Template or on a node struct.
func genAstWriteFacts() {
	fieldNames := map[string]bool{}
	collect := func(file string, want func(string) bool) {
		f := parseFile(file)
		if f == nil {
			return
		}
		ast.Inspect(f, func(n ast.Node) bool {
			ts, isTS := n.(*ast.TypeSpec)
			if !isTS {
				return true
			}
			st, isST := ts.Type.(*ast.StructType)
			if !isST || !want(ts.Name.Name) {
				return true
			}
			for _, fl := range st.Fields.List {
				for _, nm := range fl.Names {
					fieldNames[nm.Name] = true
				}
			}
			return true
		})
	}
	collect("parse.go", func(n string) bool { return n == "Template" })
	collect("node.go", func(n string) bool { return true })
	// fields that also exist on execution-state types and are legitimately assigned there
	stateFields := map[string]bool{}
	collectState := func(file string, names ...string) {
		f := parseFile(file)
		if f == nil {
			return
		}
		ast.Inspect(f, func(n ast.Node) bool {
			ts, isTS := n.(*ast.TypeSpec)
			if !isTS {
				return true
			}
			st, isST := ts.Type.(*ast.StructType)
			if !isST {
				return true
			}
			for _, want := range names {
				if ts.Name.Name == want {
					for _, fl := range st.Fields.List {
						for _, nm := range fl.Names {
							stateFields[nm.Name] = true
						}
					}
				}
			}
			return true
		})
	}
	collectState("eval.go", "Runtime", "scope", "escapeeWriter")
	collectState("ranger.go", "intsRanger", "sliceRanger", "mapRanger", "chanRanger", "pooledRanger")
	collectState("func.go", "Arguments")
	var writes []string
	for _, file := range []string{"eval.go", "exec.go", "default.go", "func.go", "dump.go", "ranger.go"} {
		f := parseFile(file)
		if f == nil {
			continue
		}
		for _, d := range f.Decls {
			fd, isFD := d.(*ast.FuncDecl)
			if !isFD || fd.Body == nil {
				continue
			}
			ast.Inspect(fd.Body, func(n ast.Node) bool {
				as, isAS := n.(*ast.AssignStmt)
				if !isAS {
					return true
				}
				for _, l := range as.Lhs {
					e := l
					for {
						if ix, isIX := e.(*ast.IndexExpr); isIX {
							e = ix.X
							continue
						}
						break
					}
					se, isSE := e.(*ast.SelectorExpr)
					if !isSE || !fieldNames[se.Sel.Name] || stateFields[se.Sel.Name] {
						continue
					}
					writes = append(writes, file+":"+fd.Name.Name+":"+render(l))
				}
				return true
			})
		}
	}
	sort.Strings(writes)
	fmt.Fprintf(&out, "/-- F11: assignments in execution-phase files to fields of Template / node structs -/\n")
	fmt.Fprintf(&out, "def execPhaseAstWrites : List String := %s\n\n", leanStrList(writes))
}

func init() { generators = append(generators, genAstWriteFacts) }
