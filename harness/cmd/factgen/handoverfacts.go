package main

import (
	"fmt"
	"go/ast"
	"go/token"
	"os"
	"path/filepath"
	"strings"
)

// ---- F13: the hand-over between the lexer goroutine and the parser (lex.go, parse.go):
// every send / receive / range / close on a channel-typed field of the lexer with the function it sits in
// and whether it is a case of a `select`; every `go` statement and every `make(chan …)` of the package;
// what `Template.recover` calls on the error path, in order; the shape of `lexer.drain`.
func genHandoverFacts() {
	var sends, recvs, closes, gos, chans, recoverCalls []string
	drainShape := "missing"
	closeAfterLoop := false
	entries, _ := os.ReadDir(repo)
	for _, e := range entries {
		name := e.Name()
		if e.IsDir() || !strings.HasSuffix(name, ".go") || strings.HasSuffix(name, "_test.go") || strings.HasPrefix(name, "verif_") {
			continue
		}
		f := parseFile(name)
		if f == nil {
			continue
		}
		for _, d := range f.Decls {
			fd, ok := d.(*ast.FuncDecl)
			if !ok || fd.Body == nil {
				continue
			}
			fn := fd.Name.Name
			if fd.Recv != nil && len(fd.Recv.List) == 1 {
				t := fd.Recv.List[0].Type
				if st, ok := t.(*ast.StarExpr); ok {
					t = st.X
				}
				fn = render(t) + "." + fn
			}
			// which nodes are communication clauses of a select
			inSelect := map[ast.Node]bool{}
			ast.Inspect(fd.Body, func(n ast.Node) bool {
				if cc, ok := n.(*ast.CommClause); ok && cc.Comm != nil {
					ast.Inspect(cc.Comm, func(m ast.Node) bool {
						if m != nil {
							inSelect[m] = true
						}
						return true
					})
				}
				return true
			})
			kind := func(n ast.Node) string {
				if inSelect[n] {
					return "select"
				}
				return "plain"
			}
			ast.Inspect(fd.Body, func(n ast.Node) bool {
				switch x := n.(type) {
				case *ast.SendStmt:
					sends = append(sends, fmt.Sprintf("(%s, %s, %s)", leanStr(fn), leanStr(render(x.Chan)), leanStr(kind(x))))
				case *ast.UnaryExpr:
					if x.Op == token.ARROW {
						recvs = append(recvs, fmt.Sprintf("(%s, %s, %s)", leanStr(fn), leanStr(render(x.X)), leanStr(kind(x))))
					}
				case *ast.RangeStmt:
					// a range over something that is a channel-typed selector is recognised by name below (drain)
					if sel, ok := x.X.(*ast.SelectorExpr); ok && (sel.Sel.Name == "items" || strings.Contains(strings.ToLower(sel.Sel.Name), "chan")) {
						recvs = append(recvs, fmt.Sprintf("(%s, %s, %s)", leanStr(fn), leanStr(render(x.X)), leanStr("range")))
					}
				case *ast.CallExpr:
					if id, ok := x.Fun.(*ast.Ident); ok && id.Name == "close" && len(x.Args) == 1 {
						closes = append(closes, fmt.Sprintf("(%s, %s)", leanStr(fn), leanStr(render(x.Args[0]))))
					}
					if id, ok := x.Fun.(*ast.Ident); ok && id.Name == "make" && len(x.Args) >= 1 {
						if _, isChan := x.Args[0].(*ast.ChanType); isChan {
							buf := "unbuffered"
							if len(x.Args) > 1 {
								buf = "buffered " + render(x.Args[1])
							}
							chans = append(chans, fmt.Sprintf("(%s, %s)", leanStr(fn), leanStr(buf)))
						}
					}
				case *ast.GoStmt:
					gos = append(gos, leanStr(filepath.Base(name)+" "+fn))
					// is the goroutine `for …state machine… {}; close(ch)` ?
					if fl, ok := x.Call.Fun.(*ast.FuncLit); ok && len(fl.Body.List) == 2 {
						_, isFor := fl.Body.List[0].(*ast.ForStmt)
						if es, ok := fl.Body.List[1].(*ast.ExprStmt); ok && isFor {
							if c, ok := es.X.(*ast.CallExpr); ok {
								if id, ok := c.Fun.(*ast.Ident); ok && id.Name == "close" {
									closeAfterLoop = true
								}
							}
						}
					}
				}
				return true
			})
			if fn == "Template.recover" {
				// calls made on the error path: inside `if e != nil { … }`, after the runtime.Error re-panic
				ast.Inspect(fd.Body, func(n ast.Node) bool {
					if c, ok := n.(*ast.CallExpr); ok {
						r := render(c.Fun)
						if strings.HasPrefix(r, "t.") {
							recoverCalls = append(recoverCalls, leanStr(r))
						}
					}
					return true
				})
			}
			if fn == "lexer.drain" {
				drainShape = "other"
				if len(fd.Body.List) == 1 {
					if rs, ok := fd.Body.List[0].(*ast.RangeStmt); ok && rs.Key == nil && rs.Value == nil && len(rs.Body.List) == 0 {
						drainShape = "range " + render(rs.X)
					}
				}
			}
		}
	}
	fmt.Fprintf(&out, "/-- F13: hand-over between the lexer goroutine and the parser: (function, channel, plain | select) -/\n")
	fmt.Fprintf(&out, "def chanSends : List (String × String × String) := [%s]\n", strings.Join(sends, ", "))
	fmt.Fprintf(&out, "def chanRecvs : List (String × String × String) := [%s]\n", strings.Join(recvs, ", "))
	fmt.Fprintf(&out, "def chanCloses : List (String × String) := [%s]\n", strings.Join(closes, ", "))
	fmt.Fprintf(&out, "def chanMakes : List (String × String) := [%s]\n", strings.Join(chans, ", "))
	fmt.Fprintf(&out, "def goStmts : List String := [%s]\n", strings.Join(gos, ", "))
	fmt.Fprintf(&out, "def goroutineClosesAfterLoop : Bool := %v\n", closeAfterLoop)
	fmt.Fprintf(&out, "def recoverCalls : List String := [%s]\n", strings.Join(recoverCalls, ", "))
	fmt.Fprintf(&out, "def drainShape : String := %s\n\n", leanStr(drainShape))
}

func init() { generators = append(generators, genHandoverFacts) }
