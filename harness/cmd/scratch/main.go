package main

import (
	"bytes"
	"fmt"
	"os"
	"strings"

	"github.com/CloudyKit/jet/v6"
)

func main() {
	ld := jet.NewInMemLoader()
	ents, _ := os.ReadDir("/tmp/c07f")
	for _, e := range ents {
		b, _ := os.ReadFile("/tmp/c07f/" + e.Name())
		ld.Set("/"+strings.ReplaceAll(e.Name(), "_", "/"), string(b))
	}
	if len(os.Args) > 1 {
		ld.Set("/inc1.jet", os.Args[1])
	}
	set := jet.NewSet(ld, jet.WithSafeWriter(nil))
	set.AddGlobal("html", func(s string) string { return s + "!" })
	set.AddGlobal("ident", func(v interface{}) interface{} { return v })
	t, err := set.GetTemplate("/main.jet")
	if err != nil {
		fmt.Printf("parse error %v\n", err)
		return
	}
	var b bytes.Buffer
	vars := jet.VarMap{}
	vars.Set("trimSpace", func(s string) string { return s + "!" })
	vars.Set("sa", "x")
	vars.Set("sb", "y")
	vars.Set("ia", 3)
	vars.Set("big", "B")
	vars.Set("li", []int{3, 0, 7})
	err = t.Execute(&b, vars, "c<x")
	fmt.Printf("out=%q err=%v\n", b.String(), err)
}
