package main

import (
	"fmt"
	"os"

	"github.com/CloudyKit/jet/v6"
	"github.com/CloudyKit/jet/v6/utils"
)

func main() {
	for _, src := range os.Args[1:] {
		ld := jet.NewInMemLoader()
		ld.Set("/t.jet", src)
		set := jet.NewSet(ld)
		t, err := set.GetTemplate("/t.jet")
		if err != nil {
			fmt.Printf("%q: parse error %v\n", src, err)
			continue
		}
		func() {
			defer func() {
				if e := recover(); e != nil {
					fmt.Printf("%q: WALK PANIC %v\n", src, e)
				}
			}()
			utils.Walk(t, utils.VisitorFunc(func(vc utils.VisitorContext, n jet.Node) { vc.Visit(n) }))
			fmt.Printf("%q: ok\n", src)
		}()
	}
}
