package main

import (
	"bytes"
	"fmt"
	"os"

	"github.com/CloudyKit/jet/v6"
)

func main() {
	for _, src := range os.Args[1:] {
		ld := jet.NewInMemLoader()
		ld.Set("/t.jet", src)
		set := jet.NewSet(ld)
		t, err := set.GetTemplate("/t.jet")
		if err != nil {
			fmt.Printf("%q: parse error %v\n", src, err)
			continue
		}
		func() {
			defer func() {
				if e := recover(); e != nil {
					fmt.Printf("%q: EXECUTE PANIC %v\n", src, e)
				}
			}()
			var b bytes.Buffer
			err := t.Execute(&b, nil, map[string]interface{}{"x": 1})
			fmt.Printf("%q: out=%q err=%v\n", src, b.String(), err)
		}()
	}
}
