package main

import (
	"bytes"
	"fmt"

	"github.com/CloudyKit/jet/v6"
)

func run(files map[string]string, entry string) {
	ld := jet.NewInMemLoader()
	for p, c := range files {
		ld.Set(p, c)
	}
	set := jet.NewSet(ld)
	t, err := set.GetTemplate(entry)
	if err != nil {
		fmt.Println("parse error", err)
		return
	}
	func() {
		defer func() {
			if e := recover(); e != nil {
				fmt.Printf("EXECUTE PANIC %v\n", e)
			}
		}()
		var b bytes.Buffer
		err := t.Execute(&b, nil, nil)
		fmt.Printf("out=%q err=%v\n", b.String(), err)
	}()
}

func main() {
	run(map[string]string{
		"/main.jet": `{{block wrap()}}[{{include "/i1.jet"}}]{{end}}{{yield wrap() content}}C{{ nope }}{{end}}`,
		"/i1.jet":   `{{include "/i2.jet"}}`,
		"/i2.jet":   `{{yield content}}`,
	}, "/main.jet")
	run(map[string]string{
		"/main.jet": `{{block wrap()}}[{{include "/i1.jet"}}]{{end}}{{try}}{{yield wrap() content}}C{{ nope }}{{end}}{{catch}}caught{{end}}|after`,
		"/i1.jet":   `{{include "/i2.jet"}}`,
		"/i2.jet":   `{{yield content}}`,
	}, "/main.jet")
}
