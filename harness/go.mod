module jetverif/harness

go 1.16

require (
	github.com/CloudyKit/fastprinter v0.0.0-20200109182630-33d98a066a53
	github.com/CloudyKit/jet/v6 v6.0.0
)

replace github.com/CloudyKit/jet/v6 => /repo
