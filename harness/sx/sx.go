// Package sx: s-expressions for the line protocol (see lean/JetVerif/Model/Sexp.lean).
package sx

import (
	"encoding/hex"
	"fmt"
	"strconv"
	"strings"
)

type Kind int

const (
	Atom Kind = iota
	Bytes
	List
)

type Sexp struct {
	K  Kind
	A  string
	B  []byte
	Xs []*Sexp
}

func A(s string) *Sexp           { return &Sexp{K: Atom, A: s} }
func B(b []byte) *Sexp           { return &Sexp{K: Bytes, B: b} }
func S(s string) *Sexp           { return &Sexp{K: Bytes, B: []byte(s)} }
func L(xs ...*Sexp) *Sexp        { return &Sexp{K: List, Xs: xs} }
func I(n int64) *Sexp            { return A(strconv.FormatInt(n, 10)) }
func U(n uint64) *Sexp           { return A(strconv.FormatUint(n, 10)) }
func Bool(b bool) *Sexp          { return A(strconv.FormatBool(b)) }
func (s *Sexp) Add(x *Sexp) *Sexp { s.Xs = append(s.Xs, x); return s }

func (s *Sexp) String() string {
	var sb strings.Builder
	s.write(&sb)
	return sb.String()
}

func (s *Sexp) write(sb *strings.Builder) {
	switch s.K {
	case Atom:
		sb.WriteString(s.A)
	case Bytes:
		sb.WriteByte('#')
		sb.WriteString(hex.EncodeToString(s.B))
	case List:
		sb.WriteByte('(')
		for i, x := range s.Xs {
			if i > 0 {
				sb.WriteByte(' ')
			}
			x.write(sb)
		}
		sb.WriteByte(')')
	}
}

func isDelim(c byte) bool { return c == ' ' || c == '(' || c == ')' || c == '\n' || c == '\r' || c == '\t' }

// Parse parses one s-expression from a line.
func Parse(line string) (*Sexp, error) {
	x, i, err := parseAt(line, 0)
	if err != nil {
		return nil, err
	}
	for i < len(line) && isDelim(line[i]) && line[i] != '(' && line[i] != ')' {
		i++
	}
	if i != len(line) {
		return nil, fmt.Errorf("trailing input at %d", i)
	}
	return x, nil
}

func parseAt(s string, i int) (*Sexp, int, error) {
	for i < len(s) && (s[i] == ' ' || s[i] == '\n' || s[i] == '\r' || s[i] == '\t') {
		i++
	}
	if i >= len(s) {
		return nil, i, fmt.Errorf("unexpected end")
	}
	switch s[i] {
	case '(':
		i++
		l := &Sexp{K: List}
		for {
			for i < len(s) && (s[i] == ' ' || s[i] == '\n' || s[i] == '\r' || s[i] == '\t') {
				i++
			}
			if i >= len(s) {
				return nil, i, fmt.Errorf("unclosed list")
			}
			if s[i] == ')' {
				return l, i + 1, nil
			}
			x, j, err := parseAt(s, i)
			if err != nil {
				return nil, j, err
			}
			l.Xs = append(l.Xs, x)
			i = j
		}
	case ')':
		return nil, i, fmt.Errorf("unexpected )")
	case '#':
		j := i + 1
		for j < len(s) && !isDelim(s[j]) {
			j++
		}
		b, err := hex.DecodeString(s[i+1 : j])
		if err != nil {
			return nil, j, err
		}
		return &Sexp{K: Bytes, B: b}, j, nil
	default:
		j := i
		for j < len(s) && !isDelim(s[j]) {
			j++
		}
		return &Sexp{K: Atom, A: s[i:j]}, j, nil
	}
}
