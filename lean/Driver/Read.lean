/-
  Readers for the line protocol: the AST dump produced by /repo's verif hook
  (`VerifDumpTemplate`), Go data values serialised by the harness, and evaluator cases.
  Protocol plumbing (trusted, not part of any theorem).
-/
import JetVerif.Model.Sexp
import JetVerif.Model.Eval

namespace JetVerif.Read
open JetVerif

abbrev R := Except String

def fail {α} (msg : String) : R α := .error msg

def asBytes : Sexp → R Bytes
  | .bytes b => pure b
  | s => fail s!"expected bytes, got {s.render.take 40}"

def asNat : Sexp → R Nat
  | .atom a => match a.toNat? with
    | some n => pure n
    | none => fail s!"expected nat, got {a}"
  | s => fail s!"expected nat, got {s.render.take 40}"

def asInt : Sexp → R Int
  | .atom a => match a.toInt? with
    | some n => pure n
    | none => fail s!"expected int, got {a}"
  | s => fail s!"expected int, got {s.render.take 40}"

def asBool : Sexp → R Bool
  | .atom "true" => pure true
  | .atom "false" => pure false
  | s => fail s!"expected bool, got {s.render.take 40}"

def isNil : Sexp → Bool
  | .atom "nil" => true
  | _ => false

def tokOfCode (n : Nat) : R Tok :=
  match Tok.all.find? (fun t => t.code == n) with
  | some t => pure t
  | none => fail s!"unknown item type code {n}"

/-- strips an `(@ #path node)` wrapper: the node's own TemplatePath differs from the template's -/
def unwrapPath (path : Bytes) : Sexp → Bytes × Sexp
  | .list [.atom "@", .bytes p, n] => (p, n)
  | n => (path, n)

mutual
partial def readExpr (path : Bytes) (s0 : Sexp) : R Expr := do
  let (p, s) := unwrapPath path s0
  match s with
  | .list (.atom kind :: lineS :: rest) =>
    let line ← asNat lineS
    let loc : Loc := { path := p, line := line }
    match kind, rest with
    | "ident", [n] => do pure (.ident loc (← asBytes n))
    | "field", names => do pure (.field loc (← names.mapM asBytes))
    | "chain", base :: fields => do
      if isNil base then fail "chain with nil node"
      pure (.chain loc (← readExpr path base) (← fields.mapM asBytes))
    | "underscore", [] => pure (.underscore loc)
    | "nillit", [] => pure (.nilLit loc)
    | "bool", [t] => do pure (.boolLit loc (← asBool t))
    | "string", [t] => do pure (.strLit loc (← asBytes t))
    | "number", [isInt, isUint, isFloat, _isComplex, i, u, f, _txt] => do
      pure (.numLit loc (← asBool isInt) (← asBool isUint) (← asBool isFloat) (← asInt i) (← asNat u) (← asNat f).toUInt64)
    | "add", [op, l, r] => do
      let t ← tokOfCode (← asNat op)
      let le ← (if isNil l then pure none else do pure (some (← readExpr path l)))
      if isNil r then fail "add with nil right"
      pure (.add loc (t == Tok.add) le (← readExpr path r))
    | "mul", [op, l, r] => do
      pure (.mul loc (← tokOfCode (← asNat op)) (← readExpr path l) (← readExpr path r))
    | "cmp", [op, l, r] => do
      let t ← tokOfCode (← asNat op)
      pure (.cmp loc (t == Tok.notEquals) (← readExpr path l) (← readExpr path r))
    | "numcmp", [op, l, r] => do
      pure (.numcmp loc (← tokOfCode (← asNat op)) (← readExpr path l) (← readExpr path r))
    | "logic", [op, l, r] => do
      let t ← tokOfCode (← asNat op)
      pure (.logic loc (t == Tok.and_) (← readExpr path l) (← readExpr path r))
    | "not", [e] => do pure (.not loc (← readExpr path e))
    | "ternary", [c, l, r] => do
      pure (.ternary loc (← readExpr path c) (← readExpr path l) (← readExpr path r))
    | "call", [base, args, slot] => do
      let (as, nonNil) ← readArgs path args
      pure (.call loc (← readExpr path base) as nonNil (← asBool slot))
    | "index", [base, idx] => do pure (.index loc (← readExpr path base) (← readExpr path idx))
    | "slice", [base, i, j] => do
      let ie ← (if isNil i then pure none else do pure (some (← readExpr path i)))
      let je ← (if isNil j then pure none else do pure (some (← readExpr path j)))
      pure (.slice loc (← readExpr path base) ie je)
    | _, _ => fail s!"unknown expression node {kind}"
  | _ => fail s!"bad expression {s.render.take 60}"

partial def readArgs (path : Bytes) : Sexp → R (List Expr × Bool)
  | .atom "nil" => pure ([], false)
  | .list xs => do pure (← xs.mapM (readExpr path), true)
  | s => fail s!"bad args {s.render.take 40}"
end

def readOptExpr (path : Bytes) (s : Sexp) : R (Option Expr) :=
  if isNil s then pure none else do pure (some (← readExpr path s))

def readSet (path : Bytes) (s0 : Sexp) : R SetN := do
  let (p, s) := unwrapPath path s0
  match s with
  | .list [.atom "set", line, isLet, lookup, .list lefts, .list rights] =>
    pure { loc := { path := p, line := ← asNat line }, isLet := ← asBool isLet, lookup := ← asBool lookup,
           left := ← lefts.mapM (readExpr path), right := ← rights.mapM (readExpr path) }
  | _ => fail s!"bad set node {s.render.take 60}"

def readCmd (path : Bytes) (s0 : Sexp) : R Cmd := do
  let (p, s) := unwrapPath path s0
  match s with
  | .list [.atom "cmd", line, _callLine, base, args, slot] =>
    if isNil base then fail "command with nil base" else do
    let (as, nonNil) ← readArgs path args
    pure { loc := { path := p, line := ← asNat line }, base := ← readExpr path base, args := as,
           argsNonNil := nonNil, hasSlot := ← asBool slot }
  | _ => fail s!"bad cmd node {s.render.take 60}"

def readPipe (path : Bytes) (s0 : Sexp) : R Pipe := do
  let (p, s) := unwrapPath path s0
  match s with
  | .list (.atom "pipe" :: line :: cmds) =>
    pure { loc := { path := p, line := ← asNat line }, cmds := ← cmds.mapM (readCmd path) }
  | _ => fail s!"bad pipe node {s.render.take 60}"

def readParams (path : Bytes) : Sexp → R (Option (List Param))
  | .atom "nil" => pure none
  | .list ps => do
    let xs ← ps.mapM fun q => match q with
      | .list [n, e] => do pure ({ name := ← asBytes n, dflt := ← readOptExpr path e } : Param)
      | _ => fail "bad parameter"
    pure (some xs)
  | _ => fail "bad parameter list"

mutual
partial def readStmt (path : Bytes) (s0 : Sexp) : R Stmt := do
  let (p, s) := unwrapPath path s0
  match s with
  | .list (.atom kind :: lineS :: rest) =>
    let loc : Loc := { path := p, line := ← asNat lineS }
    match kind, rest with
    | "text", [t] => do pure (.text loc (← asBytes t))
    | "action", [set, pipe] => do
      let st ← (if isNil set then pure none else do pure (some (← readSet path set)))
      let pp ← (if isNil pipe then pure none else do pure (some (← readPipe path pipe)))
      pure (.action loc st pp)
    | "if", [set, e, l, el] => do
      let st ← (if isNil set then pure none else do pure (some (← readSet path set)))
      if isNil e then fail "if without expression"
      pure (.ifS loc st (← readExpr path e) (← readList path l) (← readOptList path el))
    | "range", [set, e, l, el] => do
      let st ← (if isNil set then pure none else do pure (some (← readSet path set)))
      pure (.rangeS loc st (← readOptExpr path e) (← readList path l) (← readOptList path el))
    | "block", [name, params, e, l, c] => do
      let ps ← readParams path params
      pure (.block loc (← asBytes name) (ps.getD []) (← readOptExpr path e) (← readList path l) (← readOptList path c))
    | "yield", [name, params, e, c, isC] => do
      pure (.yield loc (← asBytes name) (← readParams path params) (← readOptExpr path e) (← readOptList path c) (← asBool isC))
    | "include", [n, c] => do
      if isNil n then fail "include without name"
      pure (.include loc (← readExpr path n) (← readOptExpr path c))
    | "try", [l, c] => do
      let body ← readList path l
      if isNil c then pure (.tryS loc body false none none)
      else match (unwrapPath path c).2 with
        | .list [.atom "catch", _, err, cl] => do
          let v ← (if isNil err then pure none else match (unwrapPath path err).2 with
            | .list [.atom "ident", _, n] => do pure (some (← asBytes n))
            | _ => fail "bad catch variable")
          pure (.tryS loc body true v (← readOptList path cl))
        | _ => fail "bad catch node"
    | "return", [e] => do
      if isNil e then fail "return without value"
      pure (.ret loc (← readExpr path e))
    | _, _ => fail s!"unknown statement node {kind}"
  | _ => fail s!"bad statement {s.render.take 60}"

partial def readList (path : Bytes) (s0 : Sexp) : R (List Stmt) := do
  match (unwrapPath path s0).2 with
  | .list (.atom "list" :: _ :: nodes) => nodes.mapM (readStmt path)
  | .atom "nil" => fail "nil list where a list is required"
  | s => fail s!"bad list {s.render.take 60}"

partial def readOptList (path : Bytes) (s : Sexp) : R (Option (List Stmt)) :=
  if isNil s then pure none else do pure (some (← readList path s))
end

def readBlockN (path : Bytes) (s0 : Sexp) : R BlockN := do
  match ← readStmt path s0 with
  | .block loc name params ctx body content =>
    pure { loc := loc, name := name, params := params, ctx := ctx, body := body, content := content }
  | _ => fail "block table entry is not a block node"

def readTmpl : Sexp → R Tmpl
  | .list [.atom "template", name, ext, .list imports, .list blocks, root] => do
    let n ← asBytes name
    let e ← (if isNil ext then pure none else do pure (some (← asBytes ext)))
    let bs ← blocks.mapM fun q => match q with
      | .list [bn, node] => do
        -- a block node's own TemplatePath is the template that defined it
        let (bp, _) := unwrapPath n node
        pure (← asBytes bn, ← readBlockN bp node)
      | _ => fail "bad block table entry"
    let r ← (if isNil root then pure [] else readList n root)
    pure { name := n, ext := e, imports := ← imports.mapM asBytes, blocks := bs, root := r }
  | s => fail s!"bad template {s.render.take 60}"

partial def readVal : Sexp → R Val
  | .list [.atom "invalid"] => pure .invalid
  | .list [.atom "bool", t] => do pure (.bool (← asBool t))
  | .list [.atom "int", n] => do pure (.int (← asInt n))
  | .list [.atom "uint", n] => do pure (.uint (← asNat n))
  | .list [.atom "float", n] => do pure (.float (← asNat n).toUInt64)
  | .list [.atom "str", s] => do pure (.str (← asBytes s))
  | .list [.atom "bytes", s] => do pure (.bytes (← asBytes s))
  | .list (.atom "slice" :: ifc :: nl :: es) => do
    pure (.slice (← es.mapM readVal) (← asBool ifc) (← asBool nl))
  | .list (.atom "smap" :: ifc :: nl :: es) => do
    let xs ← es.mapM fun q => match q with
      | .list [k, v] => do pure (← asBytes k, ← readVal v)
      | _ => fail "bad map entry"
    pure (.smap xs (← asBool ifc) (← asBool nl))
  | .list (.atom "struct" :: .atom tn :: fs) => do
    let xs ← fs.mapM fun q => match q with
      | .list [k, v] => do pure (← asBytes k, ← readVal v)
      | _ => fail "bad struct field"
    pure (.struct tn xs)
  | .list [.atom "ptr", .atom tn, v] => do
    if isNil v then pure (.ptr tn none) else do pure (.ptr tn (some (← readVal v)))
  | .list [.atom "iface", v] => do pure (.iface (← readVal v))
  | .list [.atom "func", .atom id] => pure (.func id)
  | .list [.atom "jfunc", .atom id] => pure (.jfunc id)
  | .list [.atom "swriter", .atom id] => pure (.swriter id)
  | .list [.atom "goval", .atom k] => pure (.opaque ("a Go value of a kind outside the model: " ++ k))
  | .list [.atom "named", .atom k, _] => pure (.opaque ("a named " ++ k ++ " type with a print method"))
  | .list [.atom "opaque", .atom w] => pure (.opaque w)
  | s => fail s!"bad value {s.render.take 60}"

def readBindings : Sexp → R (List (Bytes × Val))
  | .list xs => xs.mapM fun q => match q with
    | .list [k, v] => do pure (← asBytes k, ← readVal v)
    | _ => fail "bad binding"
  | _ => fail "bad bindings"

end JetVerif.Read
