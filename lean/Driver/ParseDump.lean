/-
  The parser model behind the line protocol: `(parsetree #name L R LC RC #src (lits …) (files …))`
  lexes and parses the source with the model and prints the tree in the format of /repo's hook
  `VerifDumpTemplate`, or the error's line and (modelled part of the) message.
  Protocol plumbing (trusted, not part of any theorem).
-/
import JetVerif.Model.Sexp
import JetVerif.Model.Path
import JetVerif.Model.Parse

namespace JetVerif.ParseDump
open JetVerif JetVerif.Parse

def nodeS (kind : String) (line : Nat) (rest : List Sexp) : Sexp :=
  .list (.atom kind :: Sexp.ofNat line :: rest)

def nilS : Sexp := .atom "nil"

def binName : BinKind → String
  | .add => "add" | .mul => "mul" | .cmp => "cmp" | .numcmp => "numcmp" | .logic => "logic"

mutual
partial def exprS : PExpr → Sexp
  | .ident l n => nodeS "ident" l [.bytes n]
  | .field l ns => nodeS "field" l (ns.map .bytes)
  | .chain l b fs => nodeS "chain" l (exprS b :: fs.map .bytes)
  | .underscore l => nodeS "underscore" l []
  | .nilLit l => nodeS "nillit" l []
  | .boolLit l b => nodeS "bool" l [Sexp.ofBool b]
  | .strLit l s => nodeS "string" l [.bytes s]
  | .numLit l (.num a b c d i u f) txt =>
    nodeS "number" l [Sexp.ofBool a, Sexp.ofBool b, Sexp.ofBool c, Sexp.ofBool d, Sexp.ofInt i, Sexp.ofNat u, Sexp.ofNat f, .bytes txt]
  | .numLit l _ txt => nodeS "number" l [.atom "?", .bytes txt]
  | .binary k l op le r => nodeS (binName k) l [Sexp.ofNat op.code, optExprS le, exprS r]
  | .not l e => nodeS "not" l [exprS e]
  | .ternary l c a b => nodeS "ternary" l [exprS c, exprS a, exprS b]
  | .call l b args slot => nodeS "call" l [exprS b, .list (args.map exprS), Sexp.ofBool slot]
  | .index l b i => nodeS "index" l [exprS b, optExprS i]
  | .slice l b i j => nodeS "slice" l [exprS b, optExprS i, optExprS j]

partial def optExprS : Option PExpr → Sexp
  | none => nilS
  | some e => exprS e
end

def setS (s : PSet) : Sexp :=
  nodeS "set" s.line [Sexp.ofBool s.isLet, Sexp.ofBool s.lookup, .list (s.left.map exprS), .list (s.right.map exprS)]

def cmdS (c : PCmd) : Sexp :=
  nodeS "cmd" c.line [Sexp.ofNat c.callLine, exprS c.base,
    (match c.args with | none => nilS | some as => .list (as.map exprS)), Sexp.ofBool c.hasSlot]

def pipeS (p : PPipe) : Sexp := nodeS "pipe" p.line (p.cmds.map cmdS)

def paramsS : Option (List PParam) → Sexp
  | none => nilS
  | some ps => .list (ps.map fun p => .list [.bytes p.name, optExprS p.dflt])

mutual
partial def stmtS : PStmt → Sexp
  | .text l b => nodeS "text" l [.bytes b]
  | .action l set pipe =>
    nodeS "action" l [(match set with | none => nilS | some s => setS s), (match pipe with | none => nilS | some p => pipeS p)]
  | .branch isIf l set e ll list els =>
    nodeS (if isIf then "if" else "range") l
      [(match set with | none => nilS | some s => setS s), optExprS e, listS ll list, optListS els]
  | .block l name params ctx ll list content =>
    nodeS "block" l [.bytes name, paramsS (some params), optExprS ctx, listS ll list, optListS content]
  | .yield l name params ctx content isC =>
    nodeS "yield" l [.bytes name, paramsS params, optExprS ctx, optListS content, Sexp.ofBool isC]
  | .include l name ctx => nodeS "include" l [exprS name, optExprS ctx]
  | .tryS l ll list c =>
    nodeS "try" l [listS ll list, (match c with
      | none => nilS
      | some (cl, ev, cll, clist) =>
        nodeS "catch" cl [(match ev with | none => nilS | some (el, n) => nodeS "ident" el [.bytes n]), listS cll clist])]
  | .ret l e => nodeS "return" l [exprS e]
  | .endM => .atom "end-marker"
  | .elseM _ => .atom "else-marker"
  | .contentM => .atom "content-marker"
  | .catchM .. => .atom "catch-marker"

partial def listS (line : Nat) (nodes : List PStmt) : Sexp := nodeS "list" line (nodes.map stmtS)

partial def optListS : Option (Nat × List PStmt) → Sexp
  | none => nilS
  | some (l, ns) => listS l ns
end

def bytesLt : List UInt8 → List UInt8 → Bool
  | [], [] => false
  | [], _ :: _ => true
  | _ :: _, [] => false
  | a :: as, b :: bs => if a < b then true else if a > b then false else bytesLt as bs

def insertSorted (e : List UInt8 × PStmt) : List (List UInt8 × PStmt) → List (List UInt8 × PStmt)
  | [] => [e]
  | x :: xs => if bytesLt e.1 x.1 then e :: x :: xs else x :: insertSorted e xs

def tmplS (t : PTmpl) : Sexp :=
  let blocks := t.passed.foldl (fun acc e => insertSorted e acc) []
  .list [.atom "template", .bytes t.name,
    (match t.ext with | none => nilS | some e => .bytes e),
    .list (t.imports.map .bytes),
    .list (blocks.map fun (n, b) => .list [.bytes n, stmtS b]),
    listS t.rootLine t.root]

def readLit : Sexp → Option (Nat × List UInt8 × Lit)
  | .list [.atom ty, .bytes txt, .atom "num", .atom a, .atom b, .atom c, .atom d, .atom i, .atom u, .atom f] =>
    some (ty.toNat?.getD 0, txt, .num (a == "true") (b == "true") (c == "true") (d == "true")
            (i.toInt?.getD 0) (u.toNat?.getD 0) (f.toNat?.getD 0))
  | .list [.atom ty, .bytes txt, .atom "str", .bytes s] => some (ty.toNat?.getD 0, txt, .str s)
  | .list [.atom ty, .bytes txt, .atom "bad", .bytes m] => some (ty.toNat?.getD 0, txt, .bad m)
  | _ => none

def parsetreeCmd (name l r lc rc src : List UInt8) (lits files : List Sexp) : Sexp :=
  let table := lits.filterMap readLit
  let fileNames := files.filterMap fun f => match f with | .bytes b => some b | _ => none
  let exts : List (List UInt8) := (Facts.defaultExtensions.getD []).map fun e => e.toUTF8.toList
  let cfg : Cfg :=
    { lit := fun ty txt => match table.find? (fun e => e.1 == ty.code && e.2.1 == txt) with
        | some e => e.2.2
        | none => .unknown
      load := fun s =>
        let p := Path.resolveSibling s name
        exts.findSome? fun e => if fileNames.contains (p ++ e) then some (p ++ e) else none }
  match parseSource cfg (Lex.mkDelims l r lc rc) name src with
  | .ok t => .list [.atom "ok", tmplS t]
  | .err line m => .list [.atom "err", Sexp.ofNat line, Sexp.ofBool m.exact, .bytes m.text]
  | .crash w => .list [.atom "crash", .atom (w.replace " " "-")]
  | .fuel => .list [.atom "fuel"]
  | .unsupported w => .list [.atom "unsupported", .atom (w.replace " " "-")]

end JetVerif.ParseDump
