/-
  The whole pipeline inside the model: `(exec-src (store (#path #src (lits…))…) #entry (exts…) esc
  globals vars data fuel)` lexes and parses every file with the lexer and parser models, builds the
  effective block tables with the block-table model, and runs the evaluator model on the result -
  source bytes in, output bytes (or located error) out, nothing taken from the real parser.
  Protocol plumbing and the erasure of the parser's tree to the evaluator's (`toAst`); trusted, not
  part of any theorem.
-/
import Driver.Read
import Driver.ParseDump
import JetVerif.Model.Blocks

namespace JetVerif.ExecSrc
open JetVerif JetVerif.Parse

abbrev R := Except String

mutual
partial def exprA (path : List UInt8) : PExpr → R Expr
  | .ident l n => pure (.ident ⟨path, l⟩ n)
  | .field l ns => pure (.field ⟨path, l⟩ ns)
  | .chain l b fs => do pure (.chain ⟨path, l⟩ (← exprA path b) fs)
  | .underscore l => pure (.underscore ⟨path, l⟩)
  | .nilLit l => pure (.nilLit ⟨path, l⟩)
  | .boolLit l b => pure (.boolLit ⟨path, l⟩ b)
  | .strLit l s => pure (.strLit ⟨path, l⟩ s)
  | .numLit l (.num a b c d i u f) _ =>
    if d then .error "complex number literal" else pure (.numLit ⟨path, l⟩ a b c i u f.toUInt64)
  | .numLit _ _ _ => .error "number literal without value"
  | .binary .add l op le r => do
    let le' ← (match le with | none => pure none | some e => do pure (some (← exprA path e)))
    pure (.add ⟨path, l⟩ (op == Tok.add) le' (← exprA path r))
  | .binary k l op (some le) r => do
    let a ← exprA path le
    let b ← exprA path r
    match k with
    | .mul => pure (.mul ⟨path, l⟩ op a b)
    | .cmp => pure (.cmp ⟨path, l⟩ (op == Tok.notEquals) a b)
    | .numcmp => pure (.numcmp ⟨path, l⟩ op a b)
    | .logic => pure (.logic ⟨path, l⟩ (op == Tok.and_) a b)
    | .add => pure (.add ⟨path, l⟩ (op == Tok.add) (some a) b)
  | .binary _ _ _ none _ => .error "binary node without left operand"
  | .not l e => do pure (.not ⟨path, l⟩ (← exprA path e))
  | .ternary l c a b => do pure (.ternary ⟨path, l⟩ (← exprA path c) (← exprA path a) (← exprA path b))
  | .call l b args slot => do pure (.call ⟨path, l⟩ (← exprA path b) (← args.mapM (exprA path)) true slot)
  | .index l b (some i) => do pure (.index ⟨path, l⟩ (← exprA path b) (← exprA path i))
  | .index _ _ none => .error "index node without index"
  | .slice l b i j => do pure (.slice ⟨path, l⟩ (← exprA path b) (← optA path i) (← optA path j))

partial def optA (path : List UInt8) : Option PExpr → R (Option Expr)
  | none => pure none
  | some e => do pure (some (← exprA path e))
end

def setA (path : List UInt8) (s : PSet) : R SetN := do
  pure { loc := ⟨path, s.line⟩, isLet := s.isLet, lookup := s.lookup,
         left := ← s.left.mapM (exprA path), right := ← s.right.mapM (exprA path) }

def cmdA (path : List UInt8) (c : PCmd) : R Cmd := do
  let (args, nonNil) ← (match c.args with
    | none => pure ([], false)
    | some as => do pure (← as.mapM (exprA path), true))
  pure { loc := ⟨path, c.line⟩, base := ← exprA path c.base, args := args, argsNonNil := nonNil, hasSlot := c.hasSlot }

def pipeA (path : List UInt8) (p : PPipe) : R Pipe := do
  pure { loc := ⟨path, p.line⟩, cmds := ← p.cmds.mapM (cmdA path) }

def paramsA (path : List UInt8) (ps : List PParam) : R (List Param) :=
  ps.mapM fun p => do pure { name := p.name, dflt := ← optA path p.dflt }

mutual
partial def stmtA (path : List UInt8) : PStmt → R Stmt
  | .text l b => pure (.text ⟨path, l⟩ b)
  | .action l set pipe => do
    let s ← (match set with | none => pure none | some x => do pure (some (← setA path x)))
    let p ← (match pipe with | none => pure none | some x => do pure (some (← pipeA path x)))
    pure (.action ⟨path, l⟩ s p)
  | .branch isIf l set e _ list els => do
    let s ← (match set with | none => pure none | some x => do pure (some (← setA path x)))
    let body ← list.mapM (stmtA path)
    let el ← optListA path els
    if isIf then
      match e with
      | some c => do pure (.ifS ⟨path, l⟩ s (← exprA path c) body el)
      | none => .error "if without condition"
    else do pure (.rangeS ⟨path, l⟩ s (← optA path e) body el)
  | .block l name params ctx _ list content => do
    pure (.block ⟨path, l⟩ name (← paramsA path params) (← optA path ctx) (← list.mapM (stmtA path)) (← optListA path content))
  | .yield l name params ctx content isC => do
    let ps ← (match params with | none => pure none | some x => do pure (some (← paramsA path x)))
    pure (.yield ⟨path, l⟩ name ps (← optA path ctx) (← optListA path content) isC)
  | .include l name ctx => do pure (.include ⟨path, l⟩ (← exprA path name) (← optA path ctx))
  | .tryS l _ list c => do
    let body ← list.mapM (stmtA path)
    match c with
    | none => pure (.tryS ⟨path, l⟩ body false none none)
    | some (_, ev, _, clist) => do
      pure (.tryS ⟨path, l⟩ body true (ev.map (·.2)) (some (← clist.mapM (stmtA path))))
  | .ret l e => do pure (.ret ⟨path, l⟩ (← exprA path e))
  | _ => .error "clause marker in a finished tree"

partial def optListA (path : List UInt8) : Option (Nat × List PStmt) → R (Option (List Stmt))
  | none => pure none
  | some (_, ns) => do pure (some (← ns.mapM (stmtA path)))
end

/-- one file of the store: path, source, literal table -/
structure SrcFile where
  path : List UInt8
  src : List UInt8
  lits : List (Nat × List UInt8 × Lit)

def readSrcFile : Sexp → Option SrcFile
  | .list [.bytes p, .bytes s, .list ls] => some { path := p, src := s, lits := ls.filterMap ParseDump.readLit }
  | _ => none

/-- parse one file with the models (default delimiters); `none` = it does not parse -/
def parseFile (files : List SrcFile) (exts : List (List UInt8)) (f : SrcFile) : Except String (Option Tmpl) :=
  let names := files.map (·.path)
  let cfg : Cfg :=
    { lit := fun ty txt => match f.lits.find? (fun e => e.1 == ty.code && e.2.1 == txt) with
        | some e => e.2.2
        | none => .unknown
      load := fun s =>
        let p := Path.resolveSibling s f.path
        exts.findSome? fun e => if names.contains (p ++ e) then some (p ++ e) else none }
  match parseSource cfg (Lex.mkDelims [] [] [] []) f.path f.src with
  | .ok t =>
    match t.root.mapM (stmtA f.path) with
    | .ok root => .ok (some { name := t.name, ext := t.ext, imports := t.imports, blocks := [], root := root })
    | .error e => .error ("outside the evaluator model: " ++ e)
  | .err _ _ => .ok none
  | .crash w => .error ("parser model crashed: " ++ w)
  | .fuel => .error "parser model out of fuel"
  | .unsupported w => .error w

/-- a template whose extends / import chain reaches a file that does not parse does not load either -/
partial def loads (store : List (List UInt8 × Option Tmpl)) (seen : List (List UInt8)) (p : List UInt8) : Bool :=
  if seen.contains p then false
  else match store.find? (fun e => e.1 == p) with
    | some (_, some t) =>
      (match t.ext with | some e => loads store (p :: seen) e | none => true) &&
      t.imports.all (loads store (p :: seen))
    | _ => false

def execSrcCmd (store entry exts esc globals vars data fuel : Sexp) : Except String Sexp := do
  let files ← (match store with
    | .list (.atom "store" :: fs) => (fs.mapM readSrcFile).elim (Read.fail "bad source store") pure
    | _ => Read.fail "bad source store")
  let extsL ← (match exts with
    | .list (.atom "exts" :: es) => es.mapM Read.asBytes
    | _ => Read.fail "bad exts")
  let parsed ← files.mapM fun f => do pure (f.path, ← parseFile files extsL f)
  -- what the Set would hand out: files that parse and whose header references load
  let usable := parsed.map fun (p, t) => (p, if loads parsed [] p then t else none)
  let withBlocks := usable.map fun (p, t) =>
    (p, t.map fun tm => { tm with blocks := Blocks.tableOf usable 32 p })
  let entryName ← Read.asBytes entry
  let escapee : Option String := match esc with
    | .atom "nil" => none
    | .atom n => some n
    | _ => none
  let env : Eval.Env := { store := withBlocks, exts := extsL, escapee := escapee, globals := ← Read.readBindings globals }
  let vs ← Read.readBindings vars
  let d ← Read.readVal data
  let fl ← Read.asNat fuel
  match Eval.findTmpl env entryName with
  | none => pure (.list [.atom "unsupported", .atom "entry-template-missing"])
  | some t =>
    match Eval.execute fl env t vs d with
    | .ok out log => pure (.list [.atom "ok", renderOutE out, renderLogE log])
    | .err e out log =>
      pure (.list [.atom "err", Sexp.ofBool e.located, .bytes e.loc.path, Sexp.ofNat e.loc.line, renderOutE out, renderLogE log,
                   .atom ("what:" ++ ((e.what.replace " " "-").replace "(" "").replace ")" "")])
    | .crash msg out =>
      pure (.list [.atom (if msg.startsWith "strings: " then "callee-panic" else "crash"), renderOutE out])
    | .fuel => pure (.list [.atom "unsupported", .atom "fuel"])
    | .unsupported w => pure (.list [.atom "unsupported", .atom (w.replace " " "-")])
where
  renderOutE (cs : List Eval.Chunk) : Sexp :=
    let rec go (acc : List UInt8) (out : Array Sexp) : List Eval.Chunk → Array Sexp
      | [] => if acc.isEmpty then out else out.push (.bytes acc)
      | c :: rest =>
        match c.piece with
        | .lit b => go (acc ++ b) out rest
        | .flt f esc =>
          let out := if acc.isEmpty then out else out.push (.bytes acc)
          go [] (out.push (.list [.atom "F", Sexp.ofNat f.toNat, .atom (if esc == "" then "none" else esc)])) rest
    .list (go [] #[] cs).toList
  renderLogE (l : List Eval.LogE) : Sexp :=
    .list (l.map fun e => match e with
      | .probe id => .list [.atom "probe", Sexp.ofInt id]
      | .call fn n => .list [.atom "call", .atom fn, Sexp.ofNat n])

end JetVerif.ExecSrc
