import JetVerif.Model.Sexp
import JetVerif.Model.Path
import JetVerif.Model.Lex

open JetVerif

def optBytes : Option (List UInt8) → Sexp
  | some b => .bytes b
  | none => .atom "none"

def tokSexp (t : Tok × Int × List UInt8) : Sexp :=
  .list [Sexp.ofNat t.1.code, Sexp.ofInt t.2.1, if t.1 == Tok.error then .bytes [] else .bytes t.2.2]

def lexCmd (l r lc rc input : List UInt8) : Sexp :=
  match Lex.lexRun (Lex.mkDelims l r lc rc) input with
  | .done evs => .list (.atom "done" :: (Lex.tokensOf evs).map tokSexp)
  | .crash _ evs => .list (.atom "crash" :: (Lex.tokensOf evs).map tokSexp)
  | .outOfFuel evs => .list (.atom "fuel" :: (Lex.tokensOf evs).map tokSexp)

def dispatch : Sexp → Sexp
  | .list [.atom "lex", .bytes l, .bytes r, .bytes lc, .bytes rc, .bytes input] => lexCmd l r lc rc input
  | .list [.atom "path-clean", .bytes p] => .bytes (Path.clean p)
  | .list (.atom "path-join" :: rest) =>
      match rest.mapM (fun x => match x with | .bytes b => some b | _ => none) with
      | some es => .bytes (Path.join es)
      | none => .atom "bad-op"
  | .list [.atom "path-dir", .bytes p] => .bytes (Path.dir p)
  | .list [.atom "path-base", .bytes p] => .bytes (Path.base p)
  | .list [.atom "resolve", .bytes n, .bytes s] => .bytes (Path.resolveSibling n s)
  | .list [.atom "parsename", .bytes n] => optBytes (Path.parseName n)
  | .list [.atom "normalize", .bytes n] => .bytes (Path.normalize n)
  | _ => .atom "bad-op"

partial def loop (hin : IO.FS.Stream) (hout : IO.FS.Stream) : IO Unit := do
  let line ← hin.getLine
  if line.isEmpty then return ()
  match Sexp.parse line with
  | some (.list [id, cmd]) =>
      hout.putStrLn (Sexp.render (.list [id, dispatch cmd]))
  | _ => hout.putStrLn "(? bad-line)"
  loop hin hout

def main : IO Unit := do
  let hin ← IO.getStdin
  let hout ← IO.getStdout
  loop hin hout
  hout.flush
