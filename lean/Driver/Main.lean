import JetVerif.Model.Sexp
import JetVerif.Model.Path
import JetVerif.Model.Lex
import Driver.Read
import Driver.ParseDump
import Driver.ExecSrc
import JetVerif.Model.Blocks
import JetVerif.Model.StructCache
import JetVerif.Model.Loaders
import JetVerif.Model.SetM
import JetVerif.Props.C20

open JetVerif

def optBytes : Option (List UInt8) → Sexp
  | some b => .bytes b
  | none => .atom "none"

def tokSexp (t : Tok × Int × List UInt8) : Sexp :=
  .list [Sexp.ofNat t.1.code, Sexp.ofInt t.2.1, if t.1 == Tok.error then .bytes [] else .bytes t.2.2]

def lexCmd (l r lc rc input : List UInt8) : Sexp :=
  match Lex.lexRun (Lex.mkDelims l r lc rc) input with
  | .done evs => .list (.atom "done" :: (Lex.tokensOf evs).map tokSexp)
  | .crash _ evs => .list (.atom "crash" :: (Lex.tokensOf evs).map tokSexp)
  | .outOfFuel evs => .list (.atom "fuel" :: (Lex.tokensOf evs).map tokSexp)

def renderOut (cs : List Eval.Chunk) : Sexp :=
  let rec go (acc : List UInt8) (out : Array Sexp) : List Eval.Chunk → Array Sexp
    | [] => if acc.isEmpty then out else out.push (.bytes acc)
    | c :: rest =>
      match c.piece with
      | .lit b => go (acc ++ b) out rest
      | .flt f esc =>
        let out := if acc.isEmpty then out else out.push (.bytes acc)
        go [] (out.push (.list [.atom "F", Sexp.ofNat f.toNat, .atom (if esc == "" then "none" else esc)])) rest
  .list (go [] #[] cs).toList

def renderLog (l : List Eval.LogE) : Sexp :=
  .list (l.map fun e => match e with
    | .probe id => .list [.atom "probe", Sexp.ofInt id]
    | .call fn n => .list [.atom "call", .atom fn, Sexp.ofNat n])

def execCmd (store entry exts esc globals vars data fuel : Sexp) : Except String Sexp := do
  let files ← (match store with
    | .list (.atom "store" :: fs) => fs.mapM fun q => match q with
      | .list [p, .atom "err"] => do pure (← Read.asBytes p, (none : Option Tmpl))
      | .list [p, t] => do pure (← Read.asBytes p, some (← Read.readTmpl t))
      | _ => Read.fail "bad store entry"
    | _ => Read.fail "bad store")
  let entryName ← Read.asBytes entry
  let extsL ← (match exts with
    | .list (.atom "exts" :: es) => es.mapM Read.asBytes
    | _ => Read.fail "bad exts")
  let escapee : Option String := match esc with
    | .atom "nil" => none
    | .atom n => some n
    | _ => none
  let env : Eval.Env := { store := files, exts := extsL, escapee := escapee, globals := ← Read.readBindings globals }
  let vs ← Read.readBindings vars
  let d ← Read.readVal data
  let fl ← Read.asNat fuel
  match Eval.findTmpl env entryName with
  | none => pure (.list [.atom "unsupported", .atom "entry-template-missing"])
  | some t =>
    match Eval.execute fl env t vs d with
    | .ok out log => pure (.list [.atom "ok", renderOut out, renderLog log])
    | .err e out log =>
      pure (.list [.atom "err", Sexp.ofBool e.located, .bytes e.loc.path, Sexp.ofNat e.loc.line, renderOut out, renderLog log,
                   .atom ("what:" ++ ((e.what.replace " " "-").replace "(" "").replace ")" "")])
    | .crash msg out =>
      -- a panic raised by a called Go function with a non-error value (re-raised by Execute by design)
      pure (.list [.atom (if msg.startsWith "strings: " then "callee-panic" else "crash"), renderOut out])
    | .fuel => pure (.list [.atom "unsupported", .atom "fuel"])
    | .unsupported w => pure (.list [.atom "unsupported", .atom (w.replace " " "-")])

def inmemCmd (ops : List Sexp) : Sexp :=
  let rec go (l : Loaders.InMem) (acc : Array Sexp) : List Sexp → Array Sexp
    | [] => acc
    | .list [.atom "set", .bytes p, .bytes c] :: rest => go (l.set p c) acc rest
    | .list [.atom "delete", .bytes p] :: rest => go (l.delete p) acc rest
    | .list [.atom "exists", .bytes p] :: rest => go l (acc.push (Sexp.ofBool (l.exists_ p))) rest
    | .list [.atom "open", .bytes p] :: rest => go l (acc.push (optBytes (l.open_ p))) rest
    | _ :: rest => go l (acc.push (.atom "bad-op")) rest
  .list (go {} #[] ops).toList

def multiCmd (loaders queries : List Sexp) : Sexp :=
  let mk (s : Sexp) : Loaders.Loader :=
    match s with
    | .list es =>
      let l : Loaders.InMem := es.foldl (fun l e => match e with
        | .list [.bytes p, .bytes c] => l.set p c
        | _ => l) {}
      l.toLoader
    | _ => ({} : Loaders.InMem).toLoader
  let m := Loaders.multi (loaders.map mk)
  .list (queries.map fun q => match q with
    | .list [.atom "exists", .bytes p] => Sexp.ofBool (m.exists_ p)
    | .list [.atom "open", .bytes p] => optBytes (m.open_ p)
    | _ => .atom "bad-op")

/-- a Multi over mutable in-memory loaders: `(set i path content)`, `(del i path)` act on loader `i`,
    `(exists path)` / `(open path)` query the stack as it is at that moment -/
def multiHistoryCmd (nl : Nat) (ops : List Sexp) : Sexp :=
  let rec go (ls : List Loaders.InMem) (acc : Array Sexp) : List Sexp → Array Sexp
    | [] => acc
    | op :: rest =>
      let m := Loaders.multi (ls.map (·.toLoader))
      match op with
      | .list [.atom "set", .atom i, .bytes p, .bytes c] =>
        let k := i.toNat?.getD 0
        go (ls.mapIdx fun j l => if j == k then l.set p c else l) (acc.push (.atom "ok")) rest
      | .list [.atom "del", .atom i, .bytes p] =>
        let k := i.toNat?.getD 0
        go (ls.mapIdx fun j l => if j == k then l.delete p else l) (acc.push (.atom "ok")) rest
      | .list [.atom "exists", .bytes p] => go ls (acc.push (Sexp.ofBool (m.exists_ p))) rest
      | .list [.atom "open", .bytes p] => go ls (acc.push (optBytes (m.open_ p))) rest
      | _ => go ls (acc.push (.atom "bad-op")) rest
  .list (go (List.replicate nl {}) #[] ops).toList

/-- children of a Multi in a forest of loaders shared by reference -/
inductive MChild where
  | leaf (i : Nat)
  | multi (i : Nat)

/-- the loader a Multi denotes *now*: its children resolved against the current stacks (fuel bounds the
    nesting depth; the generator only nests a Multi into one with a smaller index) -/
def resolveMulti (leaves : List Loaders.InMem) (stacks : List (List MChild)) : Nat → Nat → Loaders.Loader
  | 0, _ => Loaders.multi []
  | fuel + 1, i =>
    Loaders.multi ((stacks.getD i []).map fun c => match c with
      | .leaf j => (leaves.getD j {}).toLoader
      | .multi j => resolveMulti leaves stacks fuel j)

/-- `(multi-tree nl nm op...)`: `nl` in-memory loaders and `nm` Multi loaders, nested and edited while queried -/
def multiTreeCmd (nl nm : Nat) (ops : List Sexp) : Sexp :=
  let rec go (ls : List Loaders.InMem) (ms : List (List MChild)) (acc : Array Sexp) : List Sexp → Array Sexp
    | [] => acc
    | op :: rest =>
      let nat (a : String) := a.toNat?.getD 0
      match op with
      | .list [.atom "set", .atom i, .bytes p, .bytes c] =>
        go (ls.mapIdx fun j l => if j == nat i then l.set p c else l) ms (acc.push (.atom "ok")) rest
      | .list [.atom "del", .atom i, .bytes p] =>
        go (ls.mapIdx fun j l => if j == nat i then l.delete p else l) ms (acc.push (.atom "ok")) rest
      | .list [.atom "add", .atom i, .list [.atom "leaf", .atom j]] =>
        go ls (ms.mapIdx fun k st => if k == nat i then st ++ [.leaf (nat j)] else st) (acc.push (.atom "ok")) rest
      | .list [.atom "add", .atom i, .list [.atom "multi", .atom j]] =>
        go ls (ms.mapIdx fun k st => if k == nat i then st ++ [.multi (nat j)] else st) (acc.push (.atom "ok")) rest
      | .list [.atom "init", .atom i, .atom j, .atom a, .atom b] =>
        -- two stacks built from one argument list (`NewLoader(base...)` twice): each holds the two leaves
        go ls (ms.mapIdx fun k st => if k == nat i || k == nat j then st ++ [.leaf (nat a), .leaf (nat b)] else st)
          (acc.push (.atom "ok")) rest
      | .list [.atom "clear", .atom i] =>
        go ls (ms.mapIdx fun k st => if k == nat i then [] else st) (acc.push (.atom "ok")) rest
      | .list [.atom "exists", .atom i, .bytes p] =>
        go ls ms (acc.push (Sexp.ofBool ((resolveMulti ls ms (nm + 1) (nat i)).exists_ p))) rest
      | .list [.atom "open", .atom i, .bytes p] =>
        go ls ms (acc.push (optBytes ((resolveMulti ls ms (nm + 1) (nat i)).open_ p))) rest
      | _ => go ls ms (acc.push (.atom "bad-op")) rest
  .list (go (List.replicate nl {}) (List.replicate nm []) #[] ops).toList

def evSexp : SetM.Ev → Sexp
  | .exists_ p => .list [.atom "E", .bytes p]
  | .open_ p => .list [.atom "O", .bytes p]
  | .get p => .list [.atom "G", .bytes p]
  | .put p _ => .list [.atom "P", .bytes p]

def bytesList (xs : List Sexp) : List (List UInt8) :=
  xs.filterMap fun x => match x with | .bytes b => some b | _ => none

def readContent : List Sexp → Option SetM.Content
  | [.atom mark, .list refs, .list incs, .atom bad] =>
    some { mark := mark.toNat?.getD 0, refs := bytesList refs, includes := bytesList incs, bad := bad == "true" }
  | _ => none

/-- `(setm dev (exts ...) op...)`: one observation per get/parse/exec op -/
def setmCmd (dev : Bool) (exts : List (List UInt8)) (ops : List Sexp) : Sexp :=
  let fuel := 64
  let rec go (s : SetM.SetSt) (rets : Array Nat) (acc : Array Sexp) : List Sexp → Array Sexp
    | [] => acc
    | op :: rest =>
      let s0 := { s with trace := [] }
      let traceOf (s' : SetM.SetSt) : Sexp := .list (s'.trace.reverse.map evSexp)
      let classOf (rets : Array Nat) (id : Nat) : Nat := (rets.toList.idxOf id)
      match op with
      | .list (.atom "file" :: .bytes p :: .atom "ok" :: cnt) =>
        match readContent cnt with
        | some c => go { s with files := (p, .ok c) :: s.files.filter (fun e => e.1 != p) } rets acc rest
        | none => go s rets (acc.push (.atom "bad-op")) rest
      | .list [.atom "file", .bytes p, .atom "openfails"] =>
        go { s with files := (p, .openFails) :: s.files.filter (fun e => e.1 != p) } rets acc rest
      | .list [.atom "file", .bytes p, .atom "readfails"] =>
        go { s with files := (p, .readFails) :: s.files.filter (fun e => e.1 != p) } rets acc rest
      | .list [.atom "delfile", .bytes p] =>
        go { s with files := s.files.filter (fun e => e.1 != p) } rets acc rest
      | .list [.atom "get", .bytes n] =>
        match SetM.getTemplateOp fuel s0 n with
        | (.ok id, s') =>
          let rets' := rets.push id
          go s' rets' (acc.push (.list [.atom "ok", Sexp.ofNat (classOf rets' id), traceOf s'])) rest
        | (.err, s') => go s' rets (acc.push (.list [.atom "err", traceOf s'])) rest
        | (.fuel, s') => go s' rets (acc.push (.list [.atom "unsupported", .atom "fuel"])) rest
      | .list (.atom "parse" :: .bytes n :: cnt) =>
        match readContent cnt with
        | none => go s rets (acc.push (.atom "bad-op")) rest
        | some c =>
          match SetM.parseOp fuel s0 n c with
          | (.ok id, s') =>
            let rets' := rets.push id
            go s' rets' (acc.push (.list [.atom "ok", Sexp.ofNat (classOf rets' id), traceOf s'])) rest
          | (.err, s') => go s' rets (acc.push (.list [.atom "err", traceOf s'])) rest
          | (.fuel, s') => go s' rets (acc.push (.list [.atom "unsupported", .atom "fuel"])) rest
      | .list [.atom "exec", .atom k] =>
        match rets[k.toNat?.getD 0]? with
        | none => go s rets (acc.push (.atom "no-such-template")) rest
        | some id =>
          match SetM.render fuel s0 id with
          | ((okk, marks), s') =>
            go s' rets (acc.push (.list [.atom (if okk then "ok" else "err"), .list (marks.map Sexp.ofNat), traceOf s'])) rest
      | _ => go s rets (acc.push (.atom "bad-op")) rest
  let res := go { dev := dev, exts := exts } #[] #[] ops
  if res.any (fun x => match x with | .list (.atom "unsupported" :: _) => true | _ => false) then
    .list [.atom "unsupported", .atom "fuel"]
  else .list res.toList

partial def readTree : Sexp → Option Visitor.Tree
  | .list (.atom "n" :: .atom id :: .atom kind :: slots) =>
    let kids := slots.mapM fun s => match s with
      | .atom "nil" => some none
      | .list ts => (ts.mapM readTree).map some
      | _ => none
    kids.map fun ks => .node (id.toNat?.getD 0) kind ks
  | _ => none

partial def listNodeIds : Visitor.Tree → List Nat
  | .node id kind kids =>
    (if kind == "ListNode" then [id] else []) ++ kids.flatMap (fun k => (k.getD []).flatMap listNodeIds)

def walkCmd (t : Sexp) : Sexp :=
  match readTree t with
  | none => .atom "bad-op"
  | some tree =>
    let fuel := 100000   -- more than the depth of any tree the parser can produce from the sources used
    let lists := listNodeIds tree
    let wfOk := Visitor.wf Props.C20.jetSchema fuel tree
    let res := match Visitor.walk Facts.visitArms fuel tree with
      | .ok l => Sexp.list (.atom "ok" :: (l.filter (fun i => !lists.contains i)).map Sexp.ofNat)
      | .crash _ => .list [.atom "crash"]
      | .fuel => .list [.atom "fuel"]
    .list [.list [.atom "wf", Sexp.ofBool wfOk], res]

/-- C08: the effective block table of every template of a store, computed by the model from each
    template's own definitions and its extends/import links -/
def blockTablesCmd (store : Sexp) : Except String Sexp := do
  let files ← (match store with
    | .list (.atom "store" :: fs) => fs.mapM fun q => match q with
      | .list [p, .atom "err"] => do pure (← Read.asBytes p, (none : Option Tmpl))
      | .list [p, t] => do pure (← Read.asBytes p, some (← Read.readTmpl t))
      | _ => Read.fail "bad store entry"
    | _ => Read.fail "bad store")
  let rows := files.map fun (p, t) =>
    match t with
    | none => Sexp.list [.bytes p, .atom "err"]
    | some _ =>
      let tbl := Blocks.tableOf files 32 p
      Sexp.list (.bytes p :: tbl.map fun (n, blk) => .list [.bytes n, .bytes blk.loc.path, Sexp.ofNat blk.loc.line])
  pure (.list (.atom "tables" :: rows))

/-- C06: a struct type as `((#name exported anonymous kind (fields…)) …)` -/
partial def readFields : Sexp → Option (List StructCache.F)
  | .list fs => fs.mapM fun f => match f with
    | .list [.bytes n, .atom e, .atom a, .atom k, sub] =>
      (readFields sub).map fun s => StructCache.F.mk n (e == "true") (a == "true") (k == "struct") s
    | _ => none
  | _ => none

def buildCacheCmd (ty : Sexp) : Sexp :=
  match readFields ty with
  | none => .atom "bad-op"
  | some fs =>
    .list (.atom "cache" :: (StructCache.buildCache fs).map fun (n, path) => .list [.bytes n, .list (path.map Sexp.ofNat)])

def execDispatch (store entry exts esc globals vars data fuel : Sexp) : Sexp :=
  match execCmd store entry exts esc globals vars data fuel with
  | .ok r => r
  | .error msg =>
    let clean := ((msg.replace " " "-").replace "(" "").replace ")" ""
    .list [.atom "unsupported", .atom ("reader:" ++ clean)]

/-- C10: a history of Execute calls.  The model keeps nothing between executions: every call is
    answered from its own inputs (`Eval.execute`), whatever ran before. -/
def historyCmd (calls : List Sexp) : Sexp :=
  let rs := calls.map fun c => match c with
    | .list [.atom "call", _, .list [.atom "exec", store, entry, exts, esc, globals, vars, data, fuel]] =>
      execDispatch store entry exts esc globals vars data fuel
    | _ => .atom "bad-op"
  -- a call the model says diverges makes the whole history diverge (the implementation dies of a
  -- stack overflow there); other unsupported calls are skipped individually by the harness
  match rs.find? (fun x => match x with | .list [.atom "unsupported", .atom "fuel"] => true | _ => false) with
  | some u => u
  | none => .list (.atom "results" :: rs)

def dispatch : Sexp → Sexp
  | .list (.atom "history" :: calls) => historyCmd calls
  | .list [.atom "buildcache", ty] => buildCacheCmd ty
  | .list [.atom "blocktables", store, _] =>
    match blockTablesCmd store with
    | .ok r => r
    | .error msg => .list [.atom "unsupported", .atom ("reader:" ++ (msg.replace " " "-"))]
  | .list [.atom "walk", .list [.atom "n", _, .atom "ParseError"]] => .list [.atom "parse-error"]
  | .list [.atom "walk", t] => walkCmd t
  | .list (.atom "setm" :: .atom dev :: .list (.atom "exts" :: exts) :: ops) => setmCmd (dev == "true") (bytesList exts) ops
  | .list (.atom "inmem" :: ops) => inmemCmd ops
  | .list [.atom "multi", .list loaders, .list queries] => multiCmd loaders queries
  | .list (.atom "multi-history" :: .atom nl :: ops) => multiHistoryCmd (nl.toNat?.getD 1) ops
  | .list (.atom "multi-tree" :: .atom nl :: .atom nm :: ops) => multiTreeCmd (nl.toNat?.getD 1) (nm.toNat?.getD 1) ops
  | .list [.atom "exec", store, entry, exts, esc, globals, vars, data, fuel] =>
    execDispatch store entry exts esc globals vars data fuel
  | .list [.atom "exec-src", store, entry, exts, esc, globals, vars, data, fuel] =>
    match ExecSrc.execSrcCmd store entry exts esc globals vars data fuel with
    | .ok r => r
    | .error msg =>
      let clean := ((msg.replace " " "-").replace "(" "").replace ")" ""
      .list [.atom "unsupported", .atom ("reader:" ++ clean)]
  | .list [.atom "lex", .bytes l, .bytes r, .bytes lc, .bytes rc, .bytes input] => lexCmd l r lc rc input
  | .list [.atom "parsetree", .bytes name, .bytes l, .bytes r, .bytes lc, .bytes rc, .bytes src, .list lits, .list files] =>
    ParseDump.parsetreeCmd name l r lc rc src lits files
  | .list [.atom "path-clean", .bytes p] => .bytes (Path.clean p)
  | .list (.atom "path-join" :: rest) =>
      match rest.mapM (fun x => match x with | .bytes b => some b | _ => none) with
      | some es => .bytes (Path.join es)
      | none => .atom "bad-op"
  | .list [.atom "path-dir", .bytes p] => .bytes (Path.dir p)
  | .list [.atom "path-base", .bytes p] => .bytes (Path.base p)
  | .list [.atom "resolve", .bytes n, .bytes s] => .bytes (Path.resolveSibling n s)
  | .list (.atom "resolve-seq" :: .atom _ :: steps) =>
    .list (steps.map fun st => match st with
      | .list [.bytes n, .bytes sib, _] => .bytes (Path.resolveSibling n sib)
      | _ => .atom "bad-op")
  | .list [.atom "parsename", .bytes n] => optBytes (Path.parseName n)
  | .list [.atom "normalize", .bytes n] => .bytes (Path.normalize n)
  | _ => .atom "bad-op"

partial def loop (hin : IO.FS.Stream) (hout : IO.FS.Stream) : IO Unit := do
  let line ← hin.getLine
  if line.isEmpty then return ()
  match Sexp.parse line with
  | some (.list [id, cmd]) =>
      hout.putStrLn (Sexp.render (.list [id, dispatch cmd]))
      hout.flush
  | _ => do hout.putStrLn "(? bad-line)"; hout.flush
  loop hin hout

def main : IO Unit := do
  let hin ← IO.getStdin
  let hout ← IO.getStdout
  loop hin hout
  hout.flush
