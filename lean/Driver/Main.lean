import JetVerif.Model.Sexp
import JetVerif.Model.Path

open JetVerif

def optBytes : Option (List UInt8) → Sexp
  | some b => .bytes b
  | none => .atom "none"

def dispatch : Sexp → Sexp
  | .list [.atom "path-clean", .bytes p] => .bytes (Path.clean p)
  | .list (.atom "path-join" :: rest) =>
      match rest.mapM (fun x => match x with | .bytes b => some b | _ => none) with
      | some es => .bytes (Path.join es)
      | none => .atom "bad-op"
  | .list [.atom "path-dir", .bytes p] => .bytes (Path.dir p)
  | .list [.atom "path-base", .bytes p] => .bytes (Path.base p)
  | .list [.atom "resolve", .bytes n, .bytes s] => .bytes (Path.resolveSibling n s)
  | .list [.atom "parsename", .bytes n] => optBytes (Path.parseName n)
  | .list [.atom "normalize", .bytes n] => .bytes (Path.normalize n)
  | _ => .atom "bad-op"

partial def loop (hin : IO.FS.Stream) (hout : IO.FS.Stream) : IO Unit := do
  let line ← hin.getLine
  if line.isEmpty then return ()
  match Sexp.parse line with
  | some (.list [id, cmd]) =>
      hout.putStrLn (Sexp.render (.list [id, dispatch cmd]))
  | _ => hout.putStrLn "(? bad-line)"
  loop hin hout

def main : IO Unit := do
  let hin ← IO.getStdin
  let hout ← IO.getStdout
  loop hin hout
  hout.flush
