/-
  A global invariant of the lexer model (Model/Lex.lean), for every input, every delimiter
  configuration and every execution (including those that end in an error item or a crash):

    * the event log is a chain: every emit / ignore event starts exactly where the previous one
      ended (the first at offset 0), and `start` is the end of the latest one;
    * the value of every emitted token is the verbatim slice `input[a:b]` of the source, with
      0 ≤ a ≤ b ≤ len(input).

  So the bytes of the input are partitioned, in order, into token values and ignored ranges:
  the lexer adds nothing, reorders nothing, and whatever is not in a token was dropped by one of the
  five `l.ignore()` sites.
-/
import JetVerif.Model.Lex

namespace JetVerif.Lex
open JetVerif.Utf8

/-- end offset of the most recent emit / ignore event (events are stored most recent first) -/
def evEnd : List Event → Int
  | [] => 0
  | .emit _ _ b _ :: _ => b
  | .ignore _ _ b :: _ => b
  | .err _ _ :: rest => evEnd rest

def Chain (input : Bytes) : List Event → Prop
  | [] => True
  | .emit _ a b v :: rest => a = evEnd rest ∧ slice input a b = some v ∧ Chain input rest
  | .ignore _ a _ :: rest => a = evEnd rest ∧ Chain input rest
  | .err _ _ :: rest => Chain input rest

structure Inv (s : St) : Prop where
  chain : Chain s.input s.events
  start : s.start = evEnd s.events

/-- what a computation guarantees about the state it leaves (finished or crashed) -/
def Post (s : St) {α} : Res α → Prop
  | .ok _ s' => Inv s' ∧ s'.input = s.input ∧ s'.d = s.d
  | .crash _ s' => Inv s' ∧ s'.input = s.input ∧ s'.d = s.d

structure Pres {α} (m : M α) : Prop where
  post : ∀ s, Inv s → Post s (m s)

theorem pres_pure {α} (a : α) : Pres (pure a : M α) := ⟨fun _ h => ⟨h, rfl, rfl⟩⟩

theorem bind_def {α β} (m : M α) (f : α → M β) (s : St) :
    (m >>= f) s = match m s with
      | .ok a s' => f a s'
      | .crash msg s' => .crash msg s' := rfl

theorem Pres.bind {α β} {m : M α} {f : α → M β} (hm : Pres m) (hf : ∀ a, Pres (f a)) : Pres (m >>= f) := by
  refine ⟨fun s hs => ?_⟩
  have h1 := hm.post s hs
  rw [bind_def]
  cases hms : m s with
  | ok a s' =>
    rw [hms] at h1
    have h2 := (hf a).post s' h1.1
    simp only
    cases hfs : f a s' with
    | ok b s'' => rw [hfs] at h2; exact ⟨h2.1, h2.2.1.trans h1.2.1, h2.2.2.trans h1.2.2⟩
    | crash msg s'' => rw [hfs] at h2; exact ⟨h2.1, h2.2.1.trans h1.2.1, h2.2.2.trans h1.2.2⟩
  | crash msg s' => rw [hms] at h1; exact h1

theorem pres_get : Pres get := ⟨fun _ h => ⟨h, rfl, rfl⟩⟩
theorem pres_crash {α} (msg : String) : Pres (crash msg : M α) := ⟨fun _ h => ⟨h, rfl, rfl⟩⟩

/-- a `modify` that leaves input, delimiters, start and the event log alone -/
theorem pres_modify (f : St → St)
    (hf : ∀ s, (f s).input = s.input ∧ (f s).d = s.d ∧ (f s).start = s.start ∧ (f s).events = s.events) :
    Pres (modify f) := by
  refine ⟨fun s hs => ?_⟩
  obtain ⟨h1, h2, h3, h4⟩ := hf s
  refine ⟨⟨?_, ?_⟩, h1, h2⟩
  · show Chain (f s).input (f s).events
    rw [h1, h4]; exact hs.chain
  · show (f s).start = evEnd (f s).events
    rw [h3, h4]; exact hs.start

theorem pres_restAt (a : Int) : Pres (restAt a) := by
  refine ⟨fun s hs => ?_⟩
  unfold restAt
  split <;> exact ⟨hs, rfl, rfl⟩

theorem pres_firstByte (b : Bytes) : Pres (firstByte b) := by
  unfold firstByte
  split
  · exact pres_pure _
  · exact pres_crash _

theorem pres_next : Pres next := by
  refine ⟨fun s hs => ?_⟩
  unfold next
  split
  · exact ⟨⟨hs.chain, hs.start⟩, rfl, rfl⟩
  · split
    · exact ⟨hs, rfl, rfl⟩
    · exact ⟨⟨hs.chain, hs.start⟩, rfl, rfl⟩

theorem pres_backup : Pres backup := pres_modify _ (fun _ => ⟨rfl, rfl, rfl, rfl⟩)

theorem pres_emit (t : Tok) : Pres (emit t) := by
  refine ⟨fun s hs => ?_⟩
  unfold emit
  split
  · exact ⟨hs, rfl, rfl⟩
  · rename_i v hv
    refine ⟨⟨?_, rfl⟩, rfl, rfl⟩
    exact ⟨hs.start, hv, hs.chain⟩

theorem pres_ignore (k : IgnKind) : Pres (ignore k) := by
  refine ⟨fun s hs => ?_⟩
  exact ⟨⟨⟨hs.start, hs.chain⟩, rfl⟩, rfl, rfl⟩

theorem pres_errorf (msg : String) : Pres (errorf msg) := by
  refine ⟨fun s hs => ?_⟩
  exact ⟨⟨hs.chain, hs.start⟩, rfl, rfl⟩

/-! ### every state function preserves the invariant -/

macro "pres_step" : tactic =>
  `(tactic| with_reducible (first
  | exact pres_pure _
  | exact pres_get
  | exact pres_crash _
  | exact pres_restAt _
  | exact pres_firstByte _
  | exact pres_next
  | exact pres_backup
  | exact pres_emit _
  | exact pres_ignore _
  | exact pres_errorf _
  | exact pres_modify _ (fun _ => ⟨rfl, rfl, rfl, rfl⟩)
  | apply Pres.bind
  | intro _))

syntax "pres_tac" (" [" term,* "]")? : tactic
macro_rules
  | `(tactic| pres_tac) => `(tactic| repeat (first | pres_step | split | dsimp only))
  | `(tactic| pres_tac [$h0]) => `(tactic| repeat (first | pres_step | (with_reducible apply $h0) | split | dsimp only))
  | `(tactic| pres_tac [$h0, $h1]) => `(tactic| repeat (first | pres_step | (with_reducible apply $h0) | (with_reducible apply $h1) | split | dsimp only))
  | `(tactic| pres_tac [$h0, $h1, $h2]) => `(tactic| repeat (first | pres_step | (with_reducible apply $h0) | (with_reducible apply $h1) | (with_reducible apply $h2) | split | dsimp only))
  | `(tactic| pres_tac [$h0, $h1, $h2, $h3]) => `(tactic| repeat (first | pres_step | (with_reducible apply $h0) | (with_reducible apply $h1) | (with_reducible apply $h2) | (with_reducible apply $h3) | split | dsimp only))
  | `(tactic| pres_tac [$h0, $h1, $h2, $h3, $h4]) => `(tactic| repeat (first | pres_step | (with_reducible apply $h0) | (with_reducible apply $h1) | (with_reducible apply $h2) | (with_reducible apply $h3) | (with_reducible apply $h4) | split | dsimp only))

theorem pres_peek : Pres peek := by unfold peek; pres_tac

theorem pres_accept (valid : List Nat) : Pres (accept valid) := by unfold accept; pres_tac

theorem pres_acceptRunLoop (valid : List Nat) : ∀ fuel, Pres (acceptRunLoop valid fuel) := by
  intro fuel
  induction fuel with
  | zero => unfold acceptRunLoop; pres_tac
  | succ n ih => unfold acceptRunLoop; pres_tac [ih]

theorem pres_acceptRun (valid : List Nat) : Pres (acceptRun valid) := by
  have h := pres_acceptRunLoop valid
  unfold acceptRun; pres_tac [h]

theorem pres_atRightDelim : Pres atRightDelim := by unfold atRightDelim; pres_tac

theorem pres_atTerminator : Pres atTerminator := by
  have h := pres_peek
  unfold atTerminator; pres_tac [h]

theorem pres_lexTextEnd : Pres lexTextLoop.lexTextEnd := by unfold lexTextLoop.lexTextEnd; pres_tac

theorem pres_lexTextLoop : ∀ fuel, Pres (lexTextLoop fuel) := by
  intro fuel
  have he := pres_lexTextEnd
  induction fuel with
  | zero => unfold lexTextLoop; pres_tac
  | succ n ih => unfold lexTextLoop; pres_tac [ih, he]

theorem pres_lexText : Pres lexText := by
  have h := pres_lexTextLoop
  unfold lexText; pres_tac [h]

theorem pres_lexLeftDelim : Pres lexLeftDelim := by unfold lexLeftDelim; pres_tac
theorem pres_lexComment : Pres lexComment := by unfold lexComment; pres_tac
theorem pres_lexRightDelim : Pres lexRightDelim := by unfold lexRightDelim; pres_tac

theorem pres_signArm (excl : List String) (t : Tok) : Pres (signArm excl t) := by
  have h := pres_peek
  unfold signArm; pres_tac [h]

theorem pres_ite {α} {c : Prop} [Decidable c] {a b : M α} (ha : Pres a) (hb : Pres b) :
    Pres (if c then a else b) := by split <;> assumption

theorem pres_lexInsideAction : Pres lexInsideAction := by
  have h1 := pres_atRightDelim
  have h2 := pres_signArm
  have h3 := pres_peek
  unfold lexInsideAction
  apply Pres.bind h1
  intro p
  apply Pres.bind pres_get
  intro s
  apply pres_ite
  · pres_tac
  · apply Pres.bind pres_next
    intro r
    cases r with
    | none => exact pres_errorf _
    | some c =>
      dsimp only
      apply pres_ite (pres_pure _)
      apply pres_ite (h2 _ _)
      apply pres_ite (h2 _ _)
      cases singleTok c with
      | some t => dsimp only; pres_tac
      | none =>
        dsimp only
        cases twoTok c with
        | some q =>
          obtain ⟨d, both, single⟩ := q
          dsimp only
          apply Pres.bind pres_next
          intro r2
          apply pres_ite
          · pres_tac
          · cases single <;> (dsimp only; pres_tac)
        | none =>
          dsimp only
          repeat (first | apply pres_ite | pres_step | (with_reducible apply h3))

theorem pres_lexSpaceLoop : ∀ fuel n, Pres (lexSpaceLoop fuel n) := by
  intro fuel
  have hp := pres_peek
  induction fuel with
  | zero => intro n; unfold lexSpaceLoop; pres_tac
  | succ k ih => intro n; unfold lexSpaceLoop; pres_tac [hp, ih]

theorem pres_lexSpace : Pres lexSpace := by
  have h := pres_lexSpaceLoop
  unfold lexSpace; pres_tac [h]

theorem pres_lexIdentifierLoop : ∀ fuel, Pres (lexIdentifierLoop fuel) := by
  intro fuel
  have ht := pres_atTerminator
  induction fuel with
  | zero => unfold lexIdentifierLoop; pres_tac
  | succ k ih => unfold lexIdentifierLoop; pres_tac [ht, ih]

theorem pres_lexIdentifier : Pres lexIdentifier := by
  have h := pres_lexIdentifierLoop
  unfold lexIdentifier; pres_tac [h]

theorem pres_lexFieldLoop : ∀ fuel, Pres (lexFieldLoop fuel) := by
  intro fuel
  induction fuel with
  | zero => unfold lexFieldLoop; pres_tac
  | succ k ih => unfold lexFieldLoop; pres_tac [ih]

theorem pres_lexField : Pres lexField := by
  have ht := pres_atTerminator
  have hl := pres_lexFieldLoop
  unfold lexField; pres_tac [ht, hl]

theorem pres_quotedLoop (q : Nat) (t : Tok) (msg : String) : ∀ fuel, Pres (quotedLoop q t msg fuel) := by
  intro fuel
  induction fuel with
  | zero => unfold quotedLoop; pres_tac
  | succ k ih => unfold quotedLoop; pres_tac [ih]

theorem pres_lexChar : Pres lexChar := by
  have h := pres_quotedLoop
  unfold lexChar; pres_tac [h]

theorem pres_lexQuote : Pres lexQuote := by
  have h := pres_quotedLoop
  unfold lexQuote; pres_tac [h]

theorem pres_rawQuoteLoop : ∀ fuel, Pres (rawQuoteLoop fuel) := by
  intro fuel
  induction fuel with
  | zero => unfold rawQuoteLoop; pres_tac
  | succ k ih => unfold rawQuoteLoop; pres_tac [ih]

theorem pres_lexRawQuote : Pres lexRawQuote := by
  have h := pres_rawQuoteLoop
  unfold lexRawQuote; pres_tac [h]

theorem pres_scanNumber : Pres scanNumber := by
  have h1 := pres_accept
  have h2 := pres_acceptRun
  have h3 := pres_peek
  unfold scanNumber; pres_tac [h1, h2, h3]

theorem pres_lexNumber : Pres lexNumber := by
  have h := pres_scanNumber
  unfold lexNumber; pres_tac [h]

theorem pres_step (st : StateId) : Pres (step st) := by
  cases st <;> unfold step
  · exact pres_lexText
  · exact pres_lexLeftDelim
  · exact pres_lexComment
  · exact pres_lexRightDelim
  · exact pres_lexInsideAction
  · exact pres_lexSpace
  · exact pres_lexIdentifier
  · exact pres_lexField
  · exact pres_lexChar
  · exact pres_lexNumber
  · exact pres_lexQuote
  · exact pres_lexRawQuote

def Outcome.events : Outcome → List Event
  | .done e => e
  | .crash _ e => e
  | .outOfFuel e => e

theorem runLoop_chain : ∀ (fuel : Nat) (st : StateId) (s : St), Inv s →
    ∃ s', (runLoop fuel st s).events = s'.events.reverse ∧ Inv s' ∧ s'.input = s.input := by
  intro fuel
  induction fuel with
  | zero => intro st s hs; exact ⟨s, rfl, hs, rfl⟩
  | succ n ih =>
    intro st s hs
    have hp := (pres_step st).post s hs
    unfold runLoop
    cases hst : step st s with
    | ok o s' =>
      rw [hst] at hp
      cases o with
      | none => exact ⟨s', rfl, hp.1, hp.2.1⟩
      | some st' =>
        obtain ⟨s'', h1, h2, h3⟩ := ih st' s' hp.1
        exact ⟨s'', h1, h2, h3.trans hp.2.1⟩
    | crash msg s' =>
      rw [hst] at hp
      exact ⟨s', rfl, hp.1, hp.2.1⟩

/-- **The event log of every lexer run is a chain of verbatim slices**, for every input and every
    delimiter configuration, however the run ends. -/
theorem lexRun_chain (d : Delims) (input : Bytes) :
    Chain input (lexRun d input).events.reverse := by
  have h0 : Inv { input := input, d := d } := ⟨trivial, rfl⟩
  obtain ⟨s', h1, h2, h3⟩ := runLoop_chain (4 * input.length + 16) StateId.text _ h0
  unfold lexRun
  rw [h1, List.reverse_reverse]
  have := h2.chain
  rw [h3] at this
  exact this

end JetVerif.Lex
