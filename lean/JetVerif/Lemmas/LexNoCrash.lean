/-
  The lexer model never crashes: from a state satisfying the cursor invariant (and, for the states
  that rely on it, the fact established by the state function that selected them - "the left
  delimiter starts here", "one space has been read", ...) every state function ends in `ok`,
  re-establishes the invariant and the entry fact of the state it selects, and every loop ends
  within the fuel the model gives it.
-/
import JetVerif.Lemmas.LexSafe

namespace JetVerif.Lex
open JetVerif.Utf8

@[simp] theorem lpure_apply {α} (a : α) (s : St) : (pure a : M α) s = .ok a s := rfl
@[simp] theorem get_apply (s : St) : get s = .ok s s := rfl
@[simp] theorem modify_apply (f : St → St) (s : St) : modify f s = .ok () (f s) := rfl

/-- an outcome that is `ok` and satisfies `Q` -/
def Ok {α} (r : Res α) (Q : α → St → Prop) : Prop :=
  match r with
  | .ok a s => Q a s
  | .crash _ _ => False

theorem Ok.bind {α β} {m : M α} {f : α → M β} {s : St} {Q : α → St → Prop} {R : β → St → Prop}
    (h : Ok (m s) Q) (hf : ∀ a s', Q a s' → Ok (f a s') R) : Ok ((m >>= f) s) R := by
  rw [lbind_apply]
  cases hm : m s with
  | ok a s' => rw [hm] at h; exact hf a s' h
  | crash msg s' => rw [hm] at h; exact h.elim

theorem Ok.mono {α} {r : Res α} {Q Q' : α → St → Prop} (h : Ok r Q) (hq : ∀ a s, Q a s → Q' a s) : Ok r Q' := by
  cases r with
  | ok a s => exact hq a s h
  | crash msg s => exact h.elim

variable {inp : Bytes} {d : Delims} {lo : Int}

theorem restAt_eq (s : St) (a : Int) (h0 : 0 ≤ a) (h1 : a ≤ s.input.length) :
    restAt a s = .ok (s.input.drop a.toNat) s := by
  unfold restAt
  rw [sliceFrom_ok s.input a h0 h1]

theorem hasPrefix_length : ∀ (a b : Bytes), hasPrefix a b = true → b.length ≤ a.length
  | _, [], _ => by simp
  | [], _ :: _, h => by simp [hasPrefix] at h
  | x :: xs, y :: ys, h => by
    simp [hasPrefix] at h
    have := hasPrefix_length xs ys h.2
    simp; omega

theorem hasPrefix_take : ∀ (a b : Bytes), hasPrefix a b = true → a.take b.length = b
  | _, [], _ => by simp
  | [], _ :: _, h => by simp [hasPrefix] at h
  | x :: xs, y :: ys, h => by
    simp [hasPrefix] at h
    simp [h.1, hasPrefix_take xs ys h.2]

theorem mem_takeWhile_space : ∀ (l : Bytes) (c : UInt8), c ∈ l.takeWhile isSpaceByte → isSpaceByte c = true
  | [], c, h => by simp at h
  | a :: tl, c, h => by
    by_cases hp : isSpaceByte a = true
    · simp [List.takeWhile, hp] at h
      rcases h with rfl | h
      · exact hp
      · exact mem_takeWhile_space tl c h
    · simp [List.takeWhile, hp] at h

theorem take_of_prefix : ∀ (a b : Bytes) (n : Nat), hasPrefix a b = true → a.take (b.length + n) = b ++ (a.drop b.length).take n
  | _, [], n, _ => by simp
  | [], _ :: _, _, h => by simp [hasPrefix] at h
  | x :: xs, y :: ys, n, h => by
    simp [hasPrefix] at h
    have := take_of_prefix xs ys n h.2
    have e : (y :: ys).length + n = (ys.length + n) + 1 := by simp; omega
    rw [e]
    simp [h.1, this]

theorem indexOf_prefix : ∀ (a sep : Bytes) (i : Nat), indexOf a sep = some i → hasPrefix (a.drop i) sep = true
  | [], sep, i, h => by
    simp only [indexOf] at h
    split at h
    · rename_i hs; subst hs; simp [hasPrefix]
    · simp at h
  | x :: xs, sep, i, h => by
    simp only [indexOf] at h
    split at h
    · rename_i hp; simp at h; subst h; simpa using hp
    · cases hi : indexOf xs sep with
      | none => rw [hi] at h; simp at h
      | some k =>
        rw [hi] at h; simp at h; subst h
        simpa using indexOf_prefix xs sep k hi

theorem drop_length_int (inp : Bytes) (p : Int) (h0 : 0 ≤ p) (h1 : p ≤ inp.length) :
    ((inp.drop p.toNat).length : Int) = inp.length - p := by
  rw [List.length_drop]; omega

/-- a prefix found at the cursor fits into the input -/
theorem prefix_fits (inp : Bytes) (p : Int) (pre : Bytes) (h0 : 0 ≤ p) (h1 : p ≤ inp.length)
    (h : hasPrefix (inp.drop p.toNat) pre = true) : p + pre.length ≤ inp.length := by
  have := hasPrefix_length _ _ h
  have e := drop_length_int inp p h0 h1
  omega

theorem B.setPos {s : St} (h : B inp d lo s) (p : Int) (h1 : s.start ≤ p) (h2 : p ≤ inp.length) :
    B inp d lo { s with pos := p } :=
  ⟨h.input, h.delims, h.wfd, h.start0, h1, h2, h.events, h.fields, h.low, h.ign⟩

theorem B.pos0 {s : St} (h : B inp d lo s) : 0 ≤ s.pos := Int.le_trans h.start0 h.startPos

theorem B.setWidth {s : St} (h : B inp d lo s) (w : Int) : B inp d lo { s with width := w } :=
  ⟨h.input, h.delims, h.wfd, h.start0, h.startPos, h.posLen, h.events, h.fields, h.low, h.ign⟩

/-- the value `emit` sends: `l.input[l.start:l.pos]` -/
def pending (s : St) : Bytes := (s.input.drop s.start.toNat).take (s.pos - s.start).toNat

theorem emit_ok' (t : Tok) (s : St) (h : B inp d lo s) (hf : t = Tok.field → ∃ c cs, pending s = 46 :: c :: cs) :
    Ok (emit t s) (fun _ s' => B inp d lo s' ∧ s'.start = s.pos ∧ s'.pos = s.pos ∧ s'.width = s.width ∧
      s'.parenDepth = s.parenDepth) := by
  unfold emit slice
  have hc : 0 ≤ s.start ∧ s.start ≤ s.pos ∧ s.pos ≤ (s.input.length : Int) := by
    rw [h.input]; exact ⟨h.start0, h.startPos, h.posLen⟩
  simp only [hc, and_self, if_true]
  refine ⟨⟨h.input, h.delims, h.wfd, ?_, Int.le_refl _, h.posLen, ?_, ?_, Int.le_trans h.low h.startPos, ?_⟩, rfl, rfl, rfl, rfl⟩
  · exact Int.le_trans h.start0 h.startPos
  · intro e he
    simp at he
    rcases he with rfl | he
    · exact ⟨h.start0, h.startPos, h.posLen⟩
    · exact h.events e he
  · intro e he
    simp at he
    rcases he with rfl | he
    · exact hf
    · exact h.fields e he
  · intro e he
    simp at he
    rcases he with rfl | he
    · trivial
    · exact h.ign e he

/-- `emit` of anything but a field item -/
theorem emit_ok (t : Tok) (s : St) (h : B inp d lo s) (hne : t ≠ Tok.field := by decide) :
    Ok (emit t s) (fun _ s' => B inp d lo s' ∧ s'.start = s.pos ∧ s'.pos = s.pos ∧ s'.width = s.width ∧
      s'.parenDepth = s.parenDepth) :=
  emit_ok' t s h (fun e => (hne e).elim)

theorem ignore_ok (k : IgnKind) (s : St) (h : B inp d lo s) (hi : IgnK d k (pending s)) :
    Ok (ignore k s) (fun _ s' => B inp d lo s' ∧ s'.start = s.pos ∧ s'.pos = s.pos ∧ s'.width = s.width ∧
      s'.parenDepth = s.parenDepth) := by
  refine ⟨⟨h.input, h.delims, h.wfd, Int.le_trans h.start0 h.startPos, Int.le_refl _, h.posLen, ?_, ?_, Int.le_trans h.low h.startPos, ?_⟩, rfl, rfl, rfl, rfl⟩
  · intro e he
    simp at he
    rcases he with rfl | he
    · exact ⟨h.start0, h.startPos, h.posLen⟩
    · exact h.events e he
  · intro e he
    simp at he
    rcases he with rfl | he
    · trivial
    · exact h.fields e he
  · intro e he
    simp at he
    rcases he with rfl | he
    · show IgnK d k ((inp.drop s.start.toNat).take (s.pos - s.start).toNat)
      rw [← h.input]; exact hi
    · exact h.ign e he

theorem errorf_ok (msg : String) (s : St) (h : B inp d lo s) :
    Ok (errorf msg s) (fun r s' => r = none ∧ B inp d lo s' ∧ s'.start = s.start ∧ s'.pos = s.pos) := by
  refine ⟨rfl, ⟨h.input, h.delims, h.wfd, h.start0, h.startPos, h.posLen, ?_, ?_, h.low, ?_⟩, rfl, rfl⟩
  · intro e he
    simp at he
    rcases he with rfl | he
    · exact ⟨h.start0, Int.le_trans h.startPos h.posLen⟩
    · exact h.events e he
  · intro e he
    simp at he
    rcases he with rfl | he
    · trivial
    · exact h.fields e he
  · intro e he
    simp at he
    rcases he with rfl | he
    · trivial
    · exact h.ign e he

/-- `next` under the invariant: the cursor moves by the width of the rune read, which can be given back -/
theorem next_ok (s : St) (h : B inp d lo s) :
    Ok (next s) (fun r s' => r = (runeAt s).1 ∧ s' = { s with width := (runeAt s).2, pos := s.pos + (runeAt s).2 } ∧
      N inp d lo s') := by
  have h0 : 0 ≤ s.pos := Int.le_trans h.start0 h.startPos
  have h1 : s.pos ≤ s.input.length := by rw [h.input]; exact h.posLen
  rw [next_eq s h0 h1]
  have hb := runeAt_bounds s h0 h1
  rw [h.input] at hb
  refine ⟨rfl, rfl, ⟨⟨h.input, h.delims, h.wfd, h.start0, ?_, hb.2.1, h.events, h.fields, h.low, h.ign⟩, hb.1, ?_⟩⟩
  · show s.start ≤ s.pos + (runeAt s).2
    have := h.startPos; omega
  · show s.start ≤ s.pos + (runeAt s).2 - (runeAt s).2
    have := h.startPos; omega

theorem N.backup {s : St} (h : N inp d lo s) : B inp d lo { s with pos := s.pos - s.width } :=
  ⟨h.input, h.delims, h.wfd, h.start0, h.back, by show s.pos - s.width ≤ _; have := h.posLen; have := h.width0; omega, h.events, h.fields, h.low, h.ign⟩

theorem peek_ok (s : St) (h : B inp d lo s) :
    Ok (peek s) (fun r s' => r = (runeAt s).1 ∧ s' = { s with width := (runeAt s).2 } ∧ B inp d lo s') := by
  have h0 : 0 ≤ s.pos := Int.le_trans h.start0 h.startPos
  have h1 : s.pos ≤ s.input.length := by rw [h.input]; exact h.posLen
  rw [peek_eq s h0 h1]
  exact ⟨rfl, rfl, h.setWidth _⟩

/-- bytes still ahead of the cursor -/
def rem (s : St) : Nat := (s.input.length - s.pos).toNat

theorem rem_next (s : St) (h : B inp d lo s) (hsome : (runeAt s).1.isSome) :
    rem { s with width := (runeAt s).2, pos := s.pos + (runeAt s).2 } + 1 ≤ rem s := by
  have h0 : 0 ≤ s.pos := Int.le_trans h.start0 h.startPos
  have h1 : s.pos ≤ s.input.length := by rw [h.input]; exact h.posLen
  have hb := runeAt_bounds s h0 h1
  have := hb.2.2.1 hsome
  unfold rem
  simp only
  omega

theorem runeAt_congr (s t : St) (hi : s.input = t.input) (hp : s.pos = t.pos) : runeAt s = runeAt t := by
  unfold runeAt
  rw [hi, hp]

theorem decodeRune_high (b : UInt8) (rest : Bytes) (hb : ¬ b < 0x80) : 128 ≤ (decodeRune (b :: rest)).1 := by
  simp only [decodeRune, hb, if_false]
  repeat' split
  all_goals first
    | (simp only [runeError]; omega)
    | (simp only [UInt8.le_iff_toNat_le, UInt8.lt_iff_toNat_lt, UInt8.toNat_ofNat, Nat.not_lt, ← UInt8.toNat_inj] at *
       omega)

theorem decodeRune_ascii (b : UInt8) (rest : Bytes) (h : (decodeRune (b :: rest)).1 < 128) :
    (decodeRune (b :: rest)).2 = 1 := by
  by_cases hb : b < 0x80
  · simp [decodeRune, hb]
  · have := decodeRune_high b rest hb
    omega

/-- the rune at the cursor is ASCII: its width is 1 -/
theorem runeAt_ascii (s : St) (c : Nat) (h0 : 0 ≤ s.pos) (h : (runeAt s).1 = some c) (hc : c < 128) : (runeAt s).2 = 1 := by
  unfold runeAt at h ⊢
  split at h
  · simp at h
  · rename_i hge
    simp only [hge, if_false]
    cases hd : s.input.drop s.pos.toNat with
    | nil =>
      have : (s.input.drop s.pos.toNat).length = s.input.length - s.pos.toNat := List.length_drop
      rw [hd] at this; simp at this; omega
    | cons b rest =>
      rw [hd] at h
      simp at h
      have := decodeRune_ascii b rest (by rw [h]; exact hc)
      rw [this]; rfl

/-- the byte under the cursor, and the rune it starts -/
theorem runeAt_byte (s : St) (h0 : 0 ≤ s.pos) (c : Nat) (h : (runeAt s).1 = some c) :
    ∃ b tl, s.input.drop s.pos.toNat = b :: tl ∧ (decodeRune (b :: tl)).1 = c := by
  unfold runeAt at h
  split at h
  · simp at h
  · rename_i hge
    cases hd : s.input.drop s.pos.toNat with
    | nil =>
      have : (s.input.drop s.pos.toNat).length = s.input.length - s.pos.toNat := List.length_drop
      rw [hd] at this; simp at this; omega
    | cons b rest =>
      rw [hd] at h
      simp at h
      exact ⟨b, rest, rfl, h⟩

theorem byte_of_rune_dot (b : UInt8) (tl : Bytes) (h : (decodeRune (b :: tl)).1 = 46) : b = 46 := by
  by_cases hb : b < 0x80
  · simp [decodeRune, hb] at h
    exact UInt8.toNat_inj.mp (by simpa using h)
  · have := decodeRune_high b tl hb
    omega

theorem rune_of_byte_dot (tl : Bytes) : (decodeRune ((46 : UInt8) :: tl)).1 = 46 := by
  simp [decodeRune]


/-- an ASCII rune is its byte -/
theorem byte_of_rune_ascii (b : UInt8) (tl : Bytes) (c : Nat) (h : (decodeRune (b :: tl)).1 = c) (hc : c < 128) :
    b.toNat = c := by
  by_cases hb : b < 0x80
  · simp [decodeRune, hb] at h; exact h
  · have := decodeRune_high b tl hb
    omega

theorem byte_of_space_rune (b : UInt8) (tl : Bytes) (c : Nat) (h : (decodeRune (b :: tl)).1 = c)
    (hs : isSpace (some c) = true) : isSpaceByte b = true := by
  have hc : c = 32 ∨ c = 9 ∨ c = 13 ∨ c = 10 := by
    simp only [isSpace, Bool.or_eq_true, beq_iff_eq] at hs
    rcases hs with ((h1 | h2) | h3) | h4
    · exact Or.inl h1
    · exact Or.inr (Or.inl h2)
    · exact Or.inr (Or.inr (Or.inl h3))
    · exact Or.inr (Or.inr (Or.inr h4))
  have hb := byte_of_rune_ascii b tl c h (by omega)
  have : b = 32 ∨ b = 9 ∨ b = 13 ∨ b = 10 := by
    rcases hc with rfl | rfl | rfl | rfl
    · exact Or.inl (UInt8.toNat_inj.mp (by simpa using hb))
    · exact Or.inr (Or.inl (UInt8.toNat_inj.mp (by simpa using hb)))
    · exact Or.inr (Or.inr (Or.inl (UInt8.toNat_inj.mp (by simpa using hb))))
    · exact Or.inr (Or.inr (Or.inr (UInt8.toNat_inj.mp (by simpa using hb))))
  rcases this with rfl | rfl | rfl | rfl <;> decide

theorem AllSpace.take {b : Bytes} (h : AllSpace b) (n : Nat) : AllSpace (b.take n) :=
  fun c hc => h c (List.mem_of_mem_take hc)

theorem AllSpace.nil : AllSpace [] := fun c hc => by simp at hc

theorem AllSpace.snoc {b : Bytes} (h : AllSpace b) (x : UInt8) (hx : isSpaceByte x = true) : AllSpace (b ++ [x]) := by
  intro c hc
  simp at hc
  rcases hc with hc | rfl
  · exact h c hc
  · exact hx

/-! ### facts about the regenerated token tables (tie A): none of them produces a field item -/

theorem single_not_field : ∀ p ∈ Facts.singleCharToks, tokOf p.2 ≠ Tok.field := by decide
theorem two_not_field : ∀ p ∈ Facts.twoCharToks,
    tokOf p.2.2.1 ≠ Tok.field ∧ tokOf p.2.2.2 ≠ Tok.field ∧ p.2.2.2 ≠ "" := by decide
theorem sign_not_field : tokOf Facts.minusTok ≠ Tok.field ∧ tokOf Facts.plusTok ≠ Tok.field := by decide
theorem kw_not_field : ¬ (Tok.field.code > Tok.keyword.code) := by decide

/-! ### small helpers of the state functions -/

theorem backup_ok (s : St) (h : N inp d lo s) : Ok (backup s) (fun _ s' => B inp d lo s' ∧ s' = { s with pos := s.pos - s.width }) :=
  ⟨h.backup, rfl⟩

theorem accept_ok (valid : List Nat) (s : St) (h : B inp d lo s) :
    Ok (accept valid s) (fun b s' => B inp d lo s' ∧ b = runeIn valid (runeAt s).1 ∧ s.pos ≤ s'.pos ∧
      (b = true → s.pos + 1 ≤ s'.pos) ∧ (b = false → s'.pos = s.pos)) := by
  unfold accept
  refine Ok.bind (next_ok s h) ?_
  intro r s1 h1
  obtain ⟨hr1, hs1, hn⟩ := h1
  have hbnd := runeAt_bounds s h.pos0 (by rw [h.input]; exact h.posLen)
  have hp1 : s1.pos = s.pos + (runeAt s).2 := by rw [hs1]
  have hw1 : s1.width = (runeAt s).2 := by rw [hs1]
  by_cases hin : runeIn valid r = true
  · rw [if_pos hin]
    have hsome : (runeAt s).1.isSome := by
      rw [← hr1]; cases r with
      | none => simp [runeIn] at hin
      | some c => rfl
    have := hbnd.2.2.1 hsome
    exact ⟨hn.toB, by rw [← hr1, hin], by omega, fun _ => by omega, fun hc => by simp at hc⟩
  · rw [if_neg hin]
    refine Ok.bind (backup_ok s1 hn) ?_
    intro _ s2 h2
    have hp2 : s2.pos = s.pos := by rw [h2.2]; show s1.pos - s1.width = _; omega
    exact ⟨h2.1, by rw [← hr1]; simpa using hin, by omega, fun hc => by simp at hc, fun _ => hp2⟩

theorem acceptRunLoop_ok (valid : List Nat) : ∀ (fuel : Nat) (s : St), B inp d lo s → rem s < fuel →
    Ok (acceptRunLoop valid fuel s) (fun _ s' => B inp d lo s' ∧ s.pos ≤ s'.pos ∧
      (runeIn valid (runeAt s).1 = true → s.pos + 1 ≤ s'.pos) ∧ (runeIn valid (runeAt s).1 = false → s'.pos = s.pos))
  | 0, _, _, hr => by omega
  | fuel + 1, s, h, hr => by
    unfold acceptRunLoop
    refine Ok.bind (next_ok s h) ?_
    intro r s1 h1
    obtain ⟨hr1, hs1, hn⟩ := h1
    have hbnd := runeAt_bounds s h.pos0 (by rw [h.input]; exact h.posLen)
    have hp1 : s1.pos = s.pos + (runeAt s).2 := by rw [hs1]
    have hw1 : s1.width = (runeAt s).2 := by rw [hs1]
    split
    · rename_i hin
      have hsome : (runeAt s).1.isSome := by
        rw [← hr1]; cases r with
        | none => simp [runeIn] at hin
        | some c => rfl
      have := rem_next s h hsome
      rw [← hs1] at this
      have hw := hbnd.2.2.1 hsome
      refine (acceptRunLoop_ok valid fuel s1 hn.toB (by omega)).mono ?_
      intro _ s' h'
      refine ⟨h'.1, by have := h'.2.1; omega, fun _ => by have := h'.2.1; omega, fun hc => ?_⟩
      rw [← hr1, hin] at hc
      simp at hc
    · rename_i hin
      refine (backup_ok s1 hn).mono ?_
      intro _ s2 h2
      have hp2 : s2.pos = s.pos := by rw [h2.2]; show s1.pos - s1.width = _; omega
      refine ⟨h2.1, by omega, fun hc => ?_, fun _ => hp2⟩
      rw [← hr1] at hc
      exact absurd hc hin

theorem acceptRun_ok (valid : List Nat) (s : St) (h : B inp d lo s) :
    Ok (acceptRun valid s) (fun _ s' => B inp d lo s' ∧ s.pos ≤ s'.pos ∧
      (runeIn valid (runeAt s).1 = true → s.pos + 1 ≤ s'.pos) ∧ (runeIn valid (runeAt s).1 = false → s'.pos = s.pos)) := by
  unfold acceptRun
  rw [lbind_apply, get_apply]
  refine acceptRunLoop_ok valid _ s h ?_
  unfold rem fuelOf
  have := h.startPos; have := h.start0
  omega

theorem atRightDelim_ok (s : St) (h : B inp d lo s) :
    Ok (atRightDelim s) (fun r s' => s' = s ∧
      (r.1 = true → hasPrefix (s.input.drop s.pos.toNat) s.d.trimRight = true ∨ hasPrefix (s.input.drop s.pos.toNat) s.d.right = true) ∧
      (r.1 = false → hasPrefix (s.input.drop s.pos.toNat) s.d.trimRight = false)) := by
  have h0 : 0 ≤ s.pos := Int.le_trans h.start0 h.startPos
  have h1 : s.pos ≤ s.input.length := by rw [h.input]; exact h.posLen
  unfold atRightDelim
  rw [lbind_apply, get_apply]
  simp only
  rw [lbind_apply, restAt_eq s s.pos h0 h1]
  simp only
  split
  · rename_i hp; exact ⟨rfl, fun _ => Or.inl hp, fun hc => by simp at hc⟩
  · rename_i hnt
    split
    · rename_i hp; exact ⟨rfl, fun _ => Or.inr hp, fun hc => by simp at hc⟩
    · exact ⟨rfl, fun hc => by simp at hc, fun _ => by simpa using hnt⟩

/-- what `atTerminator` answers: a function of the rune at the cursor and the right delimiter -/
def termVal (s : St) : Bool :=
  if isSpace (runeAt s).1 then true
  else match (runeAt s).1 with
    | none => Facts.terminatorEOF
    | some c => if Facts.terminatorChars.contains c then true else (decodeRune s.d.right).1 == c

theorem atTerminator_ok (s : St) (h : B inp d lo s) :
    Ok (atTerminator s) (fun r s' => s' = { s with width := (runeAt s).2 } ∧ B inp d lo s' ∧ r = termVal s) := by
  unfold atTerminator
  refine Ok.bind (peek_ok s h) ?_
  intro r s1 h1
  obtain ⟨hr1, hs1, hb1⟩ := h1
  rw [lbind_apply, get_apply]
  simp only
  have hd1 : s1.d = s.d := by rw [hs1]
  unfold termVal
  rw [← hr1]
  split
  · exact ⟨hs1, hb1, rfl⟩
  · cases r with
    | none => exact ⟨hs1, hb1, rfl⟩
    | some c =>
      simp only
      split
      · exact ⟨hs1, hb1, rfl⟩
      · refine ⟨hs1, hb1, ?_⟩
        rw [hd1]

/-! ### the facts a state relies on when it is entered -/

/-- the input from the cursor on -/
def rest (s : St) : Bytes := s.input.drop s.pos.toNat

def Entry (st : StateId) (s : St) : Prop :=
  match st with
  | .leftDelim => hasPrefix (rest s) s.d.left = true
  | .comment => hasPrefix (rest s) s.d.lcomment = true ∧ s.start = s.pos
  | .rightDelim => (hasPrefix (rest s) s.d.trimRight = true ∨ hasPrefix (rest s) s.d.right = true) ∧ AllSpace (pending s)
  | .insideAction => s.start = s.pos
  | .space => s.start + 1 = s.pos ∧ hasPrefix (s.input.drop s.start.toNat) s.d.trimRight = false ∧ AllSpace (pending s)
  | .identifier =>
    (∃ b tl, s.input.drop s.start.toNat = b :: tl ∧ b ≠ 46) ∧
    (s.start < s.pos ∨ (∃ c, (runeAt s).1 = some c ∧ isAlphaNumeric (some c) = true))
  | .field => s.start + 1 = s.pos ∧ ∃ tl, s.input.drop s.start.toNat = 46 :: tl
  | .char => s.start < s.pos
  | .quote => s.start < s.pos
  | .rawQuote => s.start < s.pos
  | .number => ∃ c, (runeAt s).1 = some c ∧ (c = 43 ∨ c = 45 ∨ c = 46 ∨ (48 ≤ c ∧ c ≤ 57))
  | .text => True

/-- what a state function leaves behind: the invariant, and the entry fact of the state it selects -/
def Goes (inp : Bytes) (d : Delims) (lo : Int) (r : Option StateId) (s' : St) : Prop :=
  B inp d lo s' ∧ (∀ st, r = some st → Entry st s')

/-- the floor under `start` can be lowered, and raised up to `start` itself -/
theorem B.relo {s : St} (h : B inp d lo s) (lo' : Int) (hl : lo' ≤ s.start) : B inp d lo' s :=
  ⟨h.input, h.delims, h.wfd, h.start0, h.startPos, h.posLen, h.events, h.fields, hl, h.ign⟩

theorem Goes.relo {r : Option StateId} {s' : St} (h : Goes inp d lo r s') (lo' : Int) (hl : lo' ≤ lo) : Goes inp d lo' r s' :=
  ⟨h.1.relo lo' (Int.le_trans hl h.1.low), h.2⟩

/-- how far a state function moves `start` at least, by the state it was and the state it selects:
    0 for the hand-overs that consume nothing (`text` finding a delimiter at once, `insideAction`
    dispatching on the first rune, `space` seeing the trim marker, any error), 1 otherwise -/
def delta : StateId → Option StateId → Int
  | _, none => 0
  | .text, some .leftDelim => 0
  | .text, some .comment => 0
  | .insideAction, some .insideAction => 1
  | .insideAction, some .text => 1
  | .insideAction, some .leftDelim => 1
  | .insideAction, some .comment => 1
  | .insideAction, some _ => 0
  | .space, some .rightDelim => 0
  | _, some _ => 1

/-- what a state function run from `s` in state `st` leaves behind -/
def Steps (inp : Bytes) (d : Delims) (st : StateId) (s : St) (r : Option StateId) (s' : St) : Prop :=
  Goes inp d (s.start + delta st r) r s'

theorem delta_le_one (st : StateId) (r : Option StateId) : delta st r ≤ 1 := by
  cases st <;> cases r <;> (try rename_i x; cases x) <;> simp [delta]

theorem delta_none (st : StateId) : delta st none = 0 := by cases st <;> rfl

theorem Steps.of {st : StateId} {s : St} {r : Option StateId} {s' : St} {lo' : Int}
    (h : Goes inp d lo' r s') (hl : s.start + delta st r ≤ lo') : Steps inp d st s r s' := h.relo _ hl

theorem ok_modify (f : St → St) (s : St) : Ok (modify f s) (fun _ s' => s' = f s) := rfl
theorem ok_get (s : St) : Ok (get s) (fun a s' => s = a ∧ s = s') := ⟨rfl, rfl⟩

theorem ok_restAt (s : St) (h : B inp d lo s) (a : Int) (h0 : 0 ≤ a) (h1 : a ≤ inp.length) :
    Ok (restAt a s) (fun r s' => r = s.input.drop a.toNat ∧ s = s') := by
  rw [restAt_eq s a h0 (by rw [h.input]; exact h1)]
  exact ⟨rfl, rfl⟩


theorem indexOf_fits : ∀ (a sep : Bytes) (i : Nat), indexOf a sep = some i → i + sep.length ≤ a.length
  | [], sep, i, h => by
    simp only [indexOf] at h
    split at h
    · rename_i hs; subst hs; simp at h; simp [← h]
    · simp at h
  | x :: xs, sep, i, h => by
    simp only [indexOf] at h
    split at h
    · rename_i hp
      simp at h; subst h
      have := hasPrefix_length _ _ hp
      simpa using this
    · cases hi : indexOf xs sep with
      | none => rw [hi] at h; simp at h
      | some k =>
        rw [hi] at h; simp at h; subst h
        have := indexOf_fits xs sep k hi
        simp; omega

theorem lexLeftDelim_ok (s : St) (h : B inp d lo s) (he : Entry .leftDelim s) :
    Ok (lexLeftDelim s) (Steps inp d .leftDelim s) := by
  have hfit := prefix_fits inp s.pos s.d.left h.pos0 h.posLen (by rw [← h.input]; exact he)
  have hlen : 1 ≤ s.d.left.length := by
    have := h.wfd.left; rw [← h.delims] at this
    cases hl : s.d.left with
    | nil => exact absurd hl this
    | cons a b => simp
  unfold lexLeftDelim
  refine Ok.bind (ok_modify _ s) ?_
  intro _ s1 e1
  have hb1 : B inp d lo s1 := by
    rw [e1]; exact h.setPos _ (by have := h.startPos; omega) hfit
  refine Ok.bind (emit_ok Tok.leftDelim s1 hb1) ?_
  intro _ s2 h2
  have h2 : B inp d (s.start + 1) s2 ∧ s2.start = s1.pos ∧ s2.pos = s1.pos ∧ s2.width = s1.width ∧
      s2.parenDepth = s1.parenDepth :=
    ⟨h2.1.relo _ (by rw [h2.2.1, e1]; show s.start + 1 ≤ s.pos + _; have := h.startPos; omega), h2.2⟩
  refine Ok.bind (ok_get s2) ?_
  intro g2 s3 e3
  obtain ⟨rfl, rfl⟩ := e3
  refine Ok.bind (ok_restAt s2 h2.1 s2.pos h2.1.pos0 h2.1.posLen) ?_
  intro r s4 e4
  obtain ⟨rfl, rfl⟩ := e4
  have tail : ∀ s6, B inp d (s.start + 1) s6 → s6.start = s6.pos → Ok ((do
      modify fun s => { s with parenDepth := 0 }
      pure (some StateId.insideAction) : M (Option StateId)) s6) (Steps inp d .leftDelim s) := by
    intro s6 hb6 he6
    refine Ok.bind (ok_modify _ s6) ?_
    intro _ s7 e7
    refine Steps.of (lo' := s.start + 1) ?_ (by simp [delta])
    refine ⟨by rw [e7]; exact ⟨hb6.input, hb6.delims, hb6.wfd, hb6.start0, hb6.startPos, hb6.posLen, hb6.events, hb6.fields, hb6.low, hb6.ign⟩, ?_⟩
    intro st hst
    cases hst
    rw [e7]
    exact he6
  by_cases hp : hasPrefix (List.drop s2.pos.toNat s2.input) leftTrimMarker = true
  · rw [if_pos hp]
    have hf2 := prefix_fits inp s2.pos leftTrimMarker h2.1.pos0 h2.1.posLen (by rw [← h2.1.input]; exact hp)
    refine Ok.bind (ok_modify _ _) ?_
    intro _ s5 e5
    have hb5 : B inp d (s.start + 1) s5 := by
      rw [e5]; exact h2.1.setPos _ (by have := h2.1.startPos; simp [leftTrimMarker] at hf2 ⊢; omega) (by simpa [leftTrimMarker] using hf2)
    refine Ok.bind (ignore_ok _ s5 hb5 ?_) ?_
    · show pending s5 = leftTrimMarker
      rw [e5]
      unfold pending
      simp only
      rw [h2.2.1, ← h2.2.2.1]
      have : (s2.pos + 2 - s2.pos).toNat = leftTrimMarker.length := by simp [leftTrimMarker]; omega
      rw [this]
      exact hasPrefix_take _ _ hp
    intro _ s6 h6
    exact tail s6 h6.1 (by rw [h6.2.1, h6.2.2.1])
  · rw [if_neg hp]
    exact tail s2 h2.1 (by rw [h2.2.1, h2.2.2.1])

theorem lexComment_ok (s : St) (h : B inp d lo s) (he : Entry .comment s) :
    Ok (lexComment s) (Steps inp d .comment s) := by
  obtain ⟨he, hsp⟩ := he
  have hfit := prefix_fits inp s.pos s.d.lcomment h.pos0 h.posLen (by rw [← h.input]; exact he)
  have hlen : 1 ≤ s.d.lcomment.length := by
    have := h.wfd.lcomment; rw [← h.delims] at this
    cases hl : s.d.lcomment with
    | nil => exact absurd hl this
    | cons a b => simp
  have h := h.relo s.start (Int.le_refl _)
  unfold lexComment
  refine Ok.bind (ok_modify _ s) ?_
  intro _ s1 e1
  have hb1 : B inp d s.start s1 := by
    rw [e1]; exact h.setPos _ (by have := h.startPos; omega) hfit
  refine Ok.bind (ok_get s1) ?_
  intro g1 s2 e2
  obtain ⟨rfl, rfl⟩ := e2
  refine Ok.bind (ok_restAt s1 hb1 s1.pos hb1.pos0 hb1.posLen) ?_
  intro r s3 e3
  obtain ⟨rfl, rfl⟩ := e3
  cases hi : indexOf (List.drop s1.pos.toNat s1.input) s1.d.rcomment with
  | none => exact (errorf_ok _ s1 hb1).mono (fun r s' h => Steps.of (lo' := s.start) ⟨h.2.1, by intro st hst; rw [h.1] at hst; cases hst⟩ (by rw [h.1, delta_none]; omega))
  | some i =>
    have hf := indexOf_fits _ _ i hi
    have hl := drop_length_int inp s1.pos hb1.pos0 hb1.posLen
    rw [hb1.input] at hf
    refine Ok.bind (ok_modify _ s1) ?_
    intro _ s4 e4
    have hb4 : B inp d s.start s4 := by
      rw [e4]; exact hb1.setPos _ (by have := hb1.startPos; omega) (by omega)
    refine Ok.bind (ignore_ok _ s4 hb4 ?_) ?_
    · -- the dropped range is the opener, what precedes the first closer, and the closer
      refine ⟨(List.drop s1.pos.toNat s1.input).take i, ?_⟩
      have hdd : s4.d = s.d := by rw [e4, e1]
      rw [← hb4.delims, hdd]
      have hpfx := indexOf_prefix _ _ i hi
      have hd1 : s1.d = s.d := by rw [e1]
      rw [hd1] at hpfx
      unfold pending
      have hi4 : s4.input = s.input := by rw [e4, e1]
      have hst4 : s4.start = s.pos := by rw [e4, e1]; exact hsp
      have hp4 : s4.pos = s.pos + (s.d.lcomment.length : Int) + (i : Int) + (s.d.rcomment.length : Int) := by
        rw [e4]
        show s1.pos + (i : Int) + (s1.d.rcomment.length : Int) = _
        rw [hd1, e1]
      have hp1 : s1.pos.toNat = s.pos.toNat + s.d.lcomment.length := by
        rw [e1]; show (s.pos + _).toNat = _; have := h.pos0; omega
      have hi1 : s1.input = s.input := by rw [e1]
      rw [hi4, hst4, hp4]
      have hn : (s.pos + (s.d.lcomment.length : Int) + (i : Int) + (s.d.rcomment.length : Int) - s.pos).toNat
          = s.d.lcomment.length + (i + s.d.rcomment.length) := by omega
      have he' : hasPrefix (List.drop s.pos.toNat s.input) s.d.lcomment = true := he
      have hD : List.drop s.d.lcomment.length (List.drop s.pos.toNat s.input) = List.drop s1.pos.toNat s1.input := by
        rw [List.drop_drop, hp1, hi1, Nat.add_comm]
      rw [hn, take_of_prefix _ _ _ he', hD, List.take_add, hasPrefix_take _ _ hpfx, List.append_assoc]
    intro _ s5 h5
    refine Steps.of (lo' := s.start + 1) ⟨h5.1.relo _ ?_, by intro st hst; cases hst; trivial⟩ (by simp [delta])
    rw [h5.2.1, e4]
    show s.start + 1 ≤ s1.pos + _ + _
    rw [e1]
    show s.start + 1 ≤ s.pos + _ + _ + _
    have := h.startPos
    omega

theorem length_takeWhile_le {α} (p : α → Bool) : ∀ l : List α, (l.takeWhile p).length ≤ l.length
  | [] => by simp
  | x :: xs => by
    simp only [List.takeWhile]
    split
    · have := length_takeWhile_le p xs; simp; omega
    · simp

theorem leftTrimLength_le (b : Bytes) : leftTrimLength b ≤ b.length := by
  unfold leftTrimLength
  exact length_takeWhile_le _ _

theorem goes_text {s' : St} (h : B inp d lo s') : Goes inp d lo (some StateId.text) s' :=
  ⟨h, by intro st hst; cases hst; trivial⟩

theorem goes_inside {s' : St} (h : B inp d lo s') (he : s'.start = s'.pos) : Goes inp d lo (some StateId.insideAction) s' :=
  ⟨h, by intro st hst; cases hst; exact he⟩

/-- after an `emit` (or `ignore`) nothing is pending -/
theorem goes_inside_emit {s0 s' : St} (h : B inp d lo s' ∧ s'.start = s0.pos ∧ s'.pos = s0.pos ∧ s'.width = s0.width ∧
    s'.parenDepth = s0.parenDepth) : Goes inp d lo (some StateId.insideAction) s' :=
  goes_inside h.1 (by rw [h.2.1, h.2.2.1])

theorem lexRightDelim_ok (s : St) (h : B inp d lo s) (he : Entry .rightDelim s) :
    Ok (lexRightDelim s) (Steps inp d .rightDelim s) := by
  have hlen : 1 ≤ s.d.right.length := by
    have := h.wfd.right; rw [← h.delims] at this
    cases hl : s.d.right with
    | nil => exact absurd hl this
    | cons a b => simp
  have h := h.relo s.start (Int.le_refl _)
  obtain ⟨he, hpend⟩ := he
  unfold lexRightDelim
  refine Ok.bind (ok_get s) ?_
  intro g s1 e1
  obtain ⟨rfl, rfl⟩ := e1
  refine Ok.bind (ok_restAt s h s.pos h.pos0 h.posLen) ?_
  intro r s2 e2
  obtain ⟨rfl, rfl⟩ := e2
  simp only []
  have htr : s.d.trimRight = rightTrimMarker ++ s.d.right := by rw [h.delims]; exact h.wfd.trimRight
  by_cases ht : hasPrefix (List.drop s.pos.toNat s.input) s.d.trimRight = true
  · simp only [ht, if_true]
    have hfit := prefix_fits inp s.pos s.d.trimRight h.pos0 h.posLen (by rw [← h.input]; exact ht)
    rw [htr] at hfit
    simp [rightTrimMarker] at hfit
    refine Ok.bind (ok_modify _ s) ?_
    intro _ s3 e3
    have hb3 : B inp d s.start s3 := by rw [e3]; exact h.setPos _ (by have := h.startPos; omega) (by omega)
    refine Ok.bind (ignore_ok _ s3 hb3 ?_) ?_
    · -- whatever space item was pending, then the marker
      refine ⟨pending s, hpend, ?_⟩
      unfold pending
      rw [e3]
      simp only
      have hk : (s.pos + 2 - s.start).toNat = (s.pos - s.start).toNat + 2 := by have := h.startPos; omega
      rw [hk, List.take_add, List.drop_drop]
      congr 1
      have hsp : s.start.toNat + (s.pos - s.start).toNat = s.pos.toNat := by have := h.startPos; have := h.start0; omega
      rw [hsp]
      have ht' := ht
      rw [htr] at ht'
      have := hasPrefix_take _ _ ht'
      simp only [rightTrimMarker, List.cons_append, List.nil_append, List.length_cons] at this
      have h2 : (List.drop s.pos.toNat s.input).take 2 = [32, 45] := by
        have e := congrArg (List.take 2) this
        simp only [List.take_take] at e
        simpa [List.take] using e
      simpa [rightTrimMarker] using h2
    intro _ s4 h4
    have hp4 : s4.pos = s.pos + 2 := by rw [h4.2.2.1, e3]
    have hd4 : s4.d = s.d := by rw [h4.1.delims, h.delims]
    refine Ok.bind (ok_modify _ s4) ?_
    intro _ s5 e5
    have hb5 : B inp d s.start s5 := by
      rw [e5]; exact h4.1.setPos _ (by have := h4.1.startPos; omega) (by rw [hp4, hd4]; omega)
    refine Ok.bind (emit_ok _ s5 hb5) ?_
    intro _ s6 h6
    have h6 : B inp d (s.start + 1) s6 ∧ s6.start = s5.pos ∧ s6.pos = s5.pos ∧ s6.width = s5.width ∧
        s6.parenDepth = s5.parenDepth :=
      ⟨h6.1.relo _ (by rw [h6.2.1, e5]; show s.start + 1 ≤ s4.pos + _; rw [hp4]; have := h.startPos; omega), h6.2⟩
    refine Ok.bind (ok_get s6) ?_
    intro g6 s7 e7
    obtain ⟨rfl, rfl⟩ := e7
    refine Ok.bind (ok_restAt s6 h6.1 s6.pos h6.1.pos0 h6.1.posLen) ?_
    intro r8 s8 e8
    obtain ⟨rfl, rfl⟩ := e8
    refine Ok.bind (ok_modify _ s6) ?_
    intro _ s9 e9
    have hl := drop_length_int inp s6.pos h6.1.pos0 h6.1.posLen
    have hle := leftTrimLength_le (List.drop s6.pos.toNat s6.input)
    rw [h6.1.input] at hle
    have hb9 : B inp d (s.start + 1) s9 := by
      rw [e9]; exact h6.1.setPos _ (by have := h6.1.startPos; omega) (by rw [h6.1.input]; omega)
    refine Ok.bind (ignore_ok _ s9 hb9 ?_) ?_
    · -- the run of spaces, tabs, CRs and LFs after the delimiter
      show AllSpace (pending s9)
      unfold pending
      rw [e9]
      simp only
      have hst : s6.start = s6.pos := by rw [h6.2.1, h6.2.2.1]
      rw [hst]
      have hk : (s6.pos + (leftTrimLength (List.drop s6.pos.toNat s6.input) : Int) - s6.pos).toNat
          = leftTrimLength (List.drop s6.pos.toNat s6.input) := by omega
      rw [hk]
      unfold leftTrimLength
      intro c hc
      have : c ∈ List.takeWhile isSpaceByte (List.drop s6.pos.toNat s6.input) := by
        have e : ∀ (l : Bytes), l.take (l.takeWhile isSpaceByte).length = l.takeWhile isSpaceByte := by
          intro l
          induction l with
          | nil => rfl
          | cons a tl ih => by_cases hp : isSpaceByte a = true <;> simp [List.takeWhile, hp, ih]
        rw [e] at hc; exact hc
      exact mem_takeWhile_space _ c this
    intro _ s10 h10
    exact Steps.of (lo' := s.start + 1) (goes_text h10.1) (by simp [delta])
  · simp only [ht]
    have hr : hasPrefix (List.drop s.pos.toNat s.input) s.d.right = true := by
      rcases he with he | he
      · exact absurd he ht
      · exact he
    have hfit := prefix_fits inp s.pos s.d.right h.pos0 h.posLen (by rw [← h.input]; exact hr)
    refine Ok.bind (ok_modify _ s) ?_
    intro _ s5 e5
    have hb5 : B inp d s.start s5 := by rw [e5]; exact h.setPos _ (by have := h.startPos; omega) hfit
    refine Ok.bind (emit_ok _ s5 hb5) ?_
    intro _ s6 h6
    refine Steps.of (lo' := s.start + 1) (goes_text (h6.1.relo _ ?_)) (by simp [delta])
    rw [h6.2.1, e5]
    show s.start + 1 ≤ s.pos + _
    have := h.startPos
    omega

/-! ### loops that only read on -/

/-- `next` never moves the cursor backwards -/
theorem pos_next_le {s s1 : St} {lo' : Int} (hn : N inp d lo s1)
    (hs1 : s1 = { s with width := (runeAt s).2, pos := s.pos + (runeAt s).2 }) (hp : lo' ≤ s.pos) : lo' ≤ s1.pos := by
  have := hn.width0
  rw [hs1] at this ⊢
  simp only at this ⊢
  omega

theorem rawQuoteLoop_ok (lo' : Int) : ∀ (fuel : Nat) (s : St), B inp d lo s → lo' ≤ s.pos → rem s < fuel →
    Ok (rawQuoteLoop fuel s) (fun r s' => Goes inp d lo r s' ∧ (r ≠ none → lo' ≤ s'.start))
  | 0, _, _, _, hr => by omega
  | fuel + 1, s, h, hp, hr => by
    unfold rawQuoteLoop
    refine Ok.bind (next_ok s h) ?_
    intro r s1 h1
    obtain ⟨hr1, hs1, hn⟩ := h1
    have hp1 := pos_next_le hn hs1 hp
    cases r with
    | none => exact (errorf_ok _ s1 hn.toB).mono (fun r s' h => ⟨⟨h.2.1, by intro st hst; rw [h.1] at hst; cases hst⟩, fun hne => absurd h.1 hne⟩)
    | some c =>
      simp only
      have := rem_next s h (by rw [← hr1]; rfl)
      rw [← hs1] at this
      split
      · refine Ok.bind (emit_ok _ s1 hn.toB) ?_
        intro _ s2 h2
        exact ⟨goes_inside_emit h2, fun _ => by rw [h2.2.1]; exact hp1⟩
      · exact rawQuoteLoop_ok lo' fuel s1 hn.toB hp1 (by omega)

theorem quotedLoop_ok (q : Nat) (t : Tok) (ht : t ≠ Tok.field) (msg : String) (lo' : Int) : ∀ (fuel : Nat) (s : St), B inp d lo s → lo' ≤ s.pos → rem s < fuel →
    Ok (quotedLoop q t msg fuel s) (fun r s' => Goes inp d lo r s' ∧ (r ≠ none → lo' ≤ s'.start))
  | 0, _, _, _, hr => by omega
  | fuel + 1, s, h, hp, hr => by
    have err : ∀ s', B inp d lo s' → Ok (errorf msg s') (fun r s' => Goes inp d lo r s' ∧ (r ≠ none → lo' ≤ s'.start)) := fun s' hb =>
      (errorf_ok _ s' hb).mono (fun r s'' h => ⟨⟨h.2.1, by intro st hst; rw [h.1] at hst; cases hst⟩, fun hne => absurd h.1 hne⟩)
    unfold quotedLoop
    refine Ok.bind (next_ok s h) ?_
    intro r s1 h1
    obtain ⟨hr1, hs1, hn⟩ := h1
    have hp1 := pos_next_le hn hs1 hp
    cases r with
    | none => exact err s1 hn.toB
    | some c =>
      simp only
      have hrem := rem_next s h (by rw [← hr1]; rfl)
      rw [← hs1] at hrem
      split
      · refine Ok.bind (next_ok s1 hn.toB) ?_
        intro r2 s2 h2
        obtain ⟨hr2, hs2, hn2⟩ := h2
        have hp2 := pos_next_le hn2 hs2 hp1
        cases r2 with
        | none => exact err s2 hn2.toB
        | some c2 =>
          simp only
          have hrem2 := rem_next s1 hn.toB (by rw [← hr2]; rfl)
          rw [← hs2] at hrem2
          split
          · exact err s2 hn2.toB
          · exact quotedLoop_ok q t ht msg lo' fuel s2 hn2.toB hp2 (by omega)
      · split
        · exact err s1 hn.toB
        · split
          · refine Ok.bind (emit_ok _ s1 hn.toB ht) ?_
            intro _ s2 h2
            exact ⟨goes_inside_emit h2, fun _ => by rw [h2.2.1]; exact hp1⟩
          · exact quotedLoop_ok q t ht msg lo' fuel s1 hn.toB hp1 (by omega)

theorem rem_lt_fuelOf (s : St) (h : B inp d lo s) : rem s < fuelOf s := by
  unfold rem fuelOf
  have := h.pos0
  omega

/-- a loop that leaves `start` at `lo'` or beyond whenever it selects a next state has moved it by
    `delta` at least -/
theorem steps_of_loop {st : StateId} {s : St} {r : Option StateId} {s' : St}
    (h : Goes inp d lo r s' ∧ (r ≠ none → s.start + 1 ≤ s'.start)) (hmono : s.start ≤ s'.start) : Steps inp d st s r s' := by
  refine ⟨h.1.1.relo _ ?_, h.1.2⟩
  cases r with
  | none => rw [delta_none]; omega
  | some x => have := h.2 (by simp); have := delta_le_one st (some x); omega

theorem lexChar_ok (s : St) (h : B inp d lo s) (he : Entry .char s) : Ok (lexChar s) (Steps inp d .char s) := by
  unfold lexChar
  rw [lbind_apply, get_apply]
  refine (quotedLoop_ok _ _ (by decide) _ (s.start + 1) _ s (h.relo s.start (Int.le_refl _)) (by have : s.start < s.pos := he; omega) (rem_lt_fuelOf s h)).mono ?_
  intro r s' hr
  exact steps_of_loop hr hr.1.1.low

theorem lexQuote_ok (s : St) (h : B inp d lo s) (he : Entry .quote s) : Ok (lexQuote s) (Steps inp d .quote s) := by
  unfold lexQuote
  rw [lbind_apply, get_apply]
  refine (quotedLoop_ok _ _ (by decide) _ (s.start + 1) _ s (h.relo s.start (Int.le_refl _)) (by have : s.start < s.pos := he; omega) (rem_lt_fuelOf s h)).mono ?_
  intro r s' hr
  exact steps_of_loop hr hr.1.1.low

theorem lexRawQuote_ok (s : St) (h : B inp d lo s) (he : Entry .rawQuote s) : Ok (lexRawQuote s) (Steps inp d .rawQuote s) := by
  unfold lexRawQuote
  rw [lbind_apply, get_apply]
  refine (rawQuoteLoop_ok (s.start + 1) _ s (h.relo s.start (Int.le_refl _)) (by have : s.start < s.pos := he; omega) (rem_lt_fuelOf s h)).mono ?_
  intro r s' hr
  exact steps_of_loop hr hr.1.1.low

/-! ### numbers and fields -/

theorem scanTail3_ok (s : St) (h : B inp d lo s) : Ok ((do
    let _ ← accept [105]
    let p ← peek
    if isAlphaNumeric p = true then do
        let _ ← next
        pure false
      else pure true : M Bool) s) (fun _ s' => B inp d lo s' ∧ s.pos ≤ s'.pos) := by
  refine Ok.bind (accept_ok _ s h) ?_
  intro _ s1 h1
  refine Ok.bind (peek_ok s1 h1.1) ?_
  intro p s2 h2
  have hp2 : s2.pos = s1.pos := by rw [h2.2.1]
  split
  · refine Ok.bind (next_ok s2 h2.2.2) ?_
    intro _ s3 h3
    have := pos_next_le (lo' := s2.pos) h3.2.2 h3.2.1 (Int.le_refl _)
    exact ⟨h3.2.2.toB, by have := h1.2.2.1; omega⟩
  · exact ⟨h2.2.2, by have := h1.2.2.1; omega⟩

theorem scanTail2_ok (s : St) (h : B inp d lo s) : Ok ((do
    let e ← accept [101, 69]
    if e = true then do
        let _ ← accept [43, 45]
        acceptRun digits10
        let _ ← accept [105]
        let p ← peek
        if isAlphaNumeric p = true then do
            let _ ← next
            pure false
          else pure true
      else do
        let _ ← accept [105]
        let p ← peek
        if isAlphaNumeric p = true then do
            let _ ← next
            pure false
          else pure true : M Bool) s) (fun _ s' => B inp d lo s' ∧ s.pos ≤ s'.pos) := by
  refine Ok.bind (accept_ok _ s h) ?_
  intro e s1 h1
  split
  · refine Ok.bind (accept_ok _ s1 h1.1) ?_
    intro _ s2 h2
    refine Ok.bind (acceptRun_ok _ s2 h2.1) ?_
    intro _ s3 h3
    refine (scanTail3_ok s3 h3.1).mono ?_
    intro _ s' h'
    exact ⟨h'.1, by have := h1.2.2.1; have := h2.2.2.1; have := h3.2.1; have := h'.2; omega⟩
  · refine (scanTail3_ok s1 h1.1).mono ?_
    intro _ s' h'
    exact ⟨h'.1, by have := h1.2.2.1; have := h'.2; omega⟩

theorem runeIn_digit (hex : Bool) (c : Nat) (h0 : 48 ≤ c) (h1 : c ≤ 57) :
    runeIn (if hex = true then digits16 else digits10) (some c) = true := by
  have : c = 48 ∨ c = 49 ∨ c = 50 ∨ c = 51 ∨ c = 52 ∨ c = 53 ∨ c = 54 ∨ c = 55 ∨ c = 56 ∨ c = 57 := by omega
  cases hex <;> rcases this with rfl | rfl | rfl | rfl | rfl | rfl | rfl | rfl | rfl | rfl <;> decide

theorem runeIn_dot (hex : Bool) : runeIn (if hex = true then digits16 else digits10) (some 46) = false := by
  cases hex <;> decide

/-- `scanNumber` does not crash, never moves backwards, and entered on a sign, a dot or a digit it
    consumes at least that rune -/
theorem scanNumber_ok (s : St) (h : B inp d lo s) :
    Ok (scanNumber s) (fun _ s' => B inp d lo s' ∧ (Entry .number s → s.pos + 1 ≤ s'.pos)) := by
  unfold scanNumber
  simp only []
  refine Ok.bind (accept_ok _ s h) ?_
  intro a1 s1 h1
  refine Ok.bind (accept_ok _ s1 h1.1) ?_
  intro z s2 h2
  refine Ok.bind (Q := fun _ s' => B inp d lo s' ∧ s2.pos ≤ s'.pos) ?_ ?_
  · split
    · exact (accept_ok _ s2 h2.1).mono (fun _ s' h' => ⟨h'.1, h'.2.2.1⟩)
    · exact ⟨h2.1, Int.le_refl _⟩
  intro hex s3 h3
  refine Ok.bind (acceptRun_ok _ s3 h3.1) ?_
  intro _ s4 h4
  refine Ok.bind (accept_ok _ s4 h4.1) ?_
  intro dot s5 h5
  -- everything after the dot only moves forward
  have tailQ : ∀ (r : Bool) s', (B inp d lo s' ∧ s5.pos ≤ s'.pos) → B inp d lo s' ∧ (Entry .number s → s.pos + 1 ≤ s'.pos) := by
    intro r s' h'
    refine ⟨h'.1, ?_⟩
    intro he
    obtain ⟨c, hc, hcase⟩ := he
    have m1 := h1.2.2.1; have m2 := h2.2.2.1; have m3 := h3.2; have m4 := h4.2.1; have m5 := h5.2.2.1; have m6 := h'.2
    -- the first accept
    by_cases c1 : a1 = true
    · have := h1.2.2.2.1 c1; omega
    have c1' : a1 = false := by simpa using c1
    have p1 := h1.2.2.2.2 c1'
    have r1 : runeAt s1 = runeAt s := runeAt_congr s1 s (by rw [h1.1.input, h.input]) p1
    by_cases c2 : z = true
    · have := h2.2.2.2.1 c2; omega
    have c2' : z = false := by simpa using c2
    have p2 := h2.2.2.2.2 c2'
    have r2 : runeAt s2 = runeAt s := by
      rw [runeAt_congr s2 s1 (by rw [h2.1.input, h1.1.input]) p2, r1]
    by_cases c3 : s3.pos = s2.pos
    · have r3 : runeAt s3 = runeAt s := by
        rw [runeAt_congr s3 s2 (by rw [h3.1.input, h2.1.input]) c3, r2]
      -- which rune is it
      have hn1 : runeIn [43, 45] (some c) = false := by rw [← hc, ← c1']; exact h1.2.1.symm
      have hn2 : runeIn [48] (some c) = false := by rw [← hc, ← r1, ← c2']; exact h2.2.1.symm
      rcases hcase with rfl | rfl | rfl | ⟨d0, d1⟩
      · simp [runeIn] at hn1
      · simp [runeIn] at hn1
      · -- a dot: the digit run takes nothing, the dot is accepted
        have p4 := h4.2.2.2 (by rw [r3, hc]; exact runeIn_dot hex)
        have r4 : runeAt s4 = runeAt s := by
          rw [runeAt_congr s4 s3 (by rw [h4.1.input, h3.1.input]) p4, r3]
        have hd : dot = true := by rw [h5.2.1, r4, hc]; decide
        have := h5.2.2.2.1 hd
        omega
      · have := h4.2.2.1 (by rw [r3, hc]; exact runeIn_digit hex c d0 d1)
        omega
    · omega
  split
  · refine Ok.bind (acceptRun_ok _ s5 h5.1) ?_
    intro _ s6 h6
    refine (scanTail2_ok s6 h6.1).mono ?_
    intro r s' h'
    exact tailQ r s' ⟨h'.1, by have := h6.2.1; have := h'.2; omega⟩
  · exact (scanTail2_ok s5 h5.1).mono tailQ

theorem goes_none {s' : St} (h : B inp d lo s') : Goes inp d lo none s' := ⟨h, by intro st hst; cases hst⟩

theorem errorf_goes (msg : String) (s : St) (h : B inp d lo s) : Ok (errorf msg s) (Goes inp d lo) :=
  (errorf_ok msg s h).mono (fun r s' h => ⟨h.2.1, by intro st hst; rw [h.1] at hst; cases hst⟩)

/-- an error ends the scan: nothing is asked of `start` -/
theorem errorf_steps {lo' : Int} (st : StateId) (s0 : St) (msg : String) (s : St) (h : B inp d lo' s) (hl : s0.start ≤ lo') :
    Ok (errorf msg s) (Steps inp d st s0) :=
  (errorf_ok msg s h).mono (fun r s' h' => Steps.of (lo' := lo')
    ⟨h'.2.1, by intro st hst; rw [h'.1] at hst; cases hst⟩ (by rw [h'.1, delta_none]; omega))

theorem lexNumber_ok (s : St) (h : B inp d lo s) (he : Entry .number s) : Ok (lexNumber s) (Steps inp d .number s) := by
  have h := h.relo s.start (Int.le_refl _)
  unfold lexNumber
  refine Ok.bind (scanNumber_ok s h) ?_
  intro okNum s1 h1
  split
  · exact errorf_steps _ s _ s1 h1.1 (Int.le_refl _)
  · refine Ok.bind (emit_ok _ s1 h1.1) ?_
    intro _ s2 h2
    refine Steps.of (lo' := s.start + 1) (goes_inside_emit ⟨h2.1.relo _ ?_, h2.2⟩) (by simp [delta])
    rw [h2.2.1]
    have := h1.2 he
    have := h.startPos
    omega

theorem lexFieldLoop_ok : ∀ (fuel : Nat) (s : St), B inp d lo s → rem s < fuel →
    Ok (lexFieldLoop fuel s) (fun _ s' => B inp d lo s' ∧ s'.start = s.start ∧ s.pos ≤ s'.pos)
  | 0, _, _, hr => by omega
  | fuel + 1, s, h, hr => by
    unfold lexFieldLoop
    refine Ok.bind (next_ok s h) ?_
    intro r s1 h1
    obtain ⟨hr1, hs1, hn⟩ := h1
    have hbnd := runeAt_bounds s h.pos0 (by rw [h.input]; exact h.posLen)
    have hst1 : s1.start = s.start := by rw [hs1]
    have hp1 : s1.pos = s.pos + (runeAt s).2 := by rw [hs1]
    split
    · rename_i hal
      have hsome : (runeAt s).1.isSome := by
        rw [← hr1]; cases r with
        | none => simp [isAlphaNumeric] at hal
        | some c => rfl
      have := rem_next s h hsome
      rw [← hs1] at this
      refine (lexFieldLoop_ok fuel s1 hn.toB (by omega)).mono ?_
      intro _ s' h'
      exact ⟨h'.1, by rw [h'.2.1, hst1], by have := h'.2.2; have := hbnd.1; omega⟩
    · refine (backup_ok s1 hn).mono ?_
      intro _ s' h'
      refine ⟨h'.1, by rw [h'.2, hst1], ?_⟩
      rw [h'.2]
      show s.pos ≤ s1.pos - s1.width
      rw [hs1]
      show s.pos ≤ s.pos + (runeAt s).2 - (runeAt s).2
      omega

theorem termVal_congr (s t : St) (hi : s.input = t.input) (hp : s.pos = t.pos) (hd : s.d = t.d) :
    termVal s = termVal t := by
  unfold termVal
  rw [runeAt_congr s t hi hp, hd]

/-- two or more pending bytes, the first of them a dot -/
theorem pending_field (s : St) (h : B inp d lo s) (tl : Bytes) (hdot : s.input.drop s.start.toNat = 46 :: tl)
    (hlen : s.start + 2 ≤ s.pos) : ∃ c cs, pending s = 46 :: c :: cs := by
  unfold pending
  rw [hdot]
  have hl : ((46 :: tl : Bytes).length : Int) = s.input.length - s.start := by
    have hpl' : s.pos ≤ s.input.length := by rw [h.input]; exact h.posLen
    rw [← hdot, List.length_drop]; have := h.start0; have := h.startPos; omega
  have hpl : s.pos ≤ s.input.length := by rw [h.input]; exact h.posLen
  obtain ⟨k, hk⟩ : ∃ k : Nat, (s.pos - s.start).toNat = k + 2 := ⟨(s.pos - s.start).toNat - 2, by omega⟩
  rw [hk]
  cases tl with
  | nil => simp at hl; omega
  | cons c cs => exact ⟨c, cs.take k, by simp [List.take]⟩

theorem lexField_ok (s : St) (h : B inp d lo s) (he : Entry .field s) : Ok (lexField s) (Steps inp d .field s) := by
  obtain ⟨hsp, tl, hdot⟩ := he
  have h := h.relo s.start (Int.le_refl _)
  unfold lexField
  refine Ok.bind (atTerminator_ok s h) ?_
  intro t s1 h1
  obtain ⟨hs1, hb1, ht⟩ := h1
  by_cases htt : t = true
  · rw [if_pos htt]
    refine Ok.bind (emit_ok _ s1 hb1) ?_
    intro _ s2 h2
    refine Steps.of (lo' := s.start + 1) (goes_inside_emit ⟨h2.1.relo _ ?_, h2.2⟩) (by simp [delta])
    rw [h2.2.1, hs1]
    show s.start + 1 ≤ s.pos
    omega
  · rw [if_neg htt]
    refine Ok.bind (ok_get s1) ?_
    intro g s2 e2
    obtain ⟨rfl, rfl⟩ := e2
    refine Ok.bind (lexFieldLoop_ok _ s1 hb1 (rem_lt_fuelOf s1 hb1)) ?_
    intro _ s3 h3
    obtain ⟨hb3, hst3, hp3⟩ := h3
    refine Ok.bind (atTerminator_ok s3 hb3) ?_
    intro t2 s4 h4
    obtain ⟨hs4, hb4, ht2⟩ := h4
    by_cases ht2t : (!t2) = true
    · rw [if_pos ht2t]
      exact errorf_steps _ s _ s4 hb4 (Int.le_refl _)
    · rw [if_neg ht2t]
      have hp1 : s1.pos = s.pos := by rw [hs1]
      have hst1 : s1.start = s.start := by rw [hs1]
      -- the loop moved: otherwise the second answer would be the first
      have hmoved : s.pos < s3.pos := by
        by_cases hlt : s.pos < s3.pos
        · exact hlt
        · exfalso
          have hpe : s3.pos = s.pos := by omega
          have : termVal s3 = termVal s :=
            termVal_congr s3 s (by rw [hb3.input, h.input]) hpe (by rw [hb3.delims, h.delims])
          rw [ht2, this, ← ht] at ht2t
          cases t <;> simp_all
      have hst4 : s4.start = s.start := by rw [hs4]; show s3.start = s.start; rw [hst3, hst1]
      have hp4 : s4.pos = s3.pos := by rw [hs4]
      have hi4 : s4.input = s.input := by rw [hb4.input, h.input]
      refine Ok.bind (emit_ok' Tok.field s4 hb4 (fun _ => pending_field s4 hb4 tl (by rw [hi4, hst4]; exact hdot) (by rw [hst4, hp4]; omega))) ?_
      intro _ s5 h5
      refine Steps.of (lo' := s.start + 1) (goes_inside_emit ⟨h5.1.relo _ ?_, h5.2⟩) (by simp [delta])
      rw [h5.2.1, hp4]
      omega

/-! ### spaces -/

/-- one more byte read: the pending text grows by that byte -/
theorem pending_snoc (s : St) (h : B inp d lo s) (b : UInt8) (tl : Bytes) (w : Int)
    (hd : s.input.drop s.pos.toNat = b :: tl) :
    pending { s with width := w, pos := s.pos + 1 } = pending s ++ [b] := by
  unfold pending
  simp only
  have hk : (s.pos + 1 - s.start).toNat = (s.pos - s.start).toNat + 1 := by have := h.startPos; omega
  rw [hk, List.take_add, List.drop_drop]
  have hsp : s.start.toNat + (s.pos - s.start).toNat = s.pos.toNat := by have := h.startPos; have := h.start0; omega
  rw [hsp, hd]
  simp

/-- a cursor moved back inside the pending text leaves a prefix of it -/
theorem pending_shrink (s : St) (p : Int) (hp : p ≤ s.pos) :
    pending { s with pos := p } = (pending s).take (p - s.start).toNat := by
  unfold pending
  simp only
  rw [List.take_take]
  congr 1
  omega


theorem runeAt_width_frame (s : St) (w : Int) : runeAt { s with width := w } = runeAt s := rfl

theorem isSpace_some {r : Option Nat} (h : isSpace r = true) : r.isSome := by
  cases r with
  | none => simp [isSpace] at h
  | some c => rfl

theorem lexSpaceLoop_ok : ∀ (fuel : Nat) (s : St) (n : Nat), B inp d lo s → s.start < s.pos → AllSpace (pending s) → rem s < fuel →
    Ok (lexSpaceLoop fuel n s) (fun _ s' => B inp d lo s' ∧ s'.start < s'.pos ∧ s'.width = (runeAt s').2 ∧
      s'.start = s.start ∧ s.pos ≤ s'.pos ∧ AllSpace (pending s'))
  | 0, _, _, _, _, _, hr => by omega
  | fuel + 1, s, n, h, hlt, hps, hr => by
    unfold lexSpaceLoop
    refine Ok.bind (peek_ok s h) ?_
    intro r s1 h1
    obtain ⟨hr1, hs1, hb1⟩ := h1
    split
    · rename_i hsp
      refine Ok.bind (next_ok s1 hb1) ?_
      intro r2 s2 h2
      obtain ⟨_, hs2, hn2⟩ := h2
      have hra : runeAt s1 = runeAt s := by rw [hs1]; rfl
      have hsome : (runeAt s).1.isSome := by rw [← hr1]; exact isSpace_some hsp
      have hrem := rem_next s h hsome
      have hb := runeAt_bounds s h.pos0 (by rw [h.input]; exact h.posLen)
      have hw := hb.2.2.1 hsome
      have e2 : s2.pos = s.pos + (runeAt s).2 := by rw [hs2, hra, hs1]
      have e2s : s2.start = s.start := by rw [hs2, hs1]
      have e2i : s2.input = s.input := by rw [hs2, hs1]
      have hps2 : AllSpace (pending s2) := by
        obtain ⟨c, hc⟩ : ∃ c, (runeAt s).1 = some c := Option.isSome_iff_exists.mp hsome
        obtain ⟨b, tl, hdrop, hrune⟩ := runeAt_byte s h.pos0 c hc
        have hsc : isSpace (some c) = true := by rw [← hc, ← hr1]; exact hsp
        have hcs : c < 128 := by simp only [isSpace, Bool.or_eq_true, beq_iff_eq] at hsc; omega
        have hw1' : (runeAt s).2 = 1 := runeAt_ascii s c h.pos0 hc hcs
        have : pending s2 = pending s ++ [b] := by
          rw [hs2, hra, hs1, hw1']
          exact pending_snoc s h b tl _ hdrop
        rw [this]
        exact hps.snoc b (byte_of_space_rune b tl c hrune hsc)
      refine (lexSpaceLoop_ok fuel s2 (n + 1) hn2.toB (by rw [e2, e2s]; omega) hps2 ?_).mono ?_
      · unfold rem at hrem hr ⊢
        rw [e2, e2i]
        simp only at hrem
        omega
      · intro _ s' h'
        exact ⟨h'.1, h'.2.1, h'.2.2.1, by rw [h'.2.2.2.1, e2s], by have := h'.2.2.2.2.1; omega, h'.2.2.2.2.2⟩
    · refine ⟨hb1, by rw [hs1]; exact hlt, ?_, by rw [hs1], by rw [hs1]; exact Int.le_refl _, by rw [hs1]; exact hps⟩
      rw [hs1]
      rfl

theorem drop_succ_of_prefix (inp : Bytes) (p : Nat) (a b : UInt8) (r : Bytes) (hp : 1 ≤ p)
    (h : hasPrefix (inp.drop (p - 1)) (a :: b :: r) = true) : ∃ tl, inp.drop p = b :: tl := by
  cases hd : inp.drop (p - 1) with
  | nil => rw [hd] at h; simp [hasPrefix] at h
  | cons x xs =>
    rw [hd] at h
    simp [hasPrefix] at h
    cases xs with
    | nil => simp [hasPrefix] at h
    | cons y ys =>
      simp [hasPrefix] at h
      refine ⟨ys, ?_⟩
      have e : p = (p - 1) + 1 := by omega
      rw [e, ← List.drop_drop, hd]
      simp [h.2.1]

theorem lexSpace_ok (s : St) (h : B inp d lo s) (he : Entry .space s) : Ok (lexSpace s) (Steps inp d .space s) := by
  have h := h.relo s.start (Int.le_refl _)
  obtain ⟨hsp, hnp, hpend⟩ := he
  unfold lexSpace
  refine Ok.bind (ok_get s) ?_
  intro g s0 e0
  obtain ⟨rfl, rfl⟩ := e0
  refine Ok.bind (lexSpaceLoop_ok _ s 0 h (by omega) hpend (rem_lt_fuelOf s h)) ?_
  intro numSpaces s1 h1
  obtain ⟨hb1, hlt1, hw1, hst1, hpm1, hps1⟩ := h1
  refine Ok.bind (ok_get s1) ?_
  intro g1 s2 e2
  obtain ⟨rfl, rfl⟩ := e2
  have hp1 : 0 ≤ s1.pos - 1 := by have := hb1.start0; omega
  refine Ok.bind (ok_restAt s1 hb1 (s1.pos - 1) hp1 (by have := hb1.posLen; omega)) ?_
  intro r s3 e3
  obtain ⟨rfl, rfl⟩ := e3
  refine Ok.bind (Q := fun g s' => B inp d s.start s' ∧ (g = true → hasPrefix (rest s') s'.d.trimRight = true) ∧
      s.start + 1 ≤ s'.pos ∧ AllSpace (pending s')) ?_ ?_
  · by_cases hp : hasPrefix (List.drop (s1.pos - 1).toNat s1.input) s1.d.trimRight = true
    · rw [if_pos hp]
      -- the loop moved: at the entry position the caller had found no trim marker
      have hmoved : s.pos + 1 ≤ s1.pos := by
        by_cases hm : s.pos + 1 ≤ s1.pos
        · exact hm
        · exfalso
          have hpe : s1.pos - 1 = s.start := by omega
          rw [hpe, hb1.input, ← h.input, hb1.delims, ← h.delims, hnp] at hp
          exact Bool.noConfusion hp
      have htr : s1.d.trimRight = rightTrimMarker ++ s1.d.right := by rw [hb1.delims]; exact hb1.wfd.trimRight
      have hp' := hp
      rw [htr] at hp'
      simp only [rightTrimMarker, List.cons_append, List.nil_append] at hp'
      have hpn : (s1.pos - 1).toNat = s1.pos.toNat - 1 := by omega
      rw [hpn] at hp'
      obtain ⟨tl, htl⟩ := drop_succ_of_prefix s1.input s1.pos.toNat 32 45 s1.d.right (by have := hb1.start0; omega) hp'
      have hwidth : s1.width = 1 := by
        rw [hw1]
        unfold runeAt
        have hlen : ¬ s1.pos ≥ s1.input.length := by
          intro hge
          have : (s1.input.drop s1.pos.toNat).length = s1.input.length - s1.pos.toNat := List.length_drop
          rw [htl] at this; simp at this; omega
        simp only [hlen, if_false]
        rw [htl]
        simp [decodeRune]
      refine Ok.bind (Q := fun _ s' => B inp d s.start s' ∧ hasPrefix (rest s') s'.d.trimRight = true ∧ s.start + 1 ≤ s'.pos ∧
          AllSpace (pending s')) ?_ ?_
      · rw [backup_eq]
        refine ⟨hb1.setPos _ (by rw [hwidth]; omega) (by rw [hwidth]; have := hb1.posLen; omega), ?_, ?_, ?_⟩
        · show hasPrefix (List.drop (s1.pos - s1.width).toNat s1.input) s1.d.trimRight = true
          rw [hwidth]; exact hp
        · show s.start + 1 ≤ s1.pos - s1.width
          rw [hwidth]; omega
        · rw [pending_shrink s1 _ (by rw [hwidth]; omega)]
          exact hps1.take _
      · intro _ s4 h4
        exact ⟨h4.1, fun _ => h4.2.1, h4.2.2.1, h4.2.2.2⟩
    · rw [if_neg hp]
      exact ⟨hb1, fun hc => by simp at hc, by omega, hps1⟩
  intro goRight s5 h5
  split
  · rename_i hg
    exact Steps.of (lo' := s.start) ⟨h5.1, by intro st hst; cases hst; exact ⟨Or.inl (h5.2.1 hg), h5.2.2.2⟩⟩ (by simp [delta])
  · refine Ok.bind (emit_ok _ s5 h5.1) ?_
    intro _ s6 h6
    refine Steps.of (lo' := s.start + 1) (goes_inside_emit ⟨h6.1.relo _ ?_, h6.2⟩) (by simp [delta])
    rw [h6.2.1]
    exact h5.2.2.1

/-! ### identifiers -/

theorem slice_ok (inp : Bytes) (a b : Int) (h0 : 0 ≤ a) (h1 : a ≤ b) (h2 : b ≤ inp.length) :
    ∃ w, slice inp a b = some w ∧ (w.length : Int) = b - a := by
  refine ⟨(inp.drop a.toNat).take (b - a).toNat, ?_, ?_⟩
  · simp [slice, h0, h1, h2]
  · rw [List.length_take, List.length_drop]; omega

theorem emitWord_ok (kw : Option Tok) (word : Bytes) (s : St) (h : B inp d lo s) :
    (∀ t, kw = some t → t ≠ Tok.field) → (∃ c rest, word = c :: rest ∧ c ≠ 46) →
    Ok ((match kw with
      | some t => emit t
      | none =>
        match word with
        | [] => crash "index out of range [0] with length 0"
        | c :: _ =>
          if c == 46 then emit Tok.field
          else if word == wordTrue || word == wordFalse then emit Tok.bool
          else emit Tok.identifier : M Unit) s)
      (fun _ s' => B inp d lo s' ∧ s'.start = s.pos ∧ s'.pos = s.pos ∧ s'.width = s.width ∧ s'.parenDepth = s.parenDepth) := by
  intro hkw hw
  cases kw with
  | some t => exact emit_ok _ s h (hkw t rfl)
  | none =>
    obtain ⟨c, rest, rfl, hc⟩ := hw
    simp only
    have hc' : ¬ (c == 46) = true := by simpa using hc
    rw [if_neg hc']
    split
    · exact emit_ok _ s h
    · exact emit_ok _ s h

theorem lexIdentifierLoop_ok : ∀ (fuel : Nat) (s : St), B inp d lo s → Entry .identifier s → rem s < fuel →
    Ok (lexIdentifierLoop fuel s) (fun r s' => Goes inp d lo r s' ∧ (r ≠ none → s.start + 1 ≤ s'.start))
  | 0, _, _, _, hr => by omega
  | fuel + 1, s, h, he, hr => by
    obtain ⟨⟨b0, tl0, hfirst, hb0⟩, he⟩ := he
    unfold lexIdentifierLoop
    refine Ok.bind (next_ok s h) ?_
    intro r s1 h1
    obtain ⟨hr1, hs1, hn⟩ := h1
    have hbnd := runeAt_bounds s h.pos0 (by rw [h.input]; exact h.posLen)
    split
    · rename_i hal
      have hsome : (runeAt s).1.isSome := by
        rw [← hr1]; cases r with
        | none => simp [isAlphaNumeric] at hal
        | some c => rfl
      have hrem := rem_next s h hsome
      rw [← hs1] at hrem
      have hw := hbnd.2.2.1 hsome
      have hst1 : s1.start = s.start := by rw [hs1]
      refine (lexIdentifierLoop_ok fuel s1 hn.toB ⟨⟨b0, tl0, by rw [hs1]; exact hfirst, hb0⟩, Or.inl ?_⟩ (by omega)).mono
        (fun r s' h' => ⟨h'.1, fun hne => by have := h'.2 hne; omega⟩)
      rw [hs1]; show s.start < s.pos + (runeAt s).2
      have := h.startPos; omega
    · rename_i hal
      have hlt : s.start < s.pos := by
        rcases he with he | ⟨c, hc, hca⟩
        · exact he
        · exfalso; rw [hr1, hc] at hal; exact hal hca
      refine Ok.bind (backup_ok s1 hn) ?_
      intro _ s2 h2
      obtain ⟨hb2, hs2⟩ := h2
      have hp2 : s2.pos = s.pos := by rw [hs2, hs1]; show s.pos + (runeAt s).2 - (runeAt s).2 = s.pos; omega
      have hst2 : s2.start = s.start := by rw [hs2, hs1]
      refine Ok.bind (ok_get s2) ?_
      intro g s3 e3
      obtain ⟨rfl, rfl⟩ := e3
      obtain ⟨word, hword, hwl⟩ := slice_ok inp s2.start s2.pos hb2.start0 hb2.startPos hb2.posLen
      have hwordeq : word = (inp.drop s2.start.toNat).take (s2.pos - s2.start).toNat := by
        simp [slice, hb2.start0, hb2.startPos, hb2.posLen] at hword
        exact hword.symm
      rw [hb2.input, hword]
      simp only
      refine Ok.bind (atTerminator_ok s2 hb2) ?_
      intro term s4 h4
      split
      · exact (errorf_ok _ s4 h4.2.1).mono (fun r s' h' =>
          ⟨⟨h'.2.1, by intro st hst; rw [h'.1] at hst; cases hst⟩, fun hne => absurd h'.1 hne⟩)
      · refine Ok.bind (emitWord_ok _ word s4 h4.2.1 ?_ ?_) (fun _ s5 h5 => ⟨goes_inside_emit h5, fun _ => by
          rw [h5.2.1, h4.1]; show s.start + 1 ≤ s2.pos; omega⟩)
        · intro t ht
          split at ht
          · rename_i t' _
            split at ht
            · rename_i hgt
              simp at ht; subst ht
              intro hf; rw [hf] at hgt; exact kw_not_field hgt
            · simp at ht
          · simp at ht
        · obtain ⟨k, hk⟩ : ∃ k : Nat, (s2.pos - s.start).toNat = k + 1 := ⟨(s2.pos - s.start).toNat - 1, by omega⟩
          refine ⟨b0, tl0.take k, ?_, hb0⟩
          rw [hwordeq, hst2, ← h.input, hfirst, hk]
          simp [List.take]

theorem lexIdentifier_ok (s : St) (h : B inp d lo s) (he : Entry .identifier s) : Ok (lexIdentifier s) (Steps inp d .identifier s) := by
  unfold lexIdentifier
  rw [lbind_apply, get_apply]
  refine (lexIdentifierLoop_ok _ s (h.relo s.start (Int.le_refl _)) he (rem_lt_fuelOf s h)).mono ?_
  intro r s' hr
  exact steps_of_loop hr hr.1.1.low

/-! ### text -/

theorem indexByte_lt : ∀ (a : Bytes) (c : UInt8) (k : Nat), indexByte a c = some k → k < a.length
  | [], _, _, h => by simp [indexByte] at h
  | x :: xs, c, k, h => by
    simp only [indexByte] at h
    split at h
    · simp at h; subst h; simp
    · cases hi : indexByte xs c with
      | none => rw [hi] at h; simp at h
      | some j =>
        rw [hi] at h; simp at h; subst h
        have := indexByte_lt xs c j hi
        simp; omega

theorem textScanIndex_lt (rest : Bytes) (ld lc : UInt8) (i : Nat) (h : textScanIndex rest ld lc = some i) :
    i < rest.length := by
  unfold textScanIndex at h
  cases hc : indexByte rest lc with
  | none =>
    rw [hc] at h
    simp only at h
    exact indexByte_lt rest ld i h
  | some c =>
    rw [hc] at h
    cases hk : indexByte rest ld with
    | none => rw [hk] at h; simp at h; subst h; exact indexByte_lt rest lc c hc
    | some k =>
      rw [hk] at h
      simp only at h
      split at h
      · simp at h; subst h; exact indexByte_lt rest lc c hc
      · simp at h; subst h; exact indexByte_lt rest ld k hk

theorem rightTrimLength_le (b : Bytes) : rightTrimLength b ≤ b.length := by
  unfold rightTrimLength
  have := length_takeWhile_le isSpaceByte b.reverse
  simpa using this

theorem firstByte_ok (b : Bytes) (hb : b ≠ []) (s : St) : Ok (firstByte b s) (fun _ s' => s = s') := by
  cases b with
  | nil => exact (hb rfl).elim
  | cons c rest => rfl

/-- the states `lexText` hands over to -/
def TextNext (r : Option StateId) : Prop := r = none ∨ r = some .leftDelim ∨ r = some .comment

theorem drop_take_tail (l : Bytes) (a n k : Nat) (hk : k ≤ n) :
    ((l.drop a).take n).drop (n - k) = (l.drop (a + n - k)).take k := by
  rw [List.drop_take, List.drop_drop]
  congr 1
  · omega
  · congr 1; omega

/-- the last `rightTrimLength` bytes of a text are spaces, tabs, CRs and LFs -/
theorem rightTrim_tail_space (seg : Bytes) : AllSpace (seg.drop (seg.length - rightTrimLength seg)) := by
  intro c hc
  have hle := rightTrimLength_le seg
  have h1 : (seg.drop (seg.length - rightTrimLength seg)).reverse = seg.reverse.take (rightTrimLength seg) := by
    rw [List.take_reverse]
  have hc' : c ∈ seg.reverse.take (rightTrimLength seg) := by rw [← h1]; simpa using hc
  unfold rightTrimLength at hc'
  have e : ∀ (l : Bytes), l.take (l.takeWhile isSpaceByte).length = l.takeWhile isSpaceByte := by
    intro l
    induction l with
    | nil => rfl
    | cons a tl ih => by_cases hp : isSpaceByte a = true <;> simp [List.takeWhile, hp, ih]
  rw [e] at hc'
  exact mem_takeWhile_space _ c hc'

theorem lexTextEnd_ok (s : St) (h : B inp d lo s) : Ok (lexTextLoop.lexTextEnd s) (fun r s' => Goes inp d lo r s' ∧ TextNext r) := by
  unfold lexTextLoop.lexTextEnd
  refine Ok.bind (ok_get s) ?_
  intro g s1 e1
  obtain ⟨rfl, rfl⟩ := e1
  by_cases hp : s.pos > s.start
  · rw [if_pos hp]
    refine Ok.bind (emit_ok _ s h) ?_
    intro _ s2 h2
    refine Ok.bind (emit_ok _ s2 h2.1) ?_
    intro _ s3 h3
    exact ⟨goes_none h3.1, Or.inl rfl⟩
  · rw [if_neg hp]
    refine Ok.bind (emit_ok _ s h) ?_
    intro _ s3 h3
    exact ⟨goes_none h3.1, Or.inl rfl⟩

theorem lexTextLoop_ok : ∀ (fuel : Nat) (s : St), B inp d lo s → rem s < fuel →
    Ok (lexTextLoop fuel s) (fun r s' => Goes inp d lo r s' ∧ TextNext r)
  | 0, _, _, hr => by omega
  | fuel + 1, s, h, hr => by
    unfold lexTextLoop
    simp only []
    refine Ok.bind (ok_get s) ?_
    intro g s0 e0
    obtain ⟨rfl, rfl⟩ := e0
    refine Ok.bind (ok_restAt s h s.pos h.pos0 h.posLen) ?_
    intro r s0 e0
    obtain ⟨rfl, rfl⟩ := e0
    refine Ok.bind (firstByte_ok _ (by rw [h.delims]; exact h.wfd.left) s) ?_
    intro ld s0 e0
    obtain rfl := e0
    refine Ok.bind (firstByte_ok _ (by rw [h.delims]; exact h.wfd.lcomment) s) ?_
    intro lc s0 e0
    obtain rfl := e0
    have hdl := drop_length_int inp s.pos h.pos0 h.posLen
    cases hts : textScanIndex (List.drop s.pos.toNat s.input) ld lc with
    | none =>
      simp only
      refine Ok.bind (ok_modify _ s) ?_
      intro _ s1 e1
      refine lexTextEnd_ok s1 ?_
      rw [e1]
      have := h.setPos (s.input.length : Int) (by rw [h.input]; exact Int.le_trans h.startPos h.posLen) (by rw [h.input]; exact Int.le_refl _)
      exact this
    | some i =>
      simp only
      have hi := textScanIndex_lt _ _ _ _ hts
      rw [h.input] at hi
      refine Ok.bind (ok_modify _ s) ?_
      intro _ s1 e1
      have hb1 : B inp d lo s1 := by rw [e1]; exact h.setPos _ (by have := h.startPos; omega) (by omega)
      have hp1 : s1.pos = s.pos + i := by rw [e1]
      refine Ok.bind (ok_get s1) ?_
      intro g s2 e2
      obtain ⟨rfl, rfl⟩ := e2
      refine Ok.bind (ok_restAt s1 hb1 s1.pos hb1.pos0 hb1.posLen) ?_
      intro r s2 e2
      obtain ⟨rfl, rfl⟩ := e2
      by_cases hl : hasPrefix (List.drop s1.pos.toNat s1.input) s1.d.left = true
      · rw [if_pos hl]
        have hfit := prefix_fits inp s1.pos s1.d.left hb1.pos0 hb1.posLen (by rw [← hb1.input]; exact hl)
        refine Ok.bind (ok_restAt s1 hb1 _ (by have := hb1.pos0; omega) hfit) ?_
        intro after s2 e2
        obtain ⟨rfl, rfl⟩ := e2
        refine Ok.bind (Q := fun tl s' => s1 = s' ∧ 0 ≤ tl ∧ tl ≤ s1.pos - s1.start ∧
            AllSpace ((inp.drop (s1.pos - tl).toNat).take tl.toNat)) ?_ ?_
        · split
          · obtain ⟨seg, hseg, hsl⟩ := slice_ok inp s1.start s1.pos hb1.start0 hb1.startPos hb1.posLen
            rw [hb1.input, hseg]
            simp only
            have hrl := rightTrimLength_le seg
            refine ⟨rfl, by omega, by omega, ?_⟩
            have hsegeq : seg = (inp.drop s1.start.toNat).take (s1.pos - s1.start).toNat := by
              simp [slice, hb1.start0, hb1.startPos, hb1.posLen] at hseg
              exact hseg.symm
            have htail := rightTrim_tail_space seg
            have hlenN : seg.length = (s1.pos - s1.start).toNat := by omega
            have : (inp.drop (s1.pos - (rightTrimLength seg : Int)).toNat).take ((rightTrimLength seg : Int)).toNat
                = seg.drop (seg.length - rightTrimLength seg) := by
              have hpl := hb1.posLen
              have h0 := hb1.start0
              have hsp := hb1.startPos
              have e1 : (s1.pos - (rightTrimLength seg : Int)).toNat = s1.start.toNat + (s1.pos - s1.start).toNat - rightTrimLength seg := by omega
              have e2 : ((rightTrimLength seg : Int)).toNat = rightTrimLength seg := by omega
              rw [e1, e2, ← drop_take_tail inp _ _ _ (by omega), ← hsegeq, hlenN]
            rw [this]
            exact htail
          · refine ⟨rfl, Int.le_refl 0, by have := hb1.startPos; omega, ?_⟩
            simp
            exact AllSpace.nil
        intro tl s2 h2
        obtain ⟨rfl, htl0, htl1, htlsp⟩ := h2
        refine Ok.bind (ok_modify _ s1) ?_
        intro _ s3 e3
        have hb3 : B inp d lo s3 := by rw [e3]; exact hb1.setPos _ (by omega) (by have := hb1.posLen; omega)
        refine Ok.bind (ok_get s3) ?_
        intro g s4 e4
        obtain ⟨rfl, rfl⟩ := e4
        have fin : ∀ s5, B inp d lo s5 → s5.pos = s1.pos - tl → s5.start = s1.pos - tl → Ok ((do
            modify fun s => { s with pos := s.pos + tl }
            ignore IgnKind.trimLeft
            pure (some StateId.leftDelim) : M (Option StateId)) s5) (fun r s' => Goes inp d lo r s' ∧ TextNext r) := by
          intro s5 hb5 hp5 hst5
          refine Ok.bind (ok_modify _ s5) ?_
          intro _ s6 e6
          have hb6 : B inp d lo s6 := by
            rw [e6]; exact hb5.setPos _ (by have := hb5.startPos; omega) (by rw [hp5]; have := hb1.posLen; omega)
          have hp6 : s6.pos = s1.pos := by rw [e6]; show s5.pos + tl = s1.pos; omega
          refine Ok.bind (ignore_ok _ s6 hb6 ?_) ?_
          · show AllSpace (pending s6)
            unfold pending
            have hst6 : s6.start = s1.pos - tl := by rw [e6]; exact hst5
            rw [hb6.input, hst6, hp6]
            have : (s1.pos - (s1.pos - tl)).toNat = tl.toNat := by omega
            rw [this]
            exact htlsp
          intro _ s7 h7
          refine ⟨⟨h7.1, ?_⟩, Or.inr (Or.inl rfl)⟩
          intro st hst
          cases hst
          show hasPrefix (List.drop s7.pos.toNat s7.input) s7.d.left = true
          rw [h7.2.2.1, hp6, h7.1.input, h7.1.delims, ← hb1.input, ← hb1.delims]
          exact hl
        by_cases hgt : s3.pos > s3.start
        · rw [if_pos hgt]
          refine Ok.bind (emit_ok _ s3 hb3) ?_
          intro _ s5 h5
          exact fin s5 h5.1 (by rw [h5.2.2.1, e3]) (by rw [h5.2.1, e3])
        · rw [if_neg hgt]
          refine fin s3 hb3 (by rw [e3]) ?_
          have hp3 : s3.pos = s1.pos - tl := by rw [e3]
          have hs3 : s3.start = s1.start := by rw [e3]
          rw [hs3]
          rw [hp3, hs3] at hgt
          omega
      · rw [if_neg hl]
        by_cases hc : hasPrefix (List.drop s1.pos.toNat s1.input) s1.d.lcomment = true
        · rw [if_pos hc]
          by_cases hgt : s1.pos > s1.start
          · rw [if_pos hgt]
            refine Ok.bind (emit_ok _ s1 hb1) ?_
            intro _ s5 h5
            refine ⟨⟨h5.1, ?_⟩, Or.inr (Or.inr rfl)⟩
            intro st hst
            cases hst
            refine ⟨?_, by rw [h5.2.1, h5.2.2.1]⟩
            show hasPrefix (List.drop s5.pos.toNat s5.input) s5.d.lcomment = true
            rw [h5.2.2.1, h5.1.input, h5.1.delims, ← hb1.input, ← hb1.delims]
            exact hc
          · rw [if_neg hgt]
            exact ⟨⟨hb1, by intro st hst; cases hst; exact ⟨hc, by have := hb1.startPos; omega⟩⟩, Or.inr (Or.inr rfl)⟩
        · rw [if_neg hc]
          refine Ok.bind (next_ok s1 hb1) ?_
          intro r s2 h2
          obtain ⟨hr2, hs2, hn2⟩ := h2
          cases r with
          | none => exact lexTextEnd_ok s2 hn2.toB
          | some c =>
            simp only [Option.isNone_some, Bool.false_eq_true, if_false]
            have hrem := rem_next s1 hb1 (by rw [← hr2]; rfl)
            rw [← hs2] at hrem
            refine lexTextLoop_ok fuel s2 hn2.toB ?_
            unfold rem at hrem hr ⊢
            have e1i : s1.input = s.input := by rw [e1]
            rw [e1i, hp1] at hrem
            have : s2.input = s.input := by rw [hn2.input, h.input]
            rw [this] at hrem ⊢
            omega

theorem lexText_ok (s : St) (h : B inp d lo s) : Ok (lexText s) (Steps inp d .text s) := by
  unfold lexText
  rw [lbind_apply, get_apply]
  refine (lexTextLoop_ok _ s (h.relo s.start (Int.le_refl _)) (rem_lt_fuelOf s h)).mono ?_
  intro r s' hr
  refine Steps.of hr.1 ?_
  rcases hr.2 with rfl | rfl | rfl <;> simp [delta]

/-! ### inside an action -/

theorem B.setParen {s : St} (h : B inp d lo s) (p : Int) : B inp d lo { s with parenDepth := p } :=
  ⟨h.input, h.delims, h.wfd, h.start0, h.startPos, h.posLen, h.events, h.fields, h.low, h.ign⟩

theorem goes_entry_true {s' : St} (h : B inp d lo s') (st : StateId) (he : Entry st s') : Goes inp d lo (some st) s' :=
  ⟨h, by intro st' hst; cases hst; exact he⟩

theorem singleTok_not_field (c : Nat) (t : Tok) (h : singleTok c = some t) : t ≠ Tok.field := by
  unfold singleTok at h
  cases hf : List.find? (fun p => p.1 == c) Facts.singleCharToks with
  | none => rw [hf] at h; simp at h
  | some p =>
    rw [hf] at h; simp at h; subst h
    exact single_not_field p (List.mem_of_find?_eq_some hf)

theorem twoTok_not_field (c d2 : Nat) (both : Tok) (single : Option Tok) (h : twoTok c = some (d2, both, single)) :
    both ≠ Tok.field ∧ ∃ t, single = some t ∧ t ≠ Tok.field := by
  unfold twoTok at h
  cases hf : List.find? (fun p => p.1 == c) Facts.twoCharToks with
  | none => rw [hf] at h; simp at h
  | some p =>
    rw [hf] at h; simp at h
    obtain ⟨_, hb, hs⟩ := h
    have hp := two_not_field p (List.mem_of_find?_eq_some hf)
    refine ⟨by rw [← hb]; exact hp.1, ?_⟩
    rw [if_neg hp.2.2] at hs
    exact ⟨_, hs.symm, hp.2.1⟩

/-- what `lexInsideAction` run with `start = st0` hands over: back to itself only with `start`
    moved, never to `text`, a delimiter or a comment -/
def InsideNext (st0 : Int) (r : Option StateId) (s' : St) : Prop :=
  match r with
  | some .insideAction => st0 + 1 ≤ s'.start
  | some .text => False
  | some .leftDelim => False
  | some .comment => False
  | _ => True

theorem ia_emit {st0 : Int} {s1 s2 : St} (h2 : B inp d lo s2 ∧ s2.start = s1.pos ∧ s2.pos = s1.pos ∧ s2.width = s1.width ∧
    s2.parenDepth = s1.parenDepth) (hadv : st0 + 1 ≤ s1.pos) :
    Goes inp d lo (some StateId.insideAction) s2 ∧ InsideNext st0 (some StateId.insideAction) s2 :=
  ⟨goes_inside_emit h2, by show st0 + 1 ≤ s2.start; rw [h2.2.1]; exact hadv⟩

theorem ia_err {st0 : Int} (msg : String) (s : St) (h : B inp d lo s) :
    Ok (errorf msg s) (fun r s' => Goes inp d lo r s' ∧ InsideNext st0 r s') :=
  (errorf_ok msg s h).mono (fun r s' h' => by
    rw [h'.1]; exact ⟨⟨h'.2.1, by intro st hst; cases hst⟩, trivial⟩)

theorem steps_of_inside {s : St} {r : Option StateId} {s' : St}
    (h : Goes inp d s.start r s' ∧ InsideNext s.start r s') : Steps inp d .insideAction s r s' := by
  cases r with
  | none => exact Steps.of h.1 (by simp [delta])
  | some x =>
    cases x
    case insideAction => exact Steps.of (lo' := s.start + 1) ⟨h.1.1.relo _ h.2, h.1.2⟩ (by simp [delta])
    case text => exact h.2.elim
    case leftDelim => exact h.2.elim
    case comment => exact h.2.elim
    all_goals exact Steps.of h.1 (by simp [delta])

theorem fieldOrNumber_ok {st0 : Int} (fs : Bool) (s1 : St) (hn1 : N inp d lo s1) (hf : Entry .field s1)
    (hnum : Entry .number { s1 with pos := s1.pos - s1.width }) :
    Ok ((if fs = true then pure (some StateId.field) else do backup; pure (some StateId.number) : M (Option StateId)) s1)
      (fun r s' => Goes inp d lo r s' ∧ InsideNext st0 r s') := by
  cases fs with
  | true => exact ⟨goes_entry_true hn1.toB .field hf, trivial⟩
  | false =>
    simp only [Bool.false_eq_true, if_false]
    refine Ok.bind (backup_ok s1 hn1) ?_
    intro _ s3 h3
    exact ⟨goes_entry_true h3.1 .number (by rw [h3.2]; exact hnum), trivial⟩

theorem signArm_ok (excl : List String) (opTok : Tok) (hne : opTok ≠ Tok.field) (s : St) (h : B inp d lo s) (hlt : s.start < s.pos)
    (hnum : Entry .number { s with width := 1, pos := s.pos - 1 }) :
    Ok (signArm excl opTok s) (fun r s' => Goes inp d lo r s' ∧ InsideNext s.start r s') := by
  unfold signArm
  refine Ok.bind (peek_ok s h) ?_
  intro r s1 h1
  obtain ⟨hr1, hs1, hb1⟩ := h1
  refine Ok.bind (ok_get s1) ?_
  intro g s2 e2
  obtain ⟨rfl, rfl⟩ := e2
  split
  · rename_i hcond
    simp only [Bool.and_eq_true] at hcond
    have hdig := hcond.1
    cases r with
    | none => simp [isDigitRune] at hdig
    | some c =>
      simp only [isDigitRune, Bool.and_eq_true, decide_eq_true_eq] at hdig
      have hw : (runeAt s).2 = 1 := runeAt_ascii s c h.pos0 hr1.symm (by omega)
      have hn1 : N inp d lo s1 := by
        refine ⟨hb1, ?_, ?_⟩
        · rw [hs1]; show 0 ≤ (runeAt s).2; rw [hw]; omega
        · rw [hs1]; show s.start ≤ s.pos - (runeAt s).2; rw [hw]; omega
      refine Ok.bind (backup_ok s1 hn1) ?_
      intro _ s3 h3
      refine ⟨goes_entry_true h3.1 .number ?_, trivial⟩
      rw [h3.2, hs1]
      show Entry .number { s with width := (runeAt s).2, pos := s.pos - (runeAt s).2 }
      rw [hw]
      exact hnum
  · refine Ok.bind (emit_ok _ s1 hb1 hne) ?_
    intro _ s3 h3
    exact ia_emit h3 (by rw [hs1]; show s.start + 1 ≤ s.pos; omega)

theorem lexInsideAction_ok' (s : St) (h : B inp d lo s) (hse : Entry .insideAction s) :
    Ok (lexInsideAction s) (fun r s' => Goes inp d lo r s' ∧ InsideNext s.start r s') := by
  unfold lexInsideAction
  refine Ok.bind (atRightDelim_ok s h) ?_
  intro x s0 h0
  obtain ⟨rfl, hx, hxn⟩ := h0
  refine Ok.bind (ok_get s0) ?_
  intro g s1 e1
  obtain ⟨rfl, rfl⟩ := e1
  by_cases hd : x.1 = true
  · rw [if_pos hd]
    split
    · refine ⟨goes_entry_true h .rightDelim ⟨hx hd, ?_⟩, trivial⟩
      have hse0 : s0.start = s0.pos := hse
      unfold pending
      rw [hse0]
      simp
      exact AllSpace.nil
    · exact ia_err _ s0 h
  · rw [if_neg hd]
    refine Ok.bind (next_ok s0 h) ?_
    intro r s1 h1
    obtain ⟨hr1, hs1, hn1⟩ := h1
    have hbnd := runeAt_bounds s0 h.pos0 (by rw [h.input]; exact h.posLen)
    cases r with
    | none => exact ia_err _ s1 hn1.toB
    | some c =>
      simp only
      have hw1 : 1 ≤ (runeAt s0).2 := hbnd.2.2.1 (by rw [← hr1]; rfl)
      have hp1 : s1.pos = s0.pos + (runeAt s0).2 := by rw [hs1]
      have hst1 : s1.start = s0.start := by rw [hs1]
      have hlt1 : s1.start < s1.pos := by rw [hp1, hst1]; have := h.startPos; omega
      have hb1 := hn1.toB
      have hse0 : s0.start = s0.pos := hse
      obtain ⟨b0, tl0, hdrop0, hrune0⟩ := runeAt_byte s0 h.pos0 c hr1.symm
      have hi1 : s1.input = s0.input := by rw [hs1]
      have hadv : s0.start + 1 ≤ s1.pos := by omega
      -- the state a `backup` over an ASCII rune returns to sees that rune again
      have hback : ∀ w : Int, (runeAt s0).2 = 1 →
          (runeAt ({ s1 with width := w, pos := s1.pos - 1 } : St)).1 = some c := by
        intro w hw1'
        rw [runeAt_congr _ s0 (by show s1.input = s0.input; exact hi1) (by show s1.pos - 1 = s0.pos; omega)]
        exact hr1.symm
      by_cases c1 : isSpace (some c) = true
      · rw [if_pos c1]
        have hcs : c < 128 := by
          simp only [isSpace, Bool.or_eq_true, beq_iff_eq] at c1; omega
        have hw : (runeAt s0).2 = 1 := runeAt_ascii s0 c h.pos0 hr1.symm hcs
        refine ⟨goes_entry_true hb1 .space ⟨by omega, ?_, ?_⟩, trivial⟩
        · rw [hi1, hst1, hse0]
          have hdd : s1.d = s0.d := by rw [hs1]
          rw [hdd]
          exact hxn (by simpa using hd)
        · -- the one byte pending is the space just read
          have : pending s1 = pending s0 ++ [b0] := by
            rw [hs1, hw]
            exact pending_snoc s0 h b0 tl0 _ hdrop0
          rw [this]
          have hp0 : pending s0 = [] := by unfold pending; rw [hse0]; simp
          rw [hp0]
          exact AllSpace.nil.snoc b0 (byte_of_space_rune b0 tl0 c hrune0 c1)
      rw [if_neg c1]
      by_cases c2 : (c == 45) = true
      · rw [if_pos c2]
        have hc45 : c = 45 := by simpa using c2
        have hw : (runeAt s0).2 = 1 := runeAt_ascii s0 c h.pos0 hr1.symm (by omega)
        rw [← hst1]
        exact signArm_ok _ _ sign_not_field.1 s1 hb1 hlt1 ⟨c, hback 1 hw, Or.inr (Or.inl hc45)⟩
      rw [if_neg c2]
      by_cases c3 : (c == 43) = true
      · rw [if_pos c3]
        have hc43 : c = 43 := by simpa using c3
        have hw : (runeAt s0).2 = 1 := runeAt_ascii s0 c h.pos0 hr1.symm (by omega)
        rw [← hst1]
        exact signArm_ok _ _ sign_not_field.2 s1 hb1 hlt1 ⟨c, hback 1 hw, Or.inl hc43⟩
      rw [if_neg c3]
      cases hst : singleTok c with
      | some t =>
        dsimp only
        refine Ok.bind (emit_ok _ s1 hb1 (singleTok_not_field c t hst)) ?_
        intro _ s2 h2
        exact ia_emit h2 hadv
      | none =>
      dsimp only
      cases htt : twoTok c with
      | some tri =>
        obtain ⟨d2, both, single⟩ := tri
        obtain ⟨hboth, tsingle, hsingle, htsingle⟩ := twoTok_not_field c d2 both single htt
        subst hsingle
        dsimp only
        refine Ok.bind (next_ok s1 hb1) ?_
        intro r2 s2 h2
        obtain ⟨_, hs2, hn2⟩ := h2
        have hadv2 := pos_next_le hn2 hs2 hadv
        by_cases c4 : (r2 == some d2) = true
        · rw [if_pos c4]
          refine Ok.bind (emit_ok _ s2 hn2.toB hboth) ?_
          intro _ s3 h3
          exact ia_emit h3 hadv2
        · rw [if_neg c4]
          refine Ok.bind (backup_ok s2 hn2) ?_
          intro _ s3 h3
          refine Ok.bind (emit_ok _ s3 h3.1 htsingle) ?_
          intro _ s4 h4
          refine ia_emit h4 ?_
          rw [h3.2, hs2]
          show s0.start + 1 ≤ s1.pos + (runeAt s1).2 - (runeAt s1).2
          omega
      | none =>
      dsimp only
      by_cases c5 : (c == 34) = true
      · rw [if_pos c5]; exact ⟨goes_entry_true hb1 .quote hlt1, trivial⟩
      rw [if_neg c5]
      by_cases c6 : (c == 96) = true
      · rw [if_pos c6]; exact ⟨goes_entry_true hb1 .rawQuote hlt1, trivial⟩
      rw [if_neg c6]
      by_cases c7 : (c == 39) = true
      · rw [if_pos c7]; exact ⟨goes_entry_true hb1 .char hlt1, trivial⟩
      rw [if_neg c7]
      by_cases c8 : (c == 46) = true
      · rw [if_pos c8]
        refine Ok.bind (ok_get s1) ?_
        intro g2 s2 e2
        obtain ⟨rfl, rfl⟩ := e2
        have hc46 : c = 46 := by simpa using c8
        have hw46 : (runeAt s0).2 = 1 := runeAt_ascii s0 c h.pos0 hr1.symm (by omega)
        have hb46 : b0 = 46 := byte_of_rune_dot b0 tl0 (by rw [hrune0, hc46])
        have hws1 : s1.width = 1 := by rw [hs1]; exact hw46
        refine fieldOrNumber_ok _ s1 hn1 ⟨by rw [hst1, hp1, hw46, hse0], tl0, ?_⟩ ?_
        · rw [hi1, hst1, hse0, hdrop0, hb46]
        · rw [hws1]
          refine ⟨c, ?_, Or.inr (Or.inr (Or.inl hc46))⟩
          rw [runeAt_congr _ s0 (by show s1.input = s0.input; exact hi1) (by show s1.pos - 1 = s0.pos; omega)]
          exact hr1.symm
      rw [if_neg c8]
      by_cases c9 : (decide (48 ≤ c) && decide (c ≤ 57)) = true
      · rw [if_pos c9]
        refine Ok.bind (backup_ok s1 hn1) ?_
        intro _ s3 h3
        simp only [Bool.and_eq_true, decide_eq_true_eq] at c9
        refine ⟨goes_entry_true h3.1 .number ⟨c, ?_, Or.inr (Or.inr (Or.inr c9))⟩, trivial⟩
        rw [runeAt_congr s3 s0 (by rw [h3.2, hs1]) (by rw [h3.2, hs1]; show s0.pos + (runeAt s0).2 - (runeAt s0).2 = s0.pos; omega)]
        exact hr1.symm
      rw [if_neg c9]
      by_cases c10 : (c == 95) = true
      · rw [if_pos c10]
        refine Ok.bind (peek_ok s1 hb1) ?_
        intro p s2 h2
        obtain ⟨_, hs2, hb2⟩ := h2
        split
        · refine Ok.bind (emit_ok _ s2 hb2) ?_
          intro _ s3 h3
          exact ia_emit h3 (by rw [hs2]; exact hadv)
        · have hc95 : c = 95 := by simpa using c10
          have hb0 : b0 ≠ 46 := by
            intro hb; rw [hb, rune_of_byte_dot] at hrune0; omega
          refine ⟨goes_entry_true hb2 .identifier ⟨⟨b0, tl0, ?_, hb0⟩, Or.inl (by rw [hs2]; exact hlt1)⟩, trivial⟩
          rw [hs2]
          show List.drop s1.start.toNat s1.input = b0 :: tl0
          rw [hi1, hst1, hse0, hdrop0]
      rw [if_neg c10]
      by_cases c11 : isAlphaNumeric (some c) = true
      · rw [if_pos c11]
        refine Ok.bind (backup_ok s1 hn1) ?_
        intro _ s3 h3
        have hb0 : b0 ≠ 46 := by
          intro hb
          rw [hb, rune_of_byte_dot] at hrune0
          have : (c == 46) = true := by simp [← hrune0]
          exact c8 this
        have hst3 : s3.start = s0.start := by rw [h3.2, hs1]
        have hi3 : s3.input = s0.input := by rw [h3.2, hs1]
        refine ⟨goes_entry_true h3.1 .identifier ⟨⟨b0, tl0, by rw [hi3, hst3, hse0, hdrop0], hb0⟩, Or.inr ⟨c, ?_, c11⟩⟩, trivial⟩
        have hra : runeAt s3 = runeAt s0 := by
          refine runeAt_congr s3 s0 (by rw [h3.2, hs1]) ?_
          rw [h3.2, hs1]
          show s0.pos + (runeAt s0).2 - (runeAt s0).2 = s0.pos
          omega
        rw [hra, ← hr1]
      rw [if_neg c11]
      by_cases c12 : (c == 40) = true
      · rw [if_pos c12]
        refine Ok.bind (emit_ok _ s1 hb1) ?_
        intro _ s2 h2
        refine Ok.bind (ok_modify _ s2) ?_
        intro _ s3 e3
        exact ⟨goes_inside (by rw [e3]; exact h2.1.setParen _) (by rw [e3]; show s2.start = s2.pos; rw [h2.2.1, h2.2.2.1]),
          by rw [e3]; show s0.start + 1 ≤ s2.start; rw [h2.2.1]; exact hadv⟩
      rw [if_neg c12]
      by_cases c13 : (c == 41) = true
      · rw [if_pos c13]
        refine Ok.bind (emit_ok _ s1 hb1) ?_
        intro _ s2 h2
        refine Ok.bind (ok_modify _ s2) ?_
        intro _ s3 e3
        have hb3 : B inp d lo s3 := by rw [e3]; exact h2.1.setParen _
        have he3 : s3.start = s3.pos := by rw [e3]; show s2.start = s2.pos; rw [h2.2.1, h2.2.2.1]
        refine Ok.bind (ok_get s3) ?_
        intro g4 s4 e4
        obtain ⟨rfl, rfl⟩ := e4
        split
        · exact ia_err _ s3 hb3
        · exact ⟨goes_inside hb3 he3, by rw [e3]; show s0.start + 1 ≤ s2.start; rw [h2.2.1]; exact hadv⟩
      rw [if_neg c13]
      by_cases c14 : (decide (32 ≤ c) && decide (c ≤ 126)) = true
      · rw [if_pos c14]
        refine Ok.bind (emit_ok _ s1 hb1) ?_
        intro _ s2 h2
        exact ia_emit h2 hadv
      · rw [if_neg c14]
        exact ia_err _ s1 hb1

theorem lexInsideAction_ok (s : St) (h : B inp d lo s) (hse : Entry .insideAction s) :
    Ok (lexInsideAction s) (Steps inp d .insideAction s) :=
  (lexInsideAction_ok' s (h.relo s.start (Int.le_refl _)) hse).mono (fun _ _ h' => steps_of_inside h')


/-! ### the state machine -/

theorem step_ok (st : StateId) (s : St) (h : B inp d lo s) (he : Entry st s) : Ok (step st s) (Steps inp d st s) := by
  cases st with
  | text => exact lexText_ok s h
  | leftDelim => exact lexLeftDelim_ok s h he
  | comment => exact lexComment_ok s h he
  | rightDelim => exact lexRightDelim_ok s h he
  | insideAction => exact lexInsideAction_ok s h he
  | space => exact lexSpace_ok s h he
  | identifier => exact lexIdentifier_ok s h he
  | field => exact lexField_ok s h he
  | char => exact lexChar_ok s h he
  | number => exact lexNumber_ok s h he
  | quote => exact lexQuote_ok s h he
  | rawQuote => exact lexRawQuote_ok s h he

/-- events of an outcome, oldest first -/
def Outcome.evs : Outcome → List Event
  | .done e => e
  | .crash _ e => e
  | .outOfFuel e => e

theorem runLoop_ok : ∀ (fuel : Nat) (st : StateId) (s : St), B inp d 0 s → Entry st s →
    (∀ m e, runLoop fuel st s ≠ .crash m e) ∧
    (∀ e ∈ (runLoop fuel st s).evs, EvOk inp.length e ∧ FieldEv e ∧ IgnEv inp d e)
  | 0, st, s, h, _ => by
    refine ⟨by intro m e hc; simp [runLoop] at hc, ?_⟩
    intro e he
    simp [runLoop, Outcome.evs] at he
    exact ⟨h.events e he, h.fields e he, h.ign e he⟩
  | fuel + 1, st, s, h, he => by
    have hs := step_ok st s h he
    unfold runLoop
    cases hst : step st s with
    | crash msg s' => rw [hst] at hs; exact hs.elim
    | ok r s' =>
      rw [hst] at hs
      cases r with
      | none =>
        refine ⟨by intro m e hc; simp at hc, ?_⟩
        intro e hev
        simp [Outcome.evs] at hev
        exact ⟨hs.1.events e hev, hs.1.fields e hev, hs.1.ign e hev⟩
      | some st' => exact runLoop_ok fuel st' s' (hs.1.relo 0 hs.1.start0) (hs.2 st' rfl)

/-! ### the state machine ends: a potential that every step lowers -/

/-- hand-overs that consume nothing go down in rank: `text` > `insideAction` > `space` > the rest -/
def rank : StateId → Nat
  | .text => 3
  | .insideAction => 2
  | .space => 1
  | _ => 0

/-- four units per byte not yet emitted or ignored, plus the rank of the state -/
def potential (st : StateId) (s : St) : Nat := 4 * (s.input.length - s.start).toNat + rank st

theorem potential_step (st st' : StateId) (s s' : St) (h : B inp d lo s) (hs : Steps inp d st s (some st') s') :
    potential st' s' < potential st s := by
  have h1 := hs.1.low
  have h2 := hs.1.startPos
  have h3 := hs.1.posLen
  have hi : s'.input = s.input := by rw [hs.1.input, h.input]
  have h4 := h.start0
  unfold potential
  rw [hi, h.input]
  cases st <;> cases st' <;> simp only [delta, rank] at h1 ⊢ <;> omega

theorem runLoop_terminates : ∀ (fuel : Nat) (st : StateId) (s : St), B inp d 0 s → Entry st s → potential st s < fuel →
    ∀ e, runLoop fuel st s ≠ .outOfFuel e
  | 0, _, _, _, _, hp => by omega
  | fuel + 1, st, s, h, he, hp => by
    have hs := step_ok st s h he
    unfold runLoop
    cases hst : step st s with
    | crash msg s' => rw [hst] at hs; exact hs.elim
    | ok r s' =>
      rw [hst] at hs
      cases r with
      | none => intro e hc; simp at hc
      | some st' =>
        have := potential_step st st' s s' h hs
        exact runLoop_terminates fuel st' s' (hs.1.relo 0 hs.1.start0) (hs.2 st' rfl) (by omega)

theorem initial_B (dl : Delims) (hd : WfD dl) (input : Bytes) : B input dl 0 { input := input, d := dl } :=
  ⟨rfl, rfl, hd, Int.le_refl 0, Int.le_refl 0, by simp, by intro e he; simp at he, by intro e he; simp at he, Int.le_refl 0, by intro e he; simp at he⟩

end JetVerif.Lex
