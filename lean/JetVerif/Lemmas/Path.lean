import JetVerif.Model.Path

namespace JetVerif.Path

/-- a segment the canonical form may contain -/
def GoodSeg (s : Bytes) : Prop := s ≠ [] ∧ s ≠ dotSeg ∧ s ≠ dotdotSeg ∧ slash ∉ s

instance (s : Bytes) : Decidable (GoodSeg s) := by unfold GoodSeg; infer_instance

/-- canonical: absolute, slash separated, no empty, `.` or `..` segment -/
def IsCanon (p : Bytes) : Prop := ∃ segs, (∀ s ∈ segs, GoodSeg s) ∧ p = renderAbs segs

theorem splitSegs_ne_nil (p : Bytes) : splitSegs p ≠ [] := by
  induction p with
  | nil => simp [splitSegs]
  | cons c cs ih =>
    unfold splitSegs
    split
    · simp
    · split <;> simp

theorem splitSegs_noSlash (p : Bytes) : ∀ s ∈ splitSegs p, slash ∉ s := by
  induction p with
  | nil => simp [splitSegs]
  | cons c cs ih =>
    unfold splitSegs
    split
    · intro s hs
      simp at hs
      rcases hs with h | h
      · subst h; simp
      · exact ih s h
    · rename_i hc
      split
      · intro s hs; simp at hs; subst hs; simp; exact fun h => hc h.symm
      · rename_i s0 ss heq
        intro s hs
        simp at hs
        rcases hs with h | h
        · subst h
          have := ih s0 (by rw [heq]; simp)
          simp
          exact ⟨fun h => hc h.symm, this⟩
        · exact ih s (by rw [heq]; simp [h])

theorem cleanStep_good (stack : List Bytes) (seg : Bytes)
    (hs : ∀ s ∈ stack, GoodSeg s) (hseg : slash ∉ seg) :
    ∀ s ∈ cleanStep true stack seg, GoodSeg s := by
  unfold cleanStep
  split
  · exact hs
  · rename_i h1
    split
    · cases stack with
      | nil => simp
      | cons top rest =>
        simp only []
        split
        · simpa using hs
        · intro s h; exact hs s (by simp [h])
    · rename_i h2
      intro s h
      simp at h
      rcases h with h | h
      · subst h
        simp at h1
        exact ⟨h1.1, h1.2, h2, hseg⟩
      · exact hs s h

theorem foldl_cleanStep_good (segs : List Bytes) (stack : List Bytes)
    (hs : ∀ s ∈ stack, GoodSeg s) (hsegs : ∀ s ∈ segs, slash ∉ s) :
    ∀ s ∈ segs.foldl (cleanStep true) stack, GoodSeg s := by
  induction segs generalizing stack with
  | nil => simpa using hs
  | cons x xs ih =>
    simp only [List.foldl_cons]
    apply ih
    · exact cleanStep_good stack x hs (hsegs x (by simp))
    · intro s h; exact hsegs s (by simp [h])

theorem cleanSegs_good (segs : List Bytes) (hsegs : ∀ s ∈ segs, slash ∉ s) :
    ∀ s ∈ cleanSegs true segs, GoodSeg s := by
  unfold cleanSegs
  intro s h
  simp at h
  exact foldl_cleanStep_good segs [] (by simp) hsegs s h

theorem clean_abs_canon (p : Bytes) (h : isAbs p = true) : IsCanon (clean p) := by
  unfold clean
  have hne : p ≠ [] := by intro h0; subst h0; simp [isAbs] at h
  simp only [hne, h, if_true, if_false]
  exact ⟨_, cleanSegs_good _ (splitSegs_noSlash p), rfl⟩

theorem isAbs_renderAbs (segs : List Bytes) : isAbs (renderAbs segs) = true := by
  cases segs with
  | nil => simp [renderAbs, isAbs]
  | cons s ss => simp [renderAbs, isAbs]

theorem IsCanon.isAbs {p : Bytes} (h : IsCanon p) : isAbs p = true := by
  obtain ⟨segs, _, rfl⟩ := h
  exact isAbs_renderAbs segs

theorem IsCanon.ne_nil {p : Bytes} (h : IsCanon p) : p ≠ [] := by
  have := h.isAbs
  intro h0; subst h0; simp [Path.isAbs] at this

/-! splitting a rendered canonical path gives back its segments -/

theorem splitSegs_append_slash (s rest : Bytes) (hs : slash ∉ s) :
    splitSegs (s ++ slash :: rest) = s :: splitSegs rest := by
  induction s with
  | nil => simp [splitSegs]
  | cons c cs ih =>
    have hc : c ≠ slash := by intro h; subst h; simp at hs
    have hcs : slash ∉ cs := by intro h; exact hs (by simp [h])
    simp only [List.cons_append, splitSegs, hc, if_false, ih hcs]

theorem splitSegs_noSlash_self (s : Bytes) (hs : slash ∉ s) : splitSegs s = [s] := by
  induction s with
  | nil => simp [splitSegs]
  | cons c cs ih =>
    have hc : c ≠ slash := by intro h; subst h; simp at hs
    have hcs : slash ∉ cs := by intro h; exact hs (by simp [h])
    simp only [splitSegs, hc, if_false, ih hcs]

theorem splitSegs_flatten (segs : List Bytes) (hne : segs ≠ []) (hs : ∀ s ∈ segs, slash ∉ s) :
    splitSegs ((segs.map (fun s => slash :: s)).flatten) = [] :: segs := by
  induction segs with
  | nil => exact absurd rfl hne
  | cons s ss ih =>
    cases ss with
    | nil =>
      simp only [List.map_cons, List.map_nil, List.flatten_cons, List.flatten_nil, List.append_nil]
      simp only [splitSegs, if_true]
      rw [splitSegs_noSlash_self s (hs s (by simp))]
    | cons s2 ss2 =>
      have ih' := ih (by simp) (fun x hx => hs x (by simp [hx]))
      simp only [List.map_cons, List.flatten_cons] at ih' ⊢
      simp only [List.cons_append, splitSegs, if_true]
      rw [splitSegs_append_slash s _ (hs s (by simp))]
      simp only [List.cons_append, splitSegs, if_true] at ih'
      have ih'' := List.tail_eq_of_cons_eq ih'
      rw [ih'']

theorem cleanStep_goodSeg (stack : List Bytes) (s : Bytes) (h : GoodSeg s) :
    cleanStep true stack s = s :: stack := by
  unfold cleanStep
  obtain ⟨h1, h2, h3, _⟩ := h
  simp [h1, h2, h3]

theorem foldl_cleanStep_goodSegs (segs stack : List Bytes) (h : ∀ s ∈ segs, GoodSeg s) :
    segs.foldl (cleanStep true) stack = segs.reverse ++ stack := by
  induction segs generalizing stack with
  | nil => simp
  | cons x xs ih =>
    simp only [List.foldl_cons]
    rw [cleanStep_goodSeg stack x (h x (by simp)), ih _ (fun s hs => h s (by simp [hs]))]
    simp

theorem clean_of_canon {p : Bytes} (h : IsCanon p) : clean p = p := by
  have habs := h.isAbs
  have hne := h.ne_nil
  obtain ⟨segs, hg, rfl⟩ := h
  unfold clean
  simp only [hne, habs, if_true, if_false]
  cases segs with
  | nil =>
    simp [renderAbs, splitSegs, cleanSegs, cleanStep]
  | cons s ss =>
    have hns : ∀ x ∈ s :: ss, slash ∉ x := fun x hx => (hg x hx).2.2.2
    simp only [renderAbs]
    rw [splitSegs_flatten (s :: ss) (by simp) hns]
    have h0 : cleanStep true [] [] = [] := by simp [cleanStep]
    have h1 : cleanSegs true ([] :: s :: ss) = s :: ss := by
      unfold cleanSegs
      rw [List.foldl_cons, h0, foldl_cleanStep_goodSegs (s :: ss) [] hg]
      simp
    rw [h1]

theorem clean_idem_abs (p : Bytes) (h : isAbs p = true) : clean (clean p) = clean p :=
  clean_of_canon (clean_abs_canon p h)

/-! join / dir -/

theorem join_root_canon (n : Bytes) : IsCanon (join [[slash], n]) := by
  unfold join
  have : ([[slash], n].all (· = [])) = false := by simp
  simp only [this, Bool.false_eq_true, if_false]
  apply clean_abs_canon
  simp [joinRaw, isAbs]

theorem isAbs_splitLast (p : Bytes) (h : isAbs p = true) : isAbs (splitLast p).1 = true := by
  cases p with
  | nil => simp [isAbs] at h
  | cons c cs =>
    simp [isAbs] at h
    subst h
    simp [splitLast, isAbs]

theorem dir_abs_canon (p : Bytes) (h : isAbs p = true) : IsCanon (dir p) :=
  clean_abs_canon _ (isAbs_splitLast p h)

theorem isAbs_append (a b : Bytes) (h : isAbs a = true) : isAbs (a ++ b) = true := by
  cases a with
  | nil => simp [isAbs] at h
  | cons c cs => simpa [isAbs] using h

theorem join_abs_canon (d n : Bytes) (h : isAbs d = true) : IsCanon (join [d, n]) := by
  have hne : d ≠ [] := by intro h0; subst h0; simp [isAbs] at h
  unfold join
  have : ([d, n].all (· = [])) = false := by simp [hne]
  simp only [this, Bool.false_eq_true, if_false]
  apply clean_abs_canon
  have : joinRaw [] [d, n] = d ++ slash :: n := by
    simp [joinRaw, hne]
  rw [this]
  exact isAbs_append d _ h

end JetVerif.Path
