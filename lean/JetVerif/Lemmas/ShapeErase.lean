/-
  The erasure of the parser's trees to the evaluator's, as total functions, and the proof that it maps
  shaped parser trees (Lemmas/ParseShapeDefs.lean) to well-formed evaluator trees (Lemmas/EvalTotal.lean).

  `eraseExpr`, `eraseExprOpt`, `eraseSet`, `eraseCmd`, `erasePipe`, `eraseParams`, `eraseStmt`, `eraseEls`
  restate Driver/ExecSrc.lean's `exprA`, `optA`, `setA`, `cmdA`, `pipeA`, `paramsA`, `stmtA`, `optListA`
  clause by clause (those are `partial def`s into `Except String`; here `none` stands for every error, and the
  `List.mapM`s are written as mutual list recursions so that the definitions are structural).
  `withBlocks` restates the last step of `execSrcCmd`.
-/
import JetVerif.Lemmas.ParseShapeDefs
import JetVerif.Lemmas.EvalTotal
import JetVerif.Model.Blocks

namespace JetVerif.Parse
open JetVerif

/-! ### expressions -/

mutual
/-- `exprA` -/
def eraseExpr (path : Bytes) : PExpr → Option Expr
  | .ident l n => some (.ident ⟨path, l⟩ n)
  | .field l ns => some (.field ⟨path, l⟩ ns)
  | .chain l b fs => (eraseExpr path b).bind fun b' => some (.chain ⟨path, l⟩ b' fs)
  | .underscore l => some (.underscore ⟨path, l⟩)
  | .nilLit l => some (.nilLit ⟨path, l⟩)
  | .boolLit l b => some (.boolLit ⟨path, l⟩ b)
  | .strLit l s => some (.strLit ⟨path, l⟩ s)
  | .numLit l (.num a b c d i u f) _ =>
    if d then none else some (.numLit ⟨path, l⟩ a b c i u f.toUInt64)
  | .numLit _ _ _ => none
  | .binary .add l op le r =>
    (eraseExprOpt path le).bind fun le' =>
    (eraseExpr path r).bind fun r' => some (.add ⟨path, l⟩ (op == Tok.add) le' r')
  | .binary k l op (some le) r =>
    (eraseExpr path le).bind fun a =>
    (eraseExpr path r).bind fun b =>
    match k with
    | .mul => some (.mul ⟨path, l⟩ op a b)
    | .cmp => some (.cmp ⟨path, l⟩ (op == Tok.notEquals) a b)
    | .numcmp => some (.numcmp ⟨path, l⟩ op a b)
    | .logic => some (.logic ⟨path, l⟩ (op == Tok.and_) a b)
    | .add => some (.add ⟨path, l⟩ (op == Tok.add) (some a) b)
  | .binary _ _ _ none _ => none
  | .not l e => (eraseExpr path e).bind fun e' => some (.not ⟨path, l⟩ e')
  | .ternary l c a b =>
    (eraseExpr path c).bind fun c' =>
    (eraseExpr path a).bind fun a' =>
    (eraseExpr path b).bind fun b' => some (.ternary ⟨path, l⟩ c' a' b')
  | .call l b args slot =>
    (eraseExpr path b).bind fun b' =>
    (eraseExprs path args).bind fun args' => some (.call ⟨path, l⟩ b' args' true slot)
  | .index l b (some i) =>
    (eraseExpr path b).bind fun b' =>
    (eraseExpr path i).bind fun i' => some (.index ⟨path, l⟩ b' i')
  | .index _ _ none => none
  | .slice l b i j =>
    (eraseExpr path b).bind fun b' =>
    (eraseExprOpt path i).bind fun i' =>
    (eraseExprOpt path j).bind fun j' => some (.slice ⟨path, l⟩ b' i' j')
/-- `optA` -/
def eraseExprOpt (path : Bytes) : Option PExpr → Option (Option Expr)
  | none => some none
  | some e => (eraseExpr path e).bind fun e' => some (some e')
/-- `es.mapM (exprA path)` -/
def eraseExprs (path : Bytes) : List PExpr → Option (List Expr)
  | [] => some []
  | e :: es =>
    (eraseExpr path e).bind fun e' =>
    (eraseExprs path es).bind fun es' => some (e' :: es')
end

/-- the head constructor of an evaluator expression, in the parser's `NT` -/
def ntE : Expr → NT
  | .ident .. => .ident | .field .. => .field | .chain .. => .chain | .underscore .. => .underscore
  | .nilLit .. => .nil_ | .boolLit .. => .bool | .strLit .. => .string | .numLit .. => .number
  | .add .. => .additive | .mul .. => .mul | .cmp .. => .cmp | .numcmp .. => .numcmp
  | .logic .. => .logic | .not .. => .not_ | .ternary .. => .ternary | .call .. => .call
  | .index .. => .index | .slice .. => .slice

/-- erasure preserves the head constructor -/
theorem eraseExpr_nt (path : Bytes) (e : PExpr) (e' : Expr) (h : eraseExpr path e = some e') :
    ntE e' = e.nt := by
  cases e with
  | binary k l op le r =>
    cases k <;> cases le <;>
      simp only [eraseExpr, Option.bind_eq_some_iff, Option.some.injEq, reduceCtorEq, false_and,
        exists_false, exists_const] at h <;>
      first
      | (obtain ⟨_, _, _, _, rfl⟩ := h; rfl)
      | exact absurd h (by simp)
  | numLit l lit t =>
    cases lit <;> simp only [eraseExpr, reduceCtorEq] at h
    split at h
    · cases h
    · cases h; rfl
  | index l b i =>
    cases i <;> simp only [eraseExpr, Option.bind_eq_some_iff, Option.some.injEq, reduceCtorEq] at h
    obtain ⟨_, _, _, _, rfl⟩ := h; rfl
  | _ =>
    simp only [eraseExpr, Option.bind_eq_some_iff, Option.some.injEq] at h
    first
    | (cases h; rfl)
    | (obtain ⟨_, _, rfl⟩ := h; rfl)
    | (obtain ⟨_, _, _, _, rfl⟩ := h; rfl)
    | (obtain ⟨_, _, _, _, _, _, rfl⟩ := h; rfl)

theorem isUnderscore_eq_nt (e' : Expr) : Eval.isUnderscore e' = decide (ntE e' = NT.underscore) := by
  cases e' <;> rfl

theorem isUnd_eq_nt (e : PExpr) : e.isUnd = decide (e.nt = NT.underscore) := by
  cases e with
  | binary k l op le r => cases k <;> rfl
  | _ => rfl

/-- erasure preserves "is the `_` node" -/
theorem eraseExpr_isUnd (path : Bytes) (e : PExpr) (e' : Expr) (h : eraseExpr path e = some e') :
    Eval.isUnderscore e' = e.isUnd := by
  rw [isUnderscore_eq_nt, isUnd_eq_nt, eraseExpr_nt path e e' h]

theorem leftSetOk_of_nt (e' : Expr) (h : assignable (ntE e') = true) : Eval.LeftSetOk e' := by
  cases e' <;> first | trivial | (exact absurd h (by decide))

theorem leftOk_of_nt (isLet : Bool) (e' : Expr) (h : assignable (ntE e') = true)
    (h2 : isLet = true → ntE e' = NT.ident ∨ ntE e' = NT.underscore) : Eval.LeftOk isLet e' := by
  cases e' <;> first
    | trivial
    | (exact absurd h (by decide))
    | (show isLet = false
       cases isLet
       · rfl
       · exact absurd (h2 rfl) (by decide))

theorem eraseExpr_leftOk (path : Bytes) (isLet : Bool) (e : PExpr) (e' : Expr) (hs : LeftShape isLet e)
    (h : eraseExpr path e = some e') : Eval.LeftOk isLet e' := by
  have hn := eraseExpr_nt path e e' h
  exact leftOk_of_nt isLet e' (hn ▸ hs.1) (hn ▸ hs.2)

theorem eraseExpr_leftSetOk (path : Bytes) (isLet : Bool) (e : PExpr) (e' : Expr) (hs : LeftShape isLet e)
    (h : eraseExpr path e = some e') : Eval.LeftSetOk e' := by
  have hn := eraseExpr_nt path e e' h
  exact leftSetOk_of_nt e' (hn ▸ hs.1)

theorem mulTok_mulOp (op : Tok) : MulTok op → Eval.MulOp op := by
  unfold MulTok Eval.MulOp
  cases op <;> decide

/-! ### erased lists -/

theorem eraseExprs_cons (path : Bytes) (e : PExpr) (es : List PExpr) (l' : List Expr)
    (h : eraseExprs path (e :: es) = some l') :
    ∃ e' es', l' = e' :: es' ∧ eraseExpr path e = some e' ∧ eraseExprs path es = some es' := by
  simp only [eraseExprs, Option.bind_eq_some_iff, Option.some.injEq] at h
  obtain ⟨e', he, es', hes, rfl⟩ := h
  exact ⟨e', es', rfl, he, hes⟩

theorem eraseExprs_length (path : Bytes) : ∀ (es : List PExpr) (es' : List Expr),
    eraseExprs path es = some es' → es'.length = es.length
  | [], es', h => by simp only [eraseExprs, Option.some.injEq] at h; subst h; rfl
  | e :: es, l', h => by
    obtain ⟨e', es', rfl, _, hes⟩ := eraseExprs_cons path e es l' h
    simp [eraseExprs_length path es es' hes]

theorem eraseExprs_mem (path : Bytes) : ∀ (es : List PExpr) (es' : List Expr),
    eraseExprs path es = some es' → ∀ x' ∈ es', ∃ x ∈ es, eraseExpr path x = some x'
  | [], es', h, x', hx => by simp only [eraseExprs, Option.some.injEq] at h; subst h; cases hx
  | e :: es, l', h, x', hx => by
    obtain ⟨e', es', rfl, he, hes⟩ := eraseExprs_cons path e es l' h
    rcases List.mem_cons.mp hx with rfl | hx
    · exact ⟨e, List.mem_cons_self, he⟩
    · obtain ⟨x, hxm, hxe⟩ := eraseExprs_mem path es es' hes x' hx
      exact ⟨x, List.mem_cons_of_mem _ hxm, hxe⟩

theorem eraseExprs_any (path : Bytes) : ∀ (es : List PExpr) (es' : List Expr),
    eraseExprs path es = some es' → es'.any Eval.isUnderscore = es.any PExpr.isUnd
  | [], es', h => by simp only [eraseExprs, Option.some.injEq] at h; subst h; rfl
  | e :: es, l', h => by
    obtain ⟨e', es', rfl, he, hes⟩ := eraseExprs_cons path e es l' h
    simp only [List.any_cons, eraseExpr_isUnd path e e' he, eraseExprs_any path es es' hes]

theorem eraseExprs_slot (path : Bytes) (es : List PExpr) (es' : List Expr) (slot : Bool)
    (h : eraseExprs path es = some es') (hs : SlotShape es slot) : Eval.SlotOk es' slot := by
  unfold Eval.SlotOk
  rw [eraseExprs_any path es es' h]
  exact hs

/-! ### shaped expressions erase to well-formed expressions -/

mutual
theorem eraseExpr_wf (path : Bytes) : ∀ (e : PExpr) (e' : Expr),
    PExpr.Shaped e → eraseExpr path e = some e' → Eval.ExprWf e'
  | .ident l n, e', _, h => by cases h; trivial
  | .field l ns, e', _, h => by cases h; trivial
  | .chain l b fs, e', hs, h => by
    simp only [eraseExpr, Option.bind_eq_some_iff, Option.some.injEq] at h
    obtain ⟨b', hb, rfl⟩ := h
    rw [PExpr.Shaped] at hs
    rw [Eval.ExprWf]
    exact eraseExpr_wf path b b' hs hb
  | .underscore l, e', _, h => by cases h; trivial
  | .nilLit l, e', _, h => by cases h; trivial
  | .boolLit l b, e', _, h => by cases h; trivial
  | .strLit l s, e', _, h => by cases h; trivial
  | .numLit l lit t, e', _, h => by
    have := eraseExpr_nt path _ e' h
    cases e' <;> first | trivial | (exact absurd this (by simp [ntE, PExpr.nt]))
  | .binary .add l op le r, e', hs, h => by
    simp only [eraseExpr, Option.bind_eq_some_iff, Option.some.injEq] at h
    obtain ⟨le', hle, r', hr, rfl⟩ := h
    rw [PExpr.Shaped] at hs
    rw [Eval.ExprWf]
    exact ⟨eraseExprOpt_wf path le le' hs.1 hle, eraseExpr_wf path r r' hs.2.1 hr⟩
  | .binary .mul l op (some le) r, e', hs, h => by
    simp only [eraseExpr, Option.bind_eq_some_iff, Option.some.injEq] at h
    obtain ⟨a, ha, b, hb, rfl⟩ := h
    rw [PExpr.Shaped, PExpr.ShapedOpt] at hs
    rw [Eval.ExprWf]
    exact ⟨eraseExpr_wf path le a hs.1 ha, eraseExpr_wf path r b hs.2.1 hb, mulTok_mulOp op (hs.2.2 rfl)⟩
  | .binary .cmp l op (some le) r, e', hs, h => by
    simp only [eraseExpr, Option.bind_eq_some_iff, Option.some.injEq] at h
    obtain ⟨a, ha, b, hb, rfl⟩ := h
    rw [PExpr.Shaped, PExpr.ShapedOpt] at hs
    rw [Eval.ExprWf]
    exact ⟨eraseExpr_wf path le a hs.1 ha, eraseExpr_wf path r b hs.2.1 hb⟩
  | .binary .numcmp l op (some le) r, e', hs, h => by
    simp only [eraseExpr, Option.bind_eq_some_iff, Option.some.injEq] at h
    obtain ⟨a, ha, b, hb, rfl⟩ := h
    rw [PExpr.Shaped, PExpr.ShapedOpt] at hs
    rw [Eval.ExprWf]
    exact ⟨eraseExpr_wf path le a hs.1 ha, eraseExpr_wf path r b hs.2.1 hb⟩
  | .binary .logic l op (some le) r, e', hs, h => by
    simp only [eraseExpr, Option.bind_eq_some_iff, Option.some.injEq] at h
    obtain ⟨a, ha, b, hb, rfl⟩ := h
    rw [PExpr.Shaped, PExpr.ShapedOpt] at hs
    rw [Eval.ExprWf]
    exact ⟨eraseExpr_wf path le a hs.1 ha, eraseExpr_wf path r b hs.2.1 hb⟩
  | .binary .mul l op none r, e', _, h => by simp [eraseExpr] at h
  | .binary .cmp l op none r, e', _, h => by simp [eraseExpr] at h
  | .binary .numcmp l op none r, e', _, h => by simp [eraseExpr] at h
  | .binary .logic l op none r, e', _, h => by simp [eraseExpr] at h
  | .not l e, e', hs, h => by
    simp only [eraseExpr, Option.bind_eq_some_iff, Option.some.injEq] at h
    obtain ⟨b', hb, rfl⟩ := h
    rw [PExpr.Shaped] at hs
    rw [Eval.ExprWf]
    exact eraseExpr_wf path e b' hs hb
  | .ternary l c a b, e', hs, h => by
    simp only [eraseExpr, Option.bind_eq_some_iff, Option.some.injEq] at h
    obtain ⟨c', hc, a', ha, b', hb, rfl⟩ := h
    rw [PExpr.Shaped] at hs
    rw [Eval.ExprWf]
    exact ⟨eraseExpr_wf path c c' hs.1 hc, eraseExpr_wf path a a' hs.2.1 ha, eraseExpr_wf path b b' hs.2.2 hb⟩
  | .call l b args slot, e', hs, h => by
    simp only [eraseExpr, Option.bind_eq_some_iff, Option.some.injEq] at h
    obtain ⟨b', hb, args', hargs, rfl⟩ := h
    rw [PExpr.Shaped] at hs
    rw [Eval.ExprWf]
    exact ⟨eraseExpr_wf path b b' hs.1 hb, eraseExprs_wf path args args' hs.2.1 hargs,
      eraseExprs_slot path args args' slot hargs hs.2.2⟩
  | .index l b (some i), e', hs, h => by
    simp only [eraseExpr, Option.bind_eq_some_iff, Option.some.injEq] at h
    obtain ⟨b', hb, i', hi, rfl⟩ := h
    rw [PExpr.Shaped, PExpr.ShapedOpt] at hs
    rw [Eval.ExprWf]
    exact ⟨eraseExpr_wf path b b' hs.1 hb, eraseExpr_wf path i i' hs.2 hi⟩
  | .index l b none, e', _, h => by simp [eraseExpr] at h
  | .slice l b i j, e', hs, h => by
    simp only [eraseExpr, Option.bind_eq_some_iff, Option.some.injEq] at h
    obtain ⟨b', hb, i', hi, j', hj, rfl⟩ := h
    rw [PExpr.Shaped] at hs
    rw [Eval.ExprWf]
    exact ⟨eraseExpr_wf path b b' hs.1 hb, eraseExprOpt_wf path i i' hs.2.1 hi,
      eraseExprOpt_wf path j j' hs.2.2 hj⟩
theorem eraseExprOpt_wf (path : Bytes) : ∀ (o : Option PExpr) (o' : Option Expr),
    PExpr.ShapedOpt o → eraseExprOpt path o = some o' → Eval.ExprOWf o'
  | none, o', _, h => by
    simp only [eraseExprOpt, Option.some.injEq] at h; subst h; trivial
  | some e, o', hs, h => by
    simp only [eraseExprOpt, Option.bind_eq_some_iff, Option.some.injEq] at h
    obtain ⟨e', he, rfl⟩ := h
    rw [PExpr.ShapedOpt] at hs
    rw [Eval.ExprOWf]
    exact eraseExpr_wf path e e' hs he
theorem eraseExprs_wf (path : Bytes) : ∀ (es : List PExpr) (es' : List Expr),
    PExpr.ShapedList es → eraseExprs path es = some es' → Eval.ExprsWf es'
  | [], es', _, h => by
    simp only [eraseExprs, Option.some.injEq] at h; subst h; trivial
  | e :: es, l', hs, h => by
    simp only [eraseExprs, Option.bind_eq_some_iff, Option.some.injEq] at h
    obtain ⟨e', he, es', hes, rfl⟩ := h
    rw [PExpr.ShapedList] at hs
    rw [Eval.ExprsWf]
    exact ⟨eraseExpr_wf path e e' hs.1 he, eraseExprs_wf path es es' hs.2 hes⟩
end

end JetVerif.Parse
