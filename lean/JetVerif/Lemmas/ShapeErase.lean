/-
  The erasure of the parser's trees to the evaluator's, as total functions, and the proof that it maps
  shaped parser trees (Lemmas/ParseShapeDefs.lean) to well-formed evaluator trees (Lemmas/EvalTotal.lean).

  `eraseExpr`, `eraseExprOpt`, `eraseSet`, `eraseCmd`, `erasePipe`, `eraseParams`, `eraseStmt`, `eraseEls`
  restate Driver/ExecSrc.lean's `exprA`, `optA`, `setA`, `cmdA`, `pipeA`, `paramsA`, `stmtA`, `optListA`
  clause by clause (those are `partial def`s into `Except String`; here `none` stands for every error, and the
  `List.mapM`s are written as mutual list recursions so that the definitions are structural).
  `withBlocks` restates the last step of `execSrcCmd`.
-/
import JetVerif.Lemmas.ParseShapeDefs
import JetVerif.Lemmas.EvalTotal
import JetVerif.Model.Blocks

namespace JetVerif.Parse
open JetVerif

/-! ### expressions -/

mutual
/-- `exprA` -/
def eraseExpr (path : Bytes) : PExpr → Option Expr
  | .ident l n => some (.ident ⟨path, l⟩ n)
  | .field l ns => some (.field ⟨path, l⟩ ns)
  | .chain l b fs => (eraseExpr path b).bind fun b' => some (.chain ⟨path, l⟩ b' fs)
  | .underscore l => some (.underscore ⟨path, l⟩)
  | .nilLit l => some (.nilLit ⟨path, l⟩)
  | .boolLit l b => some (.boolLit ⟨path, l⟩ b)
  | .strLit l s => some (.strLit ⟨path, l⟩ s)
  | .numLit l (.num a b c d i u f) _ =>
    if d then none else some (.numLit ⟨path, l⟩ a b c i u f.toUInt64)
  | .numLit _ _ _ => none
  | .binary .add l op le r =>
    (eraseExprOpt path le).bind fun le' =>
    (eraseExpr path r).bind fun r' => some (.add ⟨path, l⟩ (op == Tok.add) le' r')
  | .binary k l op (some le) r =>
    (eraseExpr path le).bind fun a =>
    (eraseExpr path r).bind fun b =>
    match k with
    | .mul => some (.mul ⟨path, l⟩ op a b)
    | .cmp => some (.cmp ⟨path, l⟩ (op == Tok.notEquals) a b)
    | .numcmp => some (.numcmp ⟨path, l⟩ op a b)
    | .logic => some (.logic ⟨path, l⟩ (op == Tok.and_) a b)
    | .add => some (.add ⟨path, l⟩ (op == Tok.add) (some a) b)
  | .binary _ _ _ none _ => none
  | .not l e => (eraseExpr path e).bind fun e' => some (.not ⟨path, l⟩ e')
  | .ternary l c a b =>
    (eraseExpr path c).bind fun c' =>
    (eraseExpr path a).bind fun a' =>
    (eraseExpr path b).bind fun b' => some (.ternary ⟨path, l⟩ c' a' b')
  | .call l b args slot =>
    (eraseExpr path b).bind fun b' =>
    (eraseExprs path args).bind fun args' => some (.call ⟨path, l⟩ b' args' true slot)
  | .index l b (some i) =>
    (eraseExpr path b).bind fun b' =>
    (eraseExpr path i).bind fun i' => some (.index ⟨path, l⟩ b' i')
  | .index _ _ none => none
  | .slice l b i j =>
    (eraseExpr path b).bind fun b' =>
    (eraseExprOpt path i).bind fun i' =>
    (eraseExprOpt path j).bind fun j' => some (.slice ⟨path, l⟩ b' i' j')
/-- `optA` -/
def eraseExprOpt (path : Bytes) : Option PExpr → Option (Option Expr)
  | none => some none
  | some e => (eraseExpr path e).bind fun e' => some (some e')
/-- `es.mapM (exprA path)` -/
def eraseExprs (path : Bytes) : List PExpr → Option (List Expr)
  | [] => some []
  | e :: es =>
    (eraseExpr path e).bind fun e' =>
    (eraseExprs path es).bind fun es' => some (e' :: es')
end

/-- the head constructor of an evaluator expression, in the parser's `NT` -/
def ntE : Expr → NT
  | .ident .. => .ident | .field .. => .field | .chain .. => .chain | .underscore .. => .underscore
  | .nilLit .. => .nil_ | .boolLit .. => .bool | .strLit .. => .string | .numLit .. => .number
  | .add .. => .additive | .mul .. => .mul | .cmp .. => .cmp | .numcmp .. => .numcmp
  | .logic .. => .logic | .not .. => .not_ | .ternary .. => .ternary | .call .. => .call
  | .index .. => .index | .slice .. => .slice

/-- erasure preserves the head constructor -/
theorem eraseExpr_nt (path : Bytes) (e : PExpr) (e' : Expr) (h : eraseExpr path e = some e') :
    ntE e' = e.nt := by
  cases e with
  | binary k l op le r =>
    cases k <;> cases le <;>
      simp only [eraseExpr, Option.bind_eq_some_iff, Option.some.injEq, reduceCtorEq] at h <;>
      first
      | (obtain ⟨_, _, _, _, rfl⟩ := h; rfl)
      | exact absurd h (by simp)
  | numLit l lit t =>
    cases lit <;> simp only [eraseExpr, reduceCtorEq] at h
    split at h
    · cases h
    · cases h; rfl
  | index l b i =>
    cases i <;> simp only [eraseExpr, Option.bind_eq_some_iff, Option.some.injEq, reduceCtorEq] at h
    obtain ⟨_, _, _, _, rfl⟩ := h; rfl
  | _ =>
    simp only [eraseExpr, Option.bind_eq_some_iff, Option.some.injEq] at h
    first
    | (cases h; rfl)
    | (obtain ⟨_, _, rfl⟩ := h; rfl)
    | (obtain ⟨_, _, _, _, rfl⟩ := h; rfl)
    | (obtain ⟨_, _, _, _, _, _, rfl⟩ := h; rfl)

theorem isUnderscore_eq_nt (e' : Expr) : Eval.isUnderscore e' = decide (ntE e' = NT.underscore) := by
  cases e' <;> rfl

theorem isUnd_eq_nt (e : PExpr) : e.isUnd = decide (e.nt = NT.underscore) := by
  cases e with
  | binary k l op le r => cases k <;> rfl
  | _ => rfl

/-- erasure preserves "is the `_` node" -/
theorem eraseExpr_isUnd (path : Bytes) (e : PExpr) (e' : Expr) (h : eraseExpr path e = some e') :
    Eval.isUnderscore e' = e.isUnd := by
  rw [isUnderscore_eq_nt, isUnd_eq_nt, eraseExpr_nt path e e' h]

theorem leftSetOk_of_nt (e' : Expr) (h : assignable (ntE e') = true) : Eval.LeftSetOk e' := by
  cases e' <;> first | trivial | (exact absurd h (by decide))

theorem leftOk_of_nt (isLet : Bool) (e' : Expr) (h : assignable (ntE e') = true)
    (h2 : isLet = true → ntE e' = NT.ident ∨ ntE e' = NT.underscore) : Eval.LeftOk isLet e' := by
  cases e' <;> first
    | trivial
    | (exact absurd h (by decide))
    | (show isLet = false
       cases isLet
       · rfl
       · exact absurd (h2 rfl) (by simp [ntE]))

theorem eraseExpr_leftOk (path : Bytes) (isLet : Bool) (e : PExpr) (e' : Expr) (hs : LeftShape isLet e)
    (h : eraseExpr path e = some e') : Eval.LeftOk isLet e' := by
  have hn := eraseExpr_nt path e e' h
  exact leftOk_of_nt isLet e' (hn ▸ hs.1) (hn ▸ hs.2)

theorem eraseExpr_leftSetOk (path : Bytes) (isLet : Bool) (e : PExpr) (e' : Expr) (hs : LeftShape isLet e)
    (h : eraseExpr path e = some e') : Eval.LeftSetOk e' := by
  have hn := eraseExpr_nt path e e' h
  exact leftSetOk_of_nt e' (hn ▸ hs.1)

theorem mulTok_mulOp (op : Tok) : MulTok op → Eval.MulOp op := by
  unfold MulTok Eval.MulOp
  cases op <;> decide

/-! ### erased lists -/

theorem eraseExprs_cons (path : Bytes) (e : PExpr) (es : List PExpr) (l' : List Expr)
    (h : eraseExprs path (e :: es) = some l') :
    ∃ e' es', l' = e' :: es' ∧ eraseExpr path e = some e' ∧ eraseExprs path es = some es' := by
  simp only [eraseExprs, Option.bind_eq_some_iff, Option.some.injEq] at h
  obtain ⟨e', he, es', hes, rfl⟩ := h
  exact ⟨e', es', rfl, he, hes⟩

theorem eraseExprs_length (path : Bytes) : ∀ (es : List PExpr) (es' : List Expr),
    eraseExprs path es = some es' → es'.length = es.length
  | [], es', h => by simp only [eraseExprs, Option.some.injEq] at h; subst h; rfl
  | e :: es, l', h => by
    obtain ⟨e', es', rfl, _, hes⟩ := eraseExprs_cons path e es l' h
    simp [eraseExprs_length path es es' hes]

theorem eraseExprs_mem (path : Bytes) : ∀ (es : List PExpr) (es' : List Expr),
    eraseExprs path es = some es' → ∀ x' ∈ es', ∃ x ∈ es, eraseExpr path x = some x'
  | [], es', h, x', hx => by simp only [eraseExprs, Option.some.injEq] at h; subst h; cases hx
  | e :: es, l', h, x', hx => by
    obtain ⟨e', es', rfl, he, hes⟩ := eraseExprs_cons path e es l' h
    rcases List.mem_cons.mp hx with rfl | hx
    · exact ⟨e, List.mem_cons_self, he⟩
    · obtain ⟨x, hxm, hxe⟩ := eraseExprs_mem path es es' hes x' hx
      exact ⟨x, List.mem_cons_of_mem _ hxm, hxe⟩

theorem eraseExprs_any (path : Bytes) : ∀ (es : List PExpr) (es' : List Expr),
    eraseExprs path es = some es' → es'.any Eval.isUnderscore = es.any PExpr.isUnd
  | [], es', h => by simp only [eraseExprs, Option.some.injEq] at h; subst h; rfl
  | e :: es, l', h => by
    obtain ⟨e', es', rfl, he, hes⟩ := eraseExprs_cons path e es l' h
    simp only [List.any_cons, eraseExpr_isUnd path e e' he, eraseExprs_any path es es' hes]

theorem eraseExprs_slot (path : Bytes) (es : List PExpr) (es' : List Expr) (slot : Bool)
    (h : eraseExprs path es = some es') (hs : SlotShape es slot) : Eval.SlotOk es' slot := by
  unfold Eval.SlotOk
  rw [eraseExprs_any path es es' h]
  exact hs

/-! ### shaped expressions erase to well-formed expressions -/

mutual
theorem eraseExpr_wf (path : Bytes) : ∀ (e : PExpr) (e' : Expr),
    PExpr.Shaped e → eraseExpr path e = some e' → Eval.ExprWf e'
  | .ident l n, e', _, h => by cases h; trivial
  | .field l ns, e', _, h => by cases h; trivial
  | .chain l b fs, e', hs, h => by
    simp only [eraseExpr, Option.bind_eq_some_iff, Option.some.injEq] at h
    obtain ⟨b', hb, rfl⟩ := h
    rw [PExpr.Shaped] at hs
    rw [Eval.ExprWf]
    exact eraseExpr_wf path b b' hs hb
  | .underscore l, e', _, h => by cases h; trivial
  | .nilLit l, e', _, h => by cases h; trivial
  | .boolLit l b, e', _, h => by cases h; trivial
  | .strLit l s, e', _, h => by cases h; trivial
  | .numLit l lit t, e', _, h => by
    have := eraseExpr_nt path _ e' h
    cases e' <;> first | trivial | (exact absurd this (by simp [ntE, PExpr.nt]))
  | .binary .add l op le r, e', hs, h => by
    simp only [eraseExpr, Option.bind_eq_some_iff, Option.some.injEq] at h
    obtain ⟨le', hle, r', hr, rfl⟩ := h
    rw [PExpr.Shaped] at hs
    rw [Eval.ExprWf]
    exact ⟨eraseExprOpt_wf path le le' hs.1 hle, eraseExpr_wf path r r' hs.2.1 hr⟩
  | .binary .mul l op (some le) r, e', hs, h => by
    simp only [eraseExpr, Option.bind_eq_some_iff, Option.some.injEq] at h
    obtain ⟨a, ha, b, hb, rfl⟩ := h
    rw [PExpr.Shaped, PExpr.ShapedOpt] at hs
    rw [Eval.ExprWf]
    exact ⟨eraseExpr_wf path le a hs.1 ha, eraseExpr_wf path r b hs.2.1 hb, mulTok_mulOp op (hs.2.2 rfl)⟩
  | .binary .cmp l op (some le) r, e', hs, h => by
    simp only [eraseExpr, Option.bind_eq_some_iff, Option.some.injEq] at h
    obtain ⟨a, ha, b, hb, rfl⟩ := h
    rw [PExpr.Shaped, PExpr.ShapedOpt] at hs
    rw [Eval.ExprWf]
    exact ⟨eraseExpr_wf path le a hs.1 ha, eraseExpr_wf path r b hs.2.1 hb⟩
  | .binary .numcmp l op (some le) r, e', hs, h => by
    simp only [eraseExpr, Option.bind_eq_some_iff, Option.some.injEq] at h
    obtain ⟨a, ha, b, hb, rfl⟩ := h
    rw [PExpr.Shaped, PExpr.ShapedOpt] at hs
    rw [Eval.ExprWf]
    exact ⟨eraseExpr_wf path le a hs.1 ha, eraseExpr_wf path r b hs.2.1 hb⟩
  | .binary .logic l op (some le) r, e', hs, h => by
    simp only [eraseExpr, Option.bind_eq_some_iff, Option.some.injEq] at h
    obtain ⟨a, ha, b, hb, rfl⟩ := h
    rw [PExpr.Shaped, PExpr.ShapedOpt] at hs
    rw [Eval.ExprWf]
    exact ⟨eraseExpr_wf path le a hs.1 ha, eraseExpr_wf path r b hs.2.1 hb⟩
  | .binary .mul l op none r, e', _, h => by simp [eraseExpr] at h
  | .binary .cmp l op none r, e', _, h => by simp [eraseExpr] at h
  | .binary .numcmp l op none r, e', _, h => by simp [eraseExpr] at h
  | .binary .logic l op none r, e', _, h => by simp [eraseExpr] at h
  | .not l e, e', hs, h => by
    simp only [eraseExpr, Option.bind_eq_some_iff, Option.some.injEq] at h
    obtain ⟨b', hb, rfl⟩ := h
    rw [PExpr.Shaped] at hs
    rw [Eval.ExprWf]
    exact eraseExpr_wf path e b' hs hb
  | .ternary l c a b, e', hs, h => by
    simp only [eraseExpr, Option.bind_eq_some_iff, Option.some.injEq] at h
    obtain ⟨c', hc, a', ha, b', hb, rfl⟩ := h
    rw [PExpr.Shaped] at hs
    rw [Eval.ExprWf]
    exact ⟨eraseExpr_wf path c c' hs.1 hc, eraseExpr_wf path a a' hs.2.1 ha, eraseExpr_wf path b b' hs.2.2 hb⟩
  | .call l b args slot, e', hs, h => by
    simp only [eraseExpr, Option.bind_eq_some_iff, Option.some.injEq] at h
    obtain ⟨b', hb, args', hargs, rfl⟩ := h
    rw [PExpr.Shaped] at hs
    rw [Eval.ExprWf]
    exact ⟨eraseExpr_wf path b b' hs.1 hb, eraseExprs_wf path args args' hs.2.1 hargs,
      eraseExprs_slot path args args' slot hargs hs.2.2⟩
  | .index l b (some i), e', hs, h => by
    simp only [eraseExpr, Option.bind_eq_some_iff, Option.some.injEq] at h
    obtain ⟨b', hb, i', hi, rfl⟩ := h
    rw [PExpr.Shaped, PExpr.ShapedOpt] at hs
    rw [Eval.ExprWf]
    exact ⟨eraseExpr_wf path b b' hs.1 hb, eraseExpr_wf path i i' hs.2 hi⟩
  | .index l b none, e', _, h => by simp [eraseExpr] at h
  | .slice l b i j, e', hs, h => by
    simp only [eraseExpr, Option.bind_eq_some_iff, Option.some.injEq] at h
    obtain ⟨b', hb, i', hi, j', hj, rfl⟩ := h
    rw [PExpr.Shaped] at hs
    rw [Eval.ExprWf]
    exact ⟨eraseExpr_wf path b b' hs.1 hb, eraseExprOpt_wf path i i' hs.2.1 hi,
      eraseExprOpt_wf path j j' hs.2.2 hj⟩
theorem eraseExprOpt_wf (path : Bytes) : ∀ (o : Option PExpr) (o' : Option Expr),
    PExpr.ShapedOpt o → eraseExprOpt path o = some o' → Eval.ExprOWf o'
  | none, o', _, h => by
    simp only [eraseExprOpt, Option.some.injEq] at h; subst h; trivial
  | some e, o', hs, h => by
    simp only [eraseExprOpt, Option.bind_eq_some_iff, Option.some.injEq] at h
    obtain ⟨e', he, rfl⟩ := h
    rw [PExpr.ShapedOpt] at hs
    rw [Eval.ExprOWf]
    exact eraseExpr_wf path e e' hs he
theorem eraseExprs_wf (path : Bytes) : ∀ (es : List PExpr) (es' : List Expr),
    PExpr.ShapedList es → eraseExprs path es = some es' → Eval.ExprsWf es'
  | [], es', _, h => by
    simp only [eraseExprs, Option.some.injEq] at h; subst h; trivial
  | e :: es, l', hs, h => by
    simp only [eraseExprs, Option.bind_eq_some_iff, Option.some.injEq] at h
    obtain ⟨e', he, es', hes, rfl⟩ := h
    rw [PExpr.ShapedList] at hs
    rw [Eval.ExprsWf]
    exact ⟨eraseExpr_wf path e e' hs.1 he, eraseExprs_wf path es es' hs.2 hes⟩
end

/-! ### assignments, commands, pipelines, parameter lists -/

/-- `setA` -/
def eraseSet (path : Bytes) (s : PSet) : Option SetN :=
  (eraseExprs path s.left).bind fun left =>
  (eraseExprs path s.right).bind fun right =>
  some { loc := ⟨path, s.line⟩, isLet := s.isLet, lookup := s.lookup, left := left, right := right }

/-- `match set with | none => pure none | some x => do pure (some (← setA path x))` -/
def eraseSetOpt (path : Bytes) : Option PSet → Option (Option SetN)
  | none => some none
  | some x => (eraseSet path x).bind fun x' => some (some x')

/-- `cmdA`: a nil argument list erases to `([], false)` -/
def eraseCmd (path : Bytes) (c : PCmd) : Option Cmd :=
  (match c.args with
   | none => some (([] : List Expr), false)
   | some as => (eraseExprs path as).bind fun as' => some (as', true)).bind fun an =>
  (eraseExpr path c.base).bind fun base =>
  some { loc := ⟨path, c.line⟩, base := base, args := an.1, argsNonNil := an.2, hasSlot := c.hasSlot }

/-- `cmds.mapM (cmdA path)` -/
def eraseCmds (path : Bytes) : List PCmd → Option (List Cmd)
  | [] => some []
  | c :: cs =>
    (eraseCmd path c).bind fun c' =>
    (eraseCmds path cs).bind fun cs' => some (c' :: cs')

/-- `pipeA` -/
def erasePipe (path : Bytes) (p : PPipe) : Option Pipe :=
  (eraseCmds path p.cmds).bind fun cmds => some { loc := ⟨path, p.line⟩, cmds := cmds }

/-- `match pipe with | none => pure none | some x => do pure (some (← pipeA path x))` -/
def erasePipeOpt (path : Bytes) : Option PPipe → Option (Option Pipe)
  | none => some none
  | some x => (erasePipe path x).bind fun x' => some (some x')

/-- `paramsA` -/
def eraseParams (path : Bytes) : List PParam → Option (List Param)
  | [] => some []
  | p :: ps =>
    (eraseExprOpt path p.dflt).bind fun d =>
    (eraseParams path ps).bind fun ps' => some ({ name := p.name, dflt := d } :: ps')

/-- `match params with | none => pure none | some x => do pure (some (← paramsA path x))` -/
def eraseParamsOpt (path : Bytes) : Option (List PParam) → Option (Option (List Param))
  | none => some none
  | some x => (eraseParams path x).bind fun x' => some (some x')

theorem eraseExprs_wf' (path : Bytes) (es : List PExpr) (es' : List Expr) (hs : Shp.ok es)
    (h : eraseExprs path es = some es') : Eval.ExprsWf es' :=
  eraseExprs_wf path es es' ((PExpr.shapedList_iff es).mpr hs) h

theorem eraseExprOpt_wf' (path : Bytes) (o : Option PExpr) (o' : Option Expr) (hs : Shp.ok o)
    (h : eraseExprOpt path o = some o') : Eval.ExprOWf o' :=
  eraseExprOpt_wf path o o' ((PExpr.shapedOpt_iff o).mpr hs) h

theorem eraseSet_wf {path : Bytes} {s : PSet} {s' : SetN} (hs : PSet.Shaped s) (hl : PSet.LenOk s)
    (h : eraseSet path s = some s') : Eval.SetWf s' := by
  simp only [eraseSet, Option.bind_eq_some_iff, Option.some.injEq] at h
  obtain ⟨left, hleft, right, hright, rfl⟩ := h
  obtain ⟨hsl, hsr, hla, hlne, hrne, hlk⟩ := hs
  have hll := eraseExprs_length path _ _ hleft
  have hrl := eraseExprs_length path _ _ hright
  refine ⟨eraseExprs_wf' path _ _ hsr hright, ?_, ?_, ?_⟩
  · intro l hl
    obtain ⟨x, hx, hxe⟩ := eraseExprs_mem path _ _ hleft l hl
    exact eraseExpr_leftOk path _ x l (hla x hx) hxe
  · intro hk
    have h2 : left.length = 2 := by rw [hll]; exact hlk hk
    have hr0 : right ≠ [] := by
      intro h0; subst h0; apply hrne; exact List.length_eq_zero_iff.mp hrl.symm
    match left, h2, right, hr0 with
    | [l0, l1], _, rgt :: rest, _ => exact ⟨l0, l1, rgt, rest, rfl, rfl⟩
  · intro hk
    show left.length ≤ right.length
    rw [hll, hrl]; exact hl hk

theorem eraseSet_rangeWf {path : Bytes} {s : PSet} {s' : SetN} (hs : PSet.Shaped s)
    (h : eraseSet path s = some s') : Eval.RangeSetWf s' := by
  simp only [eraseSet, Option.bind_eq_some_iff, Option.some.injEq] at h
  obtain ⟨left, hleft, right, hright, rfl⟩ := h
  obtain ⟨hsl, hsr, hla, hlne, hrne, hlk⟩ := hs
  have hll := eraseExprs_length path _ _ hleft
  have hrl := eraseExprs_length path _ _ hright
  refine ⟨?_, ?_, ?_⟩
  · intro h0
    have h0' : left = [] := h0
    subst h0'; apply hlne; exact List.length_eq_zero_iff.mp hll.symm
  · intro l hl
    obtain ⟨x, hx, hxe⟩ := eraseExprs_mem path _ _ hleft l hl
    exact Or.inr (eraseExpr_leftSetOk path _ x l (hla x hx) hxe)
  · have hw := eraseExprs_wf' path _ _ hsr hright
    have hr0 : right ≠ [] := by
      intro h0; subst h0; apply hrne; exact List.length_eq_zero_iff.mp hrl.symm
    match right, hr0, hw with
    | rgt :: rest, _, hw =>
      rw [Eval.ExprsWf] at hw
      exact ⟨rgt, rest, rfl, hw.1⟩

theorem eraseSetOpt_wf {path : Bytes} {o : Option PSet} {o' : Option SetN} (hs : Shp.ok o)
    (hl : PSet.LenOkOpt o) (h : eraseSetOpt path o = some o') : Eval.SetOWf o' := by
  cases o with
  | none => simp only [eraseSetOpt, Option.some.injEq] at h; subst h; trivial
  | some x =>
    simp only [eraseSetOpt, Option.bind_eq_some_iff, Option.some.injEq] at h
    obtain ⟨x', hx, rfl⟩ := h
    exact eraseSet_wf (hs x rfl) hl hx

theorem eraseCmd_wf {path : Bytes} {c : PCmd} {c' : Cmd} (hs : PCmd.Shaped c)
    (h : eraseCmd path c = some c') : ∀ first, Eval.CmdWf first c' := by
  intro first
  obtain ⟨hb, ha, hsl⟩ := hs
  simp only [eraseCmd, Option.bind_eq_some_iff, Option.some.injEq] at h
  obtain ⟨an, han, base, hbase, rfl⟩ := h
  have hbw : Eval.ExprWf base := eraseExpr_wf path _ _ hb hbase
  cases hargs : c.args with
  | none =>
    rw [hargs] at han
    simp only [Option.some.injEq] at han
    subst han
    exact ⟨hbw, trivial, fun _ hany => by cases hany⟩
  | some as =>
    rw [hargs] at han
    simp only [Option.bind_eq_some_iff, Option.some.injEq] at han
    obtain ⟨as', has, rfl⟩ := han
    refine ⟨hbw, eraseExprs_wf' path as as' (ha as hargs) has, fun _ => ?_⟩
    have : c.argList = as := by simp [PCmd.argList, hargs]
    rw [this] at hsl
    exact eraseExprs_slot path as as' _ has hsl

theorem eraseCmds_cons (path : Bytes) (c : PCmd) (cs : List PCmd) (l' : List Cmd)
    (h : eraseCmds path (c :: cs) = some l') :
    ∃ c' cs', l' = c' :: cs' ∧ eraseCmd path c = some c' ∧ eraseCmds path cs = some cs' := by
  simp only [eraseCmds, Option.bind_eq_some_iff, Option.some.injEq] at h
  obtain ⟨c', hc, cs', hcs, rfl⟩ := h
  exact ⟨c', cs', rfl, hc, hcs⟩

theorem eraseCmds_wf (path : Bytes) : ∀ (cs : List PCmd) (cs' : List Cmd),
    (∀ c ∈ cs, PCmd.Shaped c) → eraseCmds path cs = some cs' → ∀ c' ∈ cs', ∀ first, Eval.CmdWf first c'
  | [], cs', _, h, c', hc' => by simp only [eraseCmds, Option.some.injEq] at h; subst h; cases hc'
  | c :: cs, l', hs, h, x', hx => by
    obtain ⟨c', cs', rfl, hc, hcs⟩ := eraseCmds_cons path c cs l' h
    rcases List.mem_cons.mp hx with rfl | hx
    · exact eraseCmd_wf (hs c List.mem_cons_self) hc
    · exact eraseCmds_wf path cs cs' (fun d hd => hs d (List.mem_cons_of_mem _ hd)) hcs x' hx

theorem erasePipe_wf {path : Bytes} {p : PPipe} {p' : Pipe} (hs : PPipe.Shaped p)
    (h : erasePipe path p = some p') : Eval.PipeWf p' := by
  simp only [erasePipe, Option.bind_eq_some_iff, Option.some.injEq] at h
  obtain ⟨cmds, hcmds, rfl⟩ := h
  obtain ⟨hne, hok⟩ := hs
  have hall := eraseCmds_wf path p.cmds cmds hok hcmds
  cases hpc : p.cmds with
  | nil => exact absurd hpc hne
  | cons c cs =>
    rw [hpc] at hcmds
    obtain ⟨c', cs', rfl, _, _⟩ := eraseCmds_cons path c cs cmds hcmds
    show Eval.CmdWf true c' ∧ ∀ d ∈ cs', Eval.CmdWf false d
    exact ⟨hall c' List.mem_cons_self true, fun d hd => hall d (List.mem_cons_of_mem _ hd) false⟩

theorem erasePipeOpt_wf {path : Bytes} {o : Option PPipe} {o' : Option Pipe} (hs : Shp.ok o)
    (h : erasePipeOpt path o = some o') : Eval.PipeOWf o' := by
  cases o with
  | none => simp only [erasePipeOpt, Option.some.injEq] at h; subst h; trivial
  | some x =>
    simp only [erasePipeOpt, Option.bind_eq_some_iff, Option.some.injEq] at h
    obtain ⟨x', hx, rfl⟩ := h
    exact erasePipe_wf (hs x rfl) hx

theorem eraseParams_wf {path : Bytes} : ∀ {ps : List PParam} {ps' : List Param},
    Shp.ok ps → eraseParams path ps = some ps' → Eval.ParamsWf ps'
  | [], ps', _, h => by
    simp only [eraseParams, Option.some.injEq] at h; subst h
    intro p hp; cases hp
  | p :: ps, l', hs, h => by
    simp only [eraseParams, Option.bind_eq_some_iff, Option.some.injEq] at h
    obtain ⟨d, hd, ps', hps, rfl⟩ := h
    intro q hq
    rcases List.mem_cons.mp hq with rfl | hq
    · exact eraseExprOpt_wf' path p.dflt d (hs p List.mem_cons_self) hd
    · exact eraseParams_wf (ps := ps) (fun a ha => hs a (List.mem_cons_of_mem _ ha)) hps q hq

theorem eraseParamsOpt_wf {path : Bytes} {o : Option (List PParam)} {o' : Option (List Param)}
    (hs : Shp.ok o) (h : eraseParamsOpt path o = some o') : Eval.ParamsOWf o' := by
  cases o with
  | none => simp only [eraseParamsOpt, Option.some.injEq] at h; subst h; trivial
  | some x =>
    simp only [eraseParamsOpt, Option.bind_eq_some_iff, Option.some.injEq] at h
    obtain ⟨x', hx, rfl⟩ := h
    exact eraseParams_wf (hs x rfl) hx

theorem eraseParamsOpt_isSome {path : Bytes} {o : Option (List PParam)} {o' : Option (List Param)}
    (h : eraseParamsOpt path o = some o') : o'.isSome = o.isSome := by
  cases o with
  | none => simp only [eraseParamsOpt, Option.some.injEq] at h; subst h; rfl
  | some x =>
    simp only [eraseParamsOpt, Option.bind_eq_some_iff, Option.some.injEq] at h
    obtain ⟨x', hx, rfl⟩ := h
    rfl

/-- the header of a range: the assignment if there is one, else the expression -/
theorem eraseRangeHead_wf {path : Bytes} {set : Option PSet} {e : Option PExpr} {s' : Option SetN}
    {e' : Option Expr} (hs : Shp.ok set) (hne : set = none → e ≠ none) (he : Shp.ok e)
    (h1 : eraseSetOpt path set = some s') (h2 : eraseExprOpt path e = some e') :
    Eval.RangeHeadWf s' e' := by
  cases set with
  | some x =>
    simp only [eraseSetOpt, Option.bind_eq_some_iff, Option.some.injEq] at h1
    obtain ⟨x', hx, rfl⟩ := h1
    exact eraseSet_rangeWf (hs x rfl) hx
  | none =>
    simp only [eraseSetOpt, Option.some.injEq] at h1; subst h1
    cases e with
    | none => exact absurd rfl (hne rfl)
    | some c =>
      simp only [eraseExprOpt, Option.bind_eq_some_iff, Option.some.injEq] at h2
      obtain ⟨c', hc, rfl⟩ := h2
      exact eraseExpr_wf path c c' (he c rfl) hc

/-! ### statements -/

mutual
/-- `stmtA` -/
def eraseStmt (path : Bytes) : PStmt → Option Stmt
  | .text l b => some (.text ⟨path, l⟩ b)
  | .action l set pipe =>
    (eraseSetOpt path set).bind fun s =>
    (erasePipeOpt path pipe).bind fun p => some (.action ⟨path, l⟩ s p)
  | .branch isIf l set e _ list els =>
    (eraseSetOpt path set).bind fun s =>
    (eraseStmts path list).bind fun body =>
    (eraseEls path els).bind fun el =>
    if isIf then
      match e with
      | some c => (eraseExpr path c).bind fun c' => some (.ifS ⟨path, l⟩ s c' body el)
      | none => none
    else (eraseExprOpt path e).bind fun e' => some (.rangeS ⟨path, l⟩ s e' body el)
  | .block l name params ctx _ list content =>
    (eraseParams path params).bind fun ps =>
    (eraseExprOpt path ctx).bind fun ctx' =>
    (eraseStmts path list).bind fun body =>
    (eraseEls path content).bind fun content' => some (.block ⟨path, l⟩ name ps ctx' body content')
  | .yield l name params ctx content isC =>
    (eraseParamsOpt path params).bind fun ps =>
    (eraseExprOpt path ctx).bind fun ctx' =>
    (eraseEls path content).bind fun content' => some (.yield ⟨path, l⟩ name ps ctx' content' isC)
  | .include l name ctx =>
    (eraseExpr path name).bind fun name' =>
    (eraseExprOpt path ctx).bind fun ctx' => some (.include ⟨path, l⟩ name' ctx')
  | .tryS l _ list none =>
    (eraseStmts path list).bind fun body => some (.tryS ⟨path, l⟩ body false none none)
  | .tryS l _ list (some (_, ev, _, clist)) =>
    (eraseStmts path list).bind fun body =>
    (eraseStmts path clist).bind fun cb => some (.tryS ⟨path, l⟩ body true (ev.map (·.2)) (some cb))
  | .ret l e => (eraseExpr path e).bind fun e' => some (.ret ⟨path, l⟩ e')
  | .endM => none
  | .elseM _ => none
  | .contentM => none
  | .catchM _ _ _ _ => none
/-- `ns.mapM (stmtA path)` -/
def eraseStmts (path : Bytes) : List PStmt → Option (List Stmt)
  | [] => some []
  | s :: ss =>
    (eraseStmt path s).bind fun s' =>
    (eraseStmts path ss).bind fun ss' => some (s' :: ss')
/-- `optListA` -/
def eraseEls (path : Bytes) : Option (Nat × List PStmt) → Option (Option (List Stmt))
  | none => some none
  | some (_, ns) => (eraseStmts path ns).bind fun ns' => some (some ns')
end

/-- the tree `parseFile` hands to the store (its block table is filled in by `withBlocks`) -/
def eraseTmpl (path : Bytes) (t : PTmpl) : Option Tmpl :=
  (eraseStmts path t.root).map fun root =>
    { name := t.name, ext := t.ext, imports := t.imports, blocks := [], root := root }

mutual
theorem eraseStmt_wf (path : Bytes) : ∀ (s : PStmt) (s' : Stmt),
    PStmt.Shaped s → eraseStmt path s = some s' → Eval.StmtWf s'
  | .text l b, s', _, h => by cases h; trivial
  | .action l set pipe, s', hs, h => by
    simp only [eraseStmt, Option.bind_eq_some_iff, Option.some.injEq] at h
    obtain ⟨st, hst, p, hp, rfl⟩ := h
    rw [PStmt.Shaped] at hs
    rw [Eval.StmtWf]
    exact ⟨eraseSetOpt_wf hs.1 hs.2.1 hst, erasePipeOpt_wf hs.2.2 hp⟩
  | .branch isIf l set e ll list els, s', hs, h => by
    simp only [eraseStmt, Option.bind_eq_some_iff] at h
    obtain ⟨st, hst, body, hbody, el, hel, h⟩ := h
    rw [PStmt.Shaped] at hs
    obtain ⟨hset, hlen, hne, he, hlist, hels⟩ := hs
    have hbw := eraseStmts_wf path list body hlist hbody
    have hew := eraseEls_wf path els el hels hel
    cases isIf with
    | true =>
      cases e with
      | none => simp at h
      | some c =>
        simp only [if_true, Option.bind_eq_some_iff, Option.some.injEq] at h
        obtain ⟨c', hc, rfl⟩ := h
        rw [Eval.StmtWf]
        exact ⟨eraseSetOpt_wf hset (hlen rfl) hst, eraseExpr_wf path c c' (he c rfl) hc, hbw, hew⟩
    | false =>
      simp only [Bool.false_eq_true, if_false, Option.bind_eq_some_iff, Option.some.injEq] at h
      obtain ⟨e', he', rfl⟩ := h
      rw [Eval.StmtWf]
      exact ⟨eraseRangeHead_wf hset hne he hst he', hbw, hew⟩
  | .block l name params ctx ll list content, s', hs, h => by
    simp only [eraseStmt, Option.bind_eq_some_iff, Option.some.injEq] at h
    obtain ⟨ps, hps, ctx', hctx, body, hbody, content', hcontent, rfl⟩ := h
    rw [PStmt.Shaped] at hs
    rw [Eval.StmtWf]
    exact ⟨eraseParams_wf hs.1 hps, eraseExprOpt_wf' path ctx ctx' hs.2.1 hctx,
      eraseStmts_wf path list body hs.2.2.1 hbody, eraseEls_wf path content content' hs.2.2.2 hcontent⟩
  | .yield l name params ctx content isC, s', hs, h => by
    simp only [eraseStmt, Option.bind_eq_some_iff, Option.some.injEq] at h
    obtain ⟨ps, hps, ctx', hctx, content', hcontent, rfl⟩ := h
    rw [PStmt.Shaped] at hs
    rw [Eval.StmtWf]
    exact ⟨fun hc => by rw [eraseParamsOpt_isSome hps]; exact hs.1 hc, eraseParamsOpt_wf hs.2.1 hps,
      eraseExprOpt_wf' path ctx ctx' hs.2.2.1 hctx, eraseEls_wf path content content' hs.2.2.2 hcontent⟩
  | .include l name ctx, s', hs, h => by
    simp only [eraseStmt, Option.bind_eq_some_iff, Option.some.injEq] at h
    obtain ⟨name', hname, ctx', hctx, rfl⟩ := h
    rw [PStmt.Shaped] at hs
    rw [Eval.StmtWf]
    exact ⟨eraseExpr_wf path name name' hs.1 hname, eraseExprOpt_wf' path ctx ctx' hs.2 hctx⟩
  | .tryS l ll list none, s', hs, h => by
    simp only [eraseStmt, Option.bind_eq_some_iff, Option.some.injEq] at h
    obtain ⟨body, hbody, rfl⟩ := h
    rw [PStmt.Shaped] at hs
    rw [Eval.StmtWf]
    exact ⟨eraseStmts_wf path list body hs.1 hbody, trivial⟩
  | .tryS l ll list (some (cl, ev, cll, clist)), s', hs, h => by
    simp only [eraseStmt, Option.bind_eq_some_iff, Option.some.injEq] at h
    obtain ⟨body, hbody, cb, hcb, rfl⟩ := h
    rw [PStmt.Shaped, PStmt.ShapedCatch] at hs
    rw [Eval.StmtWf]
    exact ⟨eraseStmts_wf path list body hs.1 hbody, eraseStmts_wf path clist cb hs.2 hcb⟩
  | .ret l e, s', hs, h => by
    simp only [eraseStmt, Option.bind_eq_some_iff, Option.some.injEq] at h
    obtain ⟨e', he, rfl⟩ := h
    rw [PStmt.Shaped] at hs
    rw [Eval.StmtWf]
    exact eraseExpr_wf path e e' hs he
  | .endM, s', _, h => by simp [eraseStmt] at h
  | .elseM _, s', _, h => by simp [eraseStmt] at h
  | .contentM, s', _, h => by simp [eraseStmt] at h
  | .catchM _ _ _ _, s', _, h => by simp [eraseStmt] at h
theorem eraseStmts_wf (path : Bytes) : ∀ (l : List PStmt) (l' : List Stmt),
    PStmt.ShapedList l → eraseStmts path l = some l' → Eval.StmtsWf l'
  | [], l', _, h => by
    simp only [eraseStmts, Option.some.injEq] at h; subst h; trivial
  | s :: ss, l', hs, h => by
    simp only [eraseStmts, Option.bind_eq_some_iff, Option.some.injEq] at h
    obtain ⟨s', hs', ss', hss', rfl⟩ := h
    rw [PStmt.ShapedList] at hs
    rw [Eval.StmtsWf]
    exact ⟨eraseStmt_wf path s s' hs.1 hs', eraseStmts_wf path ss ss' hs.2 hss'⟩
theorem eraseEls_wf (path : Bytes) : ∀ (o : Option (Nat × List PStmt)) (o' : Option (List Stmt)),
    PStmt.ShapedEls o → eraseEls path o = some o' → Eval.StmtsOWf o'
  | none, o', _, h => by
    simp only [eraseEls, Option.some.injEq] at h; subst h; trivial
  | some (n, ns), o', hs, h => by
    simp only [eraseEls, Option.bind_eq_some_iff, Option.some.injEq] at h
    obtain ⟨ns', hns, rfl⟩ := h
    rw [PStmt.ShapedEls] at hs
    rw [Eval.StmtsOWf]
    exact eraseStmts_wf path ns ns' hs hns
end

theorem eraseTmpl_wf {path : Bytes} {t : PTmpl} {t' : Tmpl} (hs : ∀ n ∈ t.root, PStmt.Shaped n)
    (h : eraseTmpl path t = some t') : Eval.TmplWf t' := by
  simp only [eraseTmpl, Option.map_eq_some_iff] at h
  obtain ⟨root, hroot, rfl⟩ := h
  refine ⟨?_, eraseStmts_wf path t.root root ((PStmt.shapedList_iff _).mpr hs) hroot⟩
  intro p hp; cases hp

/-! ### the block tables -/

theorem StmtsWf_mem : ∀ {l : List Stmt}, Eval.StmtsWf l → ∀ s ∈ l, Eval.StmtWf s
  | [], _, _, h => by cases h
  | x :: xs, hw, s, h => by
    rw [Eval.StmtsWf] at hw
    rcases List.mem_cons.mp h with rfl | h
    · exact hw.1
    · exact StmtsWf_mem hw.2 s h

theorem BlocksWf_nil : Eval.BlocksWf [] := by intro p hp; cases hp

theorem BlocksWf_append {a b : List (Bytes × BlockN)} (ha : Eval.BlocksWf a) (hb : Eval.BlocksWf b) :
    Eval.BlocksWf (a ++ b) := by
  intro p hp
  rcases List.mem_append.mp hp with h | h
  · exact ha p h
  · exact hb p h

theorem ownRegs_wf : ∀ (fuel : Nat) (l : List Stmt), Eval.StmtsWf l → Eval.BlocksWf (Blocks.ownRegs fuel l)
  | 0, _, _ => by rw [Blocks.ownRegs]; exact BlocksWf_nil
  | fuel + 1, l, hl => by
    have ih := ownRegs_wf fuel
    have iho : ∀ o : Option (List Stmt), Eval.StmtsOWf o →
        Eval.BlocksWf (match o with | some c => Blocks.ownRegs fuel c | none => []) := by
      intro o ho
      cases o with
      | none => exact BlocksWf_nil
      | some c => exact ih c ho
    rw [Blocks.ownRegs]
    intro p hp
    obtain ⟨s, hsl, hps⟩ := List.mem_flatMap.mp hp
    have hs := StmtsWf_mem hl s hsl
    clear hp
    revert p
    show Eval.BlocksWf _
    cases s with
    | block loc name params ctx body content =>
      rw [Eval.StmtWf] at hs
      refine BlocksWf_append (BlocksWf_append (ih body hs.2.2.1) (iho content hs.2.2.2)) ?_
      intro p hp
      rw [List.mem_singleton] at hp
      subst hp
      exact ⟨hs.1, hs.2.1, hs.2.2.1, hs.2.2.2⟩
    | ifS loc set cond thn els =>
      rw [Eval.StmtWf] at hs
      exact BlocksWf_append (ih thn hs.2.2.1) (iho els hs.2.2.2)
    | rangeS loc set e body els =>
      rw [Eval.StmtWf] at hs
      exact BlocksWf_append (ih body hs.2.1) (iho els hs.2.2)
    | yield loc name params ctx content isC =>
      rw [Eval.StmtWf] at hs
      exact iho content hs.2.2.2
    | tryS loc body hc cv cb =>
      rw [Eval.StmtWf] at hs
      exact BlocksWf_append (ih body hs.1) (iho cb hs.2)
    | _ => exact BlocksWf_nil

theorem mem_aset {β} (k : Bytes) (v : β) : ∀ (t : List (Bytes × β)) (p : Bytes × β),
    p ∈ Eval.aset k v t → p = (k, v) ∨ p ∈ t
  | [], p, h => by
    rw [Eval.aset, List.mem_singleton] at h
    exact Or.inl h
  | (k', v') :: rest, p, h => by
    rw [Eval.aset] at h
    split at h
    · rcases List.mem_cons.mp h with h | h
      · exact Or.inl h
      · exact Or.inr (List.mem_cons_of_mem _ h)
    · rcases List.mem_cons.mp h with h | h
      · exact Or.inr (h ▸ List.mem_cons_self)
      · rcases mem_aset k v rest p h with h | h
        · exact Or.inl h
        · exact Or.inr (List.mem_cons_of_mem _ h)

theorem aset_wf (k : Bytes) (v : BlockN) (t : List (Bytes × BlockN)) (hv : Eval.BlockWf v)
    (ht : Eval.BlocksWf t) : Eval.BlocksWf (Eval.aset k v t) := by
  intro p hp
  rcases mem_aset k v t p hp with rfl | h
  · exact hv
  · exact ht p h

theorem addAll_wf : ∀ (src t : List (Bytes × BlockN)), Eval.BlocksWf t → Eval.BlocksWf src →
    Eval.BlocksWf (Blocks.addAll t src)
  | [], t, ht, _ => ht
  | kv :: src, t, ht, hsrc => by
    show Eval.BlocksWf (Blocks.addAll (Eval.aset kv.1 kv.2 t) src)
    exact addAll_wf src _ (aset_wf _ _ _ (hsrc kv List.mem_cons_self) ht)
      (fun p hp => hsrc p (List.mem_cons_of_mem _ hp))

theorem foldl_addAll_wf : ∀ (imports : List (List (Bytes × BlockN))) (ext : List (Bytes × BlockN)),
    Eval.BlocksWf ext → (∀ i ∈ imports, Eval.BlocksWf i) → Eval.BlocksWf (imports.foldl Blocks.addAll ext)
  | [], ext, he, _ => he
  | i :: imports, ext, he, hi => by
    rw [List.foldl_cons]
    exact foldl_addAll_wf imports _ (addAll_wf i ext he (hi i List.mem_cons_self))
      (fun j hj => hi j (List.mem_cons_of_mem _ hj))

theorem processed_wf (ext : List (Bytes × BlockN)) (imports : List (List (Bytes × BlockN)))
    (own : List (Bytes × BlockN)) (he : Eval.BlocksWf ext) (hi : ∀ i ∈ imports, Eval.BlocksWf i)
    (ho : Eval.BlocksWf own) : Eval.BlocksWf (Blocks.processed ext imports own) :=
  addAll_wf own _ (foldl_addAll_wf imports ext he hi) ho

theorem tableOf_wf (store : List (Bytes × Option Tmpl))
    (h : ∀ p ∈ store, ∀ t, p.2 = some t → Eval.StmtsWf t.root) :
    ∀ (fuel : Nat) (name : Bytes), Eval.BlocksWf (Blocks.tableOf store fuel name)
  | 0, _ => by rw [Blocks.tableOf]; exact BlocksWf_nil
  | fuel + 1, name => by
    rw [Blocks.tableOf]
    split
    · rename_i n t hf
      have hmem := List.mem_of_find?_eq_some hf
      apply processed_wf
      · cases t.ext with
        | none => exact BlocksWf_nil
        | some e => exact tableOf_wf store h fuel e
      · intro i hi
        obtain ⟨nm, _, rfl⟩ := List.mem_map.mp hi
        exact tableOf_wf store h fuel nm
      · exact ownRegs_wf 64 t.root (h _ hmem t rfl)
    · exact BlocksWf_nil

/-- the last step of `execSrcCmd`: every usable template gets its effective block table -/
def withBlocks (usable : List (Bytes × Option Tmpl)) : List (Bytes × Option Tmpl) :=
  usable.map fun (p, t) => (p, t.map fun tm => { tm with blocks := Blocks.tableOf usable 32 p })

theorem withBlocks_envWf (usable : List (Bytes × Option Tmpl))
    (h : ∀ p ∈ usable, ∀ t, p.2 = some t → Eval.StmtsWf t.root) (env : Eval.Env)
    (hs : env.store = withBlocks usable) : Eval.EnvWf env := by
  intro p hp t ht
  rw [hs, withBlocks] at hp
  obtain ⟨⟨q, tq⟩, hq, rfl⟩ := List.mem_map.mp hp
  simp only [Option.map_eq_some_iff] at ht
  obtain ⟨tm, rfl, rfl⟩ := ht
  exact ⟨tableOf_wf usable h 32 q, h _ hq tm rfl⟩

end JetVerif.Parse
