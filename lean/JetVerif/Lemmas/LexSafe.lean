/-
  A Hoare logic for the lexer monad and the bounds invariant of lex.go's cursor arithmetic:
  `0 ≤ start ≤ pos ≤ len(input)`, and after a `next` the rune just read can be given back
  (`start ≤ pos - width`).  Used by Lemmas/LexNoCrash.lean to show that no state function ever
  slices or indexes out of range and that every loop ends within the fuel the model gives it.
-/
import JetVerif.Model.Lex

namespace JetVerif.Lex
open JetVerif.Utf8

/-- `m` started in a state satisfying `P` does not crash, and leaves a state satisfying `Q` -/
def LSafe {α} (P : St → Prop) (m : M α) (Q : α → St → Prop) : Prop :=
  ∀ s, P s → match m s with
    | .ok a s' => Q a s'
    | .crash _ _ => False

theorem lbind_apply {α β} (m : M α) (f : α → M β) (s : St) :
    (m >>= f) s = (match m s with | .ok a s' => f a s' | .crash msg s' => .crash msg s') := rfl

theorem LSafe.bind {α β} {P : St → Prop} {m : M α} {Q : α → St → Prop} {f : α → M β} {R : β → St → Prop}
    (hm : LSafe P m Q) (hf : ∀ a, LSafe (Q a) (f a) R) : LSafe P (m >>= f) R := by
  intro s hs
  have h1 := hm s hs
  rw [lbind_apply]
  cases hms : m s with
  | ok a s' => rw [hms] at h1; exact hf a s' h1
  | crash msg s' => rw [hms] at h1; exact h1.elim

theorem LSafe.pure {α} {P : St → Prop} {Q : α → St → Prop} (a : α) (h : ∀ s, P s → Q a s) :
    LSafe P (pure a : M α) Q := fun s hs => h s hs

theorem LSafe.weaken {α} {P P' : St → Prop} {m : M α} {Q Q' : α → St → Prop}
    (h : LSafe P m Q) (hp : ∀ s, P' s → P s) (hq : ∀ a s, Q a s → Q' a s) : LSafe P' m Q' := by
  intro s hs
  have := h s (hp s hs)
  cases hms : m s with
  | ok a s' => rw [hms] at this; exact hq a s' this
  | crash msg s' => rw [hms] at this; exact this.elim

theorem LSafe.pre {α} {P P' : St → Prop} {m : M α} {Q : α → St → Prop}
    (h : LSafe P m Q) (hp : ∀ s, P' s → P s) : LSafe P' m Q := h.weaken hp (fun _ _ h => h)

theorem LSafe.post {α} {P : St → Prop} {m : M α} {Q Q' : α → St → Prop}
    (h : LSafe P m Q) (hq : ∀ a s, Q a s → Q' a s) : LSafe P m Q' := h.weaken (fun _ h => h) hq

theorem LSafe.ite {α} {P : St → Prop} {c : Prop} [Decidable c] {m1 m2 : M α} {Q : α → St → Prop}
    (h1 : c → LSafe P m1 Q) (h2 : ¬ c → LSafe P m2 Q) : LSafe P (if c then m1 else m2) Q := by
  by_cases hc : c
  · simp [hc]; exact h1 hc
  · simp [hc]; exact h2 hc

theorem LSafe.assume {α} {P : St → Prop} {m : M α} {Q : α → St → Prop} (φ : Prop)
    (h1 : ∀ s, P s → φ) (h2 : φ → LSafe P m Q) : LSafe P m Q := fun s hs => h2 (h1 s hs) s hs

/-- `get` hands out the current state -/
theorem LSafe.get {P : St → Prop} : LSafe P get (fun a s => a = s ∧ P s) := fun _ hs => ⟨rfl, hs⟩

theorem LSafe.modify {P : St → Prop} {Q : St → Prop} (f : St → St) (h : ∀ s, P s → Q (f s)) :
    LSafe P (modify f) (fun _ s => Q s) := fun s hs => h s hs

/-! ### the invariant -/

/-- the delimiter configuration `lex()` / `setDelimiters` produce -/
structure WfD (d : Delims) : Prop where
  left : d.left ≠ []
  lcomment : d.lcomment ≠ []
  right : d.right ≠ []
  trimRight : d.trimRight = rightTrimMarker ++ d.right

theorem mkDelims_wf (l r lc rc : Bytes) : WfD (mkDelims l r lc rc) := by
  refine ⟨?_, ?_, ?_, rfl⟩
  · simp only [mkDelims]; split <;> simp_all [defaultDelims]
  · simp only [mkDelims]; split <;> simp_all [defaultDelims]
  · simp only [mkDelims]; split <;> simp_all [defaultDelims]

/-- what every event already recorded satisfies: positions inside the source -/
def EvOk (len : Int) : Event → Prop
  | .emit _ a b _ => 0 ≤ a ∧ a ≤ b ∧ b ≤ len
  | .ignore _ a b => 0 ≤ a ∧ a ≤ b ∧ b ≤ len
  | .err a _ => 0 ≤ a ∧ a ≤ len

/-- a field item is a dot followed by at least one byte -/
def FieldEv : Event → Prop
  | .emit t _ _ v => t = Tok.field → ∃ c cs, v = 46 :: c :: cs
  | _ => True

/-- only spaces, tabs, CRs and LFs -/
def AllSpace (b : Bytes) : Prop := ∀ c ∈ b, isSpaceByte c = true

/-- what each of the five `l.ignore()` sites may drop -/
def IgnK (d : Delims) : IgnKind → Bytes → Prop
  | .trimLeft, v => AllSpace v
  | .markLeft, v => v = leftTrimMarker
  | .comment, v => ∃ body, v = d.lcomment ++ body ++ d.rcomment
  | .markRight, v => ∃ ws, AllSpace ws ∧ v = ws ++ rightTrimMarker
  | .trimRight, v => AllSpace v

/-- every range the lexer dropped is a whitespace run, a trim marker (with the space item pending in
    front of it) or a whole comment -/
def IgnEv (inp : Bytes) (d : Delims) : Event → Prop
  | .ignore k a b => IgnK d k ((inp.drop a.toNat).take (b - a).toNat)
  | _ => True

/-- the cursor invariant between operations -/
structure B (inp : Bytes) (d : Delims) (lo : Int) (s : St) : Prop where
  input : s.input = inp
  delims : s.d = d
  wfd : WfD d
  start0 : 0 ≤ s.start
  startPos : s.start ≤ s.pos
  posLen : s.pos ≤ inp.length
  events : ∀ e ∈ s.events, EvOk inp.length e
  fields : ∀ e ∈ s.events, FieldEv e
  /-- a floor under `start`: lets a caller read off how far a state function moved it -/
  low : lo ≤ s.start
  ign : ∀ e ∈ s.events, IgnEv inp d e

/-- right after a `next`: the rune just read (of width `width`) can be given back -/
structure N (inp : Bytes) (d : Delims) (lo : Int) (s : St) : Prop extends B inp d lo s where
  width0 : 0 ≤ s.width
  back : s.start ≤ s.pos - s.width

theorem decodeRune_width (b : UInt8) (rest : Bytes) :
    1 ≤ (decodeRune (b :: rest)).2 ∧ (decodeRune (b :: rest)).2 ≤ (b :: rest).length := by
  simp only [decodeRune]
  repeat' split
  all_goals first
    | (simp; done)
    | (simp; omega)

/-! ### `next`, `backup`, `peek` as equations -/

/-- the rune at the cursor and its width (`none`, 0 at the end of the input) -/
def runeAt (s : St) : Option Nat × Int :=
  if s.pos ≥ s.input.length then (none, 0)
  else ((some (decodeRune (s.input.drop s.pos.toNat)).1), ((decodeRune (s.input.drop s.pos.toNat)).2 : Int))

theorem sliceFrom_ok (inp : Bytes) (a : Int) (h0 : 0 ≤ a) (h1 : a ≤ inp.length) :
    sliceFrom inp a = some (inp.drop a.toNat) := by
  simp [sliceFrom, h0, h1]

theorem next_eq (s : St) (h0 : 0 ≤ s.pos) (h1 : s.pos ≤ s.input.length) :
    next s = .ok (runeAt s).1 { s with width := (runeAt s).2, pos := s.pos + (runeAt s).2 } := by
  unfold next runeAt
  by_cases hge : s.pos ≥ s.input.length
  · simp [hge]
  · simp only [hge, if_false]
    rw [sliceFrom_ok s.input s.pos h0 h1]

theorem runeAt_bounds (s : St) (h0 : 0 ≤ s.pos) (h1 : s.pos ≤ s.input.length) :
    0 ≤ (runeAt s).2 ∧ s.pos + (runeAt s).2 ≤ s.input.length ∧
    ((runeAt s).1.isSome → 1 ≤ (runeAt s).2) ∧ ((runeAt s).1 = none → (runeAt s).2 = 0) := by
  unfold runeAt
  by_cases hge : s.pos ≥ s.input.length
  · simp [hge]; omega
  · simp only [hge, if_false]
    have hlt : s.pos.toNat < s.input.length := by omega
    cases hd : s.input.drop s.pos.toNat with
    | nil =>
      have : (s.input.drop s.pos.toNat).length = s.input.length - s.pos.toNat := List.length_drop
      rw [hd] at this; simp at this; omega
    | cons b rest =>
      have hw := decodeRune_width b rest
      have hl : (b :: rest).length = s.input.length - s.pos.toNat := by rw [← hd]; exact List.length_drop
      refine ⟨by omega, ?_, fun _ => by omega, by simp⟩
      have : ((decodeRune (b :: rest)).2 : Int) ≤ ((b :: rest).length : Int) := by exact_mod_cast hw.2
      rw [hl] at this
      omega

theorem backup_eq (s : St) : backup s = .ok () { s with pos := s.pos - s.width } := rfl

theorem peek_eq (s : St) (h0 : 0 ≤ s.pos) (h1 : s.pos ≤ s.input.length) :
    peek s = .ok (runeAt s).1 { s with width := (runeAt s).2 } := by
  unfold peek
  rw [lbind_apply, next_eq s h0 h1]
  simp only [lbind_apply, backup_eq]
  show Res.ok _ _ = _
  congr 1
  cases s
  simp

end JetVerif.Lex
