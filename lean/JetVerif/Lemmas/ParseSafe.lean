/-
  A small Hoare logic for the parser monad and the specifications of the token-buffer
  primitives, used by Lemmas/ParseNoCrash.lean to show that the parser model never reaches a
  `crash` outcome (index out of range on the three-slot buffer, slice out of range in
  `lineNumber`, `ChainNode.Add` / `newField` on a malformed field item).
-/
import JetVerif.Lemmas.ParseExpr

namespace JetVerif.Parse

/-- what the lexer guarantees about an item: its position lies inside the source, and a field
    item is a dot followed by at least one byte -/
def WfItem (inp : Bytes) (t : Item) : Prop :=
  0 ≤ t.pos ∧ t.pos ≤ inp.length ∧ (t.typ = Tok.field → ∃ c cs, t.val = 46 :: c :: cs)

theorem wfItem_zero (inp : Bytes) : WfItem inp Item.zero := by
  refine ⟨by simp [Item.zero], by simp [Item.zero], ?_⟩
  intro h; simp [Item.zero] at h

/-- the lexer sends the end-of-file item, if it sends one, as its last item (`lexText` returns
    `nil` right after emitting it, the goroutine then closes the channel) -/
def EofLast (toks : List Item) : Prop :=
  ∀ pre t post, toks = pre ++ t :: post → t.typ = Tok.eof → post = []

theorem EofLast.tail {t : Item} {ts : List Item} (h : EofLast (t :: ts)) : EofLast ts :=
  fun pre x post e hx => h (t :: pre) x post (by simp [e]) hx

theorem EofLast.head {t : Item} {ts : List Item} (h : EofLast (t :: ts)) (ht : t.typ = Tok.eof) : ts = [] :=
  h [] t ts rfl ht

theorem eofLast_nil : EofLast [] := by
  intro pre t post e _
  simp at e

/-- once an end-of-file item sits in the look-ahead buffer, nothing is left in the channel -/
def EofOk (toks : List Item) (t0 t1 t2 : Item) : Prop :=
  EofLast toks ∧ (t0.typ = Tok.eof → toks = []) ∧ (t1.typ = Tok.eof → toks = []) ∧ (t2.typ = Tok.eof → toks = [])

structure Wf (inp : Bytes) (s : PSt) : Prop where
  input : s.input = inp
  toks : ∀ t ∈ s.toks, WfItem inp t
  t0 : WfItem inp s.t0
  t1 : WfItem inp s.t1
  t2 : WfItem inp s.t2
  last0 : 0 ≤ s.lastPos
  last1 : s.lastPos ≤ inp.length
  eof : EofOk s.toks s.t0 s.t1 s.t2

/-- well-formed state with at most `k` items pushed back -/
def Inv (inp : Bytes) (k : Nat) (s : PSt) : Prop := Wf inp s ∧ s.peekCount ≤ k

theorem Inv.mono {inp : Bytes} {k k' : Nat} {s : PSt} (h : Inv inp k s) (hk : k ≤ k') : Inv inp k' s :=
  ⟨h.1, Nat.le_trans h.2 hk⟩

/-- an error names a line of the source -/
def LineOk (inp : Bytes) (l : Nat) : Prop := 1 ≤ l ∧ l ≤ 1 + countNl inp

/-- `m` started in a state satisfying `P` does not crash; if it returns, `Q` holds; if it fails with
    an error, the line the error names satisfies `L` -/
def SafeL {α} (L : Nat → Prop) (P : PSt → Prop) (m : PM α) (Q : α → PSt → Prop) : Prop :=
  ∀ s, P s → match m s with
    | .ok a s' => Q a s'
    | .crash _ => False
    | .err l _ => L l
    | _ => True

section combinators
variable {L : Nat → Prop}

theorem SafeL.bind {α β} {P : PSt → Prop} {m : PM α} {Q : α → PSt → Prop} {f : α → PM β} {R : β → PSt → Prop}
    (hm : SafeL L P m Q) (hf : ∀ a, SafeL L (Q a) (f a) R) : SafeL L P (m >>= f) R := by
  intro s hs
  have h1 := hm s hs
  rw [bind_apply]
  cases hms : m s with
  | ok a s' => rw [hms] at h1; exact hf a s' h1
  | err l msg => rw [hms] at h1; exact h1
  | crash w => rw [hms] at h1; exact h1.elim
  | fuel => trivial
  | unsupported w => trivial

theorem SafeL.pure {α} {P : PSt → Prop} {Q : α → PSt → Prop} (a : α) (h : ∀ s, P s → Q a s) :
    SafeL L P (pure a : PM α) Q := fun s hs => h s hs

theorem SafeL.weaken {α} {P P' : PSt → Prop} {m : PM α} {Q Q' : α → PSt → Prop}
    (h : SafeL L P m Q) (hp : ∀ s, P' s → P s) (hq : ∀ a s, Q a s → Q' a s) : SafeL L P' m Q' := by
  intro s hs
  have := h s (hp s hs)
  cases hms : m s with
  | ok a s' => rw [hms] at this; exact hq a s' this
  | err l msg => rw [hms] at this; exact this
  | crash w => rw [hms] at this; exact this.elim
  | fuel => trivial
  | unsupported w => trivial

theorem SafeL.pre {α} {P P' : PSt → Prop} {m : PM α} {Q : α → PSt → Prop}
    (h : SafeL L P m Q) (hp : ∀ s, P' s → P s) : SafeL L P' m Q := h.weaken hp (fun _ _ h => h)

theorem SafeL.post {α} {P : PSt → Prop} {m : PM α} {Q Q' : α → PSt → Prop}
    (h : SafeL L P m Q) (hq : ∀ a s, Q a s → Q' a s) : SafeL L P m Q' := h.weaken (fun _ h => h) hq

theorem SafeL.ite {α} {P : PSt → Prop} {c : Prop} [Decidable c] {m1 m2 : PM α} {Q : α → PSt → Prop}
    (h1 : c → SafeL L P m1 Q) (h2 : ¬ c → SafeL L P m2 Q) : SafeL L P (if c then m1 else m2) Q := by
  by_cases hc : c
  · simp [hc]; exact h1 hc
  · simp [hc]; exact h2 hc

theorem SafeL.outOfFuel {α} {P : PSt → Prop} {Q : α → PSt → Prop} : SafeL L P (outOfFuel : PM α) Q :=
  fun _ _ => trivial

theorem SafeL.unsupported {α} {P : PSt → Prop} {Q : α → PSt → Prop} (w : String) : SafeL L P (unsupported w : PM α) Q :=
  fun _ _ => trivial

/-- a fact that holds in every state satisfying the precondition may be assumed outright -/
theorem SafeL.assume {α} {P : PSt → Prop} {m : PM α} {Q : α → PSt → Prop} (φ : Prop)
    (h1 : ∀ s, P s → φ) (h2 : φ → SafeL L P m Q) : SafeL L P m Q := fun s hs => h2 (h1 s hs) s hs

end combinators

variable (inp : Bytes)
local notation "Safe" => SafeL (LineOk inp)

/-! ### primitives -/

theorem lineNumber_safe (k : Nat) : Safe (Inv inp k) lineNumber (fun _ s => Inv inp k s) := by
  intro s hs
  obtain ⟨w, hk⟩ := hs
  have h1 : (0 : Int) ≤ 0 ∧ (0 : Int) ≤ s.lastPos ∧ s.lastPos ≤ (s.input.length : Int) := by
    refine ⟨Int.le_refl 0, w.last0, ?_⟩
    rw [w.input]; exact w.last1
  simp [lineNumber, Lex.slice, h1]
  exact ⟨w, hk⟩

theorem countNl_take_le (b : Bytes) (n : Nat) : countNl (b.take n) ≤ countNl b := by
  unfold countNl
  have h : (b.take n).Sublist b := List.take_sublist n b
  exact (h.filter _).length_le

theorem lineNumber_line (k : Nat) (s : PSt) (hs : Inv inp k s) (l : Nat) (s' : PSt)
    (h : lineNumber s = .ok l s') : LineOk inp l := by
  obtain ⟨w, _⟩ := hs
  unfold lineNumber Lex.slice at h
  split at h
  · rename_i pre hpre
    split at hpre
    · simp at hpre h
      rw [← h.1, ← hpre, w.input]
      exact ⟨by omega, by have := countNl_take_le inp s.lastPos.toNat; omega⟩
    · simp at hpre
  · simp at h

theorem errorf_safe {α} (k : Nat) (ps : List MP) (Q : α → PSt → Prop) :
    Safe (Inv inp k) (errorf ps : PM α) Q := by
  intro s hs
  have := lineNumber_safe inp k s hs
  unfold errorf
  cases h : lineNumber s with
  | ok l s' => simp; exact lineNumber_line inp k s hs l s' h
  | err l m => rw [h] at this; simp; exact this
  | crash w => rw [h] at this; exact this.elim
  | fuel => simp
  | unsupported w => simp

theorem unexpected_safe {α} (k : Nat) (tk : Item) (c e : String) (Q : α → PSt → Prop) :
    Safe (Inv inp k) (unexpected tk c e : PM α) Q := by
  unfold unexpected
  split
  · exact errorf_safe inp k _ Q
  · split
    · exact errorf_safe inp k _ Q
    · exact errorf_safe inp k _ Q

theorem nextItem_safe (k : Nat) :
    Safe (Inv inp k) nextItem (fun a s => Inv inp k s ∧ WfItem inp a ∧ (a.typ = Tok.eof → s.toks = [])) := by
  intro s hs
  obtain ⟨w, hk⟩ := hs
  unfold nextItem
  cases ht : s.toks with
  | nil =>
    simp
    have he := w.eof
    rw [ht] at he
    exact ⟨⟨⟨w.input, by simp, w.t0, w.t1, w.t2, Int.le_refl 0, by simp, he⟩, hk⟩, wfItem_zero inp⟩
  | cons t ts =>
    simp
    have wt : WfItem inp t := w.toks t (by simp [ht])
    have he := w.eof
    rw [ht] at he
    have hne : ∀ x : Item, (x.typ = Tok.eof → t :: ts = []) → (x.typ = Tok.eof → ts = []) :=
      fun x h hx => by have := h hx; simp at this
    exact ⟨⟨⟨w.input, fun x hx => w.toks x (by simp [ht, hx]), w.t0, w.t1, w.t2, wt.1, wt.2.1,
      ⟨he.1.tail, hne _ he.2.1, hne _ he.2.2.1, hne _ he.2.2.2⟩⟩, hk⟩, wt, fun h => he.1.head h⟩

/-- the item `next` is going to return when something is pushed back -/
def slotAt (s : PSt) : Nat → Item
  | 0 => s.t0
  | 1 => s.t1
  | _ => s.t2

theorem slot_wf {inp : Bytes} {s : PSt} (w : Wf inp s) (i : Nat) : WfItem inp (slotAt s i) := by
  unfold slotAt
  split
  · exact w.t0
  · exact w.t1
  · exact w.t2

theorem next_pushed_eq (s : PSt) (k : Nat) (h : s.peekCount = k + 1) :
    next s = tokenAt k { s with peekCount := k } := by
  simp [next, bind_apply, get, modify, h]

theorem next_fresh_eq (s : PSt) (h : s.peekCount = 0) :
    next s = (nextItem s).andThen (fun it s1 => tokenAt s1.peekCount { s1 with t0 := it }) := by
  simp [next, bind_apply, get, h]
  cases nextItem s <;> simp [PRes.andThen, bind_apply, modify, get]

theorem nextItem_pc (s : PSt) (it : Item) (s1 : PSt) (h : nextItem s = .ok it s1) : s1.peekCount = s.peekCount := by
  unfold nextItem at h
  cases ht : s.toks with
  | nil => simp [ht] at h; rw [← h.2]
  | cons t ts => simp [ht] at h; rw [← h.2]

/-- `next`: at most one item stays pushed back; the item returned sits in slot `peekCount` -/
theorem next_safe :
    Safe (Inv inp 2) next (fun a s => Inv inp 1 s ∧ WfItem inp a ∧ a = slotAt s s.peekCount) := by
  intro s hs
  obtain ⟨w, hk⟩ := hs
  by_cases hp : s.peekCount = 0
  · rw [next_fresh_eq s hp]
    have hni := nextItem_safe inp 2 s ⟨w, hk⟩
    cases hn : nextItem s with
    | ok it s1 =>
      rw [hn] at hni
      obtain ⟨⟨w1, _⟩, wit, hit⟩ := hni
      have hpc1 : s1.peekCount = 0 := by rw [nextItem_pc s it s1 hn]; exact hp
      simp [PRes.andThen, hpc1, tokenAt]
      exact ⟨⟨⟨w1.input, w1.toks, wit, w1.t1, w1.t2, w1.last0, w1.last1, ⟨w1.eof.1, hit, w1.eof.2.2⟩⟩, by simp [hpc1]⟩, wit, by simp [slotAt, hpc1]⟩
    | err l m => rw [hn] at hni; simp [PRes.andThen]; exact hni
    | crash w' => rw [hn] at hni; exact hni.elim
    | fuel => simp [PRes.andThen]
    | unsupported w' => simp [PRes.andThen]
  · obtain ⟨k, hk1⟩ : ∃ k, s.peekCount = k + 1 := ⟨s.peekCount - 1, by omega⟩
    rw [next_pushed_eq s k hk1]
    have hw : Wf inp { s with peekCount := k } := ⟨w.input, w.toks, w.t0, w.t1, w.t2, w.last0, w.last1, w.eof⟩
    have hc : k = 0 ∨ k = 1 := by omega
    rcases hc with hc | hc
    · subst hc; simp [tokenAt]; exact ⟨⟨hw, by simp⟩, w.t0, by simp [slotAt]⟩
    · subst hc; simp [tokenAt]; exact ⟨⟨hw, by simp⟩, w.t1, by simp [slotAt]⟩

theorem backup_safe (k : Nat) : Safe (Inv inp k) backup (fun _ s => Inv inp (k + 1) s) := by
  intro s hs
  obtain ⟨w, hk⟩ := hs
  simp [backup, modify]
  exact ⟨⟨w.input, w.toks, w.t0, w.t1, w.t2, w.last0, w.last1, w.eof⟩, by simp; omega⟩

/-- `backup` right after an item was returned from slot `peekCount`: that item is the one pushed back -/
theorem backup_safe_slot (k : Nat) (a : Item) :
    Safe (fun s => Inv inp k s ∧ a = slotAt s s.peekCount) backup
      (fun _ s => Inv inp (k + 1) s ∧ s.peekCount ≥ 1 ∧ a = slotAt s (s.peekCount - 1)) := by
  intro s hs
  obtain ⟨⟨w, hk⟩, ha⟩ := hs
  simp [backup, modify]
  exact ⟨⟨⟨w.input, w.toks, w.t0, w.t1, w.t2, w.last0, w.last1, w.eof⟩, by simp; omega⟩, by simpa [slotAt] using ha⟩

theorem backup2_safe (k : Nat) (t : Item) (ht : WfItem inp t) (hne : t.typ ≠ Tok.eof) :
    Safe (Inv inp k) (backup2 t) (fun _ s => Inv inp 2 s) := by
  intro s hs
  obtain ⟨w, _⟩ := hs
  simp [backup2, modify]
  exact ⟨⟨w.input, w.toks, w.t0, ht, w.t2, w.last0, w.last1,
    ⟨w.eof.1, w.eof.2.1, fun h => (hne h).elim, w.eof.2.2.2⟩⟩, by simp⟩

theorem peek_safe (k : Nat) (hk : 1 ≤ k) (hk2 : k ≤ 2) :
    Safe (Inv inp k) peek (fun a s => Inv inp k s ∧ WfItem inp a ∧ s.peekCount ≥ 1 ∧ a = slotAt s (s.peekCount - 1)) := by
  intro s hs
  obtain ⟨w, hpk⟩ := hs
  by_cases hp : s.peekCount = 0
  · have e : peek s = (nextItem s).andThen (fun it s1 => .ok it { s1 with peekCount := 1, t0 := it }) := by
      simp [peek, bind_apply, get, hp]
      cases nextItem s <;> simp [PRes.andThen, modify, bind_apply]
    rw [e]
    have hni := nextItem_safe inp 2 s ⟨w, by omega⟩
    cases hn : nextItem s with
    | ok it s1 =>
      rw [hn] at hni
      obtain ⟨⟨w1, _⟩, wit, hit⟩ := hni
      simp [PRes.andThen]
      exact ⟨⟨⟨w1.input, w1.toks, wit, w1.t1, w1.t2, w1.last0, w1.last1, ⟨w1.eof.1, hit, w1.eof.2.2⟩⟩, by simp; omega⟩, wit, by simp [slotAt]⟩
    | err l m => rw [hn] at hni; simp [PRes.andThen]; exact hni
    | crash w' => rw [hn] at hni; exact hni.elim
    | fuel => simp [PRes.andThen]
    | unsupported w' => simp [PRes.andThen]
  · have e : peek s = tokenAt (s.peekCount - 1) s := by
      have hpos : 0 < s.peekCount := by omega
      simp [peek, bind_apply, get, hpos]
    rw [e]
    have hc : s.peekCount - 1 = 0 ∨ s.peekCount - 1 = 1 := by omega
    rcases hc with hc | hc
    · rw [hc]; simp [tokenAt]; exact ⟨⟨w, hpk⟩, w.t0, by omega, by simp [slotAt, hc]⟩
    · rw [hc]; simp [tokenAt]; exact ⟨⟨w, hpk⟩, w.t1, by omega, by simp [slotAt, hc]⟩

theorem nextNonSpaceLoop_safe : ∀ n, Safe (Inv inp 2) (nextNonSpaceLoop n)
    (fun a s => Inv inp 1 s ∧ WfItem inp a ∧ a = slotAt s s.peekCount)
  | 0 => SafeL.outOfFuel
  | n + 1 => by
    unfold nextNonSpaceLoop
    refine SafeL.bind (next_safe inp) ?_
    intro tk
    refine SafeL.ite ?_ ?_
    · intro _
      exact (nextNonSpaceLoop_safe n).pre (fun s h => h.1.mono (by omega))
    · intro _
      exact SafeL.pure tk (fun s h => h)

theorem nextNonSpace_safe :
    Safe (Inv inp 2) nextNonSpace (fun a s => Inv inp 1 s ∧ WfItem inp a ∧ a = slotAt s s.peekCount) := by
  intro s hs
  exact nextNonSpaceLoop_safe inp _ s hs

theorem peekNonSpace_safe :
    Safe (Inv inp 2) peekNonSpace
      (fun a s => Inv inp 2 s ∧ WfItem inp a ∧ s.peekCount ≥ 1 ∧ a = slotAt s (s.peekCount - 1)) := by
  unfold peekNonSpace
  refine SafeL.bind (nextNonSpace_safe inp) ?_
  intro tk
  refine SafeL.bind (Q := fun _ s => Inv inp 2 s ∧ WfItem inp tk ∧ s.peekCount ≥ 1 ∧ tk = slotAt s (s.peekCount - 1)) ?_ ?_
  · intro s hs
    have := backup_safe_slot inp 1 tk s ⟨hs.1, hs.2.2⟩
    simp [backup, modify] at this ⊢
    exact ⟨this.1, hs.2.1, this.2⟩
  · intro _
    exact SafeL.pure tk (fun s h => h)

end JetVerif.Parse
