/-
  What a successful parse leaves in the channel: nothing.

  `parseTemplate` only ever returns normally from `bodyLoop`, after `peek` has shown it an item of type
  `itemEOF`.  The invariant `Wf.eof` (Lemmas/ParseSafe.lean) says that an end-of-file item in any slot of
  the look-ahead buffer means the channel is empty - provided the lexer sends `itemEOF` as its last item
  (`EofLast`, proved of the lexer model in Lemmas/LexEof.lean).  So when `Set.parse` returns a template the
  lexer goroutine has delivered everything it had, has left its loop and has closed the channel; when
  the parser fails, `Template.recover` drains the channel (Facts.handover, Props/C02H.lean).
-/
import JetVerif.Lemmas.ParseNoCrash

namespace JetVerif.Parse

variable (inp : Bytes) (cfg : Cfg)
local notation "Safe" => SafeL (LineOk inp)

/-- a buffered end-of-file item means the channel is empty -/
theorem slot_eof {inp : Bytes} {s : PSt} (w : Wf inp s) (i : Nat) (h : (slotAt s i).typ = Tok.eof) : s.toks = [] := by
  unfold slotAt at h
  split at h
  · exact w.eof.2.1 h
  · exact w.eof.2.2.1 h
  · exact w.eof.2.2.2 h

/-- a list whose items, the last excepted, are not end-of-file items -/
theorem eofLast_of_dropLast {toks : List Item} (h : ∀ t ∈ toks.dropLast, t.typ ≠ Tok.eof) : EofLast toks := by
  intro pre t post e ht
  cases post with
  | nil => rfl
  | cons p ps =>
    exfalso
    apply h t _ ht
    rw [e, List.dropLast_append_of_ne_nil (by simp)]
    simp [List.dropLast]

/-- the channel is empty -/
abbrev Drained {α : Type} : α → PSt → Prop := fun _ s => Inv inp 2 s ∧ s.toks = []

theorem bodyLoop_drained (fuel : Nat) : ∀ k acc, Safe (I2 inp) (bodyLoop cfg fuel k acc) (Drained inp)
  | 0, _ => by rw [bodyLoop]; exact SafeL.outOfFuel
  | k + 1, acc => by
    rw [bodyLoop]
    refine SafeL.bind (peek_safe inp 2 (by omega) (by omega)) ?_
    intro pk
    refine SafeL.ite (fun he => SafeL.pure _ (fun s h => ⟨h.1, ?_⟩)) (fun _ => ?_)
    · exact slot_eof h.1.1 _ (by rw [← h.2.2.2]; exact he)
    · refine SafeL.bind ((stmtSpecs_all inp cfg fuel).textOrAction.pre (fun _ h => h.1)) ?_
      intro nd
      refine SafeL.ite (fun _ => ef inp 2 _ _) (fun _ => bodyLoop_drained fuel k _)

theorem parseTemplate_drained (fuel : Nat) : Safe (I2 inp) (parseTemplate cfg fuel) (Drained inp) := by
  unfold parseTemplate
  sb (pk2 inp)
  sb (ln inp 2)
  refine SafeL.bind (get_safe inp _) ?_
  intro s0
  refine SafeL.bind (prologueLoop_safe inp cfg _ _) ?_
  intro skipped
  refine SafeL.bind (get_safe inp _) ?_
  intro s1
  refine SafeL.bind (bodyLoop_drained inp cfg fuel _ _) ?_
  intro nodes
  exact SafeL.pure _ (fun _ h => h)

end JetVerif.Parse
