/-
  Termination of the productions (see Lemmas/ParseTerm.lean for the measure and the logic):
  for every ceiling `M` and every fuel `n ≥ rank + 40·M`, no production runs out of fuel.
-/
import JetVerif.Lemmas.ParseTerm

namespace JetVerif.Parse

variable (cfg : Cfg)

macro "tb " t:term : tactic => `(tactic| (refine TermL.bind $t ?_; intro _))
macro "tret" : tactic => `(tactic| exact TermL.pure _ (fun _ h => by
  first | exact h | exact h.1 | exact h.weak | exact h.1.weak | exact h.weak.weak))

/-- the expression-level productions at fuel `n` -/
structure ExprT (n : Nat) : Prop where
  term : ∀ M, 1 + 40 * M ≤ n → TermL (A M 0) (term cfg n) (fun r s => A M 0 s ∧ (r.isSome → A M 1 s))
  chainLoop : ∀ M acc, 1 + 40 * M ≤ n → TermL (A M 0) (chainLoop n acc) (fun _ s => A M 0 s)
  operandReset : ∀ M node, 2 + 40 * M ≤ n → TermL (A M 0) (operandReset cfg n node) (fun _ s => A M 0 s)
  operand : ∀ M ctx, 3 + 40 * M ≤ n → TermL (A M 0) (operand cfg n ctx) (fun _ s => A M 1 s)
  argsLoop : ∀ M acc slot, 16 + 40 * M ≤ n → TermL (A M 0) (parseArgumentsLoop cfg n acc slot) (fun _ s => A M 0 s)
  args : ∀ M, 17 + 40 * M ≤ n → TermL (A M 0) (parseArguments cfg n) (fun _ s => A M 0 s)
  unary : ∀ M ctx, 4 + 40 * M ≤ n → TermL (A M 0) (unaryExpression cfg n ctx) (fun _ s => A M 1 s)
  mulLoop : ∀ M ctx l e, 5 + 40 * M ≤ n → TermL (A M 0) (multiplicativeLoop cfg n ctx l e) (fun _ s => A M 0 s)
  mul : ∀ M ctx, 6 + 40 * M ≤ n → TermL (A M 0) (multiplicativeExpression cfg n ctx) (fun _ s => A M 1 s)
  addLoop : ∀ M ctx l e, 7 + 40 * M ≤ n → TermL (A M 0) (additiveLoop cfg n ctx l e) (fun _ s => A M 0 s)
  add : ∀ M ctx, 8 + 40 * M ≤ n → TermL (A M 0) (additiveExpression cfg n ctx) (fun _ s => A M 1 s)
  relLoop : ∀ M ctx l e, 9 + 40 * M ≤ n → TermL (A M 0) (numericComparativeLoop cfg n ctx l e) (fun _ s => A M 0 s)
  rel : ∀ M ctx, 10 + 40 * M ≤ n → TermL (A M 0) (numericComparativeExpression cfg n ctx) (fun _ s => A M 1 s)
  eqLoop : ∀ M ctx l e, 11 + 40 * M ≤ n → TermL (A M 0) (comparativeLoop cfg n ctx l e) (fun _ s => A M 0 s)
  eq : ∀ M ctx, 12 + 40 * M ≤ n → TermL (A M 0) (comparativeExpression cfg n ctx) (fun _ s => A M 1 s)
  logLoop : ∀ M ctx l e, 13 + 40 * M ≤ n → TermL (A M 0) (logicalLoop cfg n ctx l e) (fun _ s => A M 0 s)
  log : ∀ M ctx, 14 + 40 * M ≤ n → TermL (A M 0) (logicalExpression cfg n ctx) (fun _ s => A M 1 s)
  pexpr : ∀ M ctx, 15 + 40 * M ≤ n → TermL (A M 0) (parseExpression cfg n ctx) (fun _ s => A M 1 s)
  expr : ∀ M ctx as, 16 + 40 * M ≤ n → TermL (A M 0) (expression cfg n ctx as) (fun _ s => A M 0 s)

theorem exprT_zero : ExprT cfg 0 := by
  constructor <;> intros <;> omega

/-- the five binary loops share one shape: the operator was consumed before the loop was entered, the
    right operand consumes, the next round starts one lower -/
theorem loop_step_T {M : Nat} {ctx : String} (c : Prop) [Decidable c]
    (sub : String → PM (PExpr × Item)) (loop : PExpr → Item → PM (PExpr × Item)) (mk : Nat → PExpr → PExpr)
    (hsub : TermL (A M 0) (sub ctx) (fun _ s => A M 1 s))
    (hloop : 1 ≤ M → ∀ l e, TermL (A (M - 1) 0) (loop l e) (fun _ s => A (M - 1) 0 s))
    (left : PExpr) (endtoken : Item) :
    TermL (A M 0) (if c then (do
        let (right, rightend) ← sub ctx
        let l ← lineNumber
        loop (mk l right) rightend) else pure (left, endtoken)) (fun _ s => A M 0 s) := by
  refine TermL.ite (fun _ => ?_) (fun _ => TermL.pure _ (fun _ h => h))
  refine TermL.bind hsub ?_
  intro p
  refine TermL.bind (lineNumber_T _) ?_
  intro l
  exact TermL.lower M (fun hM => (hloop hM _ _).post (fun _ _ h => h.weak'))

/-- an expression level: the operand level below it, then the loop one lower -/
theorem level_step_T {M : Nat} {ctx : String}
    (sub : String → PM (PExpr × Item)) (loop : PExpr → Item → PM (PExpr × Item))
    (hsub : TermL (A M 0) (sub ctx) (fun _ s => A M 1 s))
    (hloop : 1 ≤ M → ∀ l e, TermL (A (M - 1) 0) (loop l e) (fun _ s => A (M - 1) 0 s)) :
    TermL (A M 0) (do
        let (left, endtoken) ← sub ctx
        loop left endtoken) (fun _ s => A M 1 s) := by
  refine TermL.bind hsub ?_
  intro p
  exact TermL.lower M (fun hM => (hloop hM _ _).post (fun _ _ h => h.up hM))

theorem exprT_step (n : Nat) (ih : ExprT cfg n) : ExprT cfg (n + 1) where
  term := by
    intro M hn
    rw [term]
    refine TermL.bind (nextNonSpace_T M) ?_
    intro tk
    refine TermL.ite (fun _ => errorf_T _ _ _) (fun hne => ?_)
    -- from here on the item read is not an error item: it was consumed
    refine TermL.pre (P := A M 1) ?_ (fun _ h => h.2.2.2 hne)
    refine TermL.ite (fun _ => ?_) (fun _ => ?_)
    · tb (lineNumber_T _)
      exact TermL.pure _ (fun _ h => ⟨h.weak, fun _ => h⟩)
    refine TermL.ite (fun _ => ?_) (fun _ => ?_)
    · tb (lineNumber_T _)
      exact TermL.pure _ (fun _ h => ⟨h.weak, fun _ => h⟩)
    refine TermL.ite (fun _ => ?_) (fun _ => ?_)
    · tb (lineNumber_T _)
      exact TermL.pure _ (fun _ h => ⟨h.weak, fun _ => h⟩)
    refine TermL.ite (fun _ => ?_) (fun _ => ?_)
    · tb (lineNumber_T _)
      tb (fieldNames_T _ _)
      exact TermL.pure _ (fun _ h => ⟨h.weak, fun _ => h⟩)
    refine TermL.ite (fun _ => ?_) (fun _ => ?_)
    · tb (lineNumber_T _)
      exact TermL.pure _ (fun _ h => ⟨h.weak, fun _ => h⟩)
    refine TermL.ite (fun _ => ?_) (fun _ => ?_)
    · tb (lineNumber_T _)
      split
      · exact TermL.pure _ (fun _ h => ⟨h.weak, fun _ => h⟩)
      · exact errorf_T _ _ _
      · exact TermL.unsupported _
      · exact TermL.unsupported _
    refine TermL.ite (fun _ => ?_) (fun _ => ?_)
    · refine TermL.lower M (fun hM => ?_)
      tb (ih.expr (M - 1) _ _ (by omega))
      refine TermL.bind (next_T (M - 1)) ?_
      intro tk2
      refine TermL.ite (fun _ => unexpected_T _ _ _ _ _) (fun _ => ?_)
      exact TermL.pure _ (fun _ h => ⟨h.1.weak', fun _ => h.1.up hM⟩)
    refine TermL.ite (fun _ => ?_) (fun _ => ?_)
    · split
      · tb (lineNumber_T _)
        exact TermL.pure _ (fun _ h => ⟨h.weak, fun _ => h⟩)
      · exact errorf_T _ _ _
      · exact TermL.unsupported _
      · exact TermL.unsupported _
    · tb ((backup_T M 0).pre (fun _ h => h.bk))
      exact TermL.pure _ (fun _ h => ⟨h.1, fun hc => by simp at hc⟩)
  chainLoop := by
    intro M acc hn
    rw [chainLoop]
    refine TermL.bind (peekNonSpace_T M) ?_
    intro pk
    refine TermL.ite (fun hf => ?_) (fun _ => TermL.pure _ (fun _ h => h.1))
    refine TermL.bind (next_after_peek_T M pk (by rw [hf]; decide)) ?_
    intro tk
    refine TermL.bind (chainAdd_T _ _ _) ?_
    intro a
    exact TermL.lower M (fun hM => (ih.chainLoop (M - 1) a (by omega)).post (fun _ _ h => h.weak'))
  operandReset := by
    intro M node0 hn
    rw [operandReset]
    refine TermL.bind (peek_T M) ?_
    intro pk
    refine TermL.bind (Q := fun _ s => A M 0 s) ?_ ?_
    · refine TermL.ite (fun hf => ?_) (fun _ => TermL.pure _ (fun _ h => h.1))
      tb (lineNumber_T _)
      refine TermL.bind ((ih.chainLoop M [] (by omega)).pre (fun _ h => h.1)) ?_
      intro fields
      split
      · tb (lineNumber_T _)
        tb (fieldNames_T _ _)
        tret
      · exact errorf_T _ _ _
      · exact errorf_T _ _ _
      · exact errorf_T _ _ _
      · exact errorf_T _ _ _
      · tret
    intro node
    refine TermL.ite (fun _ => ?_) (fun _ => TermL.pure _ (fun _ h => h))
    refine TermL.bind (nextNonSpace_T M) ?_
    intro tk
    refine TermL.ite (fun hlp => ?_) (fun _ => ?_)
    · -- a call: the parenthesis was consumed
      refine TermL.pre (P := A M 1) ?_ (fun _ h => h.2.2.2 (by rw [hlp]; decide))
      refine TermL.lower M (fun hM => ?_)
      tb (lineNumber_T _)
      refine TermL.bind (ih.args (M - 1) (by omega)) ?_
      intro p
      tb (expect_T (M - 1) _ _ _)
      exact (ih.operandReset (M - 1) _ (by omega)).weaken (fun _ h => h.weak) (fun _ _ h => h.weak')
    refine TermL.ite (fun hlb => ?_) (fun _ => ?_)
    · refine TermL.pre (P := A M 1) ?_ (fun _ h => h.2.2.2 (by rw [hlb]; decide))
      refine TermL.lower M (fun hM => ?_)
      refine TermL.bind (peekNonSpace_T (M - 1)) ?_
      intro pk2
      refine TermL.bind (Q := fun _ s => Bk (M - 1) 0 s) ?_ ?_
      · refine TermL.ite (fun _ => ?_) (fun _ => ?_)
        · refine TermL.bind ((ih.pexpr (M - 1) _ (by omega)).pre (fun _ h => h.1)) ?_
          intro p
          exact TermL.pure _ (fun _ h => h.bk)
        · refine TermL.bind ((nextNonSpace_T (M - 1)).pre (fun _ h => h.1)) ?_
          intro tk3
          exact TermL.pure _ (fun _ h => h.2.1)
      intro p
      refine TermL.bind (Q := fun _ s => A (M - 1) 0 s) ?_ ?_
      · refine TermL.ite (fun _ => ?_) (fun _ => ?_)
        · refine TermL.bind ((peekNonSpace_T (M - 1)).pre (fun s h => by unfold Bk at h; unfold A; omega)) ?_
          intro pk3
          refine TermL.bind (Q := fun _ s => A (M - 1) 0 s) ?_ ?_
          · refine TermL.ite (fun _ => ?_) (fun _ => TermL.pure _ (fun _ h => h.1))
            tb ((ih.expr (M - 1) _ _ (by omega)).pre (fun _ h => h.1))
            tret
          intro _
          tret
        refine TermL.ite (fun _ => ?_) (fun _ => ?_)
        · tb (backup_T (M - 1) 0)
          tret
        · tb (backup_T (M - 1) 0)
          tret
      intro node2
      tb (expect_T (M - 1) _ _ _)
      exact (ih.operandReset (M - 1) _ (by omega)).weaken (fun _ h => h.weak) (fun _ _ h => h.weak')
    · tb ((backup_T M 0).pre (fun _ h => h.2.1))
      tret
  operand := by
    intro M ctx hn
    rw [operand]
    refine TermL.bind (ih.term M (by omega)) ?_
    intro r
    cases r with
    | none =>
      refine TermL.bind ((next_T M).pre (fun _ h => h.1)) ?_
      intro tk
      exact unexpected_T _ _ _ _ _
    | some node =>
      refine TermL.pre (P := A M 1) ?_ (fun _ h => h.2 rfl)
      exact TermL.lower M (fun hM => (ih.operandReset (M - 1) _ (by omega)).post (fun _ _ h => h.up hM))
  argsLoop := by
    intro M acc slot hn
    rw [parseArgumentsLoop]
    refine TermL.bind (peekNonSpace_T M) ?_
    intro pk
    refine TermL.ite (fun _ => TermL.pure _ (fun _ h => h.1)) (fun _ => ?_)
    refine TermL.bind ((ih.pexpr M _ (by omega)).pre (fun _ h => h.1)) ?_
    intro p
    refine TermL.bind (Q := fun _ s => A M 1 s) ?_ ?_
    · refine TermL.ite (fun _ => ?_) (fun _ => TermL.pure _ (fun _ h => h))
      refine TermL.ite (fun _ => errorf_T _ _ _) (fun _ => TermL.pure _ (fun _ h => h))
    intro slot'
    refine TermL.ite (fun _ => ?_) (fun _ => ?_)
    · exact TermL.lower M (fun hM => (ih.argsLoop (M - 1) _ _ (by omega)).post (fun _ _ h => h.weak'))
    · tb ((backup_T M 0).pre (fun _ h => h.bk))
      tret
  args := by
    intro M hn
    rw [parseArguments]
    exact ih.argsLoop M _ _ (by omega)
  unary := by
    intro M ctx hn
    rw [unaryExpression]
    refine TermL.bind (nextNonSpace_T M) ?_
    intro nx
    refine TermL.ite (fun hnot => ?_) (fun _ => ?_)
    · refine TermL.pre (P := A M 1) ?_ (fun _ h => h.2.2.2 (by rw [hnot]; decide))
      refine TermL.lower M (fun hM => ?_)
      refine TermL.bind (ih.eq (M - 1) _ (by omega)) ?_
      intro p
      tb (lineNumber_T _)
      exact TermL.pure _ (fun _ h => (h.up hM).weak)
    refine TermL.ite (fun hsign => ?_) (fun _ => ?_)
    · refine TermL.pre (P := A M 1) ?_ (fun _ h => h.2.2.2 (by rcases hsign with h' | h' <;> rw [h'] <;> decide))
      refine TermL.lower M (fun hM => ?_)
      tb (lineNumber_T _)
      tb (ih.operand (M - 1) _ (by omega))
      refine TermL.bind ((nextNonSpace_T (M - 1)).pre (fun _ h => h.weak)) ?_
      intro endtoken
      exact TermL.pure _ (fun _ h => h.1.up hM)
    · tb ((backup_T M 0).pre (fun _ h => h.2.1))
      tb ((ih.operand M _ (by omega)).pre (fun _ h => h.1))
      refine TermL.lower M (fun hM => ?_)
      refine TermL.bind (nextNonSpace_T (M - 1)) ?_
      intro endtoken
      exact TermL.pure _ (fun _ h => h.1.up hM)
  mulLoop := by
    intro M ctx l e hn
    rw [multiplicativeLoop]
    exact loop_step_T _ _ _ _ (ih.unary M ctx (by omega)) (fun hM l e => ih.mulLoop (M - 1) ctx l e (by omega)) _ _
  mul := by
    intro M ctx hn
    rw [multiplicativeExpression]
    exact level_step_T _ _ (ih.unary M ctx (by omega)) (fun hM l e => ih.mulLoop (M - 1) ctx l e (by omega))
  addLoop := by
    intro M ctx l e hn
    rw [additiveLoop]
    exact loop_step_T _ _ _ _ (ih.mul M ctx (by omega)) (fun hM l e => ih.addLoop (M - 1) ctx l e (by omega)) _ _
  add := by
    intro M ctx hn
    rw [additiveExpression]
    exact level_step_T _ _ (ih.mul M ctx (by omega)) (fun hM l e => ih.addLoop (M - 1) ctx l e (by omega))
  relLoop := by
    intro M ctx l e hn
    rw [numericComparativeLoop]
    exact loop_step_T _ _ _ _ (ih.add M ctx (by omega)) (fun hM l e => ih.relLoop (M - 1) ctx l e (by omega)) _ _
  rel := by
    intro M ctx hn
    rw [numericComparativeExpression]
    exact level_step_T _ _ (ih.add M ctx (by omega)) (fun hM l e => ih.relLoop (M - 1) ctx l e (by omega))
  eqLoop := by
    intro M ctx l e hn
    rw [comparativeLoop]
    exact loop_step_T _ _ _ _ (ih.rel M ctx (by omega)) (fun hM l e => ih.eqLoop (M - 1) ctx l e (by omega)) _ _
  eq := by
    intro M ctx hn
    rw [comparativeExpression]
    exact level_step_T _ _ (ih.rel M ctx (by omega)) (fun hM l e => ih.eqLoop (M - 1) ctx l e (by omega))
  logLoop := by
    intro M ctx l e hn
    rw [logicalLoop]
    exact loop_step_T _ _ _ _ (ih.eq M ctx (by omega)) (fun hM l e => ih.logLoop (M - 1) ctx l e (by omega)) _ _
  log := by
    intro M ctx hn
    rw [logicalExpression]
    exact level_step_T _ _ (ih.eq M ctx (by omega)) (fun hM l e => ih.logLoop (M - 1) ctx l e (by omega))
  pexpr := by
    intro M ctx hn
    rw [parseExpression]
    refine TermL.bind (ih.log M ctx (by omega)) ?_
    intro p
    refine TermL.ite (fun _ => ?_) (fun _ => TermL.pure _ (fun _ h => h))
    refine TermL.lower M (fun hM => ?_)
    refine TermL.bind (ih.pexpr (M - 1) ctx (by omega)) ?_
    intro p2
    refine TermL.ite (fun _ => unexpected_T _ _ _ _ _) (fun _ => ?_)
    refine TermL.bind ((ih.pexpr (M - 1) ctx (by omega)).pre (fun _ h => h.weak)) ?_
    intro p3
    tb (lineNumber_T _)
    exact TermL.pure _ (fun _ h => (h.up hM).weak)
  expr := by
    intro M ctx as hn
    rw [expression]
    refine TermL.bind (ih.pexpr M ctx (by omega)) ?_
    intro p
    tb ((backup_T M 0).pre (fun _ h => h.bk))
    tret

theorem exprT_all : ∀ n, ExprT cfg n
  | 0 => exprT_zero cfg
  | n + 1 => exprT_step cfg n (exprT_all n)


/-! ### assignments, commands, pipelines, block parameters -/

theorem bufW_le (s : PSt) : bufW s ≤ s.peekCount := by
  unfold bufW
  have := wt_le s.t0; have := wt_le s.t1; have := wt_le s.t2
  generalize s.peekCount = k
  match k with
  | 0 => simp
  | 1 => simp; omega
  | 2 => simp; omega
  | k + 3 => simp; omega

theorem mu_le_nu (s : PSt) : mu s ≤ nu s := by
  have := bufW_le s; unfold mu nu; omega

/-- a loop whose bound was computed from the state `a`: run it under the ceiling `mu a` -/
theorem TermL.atState {α} {M : Nat} {a : PSt} {m : PM α} {c : Nat}
    (h : mu a ≤ M → TermL (A (mu a) 0) m (fun _ s => A (mu a) c s)) :
    TermL (fun s => a = s ∧ A M 0 s) m (fun _ s => A M c s) := by
  intro s hs
  obtain ⟨rfl, hA⟩ := hs
  have hle : mu a ≤ M := by unfold A at hA; omega
  have := h hle a (by unfold A; omega)
  cases hm : m a with
  | ok r s' => rw [hm] at this; unfold A at this ⊢; omega
  | err l msg => trivial
  | crash w => trivial
  | fuel => rw [hm] at this; exact this.elim
  | unsupported w => trivial

variable (fuel : Nat)

theorem assignLeftLoop_T (ctx : String) : ∀ (k M : Nat) (left : List PExpr) (op : PExpr) (ret : Item), M < k → 17 + 40 * M ≤ fuel →
    TermL (A M 0) (assignLeftLoop cfg fuel ctx k left op ret) (fun _ s => A M 0 s)
  | 0, _, _, _, _, hk, _ => by omega
  | k + 1, M, left, op, ret, hk, hf => by
    rw [assignLeftLoop]
    refine TermL.ite (fun _ => errorf_T _ _ _) (fun _ => ?_)
    refine TermL.ite (fun _ => ?_) (fun _ => ?_)
    · refine TermL.bind ((exprT_all cfg fuel).pexpr M ctx (by omega)) ?_
      intro p
      exact TermL.lower M (fun hM => (assignLeftLoop_T ctx k (M - 1) _ _ _ (by omega) (by omega)).post (fun _ _ h => h.weak'))
    refine TermL.ite (fun _ => TermL.pure _ (fun _ h => h)) (fun _ => unexpected_T _ _ _ _ _)

theorem assignRightLoop_T : ∀ (k M : Nat) (right : List PExpr), M < k → 17 + 40 * M ≤ fuel →
    TermL (A M 0) (assignRightLoop cfg fuel k right) (fun _ s => A M 0 s)
  | 0, _, _, hk, _ => by omega
  | k + 1, M, right, hk, hf => by
    rw [assignRightLoop]
    refine TermL.bind ((exprT_all cfg fuel).pexpr M _ (by omega)) ?_
    intro p
    refine TermL.ite (fun _ => ?_) (fun _ => ?_)
    · tb ((backup_T M 0).pre (fun _ h => h.bk))
      tret
    · exact TermL.lower M (fun hM => (assignRightLoop_T k (M - 1) _ (by omega) (by omega)).post (fun _ _ h => h.weak'))

theorem assignmentOrExpression_T (ctx : String) (M : Nat) (hf : 17 + 40 * M ≤ fuel) :
    TermL (A M 0) (assignmentOrExpression cfg fuel ctx) (fun _ s => A M 0 s) := by
  unfold assignmentOrExpression
  tb (peekNonSpace_T M)
  tb (lineNumber_T _)
  refine TermL.bind (((exprT_all cfg fuel).pexpr M ctx (by omega)).pre (fun _ h => h.1)) ?_
  intro p
  refine TermL.ite (fun _ => ?_) (fun _ => ?_)
  · refine TermL.bind (TermL.get.pre (fun _ h => A.weak h)) ?_
    intro a
    refine TermL.bind (Q := fun _ s => A M 0 s) (TermL.atState (fun hle =>
      assignLeftLoop_T cfg fuel ctx _ (mu a) _ _ _ (by have := mu_le_nu a; unfold nu at this; omega) (by omega))) ?_
    intro r
    refine TermL.ite (fun _ => errorf_T _ _ _) (fun _ => ?_)
    refine TermL.bind TermL.get ?_
    intro a2
    refine TermL.bind (Q := fun _ s => A M 0 s) (TermL.atState (fun hle =>
      assignRightLoop_T cfg fuel _ (mu a2) _ (by have := mu_le_nu a2; unfold nu at this; omega) (by omega))) ?_
    intro right
    refine TermL.ite (fun _ => ?_) (fun _ => ?_)
    · refine TermL.ite (fun _ => errorf_T _ _ _) (fun _ => TermL.pure _ (fun _ h => h))
    refine TermL.ite (fun _ => ?_) (fun _ => TermL.pure _ (fun _ h => h))
    split
    · refine TermL.ite (fun _ => TermL.pure _ (fun _ h => h)) (fun _ => errorf_T _ _ _)
    · exact errorf_T _ _ _
  · tb ((backup_T M 0).pre (fun _ h => h.bk))
    tret

theorem command_T (base : Option PExpr) (M : Nat) (hf : 17 + 40 * M ≤ fuel) :
    TermL (A M 0) (command cfg fuel base) (fun _ s => A M 0 s) := by
  unfold command
  tb (peekNonSpace_T M)
  tb (lineNumber_T _)
  refine TermL.bind (Q := fun _ s => A M 0 s) ?_ ?_
  · cases base with
    | some b => exact TermL.pure _ (fun _ h => h.1)
    | none => exact ((exprT_all cfg fuel).expr M _ _ (by omega)).pre (fun _ h => h.1)
  intro b
  split
  · tret
  · refine TermL.bind (nextNonSpace_T M) ?_
    intro nx
    refine TermL.ite (fun _ => ?_) (fun _ => ?_)
    · refine TermL.bind (((exprT_all cfg fuel).args M (by omega)).pre (fun _ h => h.1)) ?_
      intro p
      tret
    · tb ((backup_T M 0).pre (fun _ h => h.2.1))
      tret

theorem pipelineLoop_T : ∀ (k M : Nat) (cmds : List PCmd), M < k → 17 + 40 * M ≤ fuel →
    TermL (A M 0) (pipelineLoop cfg fuel k cmds) (fun _ s => A M 0 s)
  | 0, _, _, hk, _ => by omega
  | k + 1, M, cmds, hk, hf => by
    rw [pipelineLoop]
    refine TermL.bind (expectOneOf_T M _ _ _ _) ?_
    intro tk
    refine TermL.ite (fun _ => TermL.pure _ (fun _ h => h.weak)) (fun _ => ?_)
    refine TermL.lower M (fun hM => ?_)
    refine TermL.bind (nextNonSpace_T (M - 1)) ?_
    intro tk2
    refine TermL.ite (fun _ => ?_) (fun _ => unexpected_T _ _ _ _ _)
    tb ((backup_T (M - 1) 0).pre (fun _ h => h.2.1))
    refine TermL.bind ((command_T cfg fuel none (M - 1) (by omega)).pre (fun _ h => h.1)) ?_
    intro c
    exact (pipelineLoop_T k (M - 1) _ (by omega) (by omega)).post (fun _ _ h => h.weak')

theorem pipeline_T (base : PExpr) (M : Nat) (hf : 17 + 40 * M ≤ fuel) :
    TermL (A M 0) (pipeline cfg fuel base) (fun _ s => A M 0 s) := by
  unfold pipeline
  tb (peekNonSpace_T M)
  tb (lineNumber_T _)
  refine TermL.bind ((command_T cfg fuel (some base) M hf).pre (fun _ h => h.1)) ?_
  intro c
  refine TermL.bind TermL.get ?_
  intro a
  refine TermL.bind (Q := fun _ s => A M 0 s) (TermL.atState (fun hle =>
    pipelineLoop_T cfg fuel _ (mu a) _ (by have := mu_le_nu a; unfold nu at this; omega) (by omega))) ?_
  intro cmds
  tret

/-- what one round of the parameter loop leaves: a `backup` is paid for, and a non-error last item
    was consumed -/
def AfterParam (M : Nat) (p : List PParam × Item) (s : PSt) : Prop :=
  Bk M 0 s ∧ (p.2.typ ≠ Tok.error → A M 1 s)

theorem blockParamsLoop_T (isDecl : Bool) (ctx : String) : ∀ (k M : Nat) (acc : List PParam), M < k → 17 + 40 * M ≤ fuel →
    TermL (A M 0) (blockParamsLoop cfg fuel isDecl ctx k acc) (fun _ s => A M 0 s)
  | 0, _, _, hk, _ => by omega
  | k + 1, M, acc, hk, hf => by
    rw [blockParamsLoop]
    refine TermL.bind (nextNonSpace_T M) ?_
    intro nx
    refine TermL.bind (Q := AfterParam M) ?_ ?_
    · refine TermL.ite (fun hid => ?_) (fun _ => ?_)
      · refine TermL.pre (P := A M 1) ?_ (fun _ h => h.2.2.2 (by rw [hid]; decide))
        refine TermL.lower M (fun hM => ?_)
        refine TermL.bind (nextNonSpace_T (M - 1)) ?_
        intro nx2
        refine TermL.ite (fun hc => ?_) (fun _ => ?_)
        · refine TermL.pure _ (fun s h => ⟨by have := h.2.1; unfold Bk at this ⊢; omega, fun _ => h.1.up hM⟩)
        refine TermL.ite (fun _ => ?_) (fun _ => ?_)
        · refine TermL.bind (((exprT_all cfg fuel).pexpr (M - 1) ctx (by omega)).pre (fun _ h => h.1)) ?_
          intro p
          exact TermL.pure _ (fun s h => ⟨(A.weak (h.up hM)).bk, fun _ => A.weak (h.up hM)⟩)
        refine TermL.ite (fun _ => ?_) (fun _ => unexpected_T _ _ _ _ _)
        tb ((backup2_T M nx).pre (fun s h => by have := h.2.1; unfold Bk at this ⊢; omega))
        refine TermL.bind ((exprT_all cfg fuel).pexpr M ctx (by omega)) ?_
        intro p
        exact TermL.pure _ (fun s h => ⟨h.bk, fun _ => h⟩)
      refine TermL.ite (fun _ => ?_) (fun _ => ?_)
      · refine TermL.ite (fun hc => ?_) (fun _ => ?_)
        · exact TermL.pure _ (fun s h => ⟨h.2.1, fun hne => h.2.2.2 hne⟩)
        · tb ((backup_T M 0).pre (fun _ h => h.2.1))
          refine TermL.bind (((exprT_all cfg fuel).pexpr M ctx (by omega)).pre (fun _ h => h.1)) ?_
          intro p
          exact TermL.pure _ (fun s h => ⟨h.bk, fun _ => h⟩)
      · exact TermL.pure _ (fun s h => ⟨h.2.1, fun hne => h.2.2.2 hne⟩)
    intro p
    refine TermL.ite (fun _ => ?_) (fun hc => ?_)
    · tb ((backup_T M 0).pre (fun _ h => h.1))
      tret
    · have hcomma : p.2.typ = Tok.comma := by simpa using hc
      refine TermL.pre (P := A M 1) ?_ (fun _ h => h.2 (by rw [hcomma]; decide))
      exact TermL.lower M (fun hM => (blockParamsLoop_T isDecl ctx k (M - 1) _ (by omega) (by omega)).post (fun _ _ h => h.weak'))

theorem blockParametersList_T (isDecl : Bool) (ctx : String) (M : Nat) (hf : 17 + 40 * M ≤ fuel) :
    TermL (A M 0) (blockParametersList cfg fuel isDecl ctx) (fun _ s => A M 0 s) := by
  unfold blockParametersList
  tb (expect_T M _ _ _)
  refine TermL.bind (TermL.get.pre (fun _ h => A.weak h)) ?_
  intro a
  refine TermL.bind (Q := fun _ s => A M 0 s) (TermL.atState (fun hle =>
    blockParamsLoop_T cfg fuel isDecl ctx _ (mu a) _ (by have := mu_le_nu a; unfold nu at this; omega) (by omega))) ?_
  intro ps
  tb (expect_T M _ _ _)
  tret


/-! ### statements -/

/-- the statement-level productions at fuel `n` -/
structure StmtT (n : Nat) : Prop where
  itemListLoop : ∀ M terms acc, 21 + 40 * M ≤ n → TermL (A M 0) (itemListLoop cfg n terms acc) (fun _ s => A M 1 s)
  itemList : ∀ M terms, 22 + 40 * M ≤ n → TermL (A M 0) (itemList cfg n terms) (fun _ s => A M 1 s)
  textOrAction : ∀ M, 20 + 40 * M ≤ n → TermL (A M 0) (textOrAction cfg n) (fun _ s => A M 1 s)
  action : ∀ M, 19 + 40 * M ≤ n → TermL (A M 0) (action cfg n) (fun _ s => A M 0 s)
  parseInclude : ∀ M, 18 + 40 * M ≤ n → TermL (A M 0) (parseInclude cfg n) (fun _ s => A M 0 s)
  parseBlock : ∀ M, 18 + 40 * M ≤ n → TermL (A M 0) (parseBlock cfg n) (fun _ s => A M 0 s)
  parseYield : ∀ M, 18 + 40 * M ≤ n → TermL (A M 0) (parseYield cfg n) (fun _ s => A M 0 s)
  parseControl : ∀ M b ctx, 18 + 40 * M ≤ n → TermL (A M 0) (parseControl cfg n b ctx) (fun _ s => A M 0 s)
  parseTry : ∀ M, 18 + 40 * M ≤ n → TermL (A M 0) (parseTry cfg n) (fun _ s => A M 0 s)
  parseCatch : ∀ M, 18 + 40 * M ≤ n → TermL (A M 0) (parseCatch cfg n) (fun _ s => A M 0 s)

theorem stmtT_zero : StmtT cfg 0 := by
  constructor <;> intros <;> omega

/-- an optional context expression in front of the closing delimiter -/
theorem optExpr_T {n M : Nat} (hn : 16 + 40 * M ≤ n) (c : Prop) [Decidable c] (ctx as : String) :
    TermL (fun s => Peeked M pk s) (if c then (do pure (some (← expression cfg n ctx as)) : PM (Option PExpr)) else pure none)
      (fun _ s => A M 0 s) := by
  refine TermL.ite (fun _ => ?_) (fun _ => TermL.pure _ (fun _ h => h.1))
  tb (((exprT_all cfg n).expr M ctx as hn).pre (fun _ h => h.1))
  tret

theorem stmtT_step (n : Nat) (ih : StmtT cfg n) : StmtT cfg (n + 1) where
  itemListLoop := by
    intro M terms acc hn
    rw [itemListLoop]
    refine TermL.bind (peekNonSpace_T M) ?_
    intro pk
    refine TermL.ite (fun _ => errorf_T _ _ _) (fun _ => ?_)
    refine TermL.bind ((ih.textOrAction M (by omega)).pre (fun _ h => h.1)) ?_
    intro nd
    refine TermL.ite (fun _ => TermL.pure _ (fun _ h => h)) (fun _ => ?_)
    refine TermL.ite (fun _ => errorf_T _ _ _) (fun _ => ?_)
    exact TermL.lower M (fun hM => (ih.itemListLoop (M - 1) _ _ (by omega)).post (fun _ _ h => (h.up hM).weak))
  itemList := by
    intro M terms hn
    rw [itemList]
    tb (peekNonSpace_T M)
    tb (lineNumber_T _)
    refine TermL.bind ((ih.itemListLoop M _ _ (by omega)).pre (fun _ h => h.1)) ?_
    intro p
    tret
  textOrAction := by
    intro M hn
    rw [textOrAction]
    refine TermL.bind (nextNonSpace_T M) ?_
    intro tk
    refine TermL.ite (fun ht => ?_) (fun _ => ?_)
    · tb (lineNumber_T _)
      exact TermL.pure _ (fun _ h => h.2.2.2 (by rw [ht]; decide))
    refine TermL.ite (fun hl => ?_) (fun _ => unexpected_T _ _ _ _ _)
    refine TermL.pre (P := A M 1) ?_ (fun _ h => h.2.2.2 (by rw [hl]; decide))
    exact TermL.lower M (fun hM => (ih.action (M - 1) (by omega)).post (fun _ _ h => h.up hM))
  action := by
    intro M hn
    rw [action]
    refine TermL.bind (nextNonSpace_T M) ?_
    intro tk
    -- a keyword was consumed: continue one lower
    have kw : ∀ {m : PM PStmt}, tk.typ ≠ Tok.error → (1 ≤ M → TermL (A (M - 1) 0) m (fun _ s => A (M - 1) 0 s)) →
        TermL (AfterNext M tk) m (fun _ s => A M 0 s) := by
      intro m hne h
      refine TermL.pre (P := A M 1) ?_ (fun _ h => h.2.2.2 hne)
      exact TermL.lower M (fun hM => (h hM).post (fun _ _ h => h.weak'))
    refine TermL.ite (fun hk => kw (by rw [hk]; decide) (fun hM => ih.parseInclude (M - 1) (by omega))) (fun _ => ?_)
    refine TermL.ite (fun hk => kw (by rw [hk]; decide) (fun hM => ih.parseBlock (M - 1) (by omega))) (fun _ => ?_)
    refine TermL.ite (fun hk => kw (by rw [hk]; decide) (fun hM => ?_)) (fun _ => ?_)
    · tb (expectRD_T (M - 1) _)
      tret
    refine TermL.ite (fun hk => kw (by rw [hk]; decide) (fun hM => ih.parseYield (M - 1) (by omega))) (fun _ => ?_)
    refine TermL.ite (fun hk => kw (by rw [hk]; decide) (fun hM => ?_)) (fun _ => ?_)
    · tb (expectRD_T (M - 1) _)
      tret
    refine TermL.ite (fun hk => kw (by rw [hk]; decide) (fun hM => ih.parseControl (M - 1) _ _ (by omega))) (fun _ => ?_)
    refine TermL.ite (fun hk => kw (by rw [hk]; decide) (fun hM => ?_)) (fun _ => ?_)
    · refine TermL.bind (peekNonSpace_T (M - 1)) ?_
      intro pk
      refine TermL.ite (fun _ => ?_) (fun _ => ?_)
      · tb (lineNumber_T _)
        tret
      · tb ((expectRD_T (M - 1) _).pre (fun _ h => h.1))
        tb (lineNumber_T _)
        tret
    refine TermL.ite (fun hk => kw (by rw [hk]; decide) (fun hM => ih.parseControl (M - 1) _ _ (by omega))) (fun _ => ?_)
    refine TermL.ite (fun hk => kw (by rw [hk]; decide) (fun hM => ih.parseTry (M - 1) (by omega))) (fun _ => ?_)
    refine TermL.ite (fun hk => kw (by rw [hk]; decide) (fun hM => ih.parseCatch (M - 1) (by omega))) (fun _ => ?_)
    refine TermL.ite (fun hk => kw (by rw [hk]; decide) (fun hM => ?_)) (fun _ => ?_)
    · tb ((exprT_all cfg n).expr (M - 1) _ _ (by omega))
      tb (expectRD_T (M - 1) _)
      tb (lineNumber_T _)
      tret
    -- an expression or assignment action
    tb ((backup_T M 0).pre (fun _ h => h.2.1))
    tb ((peek_T M).pre (fun _ h => h.1))
    tb (lineNumber_T _)
    refine TermL.bind ((assignmentOrExpression_T cfg n "command" M (by omega)).pre (fun _ h => h.1)) ?_
    intro r
    cases r with
    | inr set =>
      refine TermL.bind (expectOneOf_T M _ _ _ _) ?_
      intro tk2
      refine TermL.ite (fun _ => ?_) (fun _ => TermL.pure _ (fun _ h => h.weak))
      tb (((exprT_all cfg n).expr M _ _ (by omega)).pre (fun _ h => h.weak))
      tb (pipeline_T cfg n _ M (by omega))
      tret
    | inl e =>
      tb (pipeline_T cfg n _ M (by omega))
      tret
  parseInclude := by
    intro M hn
    rw [parseInclude]
    tb ((exprT_all cfg n).expr M _ _ (by omega))
    refine TermL.bind (peekNonSpace_T M) ?_
    intro pk
    tb (optExpr_T cfg (by omega) _ _ _)
    tb (expectRD_T M _)
    tb (lineNumber_T _)
    tret
  parseBlock := by
    intro M hn
    rw [parseBlock]
    tb (lineNumber_T _)
    refine TermL.bind (expect_T M _ _ _) ?_
    intro name
    refine TermL.bind ((blockParametersList_T cfg n true _ M (by omega)).pre (fun _ h => h.weak)) ?_
    intro params
    refine TermL.bind (peekNonSpace_T M) ?_
    intro pk
    tb (optExpr_T cfg (by omega) _ _ _)
    tb (expectRD_T M _)
    refine TermL.lower M (fun hM => ?_)
    refine TermL.bind (ih.itemList (M - 1) _ (by omega)) ?_
    intro p
    refine TermL.bind (Q := fun _ s => A (M - 1) 0 s) ?_ ?_
    · refine TermL.ite (fun _ => ?_) (fun _ => TermL.pure _ (fun _ h => h.weak))
      refine TermL.bind ((ih.itemList (M - 1) _ (by omega)).pre (fun _ h => h.weak)) ?_
      intro p2
      tret
    intro content
    tb (registerBlock_T (M - 1) 0 _ _)
    exact TermL.pure _ (fun _ h => h.weak')
  parseYield := by
    intro M hn
    rw [parseYield]
    tb (lineNumber_T _)
    refine TermL.bind (nextNonSpace_T M) ?_
    intro name
    refine TermL.ite (fun _ => ?_) (fun _ => ?_)
    · refine TermL.bind ((peekNonSpace_T M).pre (fun _ h => h.1)) ?_
      intro pk
      tb (optExpr_T cfg (by omega) _ _ _)
      tb (expectRD_T M _)
      tret
    refine TermL.ite (fun _ => unexpected_T _ _ _ _ _) (fun _ => ?_)
    refine TermL.bind ((blockParametersList_T cfg n false _ M (by omega)).pre (fun _ h => h.1)) ?_
    intro params
    refine TermL.bind (peekNonSpace_T M) ?_
    intro pk
    refine TermL.ite (fun _ => ?_) (fun _ => ?_)
    · tb ((expectRD_T M _).pre (fun _ h => h.1))
      tret
    refine TermL.bind (Q := fun _ s => A M 0 s) ?_ ?_
    · refine TermL.ite (fun _ => ?_) (fun _ => TermL.pure _ (fun _ h => h.1))
      tb (((exprT_all cfg n).expr M _ _ (by omega)).pre (fun _ h => h.1))
      refine TermL.bind (peekNonSpace_T M) ?_
      intro pk2
      exact TermL.pure _ (fun _ h => h.1)
    intro p
    refine TermL.ite (fun _ => ?_) (fun _ => ?_)
    · tb (expectRD_T M _)
      tret
    refine TermL.ite (fun _ => ?_) (fun _ => ?_)
    · refine TermL.bind (nextNonSpace_T M) ?_
      intro _
      tb ((expectRD_T M _).pre (fun _ h => h.1))
      refine TermL.lower M (fun hM => ?_)
      refine TermL.bind (ih.itemList (M - 1) _ (by omega)) ?_
      intro p2
      exact TermL.pure _ (fun _ h => h.weak.weak')
    · refine TermL.bind (nextNonSpace_T M) ?_
      intro tk
      exact unexpected_T _ _ _ _ _
  parseControl := by
    intro M b ctx hn
    rw [parseControl]
    tb (lineNumber_T _)
    refine TermL.bind (Q := fun _ s => A M 0 s) ?_ ?_
    · refine TermL.bind (assignmentOrExpression_T cfg n ctx M (by omega)) ?_
      intro r
      cases r with
      | inr set =>
        refine TermL.ite (fun _ => ?_) (fun _ => TermL.pure _ (fun _ h => h))
        tb (expect_T M _ _ _)
        tb (((exprT_all cfg n).expr M _ _ (by omega)).pre (fun _ h => h.weak))
        tret
      | inl e => tret
    intro p
    tb (expectRD_T M _)
    refine TermL.lower M (fun hM => ?_)
    refine TermL.bind (ih.itemList (M - 1) _ (by omega)) ?_
    intro p2
    refine TermL.bind (Q := fun _ s => A (M - 1) 0 s) ?_ ?_
    · refine TermL.ite (fun _ => ?_) (fun _ => TermL.pure _ (fun _ h => h.weak))
      refine TermL.bind ((peek_T (M - 1)).pre (fun _ h => h.weak)) ?_
      intro pk
      refine TermL.ite (fun hc => ?_) (fun _ => ?_)
      · refine TermL.bind (next_after_peek_T (M - 1) pk (by rw [hc.2]; decide)) ?_
        intro _
        tb (lineNumber_T _)
        refine TermL.lower (M - 1) (fun hM1 => ?_)
        refine TermL.bind (ih.parseControl (M - 1 - 1) _ _ (by omega)) ?_
        intro inner
        exact TermL.pure _ (fun _ h => h.weak')
      · refine TermL.bind ((ih.itemList (M - 1) _ (by omega)).pre (fun _ h => h.1)) ?_
        intro p3
        tret
    intro els
    exact TermL.pure _ (fun _ h => h.weak')
  parseTry := by
    intro M hn
    rw [parseTry]
    tb (lineNumber_T _)
    tb (expectRD_T M _)
    refine TermL.lower M (fun hM => ?_)
    refine TermL.bind (ih.itemList (M - 1) _ (by omega)) ?_
    intro p
    obtain ⟨ll, list, nx⟩ := p
    cases nx <;> exact TermL.pure _ (fun _ h => (A.weak h).weak')
  parseCatch := by
    intro M hn
    rw [parseCatch]
    tb (lineNumber_T _)
    refine TermL.bind (peekNonSpace_T M) ?_
    intro pk
    refine TermL.bind (Q := fun _ s => A M 0 s) ?_ ?_
    · refine TermL.ite (fun _ => ?_) (fun _ => TermL.pure _ (fun _ h => h.1))
      refine TermL.bind (((exprT_all cfg n).term M (by omega)).pre (fun _ h => h.1)) ?_
      intro r
      split
      · refine TermL.bind ((next_T M).pre (fun _ h => h.1)) ?_
        intro tk
        exact unexpected_T _ _ _ _ _
      · tret
      · exact errorf_T _ _ _
    intro errVar
    tb (expectRD_T M _)
    refine TermL.lower M (fun hM => ?_)
    refine TermL.bind (ih.itemList (M - 1) _ (by omega)) ?_
    intro p
    exact TermL.pure _ (fun _ h => h.weak.weak')

theorem stmtT_all : ∀ n, StmtT cfg n
  | 0 => stmtT_zero cfg
  | n + 1 => stmtT_step cfg n (stmtT_all n)


/-! ### the template -/

theorem prologueLoop_T : ∀ (k M : Nat) (skipped : List PStmt), M < k →
    TermL (A M 0) (prologueLoop cfg k skipped) (fun _ s => A M 0 s)
  | 0, _, _, hk => by omega
  | k + 1, M, skipped, hk => by
    rw [prologueLoop]
    refine TermL.bind (peek_T M) ?_
    intro pk
    refine TermL.ite (fun _ => TermL.pure _ (fun _ h => h.1)) (fun _ => ?_)
    refine TermL.bind ((next_T M).pre (fun _ h => h.1)) ?_
    intro delim
    refine TermL.ite (fun ht => ?_) (fun _ => ?_)
    · refine TermL.pre (P := A M 1) ?_ (fun _ h => h.2.2.2 (by rw [ht.1]; decide))
      refine TermL.lower M (fun hM => ?_)
      refine TermL.bind TermL.get ?_
      intro s0
      refine TermL.ite (fun _ => ?_) (fun _ => ?_)
      · tb ((lineNumber_T _).pre (fun _ h => h.2))
        exact (prologueLoop_T k (M - 1) _ (by omega)).post (fun _ _ h => h.weak')
      · exact (prologueLoop_T k (M - 1) _ (by omega)).weaken (fun _ h => h.2) (fun _ _ h => h.weak')
    refine TermL.ite (fun hl => ?_) (fun _ => ?_)
    · refine TermL.pre (P := A M 1) ?_ (fun _ h => h.2.2.2 (by rw [hl]; decide))
      refine TermL.lower M (fun hM => ?_)
      refine TermL.bind (nextNonSpace_T (M - 1)) ?_
      intro tk
      refine TermL.ite (fun _ => ?_) (fun _ => ?_)
      · refine TermL.bind ((expectString_T cfg (M - 1) _).pre (fun _ h => h.1)) ?_
        intro sname
        refine TermL.bind (TermL.get.pre (fun _ h => A.weak h)) ?_
        intro s0
        have jp : ∀ r : Unit, TermL (fun s => A (M - 1) 0 s) ((fun (_ : Unit) => do
            let _ ← expect Tok.rightDelim "extends|import" "closing delimiter"
            prologueLoop cfg k skipped) r) (fun _ s => A M 0 s) := by
          intro _
          tb (expect_T (M - 1) _ _ _)
          exact (prologueLoop_T k (M - 1) _ (by omega)).weaken (fun _ h => h.weak) (fun _ _ h => h.weak')
        have hmod : ∀ f : PSt → PSt, (∀ s, mu (f s) = mu s) →
            TermL (fun s => s0 = s ∧ A (M - 1) 0 s) (modify f) (fun _ s => A (M - 1) 0 s) := by
          intro f hfm s hs
          simp only [modify]
          have := hs.2
          unfold A at this ⊢
          rw [hfm]; exact this
        have herr : ∀ ps, TermL (fun s => s0 = s ∧ A (M - 1) 0 s) (errorf ps : PM Unit) (fun _ s => A (M - 1) 0 s) :=
          fun ps => errorf_T _ _ _
        dsimp only []
        refine TermL.ite (fun _ => ?_) (fun _ => ?_)
        · refine TermL.ite (fun _ => TermL.bind (herr _) jp) (fun _ => ?_)
          refine TermL.ite (fun _ => TermL.bind (herr _) jp) (fun _ => ?_)
          split
          · exact TermL.bind (hmod _ (fun s => rfl)) jp
          · exact TermL.bind (herr _) jp
        · split
          · exact TermL.bind (hmod _ (fun s => rfl)) jp
          · exact TermL.bind (herr _) jp
      · tb ((backup2_T M delim).pre (fun s h => by have := h.2.1; unfold Bk at this ⊢; omega))
        tret
    · tb ((backup_T M 0).pre (fun _ h => h.2.1))
      tret

theorem bodyLoop_T : ∀ (k M : Nat) (acc : List PStmt), M < k → 20 + 40 * M ≤ fuel →
    TermL (A M 0) (bodyLoop cfg fuel k acc) (fun _ s => A M 0 s)
  | 0, _, _, hk, _ => by omega
  | k + 1, M, acc, hk, hf => by
    rw [bodyLoop]
    refine TermL.bind (peek_T M) ?_
    intro pk
    refine TermL.ite (fun _ => TermL.pure _ (fun _ h => h.1)) (fun _ => ?_)
    refine TermL.bind (((stmtT_all cfg fuel).textOrAction M hf).pre (fun _ h => h.1)) ?_
    intro nd
    refine TermL.ite (fun _ => errorf_T _ _ _) (fun _ => ?_)
    exact TermL.lower M (fun hM => (bodyLoop_T k (M - 1) _ (by omega) (by omega)).post (fun _ _ h => h.weak'))

theorem parseTemplate_T (M : Nat) (hf : 20 + 40 * M ≤ fuel) :
    TermL (A M 0) (parseTemplate cfg fuel) (fun _ s => A M 0 s) := by
  unfold parseTemplate
  tb (peek_T M)
  tb (lineNumber_T _)
  refine TermL.bind (TermL.get.pre (fun _ h => h.1)) ?_
  intro a
  -- both loops run under the ceiling `mu a`, which is below the bound computed from `a`
  refine TermL.atState (fun hle => ?_)
  have hb : mu a < a.toks.length + a.peekCount + 2 := by have := mu_le_nu a; unfold nu at this; omega
  tb (prologueLoop_T cfg _ (mu a) _ hb)
  refine TermL.bind TermL.get ?_
  intro s2
  refine TermL.bind ((bodyLoop_T cfg fuel _ (mu a) _ hb (by omega)).pre (fun _ h => h.2)) ?_
  intro nodes
  tret

/-- the initial state of `Set.parse`: nothing pushed back, every item still to come -/
theorem initial_mu (name input : Bytes) (toks : List Item) :
    A toks.length 0 ({ input := input, name := name, toks := toks } : PSt) := by
  simp [A, mu, bufW]

end JetVerif.Parse
