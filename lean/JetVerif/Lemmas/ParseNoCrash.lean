/-
  The parser model never crashes: for every fuel, every production started in a well-formed
  state (items inside the source, field items well-formed, at most two items pushed back) ends in
  `ok` with a well-formed state, in `err`, `fuel` or `unsupported` - never in `crash`.
  By induction on the fuel over the conjunction of the specifications of all productions.
-/
import JetVerif.Lemmas.ParseSafe

namespace JetVerif.Parse

variable (inp : Bytes) (cfg : Cfg)
local notation "Safe" => SafeL (LineOk inp)

abbrev I1 : PSt → Prop := Inv inp 1
abbrev I2 : PSt → Prop := Inv inp 2
abbrev Q1 {α : Type} : α → PSt → Prop := fun _ s => Inv inp 1 s
abbrev Q2 {α : Type} : α → PSt → Prop := fun _ s => Inv inp 2 s

theorem i12 {inp : Bytes} {s : PSt} (h : Inv inp 1 s) : Inv inp 2 s := h.mono (by omega)

/-- a `FieldNode` always has at least one name (what `newField(…, chain.String())` relies on) -/
def GoodNode : PExpr → Prop
  | .field _ names => names ≠ []
  | _ => True

/-! ### primitives, in the shapes the productions use them -/

theorem nns (k : Nat) (hk : k ≤ 2 := by omega) : Safe (Inv inp k) nextNonSpace (Q1 inp) :=
  ((nextNonSpace_safe inp).post (fun _ _ h => h.1)).pre (fun _ h => h.mono hk)
theorem nnsW (k : Nat) (hk : k ≤ 2 := by omega) :
    Safe (Inv inp k) nextNonSpace (fun a s => Inv inp 1 s ∧ WfItem inp a) :=
  ((nextNonSpace_safe inp).post (fun _ _ h => ⟨h.1, h.2.1⟩)).pre (fun _ h => h.mono hk)
theorem nx (k : Nat) (hk : k ≤ 2 := by omega) : Safe (Inv inp k) next (Q1 inp) :=
  ((next_safe inp).post (fun _ _ h => h.1)).pre (fun _ h => h.mono hk)
theorem nxW (k : Nat) (hk : k ≤ 2 := by omega) :
    Safe (Inv inp k) next (fun a s => Inv inp 1 s ∧ WfItem inp a) :=
  ((next_safe inp).post (fun _ _ h => ⟨h.1, h.2.1⟩)).pre (fun _ h => h.mono hk)
theorem pns (k : Nat) (hk : k ≤ 2 := by omega) : Safe (Inv inp k) peekNonSpace (Q2 inp) :=
  ((peekNonSpace_safe inp).post (fun _ _ h => h.1)).pre (fun _ h => h.mono hk)
theorem pk2 : Safe (Inv inp 2) peek (Q2 inp) := (peek_safe inp 2 (by omega) (by omega)).post (fun _ _ h => h.1)
theorem pk1 : Safe (Inv inp 1) peek (Q1 inp) := (peek_safe inp 1 (by omega) (by omega)).post (fun _ _ h => h.1)
theorem ln (k : Nat) : Safe (Inv inp k) lineNumber (fun _ s => Inv inp k s) := lineNumber_safe inp k
theorem lineNumber_state (s : PSt) (a : Nat) (s' : PSt) (h : lineNumber s = .ok a s') : s' = s := by
  unfold lineNumber at h
  split at h
  · simp at h; exact h.2.symm
  · simp at h

/-- `lineNumber` leaves the state alone: any predicate that implies well-formedness survives it -/
theorem ln_keep (k : Nat) (P : PSt → Prop) (hP : ∀ s, P s → Inv inp k s) : Safe P lineNumber (fun _ s => P s) := by
  intro s hs
  have := ln inp k s (hP s hs)
  cases hl : lineNumber s with
  | ok a s' => rw [lineNumber_state s a s' hl]; exact hs
  | err l m => rw [hl] at this; exact this
  | crash w => rw [hl] at this; exact this.elim
  | fuel => trivial
  | unsupported w => trivial

theorem bk : Safe (Inv inp 1) backup (Q2 inp) := backup_safe inp 1
theorem ef {α : Type} (k : Nat) (ps : List MP) (Q : α → PSt → Prop) : Safe (Inv inp k) (errorf ps : PM α) Q :=
  errorf_safe inp k ps Q
theorem ux {α : Type} (k : Nat) (tk : Item) (c e : String) (Q : α → PSt → Prop) :
    Safe (Inv inp k) (unexpected tk c e : PM α) Q := unexpected_safe inp k tk c e Q

theorem expect_safe (k : Nat) (ty : Tok) (c e : String) (hk : k ≤ 2 := by omega) :
    Safe (Inv inp k) (expect ty c e) (Q1 inp) := by
  unfold expect
  refine SafeL.bind (nns inp k) ?_
  intro tk
  refine SafeL.ite (fun _ => ux inp 1 tk c e _) (fun _ => SafeL.pure _ (fun _ h => h))

theorem expectRD_safe (k : Nat) (c : String) (hk : k ≤ 2 := by omega) :
    Safe (Inv inp k) (expectRightDelim c) (Q1 inp) := expect_safe inp k _ _ _

theorem expectOneOf_safe (k : Nat) (t1 t2 : Tok) (c e : String) (hk : k ≤ 2 := by omega) :
    Safe (Inv inp k) (expectOneOf t1 t2 c e) (Q1 inp) := by
  unfold expectOneOf
  refine SafeL.bind (nns inp k) ?_
  intro tk
  refine SafeL.ite (fun _ => ux inp 1 tk c e _) (fun _ => SafeL.pure _ (fun _ h => h))

theorem expectString_safe (k : Nat) (c : String) (hk : k ≤ 2 := by omega) :
    Safe (Inv inp k) (expectString cfg c) (Q1 inp) := by
  unfold expectString
  refine SafeL.bind (expectOneOf_safe inp k _ _ _ _) ?_
  intro tk
  split
  · exact SafeL.pure _ (fun _ h => h)
  · exact ef inp 1 _ _
  · exact SafeL.unsupported _
  · exact SafeL.unsupported _

theorem splitDots_go_ne (cur : Bytes) (acc : List Bytes) (b : Bytes) : splitDots.go cur acc b ≠ [] := by
  induction b generalizing cur acc with
  | nil => simp [splitDots.go]
  | cons c rest ih =>
    simp only [splitDots.go]
    split
    · exact ih _ _
    · exact ih _ _

theorem splitDots_ne (b : Bytes) : splitDots b ≠ [] := splitDots_go_ne _ _ _

theorem fieldNames_safe (P : PSt → Prop) (v : Bytes) (hv : v ≠ []) :
    Safe P (fieldNames v) (fun r s => P s ∧ r ≠ []) := by
  intro s hs
  cases v with
  | nil => exact (hv rfl).elim
  | cons c rest => simp [fieldNames]; exact ⟨hs, splitDots_ne rest⟩

theorem chainAdd_safe (P : PSt → Prop) (fields : List Bytes) (v : Bytes) (hv : ∃ c cs, v = 46 :: c :: cs) :
    Safe P (chainAdd fields v) (fun r s => P s ∧ r ≠ []) := by
  intro s hs
  obtain ⟨c, cs, rfl⟩ := hv
  simp [chainAdd]
  exact hs

theorem next_after_peek (pk : Item) :
    Safe (fun s => Inv inp 2 s ∧ s.peekCount ≥ 1 ∧ pk = slotAt s (s.peekCount - 1)) next
      (fun a s => Inv inp 1 s ∧ a = pk) := by
  intro s hs
  obtain ⟨⟨w, hk⟩, h1, hpk⟩ := hs
  obtain ⟨k, hk1⟩ : ∃ k, s.peekCount = k + 1 := ⟨s.peekCount - 1, by omega⟩
  rw [next_pushed_eq s k hk1]
  have hw : Wf inp { s with peekCount := k } := ⟨w.input, w.toks, w.t0, w.t1, w.t2, w.last0, w.last1, w.eof⟩
  have hc : k = 0 ∨ k = 1 := by omega
  rcases hc with hc | hc
  · subst hc; simp [tokenAt]; exact ⟨⟨hw, by simp⟩, by simp [hpk, slotAt, hk1]⟩
  · subst hc; simp [tokenAt]; exact ⟨⟨hw, by simp⟩, by simp [hpk, slotAt, hk1]⟩

/-- the peeked item is returned again by `peekNonSpace`, and nothing changes -/
theorem peekNonSpace_again (pk : Item) (s : PSt) (h2 : s.peekCount ≤ 2) (h1 : s.peekCount ≥ 1)
    (hpk : pk = slotAt s (s.peekCount - 1)) (hsp : pk.typ ≠ Tok.space) : peekNonSpace s = .ok pk s := by
  obtain ⟨k, hk1⟩ : ∃ k, s.peekCount = k + 1 := ⟨s.peekCount - 1, by omega⟩
  have hc : k = 0 ∨ k = 1 := by omega
  have hnx : next s = .ok pk { s with peekCount := k } := by
    rw [next_pushed_eq s k hk1]
    rcases hc with hc | hc <;> subst hc <;> simp [tokenAt, hpk, slotAt, hk1]
  have hnn : nextNonSpace s = .ok pk { s with peekCount := k } := by
    unfold nextNonSpace
    rw [hk1]
    have : s.toks.length + (k + 1) + 2 = (s.toks.length + k + 2) + 1 := by omega
    rw [this, nextNonSpaceLoop]
    simp [bind_apply, hnx, hsp]
  unfold peekNonSpace
  simp [bind_apply, hnn, backup, modify]
  cases s
  simp at hk1 ⊢
  exact hk1.symm

theorem dotted_ne (names : List Bytes) (h : names ≠ []) (rest : Bytes) : dotted names ++ rest ≠ [] := by
  cases names with
  | nil => exact (h rfl).elim
  | cons n ns => simp [dotted]

/-! ### the expression productions -/

structure ExprSpecs (n : Nat) : Prop where
  term : Safe (I2 inp) (term cfg n) (Q2 inp)
  chainLoop : ∀ acc, Safe (I2 inp) (chainLoop n acc) (fun r s => Inv inp 2 s ∧ (acc ≠ [] → r ≠ []))
  chainFirst : ∀ pk : Item, pk.typ = Tok.field →
    Safe (fun s => Inv inp 2 s ∧ WfItem inp pk ∧ s.peekCount ≥ 1 ∧ pk = slotAt s (s.peekCount - 1)) (Parse.chainLoop n [])
      (fun r s => Inv inp 2 s ∧ r ≠ [])
  operandReset : ∀ node, Safe (I2 inp) (operandReset cfg n node) (Q2 inp)
  operand : ∀ ctx, Safe (I2 inp) (operand cfg n ctx) (Q2 inp)
  argsLoop : ∀ acc slot, Safe (I2 inp) (parseArgumentsLoop cfg n acc slot) (Q2 inp)
  args : Safe (I2 inp) (parseArguments cfg n) (Q2 inp)
  unary : ∀ ctx, Safe (I2 inp) (unaryExpression cfg n ctx) (Q1 inp)
  mulLoop : ∀ ctx l e, Safe (I1 inp) (multiplicativeLoop cfg n ctx l e) (Q1 inp)
  mul : ∀ ctx, Safe (I2 inp) (multiplicativeExpression cfg n ctx) (Q1 inp)
  addLoop : ∀ ctx l e, Safe (I1 inp) (additiveLoop cfg n ctx l e) (Q1 inp)
  add : ∀ ctx, Safe (I2 inp) (additiveExpression cfg n ctx) (Q1 inp)
  relLoop : ∀ ctx l e, Safe (I1 inp) (numericComparativeLoop cfg n ctx l e) (Q1 inp)
  rel : ∀ ctx, Safe (I2 inp) (numericComparativeExpression cfg n ctx) (Q1 inp)
  eqLoop : ∀ ctx l e, Safe (I1 inp) (comparativeLoop cfg n ctx l e) (Q1 inp)
  eq : ∀ ctx, Safe (I2 inp) (comparativeExpression cfg n ctx) (Q1 inp)
  logLoop : ∀ ctx l e, Safe (I1 inp) (logicalLoop cfg n ctx l e) (Q1 inp)
  log : ∀ ctx, Safe (I2 inp) (logicalExpression cfg n ctx) (Q1 inp)
  pexpr : ∀ ctx, Safe (I2 inp) (parseExpression cfg n ctx) (Q1 inp)
  expr : ∀ ctx as, Safe (I2 inp) (expression cfg n ctx as) (Q2 inp)

theorem exprSpecs_zero : ExprSpecs inp cfg 0 := by
  constructor <;> intros <;> first
    | (rw [term]; exact SafeL.outOfFuel) | (rw [chainLoop]; exact SafeL.outOfFuel) | (intro _ _; rw [chainLoop]; exact SafeL.outOfFuel)
    | (rw [operandReset]; exact SafeL.outOfFuel) | (rw [operand]; exact SafeL.outOfFuel)
    | (rw [parseArgumentsLoop]; exact SafeL.outOfFuel) | (rw [parseArguments]; exact SafeL.outOfFuel)
    | (rw [unaryExpression]; exact SafeL.outOfFuel) | (rw [multiplicativeLoop]; exact SafeL.outOfFuel)
    | (rw [multiplicativeExpression]; exact SafeL.outOfFuel) | (rw [additiveLoop]; exact SafeL.outOfFuel)
    | (rw [additiveExpression]; exact SafeL.outOfFuel) | (rw [numericComparativeLoop]; exact SafeL.outOfFuel)
    | (rw [numericComparativeExpression]; exact SafeL.outOfFuel) | (rw [comparativeLoop]; exact SafeL.outOfFuel)
    | (rw [comparativeExpression]; exact SafeL.outOfFuel) | (rw [logicalLoop]; exact SafeL.outOfFuel)
    | (rw [logicalExpression]; exact SafeL.outOfFuel) | (rw [parseExpression]; exact SafeL.outOfFuel)
    | (rw [expression]; exact SafeL.outOfFuel)


macro "sb " t:term : tactic => `(tactic| (refine SafeL.bind $t ?_; intro _))
macro "sret" : tactic => `(tactic| exact SafeL.pure _ (fun _ h => by first | exact h | exact h.1 | exact i12 h | exact i12 h.1))

/-- the five binary loops share one shape -/
theorem loop_step {n : Nat} {ctx : String} (c : Prop) [Decidable c]
    (sub : String → PM (PExpr × Item)) (loop : PExpr → Item → PM (PExpr × Item)) (mk : Nat → PExpr → PExpr)
    (hsub : Safe (I2 inp) (sub ctx) (Q1 inp)) (hloop : ∀ l e, Safe (I1 inp) (loop l e) (Q1 inp))
    (left : PExpr) (endtoken : Item) :
    Safe (I1 inp) (if c then (do
        let (right, rightend) ← sub ctx
        let l ← lineNumber
        loop (mk l right) rightend) else pure (left, endtoken)) (Q1 inp) := by
  refine SafeL.ite (fun _ => ?_) (fun _ => SafeL.pure _ (fun _ h => h))
  refine SafeL.bind (hsub.pre (fun _ h => i12 h)) ?_
  intro p
  refine SafeL.bind (ln inp 1) ?_
  intro l
  exact hloop _ _

theorem exprSpecs_step (n : Nat) (ih : ExprSpecs inp cfg n) : ExprSpecs inp cfg (n + 1) where
  term := by
    rw [term]
    refine SafeL.bind (nnsW inp 2) ?_
    intro tk
    refine SafeL.ite (fun _ => (ef inp 1 _ _).pre (fun _ h => h.1)) (fun _ => ?_)
    refine SafeL.ite (fun _ => ?_) (fun _ => ?_)
    · sb ((ln inp 1).pre (fun _ h => h.1))
      sret
    refine SafeL.ite (fun _ => ?_) (fun _ => ?_)
    · sb ((ln inp 1).pre (fun _ h => h.1))
      sret
    refine SafeL.ite (fun _ => ?_) (fun _ => ?_)
    · sb ((ln inp 1).pre (fun _ h => h.1))
      sret
    refine SafeL.ite (fun hf => ?_) (fun _ => ?_)
    · refine SafeL.bind (ln_keep inp 1 (fun s => Inv inp 1 s ∧ WfItem inp tk) (fun _ h => h.1)) ?_
      intro l
      intro s hs
      have hv : tk.val ≠ [] := by
        obtain ⟨c, cs, h⟩ := hs.2.2.2 hf
        rw [h]; simp
      have := fieldNames_safe inp (fun s => Inv inp 1 s) tk.val hv s hs.1
      rw [bind_apply]
      cases hfn : fieldNames tk.val s with
      | ok a s' => rw [hfn] at this; simp [PRes.andThen]; exact i12 this.1
      | err l m => rw [hfn] at this; simp [PRes.andThen]; exact this
      | crash w => rw [hfn] at this; exact this.elim
      | fuel => trivial
      | unsupported w => trivial
    refine SafeL.ite (fun _ => ?_) (fun _ => ?_)
    · sb ((ln inp 1).pre (fun _ h => h.1))
      sret
    refine SafeL.ite (fun _ => ?_) (fun _ => ?_)
    · sb ((ln inp 1).pre (fun _ h => h.1))
      split
      · sret
      · exact ef inp 1 _ _
      · exact SafeL.unsupported _
      · exact SafeL.unsupported _
    refine SafeL.ite (fun _ => ?_) (fun _ => ?_)
    · sb ((ih.expr _ _).pre (fun _ h => i12 h.1))
      refine SafeL.bind (nx inp 2) ?_
      intro tk2
      refine SafeL.ite (fun _ => ux inp 1 _ _ _ _) (fun _ => ?_)
      sret
    refine SafeL.ite (fun _ => ?_) (fun _ => ?_)
    · split
      · sb ((ln inp 1).pre (fun _ h => h.1))
        sret
      · exact (ef inp 1 _ _).pre (fun _ h => h.1)
      · exact SafeL.unsupported _
      · exact SafeL.unsupported _
    · sb ((bk inp).pre (fun _ h => h.1))
      sret
  chainLoop := by
    intro acc
    rw [chainLoop]
    refine SafeL.bind (peekNonSpace_safe inp) ?_
    intro pk
    refine SafeL.ite (fun hf => ?_) (fun _ => SafeL.pure _ (fun _ h => ⟨h.1, fun h => h⟩))
    refine SafeL.assume (WfItem inp pk) (fun _ h => h.2.1) (fun wpk => ?_)
    refine SafeL.bind ((next_after_peek inp pk).pre (fun s h => ⟨h.1, h.2.2.1, h.2.2.2⟩)) ?_
    intro tk
    refine SafeL.assume (tk = pk) (fun _ h => h.2) (fun htk => ?_)
    subst htk
    refine SafeL.bind ((chainAdd_safe inp (I1 inp) acc tk.val (wpk.2.2 hf)).pre (fun _ h => h.1)) ?_
    intro a
    refine SafeL.assume (a ≠ []) (fun _ h => h.2) (fun ha => ?_)
    exact (ih.chainLoop a).weaken (fun _ h => i12 h.1) (fun r s h => ⟨h.1, fun _ => h.2 ha⟩)
  chainFirst := by
    intro pk hf
    rw [chainLoop]
    have hsp : pk.typ ≠ Tok.space := by rw [hf]; simp
    refine SafeL.bind (Q := fun a s => a = pk ∧ Inv inp 2 s ∧ WfItem inp pk ∧ s.peekCount ≥ 1 ∧ pk = slotAt s (s.peekCount - 1)) ?_ ?_
    · intro s hs
      rw [peekNonSpace_again pk s hs.1.2 hs.2.2.1 hs.2.2.2 hsp]
      exact ⟨rfl, hs⟩
    intro pk'
    refine SafeL.assume (pk' = pk) (fun _ h => h.1) (fun e => ?_)
    subst e
    simp only [hf, if_true]
    refine SafeL.assume (WfItem inp pk') (fun _ h => h.2.2.1) (fun wpk => ?_)
    refine SafeL.bind ((next_after_peek inp pk').pre (fun s h => ⟨h.2.1, h.2.2.2.1, h.2.2.2.2⟩)) ?_
    intro tk
    refine SafeL.assume (tk = pk') (fun _ h => h.2) (fun htk => ?_)
    subst htk
    refine SafeL.bind ((chainAdd_safe inp (I1 inp) [] tk.val (wpk.2.2 hf)).pre (fun _ h => h.1)) ?_
    intro a
    refine SafeL.assume (a ≠ []) (fun _ h => h.2) (fun ha => ?_)
    exact (ih.chainLoop a).weaken (fun _ h => i12 h.1) (fun r s h => ⟨h.1, h.2 ha⟩)
  operandReset := by
    intro node0
    rw [operandReset]
    refine SafeL.bind (peek_safe inp 2 (by omega) (by omega)) ?_
    intro pk
    refine SafeL.bind (Q := Q2 inp) ?_ ?_
    · refine SafeL.ite (fun hf => ?_) (fun _ => SafeL.pure _ (fun _ h => h.1))
      refine SafeL.bind (ln_keep inp 2 _ (fun _ h => h.1)) ?_
      intro l
      refine SafeL.bind (ih.chainFirst pk hf) ?_
      intro fields
      refine SafeL.assume (fields ≠ []) (fun _ h => h.2) (fun hne => ?_)
      split
      · sb ((ln inp 2).pre (fun _ h => h.1))
        refine SafeL.bind ((fieldNames_safe inp (I2 inp) _ (by
          intro h
          have := dotted_ne fields hne []
          simp at this
          simp [List.append_eq_nil_iff] at h
          exact this h.2))) ?_
        intro r
        exact SafeL.pure _ (fun _ h => h.1)
      · exact (ef inp 2 _ _).pre (fun _ h => h.1)
      · exact (ef inp 2 _ _).pre (fun _ h => h.1)
      · exact (ef inp 2 _ _).pre (fun _ h => h.1)
      · exact (ef inp 2 _ _).pre (fun _ h => h.1)
      · exact SafeL.pure _ (fun _ h => h.1)
    intro node
    refine SafeL.ite (fun _ => ?_) (fun _ => SafeL.pure _ (fun _ h => h))
    refine SafeL.bind (nns inp 2) ?_
    intro tk
    refine SafeL.ite (fun _ => ?_) (fun _ => ?_)
    · sb (ln inp 1)
      refine SafeL.bind (ih.args.pre (fun _ h => i12 h)) ?_
      intro p
      sb (expect_safe inp 2 _ _ _)
      exact (ih.operandReset _).pre (fun _ h => i12 h)
    refine SafeL.ite (fun _ => ?_) (fun _ => ?_)
    · refine SafeL.bind (pns inp 1) ?_
      intro pk2
      refine SafeL.bind (Q := Q1 inp) ?_ ?_
      · refine SafeL.ite (fun _ => ?_) (fun _ => ?_)
        · sb (ih.pexpr _)
          sret
        · sb (nns inp 2)
          sret
      intro p
      refine SafeL.bind (Q := Q2 inp) ?_ ?_
      · refine SafeL.ite (fun _ => ?_) (fun _ => ?_)
        · refine SafeL.bind (pns inp 1) ?_
          intro pk3
          refine SafeL.bind (Q := Q2 inp) ?_ ?_
          · refine SafeL.ite (fun _ => ?_) (fun _ => SafeL.pure _ (fun _ h => h))
            sb (ih.expr _ _)
            sret
          intro e
          sret
        · refine SafeL.ite (fun _ => ?_) (fun _ => ?_)
          · sb (bk inp)
            sret
          · sb (bk inp)
            sret
      intro node2
      sb (expect_safe inp 2 _ _ _)
      exact (ih.operandReset _).pre (fun _ h => i12 h)
    · sb (bk inp)
      sret
  operand := by
    intro ctx
    rw [operand]
    refine SafeL.bind ih.term ?_
    intro r
    split
    · refine SafeL.bind (nx inp 2) ?_
      intro tk
      exact ux inp 1 _ _ _ _
    · exact ih.operandReset _
  argsLoop := by
    intro acc slot
    rw [parseArgumentsLoop]
    refine SafeL.bind (pns inp 2) ?_
    intro pk
    refine SafeL.ite (fun _ => SafeL.pure _ (fun _ h => h)) (fun _ => ?_)
    refine SafeL.bind (ih.pexpr _) ?_
    intro p
    refine SafeL.bind (Q := Q1 inp) ?_ ?_
    · refine SafeL.ite (fun _ => ?_) (fun _ => SafeL.pure _ (fun _ h => h))
      refine SafeL.ite (fun _ => ef inp 1 _ _) (fun _ => SafeL.pure _ (fun _ h => h))
    intro slot'
    refine SafeL.ite (fun _ => (ih.argsLoop _ _).pre (fun _ h => i12 h)) (fun _ => ?_)
    sb (bk inp)
    sret
  args := by
    rw [parseArguments]
    exact ih.argsLoop _ _
  unary := by
    intro ctx
    rw [unaryExpression]
    refine SafeL.bind (nns inp 2) ?_
    intro nx
    refine SafeL.ite (fun _ => ?_) (fun _ => ?_)
    · sb ((ih.eq ctx).pre (fun _ h => i12 h))
      sb (ln inp 1)
      sret
    · refine SafeL.ite (fun _ => ?_) (fun _ => ?_)
      · sb (ln inp 1)
        sb ((ih.operand _).pre (fun _ h => i12 h))
        sb (nns inp 2)
        sret
      · sb (bk inp)
        sb (ih.operand _)
        sb (nns inp 2)
        sret
  mulLoop := by
    intro ctx l e
    rw [multiplicativeLoop]
    refine SafeL.ite (fun _ => ?_) (fun _ => SafeL.pure _ (fun _ h => h))
    sb ((ih.unary ctx).pre (fun _ h => i12 h))
    sb (ln inp 1)
    exact ih.mulLoop _ _ _
  mul := by
    intro ctx
    rw [multiplicativeExpression]
    sb (ih.unary ctx)
    exact ih.mulLoop _ _ _
  addLoop := by
    intro ctx l e
    rw [additiveLoop]
    refine SafeL.ite (fun _ => ?_) (fun _ => SafeL.pure _ (fun _ h => h))
    sb ((ih.mul ctx).pre (fun _ h => i12 h))
    sb (ln inp 1)
    exact ih.addLoop _ _ _
  add := by
    intro ctx
    rw [additiveExpression]
    sb (ih.mul ctx)
    exact ih.addLoop _ _ _
  relLoop := by
    intro ctx l e
    rw [numericComparativeLoop]
    refine SafeL.ite (fun _ => ?_) (fun _ => SafeL.pure _ (fun _ h => h))
    sb ((ih.add ctx).pre (fun _ h => i12 h))
    sb (ln inp 1)
    exact ih.relLoop _ _ _
  rel := by
    intro ctx
    rw [numericComparativeExpression]
    sb (ih.add ctx)
    exact ih.relLoop _ _ _
  eqLoop := by
    intro ctx l e
    rw [comparativeLoop]
    refine SafeL.ite (fun _ => ?_) (fun _ => SafeL.pure _ (fun _ h => h))
    sb ((ih.rel ctx).pre (fun _ h => i12 h))
    sb (ln inp 1)
    exact ih.eqLoop _ _ _
  eq := by
    intro ctx
    rw [comparativeExpression]
    sb (ih.rel ctx)
    exact ih.eqLoop _ _ _
  logLoop := by
    intro ctx l e
    rw [logicalLoop]
    refine SafeL.ite (fun _ => ?_) (fun _ => SafeL.pure _ (fun _ h => h))
    sb ((ih.eq ctx).pre (fun _ h => i12 h))
    sb (ln inp 1)
    exact ih.logLoop _ _ _
  log := by
    intro ctx
    rw [logicalExpression]
    sb (ih.eq ctx)
    exact ih.logLoop _ _ _
  pexpr := by
    intro ctx
    rw [parseExpression]
    sb (ih.log ctx)
    refine SafeL.ite (fun _ => ?_) (fun _ => SafeL.pure _ (fun _ h => h))
    sb ((ih.pexpr ctx).pre (fun _ h => i12 h))
    refine SafeL.ite (fun _ => ux inp 1 _ _ _ _) (fun _ => ?_)
    sb ((ih.pexpr ctx).pre (fun _ h => i12 h))
    sb (ln inp 1)
    sret
  expr := by
    intro ctx as
    rw [expression]
    sb (ih.pexpr ctx)
    sb (bk inp)
    sret

theorem exprSpecs_all : ∀ n, ExprSpecs inp cfg n
  | 0 => exprSpecs_zero inp cfg
  | n + 1 => exprSpecs_step inp cfg n (exprSpecs_all n)

/-! ### assignments, commands, pipelines, block parameter lists -/

theorem get_safe (P : PSt → Prop) : Safe P get (fun _ s => P s) := fun _ hs => hs

theorem modify_safe (k : Nat) (f : PSt → PSt) (hf : ∀ s, Inv inp k s → Inv inp k (f s)) :
    Safe (Inv inp k) (modify f) (fun _ s => Inv inp k s) := fun s hs => hf s hs

theorem registerBlock_safe (k : Nat) (name : Bytes) (b : PStmt) :
    Safe (Inv inp k) (registerBlock name b) (fun _ s => Inv inp k s) := by
  unfold registerBlock
  refine modify_safe inp k _ ?_
  intro s hs
  obtain ⟨w, hk⟩ := hs
  split
  · exact ⟨⟨w.input, w.toks, w.t0, w.t1, w.t2, w.last0, w.last1, w.eof⟩, hk⟩
  · exact ⟨⟨w.input, w.toks, w.t0, w.t1, w.t2, w.last0, w.last1, w.eof⟩, hk⟩

theorem assignLeftLoop_safe (fuel : Nat) (ctx : String) : ∀ k left op ret,
    Safe (I1 inp) (assignLeftLoop cfg fuel ctx k left op ret) (Q1 inp)
  | 0, _, _, _ => by rw [assignLeftLoop]; exact SafeL.outOfFuel
  | k + 1, left, op, ret => by
    have E := exprSpecs_all inp cfg fuel
    rw [assignLeftLoop]
    refine SafeL.ite (fun _ => ef inp 1 _ _) (fun _ => ?_)
    refine SafeL.ite (fun _ => ?_) (fun _ => ?_)
    · refine SafeL.bind ((E.pexpr ctx).pre (fun _ h => i12 h)) ?_
      intro p
      exact assignLeftLoop_safe fuel ctx k _ _ _
    · refine SafeL.ite (fun _ => SafeL.pure _ (fun _ h => h)) (fun _ => ux inp 1 _ _ _ _)

theorem assignRightLoop_safe (fuel : Nat) : ∀ k right,
    Safe (I2 inp) (assignRightLoop cfg fuel k right) (Q2 inp)
  | 0, _ => by rw [assignRightLoop]; exact SafeL.outOfFuel
  | k + 1, right => by
    have E := exprSpecs_all inp cfg fuel
    rw [assignRightLoop]
    refine SafeL.bind (E.pexpr _) ?_
    intro p
    refine SafeL.ite (fun _ => ?_) (fun _ => ?_)
    · sb (bk inp)
      sret
    · exact (assignRightLoop_safe fuel k _).pre (fun _ h => i12 h)

theorem assignmentOrExpression_safe (fuel : Nat) (ctx : String) :
    Safe (I2 inp) (assignmentOrExpression cfg fuel ctx) (Q2 inp) := by
  have E := exprSpecs_all inp cfg fuel
  unfold assignmentOrExpression
  sb (pns inp 2)
  sb (ln inp 2)
  refine SafeL.bind (E.pexpr ctx) ?_
  intro p
  refine SafeL.ite (fun _ => ?_) (fun _ => ?_)
  · refine SafeL.bind (get_safe inp _) ?_
    intro s0
    refine SafeL.bind (assignLeftLoop_safe inp cfg fuel ctx _ _ _ _) ?_
    intro q
    refine SafeL.ite (fun _ => ef inp 1 _ _) (fun _ => ?_)
    refine SafeL.bind (get_safe inp _) ?_
    intro s1
    refine SafeL.bind ((assignRightLoop_safe inp cfg fuel _ _).pre (fun _ h => i12 h)) ?_
    intro right
    refine SafeL.ite (fun _ => ?_) (fun _ => ?_)
    · refine SafeL.ite (fun _ => ef inp 2 _ _) (fun _ => SafeL.pure _ (fun _ h => h))
    · refine SafeL.ite (fun _ => ?_) (fun _ => SafeL.pure _ (fun _ h => h))
      split
      · refine SafeL.ite (fun _ => SafeL.pure _ (fun _ h => h)) (fun _ => ef inp 2 _ _)
      · exact ef inp 2 _ _
  · sb (bk inp)
    sret

theorem command_safe (fuel : Nat) (base : Option PExpr) : Safe (I2 inp) (command cfg fuel base) (Q2 inp) := by
  have E := exprSpecs_all inp cfg fuel
  unfold command
  sb (pns inp 2)
  sb (ln inp 2)
  refine SafeL.bind (Q := Q2 inp) ?_ ?_
  · split
    · exact SafeL.pure _ (fun _ h => h)
    · exact E.expr _ _
  intro b
  split
  · exact SafeL.pure _ (fun _ h => h)
  · refine SafeL.bind (nns inp 2) ?_
    intro nx
    refine SafeL.ite (fun _ => ?_) (fun _ => ?_)
    · refine SafeL.bind (E.args.pre (fun _ h => i12 h)) ?_
      intro p
      sret
    · sb (bk inp)
      sret

theorem pipelineLoop_safe (fuel : Nat) : ∀ k cmds, Safe (I2 inp) (pipelineLoop cfg fuel k cmds) (Q1 inp)
  | 0, _ => by rw [pipelineLoop]; exact SafeL.outOfFuel
  | k + 1, cmds => by
    rw [pipelineLoop]
    refine SafeL.bind (expectOneOf_safe inp 2 _ _ _ _) ?_
    intro tk
    refine SafeL.ite (fun _ => SafeL.pure _ (fun _ h => h)) (fun _ => ?_)
    refine SafeL.bind (nns inp 1) ?_
    intro tk2
    refine SafeL.ite (fun _ => ?_) (fun _ => ux inp 1 _ _ _ _)
    sb (bk inp)
    refine SafeL.bind (command_safe inp cfg fuel none) ?_
    intro c
    exact pipelineLoop_safe fuel k _

theorem pipeline_safe (fuel : Nat) (base : PExpr) : Safe (I2 inp) (pipeline cfg fuel base) (Q1 inp) := by
  unfold pipeline
  sb (pns inp 2)
  sb (ln inp 2)
  refine SafeL.bind (command_safe inp cfg fuel _) ?_
  intro c
  refine SafeL.bind (get_safe inp _) ?_
  intro s0
  refine SafeL.bind (pipelineLoop_safe inp cfg fuel _ _) ?_
  intro cmds
  sret

theorem blockParamsLoop_safe (fuel : Nat) (isDecl : Bool) (ctx : String) : ∀ k acc,
    Safe (I2 inp) (blockParamsLoop cfg fuel isDecl ctx k acc) (Q2 inp)
  | 0, _ => by rw [blockParamsLoop]; exact SafeL.outOfFuel
  | k + 1, acc => by
    have E := exprSpecs_all inp cfg fuel
    rw [blockParamsLoop]
    refine SafeL.bind (nnsW inp 2) ?_
    intro nx
    refine SafeL.assume (WfItem inp nx) (fun _ h => h.2) (fun wnx => ?_)
    refine SafeL.bind (Q := Q1 inp) ?_ ?_
    · refine SafeL.ite (fun hid => ?_) (fun _ => ?_)
      · refine SafeL.bind ((nns inp 1).pre (fun _ h => h.1)) ?_
        intro nx2
        refine SafeL.ite (fun _ => SafeL.pure _ (fun _ h => h)) (fun _ => ?_)
        refine SafeL.ite (fun _ => ?_) (fun _ => ?_)
        · refine SafeL.bind ((E.pexpr ctx).pre (fun _ h => i12 h)) ?_
          intro p
          sret
        · refine SafeL.ite (fun _ => ?_) (fun _ => ux inp 1 _ _ _ _)
          sb (backup2_safe inp 1 nx wnx (by rw [hid]; decide))
          refine SafeL.bind (E.pexpr ctx) ?_
          intro p
          sret
      · refine SafeL.ite (fun _ => ?_) (fun _ => SafeL.pure _ (fun _ h => h.1))
        refine SafeL.ite (fun _ => SafeL.pure _ (fun _ h => h.1)) (fun _ => ?_)
        sb ((bk inp).pre (fun _ h => h.1))
        refine SafeL.bind (E.pexpr ctx) ?_
        intro p
        sret
    intro p
    refine SafeL.ite (fun _ => ?_) (fun _ => ?_)
    · sb (bk inp)
      sret
    · exact (blockParamsLoop_safe fuel isDecl ctx k _).pre (fun _ h => i12 h)

theorem blockParametersList_safe (fuel : Nat) (isDecl : Bool) (ctx : String) :
    Safe (I2 inp) (blockParametersList cfg fuel isDecl ctx) (Q1 inp) := by
  unfold blockParametersList
  sb (expect_safe inp 2 _ _ _)
  refine SafeL.bind (get_safe inp _) ?_
  intro s0
  refine SafeL.bind ((blockParamsLoop_safe inp cfg fuel isDecl ctx _ _).pre (fun _ h => i12 h)) ?_
  intro ps
  sb (expect_safe inp 2 _ _ _)
  sret

/-! ### statements -/

structure StmtSpecs (n : Nat) : Prop where
  itemListLoop : ∀ terms acc, Safe (I2 inp) (itemListLoop cfg n terms acc) (Q2 inp)
  itemList : ∀ terms, Safe (I2 inp) (itemList cfg n terms) (Q2 inp)
  textOrAction : Safe (I2 inp) (textOrAction cfg n) (Q2 inp)
  action : Safe (I2 inp) (action cfg n) (Q2 inp)
  parseInclude : Safe (I2 inp) (parseInclude cfg n) (Q2 inp)
  parseBlock : Safe (I2 inp) (parseBlock cfg n) (Q2 inp)
  parseYield : Safe (I2 inp) (parseYield cfg n) (Q2 inp)
  parseControl : ∀ a ctx, Safe (I2 inp) (parseControl cfg n a ctx) (Q2 inp)
  parseTry : Safe (I2 inp) (parseTry cfg n) (Q2 inp)
  parseCatch : Safe (I2 inp) (parseCatch cfg n) (Q2 inp)

theorem stmtSpecs_zero : StmtSpecs inp cfg 0 := by
  constructor <;> intros <;> first
    | (rw [itemListLoop]; exact SafeL.outOfFuel) | (rw [itemList]; exact SafeL.outOfFuel)
    | (rw [textOrAction]; exact SafeL.outOfFuel) | (rw [action]; exact SafeL.outOfFuel)
    | (rw [parseInclude]; exact SafeL.outOfFuel) | (rw [parseBlock]; exact SafeL.outOfFuel)
    | (rw [parseYield]; exact SafeL.outOfFuel) | (rw [parseControl]; exact SafeL.outOfFuel)
    | (rw [parseTry]; exact SafeL.outOfFuel) | (rw [parseCatch]; exact SafeL.outOfFuel)

/-- an optional context expression: `if pk.typ ≠ itemRightDelim then some <$> expression … else none` -/
theorem optExpr_safe (n : Nat) (c : Prop) [Decidable c] (ctx as : String) :
    Safe (I2 inp) (if c then (do pure (some (← expression cfg n ctx as))) else pure none) (Q2 inp) := by
  have E := exprSpecs_all inp cfg n
  refine SafeL.ite (fun _ => ?_) (fun _ => SafeL.pure _ (fun _ h => h))
  sb (E.expr _ _)
  sret

theorem stmtSpecs_step (n : Nat) (ih : StmtSpecs inp cfg n) : StmtSpecs inp cfg (n + 1) where
  itemListLoop := by
    intro terms acc
    rw [itemListLoop]
    refine SafeL.bind (pns inp 2) ?_
    intro pk
    refine SafeL.ite (fun _ => ef inp 2 _ _) (fun _ => ?_)
    refine SafeL.bind ih.textOrAction ?_
    intro nd
    refine SafeL.ite (fun _ => SafeL.pure _ (fun _ h => h)) (fun _ => ?_)
    refine SafeL.ite (fun _ => ef inp 2 _ _) (fun _ => ih.itemListLoop _ _)
  itemList := by
    intro terms
    rw [itemList]
    sb (pns inp 2)
    sb (ln inp 2)
    refine SafeL.bind (ih.itemListLoop _ _) ?_
    intro p
    sret
  textOrAction := by
    rw [textOrAction]
    refine SafeL.bind (nns inp 2) ?_
    intro tk
    refine SafeL.ite (fun _ => ?_) (fun _ => ?_)
    · sb (ln inp 1)
      sret
    · refine SafeL.ite (fun _ => ih.action.pre (fun _ h => i12 h)) (fun _ => ux inp 1 _ _ _ _)
  action := by
    have E := exprSpecs_all inp cfg n
    rw [action]
    refine SafeL.bind (nns inp 2) ?_
    intro tk
    refine SafeL.ite (fun _ => ih.parseInclude.pre (fun _ h => i12 h)) (fun _ => ?_)
    refine SafeL.ite (fun _ => ih.parseBlock.pre (fun _ h => i12 h)) (fun _ => ?_)
    refine SafeL.ite (fun _ => ?_) (fun _ => ?_)
    · sb (expectRD_safe inp 1 _)
      sret
    refine SafeL.ite (fun _ => ih.parseYield.pre (fun _ h => i12 h)) (fun _ => ?_)
    refine SafeL.ite (fun _ => ?_) (fun _ => ?_)
    · sb (expectRD_safe inp 1 _)
      sret
    refine SafeL.ite (fun _ => (ih.parseControl _ _).pre (fun _ h => i12 h)) (fun _ => ?_)
    refine SafeL.ite (fun _ => ?_) (fun _ => ?_)
    · refine SafeL.bind (pns inp 1) ?_
      intro pk
      refine SafeL.ite (fun _ => ?_) (fun _ => ?_)
      · sb (ln inp 2)
        sret
      · sb (expectRD_safe inp 2 _)
        sb (ln inp 1)
        sret
    refine SafeL.ite (fun _ => (ih.parseControl _ _).pre (fun _ h => i12 h)) (fun _ => ?_)
    refine SafeL.ite (fun _ => ih.parseTry.pre (fun _ h => i12 h)) (fun _ => ?_)
    refine SafeL.ite (fun _ => ih.parseCatch.pre (fun _ h => i12 h)) (fun _ => ?_)
    refine SafeL.ite (fun _ => ?_) (fun _ => ?_)
    · sb ((E.expr _ _).pre (fun _ h => i12 h))
      sb (expectRD_safe inp 2 _)
      sb (ln inp 1)
      sret
    sb (bk inp)
    sb (pk2 inp)
    sb (ln inp 2)
    refine SafeL.bind (assignmentOrExpression_safe inp cfg n _) ?_
    intro r
    split
    · refine SafeL.bind (expectOneOf_safe inp 2 _ _ _ _) ?_
      intro tk2
      refine SafeL.ite (fun _ => ?_) (fun _ => ?_)
      · refine SafeL.bind ((E.expr _ _).pre (fun _ h => i12 h)) ?_
        intro e
        refine SafeL.bind (pipeline_safe inp cfg n e) ?_
        intro p
        sret
      · sret
    · refine SafeL.bind (pipeline_safe inp cfg n _) ?_
      intro p
      sret
  parseInclude := by
    have E := exprSpecs_all inp cfg n
    rw [parseInclude]
    refine SafeL.bind (E.expr _ _) ?_
    intro name
    refine SafeL.bind (pns inp 2) ?_
    intro pk
    refine SafeL.bind (optExpr_safe inp cfg n _ _ _) ?_
    intro ctx
    sb (expectRD_safe inp 2 _)
    sb (ln inp 1)
    sret
  parseBlock := by
    rw [parseBlock]
    sb (ln inp 2)
    refine SafeL.bind (expect_safe inp 2 _ _ _) ?_
    intro name
    refine SafeL.bind ((blockParametersList_safe inp cfg n _ _).pre (fun _ h => i12 h)) ?_
    intro params
    refine SafeL.bind (pns inp 1) ?_
    intro pk
    refine SafeL.bind (optExpr_safe inp cfg n _ _ _) ?_
    intro ctx
    sb (expectRD_safe inp 2 _)
    refine SafeL.bind ((ih.itemList _).pre (fun _ h => i12 h)) ?_
    intro p
    refine SafeL.bind (Q := Q2 inp) ?_ ?_
    · refine SafeL.ite (fun _ => ?_) (fun _ => SafeL.pure _ (fun _ h => h))
      refine SafeL.bind (ih.itemList _) ?_
      intro q
      sret
    intro content
    sb (registerBlock_safe inp 2 _ _)
    sret
  parseYield := by
    have E := exprSpecs_all inp cfg n
    rw [parseYield]
    sb (ln inp 2)
    refine SafeL.bind (nns inp 2) ?_
    intro name
    refine SafeL.ite (fun _ => ?_) (fun _ => ?_)
    · refine SafeL.bind (pns inp 1) ?_
      intro pk
      refine SafeL.bind (optExpr_safe inp cfg n _ _ _) ?_
      intro ctx
      sb (expectRD_safe inp 2 _)
      sret
    refine SafeL.ite (fun _ => ux inp 1 _ _ _ _) (fun _ => ?_)
    refine SafeL.bind ((blockParametersList_safe inp cfg n _ _).pre (fun _ h => i12 h)) ?_
    intro params
    refine SafeL.bind (pns inp 1) ?_
    intro pk
    refine SafeL.ite (fun _ => ?_) (fun _ => ?_)
    · sb (expectRD_safe inp 2 _)
      sret
    refine SafeL.bind (Q := Q2 inp) ?_ ?_
    · refine SafeL.ite (fun _ => ?_) (fun _ => SafeL.pure _ (fun _ h => h))
      refine SafeL.bind (E.expr _ _) ?_
      intro e
      refine SafeL.bind (pns inp 2) ?_
      intro pk2
      sret
    intro p
    refine SafeL.ite (fun _ => ?_) (fun _ => ?_)
    · sb (expectRD_safe inp 2 _)
      sret
    refine SafeL.ite (fun _ => ?_) (fun _ => ?_)
    · sb (nns inp 2)
      sb (expectRD_safe inp 1 _)
      refine SafeL.bind ((ih.itemList _).pre (fun _ h => i12 h)) ?_
      intro q
      sret
    · refine SafeL.bind (nns inp 2) ?_
      intro tk
      exact ux inp 1 _ _ _ _
  parseControl := by
    have E := exprSpecs_all inp cfg n
    intro allowElseIf ctx
    rw [parseControl]
    sb (ln inp 2)
    refine SafeL.bind (Q := Q2 inp) ?_ ?_
    · refine SafeL.bind (assignmentOrExpression_safe inp cfg n _) ?_
      intro r
      split
      · refine SafeL.ite (fun _ => ?_) (fun _ => SafeL.pure _ (fun _ h => h))
        sb (expect_safe inp 2 _ _ _)
        refine SafeL.bind ((E.expr _ _).pre (fun _ h => i12 h)) ?_
        intro e
        sret
      · sret
    intro p
    sb (expectRD_safe inp 2 _)
    refine SafeL.bind ((ih.itemList _).pre (fun _ h => i12 h)) ?_
    intro q
    refine SafeL.bind (Q := Q2 inp) ?_ ?_
    · refine SafeL.ite (fun _ => ?_) (fun _ => SafeL.pure _ (fun _ h => h))
      refine SafeL.bind (pk2 inp) ?_
      intro pk
      refine SafeL.ite (fun _ => ?_) (fun _ => ?_)
      · sb (nx inp 2)
        sb (ln inp 1)
        refine SafeL.bind ((ih.parseControl _ _).pre (fun _ h => i12 h)) ?_
        intro inner
        sret
      · refine SafeL.bind (ih.itemList _) ?_
        intro r
        sret
    intro els
    sret
  parseTry := by
    rw [parseTry]
    sb (ln inp 2)
    sb (expectRD_safe inp 2 _)
    refine SafeL.bind ((ih.itemList _).pre (fun _ h => i12 h)) ?_
    intro p
    split
    split
    · sret
    · sret
  parseCatch := by
    have E := exprSpecs_all inp cfg n
    rw [parseCatch]
    sb (ln inp 2)
    refine SafeL.bind (pns inp 2) ?_
    intro pk
    refine SafeL.bind (Q := Q2 inp) ?_ ?_
    · refine SafeL.ite (fun _ => ?_) (fun _ => SafeL.pure _ (fun _ h => h))
      refine SafeL.bind E.term ?_
      intro r
      split
      · refine SafeL.bind (nx inp 2) ?_
        intro tk
        exact ux inp 1 _ _ _ _
      · sret
      · exact ef inp 2 _ _
    intro errVar
    sb (expectRD_safe inp 2 _)
    refine SafeL.bind ((ih.itemList _).pre (fun _ h => i12 h)) ?_
    intro p
    sret

theorem stmtSpecs_all : ∀ n, StmtSpecs inp cfg n
  | 0 => stmtSpecs_zero inp cfg
  | n + 1 => stmtSpecs_step inp cfg n (stmtSpecs_all n)

/-! ### the template level -/

theorem prologueLoop_safe : ∀ k skipped, Safe (I2 inp) (prologueLoop cfg k skipped) (Q2 inp)
  | 0, _ => by rw [prologueLoop]; exact SafeL.outOfFuel
  | k + 1, skipped => by
    rw [prologueLoop]
    refine SafeL.bind (pk2 inp) ?_
    intro pk
    refine SafeL.ite (fun _ => SafeL.pure _ (fun _ h => h)) (fun _ => ?_)
    refine SafeL.bind (nxW inp 2) ?_
    intro delim
    refine SafeL.assume (WfItem inp delim) (fun _ h => h.2) (fun wd => ?_)
    refine SafeL.ite (fun _ => ?_) (fun _ => ?_)
    · refine SafeL.bind ((get_safe inp _).pre (fun _ h => h.1)) ?_
      intro s0
      refine SafeL.ite (fun _ => ?_) (fun _ => (prologueLoop_safe k _).pre (fun _ h => i12 h))
      sb (ln inp 1)
      exact (prologueLoop_safe k _).pre (fun _ h => i12 h)
    refine SafeL.ite (fun hld => ?_) (fun _ => ?_)
    · refine SafeL.bind ((nns inp 1).pre (fun _ h => h.1)) ?_
      intro tk
      refine SafeL.ite (fun _ => ?_) (fun _ => ?_)
      · refine SafeL.bind (expectString_safe inp cfg 1 _) ?_
        intro sname
        refine SafeL.bind (get_safe inp _) ?_
        intro s0
        have jp : ∀ r : Unit, Safe (I1 inp) ((fun (_ : Unit) => do
            let _ ← expect Tok.rightDelim "extends|import" "closing delimiter"
            prologueLoop cfg k skipped) r) (Q2 inp) := by
          intro _
          sb (expect_safe inp 1 _ _ _)
          exact (prologueLoop_safe k _).pre (fun _ h => i12 h)
        have hmod : ∀ f : PSt → PSt, (∀ s, (f s).input = s.input ∧ (f s).toks = s.toks ∧ (f s).t0 = s.t0 ∧ (f s).t1 = s.t1 ∧
            (f s).t2 = s.t2 ∧ (f s).peekCount = s.peekCount ∧ (f s).lastPos = s.lastPos) →
            Safe (I1 inp) (modify f) (Q1 inp) := by
          intro f hf
          refine modify_safe inp 1 f ?_
          intro s hs
          obtain ⟨h1, h2, h3, h4, h5, h6, h7⟩ := hf s
          exact ⟨⟨by rw [h1]; exact hs.1.input, by rw [h2]; exact hs.1.toks, by rw [h3]; exact hs.1.t0, by rw [h4]; exact hs.1.t1,
            by rw [h5]; exact hs.1.t2, by rw [h7]; exact hs.1.last0, by rw [h7]; exact hs.1.last1,
            by rw [h2, h3, h4, h5]; exact hs.1.eof⟩, by rw [h6]; exact hs.2⟩
        dsimp only []
        refine SafeL.ite (fun _ => ?_) (fun _ => ?_)
        · refine SafeL.ite (fun _ => SafeL.bind (ef inp 1 _ (Q1 inp)) jp) (fun _ => ?_)
          refine SafeL.ite (fun _ => SafeL.bind (ef inp 1 _ (Q1 inp)) jp) (fun _ => ?_)
          split
          · exact SafeL.bind (hmod _ (fun s => ⟨rfl, rfl, rfl, rfl, rfl, rfl, rfl⟩)) jp
          · exact SafeL.bind (ef inp 1 _ (Q1 inp)) jp
        · split
          · exact SafeL.bind (hmod _ (fun s => ⟨rfl, rfl, rfl, rfl, rfl, rfl, rfl⟩)) jp
          · exact SafeL.bind (ef inp 1 _ (Q1 inp)) jp
      · sb (backup2_safe inp 1 delim wd (by rw [hld]; decide))
        sret
    · sb ((bk inp).pre (fun _ h => h.1))
      sret

theorem bodyLoop_safe (fuel : Nat) : ∀ k acc, Safe (I2 inp) (bodyLoop cfg fuel k acc) (Q2 inp)
  | 0, _ => by rw [bodyLoop]; exact SafeL.outOfFuel
  | k + 1, acc => by
    rw [bodyLoop]
    refine SafeL.bind (pk2 inp) ?_
    intro pk
    refine SafeL.ite (fun _ => SafeL.pure _ (fun _ h => h)) (fun _ => ?_)
    refine SafeL.bind (stmtSpecs_all inp cfg fuel).textOrAction ?_
    intro nd
    refine SafeL.ite (fun _ => ef inp 2 _ _) (fun _ => bodyLoop_safe fuel k _)

theorem parseTemplate_safe (fuel : Nat) : Safe (I2 inp) (parseTemplate cfg fuel) (Q2 inp) := by
  unfold parseTemplate
  sb (pk2 inp)
  sb (ln inp 2)
  refine SafeL.bind (get_safe inp _) ?_
  intro s0
  refine SafeL.bind (prologueLoop_safe inp cfg _ _) ?_
  intro skipped
  refine SafeL.bind (get_safe inp _) ?_
  intro s1
  refine SafeL.bind (bodyLoop_safe inp cfg fuel _ _) ?_
  intro nodes
  sret

/-- the state `Set.parse` starts the parser in -/
theorem initial_inv (input name : Bytes) (toks : List Item) (h : ∀ t ∈ toks, WfItem input t) (he : EofLast toks) :
    Inv input 2 { input := input, name := name, toks := toks } :=
  ⟨⟨rfl, h, wfItem_zero input, wfItem_zero input, wfItem_zero input, Int.le_refl 0, by simp,
    ⟨he, by simp [Item.zero], by simp [Item.zero], by simp [Item.zero]⟩⟩, by simp⟩

end JetVerif.Parse
