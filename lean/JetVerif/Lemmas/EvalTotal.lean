/-
  C12, totality part: from a well-formed syntax tree the only `crash` outcome (= a panic that
  `Template.Execute` re-raises) of the evaluator is a panic raised by a called Go function.

  Classification of the `crash "<msg>"` sites of Model/Eval.lean (line numbers of that file):

  | line  | function                | message                                               | group | discharged by |
  |-------|-------------------------|-------------------------------------------------------|-------|---------------|
  | 169   | newScope                | nil pointer dereference (newScope on nil scope)       | (a)   | EvalScope (`ScopeMsg`) |
  | 172,189,201,223,244 | newScope/letVar/setBlocks/setValue/letGlobal | dangling scope         | (a)   | EvalScope |
  | 180   | releaseScope            | nil pointer dereference (releaseScope on nil scope)   | (a)   | EvalScope |
  | 186,198,241 | letVar/setBlocks/letGlobal | nil pointer dereference                         | (a)   | EvalScope |
  | 192,247 | letVar/letGlobal      | assignment to entry in nil map                        | (a)   | EvalScope |
  | 226   | setValue                | unreachable                                           | (a)   | EvalScope |
  | 741,742 | evalNumericComparative | unreachable                                          | (b)   | EvalScope `pc_evalNumericComparative` (same string as 226) |
  | 582,587,592 | resolveIndex        | unreachable index                                     | (b)   | `indexArg_lt` (indexArg returns an index below the length) |
  | 691   | evalMultiplicative      | unreachable: promotion without float                  | (b)   | `needFloatPromotion` implies the right side is a float |
  | 726   | evalMultiplicative      | unreachable operator                                  | (c)   | `MulOp op` (multiplicativeLoop only builds mul/div/mod nodes) |
  | 844   | applyGoFunc "repeat"    | strings: negative Repeat count                        | (d)   | REACHABLE: `CalleePanic` |
  | 854   | applyGoFunc "cat"       | unreachable cat arg                                   | (b)   | `evaluateArgs` converts every argument to the parameter type (`Typed`) |
  | 865   | applyGoFunc "sum"       | unreachable sum arg                                   | (b)   | idem |
  | 913   | applyMethod "Cat"       | unreachable Cat arg                                   | (b)   | idem |
  | 998,1024 | evalArgsLoop/evaluateArgs | unreachable: too many arguments                  | (b)   | the arity test of `evaluateArgs` (`slot + remaining ≤ params.length` or variadic) |
  | 1003  | evalArgsLoop            | nil pointer dereference (no piped value)              | (c)   | `SlotOk` (a `_` argument sets hasSlot) + the hasSlot/piped test of `evaluateArgs` |
  | 1317  | callValue               | unreachable: call of non-func                         | (b)   | every caller tests `kindIsFunc` first |
  | 1457,1467 | evalExprF .slice     | unreachable: length/slice of a value that cannot be sliced | (b) | the kind test before the bounds are evaluated |
  | 1526  | executeSet              | interface conversion in executeSet                    | (c)   | `LeftOk`/`RangeLeftOk` (left sides are identifiers, fields, chains or `_`) |
  | 1537  | assignOne               | interface conversion: not *IdentifierNode             | (c)   | `LeftOk true` (`:=` only declares identifiers) |
  | 1546  | assignLoop              | index out of range [i] in assignment                  | (c)   | `SetWf` (at least one right side per left side) |
  | 1556  | executeAssign           | index out of range in lookup assignment               | (c)   | `SetWf` (lookup form: two left sides, a right side) |
  | 1617  | evalPipeline            | index out of range [0] with length 0                  | (c)   | `PipeWf` (a pipeline has a first command) |
  | 1784  | rangeBind               | index out of range                                    | (c)   | `RangeSetWf` (a range assignment has a left side) |
  | 1833  | execRange               | index out of range [0] with length 0                  | (c)   | `RangeSetWf` (a range assignment has a right side) |
  | 1839  | execRange               | nil expression in range                               | (c)   | `RangeHeadWf` (a range without assignment has an expression) |
  | 1895  | execYield               | nil pointer dereference (yield without parameter list)| (c)   | `StmtWf` of yield (only `yield content` lacks the list) |

  No `ValWf` hypothesis is needed: `Val` carries no syntax, and every group-(b) site that looks at
  a value is guarded by a test on that same value.

  Architecture: `Tot m` = from a runtime whose block tables and content closures hold well-formed
  syntax (`RWF`), every outcome of `m` leaves such a runtime, and a `crash` outcome carries a
  callee panic or one of the scope primitives' messages (`Allowed`); the latter are excluded
  separately by Lemmas/EvalScope.lean (`Scoped`), so the two developments compose in Props/C12T.lean
  without either needing the other's invariant.
-/
import JetVerif.Lemmas.EvalScope

namespace JetVerif.Eval

/-! ### what is allowed to crash -/

/-- the only panic Execute re-raises is one raised by a called Go function -/
def CalleePanic (m : String) : Prop := m = "strings: negative Repeat count"

instance (m : String) : Decidable (CalleePanic m) := by unfold CalleePanic; infer_instance

/-- what this development lets through: callee panics, and the scope primitives' messages (which
    Lemmas/EvalScope.lean excludes from a well-formed runtime) -/
def Allowed (m : String) : Prop := CalleePanic m ∨ ScopeMsg m

instance (m : String) : Decidable (Allowed m) := by unfold Allowed; infer_instance

/-! ### well-formed syntax: what the parser guarantees, no more than the evaluator needs -/

/-- parser: `multiplicativeLoop` builds a multiplicative node only for `*`, `/`, `%` -/
def MulOp (op : Tok) : Prop := op = Tok.mul ∨ op = Tok.div ∨ op = Tok.mod

/-- parser: `parseArgumentsLoop` sets `hasSlot` when it meets a `_` argument -/
def SlotOk (args : List Expr) (hasSlot : Bool) : Prop := args.any isUnderscore = true → hasSlot = true

mutual
/-- well-formed expressions; literals, identifiers, fields and `_` carry no obligation -/
def ExprWf : Expr → Prop
  | .chain _ base _ => ExprWf base
  | .add _ _ l r => ExprOWf l ∧ ExprWf r
  | .mul _ op l r => ExprWf l ∧ ExprWf r ∧ MulOp op                 -- parser: multiplicativeLoop
  | .cmp _ _ l r => ExprWf l ∧ ExprWf r
  | .numcmp _ _ l r => ExprWf l ∧ ExprWf r
  | .logic _ _ l r => ExprWf l ∧ ExprWf r
  | .not _ e => ExprWf e
  | .ternary _ c l r => ExprWf c ∧ ExprWf l ∧ ExprWf r
  | .call _ base args _ hasSlot => ExprWf base ∧ ExprsWf args ∧ SlotOk args hasSlot   -- parser: parseArgumentsLoop
  | .index _ b i => ExprWf b ∧ ExprWf i
  | .slice _ b i j => ExprWf b ∧ ExprOWf i ∧ ExprOWf j
  | .ident _ _ => True
  | .field _ _ => True
  | .underscore _ => True
  | .nilLit _ => True
  | .boolLit _ _ => True
  | .strLit _ _ => True
  | .numLit _ _ _ _ _ _ _ => True
def ExprsWf : List Expr → Prop
  | [] => True
  | e :: es => ExprWf e ∧ ExprsWf es
def ExprOWf : Option Expr → Prop
  | none => True
  | some e => ExprWf e
end

theorem ExprsWf.mem : ∀ {es : List Expr}, ExprsWf es → ∀ e ∈ es, ExprWf e
  | [], _, _, h => by cases h
  | x :: xs, hw, e, h => by
    rw [ExprsWf] at hw
    rcases List.mem_cons.mp h with rfl | h
    · exact hw.1
    · exact ExprsWf.mem hw.2 e h

/-- what `executeSet` can assign to.  parser: `assignLeftLoop` accepts only `assignable` nodes
    (identifier, field, chain, `_`) -/
def LeftSetOk : Expr → Prop
  | .ident _ _ => True
  | .field _ _ => True
  | .chain _ _ _ => True
  | .underscore _ => True
  | _ => False

/-- a left side of an assignment.  parser: `assignLeftLoop` (assignable), and
    `assignmentOrExpression` rejects `:=` with a left side that is not an identifier or `_` -/
def LeftOk (isLet : Bool) : Expr → Prop
  | .ident _ _ => True
  | .underscore _ => True
  | .field _ _ => isLet = false
  | .chain _ _ _ => isLet = false
  | _ => False

/-- an assignment of an action or an `if` header -/
structure SetWf (s : SetN) : Prop where
  /-- parser: assignRightLoop parses every right side with `expression` -/
  right : ExprsWf s.right
  /-- parser: assignLeftLoop / the `:=` check of assignmentOrExpression -/
  left : ∀ l ∈ s.left, LeftOk s.isLet l
  /-- parser: assignmentOrExpression sets IndexExprGetLookup only for two left sides and one
      (index) right side -/
  look : s.lookup = true → ∃ l0 l1 rgt rest, s.left = [l0, l1] ∧ s.right = rgt :: rest
  /-- parser: assignmentOrExpression otherwise insists on as many right sides as left sides -/
  len : s.lookup = false → s.left.length ≤ s.right.length

def SetOWf : Option SetN → Prop
  | none => True
  | some s => SetWf s

/-- a left side of a range assignment: `:=` declares (any other node kind is outside the model),
    `=` goes through executeSet -/
def RangeLeftOk (isLet : Bool) (l : Expr) : Prop := isLet = true ∨ LeftSetOk l

/-- the assignment in a range header -/
structure RangeSetWf (s : SetN) : Prop where
  /-- parser: assignLeftLoop parses at least one left side -/
  leftNe : s.left ≠ []
  /-- parser: assignLeftLoop (assignable) -/
  left : ∀ l ∈ s.left, RangeLeftOk s.isLet l
  /-- parser: assignmentOrExpression in range context demands exactly one right side -/
  right : ∃ rgt rest, s.right = rgt :: rest ∧ ExprWf rgt

/-- the header of a range.  parser: parseControl stores either the assignment or the expression -/
def RangeHeadWf : Option SetN → Option Expr → Prop
  | some s, _ => RangeSetWf s
  | none, some e => ExprWf e
  | none, none => False

/-- a command; only the first command of a pipeline is called without a piped value -/
structure CmdWf (first : Bool) (c : Cmd) : Prop where
  base : ExprWf c.base
  args : ExprsWf c.args
  /-- parser: parseArgumentsLoop (via `command`) -/
  slot : first = true → SlotOk c.args c.hasSlot

/-- parser: `pipeline` parses a first command before looking for `|` -/
def PipeWf (p : Pipe) : Prop :=
  match p.cmds with
  | [] => False
  | c0 :: rest => CmdWf true c0 ∧ ∀ c ∈ rest, CmdWf false c

def PipeOWf : Option Pipe → Prop
  | none => True
  | some p => PipeWf p

/-- default expressions of a parameter list -/
def ParamsWf (ps : List Param) : Prop := ∀ p ∈ ps, ExprOWf p.dflt

def ParamsOWf : Option (List Param) → Prop
  | none => True
  | some ps => ParamsWf ps

mutual
def StmtWf : Stmt → Prop
  | .text _ _ => True
  | .action _ set pipe => SetOWf set ∧ PipeOWf pipe
  | .ifS _ set cond thn els => SetOWf set ∧ ExprWf cond ∧ StmtsWf thn ∧ StmtsOWf els
  | .rangeS _ set e body els => RangeHeadWf set e ∧ StmtsWf body ∧ StmtsOWf els
  | .block _ _ params ctx body content => ParamsWf params ∧ ExprOWf ctx ∧ StmtsWf body ∧ StmtsOWf content
  | .yield _ _ params ctx content isContent =>
      -- parser: parseYield builds a node without parameter list only for `yield content`
      (isContent = false → params.isSome = true) ∧ ParamsOWf params ∧ ExprOWf ctx ∧ StmtsOWf content
  | .include _ name ctx => ExprWf name ∧ ExprOWf ctx
  | .tryS _ body _ _ cb => StmtsWf body ∧ StmtsOWf cb
  | .ret _ e => ExprWf e
def StmtsWf : List Stmt → Prop
  | [] => True
  | s :: ss => StmtWf s ∧ StmtsWf ss
def StmtsOWf : Option (List Stmt) → Prop
  | none => True
  | some l => StmtsWf l
end

structure BlockWf (b : BlockN) : Prop where
  params : ParamsWf b.params
  ctx : ExprOWf b.ctx
  body : StmtsWf b.body
  content : StmtsOWf b.content

def BlocksWf (bs : List (Bytes × BlockN)) : Prop := ∀ p ∈ bs, BlockWf p.2

structure TmplWf (t : Tmpl) : Prop where
  blocks : BlocksWf t.blocks
  root : StmtsWf t.root

/-- every template the loader can hand out is well-formed -/
def EnvWf (env : Env) : Prop := ∀ p ∈ env.store, ∀ t, p.2 = some t → TmplWf t

/-! ### the runtime invariant: block tables and content closures hold well-formed syntax -/

def ClosureWf : Closure → Prop
  | .mk body _ outer => StmtsWf body ∧
      (match outer with
       | none => True
       | some c => ClosureWf c)

theorem ClosureWf.mk_iff (body : List Stmt) (sc : List Nat) (outer : Option Closure) :
    ClosureWf (.mk body sc outer) ↔ StmtsWf body ∧ (∀ c, outer = some c → ClosureWf c) := by
  cases outer with
  | none => unfold ClosureWf; simp
  | some c =>
    rw [ClosureWf]
    constructor
    · intro h; exact ⟨h.1, fun c' hc' => by cases hc'; exact h.2⟩
    · intro h; exact ⟨h.1, h.2 c rfl⟩

structure RWF (rt : RT) : Prop where
  blocks : ∀ f ∈ rt.frames, BlocksWf f.blocks
  content : ∀ c, rt.content = some c → ClosureWf c

theorem RWF.congr {a b : RT} (h : RWF a) (hf : b.frames = a.frames) (hc : b.content = a.content) : RWF b :=
  ⟨by rw [hf]; exact h.blocks, by rw [hc]; exact h.content⟩

/-- frames of one runtime, content of another (restores) -/
theorem RWF.mix {a b c : RT} (hb : RWF b) (ha : RWF a) (hf : c.frames = b.frames) (hc : c.content = a.content) :
    RWF c :=
  ⟨by rw [hf]; exact hb.blocks, by rw [hc]; exact ha.content⟩

def TPost {α} (Q : α → Prop) : Res α → Prop
  | .ok a rt' => RWF rt' ∧ Q a
  | .err _ rt' => RWF rt'
  | .crash s rt' => Allowed s ∧ RWF rt'
  | .fuel => True
  | .unsupported _ => True

/-- the invariant, with a postcondition on the result -/
structure TotQ {α} (Q : α → Prop) (m : M α) : Prop where
  post : ∀ rt, RWF rt → TPost Q (m rt)

abbrev Tot {α} (m : M α) : Prop := TotQ (fun _ => True) m

theorem TotQ.weaken {α} {Q Q' : α → Prop} {m : M α} (h : TotQ Q m) (hq : ∀ a, Q a → Q' a) : TotQ Q' m := by
  refine ⟨fun rt hrt => ?_⟩
  have := h.post rt hrt
  revert this
  cases m rt with
  | ok a rt' => intro h; exact ⟨h.1, hq a h.2⟩
  | err e rt' => intro h; exact h
  | crash s rt' => intro h; exact h
  | fuel => intro _; trivial
  | unsupported w => intro _; trivial

theorem TotQ.tot {α} {Q : α → Prop} {m : M α} (h : TotQ Q m) : Tot m := h.weaken fun _ _ => trivial

theorem TotQ.bind {α β} {Q : α → Prop} {Q' : β → Prop} {m : M α} {f : α → M β} (hm : TotQ Q m)
    (hf : ∀ a, Q a → TotQ Q' (f a)) : TotQ Q' (m >>= f) := by
  refine ⟨fun rt hwf => ?_⟩
  have h1 := hm.post rt hwf
  cases hmr : m rt with
  | ok a rt1 =>
    rw [hmr] at h1
    rw [bind_ok hmr]
    exact (hf a h1.2).post rt1 h1.1
  | err e rt1 => rw [hmr] at h1; rw [bind_err hmr]; exact h1
  | crash s rt1 => rw [hmr] at h1; rw [bind_crash hmr]; exact h1
  | fuel => rw [bind_fuel hmr]; trivial
  | unsupported w => rw [bind_unsupported hmr]; trivial

theorem Tot.bind {α β} {m : M α} {f : α → M β} (hm : Tot m) (hf : ∀ a, Tot (f a)) : Tot (m >>= f) :=
  TotQ.bind hm fun a _ => hf a

theorem tot_pure {α} (a : α) : Tot (pure a : M α) := ⟨fun _ h => ⟨h, trivial⟩⟩
theorem totq_pure {α} {Q : α → Prop} (a : α) (h : Q a) : TotQ Q (pure a : M α) := ⟨fun _ hr => ⟨hr, h⟩⟩
theorem tot_throwErr {α} (e : Err) : Tot (throwErr e : M α) := ⟨fun _ h => h⟩
theorem tot_errAt {α} (l : Loc) (s : String) : Tot (errAt l s : M α) := ⟨fun _ h => h⟩
theorem tot_errPlain {α} (s : String) : Tot (errPlain s : M α) := ⟨fun _ h => h⟩
theorem tot_unsupported {α} (s : String) : Tot (unsupported s : M α) := ⟨fun _ _ => trivial⟩
theorem tot_outOfFuel {α} : Tot (outOfFuel : M α) := ⟨fun _ _ => trivial⟩
theorem totq_errAt {α} {Q : α → Prop} (l : Loc) (s : String) : TotQ Q (errAt l s : M α) := ⟨fun _ h => h⟩
theorem totq_unsupported {α} {Q : α → Prop} (s : String) : TotQ Q (unsupported s : M α) := ⟨fun _ _ => trivial⟩

/-- a crash site that is allowed: a callee panic, or a scope primitive's message -/
theorem tot_crash {α} (s : String) (hs : Allowed s) : Tot (crash s : M α) := ⟨fun _ h => ⟨hs, h⟩⟩

theorem tot_liftOpt {α} (w : String) (o : Option α) : Tot (liftOpt w o : M α) := by
  cases o with
  | none => exact tot_unsupported w
  | some a => exact tot_pure a

theorem totq_getRT : TotQ (fun rt => RWF rt) getRT := ⟨fun _ h => ⟨h, h⟩⟩
theorem tot_getRT : Tot getRT := totq_getRT.tot

/-- a computation that leaves frames and content alone and does not crash -/
theorem tot_of_same {α} (m : M α)
    (h : ∀ rt, match m rt with
      | .ok _ rt' | .err _ rt' => rt'.frames = rt.frames ∧ rt'.content = rt.content
      | .crash _ _ => False
      | _ => True) : Tot m := by
  refine ⟨fun rt hwf => ?_⟩
  have := h rt
  cases hm : m rt with
  | ok a rt' => rw [hm] at this; exact ⟨hwf.congr this.1 this.2, trivial⟩
  | err e rt' => rw [hm] at this; exact hwf.congr this.1 this.2
  | crash s rt' => rw [hm] at this; exact this.elim
  | fuel => trivial
  | unsupported w => trivial

theorem tot_modify (f : RT → RT) (h : ∀ rt, (f rt).frames = rt.frames ∧ (f rt).content = rt.content) :
    Tot (modifyRT f) := tot_of_same _ (fun rt => h rt)

theorem tot_logE (e : LogE) : Tot (logE e) := by
  apply tot_modify; intro rt; exact ⟨rfl, rfl⟩

theorem tot_modify_log (f : List LogE → List LogE) :
    Tot (modifyRT fun rt => { rt with log := f rt.log }) := by
  apply tot_modify; intro rt; exact ⟨rfl, rfl⟩

theorem tot_modify_ctx (v : Val) : Tot (modifyRT fun rt => { rt with ctx := v }) := by
  apply tot_modify; intro rt; exact ⟨rfl, rfl⟩

theorem tpost_ok_same {α} {Q : α → Prop} {rt rt' : RT} (h : RWF rt) (a : α) (hq : Q a)
    (hs : rt'.frames = rt.frames ∧ rt'.scope = rt.scope ∧ rt'.content = rt.content) :
    TPost Q (Res.ok a rt') := ⟨h.congr hs.1 hs.2.2, hq⟩

theorem tot_writeLit (b : Bytes) : Tot (writeLit b) :=
  ⟨fun rt h => tpost_ok_same h _ trivial (appendTo_same rt _ _)⟩

theorem tot_printEscaped (env : Env) (v : Val) : Tot (printEscaped env v) := by
  refine ⟨fun rt h => ?_⟩
  unfold printEscaped
  split
  · trivial
  · split
    · exact tpost_ok_same h _ trivial (appendTo_same rt _ _)
    · split
      · trivial
      · exact tpost_ok_same h _ trivial (appendTo_same rt _ _)

theorem tot_printSafe (sw : String) (v : Val) : Tot (printSafe sw v) := by
  refine ⟨fun rt h => ?_⟩
  unfold printSafe
  split
  · exact h
  · split
    · trivial
    · split
      · trivial
      · exact tpost_ok_same h _ trivial (appendTo_same rt _ _)

theorem tot_resolve (env : Env) (n : Bytes) : Tot (resolve env n) := by
  refine ⟨fun rt h => ?_⟩
  unfold resolve
  split
  · exact ⟨h, trivial⟩
  · split
    · exact ⟨h, trivial⟩
    · split
      · exact ⟨h, trivial⟩
      · split <;> exact ⟨h, trivial⟩

/-! ### scope primitives: their crash messages are `Allowed`; frames keep well-formed blocks -/

theorem rwf_setFrame {rt : RT} (h : RWF rt) (id : Nat) (f : Frame) (hf : BlocksWf f.blocks) :
    RWF (setFrame rt id f) := by
  refine ⟨?_, h.content⟩
  intro g hg
  simp only [setFrame] at hg
  rcases List.mem_or_eq_of_mem_set hg with hg | rfl
  · exact h.blocks g hg
  · exact hf

theorem tot_letVar (n : Bytes) (v : Val) : Tot (letVar n v) := by
  refine ⟨fun rt h => ?_⟩
  unfold letVar
  split
  · exact ⟨by decide, h⟩
  · split
    · exact ⟨by decide, h⟩
    · rename_i f hf
      split
      · exact ⟨by decide, h⟩
      · exact ⟨rwf_setFrame h _ _ (h.blocks f (frameAt_mem hf)), trivial⟩

theorem tot_setBlocks (b : List (Bytes × BlockN)) (hb : BlocksWf b) : Tot (setBlocks b) := by
  refine ⟨fun rt h => ?_⟩
  unfold setBlocks
  split
  · exact ⟨by decide, h⟩
  · split
    · exact ⟨by decide, h⟩
    · exact ⟨rwf_setFrame h _ _ hb, trivial⟩

theorem tot_setValue (n : Bytes) (v : Val) : Tot (setValue n v) := by
  refine ⟨fun rt h => ?_⟩
  unfold setValue
  split
  · exact ⟨h, trivial⟩
  · split
    · exact ⟨by decide, h⟩
    · rename_i f hf
      split
      · exact ⟨by decide, h⟩
      · exact ⟨rwf_setFrame h _ _ (h.blocks f (frameAt_mem hf)), trivial⟩

theorem tot_letGlobal (n : Bytes) (v : Val) : Tot (letGlobal n v) := by
  refine ⟨fun rt h => ?_⟩
  unfold letGlobal
  split
  · exact ⟨by decide, h⟩
  · split
    · exact ⟨by decide, h⟩
    · rename_i f hf
      split
      · exact ⟨by decide, h⟩
      · exact ⟨rwf_setFrame h _ _ (h.blocks f (frameAt_mem hf)), trivial⟩

theorem tot_newScope : Tot newScope := by
  refine ⟨fun rt h => ?_⟩
  unfold newScope
  split
  · exact ⟨by decide, h⟩
  · split
    · exact ⟨by decide, h⟩
    · rename_i f hf
      refine ⟨⟨?_, h.content⟩, trivial⟩
      intro g hg
      rcases List.mem_append.mp hg with hg | hg
      · exact h.blocks g hg
      · rw [List.mem_singleton.mp hg]; exact h.blocks f (frameAt_mem hf)

theorem tot_releaseScope : Tot releaseScope := by
  refine ⟨fun rt h => ?_⟩
  unfold releaseScope
  split
  · exact ⟨by decide, h⟩
  · exact ⟨h.congr rfl rfl, trivial⟩

theorem rwf_popScope {rt : RT} (h : RWF rt) : RWF (popScope rt) :=
  h.congr (popScope_same rt).1 (popScope_same rt).2.1

theorem getBlockChain_wf (rt : RT) (h : RWF rt) (name : Bytes) :
    ∀ (l : List Nat) (b : BlockN), getBlockChain rt name l = some b → BlockWf b := by
  intro l
  induction l with
  | nil => intro b hb; simp [getBlockChain] at hb
  | cons id rest ih =>
    intro b hb
    unfold getBlockChain at hb
    split at hb
    · cases hb
    · rename_i f hf
      split at hb
      · rename_i b' hb'
        cases hb
        have hm : ∀ (bs : List (Bytes × BlockN)), BlocksWf bs → alookup name bs = some b → BlockWf b := by
          intro bs
          induction bs with
          | nil => intro _ h; simp [alookup] at h
          | cons p ps ihp =>
            intro hw hl
            obtain ⟨k, x⟩ := p
            unfold alookup at hl
            split at hl
            · cases hl; exact hw (k, b) List.mem_cons_self
            · exact ihp (fun q hq => hw q (List.mem_cons_of_mem _ hq)) hl
        exact hm f.blocks (h.blocks f (frameAt_mem hf)) hb'
      · exact ih b hb

/-- the block `getBlock` finds is well-formed -/
theorem totq_getBlock (n : Bytes) : TotQ (fun o => ∀ b, o = some b → BlockWf b) (getBlock n) :=
  ⟨fun rt h => ⟨h, fun b hb => getBlockChain_wf rt h n rt.scope b hb⟩⟩

/-! ### scoping combinators -/

theorem tot_deferred {α} {Q : α → Prop} (fin : RT → RT) (hfin : ∀ rt, RWF rt → RWF (fin rt)) {m : M α}
    (hm : TotQ Q m) : TotQ Q (deferred fin m) := by
  refine ⟨fun rt h => ?_⟩
  unfold deferred
  have h1 := hm.post rt h
  cases hmr : m rt with
  | ok a rt2 => rw [hmr] at h1; exact ⟨hfin _ h1.1, h1.2⟩
  | err e rt2 => rw [hmr] at h1; exact hfin _ h1
  | crash s rt2 => rw [hmr] at h1; exact ⟨h1.1, hfin _ h1.2⟩
  | fuel => trivial
  | unsupported w => trivial

theorem tot_withNewScopeND {α} {body : M α} (hb : Tot body) : Tot (withNewScopeND body) := by
  unfold withNewScopeND
  exact tot_newScope.bind fun _ => hb.bind fun a => tot_releaseScope.bind fun _ => tot_pure a

theorem tot_withNewScopeD {α} {body : M α} (hb : Tot body) : Tot (withNewScopeD body) := by
  unfold withNewScopeD
  exact tot_newScope.bind fun _ => tot_deferred popScope (fun _ h => rwf_popScope h) hb

theorem tot_withCtxND {α} (v : Val) {body : M α} (hb : Tot body) : Tot (withCtxND v body) := by
  refine ⟨fun rt h => ?_⟩
  unfold withCtxND
  have hb1 := hb.post { rt with ctx := v } (h.congr rfl rfl)
  cases hbr : body { rt with ctx := v } with
  | ok a rt2 => rw [hbr] at hb1; exact ⟨hb1.1.congr rfl rfl, trivial⟩
  | err e rt2 => rw [hbr] at hb1; exact hb1
  | crash s rt2 => rw [hbr] at hb1; exact hb1
  | fuel => trivial
  | unsupported w => trivial

theorem tot_withCtxD {α} {e : M Val} {body : M α} (he : Tot e) (hb : Tot body) : Tot (withCtxD e body) := by
  refine ⟨fun rt h => ?_⟩
  unfold withCtxD
  exact (tot_deferred (fun rt' => { rt' with ctx := rt.ctx }) (fun _ h' => h'.congr rfl rfl)
    (he.bind fun nv => (tot_modify_ctx nv).bind fun _ => hb)).post rt h

theorem tot_withWriterD {α} (w' : Wr) {body : M α} (hb : Tot body) : Tot (withWriterD w' body) := by
  refine ⟨fun rt h => ?_⟩
  unfold withWriterD
  exact (tot_deferred (fun rt' => { rt' with writer := rt.writer }) (fun _ h' => h'.congr rfl rfl)
    hb).post { rt with writer := w' } (h.congr rfl rfl)

/-- `st.content = c; body; st.content = mycontent` for a closure holding well-formed syntax -/
theorem tpost_withContentND {α} (c : Option Closure) {body : M α} (hb : Tot body) (rt : RT) (h : RWF rt)
    (hc : ∀ c', c = some c' → ClosureWf c') : TPost (fun _ => True) (withContentND c body rt) := by
  unfold withContentND
  have h0 : RWF { rt with content := c } := ⟨h.blocks, hc⟩
  have hb1 := hb.post _ h0
  cases hbr : body { rt with content := c } with
  | ok a rt2 => rw [hbr] at hb1; exact ⟨hb1.1.mix h rfl rfl, trivial⟩
  | err e rt2 => rw [hbr] at hb1; exact hb1
  | crash s rt2 => rw [hbr] at hb1; exact hb1
  | fuel => trivial
  | unsupported w => trivial

theorem tpost_withScopeContentD {α} (sc : List Nat) (ct : Option Closure) {body : M α} (hb : Tot body)
    (rt : RT) (h : RWF rt) (hct : ∀ c, ct = some c → ClosureWf c) :
    TPost (fun _ => True) (withScopeContentD sc ct body rt) := by
  unfold withScopeContentD
  have h0 : RWF { rt with scope := sc, content := ct } := ⟨h.blocks, hct⟩
  have hb1 := hb.post _ h0
  cases hbr : body { rt with scope := sc, content := ct } with
  | ok a rt2 => rw [hbr] at hb1; exact ⟨hb1.1.mix h rfl rfl, trivial⟩
  | err e rt2 => rw [hbr] at hb1; exact hb1.mix h rfl rfl
  | crash s rt2 => rw [hbr] at hb1; exact ⟨hb1.1, hb1.2.mix h rfl rfl⟩
  | fuel => trivial
  | unsupported w => trivial

/-- isSet's catch-all recover swallows every panic -/
theorem tot_recoverFalse {m : M Bool} (hm : Tot m) : Tot (recoverFalse m) := by
  refine ⟨fun rt h => ?_⟩
  unfold recoverFalse
  have h1 := hm.post rt h
  cases hmr : m rt with
  | ok a rt' => rw [hmr] at h1; exact h1
  | err e rt' => rw [hmr] at h1; exact ⟨h1.mix h rfl rfl, trivial⟩
  | crash s rt' => rw [hmr] at h1; exact ⟨h1.2.mix h rfl rfl, trivial⟩
  | fuel => trivial
  | unsupported w => trivial

/-! ### pure helpers: a crash of a helper is `Allowed` -/

def PTot {α} (p : P α) : Prop := ∀ s, p = .error (.crash s) → Allowed s

theorem ptot_ok {α} (a : α) : PTot (.ok a : P α) := fun _ h => by cases h
theorem ptot_pure {α} (a : α) : PTot (pure a : P α) := fun _ h => by cases h
theorem ptot_throwErr {α} (e : Err) : PTot (throwErr e : P α) := fun _ h => by cases h
theorem ptot_errAt {α} (l : Loc) (s : String) : PTot (errAt l s : P α) := fun _ h => by cases h
theorem ptot_errPlain {α} (s : String) : PTot (errPlain s : P α) := fun _ h => by cases h
theorem ptot_unsupported {α} (s : String) : PTot (unsupported s : P α) := fun _ h => by cases h
theorem ptot_crash {α} (s : String) (hs : Allowed s) : PTot (crash s : P α) :=
  fun _ h => by cases h; exact hs
theorem ptot_liftOpt {α} (w : String) (o : Option α) : PTot (liftOpt w o : P α) := by
  cases o with
  | none => exact ptot_unsupported w
  | some a => exact ptot_pure a

theorem ptot_bind {α β} {p : P α} {f : α → P β} (hp : PTot p) (hf : ∀ a, p = .ok a → PTot (f a)) :
    PTot (p >>= f) := by
  cases p with
  | ok a => exact hf a rfl
  | error e =>
    intro s h
    have h' : (Except.error e : P β) = .error (.crash s) := h
    cases h'
    exact hp s rfl

theorem ptot_locateP {α} (loc : Loc) {p : P α} (hp : PTot p) : PTot (locateP loc p) := by
  intro s h
  cases p with
  | ok a => cases h
  | error f =>
    cases f with
    | err e =>
      have hl : locateP loc (.error (.err e) : P α) =
          if e.located then .error (.err e) else .error (.err { e with located := true, loc := loc }) := rfl
      rw [hl] at h
      split at h <;> cases h
    | crash m => exact hp s h
    | unsupported w => cases h

theorem ptot_mapM {α β} (f : α → P β) : ∀ xs : List α, (∀ a ∈ xs, PTot (f a)) → PTot (xs.mapM f) := by
  intro xs
  induction xs with
  | nil => intro _; rw [List.mapM_nil]; exact ptot_pure _
  | cons x xs ih =>
    intro hf
    rw [List.mapM_cons]
    exact ptot_bind (hf x List.mem_cons_self) fun _ _ =>
      ptot_bind (ih fun a ha => hf a (List.mem_cons_of_mem _ ha)) fun _ _ => ptot_pure _

theorem ptot_foldlM {α β} (f : β → α → P β) :
    ∀ (xs : List α) (b : β), (∀ b a, a ∈ xs → PTot (f b a)) → PTot (xs.foldlM f b) := by
  intro xs
  induction xs with
  | nil => intro b _; rw [List.foldlM_nil]; exact ptot_pure _
  | cons x xs ih =>
    intro b hf
    rw [List.foldlM_cons]
    exact ptot_bind (hf b x List.mem_cons_self) fun b' _ => ih b' fun b a ha => hf b a (List.mem_cons_of_mem _ ha)

/-- closes `PTot` goals built from binds, ifs and matches; stops at a crash site that is not allowed -/
macro "ptot_step" : tactic => `(tactic| with_reducible (first
  | exact ptot_pure _
  | exact ptot_ok _
  | exact ptot_errAt _ _
  | exact ptot_errPlain _
  | exact ptot_throwErr _
  | exact ptot_unsupported _
  | exact ptot_liftOpt _ _
  | exact ptot_crash _ (by decide)
  | apply ptot_bind
  | apply ptot_locateP
  | intro _))

syntax "ptot_tac" (" [" term,* "]")? : tactic
macro_rules
  | `(tactic| ptot_tac) => `(tactic| repeat' (first | ptot_step | split | dsimp only))
  | `(tactic| ptot_tac [$h0]) => `(tactic| repeat' (first | ptot_step | (with_reducible apply $h0) | split | dsimp only))
  | `(tactic| ptot_tac [$h0, $h1]) => `(tactic| repeat' (first | ptot_step | (with_reducible apply $h0) | (with_reducible apply $h1) | split | dsimp only))
  | `(tactic| ptot_tac [$h0, $h1, $h2]) => `(tactic| repeat' (first | ptot_step | (with_reducible apply $h0) | (with_reducible apply $h1) | (with_reducible apply $h2) | split | dsimp only))

theorem ptot_toInt (v : Val) : PTot (toInt v) := by unfold toInt; ptot_tac
theorem ptot_toUint (v : Val) : PTot (toUint v) := by unfold toUint; ptot_tac
theorem ptot_toFloat (v : Val) : PTot (toFloat v) := by unfold toFloat; ptot_tac
theorem ptot_indexArg (i : Val) (cap : Nat) : PTot (indexArg i cap) := by unfold indexArg; ptot_tac

theorem chk_lt (cap : Nat) (x : Int) (i : Nat)
    (h : (if x < 0 ∨ x ≥ cap then (errPlain "index out of range" : P Nat) else pure x.toNat) = .ok i) :
    i < cap := by
  split at h
  · cases h
  · cases h; omega

/-- eval.go `indexArg` only returns an index below the capacity -/
theorem indexArg_lt (v : Val) (cap i : Nat) (h : indexArg v cap = .ok i) : i < cap := by
  unfold indexArg at h
  dsimp only at h
  split at h
  · exact chk_lt _ _ _ h
  · exact chk_lt _ _ _ h
  · rename_i bts
    cases hf : floatToInt bts with
    | none => rw [hf] at h; cases h
    | some x => rw [hf] at h; exact chk_lt _ _ _ h
  · cases h
  · cases h
  · cases h

theorem idx_unreach {α} (l : List α) (iv : Val) (i : Nat) (h : indexArg iv l.length = .ok i)
    (hn : l[i]? = none) : False := by
  have := indexArg_lt _ _ _ h
  rw [List.getElem?_eq_none_iff] at hn
  omega

theorem ptot_resolveIndex (v i : Val) (s : Option Bytes) : PTot (resolveIndex v i s) := by
  have h := ptot_indexArg
  unfold resolveIndex; ptot_tac [h]
  all_goals (exfalso; exact idx_unreach _ _ _ (by assumption) (by assumption))

theorem ptot_checkEquality (a c : Val) : PTot (checkEquality a c) := by
  have h1 := ptot_toInt; have h2 := ptot_toUint; have h3 := ptot_toFloat
  unfold checkEquality; ptot_tac [h1, h2, h3]

theorem ptot_evalAdditive (l1 l2 l3 : Loc) (p : Bool) (a : Option Val) (c : Val) :
    PTot (evalAdditive l1 l2 l3 p a c) := by
  have h1 := ptot_toInt; have h2 := ptot_toUint; have h3 := ptot_toFloat
  unfold evalAdditive; ptot_tac [h1, h2, h3]

theorem ptot_evalNumericComparative (l : Loc) (op : Tok) (a c : Val) :
    PTot (evalNumericComparative l op a c) := by
  have h1 := ptot_toInt; have h2 := ptot_toUint; have h3 := ptot_toFloat
  unfold evalNumericComparative; ptot_tac [h1, h2, h3]

/-- the two `unreachable` sites of the multiplicative operators: promotion is only asked for when
    the right side is a float, and the parser only builds `*`, `/`, `%` nodes -/
theorem ptot_evalMultiplicative (l1 l2 : Loc) (op : Tok) (a c : Val) (hop : MulOp op) :
    PTot (evalMultiplicative l1 l2 op a c) := by
  have h1 := ptot_toInt; have h2 := ptot_toUint; have h3 := ptot_toFloat
  unfold evalMultiplicative
  ptot_tac [h1, h2, h3]
  all_goals (exfalso; first
    | (rcases hop with rfl | rfl | rfl <;> simp_all; done)
    | (cases c <;> simp_all [isFloatV]; done))

theorem ptot_convertArg (t : Ty) (v : Val) : PTot (convertArg t v) := by unfold convertArg; ptot_tac
theorem ptot_convArg (t : Ty) (v : Val) (w : String) : PTot (convArg t v w) := by
  have h := ptot_convertArg
  unfold convArg; ptot_tac [h]
theorem ptot_parseIntoInt (v : Val) : PTot (parseIntoInt v) := by unfold parseIntoInt; ptot_tac
theorem ptot_apiName (v : Val) : PTot (apiName v) := by unfold apiName; ptot_tac
theorem ptot_lenOf (v : Val) : PTot (applyJetFunc.lenOf v) := by unfold applyJetFunc.lenOf; ptot_tac
theorem ptot_notNilP (v : Val) : PTot (notNilP v) := by unfold notNilP; ptot_tac
theorem ptot_getSibling (env : Env) (a c : Bytes) : PTot (getSibling env a c) := by unfold getSibling; ptot_tac
theorem ptot_getRanger (v : Val) : PTot (getRanger v) := by unfold getRanger; ptot_tac

theorem ptot_evalFieldPath (loc : Loc) : ∀ (fs : List Bytes) (v : Val), PTot (evalFieldPath loc v fs) := by
  intro fs
  induction fs with
  | nil => intro v; unfold evalFieldPath; exact ptot_pure _
  | cons f rest ih =>
    intro v
    unfold evalFieldPath
    have hr := ptot_resolveIndex v .invalid (some f)
    split
    · intro s h; cases h
    · rename_i x hx
      intro s h
      cases h
      exact hr s hx
    · ptot_tac [ih]

theorem ptot_evalChainFields : ∀ (fs : List Bytes) (v : Val), PTot (evalChainFields v fs) := by
  have hr := ptot_resolveIndex
  intro fs
  induction fs with
  | nil => intro v; unfold evalChainFields; exact ptot_pure _
  | cons f rest ih =>
    intro v
    cases rest with
    | nil => unfold evalChainFields; ptot_tac [hr]
    | cons g rest => unfold evalChainFields; ptot_tac [hr, ih]

theorem ptot_isSetFieldPath : ∀ (fs : List Bytes) (v : Val), PTot (isSetFieldPath v fs) := by
  have hr := ptot_resolveIndex
  have hn := ptot_notNilP
  intro fs
  induction fs with
  | nil => intro v; unfold isSetFieldPath; exact ptot_pure _
  | cons f rest ih => intro v; unfold isSetFieldPath; ptot_tac [hr, hn, ih]

/-! #### converted arguments have the parameter's kind -/

/-- what `convertArg` hands to a `string` / `int` parameter -/
def TyOk : Ty → Val → Prop
  | .string, v => ∃ s, v = .str s
  | .int, v => ∃ i, v = .int i
  | _, _ => True

theorem convertArg_typed (t : Ty) (v x : Val) (h : convertArg t v = .ok (some x)) : TyOk t x := by
  unfold convertArg at h
  split at h
  all_goals first
    | (cases h; done)
    | (cases h; simp [TyOk]; done)
    | (rename_i f; cases hf : floatToInt f <;> rw [hf] at h <;> cases h; simp [TyOk]; done)
    | skip

theorem convArg_typed (t : Ty) (v x : Val) (w : String) (h : convArg t v w = .ok (.ok x)) : TyOk t x := by
  unfold convArg at h
  split at h
  · cases h
  · cases hc : convertArg t v with
    | error e => rw [hc] at h; cases h
    | ok o =>
      rw [hc] at h
      cases o with
      | none => cases h
      | some y => cases h; exact convertArg_typed _ _ _ hc

/-- every argument has the kind of its parameter -/
def Typed (sig : Sig) (args : List Val) : Prop :=
  ∀ i v t, args[i]? = some v → sig.tyAt i = some t → TyOk t v

theorem mem_getElem?_cons {α} (x : α) (xs : List α) (v : α) (h : v ∈ xs) : ∃ i, (x :: xs)[i + 1]? = some v := by
  obtain ⟨i, hi⟩ := List.mem_iff_getElem?.mp h
  exact ⟨i, by simpa using hi⟩

theorem tyAt_variadic (t : Ty) (i : Nat) : Sig.tyAt ⟨[], some t⟩ i = some t := by
  simp [Sig.tyAt]

theorem tyAt_cat (i : Nat) : Sig.tyAt ⟨[.string], some .string⟩ i = some .string := by
  cases i <;> simp [Sig.tyAt]

set_option maxHeartbeats 1600000 in
/-- the `unreachable cat arg` / `unreachable sum arg` sites: the arguments were converted to the
    parameter types.  What is left is `strings.Repeat`'s own panic. -/
theorem ptot_applyGoFunc (id : String) (args : List Val)
    (h : ∀ sig, goFuncSig id = some sig → Typed sig args) : PTot (applyGoFunc id args) := by
  unfold applyGoFunc
  split
  all_goals try (ptot_tac; done)
  · -- cat
    rename_i a rest
    have ht := h _ (by simp [goFuncSig] : goFuncSig "cat" = some ⟨[.string], some .string⟩)
    apply ptot_bind
    · apply ptot_foldlM
      intro acc v hv
      obtain ⟨i, hi⟩ := mem_getElem?_cons (.str a) rest v hv
      obtain ⟨s, rfl⟩ := ht (i + 1) v .string hi (tyAt_cat _)
      exact ptot_pure _
    · intro _ _; exact ptot_pure _
  · -- sum
    rename_i xs
    have ht := h _ (by simp [goFuncSig] : goFuncSig "sum" = some ⟨[], some .int⟩)
    apply ptot_bind
    · apply ptot_foldlM
      intro acc v hv
      obtain ⟨i, hi⟩ := List.mem_iff_getElem?.mp hv
      obtain ⟨s, rfl⟩ := ht i v .int hi (tyAt_variadic _ _)
      exact ptot_pure _
    · intro _ _; exact ptot_pure _

/-- the `unreachable Cat arg` site -/
theorem ptot_applyMethod (name : String) (recv : Val) (args : List Val)
    (h : ∀ sig, methodSig name = some sig → Typed sig args) : PTot (applyMethod name recv args) := by
  unfold applyMethod
  ptot_tac
  -- Cat
  have ht := h _ (by simp [methodSig] : methodSig "Cat" = some ⟨[], some .string⟩)
  apply ptot_mapM
  intro v hv
  obtain ⟨i, hi⟩ := List.mem_iff_getElem?.mp hv
  obtain ⟨s, rfl⟩ := ht i v .string hi (tyAt_variadic _ _)
  exact ptot_pure _

/-! ### templates handed out by the loader are well-formed -/

theorem canonicalOf_wf {env : Env} (he : EnvWf env) (p n : Bytes) (t : Tmpl)
    (h : canonicalOf env p = some (n, some t)) : TmplWf t := by
  unfold canonicalOf at h
  obtain ⟨ext, _, hx⟩ := List.exists_of_findSome?_eq_some h
  split at hx
  · rename_i n' t' hf
    cases hx
    exact he _ (List.mem_of_find?_eq_some hf) t rfl
  · cases hx

theorem getSibling_wf {env : Env} (he : EnvWf env) (a c : Bytes) (t : Tmpl)
    (h : getSibling env a c = .ok t) : TmplWf t := by
  unfold getSibling at h
  dsimp only at h
  split at h
  · cases h
  · cases h
  · rename_i n t' hc
    cases h
    exact canonicalOf_wf he _ _ _ hc

theorem findTmpl_wf {env : Env} (he : EnvWf env) (n : Bytes) (t : Tmpl) (h : findTmpl env n = some t) :
    TmplWf t := by
  unfold findTmpl at h
  split at h
  · rename_i n' t' hf
    cases h
    exact he _ (List.mem_of_find?_eq_some hf) t rfl
  · cases h

theorem rootOf_wf {env : Env} (he : EnvWf env) : ∀ (n : Nat) (t root : Tmpl), TmplWf t →
    rootOf env n t = some root → TmplWf root := by
  intro n
  induction n with
  | zero => intro t root _ h; simp [rootOf] at h
  | succ n ih =>
    intro t root ht h
    unfold rootOf at h
    split at h
    · cases h; exact ht
    · split at h
      · rename_i p hp
        exact ih p root (findTmpl_wf he _ _ hp) h
      · cases h

/-! ### the evaluator, function by function -/

theorem tot_liftP {α} (p : P α) (hp : PTot p) : Tot (liftP p) := by
  refine ⟨fun rt h => ?_⟩
  unfold liftP
  cases p with
  | ok a => exact ⟨h, trivial⟩
  | error f =>
    cases f with
    | err e => exact h
    | crash s => exact ⟨hp s rfl, h⟩
    | unsupported w => trivial

theorem totq_liftP {α} {Q : α → Prop} (p : P α) (hp : PTot p) (hq : ∀ a, p = .ok a → Q a) : TotQ Q (liftP p) := by
  refine ⟨fun rt h => ?_⟩
  unfold liftP
  cases p with
  | ok a => exact ⟨h, hq a rfl⟩
  | error f =>
    cases f with
    | err e => exact h
    | crash s => exact ⟨hp s rfl, h⟩
    | unsupported w => trivial

/-- the hypothesis on one level of the open recursion -/
structure RecTot (env : Env) (r : Rec) : Prop where
  evalExpr : ∀ e, ExprWf e → Tot (r.evalExpr env e)
  execList : ∀ l, StmtsWf l → Tot (r.execList env l)
  isSetE : ∀ e, ExprWf e → Tot (r.isSetE env e)
  /-- evaluating a bare `_` never yields a value (it is "unexpected node type", an error) -/
  under : ∀ loc, TotQ (fun _ => False) (r.evalExpr env (.underscore loc))

theorem recTot_bottom (env : Env) : RecTot env Rec.bottom :=
  ⟨fun _ _ => tot_outOfFuel, fun _ _ => tot_outOfFuel, fun _ _ => tot_outOfFuel, fun _ => ⟨fun _ _ => trivial⟩⟩

/-- closes `Tot` goals built from binds, ifs and matches over known pieces; stops at a crash site
    that is not allowed -/
macro "tot_step" : tactic => `(tactic| with_reducible (first
  | assumption
  | exact tot_pure _
  | exact tot_unsupported _
  | exact tot_errAt _ _
  | exact tot_errPlain _
  | exact tot_throwErr _
  | exact tot_outOfFuel
  | exact tot_crash _ (by decide)
  | exact tot_liftOpt _ _
  | exact tot_getRT
  | exact tot_letVar _ _
  | exact tot_letGlobal _ _
  | exact tot_setValue _ _
  | exact tot_newScope
  | exact (totq_getBlock _).tot
  | exact tot_resolve _ _
  | exact tot_logE _
  | exact tot_writeLit _
  | exact tot_printEscaped _ _
  | exact tot_printSafe _ _
  | apply Tot.bind
  | apply tot_withNewScopeD
  | apply tot_withNewScopeND
  | apply tot_withCtxND
  | apply tot_withCtxD
  | apply tot_withWriterD
  | apply tot_liftP
  | apply ptot_locateP
  | exact ptot_convArg _ _ _
  | exact ptot_parseIntoInt _
  | exact ptot_apiName _
  | exact ptot_lenOf _
  | exact ptot_evalFieldPath _ _ _
  | exact ptot_evalChainFields _ _
  | exact ptot_evalAdditive _ _ _ _ _ _
  | exact ptot_checkEquality _ _
  | exact ptot_evalNumericComparative _ _ _ _
  | exact ptot_resolveIndex _ _ _
  | exact ptot_notNilP _
  | exact ptot_isSetFieldPath _ _
  | exact ptot_getSibling _ _ _
  | exact ptot_getRanger _
  | intro _))

syntax "tot_tac" (" [" term,* "]")? : tactic
macro_rules
  | `(tactic| tot_tac) => `(tactic| repeat' (first | tot_step | split | dsimp only))
  | `(tactic| tot_tac [$h0]) => `(tactic| repeat' (first | tot_step | (with_reducible apply $h0) | split | dsimp only))
  | `(tactic| tot_tac [$h0, $h1]) => `(tactic| repeat' (first | tot_step | (with_reducible apply $h0) | (with_reducible apply $h1) | split | dsimp only))
  | `(tactic| tot_tac [$h0, $h1, $h2]) => `(tactic| repeat' (first | tot_step | (with_reducible apply $h0) | (with_reducible apply $h1) | (with_reducible apply $h2) | split | dsimp only))
  | `(tactic| tot_tac [$h0, $h1, $h2, $h3]) => `(tactic| repeat' (first | tot_step | (with_reducible apply $h0) | (with_reducible apply $h1) | (with_reducible apply $h2) | (with_reducible apply $h3) | split | dsimp only))

variable {env : Env} {r : Rec}

theorem tot_Args_exprAt (hr : RecTot env r) (a : Args) (hw : ExprsWf a.exprs) (j : Nat) :
    Tot (a.exprAt r env j) := by
  have he : ∀ e, e ∈ a.exprs → Tot (r.evalExpr env e) := fun e h => hr.evalExpr e (hw.mem e h)
  unfold Args.exprAt
  tot_tac [he]
  all_goals exact List.mem_of_getElem? (by assumption)

theorem tot_Args_get (hr : RecTot env r) (a : Args) (hw : ExprsWf a.exprs) (i : Nat) : Tot (a.get r env i) := by
  have he := tot_Args_exprAt hr a hw
  unfold Args.get
  tot_tac [he]

theorem tot_Args_isSetAt (hr : RecTot env r) (a : Args) (hw : ExprsWf a.exprs) (j : Nat) :
    Tot (a.isSetAt r env j) := by
  have he : ∀ e, e ∈ a.exprs → Tot (r.isSetE env e) := fun e h => hr.isSetE e (hw.mem e h)
  unfold Args.isSetAt
  tot_tac [he]
  all_goals exact List.mem_of_getElem? (by assumption)

theorem tot_Args_isSet (hr : RecTot env r) (a : Args) (hw : ExprsWf a.exprs) (i : Nat) : Tot (a.isSet r env i) := by
  have he := tot_Args_isSetAt hr a hw
  unfold Args.isSet
  tot_tac [he]

theorem Typed.snoc {sig : Sig} {l : List Val} {t : Ty} {x : Val} (h : Typed sig l)
    (ht : sig.tyAt l.length = some t) (hx : TyOk t x) : Typed sig (l ++ [x]) := by
  intro i v t' hi hti
  rcases Nat.lt_trichotomy i l.length with hlt | heq | hgt
  · rw [List.getElem?_append_left hlt] at hi
    exact h i v t' hi hti
  · subst heq
    simp at hi
    subst hi
    rw [ht] at hti
    cases hti
    exact hx
  · rw [List.getElem?_eq_none_iff.mpr (by simp; omega)] at hi
    cases hi

theorem tyAt_none {sig : Sig} {slot : Nat} (h : sig.tyAt slot = none) :
    sig.variadic = none ∧ sig.params.length ≤ slot := by
  unfold Sig.tyAt at h
  split at h
  · cases h
  · rename_i hn
    exact ⟨h, List.getElem?_eq_none_iff.mp hn⟩

/-- the argument loop: `unreachable: too many arguments` is excluded by the arity test of
    `evaluateArgs`, `nil pointer dereference (no piped value)` by its slot test; every argument
    it returns has been converted to its parameter's type -/
theorem totq_evalArgsLoop (hr : RecTot env r) (sig : Sig) (a : Args) :
    ∀ (es : List Expr) (slot : Nat) (acc : List Val), ExprsWf es →
      (∀ e ∈ es, isUnderscore e = true → a.piped.isSome = true) →
      (sig.variadic.isSome = true ∨ slot + es.length ≤ sig.params.length) →
      acc.length = slot → Typed sig acc.reverse →
      TotQ (fun res => ∀ args, res = .ok args → Typed sig args) (evalArgsLoop r env sig a es slot acc) := by
  intro es
  induction es with
  | nil =>
    intro slot acc _ _ _ _ hty
    unfold evalArgsLoop
    exact totq_pure _ (fun args h => by cases h; exact hty)
  | cons e rest ih =>
    intro slot acc hw hp har hlen hty
    rw [ExprsWf] at hw
    unfold evalArgsLoop
    cases ht : sig.tyAt slot with
    | none =>
      exfalso
      obtain ⟨h1, h2⟩ := tyAt_none ht
      rcases har with har | har
      · rw [h1] at har; cases har
      · simp at har; omega
    | some t =>
      dsimp only
      have hv : Tot (if isUnderscore e = true then
            match a.piped with
            | some p => pure p
            | none => crash "nil pointer dereference (no piped value)"
          else r.evalExpr env e) := by
        split
        · rename_i hu
          have := hp e List.mem_cons_self hu
          cases hpi : a.piped with
          | none => rw [hpi] at this; cases this
          | some p => exact tot_pure _
        · exact hr.evalExpr e hw.1
      refine TotQ.bind hv fun v _ => ?_
      refine TotQ.bind (totq_liftP (Q := fun res => ∀ x, res = .ok x → TyOk t x) _ (ptot_convArg _ _ _)
        (fun res hres x hx => by subst hx; exact convArg_typed _ _ _ _ hres)) fun res hres => ?_
      cases res with
      | error m => exact totq_pure _ (fun args h => by cases h)
      | ok x =>
        dsimp only
        refine ih (slot + 1) (x :: acc) hw.2 (fun e' he' => hp e' (List.mem_cons_of_mem _ he')) ?_ (by simp [hlen]) ?_
        · rcases har with har | har
          · exact Or.inl har
          · right; simp at har; omega
        · rw [List.reverse_cons]
          exact hty.snoc (by rw [List.length_reverse, hlen]; exact ht) (hres x rfl)

variable {env : Env} {r : Rec}

theorem any_of_mem {es : List Expr} {e : Expr} (h : e ∈ es) (hu : isUnderscore e = true) :
    es.any isUnderscore = true := List.any_eq_true.mpr ⟨e, h, hu⟩

theorem typed_nil (sig : Sig) : Typed sig [] := by
  intro i v t hi; simp at hi

/-- `evaluateArgs` -/
theorem totq_evaluateArgs (hr : RecTot env r) (sig : Sig) (a : Args) (hw : ExprsWf a.exprs)
    (hs : a.piped.isNone = true → SlotOk a.exprs a.hasSlot) :
    TotQ (fun res => ∀ args, res = .ok args → Typed sig args) (evaluateArgs r env sig a) := by
  have hl := totq_evalArgsLoop hr sig a
  unfold evaluateArgs
  split
  · exact totq_pure _ (fun args h => by cases h)
  · rename_i hguard
    dsimp only
    split
    · exact totq_pure _ (fun args h => by cases h)
    · rename_i har
      have hp : ∀ e ∈ a.exprs, isUnderscore e = true → a.piped.isSome = true := by
        intro e he hu
        cases hpi : a.piped with
        | none =>
          have := hs (by rw [hpi]; rfl) (any_of_mem he hu)
          simp [this, hpi] at hguard
        | some p => rfl
      have harity : sig.variadic.isSome = true ∨ a.num = sig.params.length := by
        cases hv : sig.variadic with
        | none => right; simp [hv] at har; exact har
        | some t => left; rfl
      split
      · rename_i p hpi hsl
        cases ht : sig.tyAt 0 with
        | none =>
          exfalso
          obtain ⟨h1, h2⟩ := tyAt_none ht
          rcases harity with h | h
          · rw [h1] at h; cases h
          · simp [Args.num, hpi, hsl] at h; omega
        | some t =>
          dsimp only
          refine TotQ.bind (totq_liftP (Q := fun res => ∀ x, res = .ok x → TyOk t x) _ (ptot_convArg _ _ _)
            (fun res hres x hx => by subst hx; exact convArg_typed _ _ _ _ hres)) fun res hres => ?_
          cases res with
          | error m => exact totq_pure _ (fun args h => by cases h)
          | ok x =>
            dsimp only
            refine hl a.exprs 1 [x] hw hp ?_ rfl ?_
            · rcases harity with h | h
              · exact Or.inl h
              · right; simp [Args.num, hpi, hsl] at h; omega
            · exact (typed_nil sig).snoc (t := t) ht (hres x rfl)
      · rename_i hne
        refine hl a.exprs 0 [] hw hp ?_ rfl (typed_nil sig)
        rcases harity with h | h
        · exact Or.inl h
        · right
          unfold Args.num at h
          split at h
          · rename_i hc
            exfalso
            cases hpi : a.piped with
            | none => simp [hpi] at hc
            | some p =>
              cases hsl : a.hasSlot with
              | true => simp [hsl] at hc
              | false => exact hne p hpi hsl
          · omega

theorem tot_issetLoop (hr : RecTot env r) (a : Args) (hw : ExprsWf a.exprs) : ∀ f i, Tot (issetLoop r env a f i) := by
  have hs := tot_Args_isSet hr a hw
  intro f
  induction f with
  | zero => intro i; unfold issetLoop; tot_tac
  | succ f ih => intro i; unfold issetLoop; tot_tac [hs, ih]

theorem tot_sliceLoop (hr : RecTot env r) (a : Args) (hw : ExprsWf a.exprs) : ∀ f i acc, Tot (sliceLoop r env a f i acc) := by
  have hg := tot_Args_get hr a hw
  intro f
  induction f with
  | zero => intro i acc; unfold sliceLoop; tot_tac
  | succ f ih => intro i acc; unfold sliceLoop; tot_tac [hg, ih]

theorem tot_mapLoop (hr : RecTot env r) (a : Args) (hw : ExprsWf a.exprs) : ∀ f i acc, Tot (mapLoop r env a f i acc) := by
  have hg := tot_Args_get hr a hw
  intro f
  induction f with
  | zero => intro i acc; unfold mapLoop; tot_tac
  | succ f ih => intro i acc; unfold mapLoop; tot_tac [hg, ih]

theorem tot_recLoop (hr : RecTot env r) (a : Args) (hw : ExprsWf a.exprs) : ∀ f i acc, Tot (recLoop r env a f i acc) := by
  have hg := tot_Args_get hr a hw
  intro f
  induction f with
  | zero => intro i acc; unfold recLoop; tot_tac
  | succ f ih => intro i acc; unfold recLoop; tot_tac [hg, ih]

theorem tot_execBuiltin (he : EnvWf env) (hr : RecTot env r) (isExec : Bool) (a : Args) (hw : ExprsWf a.exprs) :
    Tot (execBuiltin r env isExec a) := by
  have hg := tot_Args_get hr a hw
  have hl := hr.execList
  have hb := tot_setBlocks
  unfold execBuiltin
  tot_tac [hg, hl, hb]
  all_goals first
    | exact (canonicalOf_wf he _ _ _ (by assumption)).blocks
    | exact (rootOf_wf he _ _ _ (canonicalOf_wf he _ _ _ (by assumption)) (by assumption)).root

theorem tot_yieldBlockApi (hr : RecTot env r) (name : Bytes) (ctx : Val) : Tot (yieldBlockApi r env name ctx) := by
  have hl := hr.execList
  unfold yieldBlockApi
  refine TotQ.bind (totq_getBlock name) fun o ho => ?_
  cases o with
  | none => exact tot_errPlain _
  | some blk =>
    have := (ho blk rfl).body
    dsimp only
    tot_tac [hl]

theorem tot_recsetLoop (hr : RecTot env r) (a : Args) (hw : ExprsWf a.exprs) :
    ∀ fuel i acc, Tot (recsetLoop r env a fuel i acc) := by
  have hs := tot_Args_isSet hr a hw
  intro fuel
  induction fuel with
  | zero => intro i acc; unfold recsetLoop; tot_tac
  | succ f ih => intro i acc; unfold recsetLoop; tot_tac [hs, ih]

theorem tot_parse3Func (hr : RecTot env r) (a : Args) (hw : ExprsWf a.exprs) : Tot (parse3Func r env a) := by
  have hg := tot_Args_get hr a hw
  unfold parse3Func
  tot_tac [hg]

theorem tot_applyApiFunc (hr : RecTot env r) (id : String) (a : Args) (hw : ExprsWf a.exprs) :
    Tot (applyApiFunc r env id a) := by
  have hg := tot_Args_get hr a hw
  have hy := tot_yieldBlockApi hr
  have hrs := tot_recsetLoop hr a hw
  have hp := tot_parse3Func hr a hw
  unfold applyApiFunc
  dsimp only
  tot_tac [hg, hy, hrs, hp]

set_option maxHeartbeats 1600000 in
theorem tot_applyJetFunc (he : EnvWf env) (hr : RecTot env r) (id : String) (a : Args) (hw : ExprsWf a.exprs) :
    Tot (applyJetFunc r env id a) := by
  have hg := tot_Args_get hr a hw
  have h1 := tot_issetLoop hr a hw
  have h2 := tot_sliceLoop hr a hw
  have h3 := tot_mapLoop hr a hw
  have h4 := tot_recLoop hr a hw
  have h5 : ∀ b, Tot (execBuiltin r env b a) := fun b => tot_execBuiltin he hr b a hw
  have h6 : ∀ id, Tot (applyApiFunc r env id a) := fun id => tot_applyApiFunc hr id a hw
  unfold applyJetFunc
  dsimp only
  repeat' (first | split | tot_step | (with_reducible apply hg) | (with_reducible apply h1) | (with_reducible apply h2) | (with_reducible apply h3) | (with_reducible apply h4) | (with_reducible apply h5) | (with_reducible apply h6))

/-- `unreachable: call of non-func`: every caller has tested the kind -/
theorem totq_callValue (he : EnvWf env) (hr : RecTot env r) (fn : Val) (a : Args) (hk : kindIsFunc fn = true)
    (hw : ExprsWf a.exprs) (hs : a.piped.isNone = true → SlotOk a.exprs a.hasSlot) : Tot (callValue r env fn a) := by
  have h1 := tot_applyJetFunc he hr
  have h3 : ∀ logs : List LogE, Tot (modifyRT fun rt => { rt with log := logs.reverse ++ rt.log }) :=
    fun logs => tot_modify_log (fun l => logs.reverse ++ l)
  cases fn <;> try (simp [kindIsFunc] at hk; done)
  · -- func
    rename_i id
    unfold callValue
    dsimp only
    split
    · exact tot_unsupported _
    · rename_i sig hsig
      refine TotQ.bind (totq_evaluateArgs hr sig a hw hs) fun res hres => ?_
      cases res with
      | error m => exact tot_pure _
      | ok args =>
        dsimp only
        refine Tot.bind (tot_liftP _ (ptot_applyGoFunc id args
          (fun sig' h' => by rw [hsig] at h'; cases h'; exact hres args rfl))) fun x => ?_
        tot_tac [h3]
  · -- jfunc
    rename_i id
    unfold callValue
    dsimp only
    exact Tot.bind (h1 id a hw) fun v => tot_pure _
  · unfold callValue; exact tot_unsupported _
  · -- method
    rename_i name recv
    unfold callValue
    dsimp only
    split
    · exact tot_unsupported _
    · rename_i sig hsig
      refine TotQ.bind (totq_evaluateArgs hr sig a hw hs) fun res hres => ?_
      cases res with
      | error m => exact tot_pure _
      | ok args =>
        dsimp only
        refine Tot.bind (tot_liftP _ (ptot_applyMethod name recv args
          (fun sig' h' => by rw [hsig] at h'; cases h'; exact hres args rfl))) fun x => tot_pure _

theorem tot_callAt (he : EnvWf env) (hr : RecTot env r) (loc : Loc) (fn : Val) (a : Args) (hk : kindIsFunc fn = true)
    (hw : ExprsWf a.exprs) (hs : a.piped.isNone = true → SlotOk a.exprs a.hasSlot) : Tot (callAt r env loc fn a) := by
  have h1 := totq_callValue he hr fn a hk hw hs
  unfold callAt
  tot_tac [h1]

variable {env : Env} {r : Rec}

theorem tot_errAt_bind {α β} (l : Loc) (s : String) (f : α → M β) : Tot ((errAt l s : M α) >>= f) :=
  ⟨fun _ h => h⟩
theorem tot_unsupported_bind {α β} (s : String) (f : α → M β) : Tot ((unsupported s : M α) >>= f) :=
  ⟨fun _ _ => trivial⟩

/-- `evalPrimaryExpressionGroup` / `evalBaseExpressionGroup` -/
theorem tot_evalExprF (he : EnvWf env) (hr : RecTot env r) (e : Expr) (hw : ExprWf e) : Tot (evalExprF r env e) := by
  have hev := hr.evalExpr
  cases e with
  | call loc base args ann hasSlot =>
    rw [ExprWf] at hw
    obtain ⟨hb, ha, hs⟩ := hw
    unfold evalExprF
    dsimp only
    refine Tot.bind (hev base hb) fun fv => ?_
    split
    · exact tot_unsupported _
    · split
      · exact tot_errAt _ _
      · rename_i hk
        exact tot_callAt he hr loc fv _ (by simpa using hk) ha (fun _ => hs)
  | slice loc base i j =>
    rw [ExprWf] at hw
    obtain ⟨hb, hi, hj⟩ := hw
    unfold evalExprF
    dsimp only
    refine Tot.bind (hev base hb) fun bv => ?_
    have hnum : ∀ x, ExprWf x → Tot (do
        let v ← r.evalExpr env x
        match v with
        | .int n => pure n
        | .uint n => pure (Val.wrapI n)
        | .float f => liftOpt "int64(float)" (floatToInt f)
        | .opaque _ | .hidden _ => unsupported "slice index"
        | _ => errAt x.loc "non numeric value in index expression" : M Int) := by
      intro x hx
      tot_tac [hev]
    cases i <;> cases j <;> simp only [ExprOWf] at hi hj <;> cases bv <;> dsimp only <;>
      first
        | exact tot_errAt_bind _ _ _
        | exact tot_unsupported_bind _ _
        | tot_tac [hev]
  | mul loc op l rgt =>
    rw [ExprWf] at hw
    obtain ⟨hl, hrg, hop⟩ := hw
    have hm := fun a c => ptot_evalMultiplicative l.loc rgt.loc op a c hop
    unfold evalExprF
    tot_tac [hev, hm]
  | add loc isPlus l rgt =>
    rw [ExprWf] at hw
    obtain ⟨hl, hrg⟩ := hw
    cases l with
    | none => unfold evalExprF; dsimp only; tot_tac [hev]
    | some le => rw [ExprOWf] at hl; unfold evalExprF; dsimp only; tot_tac [hev]
  | chain loc base fields => rw [ExprWf] at hw; unfold evalExprF; dsimp only; tot_tac [hev]
  | cmp loc isNeq l rgt => rw [ExprWf] at hw; obtain ⟨h1, h2⟩ := hw; unfold evalExprF; dsimp only; tot_tac [hev]
  | numcmp loc op l rgt => rw [ExprWf] at hw; obtain ⟨h1, h2⟩ := hw; unfold evalExprF; dsimp only; tot_tac [hev]
  | logic loc isAnd l rgt => rw [ExprWf] at hw; obtain ⟨h1, h2⟩ := hw; unfold evalExprF; dsimp only; tot_tac [hev]
  | not loc x => rw [ExprWf] at hw; unfold evalExprF; dsimp only; tot_tac [hev]
  | ternary loc c l rgt => rw [ExprWf] at hw; obtain ⟨h1, h2, h3⟩ := hw; unfold evalExprF; dsimp only; tot_tac [hev]
  | index loc base idx => rw [ExprWf] at hw; obtain ⟨h1, h2⟩ := hw; unfold evalExprF; dsimp only; tot_tac [hev]
  | ident loc name => unfold evalExprF; dsimp only; tot_tac
  | field loc names => unfold evalExprF; dsimp only; tot_tac
  | underscore loc => unfold evalExprF; dsimp only; tot_tac
  | nilLit loc => unfold evalExprF; dsimp only; tot_tac
  | boolLit loc b => unfold evalExprF; dsimp only; tot_tac
  | strLit loc s => unfold evalExprF; dsimp only; tot_tac
  | numLit loc a b c i u f => unfold evalExprF; dsimp only; tot_tac

theorem tot_isSetBody (hr : RecTot env r) (e : Expr) (hw : ExprWf e) : Tot (isSetBody r env e) := by
  have hev := hr.evalExpr
  have hs := hr.isSetE
  cases e with
  | index loc base idx => rw [ExprWf] at hw; obtain ⟨h1, h2⟩ := hw; unfold isSetBody; dsimp only; tot_tac [hev, hs]
  | chain loc base fields => rw [ExprWf] at hw; unfold isSetBody; dsimp only; tot_tac [hev, hs]
  | _ => unfold isSetBody; dsimp only; tot_tac

theorem tot_isSetF (hr : RecTot env r) (e : Expr) (hw : ExprWf e) : Tot (isSetF r env e) :=
  tot_recoverFalse (tot_isSetBody hr e hw)

/-! #### statements -/

/-- `interface conversion in executeSet`: the left side is an identifier, a field, a chain or `_`
    (evaluating `_` is an error, not a panic) -/
theorem tot_executeSet (hr : RecTot env r) (l : Expr) (v : Val) (hl : LeftSetOk l) : Tot (executeSet r env l v) := by
  have hev := hr.evalExpr
  cases l <;> try (exact hl.elim)
  all_goals (unfold executeSet; dsimp only; try (tot_tac; done))
  -- `_`
  rename_i loc
  exact TotQ.bind (hr.under loc) fun _ hf => hf.elim

variable {env : Env} {r : Rec}

/-- `interface conversion: not *IdentifierNode`: `:=` only declares identifiers -/
theorem tot_assignOne (hr : RecTot env r) (isLet : Bool) (l : Expr) (v : Val) (hl : LeftOk isLet l) :
    Tot (assignOne r env isLet l v) := by
  have hes := fun l hl => tot_executeSet hr l v hl
  cases isLet <;> cases l <;> (try (simp [LeftOk] at hl; done)) <;>
    (unfold assignOne; simp only [isUnderscore, leftName]; tot_tac [hes]) <;> first | exact True.intro | (exfalso; simp_all; done)

/-- `index out of range [i] in assignment`: a right side per left side -/
theorem tot_assignLoop (hr : RecTot env r) (isLet : Bool) :
    ∀ ls rs, (∀ l ∈ ls, LeftOk isLet l) → ExprsWf rs → ls.length ≤ rs.length →
      Tot (assignLoop r env isLet ls rs) := by
  have hev := hr.evalExpr
  intro ls
  induction ls with
  | nil => intro rs _ _ _; unfold assignLoop; exact tot_pure _
  | cons l ls ih =>
    intro rs hl hw hlen
    cases rs with
    | nil => simp at hlen
    | cons rgt rs =>
      rw [ExprsWf] at hw
      unfold assignLoop
      exact Tot.bind (hev rgt hw.1) fun v =>
        Tot.bind (tot_assignOne hr isLet l v (hl l List.mem_cons_self)) fun _ =>
          ih rs (fun l' h' => hl l' (List.mem_cons_of_mem _ h')) hw.2 (by simpa using hlen)

/-- `index out of range in lookup assignment` -/
theorem tot_executeAssign (hr : RecTot env r) (s : SetN) (hs : SetWf s) : Tot (executeAssign r env s) := by
  have hev := hr.evalExpr
  unfold executeAssign
  cases hlk : s.lookup with
  | false =>
    simp only [Bool.false_eq_true, ↓reduceIte]
    exact tot_assignLoop hr s.isLet s.left s.right hs.left hs.right (hs.len hlk)
  | true =>
    obtain ⟨l0, l1, rgt, rest, h1, h2⟩ := hs.look hlk
    have hw := hs.right
    have hl := hs.left
    rw [h2, ExprsWf] at hw
    rw [h1] at hl
    simp only [↓reduceIte]
    rw [h1, h2]
    dsimp only
    exact Tot.bind (hev rgt hw.1) fun v =>
      Tot.bind (tot_assignOne hr s.isLet l0 v (hl l0 (by simp))) fun _ =>
        tot_assignOne hr s.isLet l1 _ (hl l1 (by simp))

theorem tot_safeWriterLoop (hr : RecTot env r) (sw : String) : ∀ es, ExprsWf es → Tot (safeWriterLoop r env sw es) := by
  have hev := hr.evalExpr
  intro es
  induction es with
  | nil => intro _; unfold safeWriterLoop; tot_tac
  | cons e rest ih =>
    intro hw
    rw [ExprsWf] at hw
    obtain ⟨h1, h2⟩ := hw
    have := ih h2
    unfold safeWriterLoop; tot_tac [hev]

theorem tot_evalSafeWriter (hr : RecTot env r) (sw : String) (piped : Option Val) (args : List Expr)
    (hw : ExprsWf args) : Tot (evalSafeWriter r env sw piped args) := by
  have h1 := tot_safeWriterLoop hr sw args hw
  unfold evalSafeWriter
  tot_tac

theorem tot_evalCommand (he : EnvWf env) (hr : RecTot env r) (c : Cmd) (hc : CmdWf true c) : Tot (evalCommand r env c) := by
  have hev := hr.evalExpr
  have hb := hc.base
  have h1 := fun sw p => tot_evalSafeWriter hr sw p c.args hc.args
  have h2 : ∀ fn, kindIsFunc fn = true →
      Tot (callAt r env c.base.loc fn { exprs := c.args, hasSlot := c.hasSlot, piped := none }) :=
    fun fn hk => tot_callAt he hr _ fn _ hk hc.args (fun _ => hc.slot rfl)
  unfold evalCommand
  tot_tac [hev, h1, h2]

theorem tot_evalCommandPipe (he : EnvWf env) (hr : RecTot env r) (c : Cmd) (v : Val) (hc : CmdWf false c) :
    Tot (evalCommandPipe r env c v) := by
  have hev := hr.evalExpr
  have hb := hc.base
  have h1 := fun sw p => tot_evalSafeWriter hr sw p c.args hc.args
  have h2 : ∀ fn, ¬ (!kindIsFunc fn) = true →
      Tot (callAt r env c.base.loc fn { exprs := c.args, hasSlot := c.hasSlot, piped := some v }) :=
    fun fn hk => tot_callAt he hr _ fn _ (by simpa using hk) hc.args (fun h => by cases h)
  unfold evalCommandPipe
  tot_tac [hev, h1, h2]

theorem tot_pipelineLoop (he : EnvWf env) (hr : RecTot env r) :
    ∀ cs acc, (∀ c ∈ cs, CmdWf false c) → Tot (pipelineLoop r env acc cs) := by
  intro cs
  induction cs with
  | nil => intro acc _; unfold pipelineLoop; tot_tac
  | cons c cs ih =>
    intro acc hw
    have h1 := fun v => tot_evalCommandPipe he hr c v (hw c List.mem_cons_self)
    have h2 := fun acc => ih acc (fun c' h' => hw c' (List.mem_cons_of_mem _ h'))
    unfold pipelineLoop; tot_tac [h1, h2]

/-- `index out of range [0] with length 0`: a pipeline has a first command -/
theorem tot_evalPipeline (he : EnvWf env) (hr : RecTot env r) (p : Pipe) (hp : PipeWf p) : Tot (evalPipeline r env p) := by
  unfold PipeWf at hp
  unfold evalPipeline
  cases hc : p.cmds with
  | nil => rw [hc] at hp; exact hp.elim
  | cons c0 rest =>
    rw [hc] at hp
    dsimp only
    exact Tot.bind (tot_evalCommand he hr c0 hp.1) fun first => tot_pipelineLoop he hr rest first hp.2

/-- `yield content`: the closure holds well-formed syntax -/
theorem tpost_invokeContent (hr : RecTot env r) (c : Closure) (ctxE : Option Expr) (hx : ExprOWf ctxE) (rt : RT)
    (h : RWF rt) (hc : ClosureWf c) : TPost (fun _ => True) (invokeContent r env c ctxE rt) := by
  have hev := hr.evalExpr
  have hl := hr.execList
  cases c with
  | mk body sc outer =>
    obtain ⟨h1, h2⟩ := (ClosureWf.mk_iff _ _ _).mp hc
    unfold invokeContent
    refine tpost_withScopeContentD sc outer ?_ rt h h2
    cases ctxE with
    | none => dsimp only; tot_tac [hl]
    | some e => rw [ExprOWf] at hx; dsimp only; tot_tac [hev, hl]

theorem tot_bindYieldParams (hr : RecTot env r) (loc : Loc) :
    ∀ ps, ParamsWf ps → Tot (bindYieldParams r env loc ps) := by
  have hev := hr.evalExpr
  intro ps
  induction ps with
  | nil => intro _; unfold bindYieldParams; tot_tac
  | cons p ps ih =>
    intro hw
    have h1 := hw p List.mem_cons_self
    have h2 := ih (fun q hq => hw q (List.mem_cons_of_mem _ hq))
    unfold bindYieldParams
    cases hd : p.dflt with
    | none => dsimp only; exact tot_errAt _ _
    | some e => rw [hd, ExprOWf] at h1; dsimp only; tot_tac [hev]

theorem tot_bindBlockParams (hr : RecTot env r) : ∀ ps, ParamsWf ps → Tot (bindBlockParams r env ps) := by
  have hev := hr.evalExpr
  intro ps
  induction ps with
  | nil => intro _; unfold bindBlockParams; tot_tac
  | cons p ps ih =>
    intro hw
    have h1 := hw p List.mem_cons_self
    have h2 := ih (fun q hq => hw q (List.mem_cons_of_mem _ hq))
    unfold bindBlockParams
    cases hd : p.dflt with
    | none => dsimp only; tot_tac
    | some e => rw [hd, ExprOWf] at h1; dsimp only; tot_tac [hev]

theorem getRT_bind' {α} (f : RT → M α) (rt : RT) : (getRT >>= f) rt = f rt rt := rfl

theorem tot_yieldBody (hr : RecTot env r) (block : BlockN) (hb : StmtsWf block.body) (ctxE : Option Expr)
    (hx : ExprOWf ctxE) (content : Option (List Stmt)) (hc : StmtsOWf content) :
    Tot (yieldBody r env block ctxE content) := by
  have hev := hr.evalExpr
  have hl := hr.execList
  refine ⟨fun rt h => ?_⟩
  unfold yieldBody
  rw [getRT_bind']
  have hrun : Tot (match (generalizing := false) ctxE with
      | some e => do
        let nv ← r.evalExpr env e
        withCtxND nv (do let _ ← r.execList env block.body; pure ())
      | none => do
        let _ ← r.execList env block.body
        pure () : M Unit) := by
    cases ctxE with
    | none => dsimp only; tot_tac [hl]
    | some e => rw [ExprOWf] at hx; dsimp only; tot_tac [hev, hl]
  cases content with
  | none => dsimp only; exact tpost_withContentND _ hrun rt h h.content
  | some body =>
    rw [StmtsOWf] at hc
    dsimp only
    refine tpost_withContentND _ hrun rt h ?_
    intro c' hc'
    cases hc'
    exact (ClosureWf.mk_iff _ _ _).mpr ⟨hc, h.content⟩

theorem tot_executeYieldBlock (hr : RecTot env r) (loc : Loc) (block : BlockN) (hb : StmtsWf block.body)
    (bp yp : List Param) (hbp : ParamsWf bp) (hyp : ParamsWf yp) (ctxE : Option Expr) (hx : ExprOWf ctxE)
    (content : Option (List Stmt)) (hc : StmtsOWf content) :
    Tot (executeYieldBlock r env loc block bp yp ctxE content) := by
  have h1 := tot_bindYieldParams hr loc yp hyp
  have h2 := tot_bindBlockParams hr bp hbp
  have h3 := tot_yieldBody hr block hb ctxE hx content hc
  unfold executeYieldBlock
  tot_tac

variable {env : Env} {r : Rec}

theorem locateP_ok {α} (loc : Loc) (p : P α) (a : α) (h : locateP loc p = .ok a) : p = .ok a := by
  cases p with
  | ok x => exact h
  | error f =>
    cases f with
    | err e =>
      have hl : locateP loc (.error (.err e) : P α) =
          if e.located then .error (.err e) else .error (.err { e with located := true, loc := loc }) := rfl
      rw [hl] at h
      split at h <;> cases h
    | crash m => cases h
    | unsupported w => cases h

theorem totq_liftOpt {α} (w : String) (o : Option α) : TotQ (fun a => o = some a) (liftOpt w o : M α) := by
  cases o with
  | none => exact totq_unsupported w
  | some a => exact totq_pure a rfl

theorem tot_executeInclude (he : EnvWf env) (hr : RecTot env r) (loc : Loc) (nameE : Expr) (hn : ExprWf nameE)
    (ctxE : Option Expr) (hx : ExprOWf ctxE) : Tot (executeInclude r env loc nameE ctxE) := by
  have hev := hr.evalExpr
  have hl := hr.execList
  unfold executeInclude
  refine Tot.bind (hev nameE hn) fun nameV => ?_
  split
  · exact tot_errAt _ _
  · refine Tot.bind (by tot_tac) fun name => ?_
    refine TotQ.bind (totq_liftP (Q := fun t => TmplWf t) _ (ptot_locateP _ (ptot_getSibling _ _ _))
      (fun t ht => getSibling_wf he _ _ _ (locateP_ok _ _ _ ht))) fun t ht => ?_
    apply tot_withNewScopeD
    refine Tot.bind (tot_setBlocks _ ht.blocks) fun _ => ?_
    refine TotQ.bind (totq_liftOpt _ _) fun root hroot => ?_
    have hrw := (rootOf_wf he _ _ _ ht hroot).root
    cases ctxE with
    | none => dsimp only; exact hl _ hrw
    | some e => rw [ExprOWf] at hx; dsimp only; exact tot_withCtxD (hev e hx) (hl _ hrw)

/-- `index out of range` in a range header: the slot that is bound has a left side -/
theorem tot_rangeBind (hr : RecTot env r) (set : Option SetN) (slot : Option Nat) (v : Val)
    (h : ∀ st k, set = some st → slot = some k → ∃ l, st.left[k]? = some l ∧ RangeLeftOk st.isLet l) :
    Tot (rangeBind r env set slot v) := by
  unfold rangeBind
  split
  · rename_i k st
    obtain ⟨l, h1, h2⟩ := h st k rfl rfl
    rw [h1]
    dsimp only
    split
    · tot_tac
    · rename_i hlet
      rcases h2 with h2 | h2
      · exact absurd h2 hlet
      · split
        · exact tot_pure _
        · exact tot_executeSet hr l v h2
  · exact tot_pure _

theorem tot_rangeLoop (hr : RecTot env r) (set : Option SetN) (ks vs : Option Nat)
    (hks : ∀ st k, set = some st → ks = some k → ∃ l, st.left[k]? = some l ∧ RangeLeftOk st.isLet l)
    (hvs : ∀ st k, set = some st → vs = some k → ∃ l, st.left[k]? = some l ∧ RangeLeftOk st.isLet l)
    (body : List Stmt) (hb : StmtsWf body) (els : Option (List Stmt)) (hels : StmtsOWf els) :
    ∀ f st first, Tot (rangeLoop r env set ks vs body els f st first) := by
  have hl := hr.execList
  have hb1 := fun v => tot_rangeBind hr set ks v hks
  have hb2 := fun v => tot_rangeBind hr set vs v hvs
  have hel : Tot (match els with
      | some l => r.execList env l
      | none => pure .invalid) := by
    cases els with
    | none => exact tot_pure _
    | some l => exact hl l hels
  intro f
  induction f with
  | zero => intro st first; unfold rangeLoop; tot_tac
  | succ f ih => intro st first; unfold rangeLoop; tot_tac [hl, hb1, hb2, ih]

theorem tot_rangeCore (hr : RecTot env r) (loc : Loc) (set : Option SetN)
    (hset : ∀ st, set = some st → RangeSetWf st) (ex : Val)
    (body : List Stmt) (hb : StmtsWf body) (els : Option (List Stmt)) (hels : StmtsOWf els) :
    Tot (rangeCore r env loc set ex body els) := by
  unfold rangeCore
  dsimp only
  refine Tot.bind (tot_liftP _ (ptot_locateP _ (ptot_getRanger _))) fun rg => ?_
  apply tot_rangeLoop hr set _ _ _ _ body hb els hels
  · intro st k hs hk
    subst hs
    have hw := hset st rfl
    simp at hk
    subst hk
    cases hl : st.left with
    | nil => exact absurd hl hw.leftNe
    | cons l ls => exact ⟨l, rfl, hw.left l (by rw [hl]; exact List.mem_cons_self)⟩
  · intro st k hs hk
    subst hs
    have hw := hset st rfl
    simp at hk
    obtain ⟨hlen, rfl⟩ := hk
    have hlt : 1 < st.left.length := hlen
    exact ⟨st.left[1], List.getElem?_eq_getElem hlt, hw.left _ (List.getElem_mem hlt)⟩

/-- `index out of range [0] with length 0` / `nil expression in range` -/
theorem tot_execRange (hr : RecTot env r) (loc : Loc) (set : Option SetN) (e : Option Expr)
    (hh : RangeHeadWf set e) (body : List Stmt) (hb : StmtsWf body) (els : Option (List Stmt))
    (hels : StmtsOWf els) : Tot (execRange r env loc set e body els) := by
  have hev := hr.evalExpr
  unfold execRange
  cases set with
  | some st =>
    have hw : RangeSetWf st := hh
    obtain ⟨rgt, rest, h1, h2⟩ := hw.right
    have hc := fun ex => tot_rangeCore hr loc (some st) (fun st' h' => by cases h'; exact hw) ex body hb els hels
    dsimp only
    rw [h1]
    dsimp only
    tot_tac [hev, hc]
  | none =>
    cases e with
    | none => exact hh.elim
    | some ex =>
      have hw : ExprWf ex := hh
      have hc := fun v => tot_rangeCore hr loc none (fun st' h' => by cases h') v body hb els hels
      dsimp only
      tot_tac [hev, hc]

theorem tot_tryCatch (hr : RecTot env r) (hasCatch : Bool) (cv : Option Bytes)
    (cb : Option (List Stmt)) (hcb : StmtsOWf cb) (errVal : Val) : Tot (tryCatch r env hasCatch cv cb errVal) := by
  have hl := hr.execList
  have hrun : Tot (match cb with
      | some l => r.execList env l
      | none => pure .invalid) := by
    cases cb with
    | none => exact tot_pure _
    | some l => exact hl l hcb
  unfold tryCatch
  tot_tac

/-- `executeTry`: `recover()` swallows every panic of the body -/
theorem tot_executeTry (hr : RecTot env r) (body : List Stmt) (hbody : StmtsWf body) (hasCatch : Bool)
    (cv : Option Bytes) (cb : Option (List Stmt)) (hcb : StmtsOWf cb) :
    Tot (executeTry r env body hasCatch cv cb) := by
  refine ⟨fun rt h => ?_⟩
  unfold executeTry
  have hb := (hr.execList body hbody).post (tryStart rt) (h.congr rfl rfl)
  have handler : ∀ (errVal : Val) (rt2 : RT), RWF rt2 →
      TPost (fun _ => True) (tryCatch r env hasCatch cv cb errVal (tryReset rt rt2)) := by
    intro errVal rt2 k
    exact (tot_tryCatch hr hasCatch cv cb hcb errVal).post _ (k.mix h rfl rfl)
  cases hbr : r.execList env body (tryStart rt) with
  | ok v rt2 =>
    rw [hbr] at hb
    obtain ⟨a1, _, a3⟩ := appendTo_same { rt2 with writer := rt.writer } rt.writer (rt2.sink (rt.nbufs + 1)).reverse
    exact ⟨hb.1.congr a1 a3, trivial⟩
  | err e rt2 => rw [hbr] at hb; exact handler _ rt2 hb
  | crash s rt2 => rw [hbr] at hb; exact handler _ rt2 hb.2
  | fuel => trivial
  | unsupported w => trivial

theorem tot_actionSet (hr : RecTot env r) (b : Bool) (set : Option SetN) (hs : SetOWf set) :
    Tot (actionSet r env b set) := by
  cases set with
  | none => unfold actionSet; exact tot_pure _
  | some st =>
    have h1 := tot_executeAssign hr st hs
    unfold actionSet
    dsimp only
    tot_tac

theorem tot_actionPipe (he : EnvWf env) (hr : RecTot env r) (pipe : Option Pipe) (hp : PipeOWf pipe) :
    Tot (actionPipe r env pipe) := by
  cases pipe with
  | none => unfold actionPipe; exact tot_pure _
  | some p =>
    have h1 := tot_evalPipeline he hr p hp
    unfold actionPipe
    dsimp only
    tot_tac

theorem tot_ifBranches (hr : RecTot env r) (c : Expr) (hc : ExprWf c) (t : List Stmt) (ht : StmtsWf t)
    (e : Option (List Stmt)) (hels : StmtsOWf e) : Tot (ifBranches r env c t e) := by
  have hev := hr.evalExpr
  have hl := hr.execList
  unfold ifBranches
  cases e with
  | none => dsimp only; tot_tac [hev, hl]
  | some l => rw [StmtsOWf] at hels; dsimp only; tot_tac [hev, hl]

theorem tot_execIf (hr : RecTot env r) (set : Option SetN) (hs : SetOWf set) (c : Expr) (hc : ExprWf c)
    (t : List Stmt) (ht : StmtsWf t) (e : Option (List Stmt)) (hels : StmtsOWf e) :
    Tot (execIf r env set c t e) := by
  have h1 := tot_ifBranches hr c hc t ht e hels
  cases set with
  | none => unfold execIf; exact h1
  | some st =>
    have h2 := tot_executeAssign hr st hs
    unfold execIf
    dsimp only
    tot_tac

/-- `nil pointer dereference (yield without parameter list)`: only `yield content` lacks the list -/
theorem tot_execYield (hr : RecTot env r) (loc : Loc) (name : Bytes) (params : Option (List Param))
    (ctxE : Option Expr) (content : Option (List Stmt)) (isContent : Bool)
    (hp : isContent = false → params.isSome = true) (hps : ParamsOWf params) (hx : ExprOWf ctxE)
    (hc : StmtsOWf content) : Tot (execYield r env loc name params ctxE content isContent) := by
  unfold execYield
  split
  · refine ⟨fun rt h => ?_⟩
    rw [getRT_bind']
    cases hcn : rt.content with
    | none => exact ⟨h, trivial⟩
    | some c => exact tpost_invokeContent hr c ctxE hx rt h (h.content c hcn)
  · rename_i hic
    refine TotQ.bind (totq_getBlock name) fun o ho => ?_
    cases o with
    | none => exact tot_errAt _ _
    | some blk =>
      have hb := ho blk rfl
      cases params with
      | none => have := hp (by simpa using hic); cases this
      | some ps =>
        dsimp only
        exact tot_executeYieldBlock hr loc blk hb.body blk.params ps hb.params hps ctxE hx content hc

theorem tot_execBlock (hr : RecTot env r) (loc : Loc) (name : Bytes) (params : List Param) (hps : ParamsWf params)
    (ctxE : Option Expr) (hx : ExprOWf ctxE) (body : List Stmt) (hbd : StmtsWf body)
    (content : Option (List Stmt)) (hc : StmtsOWf content) :
    Tot (execBlock r env loc name params ctxE body content) := by
  unfold execBlock
  refine TotQ.bind (totq_getBlock name) fun o ho => ?_
  cases o with
  | none =>
    dsimp only
    exact tot_executeYieldBlock hr _ _ hbd _ _ hps hps _ hx _ hc
  | some blk =>
    have hb := ho blk rfl
    dsimp only
    exact tot_executeYieldBlock hr _ blk hb.body _ _ hb.params hb.params _ hb.ctx _ hb.content

theorem tot_execStmt (he : EnvWf env) (hr : RecTot env r) (b : Bool) (s : Stmt) (hw : StmtWf s) :
    Tot (execStmt r env b s) := by
  cases s with
  | text loc bts => unfold execStmt; dsimp only; tot_tac
  | action loc set pipe =>
    rw [StmtWf] at hw
    have h1 := tot_actionSet hr b set hw.1
    have h2 := tot_actionPipe he hr pipe hw.2
    unfold execStmt; dsimp only; tot_tac
  | ifS loc set cond thn els =>
    rw [StmtWf] at hw
    have h1 := tot_execIf hr set hw.1 cond hw.2.1 thn hw.2.2.1 els hw.2.2.2
    unfold execStmt; dsimp only; tot_tac
  | rangeS loc set e body els =>
    rw [StmtWf] at hw
    have h1 := tot_execRange hr loc set e hw.1 body hw.2.1 els hw.2.2
    unfold execStmt; dsimp only; tot_tac
  | block loc name params ctx body content =>
    rw [StmtWf] at hw
    have h1 := tot_execBlock hr loc name params hw.1 ctx hw.2.1 body hw.2.2.1 content hw.2.2.2
    unfold execStmt; dsimp only; tot_tac
  | yield loc name params ctx content isContent =>
    rw [StmtWf] at hw
    have h1 := tot_execYield hr loc name params ctx content isContent hw.1 hw.2.1 hw.2.2.1 hw.2.2.2
    unfold execStmt; dsimp only; tot_tac
  | «include» loc name ctx =>
    rw [StmtWf] at hw
    have h1 := tot_executeInclude he hr loc name hw.1 ctx hw.2
    unfold execStmt; dsimp only; tot_tac
  | tryS loc body hc cv cb =>
    rw [StmtWf] at hw
    have h1 := tot_executeTry hr body hw.1 hc cv cb hw.2
    unfold execStmt; dsimp only; tot_tac
  | ret loc e =>
    rw [StmtWf] at hw
    have h1 := hr.evalExpr e hw
    unfold execStmt; dsimp only; tot_tac

theorem tpost_execListGo (he : EnvWf env) (hr : RecTot env r) :
    ∀ (l : List Stmt) (rv : Val) (b : Bool) (rt : RT), StmtsWf l → RWF rt →
      TPost (fun _ => True) (execListGo r env l rv b rt) := by
  intro l
  induction l with
  | nil => intro rv b rt _ h; exact ⟨h, trivial⟩
  | cons s rest ih =>
    intro rv b rt hw h
    rw [StmtsWf] at hw
    unfold execListGo
    have h1 := (tot_execStmt he hr b s hw.1).post rt h
    cases hs : execStmt r env b s rt with
    | ok x rt1 =>
      rw [hs] at h1
      obtain ⟨ret, rv2, ins⟩ := x
      dsimp only
      exact ih _ ins rt1 hw.2 h1.1
    | err e rt1 =>
      rw [hs] at h1
      dsimp only
      split
      · exact rwf_popScope h1
      · exact h1
    | crash m rt1 =>
      rw [hs] at h1
      dsimp only
      refine ⟨h1.1, ?_⟩
      split
      · exact rwf_popScope h1.2
      · exact h1.2
    | fuel => trivial
    | unsupported w => trivial

theorem tot_execListF (he : EnvWf env) (hr : RecTot env r) (l : List Stmt) (hw : StmtsWf l) :
    Tot (execListF r env l) := by
  refine ⟨fun rt h => ?_⟩
  unfold execListF
  have h1 := tpost_execListGo he hr l .invalid false rt hw h
  cases hg : execListGo r env l .invalid false rt with
  | ok x rt1 =>
    rw [hg] at h1
    obtain ⟨v, ins⟩ := x
    dsimp only
    refine ⟨?_, trivial⟩
    split
    · exact rwf_popScope h1.1
    · exact h1.1
  | err e rt1 => rw [hg] at h1; exact h1
  | crash m rt1 => rw [hg] at h1; exact h1
  | fuel => trivial
  | unsupported w => trivial

/-- one level of the interpreter preserves the invariant -/
theorem recTot_step (he : EnvWf env) (hr : RecTot env r) : RecTot env (stepRec r) :=
  ⟨fun e hw => tot_evalExprF he hr e hw, fun l hw => tot_execListF he hr l hw,
   fun e hw => tot_isSetF hr e hw, fun _ => totq_errAt _ _⟩

/-- the invariant holds at every fuel level -/
theorem recTot_recAt (he : EnvWf env) : ∀ n, RecTot env (recAt n)
  | 0 => recTot_bottom env
  | n + 1 => recTot_step he (recTot_recAt he n)

end JetVerif.Eval
