/-
  Every function of the evaluator model satisfies `Good` (see EvalInv.lean), for every level of
  the fuel-indexed recursion.
-/
import JetVerif.Lemmas.EvalInv

namespace JetVerif.Eval

structure RecGood (r : Rec) : Prop where
  evalExpr : ∀ env e, Good (r.evalExpr env e)
  execList : ∀ env l, Good (r.execList env l)
  isSetE : ∀ env e, Good (r.isSetE env e)

theorem recGood_bottom : RecGood Rec.bottom :=
  ⟨fun _ _ => good_outOfFuel, fun _ _ => good_outOfFuel, fun _ _ => good_outOfFuel⟩

/-- closes `Good` goals built from binds, ifs and matches over known-good pieces -/
macro "good_tac" : tactic => `(tactic| repeat (first
  | exact good_pure _
  | exact good_fail _
  | exact good_crash _
  | exact good_unsupported _
  | exact good_errAt _ _
  | exact good_errPlain _
  | exact good_throwErr _
  | exact good_outOfFuel
  | exact good_liftP _
  | exact good_liftOpt _ _
  | exact good_getRT
  | exact good_letVar _ _
  | exact good_setBlocks _
  | exact good_setValue _ _
  | exact good_getBlock _
  | exact good_resolve _ _
  | exact good_logE _
  | exact good_writeLit _
  | exact good_printEscaped _ _
  | exact good_printSafe _ _
  | assumption
  | apply_assumption
  | apply Good.bind
  | (show ∀ _, Good _; intro _)
  | split))

variable {r : Rec}

theorem good_Args_exprAt (hr : RecGood r) (env : Env) (a : Args) (j : Nat) : Good (a.exprAt r env j) := by
  have he := hr.evalExpr env
  unfold Args.exprAt
  good_tac

theorem good_Args_get (hr : RecGood r) (env : Env) (a : Args) (i : Nat) : Good (a.get r env i) := by
  have he := good_Args_exprAt hr env a
  unfold Args.get
  good_tac

theorem good_Args_isSetAt (hr : RecGood r) (env : Env) (a : Args) (j : Nat) : Good (a.isSetAt r env j) := by
  have he := hr.isSetE env
  unfold Args.isSetAt
  good_tac

theorem good_Args_isSet (hr : RecGood r) (env : Env) (a : Args) (i : Nat) : Good (a.isSet r env i) := by
  have he := good_Args_isSetAt hr env a
  unfold Args.isSet
  good_tac

end JetVerif.Eval
