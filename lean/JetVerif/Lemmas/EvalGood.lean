/-
  Every function of the evaluator model satisfies `Good` (see EvalInv.lean), for every level of
  the fuel-indexed recursion.
-/
import JetVerif.Lemmas.EvalInv

namespace JetVerif.Eval

structure RecGood (r : Rec) : Prop where
  evalExpr : ∀ env e, Good (r.evalExpr env e)
  execList : ∀ env l, Good (r.execList env l)
  isSetE : ∀ env e, Good (r.isSetE env e)

theorem recGood_bottom : RecGood Rec.bottom :=
  ⟨fun _ _ => good_outOfFuel, fun _ _ => good_outOfFuel, fun _ _ => good_outOfFuel⟩

/-- closes `Good` goals built from binds, ifs and matches over known-good pieces -/
macro "good_step" : tactic => `(tactic| with_reducible (first
  | exact good_pure _
  | exact good_fail _
  | exact good_crash _
  | exact good_unsupported _
  | exact good_errAt _ _
  | exact good_errPlain _
  | exact good_throwErr _
  | exact good_outOfFuel
  | exact good_liftP _
  | exact good_liftOpt _ _
  | exact good_getRT
  | exact good_letVar _ _
  | exact good_setBlocks _
  | exact good_letGlobal _ _
  | exact good_setValue _ _
  | exact good_getBlock _
  | exact good_resolve _ _
  | exact good_logE _
  | exact good_writeLit _
  | exact good_printEscaped _ _
  | exact good_printSafe _ _
  | apply Good.bind
  | apply good_withNewScopeD
  | apply good_withNewScopeND
  | apply good_withCtxND
  | apply good_withContentND
  | apply good_withScopeContentND
  | apply good_withScopeContentD
  | apply good_withCtxD
  | apply good_withWriterD_discard
  | intro _))

syntax "good_tac" (" [" term,* "]")? : tactic
macro_rules
  | `(tactic| good_tac) => `(tactic| repeat (first | good_step | split | dsimp only))
  | `(tactic| good_tac [$h0]) => `(tactic| repeat (first | good_step | (with_reducible apply $h0) | split | dsimp only))
  | `(tactic| good_tac [$h0, $h1]) => `(tactic| repeat (first | good_step | (with_reducible apply $h0) | (with_reducible apply $h1) | split | dsimp only))
  | `(tactic| good_tac [$h0, $h1, $h2]) => `(tactic| repeat (first | good_step | (with_reducible apply $h0) | (with_reducible apply $h1) | (with_reducible apply $h2) | split | dsimp only))
  | `(tactic| good_tac [$h0, $h1, $h2, $h3]) => `(tactic| repeat (first | good_step | (with_reducible apply $h0) | (with_reducible apply $h1) | (with_reducible apply $h2) | (with_reducible apply $h3) | split | dsimp only))
  | `(tactic| good_tac [$h0, $h1, $h2, $h3, $h4]) => `(tactic| repeat (first | good_step | (with_reducible apply $h0) | (with_reducible apply $h1) | (with_reducible apply $h2) | (with_reducible apply $h3) | (with_reducible apply $h4) | split | dsimp only))
  | `(tactic| good_tac [$h0, $h1, $h2, $h3, $h4, $h5]) => `(tactic| repeat (first | good_step | (with_reducible apply $h0) | (with_reducible apply $h1) | (with_reducible apply $h2) | (with_reducible apply $h3) | (with_reducible apply $h4) | (with_reducible apply $h5) | split | dsimp only))
  | `(tactic| good_tac [$h0, $h1, $h2, $h3, $h4, $h5, $h6]) => `(tactic| repeat (first | good_step | (with_reducible apply $h0) | (with_reducible apply $h1) | (with_reducible apply $h2) | (with_reducible apply $h3) | (with_reducible apply $h4) | (with_reducible apply $h5) | (with_reducible apply $h6) | split | dsimp only))

variable {r : Rec}

theorem good_Args_exprAt (hr : RecGood r) (env : Env) (a : Args) (j : Nat) : Good (a.exprAt r env j) := by
  have he := hr.evalExpr env
  unfold Args.exprAt
  good_tac [he]

theorem good_Args_get (hr : RecGood r) (env : Env) (a : Args) (i : Nat) : Good (a.get r env i) := by
  have he := good_Args_exprAt hr env a
  unfold Args.get
  good_tac [he]

theorem good_Args_isSetAt (hr : RecGood r) (env : Env) (a : Args) (j : Nat) : Good (a.isSetAt r env j) := by
  have he := hr.isSetE env
  unfold Args.isSetAt
  good_tac [he]

theorem good_Args_isSet (hr : RecGood r) (env : Env) (a : Args) (i : Nat) : Good (a.isSet r env i) := by
  have he := good_Args_isSetAt hr env a
  unfold Args.isSet
  good_tac [he]

theorem good_evalArgsLoop (hr : RecGood r) (env : Env) (sig : Sig) (a : Args) :
    ∀ es slot acc, Good (evalArgsLoop r env sig a es slot acc) := by
  have he := hr.evalExpr env
  intro es
  induction es with
  | nil => intro slot acc; unfold evalArgsLoop; good_tac
  | cons e rest ih =>
    intro slot acc
    unfold evalArgsLoop
    good_tac [he, ih]

theorem good_evaluateArgs (hr : RecGood r) (env : Env) (sig : Sig) (a : Args) :
    Good (evaluateArgs r env sig a) := by
  have hl := good_evalArgsLoop hr env sig a
  unfold evaluateArgs
  good_tac [hl]

theorem good_issetLoop (hr : RecGood r) (env : Env) (a : Args) : ∀ f i, Good (issetLoop r env a f i) := by
  have hs := good_Args_isSet hr env a
  intro f
  induction f with
  | zero => intro i; unfold issetLoop; good_tac
  | succ f ih => intro i; unfold issetLoop; good_tac [hs, ih]

theorem good_sliceLoop (hr : RecGood r) (env : Env) (a : Args) : ∀ f i acc, Good (sliceLoop r env a f i acc) := by
  have hg := good_Args_get hr env a
  intro f
  induction f with
  | zero => intro i acc; unfold sliceLoop; good_tac
  | succ f ih => intro i acc; unfold sliceLoop; good_tac [hg, ih]

theorem good_mapLoop (hr : RecGood r) (env : Env) (a : Args) : ∀ f i acc, Good (mapLoop r env a f i acc) := by
  have hg := good_Args_get hr env a
  intro f
  induction f with
  | zero => intro i acc; unfold mapLoop; good_tac
  | succ f ih => intro i acc; unfold mapLoop; good_tac [hg, ih]

theorem good_recLoop (hr : RecGood r) (env : Env) (a : Args) : ∀ f i acc, Good (recLoop r env a f i acc) := by
  have hg := good_Args_get hr env a
  intro f
  induction f with
  | zero => intro i acc; unfold recLoop; good_tac
  | succ f ih => intro i acc; unfold recLoop; good_tac [hg, ih]

theorem good_execBuiltin (hr : RecGood r) (env : Env) (isExec : Bool) (a : Args) :
    Good (execBuiltin r env isExec a) := by
  have hg := good_Args_get hr env a
  have hl := hr.execList env
  unfold execBuiltin
  good_tac [hg, hl]

theorem good_yieldBlockApi (hr : RecGood r) (env : Env) (name : Bytes) (ctx : Val) :
    Good (yieldBlockApi r env name ctx) := by
  have hl := hr.execList env
  unfold yieldBlockApi
  good_tac [hl]

theorem good_recsetLoop (hr : RecGood r) (env : Env) (a : Args) :
    ∀ fuel i acc, Good (recsetLoop r env a fuel i acc) := by
  have hs := good_Args_isSet hr env a
  intro fuel
  induction fuel with
  | zero => intro i acc; unfold recsetLoop; good_tac
  | succ f ih => intro i acc; unfold recsetLoop; good_tac [hs, ih]

theorem good_parse3Func (hr : RecGood r) (env : Env) (a : Args) : Good (parse3Func r env a) := by
  have hg := good_Args_get hr env a
  unfold parse3Func
  good_tac [hg]

theorem good_applyApiFunc (hr : RecGood r) (env : Env) (id : String) (a : Args) :
    Good (applyApiFunc r env id a) := by
  have hg := good_Args_get hr env a
  have hy := good_yieldBlockApi hr env
  have hrs := good_recsetLoop hr env a
  have hp := good_parse3Func hr env a
  unfold applyApiFunc
  dsimp only
  good_tac [hg, hy, hrs, hp]

set_option maxHeartbeats 1600000 in
theorem good_applyJetFunc (hr : RecGood r) (env : Env) (id : String) (a : Args) :
    Good (applyJetFunc r env id a) := by
  have hg := good_Args_get hr env a
  have h1 := good_issetLoop hr env a
  have h2 := good_sliceLoop hr env a
  have h3 := good_mapLoop hr env a
  have h4 := good_recLoop hr env a
  have h5 := good_execBuiltin hr env
  have h6 := good_applyApiFunc hr env
  unfold applyJetFunc
  dsimp only
  repeat (first | split | good_step | (with_reducible apply hg) | (with_reducible apply h1) | (with_reducible apply h2) | (with_reducible apply h3) | (with_reducible apply h4) | (with_reducible apply h5) | (with_reducible apply h6))

theorem good_modify_log (f : List LogE → List LogE) :
    Good (modifyRT fun rt => { rt with log := f rt.log }) := by
  apply good_modify; intro rt; simp

theorem good_callValue (hr : RecGood r) (env : Env) (fn : Val) (a : Args) : Good (callValue r env fn a) := by
  have h1 := good_applyJetFunc hr env
  have h2 := good_evaluateArgs hr env
  have h3 : ∀ logs : List LogE, Good (modifyRT fun rt => { rt with log := logs.reverse ++ rt.log }) :=
    fun logs => good_modify_log (fun l => logs.reverse ++ l)
  unfold callValue
  good_tac [h1, h2, h3]

theorem good_callAt (hr : RecGood r) (env : Env) (loc : Loc) (fn : Val) (a : Args) :
    Good (callAt r env loc fn a) := by
  have h1 := good_callValue hr env
  unfold callAt
  good_tac [h1]

theorem good_evalExprF (hr : RecGood r) (env : Env) (e : Expr) : Good (evalExprF r env e) := by
  have he := hr.evalExpr env
  have hc := good_callAt hr env
  have hres := good_resolve env
  unfold evalExprF
  good_tac [he, hc, hres]

theorem good_isSetBody (hr : RecGood r) (env : Env) (e : Expr) : Good (isSetBody r env e) := by
  have he := hr.evalExpr env
  have hs := hr.isSetE env
  have hres := good_resolve env
  unfold isSetBody
  good_tac [he, hs, hres]

theorem good_isSetF (hr : RecGood r) (env : Env) (e : Expr) : Good (isSetF r env e) :=
  good_recoverFalse (good_isSetBody hr env e)

theorem good_executeSet (hr : RecGood r) (env : Env) (l : Expr) (v : Val) : Good (executeSet r env l v) := by
  have he := hr.evalExpr env
  unfold executeSet
  good_tac [he]

theorem good_assignOne (hr : RecGood r) (env : Env) (isLet : Bool) (l : Expr) (v : Val) :
    Good (assignOne r env isLet l v) := by
  have h1 := good_executeSet hr env
  unfold assignOne
  good_tac [h1]

theorem good_assignLoop (hr : RecGood r) (env : Env) (isLet : Bool) :
    ∀ ls rs, Good (assignLoop r env isLet ls rs) := by
  have he := hr.evalExpr env
  have h1 := good_assignOne hr env isLet
  intro ls
  induction ls with
  | nil => intro rs; unfold assignLoop; good_tac
  | cons l ls ih =>
    intro rs
    cases rs with
    | nil => unfold assignLoop; good_tac
    | cons rgt rs => unfold assignLoop; good_tac [he, h1, ih]

theorem good_executeAssign (hr : RecGood r) (env : Env) (s : SetN) : Good (executeAssign r env s) := by
  have he := hr.evalExpr env
  have h1 := good_assignOne hr env s.isLet
  have h2 := good_assignLoop hr env s.isLet
  unfold executeAssign
  good_tac [he, h1, h2]

theorem good_safeWriterLoop (hr : RecGood r) (env : Env) (sw : String) :
    ∀ es, Good (safeWriterLoop r env sw es) := by
  have he := hr.evalExpr env
  intro es
  induction es with
  | nil => unfold safeWriterLoop; good_tac
  | cons e rest ih => unfold safeWriterLoop; good_tac [he, ih]

theorem good_evalSafeWriter (hr : RecGood r) (env : Env) (sw : String) (piped : Option Val) (args : List Expr) :
    Good (evalSafeWriter r env sw piped args) := by
  have h1 := good_safeWriterLoop hr env sw
  unfold evalSafeWriter
  good_tac [h1]

theorem good_evalCommand (hr : RecGood r) (env : Env) (c : Cmd) : Good (evalCommand r env c) := by
  have he := hr.evalExpr env
  have h1 := good_evalSafeWriter hr env
  have h2 := good_callAt hr env
  unfold evalCommand
  good_tac [he, h1, h2]

theorem good_evalCommandPipe (hr : RecGood r) (env : Env) (c : Cmd) (v : Val) :
    Good (evalCommandPipe r env c v) := by
  have he := hr.evalExpr env
  have h1 := good_evalSafeWriter hr env
  have h2 := good_callAt hr env
  unfold evalCommandPipe
  good_tac [he, h1, h2]

theorem good_pipelineLoop (hr : RecGood r) (env : Env) : ∀ cs acc, Good (pipelineLoop r env acc cs) := by
  have h1 := good_evalCommandPipe hr env
  intro cs
  induction cs with
  | nil => intro acc; unfold pipelineLoop; good_tac
  | cons c cs ih => intro acc; unfold pipelineLoop; good_tac [h1, ih]

theorem good_evalPipeline (hr : RecGood r) (env : Env) (p : Pipe) : Good (evalPipeline r env p) := by
  have h1 := good_evalCommand hr env
  have h2 := good_pipelineLoop hr env
  unfold evalPipeline
  good_tac [h1, h2]

theorem good_invokeContent (hr : RecGood r) (env : Env) (c : Closure) (ctxE : Option Expr) :
    Good (invokeContent r env c ctxE) := by
  have he := hr.evalExpr env
  have hl := hr.execList env
  unfold invokeContent
  good_tac [he, hl]

theorem good_bindYieldParams (hr : RecGood r) (env : Env) (loc : Loc) :
    ∀ ps, Good (bindYieldParams r env loc ps) := by
  have he := hr.evalExpr env
  intro ps
  induction ps with
  | nil => unfold bindYieldParams; good_tac
  | cons p ps ih => unfold bindYieldParams; good_tac [he, ih]

theorem good_bindBlockParams (hr : RecGood r) (env : Env) : ∀ ps, Good (bindBlockParams r env ps) := by
  have he := hr.evalExpr env
  intro ps
  induction ps with
  | nil => unfold bindBlockParams; good_tac
  | cons p ps ih => unfold bindBlockParams; good_tac [he, ih]

theorem good_yieldBody (hr : RecGood r) (env : Env) (block : BlockN) (ctxE : Option Expr)
    (content : Option (List Stmt)) : Good (yieldBody r env block ctxE content) := by
  have he := hr.evalExpr env
  have hl := hr.execList env
  unfold yieldBody
  good_tac [he, hl]

theorem good_executeYieldBlock (hr : RecGood r) (env : Env) (loc : Loc) (block : BlockN)
    (bp yp : List Param) (ctxE : Option Expr) (content : Option (List Stmt)) :
    Good (executeYieldBlock r env loc block bp yp ctxE content) := by
  have h1 := good_bindYieldParams hr env loc
  have h2 := good_bindBlockParams hr env
  have h3 := good_yieldBody hr env
  unfold executeYieldBlock
  good_tac [h1, h2, h3]

theorem good_executeInclude (hr : RecGood r) (env : Env) (loc : Loc) (nameE : Expr) (ctxE : Option Expr) :
    Good (executeInclude r env loc nameE ctxE) := by
  have he := hr.evalExpr env
  have hl := hr.execList env
  unfold executeInclude
  good_tac [he, hl]

theorem good_rangeBind (hr : RecGood r) (env : Env) (set : Option SetN) (slot : Option Nat) (v : Val) :
    Good (rangeBind r env set slot v) := by
  have h1 := good_executeSet hr env
  unfold rangeBind
  good_tac [h1]

theorem good_rangeLoop (hr : RecGood r) (env : Env) (set : Option SetN) (ks vs : Option Nat)
    (body : List Stmt) (els : Option (List Stmt)) :
    ∀ f st first, Good (rangeLoop r env set ks vs body els f st first) := by
  have hl := hr.execList env
  have hb := good_rangeBind hr env set
  intro f
  induction f with
  | zero => intro st first; unfold rangeLoop; good_tac
  | succ f ih => intro st first; unfold rangeLoop; good_tac [hl, hb, ih]

theorem good_rangeCore (hr : RecGood r) (env : Env) (loc : Loc) (set : Option SetN) (ex : Val)
    (body : List Stmt) (els : Option (List Stmt)) : Good (rangeCore r env loc set ex body els) := by
  have h1 := good_rangeLoop hr env set
  unfold rangeCore
  good_tac [h1]

theorem good_execRange (hr : RecGood r) (env : Env) (loc : Loc) (set : Option SetN) (e : Option Expr)
    (body : List Stmt) (els : Option (List Stmt)) : Good (execRange r env loc set e body els) := by
  have he := hr.evalExpr env
  have h1 := good_rangeCore hr env loc set
  unfold execRange
  good_tac [he, h1]

theorem good_tryCatch (hr : RecGood r) (env : Env) (hasCatch : Bool) (cv : Option Bytes)
    (cb : Option (List Stmt)) (errVal : Val) : Good (tryCatch r env hasCatch cv cb errVal) := by
  have hl := hr.execList env
  unfold tryCatch
  good_tac [hl]

theorem wf_tryStart (rt : RT) : WF (tryStart rt) := by
  intro k hk
  simp [tryStart, Wr.idx] at hk
  subst hk
  exact Nat.le_refl _

/-- every sink that existed before the try is untouched by the body -/
theorem tryStart_old_untouched {rt rt2 : RT} (e : Ext (tryStart rt) rt2) (k : Nat) (hk : k ≤ rt.nbufs) :
    rt2.sink k = rt.sink k := by
  have h1 : rt2.sink k = (tryStart rt).sink k := by
    apply e.other k
    · simp [tryStart]; omega
    · simp [tryStart, Wr.idx]; omega
  rw [h1]
  have : k ≠ rt.nbufs + 1 := by omega
  simp [tryStart, this]

theorem tryStart_nbufs {rt rt2 : RT} (e : Ext (tryStart rt) rt2) : rt.nbufs ≤ rt2.nbufs := by
  have := e.nbufs
  simp [tryStart] at this
  omega

/-- after a failed body, nothing of it is visible: sinks, scope, context, content, writer -/
theorem tryReset_ext {rt rt2 : RT} (hwf : WF rt) (e : Ext (tryStart rt) rt2) :
    Ext rt (tryReset rt rt2) ∧ Rest rt (tryReset rt rt2) := by
  have hn : rt.nbufs ≤ rt2.nbufs := tryStart_nbufs e
  have ho : ∀ k, k ≤ rt.nbufs → rt2.sink k = rt.sink k := fun k hk => tryStart_old_untouched e k hk
  refine ⟨⟨rfl, hn, ?_, ?_⟩, ⟨rfl, rfl, rfl⟩⟩
  · intro k hk
    exact ⟨[], by simp [tryReset, ho k (hwf k hk)]⟩
  · intro k hk _
    simp [tryReset, ho k hk]

/-- copying the try buffer to the saved destination extends exactly that destination -/
theorem tryCopy_ext {rt rt2 : RT} (hwf : WF rt) (e : Ext (tryStart rt) rt2) (cs : List Chunk) :
    Ext rt (appendTo { rt2 with writer := rt.writer } rt.writer cs) := by
  have hn : rt.nbufs ≤ rt2.nbufs := tryStart_nbufs e
  have ho : ∀ k, k ≤ rt.nbufs → rt2.sink k = rt.sink k := fun k hk => tryStart_old_untouched e k hk
  unfold appendTo
  split
  · rename_i hidx
    refine ⟨rfl, hn, ?_, ?_⟩
    · intro k hk; rw [hidx] at hk; cases hk
    · intro k hk _; exact ho k hk
  · rename_i kw hidx
    refine ⟨rfl, hn, ?_, ?_⟩
    · intro k hk
      rw [hidx] at hk; cases hk
      exact ⟨cs.reverse, by simp [ho kw (hwf kw hidx)]⟩
    · intro k hk hne
      rw [hidx] at hne
      have : k ≠ kw := fun h => hne (by rw [h])
      simp [this, ho k hk]

theorem appendTo_rest (rt : RT) (w : Wr) (cs : List Chunk) :
    (appendTo rt w cs).scope = rt.scope ∧ (appendTo rt w cs).ctx = rt.ctx ∧ (appendTo rt w cs).content = rt.content := by
  unfold appendTo
  split <;> exact ⟨rfl, rfl, rfl⟩

/-- `executeTry`: whatever happens in the body, the statement as a whole extends only the current
    destination and restores scope, context and content -/
theorem good_executeTry (hr : RecGood r) (env : Env) (body : List Stmt) (hasCatch : Bool)
    (cv : Option Bytes) (cb : Option (List Stmt)) : Good (executeTry r env body hasCatch cv cb) := by
  have hl := hr.execList env
  refine ⟨fun rt hwf => ?_⟩
  unfold executeTry
  have hb := (hl body).post (tryStart rt) (wf_tryStart rt)
  have handler : ∀ (errVal : Val) (rt2 : RT), Ext (tryStart rt) rt2 →
      Post rt (tryCatch r env hasCatch cv cb errVal (tryReset rt rt2)) := by
    intro errVal rt2 e
    obtain ⟨eb, rb⟩ := tryReset_ext hwf e
    have hp := (good_tryCatch hr env hasCatch cv cb errVal).post _ (eb.wf hwf)
    cases hres : tryCatch r env hasCatch cv cb errVal (tryReset rt rt2) with
    | ok v rt3 => rw [hres] at hp; exact ⟨eb.trans hp.1, rb.trans hp.2⟩
    | err e3 rt3 => rw [hres] at hp; exact eb.trans hp
    | crash s rt3 => rw [hres] at hp; exact eb.trans hp
    | fuel => trivial
    | unsupported w => trivial
  cases hbr : r.execList env body (tryStart rt) with
  | ok v rt2 =>
    rw [hbr] at hb
    -- success: the buffer is copied to the saved destination
    have hs : rt2.scope = rt.scope := hb.2.scope
    have hc : rt2.ctx = rt.ctx := hb.2.ctx
    have hct : rt2.content = rt.content := hb.2.content
    obtain ⟨a1, a2, a3⟩ := appendTo_rest { rt2 with writer := rt.writer } rt.writer (rt2.sink (rt.nbufs + 1)).reverse
    exact ⟨tryCopy_ext hwf hb.1 _, ⟨a1.trans hs, a2.trans hc, a3.trans hct⟩⟩
  | err e rt2 => rw [hbr] at hb; exact handler _ rt2 hb
  | crash s rt2 => rw [hbr] at hb; exact handler _ rt2 hb
  | fuel => trivial
  | unsupported w => trivial

theorem good_actionPipe (hr : RecGood r) (env : Env) (pipe : Option Pipe) : Good (actionPipe r env pipe) := by
  have h1 := good_evalPipeline hr env
  unfold actionPipe
  good_tac [h1]

/-- relation between the let-scope flag of a list and its scope chain -/
def OpenRel (b b' : Bool) (rt rt' : RT) : Prop :=
  (b' = b ∧ rt'.scope = rt.scope) ∨ (b = false ∧ b' = true ∧ rt'.scope.tail = rt.scope)

def PostOpen (b : Bool) (rt : RT) : Res Bool → Prop
  | .ok b' rt' => Ext rt rt' ∧ rt'.ctx = rt.ctx ∧ rt'.content = rt.content ∧ OpenRel b b' rt rt'
  | .err _ rt' => Ext rt rt'
  | .crash _ rt' => Ext rt rt'
  | _ => True

theorem post_actionSet (hr : RecGood r) (env : Env) (b : Bool) (set : Option SetN) (rt : RT) (hwf : WF rt) :
    PostOpen b rt (actionSet r env b set rt) := by
  have ha := good_executeAssign hr env
  unfold actionSet
  -- a Good computation followed by `pure c` keeps the scope chain
  have keep : ∀ (m : M Unit) (c : Bool), Good m → c = b → PostOpen b rt ((do m; pure c : M Bool) rt) := by
    intro m c hm hc
    have h := hm.post rt hwf
    cases hmr : m rt with
    | ok u rt' =>
      rw [hmr] at h
      rw [bind_ok hmr]
      exact ⟨h.1, h.2.ctx, h.2.content, .inl ⟨hc, h.2.scope⟩⟩
    | err e rt' => rw [hmr] at h; rw [bind_err hmr]; exact h
    | crash s rt' => rw [hmr] at h; rw [bind_crash hmr]; exact h
    | fuel => rw [bind_fuel hmr]; trivial
    | unsupported w => rw [bind_unsupported hmr]; trivial
  cases set with
  | none => exact ⟨Ext.refl rt, rfl, rfl, .inl ⟨rfl, rfl⟩⟩
  | some st =>
    dsimp only
    split
    · split
      · -- opens the list's scope
        rename_i hb
        have hbf : b = false := by cases b <;> simp_all
        rcases newScope_cases rt with ⟨rt1, hn, hs, hsame⟩ | ⟨s, hn⟩
        · rw [bind_ok hn]
          have h := (ha st).post rt1 (hsame.wf hwf)
          cases hmr : executeAssign r env st rt1 with
          | ok u rt2 =>
            rw [hmr] at h
            rw [bind_ok hmr]
            refine ⟨Ext.of_left hsame h.1, ?_, ?_, .inr ⟨hbf, rfl, ?_⟩⟩
            · show rt2.ctx = rt.ctx; rw [h.2.ctx, hsame.1]
            · show rt2.content = rt.content; rw [h.2.content, hsame.2.1]
            · show rt2.scope.tail = rt.scope; rw [h.2.scope, hs]
          | err e rt2 => rw [hmr] at h; rw [bind_err hmr]; exact Ext.of_left hsame h
          | crash s rt2 => rw [hmr] at h; rw [bind_crash hmr]; exact Ext.of_left hsame h
          | fuel => rw [bind_fuel hmr]; trivial
          | unsupported w => rw [bind_unsupported hmr]; trivial
        · rw [bind_crash hn]; exact Ext.refl rt
      · rename_i hb
        have hbt : b = true := by cases b <;> simp_all
        exact keep _ true (ha st) hbt.symm
    · exact keep _ b (ha st) rfl

def PostStmt (b : Bool) (rt : RT) : Res (Val × Val × Bool) → Prop
  | .ok x rt' => Ext rt rt' ∧ rt'.ctx = rt.ctx ∧ rt'.content = rt.content ∧ OpenRel b x.2.2 rt rt'
  | .err _ rt' => Ext rt rt'
  | .crash _ rt' => Ext rt rt'
  | _ => True

/-- a statement that is `Good` and hands the flag through unchanged -/
theorem postStmt_of_good {m : M Val} (hm : Good m) (f : Val → Val × Val) (b : Bool) (rt : RT) (hwf : WF rt) :
    PostStmt b rt ((do let v ← m; pure ((f v).1, (f v).2, b) : M (Val × Val × Bool)) rt) := by
  have h := hm.post rt hwf
  cases hmr : m rt with
  | ok v rt' =>
    rw [hmr] at h; rw [bind_ok hmr]
    exact ⟨h.1, h.2.ctx, h.2.content, .inl ⟨rfl, h.2.scope⟩⟩
  | err e rt' => rw [hmr] at h; rw [bind_err hmr]; exact h
  | crash s rt' => rw [hmr] at h; rw [bind_crash hmr]; exact h
  | fuel => rw [bind_fuel hmr]; trivial
  | unsupported w => rw [bind_unsupported hmr]; trivial

theorem good_ifBranches (hr : RecGood r) (env : Env) (c : Expr) (t : List Stmt) (e : Option (List Stmt)) :
    Good (ifBranches r env c t e) := by
  have he := hr.evalExpr env
  have hl := hr.execList env
  unfold ifBranches
  good_tac [he, hl]

theorem good_execIf (hr : RecGood r) (env : Env) (set : Option SetN) (c : Expr) (t : List Stmt)
    (e : Option (List Stmt)) : Good (execIf r env set c t e) := by
  have h1 := good_ifBranches hr env
  have h2 := good_executeAssign hr env
  unfold execIf
  good_tac [h1, h2]

theorem good_execYield (hr : RecGood r) (env : Env) (loc : Loc) (name : Bytes) (params : Option (List Param))
    (ctxE : Option Expr) (content : Option (List Stmt)) (isContent : Bool) :
    Good (execYield r env loc name params ctxE content isContent) := by
  have h1 := good_invokeContent hr env
  have h2 := good_executeYieldBlock hr env
  unfold execYield
  good_tac [h1, h2]

theorem good_execBlock (hr : RecGood r) (env : Env) (loc : Loc) (name : Bytes) (params : List Param)
    (ctxE : Option Expr) (body : List Stmt) (content : Option (List Stmt)) :
    Good (execBlock r env loc name params ctxE body content) := by
  have h2 := good_executeYieldBlock hr env
  unfold execBlock
  good_tac [h2]

/-- a `Good` computation whose result is mapped to a statement result with the flag unchanged -/
theorem postStmt_map {α} {m : M α} (hm : Good m) (k : α → Val × Val × Bool) (b : Bool)
    (hk : ∀ a, (k a).2.2 = b) (rt : RT) (hwf : WF rt) :
    PostStmt b rt ((m >>= fun a => pure (k a)) rt) := by
  have h := hm.post rt hwf
  cases hmr : m rt with
  | ok v rt' =>
    rw [hmr] at h; rw [bind_ok hmr]
    exact ⟨h.1, h.2.ctx, h.2.content, .inl ⟨hk v, h.2.scope⟩⟩
  | err e rt' => rw [hmr] at h; rw [bind_err hmr]; exact h
  | crash s rt' => rw [hmr] at h; rw [bind_crash hmr]; exact h
  | fuel => rw [bind_fuel hmr]; trivial
  | unsupported w => rw [bind_unsupported hmr]; trivial

theorem post_execStmt (hr : RecGood r) (env : Env) (b : Bool) (s : Stmt) (rt : RT) (hwf : WF rt) :
    PostStmt b rt (execStmt r env b s rt) := by
  cases s with
  | text loc bts =>
    exact postStmt_map (good_writeLit bts) (fun _ => (.invalid, .invalid, b)) b (fun _ => rfl) rt hwf
  | action loc set pipe =>
    unfold execStmt
    dsimp only
    have h1 := post_actionSet hr env b set rt hwf
    cases hs : actionSet r env b set rt with
    | ok ins rt1 =>
      rw [hs] at h1
      rw [bind_ok hs]
      obtain ⟨e1, c1, ct1, o1⟩ := h1
      have h2 := (good_actionPipe hr env pipe).post rt1 (e1.wf hwf)
      cases hp : actionPipe r env pipe rt1 with
      | ok u rt2 =>
        rw [hp] at h2
        rw [bind_ok hp]
        refine ⟨e1.trans h2.1, h2.2.ctx.trans c1, h2.2.content.trans ct1, ?_⟩
        rcases o1 with ⟨hb, hsc⟩ | ⟨hb, hb', hsc⟩
        · exact .inl ⟨hb, h2.2.scope.trans hsc⟩
        · exact .inr ⟨hb, hb', by rw [h2.2.scope]; exact hsc⟩
      | err e rt2 => rw [hp] at h2; rw [bind_err hp]; exact e1.trans h2
      | crash s rt2 => rw [hp] at h2; rw [bind_crash hp]; exact e1.trans h2
      | fuel => rw [bind_fuel hp]; trivial
      | unsupported w => rw [bind_unsupported hp]; trivial
    | err e rt1 => rw [hs] at h1; rw [bind_err hs]; exact h1
    | crash s rt1 => rw [hs] at h1; rw [bind_crash hs]; exact h1
    | fuel => rw [bind_fuel hs]; trivial
    | unsupported w => rw [bind_unsupported hs]; trivial
  | ifS loc set cond thn els =>
    exact postStmt_map (good_execIf hr env set cond thn els) (fun ret => (ret, .invalid, b)) b (fun _ => rfl) rt hwf
  | rangeS loc set e body els =>
    exact postStmt_map (good_execRange hr env loc set e body els) (fun ret => (ret, .invalid, b)) b (fun _ => rfl) rt hwf
  | block loc name params ctx body content =>
    exact postStmt_map (good_execBlock hr env loc name params ctx body content) (fun _ => (.invalid, .invalid, b)) b (fun _ => rfl) rt hwf
  | yield loc name params ctx content isContent =>
    exact postStmt_map (good_execYield hr env loc name params ctx content isContent) (fun _ => (.invalid, .invalid, b)) b (fun _ => rfl) rt hwf
  | «include» loc name ctx =>
    exact postStmt_map (good_executeInclude hr env loc name ctx) (fun ret => (ret, .invalid, b)) b (fun _ => rfl) rt hwf
  | tryS loc body hc cv cb =>
    exact postStmt_map (good_executeTry hr env body hc cv cb) (fun ret => (ret, .invalid, b)) b (fun _ => rfl) rt hwf
  | ret loc e =>
    exact postStmt_map (hr.evalExpr env e) (fun v => (.invalid, v, b)) b (fun _ => rfl) rt hwf

def PostGo (b : Bool) (rt : RT) : Res (Val × Bool) → Prop
  | .ok x rt' => Ext rt rt' ∧ rt'.ctx = rt.ctx ∧ rt'.content = rt.content ∧ OpenRel b x.2 rt rt'
  | .err _ rt' => Ext rt rt'
  | .crash _ rt' => Ext rt rt'
  | _ => True

theorem ext_popIf (c : Bool) {a b : RT} (e : Ext a b) : Ext a (if c then popScope b else b) := by
  cases c
  · exact e
  · exact Ext.of_right (popScope_fields b).2 e

theorem post_execListGo (hr : RecGood r) (env : Env) :
    ∀ (l : List Stmt) (rv : Val) (b : Bool) (rt : RT), WF rt → PostGo b rt (execListGo r env l rv b rt) := by
  intro l
  induction l with
  | nil => intro rv b rt _; exact ⟨Ext.refl rt, rfl, rfl, .inl ⟨rfl, rfl⟩⟩
  | cons s rest ih =>
    intro rv b rt hwf
    unfold execListGo
    have h1 := post_execStmt hr env b s rt hwf
    cases hs : execStmt r env b s rt with
    | ok x rt1 =>
      rw [hs] at h1
      obtain ⟨ret, rv2, ins⟩ := x
      obtain ⟨e1, c1, ct1, o1⟩ := h1
      dsimp only
      have h2 := ih (if isReturnStmt s then rv2 else if ret.isValid then ret else rv) ins rt1 (e1.wf hwf)
      cases hg : execListGo r env rest (if isReturnStmt s = true then rv2 else if ret.isValid = true then ret else rv) ins rt1 with
      | ok y rt2 =>
        rw [hg] at h2
        obtain ⟨e2, c2, ct2, o2⟩ := h2
        refine ⟨e1.trans e2, c2.trans c1, ct2.trans ct1, ?_⟩
        simp only at o1
        rcases o1 with ⟨hb1, hs1⟩ | ⟨hb1, hb1', hs1⟩
        · rcases o2 with ⟨hb2, hs2⟩ | ⟨hb2, hb2', hs2⟩
          · exact .inl ⟨hb2.trans hb1, hs2.trans hs1⟩
          · exact .inr ⟨hb1 ▸ hb2, hb2', by rw [hs2]; exact hs1⟩
        · rcases o2 with ⟨hb2, hs2⟩ | ⟨hb2, hb2', hs2⟩
          · exact .inr ⟨hb1, hb2.trans hb1', by rw [hs2]; exact hs1⟩
          · rw [hb1'] at hb2; cases hb2
      | err e rt2 => rw [hg] at h2; exact e1.trans h2
      | crash m rt2 => rw [hg] at h2; exact e1.trans h2
      | fuel => trivial
      | unsupported w => trivial
    | err e rt1 => rw [hs] at h1; exact ext_popIf _ h1
    | crash m rt1 => rw [hs] at h1; exact ext_popIf _ h1
    | fuel => trivial
    | unsupported w => trivial

theorem good_execListF (hr : RecGood r) (env : Env) (l : List Stmt) : Good (execListF r env l) := by
  refine ⟨fun rt hwf => ?_⟩
  unfold execListF
  have h := post_execListGo hr env l .invalid false rt hwf
  cases hg : execListGo r env l .invalid false rt with
  | ok x rt1 =>
    rw [hg] at h
    obtain ⟨v, ins⟩ := x
    obtain ⟨e1, c1, ct1, o1⟩ := h
    dsimp only
    simp only at o1
    rcases o1 with ⟨hb, hs⟩ | ⟨_, hb', hs⟩
    · subst hb; exact ⟨e1, ⟨hs, c1, ct1⟩⟩
    · subst hb'
      obtain ⟨ps, psame⟩ := popScope_fields rt1
      exact ⟨Ext.of_right psame e1, ⟨by rw [show (if true = true then popScope rt1 else rt1) = popScope rt1 from rfl, ps, hs],
        by rw [show (if true = true then popScope rt1 else rt1) = popScope rt1 from rfl, psame.1, c1],
        by rw [show (if true = true then popScope rt1 else rt1) = popScope rt1 from rfl, psame.2.1, ct1]⟩⟩
  | err e rt1 => rw [hg] at h; exact h
  | crash m rt1 => rw [hg] at h; exact h
  | fuel => trivial
  | unsupported w => trivial

/-- one level of the interpreter preserves the invariant -/
theorem recGood_step (hr : RecGood r) : RecGood (stepRec r) :=
  ⟨fun env e => good_evalExprF hr env e, fun env l => good_execListF hr env l, fun env e => good_isSetF hr env e⟩

/-- the invariant holds at every fuel level -/
theorem recGood_recAt : ∀ n, RecGood (recAt n)
  | 0 => recGood_bottom
  | n + 1 => recGood_step (recGood_recAt n)

end JetVerif.Eval
