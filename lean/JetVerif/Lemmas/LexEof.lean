/-
  The end-of-file item is the last thing the lexer model ever emits.

  `emit Tok.eof` occurs once in Model/Lex.lean, in `lexTextLoop.lexTextEnd`, directly followed by
  `pure none` (the state machine stops).  Every other `emit` has a token different from `Tok.eof`
  (the tokens that come out of the regenerated tables - single-rune switch, two-rune operators,
  keyword map, the two sign arms - are checked against the tables).  Same structure as
  Lemmas/LexInv.lean: one lemma per function, induction on fuel for the loops.
-/
import JetVerif.Lemmas.LexInv
import JetVerif.Lemmas.ParseSafe

namespace JetVerif.Lex
open JetVerif.Utf8

/-- no end-of-file emit in the log -/
def NoEof (evs : List Event) : Prop := ∀ e ∈ evs, ∀ a b v, e ≠ Event.emit Tok.eof a b v

theorem NoEof.tail {l : List Event} (h : NoEof l) : NoEof l.tail :=
  fun e he => h e (List.mem_of_mem_tail he)

theorem NoEof.cons {e : Event} {l : List Event} (he : ∀ a b v, e ≠ Event.emit Tok.eof a b v)
    (h : NoEof l) : NoEof (e :: l) := by
  intro x hx
  cases hx with
  | head => exact he
  | tail _ hx => exact h x hx

/-- the computation adds no end-of-file emit (finished or crashed) -/
def NEPost {α} : Res α → Prop
  | .ok _ s' => NoEof s'.events
  | .crash _ s' => NoEof s'.events

def NSPost : Res (Option StateId) → Prop
  | .ok (some _) s' => NoEof s'.events
  | .ok none s' => NoEof s'.events.tail
  | .crash _ _ => True

structure NE {α} (m : M α) : Prop where
  post : ∀ s, NoEof s.events → NEPost (m s)

/-- a state function: when it goes on, no end-of-file emit; when it stops the machine, none except
    possibly the most recent event -/
structure NS (m : M (Option StateId)) : Prop where
  post : ∀ s, NoEof s.events → NSPost (m s)

theorem ne_pure {α} (a : α) : NE (pure a : M α) := ⟨fun _ h => h⟩

theorem NE.bind {α β} {m : M α} {f : α → M β} (hm : NE m) (hf : ∀ a, NE (f a)) : NE (m >>= f) := by
  refine ⟨fun s hs => ?_⟩
  have h1 := hm.post s hs
  rw [bind_def]
  cases hms : m s with
  | ok a s' =>
    rw [hms] at h1
    exact (hf a).post s' h1
  | crash msg s' => rw [hms] at h1; exact h1

theorem NS.of_ne {m : M (Option StateId)} (hm : NE m) : NS m := by
  refine ⟨fun s hs => ?_⟩
  have h1 := hm.post s hs
  cases hms : m s with
  | ok o s' =>
    rw [hms] at h1
    cases o with
    | none => exact h1.tail
    | some st => exact h1
  | crash msg s' => trivial

theorem NS.bind {α} {m : M α} {f : α → M (Option StateId)} (hm : NE m) (hf : ∀ a, NS (f a)) :
    NS (m >>= f) := by
  refine ⟨fun s hs => ?_⟩
  have h1 := hm.post s hs
  rw [bind_def]
  cases hms : m s with
  | ok a s' =>
    rw [hms] at h1
    exact (hf a).post s' h1
  | crash msg s' => trivial

theorem ne_get : NE get := ⟨fun _ h => h⟩
theorem ne_crash {α} (msg : String) : NE (crash msg : M α) := ⟨fun _ h => h⟩

/-- a `modify` that leaves the event log alone -/
theorem ne_modify (f : St → St) (hf : ∀ s, (f s).events = s.events) : NE (modify f) := by
  refine ⟨fun s hs => ?_⟩
  show NoEof (f s).events
  rw [hf s]; exact hs

theorem ne_restAt (a : Int) : NE (restAt a) := by
  refine ⟨fun s hs => ?_⟩
  unfold restAt
  split <;> exact hs

theorem ne_firstByte (b : Bytes) : NE (firstByte b) := by
  unfold firstByte
  split
  · exact ne_pure _
  · exact ne_crash _

theorem ne_next : NE next := by
  refine ⟨fun s hs => ?_⟩
  unfold next
  split
  · exact hs
  · split
    · exact hs
    · exact hs

theorem ne_backup : NE backup := ne_modify _ (fun _ => rfl)

theorem ne_emit (t : Tok) (ht : t ≠ Tok.eof) : NE (emit t) := by
  refine ⟨fun s hs => ?_⟩
  unfold emit
  split
  · exact hs
  · refine NoEof.cons ?_ hs
    intro a b v h
    injection h with h1
    exact ht h1

theorem ne_ignore (k : IgnKind) : NE (ignore k) := by
  refine ⟨fun s hs => ?_⟩
  exact NoEof.cons (fun a b v h => by cases h) hs

theorem ne_errorf (msg : String) : NE (errorf msg) := by
  refine ⟨fun s hs => ?_⟩
  exact NoEof.cons (fun a b v h => by cases h) hs

/-! ### tokens that come out of the regenerated tables -/

theorem tokOf_eq_eof {n : String} (h : tokOf n = Tok.eof) : n = "itemEOF" := by
  unfold tokOf Tok.ofName at h
  cases hf : Tok.all.find? (fun t => t.name == n) with
  | none => rw [hf] at h; cases h
  | some t =>
    rw [hf] at h
    have ht : t = Tok.eof := h
    subst ht
    have := List.find?_some hf
    have h2 : (Tok.eof.name == n) = true := this
    exact (eq_of_beq h2).symm

theorem singleCharToks_names : ∀ p ∈ Facts.singleCharToks, p.2 ≠ "itemEOF" := by
  simp [Facts.singleCharToks]

theorem twoCharToks_names : ∀ p ∈ Facts.twoCharToks, p.2.2.1 ≠ "itemEOF" ∧ p.2.2.2 ≠ "itemEOF" := by
  simp [Facts.twoCharToks]

theorem keywords_names : ∀ p ∈ Facts.keywords, p.2 ≠ "itemEOF" := by
  simp [Facts.keywords]

theorem singleTok_ne_eof {c : Nat} {t : Tok} (h : singleTok c = some t) : t ≠ Tok.eof := by
  unfold singleTok at h
  cases hf : Facts.singleCharToks.find? (fun p => p.1 == c) with
  | none => rw [hf] at h; cases h
  | some p =>
    rw [hf] at h
    have ht : tokOf p.2 = t := by simpa using h
    have hm := List.mem_of_find?_eq_some hf
    intro he
    exact singleCharToks_names p hm (tokOf_eq_eof (ht.trans he))

theorem twoTok_ne_eof {c d : Nat} {both : Tok} {single : Option Tok}
    (h : twoTok c = some (d, both, single)) :
    both ≠ Tok.eof ∧ ∀ t, single = some t → t ≠ Tok.eof := by
  unfold twoTok at h
  cases hf : Facts.twoCharToks.find? (fun p => p.1 == c) with
  | none => rw [hf] at h; cases h
  | some p =>
    rw [hf] at h
    have hm := twoCharToks_names p (List.mem_of_find?_eq_some hf)
    simp only [Option.map_some, Option.some.injEq, Prod.mk.injEq] at h
    obtain ⟨_, hb, hs⟩ := h
    refine ⟨fun he => hm.1 (tokOf_eq_eof (hb.trans he)), ?_⟩
    intro t ht he
    subst he
    rw [ht] at hs
    split at hs
    · cases hs
    · injection hs with hs
      exact hm.2 (tokOf_eq_eof hs)

theorem keyTok_ne_eof {word : Bytes} {t : Tok} (h : keyTok word = some t) : t ≠ Tok.eof := by
  unfold keyTok at h
  cases hf : Facts.keywords.find? (fun p => p.1.toUTF8.toList == word) with
  | none => rw [hf] at h; cases h
  | some p =>
    rw [hf] at h
    have ht : tokOf p.2 = t := by simpa using h
    have hm := List.mem_of_find?_eq_some hf
    intro he
    exact keywords_names p hm (tokOf_eq_eof (ht.trans he))

theorem minusTok_ne_eof : tokOf Facts.minusTok ≠ Tok.eof := by
  intro h
  have := tokOf_eq_eof h
  simp [Facts.minusTok] at this

theorem plusTok_ne_eof : tokOf Facts.plusTok ≠ Tok.eof := by
  intro h
  have := tokOf_eq_eof h
  simp [Facts.plusTok] at this

/-! ### every function of the lexer -/

macro "ne_step" : tactic =>
  `(tactic| first
  | with_reducible (first
    | exact ne_pure _
    | exact ne_get
    | exact ne_crash _
    | exact ne_restAt _
    | exact ne_firstByte _
    | exact ne_next
    | exact ne_backup
    | exact ne_ignore _
    | exact ne_errorf _
    | exact ne_modify _ (fun _ => rfl)
    | apply NE.bind
    | intro _)
  | (with_reducible refine ne_emit _ ?_) <;> (first | assumption | decide | skip))

syntax "ne_tac" (" [" term,* "]")? : tactic
macro_rules
  | `(tactic| ne_tac) => `(tactic| repeat (first | ne_step | split | dsimp only))
  | `(tactic| ne_tac [$h0]) => `(tactic| repeat (first | ne_step | (with_reducible apply $h0) | split | dsimp only))
  | `(tactic| ne_tac [$h0, $h1]) => `(tactic| repeat (first | ne_step | (with_reducible apply $h0) | (with_reducible apply $h1) | split | dsimp only))
  | `(tactic| ne_tac [$h0, $h1, $h2]) => `(tactic| repeat (first | ne_step | (with_reducible apply $h0) | (with_reducible apply $h1) | (with_reducible apply $h2) | split | dsimp only))

theorem ne_peek : NE peek := by unfold peek; ne_tac

theorem ne_accept (valid : List Nat) : NE (accept valid) := by unfold accept; ne_tac

theorem ne_acceptRunLoop (valid : List Nat) : ∀ fuel, NE (acceptRunLoop valid fuel) := by
  intro fuel
  induction fuel with
  | zero => unfold acceptRunLoop; ne_tac
  | succ n ih => unfold acceptRunLoop; ne_tac [ih]

theorem ne_acceptRun (valid : List Nat) : NE (acceptRun valid) := by
  have h := ne_acceptRunLoop valid
  unfold acceptRun; ne_tac [h]

theorem ne_atRightDelim : NE atRightDelim := by unfold atRightDelim; ne_tac

theorem ne_atTerminator : NE atTerminator := by
  have h := ne_peek
  unfold atTerminator; ne_tac [h]

theorem ne_lexLeftDelim : NE lexLeftDelim := by unfold lexLeftDelim; ne_tac
theorem ne_lexComment : NE lexComment := by unfold lexComment; ne_tac
theorem ne_lexRightDelim : NE lexRightDelim := by unfold lexRightDelim; ne_tac

theorem ne_signArm (excl : List String) (t : Tok) (ht : t ≠ Tok.eof) : NE (signArm excl t) := by
  have h := ne_peek
  unfold signArm; ne_tac [h]

theorem ne_ite {α} {c : Prop} [Decidable c] {a b : M α} (ha : NE a) (hb : NE b) :
    NE (if c then a else b) := by split <;> assumption

theorem ne_lexInsideAction : NE lexInsideAction := by
  have h1 := ne_atRightDelim
  have h3 := ne_peek
  unfold lexInsideAction
  apply NE.bind h1
  intro p
  apply NE.bind ne_get
  intro s
  apply ne_ite
  · ne_tac
  · apply NE.bind ne_next
    intro r
    cases r with
    | none => exact ne_errorf _
    | some c =>
      dsimp only
      apply ne_ite (ne_pure _)
      apply ne_ite (ne_signArm _ _ minusTok_ne_eof)
      apply ne_ite (ne_signArm _ _ plusTok_ne_eof)
      cases hst : singleTok c with
      | some t =>
        have ht := singleTok_ne_eof hst
        dsimp only; ne_tac
      | none =>
        dsimp only
        cases htt : twoTok c with
        | some q =>
          obtain ⟨d, both, single⟩ := q
          obtain ⟨hb, hs⟩ := twoTok_ne_eof htt
          dsimp only
          apply NE.bind ne_next
          intro r2
          apply ne_ite
          · ne_tac
          · cases single with
            | none => dsimp only; ne_tac
            | some t =>
              have ht := hs t rfl
              dsimp only; ne_tac
        | none =>
          dsimp only
          repeat (first | apply ne_ite | ne_step | (with_reducible apply h3))

theorem ne_lexSpaceLoop : ∀ fuel n, NE (lexSpaceLoop fuel n) := by
  intro fuel
  have hp := ne_peek
  induction fuel with
  | zero => intro n; unfold lexSpaceLoop; ne_tac
  | succ k ih => intro n; unfold lexSpaceLoop; ne_tac [hp, ih]

theorem ne_lexSpace : NE lexSpace := by
  have h := ne_lexSpaceLoop
  unfold lexSpace; ne_tac [h]

theorem ne_lexIdentifierLoop : ∀ fuel, NE (lexIdentifierLoop fuel) := by
  intro fuel
  have ht := ne_atTerminator
  induction fuel with
  | zero => unfold lexIdentifierLoop; ne_tac
  | succ k ih =>
    unfold lexIdentifierLoop; ne_tac [ht, ih]
    · rename_i t heq
      split at heq
      · rename_i t' hk
        split at heq
        · injection heq with heq
          subst heq
          exact keyTok_ne_eof hk
        · cases heq
      · cases heq
    · ne_tac
    · ne_tac

theorem ne_lexIdentifier : NE lexIdentifier := by
  have h := ne_lexIdentifierLoop
  unfold lexIdentifier; ne_tac [h]

theorem ne_lexFieldLoop : ∀ fuel, NE (lexFieldLoop fuel) := by
  intro fuel
  induction fuel with
  | zero => unfold lexFieldLoop; ne_tac
  | succ k ih => unfold lexFieldLoop; ne_tac [ih]

theorem ne_lexField : NE lexField := by
  have ht := ne_atTerminator
  have hl := ne_lexFieldLoop
  unfold lexField; ne_tac [ht, hl]

theorem ne_quotedLoop (q : Nat) (t : Tok) (ht : t ≠ Tok.eof) (msg : String) :
    ∀ fuel, NE (quotedLoop q t msg fuel) := by
  intro fuel
  induction fuel with
  | zero => unfold quotedLoop; ne_tac
  | succ k ih => unfold quotedLoop; ne_tac [ih]

theorem ne_lexChar : NE lexChar := by
  have h := ne_quotedLoop 39 Tok.charConstant (by decide)
  unfold lexChar; ne_tac [h]

theorem ne_lexQuote : NE lexQuote := by
  have h := ne_quotedLoop 34 Tok.string (by decide)
  unfold lexQuote; ne_tac [h]

theorem ne_rawQuoteLoop : ∀ fuel, NE (rawQuoteLoop fuel) := by
  intro fuel
  induction fuel with
  | zero => unfold rawQuoteLoop; ne_tac
  | succ k ih => unfold rawQuoteLoop; ne_tac [ih]

theorem ne_lexRawQuote : NE lexRawQuote := by
  have h := ne_rawQuoteLoop
  unfold lexRawQuote; ne_tac [h]

theorem ne_scanNumber : NE scanNumber := by
  have h1 := ne_accept
  have h2 := ne_acceptRun
  have h3 := ne_peek
  unfold scanNumber; ne_tac [h1, h2, h3]

theorem ne_lexNumber : NE lexNumber := by
  have h := ne_scanNumber
  unfold lexNumber; ne_tac [h]

/-! ### the text state: the only place where the end-of-file item is emitted -/

theorem ns_emit_eof_stop : NS (emit Tok.eof >>= fun _ => (pure none : M (Option StateId))) := by
  refine ⟨fun s hs => ?_⟩
  rw [bind_def]
  unfold emit
  cases slice s.input s.start s.pos with
  | none => trivial
  | some v => exact hs

macro "ns_step" : tactic =>
  `(tactic| first
  | ne_step
  | with_reducible exact ns_emit_eof_stop
  | with_reducible apply NS.bind)

syntax "ns_tac" (" [" term,* "]")? : tactic
macro_rules
  | `(tactic| ns_tac) => `(tactic| repeat (first | ns_step | split | (with_reducible apply NS.of_ne) | dsimp only))
  | `(tactic| ns_tac [$h0]) => `(tactic| repeat (first | ns_step | (with_reducible apply $h0) | split | (with_reducible apply NS.of_ne) | dsimp only))
  | `(tactic| ns_tac [$h0, $h1]) => `(tactic| repeat (first | ns_step | (with_reducible apply $h0) | (with_reducible apply $h1) | split | (with_reducible apply NS.of_ne) | dsimp only))

theorem ns_lexTextEnd : NS lexTextLoop.lexTextEnd := by
  unfold lexTextLoop.lexTextEnd; ns_tac

theorem ns_lexTextLoop : ∀ fuel, NS (lexTextLoop fuel) := by
  intro fuel
  have he := ns_lexTextEnd
  induction fuel with
  | zero => unfold lexTextLoop; ns_tac
  | succ n ih => unfold lexTextLoop; ns_tac [ih, he]

theorem ns_lexText : NS lexText := by
  have h := ns_lexTextLoop
  unfold lexText; ns_tac [h]

theorem ns_step (st : StateId) : NS (step st) := by
  cases st <;> unfold step
  · exact ns_lexText
  · exact NS.of_ne ne_lexLeftDelim
  · exact NS.of_ne ne_lexComment
  · exact NS.of_ne ne_lexRightDelim
  · exact NS.of_ne ne_lexInsideAction
  · exact NS.of_ne ne_lexSpace
  · exact NS.of_ne ne_lexIdentifier
  · exact NS.of_ne ne_lexField
  · exact NS.of_ne ne_lexChar
  · exact NS.of_ne ne_lexNumber
  · exact NS.of_ne ne_lexQuote
  · exact NS.of_ne ne_lexRawQuote

/-! ### the run -/

theorem runLoop_noEof : ∀ (fuel : Nat) (st : StateId) (s : St) (evs : List Event), NoEof s.events →
    runLoop fuel st s = .done evs → ∃ l : List Event, evs = l.reverse ∧ NoEof l.tail := by
  intro fuel
  induction fuel with
  | zero => intro st s evs _ h; unfold runLoop at h; cases h
  | succ n ih =>
    intro st s evs hs h
    have hp := (ns_step st).post s hs
    unfold runLoop at h
    cases hst : step st s with
    | ok o s' =>
      rw [hst] at hp h
      cases o with
      | none =>
        injection h with h
        exact ⟨s'.events, h.symm, hp⟩
      | some st' => exact ih st' s' evs hp h
    | crash msg s' =>
      rw [hst] at h
      cases h

theorem noEof_nil : NoEof [] := fun _ h => by cases h

/-- in a finished run, an emitted end-of-file token is the last event of the log -/
theorem lexRun_eof_is_last_event (d : Delims) (input : Bytes) (evs : List Event)
    (h : lexRun d input = .done evs) :
    ∀ pre e post, evs = pre ++ e :: post → (∃ a b v, e = Event.emit Tok.eof a b v) → post = [] := by
  intro pre e post hev ⟨a, b, v, he⟩
  unfold lexRun at h
  obtain ⟨l, hl, hn⟩ := runLoop_noEof _ _ _ _ (noEof_nil : NoEof ({ input := input, d := d } : St).events) h
  have hl2 : l = post.reverse ++ e :: pre.reverse := by
    have : l = evs.reverse := by rw [hl, List.reverse_reverse]
    rw [this, hev]; simp
  cases hpost : post.reverse with
  | nil => simpa using hpost
  | cons x r =>
    exfalso
    rw [hpost] at hl2
    have hmem : e ∈ l.tail := by rw [hl2]; simp
    exact hn e hmem a b v he

theorem filterMap_eq_append_cons {α β} (f : α → Option β) :
    ∀ (l : List α) (pre : List β) (t : β) (post : List β), l.filterMap f = pre ++ t :: post →
      ∃ l1 e l2, l = l1 ++ e :: l2 ∧ f e = some t ∧ l2.filterMap f = post := by
  intro l
  induction l with
  | nil => intro pre t post h; simp at h
  | cons x xs ih =>
    intro pre t post h
    rw [List.filterMap_cons] at h
    cases hx : f x with
    | none =>
      rw [hx] at h
      obtain ⟨l1, e, l2, h1, h2, h3⟩ := ih pre t post h
      exact ⟨x :: l1, e, l2, by rw [h1]; rfl, h2, h3⟩
    | some y =>
      rw [hx] at h
      cases pre with
      | nil =>
        simp only [List.nil_append, List.cons.injEq] at h
        exact ⟨[], x, xs, rfl, by rw [hx, h.1], h.2⟩
      | cons p ps =>
        simp only [List.cons_append, List.cons.injEq] at h
        obtain ⟨l1, e, l2, h1, h2, h3⟩ := ih ps t post h.2
        exact ⟨x :: l1, e, l2, by rw [h1]; rfl, h2, h3⟩

/-- the items handed to the parser: an item of type itemEOF is the last one -/
theorem lexRun_items_eof_last (d : Delims) (input : Bytes) (evs : List Event)
    (h : lexRun d input = .done evs) : JetVerif.Parse.EofLast (JetVerif.Parse.itemsOf evs) := by
  intro pre t post hev ht
  unfold JetVerif.Parse.itemsOf tokensOf at hev
  rw [List.map_filterMap] at hev
  obtain ⟨l1, e, l2, h1, h2, h3⟩ := filterMap_eq_append_cons _ evs pre t post hev
  have hlast := lexRun_eof_is_last_event d input evs h l1 e l2 h1
  cases e with
  | emit t' a b v =>
    simp only [Option.map_some, Option.some.injEq] at h2
    have : t' = Tok.eof := by rw [← ht, ← h2]
    subst this
    have := hlast ⟨a, b, v, rfl⟩
    subst this
    simpa using h3.symm
  | ignore k a b => simp at h2
  | err a msg =>
    simp only [Option.map_some, Option.some.injEq] at h2
    rw [← h2] at ht
    cases ht

end JetVerif.Lex
