/-
  The parser model always ends within the fuel `Set.parse`'s model gives it.

  Measure: `mu s` = the items still in the lexer's channel plus the pushed-back items that are not
  error items (what a receive from the closed channel yields is an error item: pushing it back and
  reading it again goes on for ever only if somebody keeps asking, and nobody does - every production
  that reads an error item fails).  Every production is shown, for every ceiling `M` on the measure
  at its start and every fuel `n ≥ rank + 40·M`, not to run out of fuel and to leave a state whose
  measure is again at most `M` - at most `M - 1` where the production consumes (an operand, an
  expression, a statement).  Ranks order the productions along the calls that consume nothing
  (`expression → … → unaryExpression → operand → term`); a call made after something was consumed
  may go to any rank, because 40 is more than the highest rank.

  A Hoare logic in the style of Lemmas/ParseSafe.lean; crashes and errors are none of its business
  (Lemmas/ParseNoCrash.lean).
-/
import JetVerif.Lemmas.ParseSafe

namespace JetVerif.Parse

/-- `m` started in a state satisfying `P` does not run out of fuel, and where it succeeds `Q` holds -/
def TermL {α} (P : PSt → Prop) (m : PM α) (Q : α → PSt → Prop) : Prop :=
  ∀ s, P s → match m s with
    | .ok a s' => Q a s'
    | .fuel => False
    | _ => True

theorem TermL.bind {α β} {P : PSt → Prop} {m : PM α} {Q : α → PSt → Prop} {f : α → PM β} {R : β → PSt → Prop}
    (hm : TermL P m Q) (hf : ∀ a, TermL (Q a) (f a) R) : TermL P (m >>= f) R := by
  intro s hs
  have h1 := hm s hs
  rw [bind_apply]
  cases hms : m s with
  | ok a s' => rw [hms] at h1; simp only [PRes.andThen]; exact hf a s' h1
  | err l msg => simp [PRes.andThen]
  | crash w => simp [PRes.andThen]
  | fuel => rw [hms] at h1; exact h1.elim
  | unsupported w => simp [PRes.andThen]

theorem TermL.pure {α} {P : PSt → Prop} {Q : α → PSt → Prop} (a : α) (h : ∀ s, P s → Q a s) :
    TermL P (pure a : PM α) Q := fun s hs => h s hs

theorem TermL.weaken {α} {P P' : PSt → Prop} {m : PM α} {Q Q' : α → PSt → Prop}
    (h : TermL P m Q) (hp : ∀ s, P' s → P s) (hq : ∀ a s, Q a s → Q' a s) : TermL P' m Q' := by
  intro s hs
  have := h s (hp s hs)
  cases hms : m s with
  | ok a s' => rw [hms] at this; exact hq a s' this
  | err l msg => trivial
  | crash w => trivial
  | fuel => rw [hms] at this; exact this.elim
  | unsupported w => trivial

theorem TermL.pre {α} {P P' : PSt → Prop} {m : PM α} {Q : α → PSt → Prop}
    (h : TermL P m Q) (hp : ∀ s, P' s → P s) : TermL P' m Q := h.weaken hp (fun _ _ h => h)

theorem TermL.post {α} {P : PSt → Prop} {m : PM α} {Q Q' : α → PSt → Prop}
    (h : TermL P m Q) (hq : ∀ a s, Q a s → Q' a s) : TermL P m Q' := h.weaken (fun _ h => h) hq

theorem TermL.ite {α} {P : PSt → Prop} {c : Prop} [Decidable c] {m1 m2 : PM α} {Q : α → PSt → Prop}
    (h1 : c → TermL P m1 Q) (h2 : ¬ c → TermL P m2 Q) : TermL P (if c then m1 else m2) Q := by
  by_cases hc : c
  · simp [hc]; exact h1 hc
  · simp [hc]; exact h2 hc

theorem TermL.unsupported {α} {P : PSt → Prop} {Q : α → PSt → Prop} (w : String) :
    TermL P (unsupported w : PM α) Q := fun _ _ => trivial

theorem TermL.crash {α} {P : PSt → Prop} {Q : α → PSt → Prop} (w : String) :
    TermL P (crash w : PM α) Q := fun _ _ => trivial

/-- a fact all states satisfying the precondition agree on may be used to build the proof -/
theorem TermL.assume {α} {P : PSt → Prop} {m : PM α} {Q : α → PSt → Prop} (φ : Prop)
    (h1 : ∀ s, P s → φ) (h2 : φ → TermL P m Q) : TermL P m Q := fun s hs => h2 (h1 s hs) s hs

theorem TermL.get {P : PSt → Prop} : TermL P get (fun a s => a = s ∧ P s) := fun _ hs => ⟨rfl, hs⟩

/-! ### the measure -/

/-- an error item weighs nothing: the closed channel hands them out for ever -/
def wt (t : Item) : Nat := if t.typ = Tok.error then 0 else 1

theorem wt_le (t : Item) : wt t ≤ 1 := by unfold wt; split <;> omega
theorem wt_pos {t : Item} (h : t.typ ≠ Tok.error) : wt t = 1 := by simp [wt, h]
theorem wt_zero {t : Item} (h : t.typ = Tok.error) : wt t = 0 := by simp [wt, h]

/-- weight of the pushed-back items -/
def bufW (s : PSt) : Nat :=
  match s.peekCount with
  | 0 => 0
  | 1 => wt s.t0
  | 2 => wt s.t0 + wt s.t1
  | _ => wt s.t0 + wt s.t1 + wt s.t2

def mu (s : PSt) : Nat := s.toks.length + bufW s

/-- the item a `backup` would push back -/
def under (s : PSt) : Item := slotAt s s.peekCount

/-- at most `M - c` left -/
def A (M c : Nat) (s : PSt) : Prop := mu s + c ≤ M
/-- a `backup` now leaves at most `M - c` -/
def Bk (M c : Nat) (s : PSt) : Prop := mu s + wt (under s) + c ≤ M

theorem A.bk {M c : Nat} {s : PSt} (h : A M (c + 1) s) : Bk M c s := by
  have := wt_le (under s); unfold A at h; unfold Bk; omega

/-! ### primitives -/

theorem lineNumber_state' (s : PSt) (a : Nat) (s' : PSt) (h : lineNumber s = .ok a s') : s' = s := by
  unfold lineNumber at h
  split at h
  · simp at h; exact h.2.symm
  · simp at h

theorem lineNumber_T (P : PSt → Prop) : TermL P lineNumber (fun _ s => P s) := by
  intro s hs
  cases hl : lineNumber s with
  | ok a s' => rw [lineNumber_state' s a s' hl]; exact hs
  | err l m => trivial
  | crash w => trivial
  | fuel => unfold lineNumber at hl; split at hl <;> simp at hl
  | unsupported w => trivial

theorem errorf_T {α} (P : PSt → Prop) (ps : List MP) (Q : α → PSt → Prop) : TermL P (errorf ps : PM α) Q := by
  intro s _
  unfold errorf
  cases hl : lineNumber s with
  | ok a s' => trivial
  | err l m => trivial
  | crash w => trivial
  | fuel => unfold lineNumber at hl; split at hl <;> simp at hl
  | unsupported w => trivial

theorem unexpected_T {α} (P : PSt → Prop) (tk : Item) (c e : String) (Q : α → PSt → Prop) :
    TermL P (unexpected tk c e : PM α) Q := by
  unfold unexpected
  split
  · exact errorf_T P _ Q
  · split
    · exact errorf_T P _ Q
    · exact errorf_T P _ Q

/-- what `next` leaves: at most `M`, a backup is paid for, and a non-error item was consumed -/
def AfterNext (M : Nat) (t : Item) (s : PSt) : Prop :=
  A M 0 s ∧ Bk M 0 s ∧ under s = t ∧ (t.typ ≠ Tok.error → A M 1 s)

theorem next_T (M : Nat) : TermL (A M 0) next (AfterNext M) := by
  intro s hs
  unfold A at hs
  by_cases hp : s.peekCount = 0
  · rw [next_fresh_eq s hp]
    unfold nextItem
    cases ht : s.toks with
    | nil =>
      simp only [PRes.andThen, hp, tokenAt]
      refine ⟨?_, ?_, ?_, ?_⟩
      · simp [A, mu, bufW, hp]
      · simp [Bk, mu, bufW, hp, under, slotAt, wt, Item.zero]
      · simp [under, slotAt, hp]
      · intro hne; simp [Item.zero] at hne
    | cons t ts =>
      simp only [PRes.andThen, hp, tokenAt]
      have hm : mu s = ts.length + 1 := by simp [mu, bufW, hp, ht]
      refine ⟨?_, ?_, ?_, ?_⟩
      · simp [A, mu, bufW, hp]; omega
      · have := wt_le t
        simp [Bk, mu, bufW, hp, under, slotAt]; omega
      · simp [under, slotAt, hp]
      · intro _; simp [A, mu, bufW, hp]; omega
  · obtain ⟨k, hk1⟩ : ∃ k, s.peekCount = k + 1 := ⟨s.peekCount - 1, by omega⟩
    rw [next_pushed_eq s k hk1]
    match k, hk1 with
    | 0, hk1 =>
      simp only [tokenAt]
      have hm : mu s = s.toks.length + wt s.t0 := by simp [mu, bufW, hk1]
      refine ⟨?_, ?_, ?_, ?_⟩
      · simp [A, mu, bufW]; omega
      · simp [Bk, mu, bufW, under, slotAt]; omega
      · simp [under, slotAt]
      · intro hne; have := wt_pos hne; simp [A, mu, bufW]; omega
    | 1, hk1 =>
      simp only [tokenAt]
      have hm : mu s = s.toks.length + (wt s.t0 + wt s.t1) := by simp [mu, bufW, hk1]
      refine ⟨?_, ?_, ?_, ?_⟩
      · simp [A, mu, bufW]; omega
      · simp [Bk, mu, bufW, under, slotAt]; omega
      · simp [under, slotAt]
      · intro hne; have := wt_pos hne; simp [A, mu, bufW]; omega
    | 2, hk1 =>
      simp only [tokenAt]
      have hm : mu s = s.toks.length + (wt s.t0 + wt s.t1 + wt s.t2) := by simp [mu, bufW, hk1]
      refine ⟨?_, ?_, ?_, ?_⟩
      · simp [A, mu, bufW]; omega
      · simp [Bk, mu, bufW, under, slotAt]; omega
      · simp [under, slotAt]
      · intro hne; have := wt_pos hne; simp [A, mu, bufW]; omega
    | k + 3, _ => simp only [tokenAt]

/-- `backup` when it is paid for -/
theorem backup_T (M c : Nat) : TermL (Bk M c) backup (fun _ s => A M c s ∧ s.peekCount ≥ 1) := by
  intro s hs
  unfold Bk under at hs
  simp only [backup, modify]
  refine ⟨?_, by simp⟩
  unfold A mu bufW
  unfold mu bufW at hs
  match hp : s.peekCount with
  | 0 => simp [hp, slotAt] at hs ⊢; omega
  | 1 => simp [hp, slotAt] at hs ⊢; omega
  | 2 => simp [hp, slotAt] at hs ⊢; omega
  | k + 3 => simp [hp] at hs ⊢; omega

/-- the items not yet received plus the pushed-back ones, error items included: what bounds a loop
    that only reads -/
def nu (s : PSt) : Nat := s.toks.length + s.peekCount

/-- reading a space item uses one of the `nu` items -/
theorem next_nu (s : PSt) (t : Item) (s' : PSt) (h : next s = .ok t s') (hsp : t.typ = Tok.space) :
    nu s' + 1 = nu s := by
  by_cases hp : s.peekCount = 0
  · rw [next_fresh_eq s hp] at h
    unfold nextItem at h
    cases ht : s.toks with
    | nil =>
      simp only [ht, PRes.andThen, hp, tokenAt] at h
      simp at h
      rw [← h.1] at hsp
      simp [Item.zero] at hsp
    | cons x xs =>
      simp only [ht, PRes.andThen, hp, tokenAt] at h
      simp at h
      rw [← h.2]
      simp [nu, hp, ht]
  · obtain ⟨k, hk1⟩ : ∃ k, s.peekCount = k + 1 := ⟨s.peekCount - 1, by omega⟩
    rw [next_pushed_eq s k hk1] at h
    match k, hk1 with
    | 0, hk1 => simp [tokenAt] at h; rw [← h.2]; simp [nu, hk1]
    | 1, hk1 => simp [tokenAt] at h; rw [← h.2]; simp [nu, hk1]
    | 2, hk1 => simp [tokenAt] at h; rw [← h.2]; simp [nu, hk1]
    | k + 3, _ => simp [tokenAt] at h

theorem nextNonSpaceLoop_T (M : Nat) : ∀ (k : Nat), TermL (fun s => A M 0 s ∧ nu s < k) (nextNonSpaceLoop k) (AfterNext M)
  | 0 => fun _ hs => by have := hs.2; omega
  | k + 1 => by
    intro s hs
    obtain ⟨hs, hk⟩ := hs
    unfold nextNonSpaceLoop
    rw [bind_apply]
    have hn := next_T M s hs
    cases hnx : next s with
    | ok t s1 =>
      rw [hnx] at hn
      simp only [PRes.andThen]
      by_cases hsp : t.typ = Tok.space
      · rw [if_pos hsp]
        have := next_nu s t s1 hnx hsp
        exact nextNonSpaceLoop_T M k s1 ⟨hn.1, by omega⟩
      · rw [if_neg hsp]
        exact hn
    | err l m => simp [PRes.andThen]
    | crash w => simp [PRes.andThen]
    | fuel => rw [hnx] at hn; exact hn.elim
    | unsupported w => simp [PRes.andThen]

theorem nextNonSpace_T (M : Nat) : TermL (A M 0) nextNonSpace (AfterNext M) := by
  intro s hs
  unfold nextNonSpace
  exact nextNonSpaceLoop_T M (s.toks.length + s.peekCount + 2) s ⟨hs, by unfold nu; omega⟩

/-- after a peek: something is pushed back, and it is the item that was returned -/
def Peeked (M : Nat) (pk : Item) (s : PSt) : Prop :=
  A M 0 s ∧ s.peekCount ≥ 1 ∧ slotAt s (s.peekCount - 1) = pk

/-- `backup` right after `next`: the item just read is on top of the pushed-back ones -/
theorem backup_after_next_T (M : Nat) (tk : Item) : TermL (AfterNext M tk) backup (fun _ s => Peeked M tk s) := by
  intro s hs
  have h1 := backup_T M 0 s hs.2.1
  simp only [backup, modify] at h1 ⊢
  refine ⟨h1.1, h1.2, ?_⟩
  have := hs.2.2.1
  unfold under at this
  exact this

theorem peekNonSpace_T (M : Nat) : TermL (A M 0) peekNonSpace (Peeked M) := by
  unfold peekNonSpace
  refine TermL.bind (nextNonSpace_T M) ?_
  intro tk
  refine TermL.bind (backup_after_next_T M tk) ?_
  intro _
  exact TermL.pure tk (fun _ h => h)

theorem peek_T (M : Nat) : TermL (A M 0) peek (Peeked M) := by
  intro s hs
  unfold A at hs
  by_cases hp : s.peekCount = 0
  · have e : peek s = (nextItem s).andThen (fun it s1 => .ok it { s1 with peekCount := 1, t0 := it }) := by
      simp [peek, bind_apply, get, hp]
      cases nextItem s <;> simp [PRes.andThen, modify, bind_apply]
    rw [e]
    unfold nextItem
    cases ht : s.toks with
    | nil =>
      simp only [PRes.andThen]
      exact ⟨by simp [A, mu, bufW, wt, Item.zero], by simp, by simp [slotAt]⟩
    | cons t ts =>
      simp only [PRes.andThen]
      have hm : mu s = ts.length + 1 := by simp [mu, bufW, hp, ht]
      have := wt_le t
      exact ⟨by simp [A, mu, bufW]; omega, by simp, by simp [slotAt]⟩
  · have e : peek s = tokenAt (s.peekCount - 1) s := by
      have hpos : 0 < s.peekCount := by omega
      simp [peek, bind_apply, get, hpos]
    have hpos : s.peekCount ≥ 1 := by omega
    obtain ⟨k, hk1⟩ : ∃ k, s.peekCount = k + 1 := ⟨s.peekCount - 1, by omega⟩
    have hk : s.peekCount - 1 = k := by omega
    rw [e, hk]
    match k, hk with
    | 0, hk => exact ⟨hs, hpos, by rw [hk]; rfl⟩
    | 1, hk => exact ⟨hs, hpos, by rw [hk]; rfl⟩
    | 2, hk => exact ⟨hs, hpos, by rw [hk]; rfl⟩
    | k + 3, _ => trivial

/-- `next` after a peek that showed a non-error item consumes it -/
theorem next_after_peek_T (M : Nat) (pk : Item) (hne : pk.typ ≠ Tok.error) :
    TermL (Peeked M pk) next (fun _ s => A M 1 s) := by
  intro s hs
  obtain ⟨h0, h1, h2⟩ := hs
  have hn := next_T M s h0
  obtain ⟨k, hk1⟩ : ∃ k, s.peekCount = k + 1 := ⟨s.peekCount - 1, by omega⟩
  rw [next_pushed_eq s k hk1] at hn ⊢
  have hk : s.peekCount - 1 = k := by omega
  rw [hk] at h2
  match k, hk1, h2 with
  | 0, _, h2 => simp only [tokenAt] at hn ⊢; exact hn.2.2.2 (by simp only [slotAt] at h2; rw [h2]; exact hne)
  | 1, _, h2 => simp only [tokenAt] at hn ⊢; exact hn.2.2.2 (by simp only [slotAt] at h2; rw [h2]; exact hne)
  | 2, _, h2 => simp only [tokenAt] at hn ⊢; exact hn.2.2.2 (by simp only [slotAt] at h2; rw [h2]; exact hne)
  | k + 3, _, _ => simp only [tokenAt]

/-- `backup2 nx` after `nx` and one more item were read: both are paid for -/
theorem backup2_T (M : Nat) (nx : Item) : TermL (Bk M 1) (backup2 nx) (fun _ s => A M 0 s) := by
  intro s hs
  unfold Bk under mu bufW at hs
  simp only [backup2, modify]
  unfold A mu bufW
  have := wt_le nx
  match hp : s.peekCount with
  | 0 => simp [hp, slotAt] at hs ⊢; omega
  | 1 => simp [hp, slotAt] at hs ⊢; omega
  | 2 => simp [hp, slotAt] at hs ⊢; omega
  | k + 3 => simp [hp] at hs ⊢; omega

/-- `expect` of an item kind that is not the error kind consumes -/
theorem expect_T (M : Nat) (ty : Tok) (c e : String) (hty : ty ≠ Tok.error := by decide) :
    TermL (A M 0) (expect ty c e) (fun _ s => A M 1 s) := by
  unfold expect
  refine TermL.bind (nextNonSpace_T M) ?_
  intro tk
  refine TermL.ite (fun _ => unexpected_T _ tk c e _) ?_
  intro hc
  have ht : tk.typ = ty := by simpa using hc
  exact TermL.pure tk (fun s h => h.2.2.2 (by rw [ht]; exact hty))

theorem expectRD_T (M : Nat) (c : String) : TermL (A M 0) (expectRightDelim c) (fun _ s => A M 1 s) :=
  expect_T M _ _ _

theorem expectOneOf_T (M : Nat) (t1 t2 : Tok) (c e : String) (h1 : t1 ≠ Tok.error := by decide) (h2 : t2 ≠ Tok.error := by decide) :
    TermL (A M 0) (expectOneOf t1 t2 c e) (fun _ s => A M 1 s) := by
  unfold expectOneOf
  refine TermL.bind (nextNonSpace_T M) ?_
  intro tk
  refine TermL.ite (fun _ => unexpected_T _ tk c e _) ?_
  intro hc
  have ht : tk.typ = t1 ∨ tk.typ = t2 := by
    by_cases h : tk.typ = t1
    · exact Or.inl h
    · by_cases h' : tk.typ = t2
      · exact Or.inr h'
      · exact (hc ⟨h, h'⟩).elim
  exact TermL.pure tk (fun s h => h.2.2.2 (by rcases ht with ht | ht <;> rw [ht] <;> assumption))

theorem expectString_T (cfg : Cfg) (M : Nat) (c : String) : TermL (A M 0) (expectString cfg c) (fun _ s => A M 1 s) := by
  unfold expectString
  refine TermL.bind (expectOneOf_T M _ _ _ _) ?_
  intro tk
  split
  · exact TermL.pure _ (fun _ h => h)
  · exact errorf_T _ _ _
  · exact TermL.unsupported _
  · exact TermL.unsupported _

theorem fieldNames_T (P : PSt → Prop) (v : Bytes) : TermL P (fieldNames v) (fun _ s => P s) := by
  intro s hs
  cases v with
  | nil => simp [fieldNames, Parse.crash]
  | cons c rest => simp [fieldNames]; exact hs

theorem chainAdd_T (P : PSt → Prop) (fields : List Bytes) (v : Bytes) : TermL P (chainAdd fields v) (fun _ s => P s) := by
  intro s hs
  match v with
  | [] => simp [chainAdd, Parse.crash]
  | c :: rest =>
    by_cases hc : c = 46
    · subst hc
      by_cases hr : rest = []
      · simp [chainAdd, hr, Parse.crash]
      · simp [chainAdd, hr]; exact hs
    · have : chainAdd fields (c :: rest) = crash "no dot in field" := by
        unfold chainAdd
        split
        · rename_i h; simp at h; exact (hc h.1).elim
        · rfl
      rw [this]; trivial

theorem registerBlock_T (M c : Nat) (name : Bytes) (b : PStmt) : TermL (A M c) (registerBlock name b) (fun _ s => A M c s) := by
  intro s hs
  unfold registerBlock
  simp only [modify]
  split
  · exact hs
  · exact hs

/-- once something was consumed the ceiling is one lower -/
theorem TermL.lower {α} {m : PM α} {Q : α → PSt → Prop} (M : Nat)
    (h : 1 ≤ M → TermL (A (M - 1) 0) m Q) : TermL (A M 1) m Q := by
  intro s hs
  unfold A at hs
  exact h (by omega) s (by unfold A; omega)

theorem A.up {M c : Nat} {s : PSt} (h : A (M - 1) c s) (hM : 1 ≤ M) : A M (c + 1) s := by
  unfold A at *; omega

theorem A.weak {M c : Nat} {s : PSt} (h : A M (c + 1) s) : A M c s := by unfold A at *; omega
theorem A.weak' {M : Nat} {s : PSt} (h : A (M - 1) 0 s) : A M 0 s := by unfold A at *; omega

end JetVerif.Parse
