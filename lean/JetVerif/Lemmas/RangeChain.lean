/-
  Helper lemmas for Props/C05R.lean: how the evaluator model executes a `range` statement over a slice.

  What the model does (Model/Eval.lean):
  * `execStmt r env ins (.rangeS loc set e body els)` is `execRange r env loc set e body els`, the returned
    value handed on as the statement's `ret`.
  * zero-variable form (`set = none`, `e = some ex`): `ex` is evaluated by `r.evalExpr`, `rangeCore` asks
    `getRanger` for a ranger and runs `rangeLoop … 100000 rg true`.  No scope is opened.
  * declaring forms (`set = some st`, `st.isLet`): `st.right[0]` is evaluated FIRST (outside the loop scope),
    then ONE scope is opened around the whole loop (`withNewScopeND (rangeCore …)`) - not one per iteration -
    and released after the loop (not deferred: a failing body leaves it open).
  * every iteration runs the body by `r.execList env body` with THE SAME `r`: the body of a range executed
    by `execStmt (recAt K)` runs at `(recAt K).execList`, whatever the number of elements (no fuel per
    iteration).  The loop's own counter (`rangeLoop`'s `Nat`) starts at 100000; a slice ranger of `n`
    elements needs `n + 1` calls of `Range()`, so `n < 100000` is required, beyond it the model answers
    `unsupported "range too long"`.
  * `ret.IsValid()`: the loop stops as soon as a body returns a valid value (a `return` inside it), and
    that value is the value of the statement.
-/
import JetVerif.Lemmas.IfChain

namespace JetVerif.RangeChain
open JetVerif JetVerif.Eval JetVerif.IfChain

/-! ### the fold -/

/-- `iterate step i xs`: run `step i x₀`, `step (i+1) x₁`, … one after the other, threading the runtime;
    stop as soon as one of them returns a valid value (that value is the result), or fails.  The result
    after the last element is the invalid value.  Mirrors `for !end && !ret.IsValid()`. -/
def iterate (step : Nat → Val → M Val) : Nat → List Val → M Val
  | _, [] => pure .invalid
  | i, x :: xs => do
    let ret ← step i x
    if ret.isValid then pure ret else iterate step (i + 1) xs

theorem iterate_nil (step : Nat → Val → M Val) (i : Nat) (rt : RT) : iterate step i [] rt = .ok .invalid rt := rfl

theorem iterate_cons (step : Nat → Val → M Val) (i : Nat) (x : Val) (xs : List Val) :
    iterate step i (x :: xs) = (step i x >>= fun ret => if ret.isValid then pure ret else iterate step (i + 1) xs) := rfl

/-- an iteration that finishes without a value: the loop goes on with the next element -/
theorem iterate_cons_ok (step : Nat → Val → M Val) (i : Nat) (x : Val) (xs : List Val) (rt rt1 : RT)
    (h : step i x rt = .ok .invalid rt1) : iterate step i (x :: xs) rt = iterate step (i + 1) xs rt1 := by
  rw [iterate_cons, bind_ok h]; rfl

/-- an iteration that returns a valid value ends the loop with that value -/
theorem iterate_cons_ret (step : Nat → Val → M Val) (i : Nat) (x : Val) (xs : List Val) (rt rt1 : RT) (v : Val)
    (h : step i x rt = .ok v rt1) (hv : v.isValid = true) : iterate step i (x :: xs) rt = .ok v rt1 := by
  rw [iterate_cons, bind_ok h]; simp [hv]; rfl

theorem iterate_cons_err (step : Nat → Val → M Val) (i : Nat) (x : Val) (xs : List Val) (rt rt1 : RT) (e : Err)
    (h : step i x rt = .err e rt1) : iterate step i (x :: xs) rt = .err e rt1 := by
  rw [iterate_cons, bind_err h]

theorem iterate_cons_crash (step : Nat → Val → M Val) (i : Nat) (x : Val) (xs : List Val) (rt rt1 : RT) (m : String)
    (h : step i x rt = .crash m rt1) : iterate step i (x :: xs) rt = .crash m rt1 := by
  rw [iterate_cons, bind_crash h]

/-- the value the slice ranger hands out for element `x`: Interface-kinded for `[]interface{}` -/
def elemVal (ifc : Bool) (x : Val) : Val := if ifc then .iface x else x

/-- what `.` is bound to for element `x` (zero- and one-variable forms): the ranger's value, unwrapped by
    `indirectEface` -/
def dotOf (ifc : Bool) (x : Val) : Val := Val.indirectEface (elemVal ifc x)

/-- one iteration of `rangeLoop` for index `i` and element `x`: bind the key variable, bind the value
    variable, run the body - with `.` = the element iff there is no value variable -/
def iterStep (r : Rec) (env : Env) (set : Option SetN) (ks vs : Option Nat) (body : List Stmt) (ifc : Bool)
    (i : Nat) (x : Val) : M Val := do
  rangeBind r env set ks (.int i)
  rangeBind r env set vs (elemVal ifc x)
  if vs.isNone then withCtxND (dotOf ifc x) (r.execList env body) else r.execList env body

/-! ### the loop on a slice ranger -/

/-- one step of `rangeLoop` on a slice ranger that still has an element -/
theorem rangeLoop_cons (r : Rec) (env : Env) (set : Option SetN) (ks vs : Option Nat) (body : List Stmt)
    (els : Option (List Stmt)) (f : Nat) (x : Val) (xs : List Val) (i : Nat) (ifc first : Bool) :
    rangeLoop r env set ks vs body els (f + 1) (.sliceR (x :: xs) i ifc) first =
      (iterStep r env set ks vs body ifc i x >>= fun ret =>
        if ret.isValid then pure ret else rangeLoop r env set ks vs body els f (.sliceR xs (i + 1) ifc) false) := by
  funext rt
  simp [rangeLoop, rangerNext, iterStep, elemVal, dotOf, bind_def]
  cases rangeBind r env set ks (Val.int ↑i) rt <;> try rfl
  rename_i u rt1
  simp only []
  cases rangeBind r env set vs (if ifc = true then x.iface else x) rt1 <;> rfl

/-- the loop after at least one element: `iterate` over what is left -/
theorem rangeLoop_rest (r : Rec) (env : Env) (set : Option SetN) (ks vs : Option Nat) (body : List Stmt)
    (els : Option (List Stmt)) (ifc : Bool) : ∀ (xs : List Val) (f i : Nat), xs.length < f →
    rangeLoop r env set ks vs body els f (.sliceR xs i ifc) false = iterate (iterStep r env set ks vs body ifc) i xs := by
  intro xs
  induction xs with
  | nil =>
    intro f i hf
    obtain ⟨g, rfl⟩ : ∃ g, f = g + 1 := ⟨f - 1, by omega⟩
    funext rt
    exact Props.C05.range_end_after_elements_skips_else r env set ks vs body els g i ifc rt
  | cons x xs ih =>
    intro f i hf
    obtain ⟨g, rfl⟩ : ∃ g, f = g + 1 := ⟨f - 1, by omega⟩
    rw [rangeLoop_cons, iterate_cons, ih g (i + 1) (by simpa using hf)]

/-- **the loop over a non-empty slice ranger is the fold**, whether or not it is the first call (the else
    list plays no role) -/
theorem rangeLoop_nonempty (r : Rec) (env : Env) (set : Option SetN) (ks vs : Option Nat) (body : List Stmt)
    (els : Option (List Stmt)) (ifc first : Bool) (x : Val) (xs : List Val) (f i : Nat) (hf : (x :: xs).length < f) :
    rangeLoop r env set ks vs body els f (.sliceR (x :: xs) i ifc) first =
      iterate (iterStep r env set ks vs body ifc) i (x :: xs) := by
  obtain ⟨g, rfl⟩ : ∃ g, f = g + 1 := ⟨f - 1, by omega⟩
  rw [rangeLoop_cons, iterate_cons, rangeLoop_rest r env set ks vs body els ifc xs g (i + 1) (by simpa using hf)]

end JetVerif.RangeChain
