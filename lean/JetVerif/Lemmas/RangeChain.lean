/-
  Helper lemmas for Props/C05R.lean: how the evaluator model executes a `range` statement over a slice.

  What the model does (Model/Eval.lean):
  * `execStmt r env ins (.rangeS loc set e body els)` is `execRange r env loc set e body els`, the returned
    value handed on as the statement's `ret`.
  * zero-variable form (`set = none`, `e = some ex`): `ex` is evaluated by `r.evalExpr`, `rangeCore` asks
    `getRanger` for a ranger and runs `rangeLoop … 100000 rg true`.  No scope is opened.
  * declaring forms (`set = some st`, `st.isLet`): `st.right[0]` is evaluated FIRST (outside the loop scope),
    then ONE scope is opened around the whole loop (`withNewScopeND (rangeCore …)`) - not one per iteration -
    and released after the loop (not deferred: a failing body leaves it open).
  * every iteration runs the body by `r.execList env body` with THE SAME `r`: the body of a range executed
    by `execStmt (recAt K)` runs at `(recAt K).execList`, whatever the number of elements (no fuel per
    iteration).  The loop's own counter (`rangeLoop`'s `Nat`) starts at 100000; a slice ranger of `n`
    elements needs `n + 1` calls of `Range()`, so `n < 100000` is required, beyond it the model answers
    `unsupported "range too long"`.
  * `ret.IsValid()`: the loop stops as soon as a body returns a valid value (a `return` inside it), and
    that value is the value of the statement.
-/
import JetVerif.Lemmas.IfChain

namespace JetVerif.RangeChain
open JetVerif JetVerif.Eval JetVerif.IfChain

/-- `>>=` of the evaluator's monad is associative -/
theorem bind_assoc {α β γ} (m : M α) (f : α → M β) (g : β → M γ) :
    (m >>= f) >>= g = m >>= fun a => f a >>= g := by
  funext rt
  simp only [bind_def]
  cases m rt <;> rfl

/-! ### the fold -/

/-- `iterate step i xs`: run `step i x₀`, `step (i+1) x₁`, … one after the other, threading the runtime;
    stop as soon as one of them returns a valid value (that value is the result), or fails.  The result
    after the last element is the invalid value.  Mirrors `for !end && !ret.IsValid()`. -/
def iterate (step : Nat → Val → M Val) : Nat → List Val → M Val
  | _, [] => pure .invalid
  | i, x :: xs => do
    let ret ← step i x
    if ret.isValid then pure ret else iterate step (i + 1) xs

theorem iterate_nil (step : Nat → Val → M Val) (i : Nat) (rt : RT) : iterate step i [] rt = .ok .invalid rt := rfl

theorem iterate_cons (step : Nat → Val → M Val) (i : Nat) (x : Val) (xs : List Val) :
    iterate step i (x :: xs) = (step i x >>= fun ret => if ret.isValid then pure ret else iterate step (i + 1) xs) := rfl

/-- an iteration that finishes without a value: the loop goes on with the next element -/
theorem iterate_cons_ok (step : Nat → Val → M Val) (i : Nat) (x : Val) (xs : List Val) (rt rt1 : RT)
    (h : step i x rt = .ok .invalid rt1) : iterate step i (x :: xs) rt = iterate step (i + 1) xs rt1 := by
  rw [iterate_cons, bind_ok h]; rfl

/-- an iteration that returns a valid value ends the loop with that value -/
theorem iterate_cons_ret (step : Nat → Val → M Val) (i : Nat) (x : Val) (xs : List Val) (rt rt1 : RT) (v : Val)
    (h : step i x rt = .ok v rt1) (hv : v.isValid = true) : iterate step i (x :: xs) rt = .ok v rt1 := by
  rw [iterate_cons, bind_ok h]; simp [hv]; rfl

theorem iterate_cons_err (step : Nat → Val → M Val) (i : Nat) (x : Val) (xs : List Val) (rt rt1 : RT) (e : Err)
    (h : step i x rt = .err e rt1) : iterate step i (x :: xs) rt = .err e rt1 := by
  rw [iterate_cons, bind_err h]

theorem iterate_cons_crash (step : Nat → Val → M Val) (i : Nat) (x : Val) (xs : List Val) (rt rt1 : RT) (m : String)
    (h : step i x rt = .crash m rt1) : iterate step i (x :: xs) rt = .crash m rt1 := by
  rw [iterate_cons, bind_crash h]

/-- the value the slice ranger hands out for element `x`: Interface-kinded for `[]interface{}` -/
def elemVal (ifc : Bool) (x : Val) : Val := if ifc then .iface x else x

/-- what `.` is bound to for element `x` (zero- and one-variable forms): the ranger's value, unwrapped by
    `indirectEface` -/
def dotOf (ifc : Bool) (x : Val) : Val := Val.indirectEface (elemVal ifc x)

/-- one iteration of `rangeLoop` for index `i` and element `x`: bind the key variable, bind the value
    variable, run the body - with `.` = the element iff there is no value variable -/
def iterStep (r : Rec) (env : Env) (set : Option SetN) (ks vs : Option Nat) (body : List Stmt) (ifc : Bool)
    (i : Nat) (x : Val) : M Val := do
  rangeBind r env set ks (.int i)
  rangeBind r env set vs (elemVal ifc x)
  if vs.isNone then withCtxND (dotOf ifc x) (r.execList env body) else r.execList env body

/-! ### the loop on a slice ranger -/

/-- one step of `rangeLoop` on a slice ranger that still has an element -/
theorem rangeLoop_cons (r : Rec) (env : Env) (set : Option SetN) (ks vs : Option Nat) (body : List Stmt)
    (els : Option (List Stmt)) (f : Nat) (x : Val) (xs : List Val) (i : Nat) (ifc first : Bool) :
    rangeLoop r env set ks vs body els (f + 1) (.sliceR (x :: xs) i ifc) first =
      (iterStep r env set ks vs body ifc i x >>= fun ret =>
        if ret.isValid then pure ret else rangeLoop r env set ks vs body els f (.sliceR xs (i + 1) ifc) false) := by
  funext rt
  simp [rangeLoop, rangerNext, iterStep, elemVal, dotOf, bind_def]
  cases rangeBind r env set ks (Val.int ↑i) rt <;> try rfl
  rename_i u rt1
  simp only []
  cases rangeBind r env set vs (if ifc = true then x.iface else x) rt1 <;> rfl

/-- the loop after at least one element: `iterate` over what is left -/
theorem rangeLoop_rest (r : Rec) (env : Env) (set : Option SetN) (ks vs : Option Nat) (body : List Stmt)
    (els : Option (List Stmt)) (ifc : Bool) : ∀ (xs : List Val) (f i : Nat), xs.length < f →
    rangeLoop r env set ks vs body els f (.sliceR xs i ifc) false = iterate (iterStep r env set ks vs body ifc) i xs := by
  intro xs
  induction xs with
  | nil =>
    intro f i hf
    obtain ⟨g, rfl⟩ : ∃ g, f = g + 1 := ⟨f - 1, by omega⟩
    funext rt
    exact Props.C05.range_end_after_elements_skips_else r env set ks vs body els g i ifc rt
  | cons x xs ih =>
    intro f i hf
    obtain ⟨g, rfl⟩ : ∃ g, f = g + 1 := ⟨f - 1, by omega⟩
    rw [rangeLoop_cons, iterate_cons, ih g (i + 1) (by simpa using hf)]

/-- **the loop over a non-empty slice ranger is the fold**, whether or not it is the first call (the else
    list plays no role) -/
theorem rangeLoop_nonempty (r : Rec) (env : Env) (set : Option SetN) (ks vs : Option Nat) (body : List Stmt)
    (els : Option (List Stmt)) (ifc first : Bool) (x : Val) (xs : List Val) (f i : Nat) (hf : (x :: xs).length < f) :
    rangeLoop r env set ks vs body els f (.sliceR (x :: xs) i ifc) first =
      iterate (iterStep r env set ks vs body ifc) i (x :: xs) := by
  obtain ⟨g, rfl⟩ : ∃ g, f = g + 1 := ⟨f - 1, by omega⟩
  rw [rangeLoop_cons, iterate_cons, rangeLoop_rest r env set ks vs body els ifc xs g (i + 1) (by simpa using hf)]

/-! ### from the statement to the loop -/

/-- a slice value (typed or `[]interface{}`, nil or not) gets a slice ranger over its elements, from index 0 -/
theorem getRanger_slice (es : List Val) (ifc nl : Bool) : getRanger (.slice es ifc nl) = .ok (.sliceR es 0 ifc) := rfl

/-- a non-nil pointer to a slice, and a slice inside an interface value, are ranged like the slice -/
theorem getRanger_ptr_slice (t : String) (es : List Val) (ifc nl : Bool) :
    getRanger (.ptr t (some (.slice es ifc nl))) = .ok (.sliceR es 0 ifc) := rfl
theorem getRanger_iface_slice (es : List Val) (ifc nl : Bool) :
    getRanger (.iface (.slice es ifc nl)) = .ok (.sliceR es 0 ifc) := rfl

/-- which `Set.Left` slot receives the index: slot 0 as soon as there is a `Set` -/
def keySlotOf (set : Option SetN) : Option Nat := if set.isSome then some 0 else none
/-- which slot receives the value: slot 1 iff the `Set` has more than one left-hand side -/
def valSlotOf (set : Option SetN) : Option Nat :=
  if set.isSome && (match set with | some st => st.left.length | none => 0) > 1 then some 1 else none

/-- what a range does once the ranger is a slice ranger over `es`: the else list (or nothing) when there is
    no element, the fold over the elements otherwise -/
def loopRes (r : Rec) (env : Env) (set : Option SetN) (body : List Stmt) (els : Option (List Stmt)) (ifc : Bool)
    (es : List Val) : M Val :=
  match es with
  | [] =>
    (match els with
     | some l => r.execList env l
     | none => pure .invalid)
  | _ :: _ => iterate (iterStep r env set (keySlotOf set) (valSlotOf set) body ifc) 0 es

theorem rangeCore_slice (r : Rec) (env : Env) (loc : Loc) (set : Option SetN) (v : Val) (body : List Stmt)
    (els : Option (List Stmt)) (es : List Val) (ifc : Bool) (hv : getRanger v = .ok (.sliceR es 0 ifc))
    (hlen : es.length < 100000) :
    rangeCore r env loc set v body els = loopRes r env set body els ifc es := by
  funext rt
  have h1 : liftP (locateP loc (getRanger v)) rt = .ok (.sliceR es 0 ifc) rt := by rw [hv]; rfl
  show (liftP (locateP loc (getRanger v)) >>= fun rg =>
    rangeLoop r env set (keySlotOf set) (valSlotOf set) body els 100000 rg true) rt = _
  rw [bind_ok h1]
  cases es with
  | nil =>
    cases els with
    | some l => exact Props.C05.range_empty_runs_else r env set _ _ body l 99999 0 ifc rt
    | none => exact Props.C05.range_empty_no_else r env set _ _ body 99999 0 ifc rt
  | cons x xs => rw [rangeLoop_nonempty r env set _ _ body els ifc true x xs 100000 0 hlen]; rfl

/-- more elements than the loop counter allows and no body that returns: outside the model -/
theorem rangeLoop_too_long (r : Rec) (env : Env) (set : Option SetN) (ks vs : Option Nat) (body : List Stmt)
    (els : Option (List Stmt)) (st : RangerSt) (first : Bool) (rt : RT) :
    rangeLoop r env set ks vs body els 0 st first rt = .unsupported "range too long" := rfl

/-- a range as a statement: `execRange`, its value handed on -/
theorem execStmt_range (r : Rec) (env : Env) (ins : Bool) (loc : Loc) (set : Option SetN) (e : Option Expr)
    (body : List Stmt) (els : Option (List Stmt)) (rt : RT) :
    execStmt r env ins (.rangeS loc set e body els) rt = stmtRes ins (execRange r env loc set e body els rt) := by
  show (execRange r env loc set e body els >>= fun ret => pure (ret, Val.invalid, ins)) rt = _
  rw [bind_def]
  cases execRange r env loc set e body els rt <;> rfl

/-- a list whose only statement is a range is that range -/
theorem execListF_single_range (r : Rec) (env : Env) (loc : Loc) (set : Option SetN) (e : Option Expr)
    (body : List Stmt) (els : Option (List Stmt)) (rt : RT) :
    execListF r env [.rangeS loc set e body els] rt = execRange r env loc set e body els rt := by
  simp only [execListF, execListGo, execStmt_range]
  cases h : execRange r env loc set e body els rt <;>
    simp [stmtRes, isReturnStmt, stmtOpensLet, isValid_ite] <;> rfl

theorem execList_single_range (n : Nat) (env : Env) (loc : Loc) (set : Option SetN) (e : Option Expr)
    (body : List Stmt) (els : Option (List Stmt)) (rt : RT) :
    (recAt (n + 1)).execList env [.rangeS loc set e body els] rt = execRange (recAt n) env loc set e body els rt :=
  execListF_single_range (recAt n) env loc set e body els rt

/-- zero-variable form: evaluate the expression, then the loop; no scope -/
theorem execRange_none (r : Rec) (env : Env) (loc : Loc) (ex : Expr) (body : List Stmt) (els : Option (List Stmt))
    (rt rt1 : RT) (v : Val) (es : List Val) (ifc : Bool) (he : r.evalExpr env ex rt = .ok v rt1)
    (hv : getRanger v = .ok (.sliceR es 0 ifc)) (hlen : es.length < 100000) :
    execRange r env loc none (some ex) body els rt = loopRes r env none body els ifc es rt1 := by
  show (r.evalExpr env ex >>= fun v => rangeCore r env loc none v body els) rt = _
  rw [bind_ok he, rangeCore_slice r env loc none v body els es ifc hv hlen]

/-- forms with variables: the right-hand side is evaluated first; `:=` opens ONE scope around the whole
    loop and releases it after it, `=` opens none -/
theorem execRange_set (r : Rec) (env : Env) (loc : Loc) (st : SetN) (e : Option Expr) (rgt : Expr) (more : List Expr)
    (body : List Stmt) (els : Option (List Stmt)) (rt rt1 : RT) (v : Val) (es : List Val) (ifc : Bool)
    (hr : st.right = rgt :: more) (he : r.evalExpr env rgt rt = .ok v rt1)
    (hv : getRanger v = .ok (.sliceR es 0 ifc)) (hlen : es.length < 100000) :
    execRange r env loc (some st) e body els rt =
      (if st.isLet then withNewScopeND (loopRes r env (some st) body els ifc es) rt1
       else loopRes r env (some st) body els ifc es rt1) := by
  unfold execRange
  simp only [hr]
  rw [bind_ok he, rangeCore_slice r env loc (some st) v body els es ifc hv hlen]
  cases st.isLet <;> rfl

/-! ### the three documented forms, iteration by iteration -/

/-- zero-variable form: `.` is the element (unwrapped) for the body, and is put back after it -/
def step0 (r : Rec) (env : Env) (body : List Stmt) (ifc : Bool) (_ : Nat) (x : Val) : M Val :=
  withCtxND (dotOf ifc x) (r.execList env body)

/-- one-variable declaring form `{{range k := e}}`: the variable receives the INDEX, `.` the element -/
def step1 (r : Rec) (env : Env) (k : Bytes) (body : List Stmt) (ifc : Bool) (i : Nat) (x : Val) : M Val := do
  letVar k (.int i)
  withCtxND (dotOf ifc x) (r.execList env body)

/-- two-variable declaring form `{{range k, v := e}}`: `k` receives the index, `v` the ranger's value (for a
    `[]interface{}` the Interface-kinded value; lookups unwrap it), `.` is untouched -/
def step2 (r : Rec) (env : Env) (k v : Bytes) (body : List Stmt) (ifc : Bool) (i : Nat) (x : Val) : M Val := do
  letVar k (.int i)
  letVar v (elemVal ifc x)
  r.execList env body

theorem iterStep_none (r : Rec) (env : Env) (body : List Stmt) (ifc : Bool) :
    iterStep r env none (keySlotOf none) (valSlotOf none) body ifc = step0 r env body ifc := by
  funext i x rt; rfl

theorem iterStep_one (r : Rec) (env : Env) (st : SetN) (lk : Loc) (k : Bytes) (body : List Stmt) (ifc : Bool)
    (hlet : st.isLet = true) (hl : st.left = [.ident lk k]) :
    iterStep r env (some st) (keySlotOf (some st)) (valSlotOf (some st)) body ifc = step1 r env k body ifc := by
  funext i x rt
  simp [iterStep, keySlotOf, valSlotOf, hl, rangeBind, hlet, step1, bind_def]
  cases letVar k (Val.int ↑i) rt <;> rfl

theorem iterStep_two (r : Rec) (env : Env) (st : SetN) (lk lv : Loc) (k v : Bytes) (body : List Stmt) (ifc : Bool)
    (hlet : st.isLet = true) (hl : st.left = [.ident lk k, .ident lv v]) :
    iterStep r env (some st) (keySlotOf (some st)) (valSlotOf (some st)) body ifc = step2 r env k v body ifc := by
  funext i x rt
  simp [iterStep, keySlotOf, valSlotOf, hl, rangeBind, hlet, step2, bind_def]

/-- `.` after a zero-variable iteration that finished is what it was before -/
theorem step0_ctx (r : Rec) (env : Env) (body : List Stmt) (ifc : Bool) (i : Nat) (x a : Val) (rt rt' : RT)
    (h : step0 r env body ifc i x rt = .ok a rt') : rt'.ctx = rt.ctx := by
  unfold step0 withCtxND at h
  split at h
  · cases h; rfl
  · rename_i hne; exact absurd h (by intro h'; exact hne _ _ h')

/-- … hence after the whole fold -/
theorem iterate_step0_ctx (r : Rec) (env : Env) (body : List Stmt) (ifc : Bool) : ∀ (xs : List Val) (i : Nat) (a : Val)
    (rt rt' : RT), iterate (step0 r env body ifc) i xs rt = .ok a rt' → rt'.ctx = rt.ctx := by
  intro xs
  induction xs with
  | nil => intro i a rt rt' h; cases h; rfl
  | cons x xs ih =>
    intro i a rt rt' h
    rw [iterate_cons, bind_def] at h
    cases h1 : step0 r env body ifc i x rt with
    | ok b rt1 =>
      rw [h1] at h
      have hc := step0_ctx r env body ifc i x b rt rt1 h1
      by_cases hb : b.isValid = true
      · simp [hb] at h; cases h; exact hc
      · simp [hb] at h; rw [ih (i + 1) a rt1 rt' h, hc]
    | err e rt1 => rw [h1] at h; cases h
    | crash m rt1 => rw [h1] at h; cases h
    | fuel => rw [h1] at h; cases h
    | unsupported w => rw [h1] at h; cases h

/-! ### text bodies -/

open JetVerif.TextOnly

/-- the chunks of `n` renderings of a text-only body -/
def repeated (n : Nat) (cs : List Chunk) : List Chunk := (List.replicate n cs).flatten

theorem repeated_succ (n : Nat) (cs : List Chunk) : repeated (n + 1) cs = cs ++ repeated n cs := by
  simp [repeated, List.replicate_succ]

/-- one zero-variable iteration over a text-only body: the body's chunks are appended, `.` is put back,
    nothing else changes -/
theorem step0_texts (m : Nat) (env : Env) (loc : Loc) (bs : List Bytes) (ifc : Bool) (i : Nat) (x : Val) (rt : RT) :
    step0 (recAt (m + 1)) env (bs.map (Stmt.text loc)) ifc i x rt =
      .ok .invalid (appendTo rt rt.writer (bs.map litChunk)) := by
  unfold step0 withCtxND
  rw [exec_texts_body m env loc bs]
  simp only [appendTo]
  cases rt.writer.idx <;> rfl

theorem iterate_step0_texts (m : Nat) (env : Env) (loc : Loc) (bs : List Bytes) (ifc : Bool) :
    ∀ (xs : List Val) (i : Nat) (rt : RT),
      iterate (step0 (recAt (m + 1)) env (bs.map (Stmt.text loc)) ifc) i xs rt =
        .ok .invalid (appendTo rt rt.writer (repeated xs.length (bs.map litChunk))) := by
  intro xs
  induction xs with
  | nil => intro i rt; simp [iterate_nil, repeated, appendTo_nil]
  | cons x xs ih =>
    intro i rt
    rw [iterate_cons_ok _ i x xs rt _ (step0_texts m env loc bs ifc i x rt), ih, appendTo_writer,
      appendTo_appendTo, List.length_cons, repeated_succ]

/-- `[{{range x}}texts{{else}}texts'{{end}}]` run at fuel `m + 2` from a runtime where the identifier stands
    for a value that ranges as a slice of `es`: the body's chunks once per element, or the else chunks -/
theorem run_range_texts (m : Nat) (env : Env) (loc le lb : Loc) (name : Bytes) (bs : List Bytes)
    (fin : Option (List Bytes)) (rt : RT) (v : Val) (es : List Val) (ifc : Bool)
    (hx : lookupVal env rt name = some v) (hv : getRanger v = .ok (.sliceR es 0 ifc)) (hlen : es.length < 100000) :
    (recAt (m + 2)).execList env
        [.rangeS loc none (some (.ident le name)) (bs.map (Stmt.text lb)) (fin.map fun f => f.map (Stmt.text lb))] rt =
      .ok .invalid (appendTo rt rt.writer
        (match es with
         | [] => (fin.getD []).map litChunk
         | _ :: _ => repeated es.length (bs.map litChunk))) := by
  have he : (recAt (m + 1)).evalExpr env (.ident le name) rt = .ok v rt := by
    rw [evalExpr_ident, hx]
  rw [execList_single_range, execRange_none (recAt (m + 1)) env loc _ _ _ rt rt v es ifc he hv hlen]
  cases es with
  | nil =>
    cases fin with
    | none => simp [loopRes, appendTo_nil]; rfl
    | some f => simpa [loopRes] using exec_texts_body m env lb f rt
  | cons x xs =>
    simp only [loopRes, iterStep_none]
    exact iterate_step0_texts m env lb bs ifc (x :: xs) 0 rt

/-! ### the erasure of the parser's tree for a range node

  `IfChain.eraseS` restates `Driver/ExecSrc.lean`'s `stmtA` (a `partial def`) for text nodes and `if` nodes
  only; it answers `none` on `.branch false …`.  Its `.branch` case with `isIf = false` is restated here:
  the node at line `l` becomes `.rangeS ⟨path, l⟩ set' e' body' els'` with `set'` = `setA` of the `Set`
  (`eraseSet`: position, `isLet`, `lookup`, both sides through `exprA`), `e'` = `optA` of the expression,
  and body / else list through `list.mapM stmtA` / `optListA` (here `IfChain.eraseL` / `eraseO`, i.e. bodies
  made of text and `if` nodes; expressions are the leaf expressions of `IfChain.eraseE`). -/

def eraseEs (path : Bytes) : List Parse.PExpr → Option (List Expr)
  | [] => some []
  | e :: rest =>
    match eraseE path e, eraseEs path rest with
    | some a, some b => some (a :: b)
    | _, _ => none

/-- `setA` -/
def eraseSet (path : Bytes) (s : Parse.PSet) : Option SetN :=
  match eraseEs path s.left, eraseEs path s.right with
  | some l, some r => some { loc := ⟨path, s.line⟩, isLet := s.isLet, lookup := s.lookup, left := l, right := r }
  | _, _ => none

/-- `stmtA` on a range node (everything else: `IfChain.eraseS`) -/
def eraseR (path : Bytes) : Parse.PStmt → Option Stmt
  | .branch false l set e _ list els =>
    let set' : Option (Option SetN) := match set with
      | none => some none
      | some x => (eraseSet path x).map some
    let e' : Option (Option Expr) := match e with
      | none => some none
      | some x => (eraseE path x).map some
    match set', e', eraseL path list, eraseO path els with
    | some s, some ex, some body, some el => some (.rangeS ⟨path, l⟩ s ex body el)
    | _, _, _, _ => none
  | s => eraseS path s

open JetVerif.StmtGrammar JetVerif.Props.C05P

/-- the evaluator's statement for `{{range x}}texts[{{else}}texts']{{end}}`, every node on line 1 of `path` -/
def rangeStmt0 (path : Bytes) (name : Bytes) (bs : List Bytes) (fin : Option (List Bytes)) : Stmt :=
  .rangeS ⟨path, 1⟩ none (some (.ident ⟨path, 1⟩ name)) (bs.map (Stmt.text ⟨path, 1⟩)) (eFin path fin)

/-- the evaluator's statement for `{{range k, v := x}}texts[{{else}}texts']{{end}}` -/
def rangeStmt2 (path : Bytes) (k v name : Bytes) (bs : List Bytes) (fin : Option (List Bytes)) : Stmt :=
  .rangeS ⟨path, 1⟩
    (some { loc := ⟨path, 1⟩, isLet := true, lookup := false,
            left := [.ident ⟨path, 1⟩ k, .ident ⟨path, 1⟩ v], right := [.ident ⟨path, 1⟩ name] })
    none (bs.map (Stmt.text ⟨path, 1⟩)) (eFin path fin)

/-- the tree C05P promises for the zero-variable spelling erases to `rangeStmt0` -/
theorem eraseR_range0 (path name : Bytes) (bs : List Bytes) (fin : Option (List Bytes)) :
    eraseR path (.branch false 1 (setV .none (ExprGrammar.tree7 (atom7 name))) (exprV .none (ExprGrammar.tree7 (atom7 name))) 1
      (treeL (textsL bs)) ((fin.map textsL).map fun l => (1, treeL l))) = some (rangeStmt0 path name bs fin) := by
  cases fin <;>
    simp [eraseR, setV, exprV, tree7_atom7, eraseE, treeL_textsL, eraseL_texts, eraseO, rangeStmt0, eFin]

/-- … and for the two-variable spelling to `rangeStmt2` -/
theorem eraseR_range2 (path k v name : Bytes) (bs : List Bytes) (fin : Option (List Bytes)) :
    eraseR path (.branch false 1 (setV (.two k v) (ExprGrammar.tree7 (atom7 name))) (exprV (.two k v) (ExprGrammar.tree7 (atom7 name))) 1
      (treeL (textsL bs)) ((fin.map textsL).map fun l => (1, treeL l))) = some (rangeStmt2 path k v name bs fin) := by
  cases fin <;>
    simp [eraseR, setV, exprV, tree7_atom7, eraseE, eraseEs, eraseSet, treeL_textsL, eraseL_texts, eraseO, rangeStmt2, eFin]

/-- `rangeStmt0` as the root of a template, from the runtime `Execute` sets up -/
theorem run_rangeStmt0_init (m : Nat) (env : Env) (path name : Bytes) (bs : List Bytes) (fin : Option (List Bytes))
    (t : Tmpl) (vars : List (Bytes × Val)) (data : Val) (v : Val) (es : List Val) (ifc : Bool)
    (hx : identVal env vars data name = some v) (hv : getRanger v = .ok (.sliceR es 0 ifc)) (hlen : es.length < 100000) :
    (recAt (m + 2)).execList env [rangeStmt0 path name bs fin] (initRT t vars data) =
      .ok .invalid (appendTo (initRT t vars data) (initRT t vars data).writer
        (match es with
         | [] => (fin.getD []).map litChunk
         | _ :: _ => repeated es.length (bs.map litChunk))) :=
  run_range_texts m env _ _ _ name bs fin _ v es ifc (by rw [lookupVal_initRT, hx]) hv hlen

/-! ### the two-variable form over a text body, from the runtime `Execute` sets up

  The loop scope is a new frame; `letVar` re-assigns `k` and `v` in it each time round, the text goes to
  `Execute`'s writer.  `Writable` is what is needed for that and is kept by every step. -/

/-- the current scope exists and has a variable map; output goes to `Execute`'s writer -/
def Writable (rt : RT) : Prop :=
  (∃ cur rest f vs, rt.scope = cur :: rest ∧ frameAt rt cur = some f ∧ f.vars = some vs) ∧ rt.writer = .top

theorem letVar_writable (n : Bytes) (v : Val) (rt : RT) (h : Writable rt) :
    ∃ rt', letVar n v rt = .ok () rt' ∧ Writable rt' ∧ rt'.sink = rt.sink ∧ rt'.log = rt.log ∧ rt'.scope = rt.scope := by
  obtain ⟨⟨cur, rest, f, vs, hs, hf, hv⟩, hw⟩ := h
  refine ⟨setFrame rt cur { f with vars := some (aset n v vs) }, ?_, ⟨⟨cur, rest, { f with vars := some (aset n v vs) }, aset n v vs, hs, ?_, rfl⟩, hw⟩, rfl, rfl, rfl⟩
  · simp [letVar, hs, hf, hv]
  · simp only [frameAt, setFrame] at hf ⊢
    have hlt : cur < rt.frames.length := by
      rcases Nat.lt_or_ge cur rt.frames.length with h | h
      · exact h
      · rw [List.getElem?_eq_none h] at hf; cases hf
    simp [hlt]

theorem step2_texts (m : Nat) (env : Env) (loc : Loc) (k v : Bytes) (bs : List Bytes) (ifc : Bool) (i : Nat) (x : Val)
    (rt : RT) (h : Writable rt) :
    ∃ rt', step2 (recAt (m + 1)) env k v (bs.map (Stmt.text loc)) ifc i x rt = .ok .invalid rt' ∧ Writable rt' ∧
      rt'.sink 0 = (bs.map litChunk).reverse ++ rt.sink 0 ∧ rt'.log = rt.log ∧ rt'.scope = rt.scope := by
  obtain ⟨rt1, h1, w1, s1, l1, c1⟩ := letVar_writable k (.int i) rt h
  obtain ⟨rt2, h2, w2, s2, l2, c2⟩ := letVar_writable v (elemVal ifc x) rt1 w1
  refine ⟨appendTo rt2 rt2.writer (bs.map litChunk), ?_, ?_, ?_, ?_, ?_⟩
  · show (letVar k (.int i) >>= fun _ => letVar v (elemVal ifc x) >>= fun _ => (recAt (m + 1)).execList env _) rt = _
    rw [bind_ok h1, bind_ok h2, exec_texts_body]
  · obtain ⟨⟨cur, rest, f, vs, hs, hf, hv⟩, hw⟩ := w2
    exact ⟨⟨cur, rest, f, vs, by simpa [appendTo, hw, Wr.idx] using hs, by simpa [appendTo, hw, Wr.idx, frameAt] using hf, hv⟩,
      by simp [appendTo_writer, hw]⟩
  · simp [appendTo, w2.2, Wr.idx, s2, s1]
  · simp [appendTo, w2.2, Wr.idx, l2, l1]
  · simp [appendTo, w2.2, Wr.idx, c2, c1]

theorem iterate_step2_texts (m : Nat) (env : Env) (loc : Loc) (k v : Bytes) (bs : List Bytes) (ifc : Bool) :
    ∀ (xs : List Val) (i : Nat) (rt : RT), Writable rt →
      ∃ rt', iterate (step2 (recAt (m + 1)) env k v (bs.map (Stmt.text loc)) ifc) i xs rt = .ok .invalid rt' ∧ Writable rt' ∧
        rt'.sink 0 = (repeated xs.length (bs.map litChunk)).reverse ++ rt.sink 0 ∧ rt'.log = rt.log ∧ rt'.scope = rt.scope := by
  intro xs
  induction xs with
  | nil => intro i rt h; exact ⟨rt, rfl, h, by simp [repeated], rfl, rfl⟩
  | cons x xs ih =>
    intro i rt h
    obtain ⟨rt1, h1, w1, s1, l1, c1⟩ := step2_texts m env loc k v bs ifc i x rt h
    obtain ⟨rt2, h2, w2, s2, l2, c2⟩ := ih (i + 1) rt1 w1
    refine ⟨rt2, ?_, w2, ?_, by rw [l2, l1], by rw [c2, c1]⟩
    · rw [iterate_cons_ok _ i x xs rt rt1 h1, h2]
    · rw [s2, s1, List.length_cons, repeated_succ]; simp

/-- `[{{range k, v := x}}texts[{{else}}texts']{{end}}]` from the runtime `Execute` sets up -/
theorem run_rangeStmt2_init (m : Nat) (env : Env) (path k vn name : Bytes) (bs : List Bytes) (fin : Option (List Bytes))
    (t : Tmpl) (vars : List (Bytes × Val)) (data : Val) (v : Val) (es : List Val) (ifc : Bool)
    (hx : identVal env vars data name = some v) (hv : getRanger v = .ok (.sliceR es 0 ifc)) (hlen : es.length < 100000) :
    ∃ rt', (recAt (m + 2)).execList env [rangeStmt2 path k vn name bs fin] (initRT t vars data) = .ok .invalid rt' ∧
      rt'.sink 0 = (match es with
         | [] => (fin.getD []).map litChunk
         | _ :: _ => repeated es.length (bs.map litChunk)).reverse ∧ rt'.log = [] := by
  have he : (recAt (m + 1)).evalExpr env (.ident ⟨path, 1⟩ name) (initRT t vars data) = .ok v (initRT t vars data) := by
    rw [evalExpr_ident_init, hx]
  rw [rangeStmt2, execList_single_range,
    execRange_set (recAt (m + 1)) env _ _ none _ [] _ _ _ _ v es ifc rfl he hv hlen]
  simp only [if_true]
  -- the loop scope
  let rtN : RT := { initRT t vars data with
    frames := (initRT t vars data).frames ++ [{ vars := some [], blocks := t.blocks }], scope := 1 :: [0] }
  have hN : newScope (initRT t vars data) = .ok () rtN := rfl
  have wN : Writable rtN := ⟨⟨1, [0], { vars := some [], blocks := t.blocks }, [], rfl, rfl, rfl⟩, rfl⟩
  unfold withNewScopeND
  rw [bind_ok hN]
  cases es with
  | nil =>
    cases fin with
    | none => exact ⟨_, rfl, rfl, rfl⟩
    | some f =>
      have hb : loopRes (recAt (m + 1)) env
          (some { loc := ⟨path, 1⟩, isLet := true, lookup := false, left := [.ident ⟨path, 1⟩ k, .ident ⟨path, 1⟩ vn],
                  right := [.ident ⟨path, 1⟩ name] })
          (bs.map (Stmt.text ⟨path, 1⟩)) (eFin path (some f)) ifc [] rtN =
          .ok .invalid (appendTo rtN rtN.writer (f.map litChunk)) := exec_texts_body m env _ f rtN
      rw [bind_ok hb]
      exact ⟨_, rfl, by simp [appendTo, rtN, initRT, Wr.idx], rfl⟩
  | cons x xs =>
    have hst := iterStep_two (recAt (m + 1)) env
      { loc := ⟨path, 1⟩, isLet := true, lookup := false, left := [.ident ⟨path, 1⟩ k, .ident ⟨path, 1⟩ vn],
        right := [.ident ⟨path, 1⟩ name] } ⟨path, 1⟩ ⟨path, 1⟩ k vn (bs.map (Stmt.text ⟨path, 1⟩)) ifc rfl rfl
    simp only [loopRes, hst]
    obtain ⟨rt2, h2, w2, s2, l2, c2⟩ := iterate_step2_texts m env ⟨path, 1⟩ k vn bs ifc (x :: xs) 0 rtN wN
    rw [bind_ok h2]
    have hsc : rt2.scope = 1 :: [0] := c2
    refine ⟨{ rt2 with scope := [0] }, ?_, ?_, ?_⟩
    · simp [releaseScope, bind_def, hsc]; rfl
    · simpa [rtN, initRT] using s2
    · simpa [rtN, initRT] using l2

end JetVerif.RangeChain
