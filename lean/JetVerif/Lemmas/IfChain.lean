/-
  Helper lemmas for Props/C05E.lean: how the evaluator model executes an if / else-if / else chain,
  i.e. the nested `Stmt.ifS` shape the parser builds (`{{else if c}}` = an else list whose only
  statement is the next `if`; Props/C05P `if_chain_is_parsed_as_written`).

  What the model does (Model/Eval.lean):
  * `execStmt r env ins (.ifS loc none c t els)` is `ifBranches r env c t els`, the returned value
    passed on; an `if` without `:=` opens NO scope of its own (`execIf`, case `none`).  The chosen list
    is run by `r.execList`, which opens a let-scope only if the list itself contains a `:=` action and
    releases it at the end of the list (`execListF`).
  * `(recAt (n+1)).execList env [s]` for `s` an `if` without `:=` is `ifBranches (recAt n) …`: a nested
    else list costs one unit of fuel (`execListF_single_if`).  Hence in a chain run at fuel `K` the
    j-th condition (j = 0, 1, …) is evaluated by `(recAt (K - j)).evalExpr` and the j-th body, when
    chosen, by `(recAt (K - j)).execList`; a final else list runs at the fuel of the last condition.
-/
import JetVerif.Lemmas.EvalGood
import JetVerif.Lemmas.TextOnly
import JetVerif.Props.C05
import JetVerif.Props.C05P

namespace JetVerif.IfChain
open JetVerif JetVerif.Eval

/-- one clause of a chain: `{{if cond}} body` or `{{else if cond}} body`; `loc` is the node's position -/
structure Clause where
  loc : Loc
  cond : Expr
  body : List Stmt

/-- what follows the body of a clause: nothing (`{{end}}`), the final else list, or - for
    `{{else if …}}` - an else list whose ONLY statement is the next `if` of the chain -/
def chainElse : List Clause → Option (List Stmt) → Option (List Stmt)
  | [], fin => fin
  | cl :: more, fin => some [.ifS cl.loc none cl.cond cl.body (chainElse more fin)]

/-- `if c₀ then b₀ else if c₁ then b₁ … [else fin]` as nested `ifS` nodes (first clause `cl`, the
    `else if` clauses `more`, the optional final else list `fin`) -/
def chainStmt (cl : Clause) (more : List Clause) (fin : Option (List Stmt)) : Stmt :=
  .ifS cl.loc none cl.cond cl.body (chainElse more fin)

theorem chainElse_cons (cl : Clause) (more : List Clause) (fin : Option (List Stmt)) :
    chainElse (cl :: more) fin = some [chainStmt cl more fin] := rfl

/-- the result of an `if` statement, given the result of its branches: the value is handed on as the
    statement's `ret`, there is no `return` override, the list's let-scope flag is untouched -/
def stmtRes (ins : Bool) : Res Val → Res (Val × Val × Bool)
  | .ok v rt => .ok (v, .invalid, ins) rt
  | .err e rt => .err e rt
  | .crash m rt => .crash m rt
  | .fuel => .fuel
  | .unsupported w => .unsupported w

theorem isValid_ite (v : Val) : (if v.isValid then v else Val.invalid) = v := by
  cases v <;> simp [Val.isValid]

/-- an `if` without `:=` as a statement: its two branches, no scope of its own -/
theorem execStmt_if (r : Rec) (env : Env) (ins : Bool) (loc : Loc) (c : Expr) (t : List Stmt)
    (els : Option (List Stmt)) (rt : RT) :
    execStmt r env ins (.ifS loc none c t els) rt = stmtRes ins (ifBranches r env c t els rt) := by
  have h : execIf r env none c t els = ifBranches r env c t els := rfl
  show (execIf r env none c t els >>= fun ret => pure (ret, Val.invalid, ins)) rt = _
  rw [bind_def, h]
  cases ifBranches r env c t els rt <;> rfl

/-- a list whose only statement is an `if` without `:=` is that `if`: same value, same runtime, same
    failure; no let-scope is opened or released by the list -/
theorem execListF_single_if (r : Rec) (env : Env) (loc : Loc) (c : Expr) (t : List Stmt)
    (els : Option (List Stmt)) (rt : RT) :
    execListF r env [.ifS loc none c t els] rt = ifBranches r env c t els rt := by
  simp only [execListF, execListGo, execStmt_if]
  cases h : ifBranches r env c t els rt <;>
    simp [stmtRes, isReturnStmt, stmtOpensLet, isValid_ite] <;> rfl

/-- the same at a concrete fuel: the nested list costs one unit -/
theorem execList_single_if (n : Nat) (env : Env) (loc : Loc) (c : Expr) (t : List Stmt)
    (els : Option (List Stmt)) (rt : RT) :
    (recAt (n + 1)).execList env [.ifS loc none c t els] rt = ifBranches (recAt n) env c t els rt :=
  execListF_single_if (recAt n) env loc c t els rt

/-- running what follows a falsy condition, at fuel `K`: the else part `chainElse cs fin` if there is
    one (`r.execList` on it), nothing otherwise.  This is exactly the else case of `ifBranches`. -/
def elsePart (K : Nat) (env : Env) (cs : List Clause) (fin : Option (List Stmt)) : M Val :=
  match chainElse cs fin with
  | some l => (recAt K).execList env l
  | none => pure .invalid

theorem elsePart_cons (K : Nat) (env : Env) (cl : Clause) (more : List Clause) (fin : Option (List Stmt)) (rt : RT) :
    elsePart (K + 1) env (cl :: more) fin rt =
      ifBranches (recAt K) env cl.cond cl.body (chainElse more fin) rt :=
  execList_single_if K env cl.loc cl.cond cl.body _ rt

theorem elsePart_nil_some (K : Nat) (env : Env) (l : List Stmt) :
    elsePart K env [] (some l) = (recAt K).execList env l := rfl

theorem elsePart_nil_none (K : Nat) (env : Env) (rt : RT) :
    elsePart K env [] none rt = .ok .invalid rt := rfl

/-- the chain as a statement is its first `if` -/
theorem execStmt_chain (K : Nat) (env : Env) (ins : Bool) (cl : Clause) (more : List Clause)
    (fin : Option (List Stmt)) (rt : RT) :
    execStmt (recAt K) env ins (chainStmt cl more fin) rt = stmtRes ins (elsePart (K + 1) env (cl :: more) fin rt) := by
  rw [elsePart_cons]; exact execStmt_if _ _ _ _ _ _ _ _

/-! ### one step -/

theorem ifBranches_falsy (K : Nat) (env : Env) (c : Expr) (t : List Stmt) (cs : List Clause)
    (fin : Option (List Stmt)) (rt rt1 : RT) (v : Val)
    (hc : (recAt K).evalExpr env c rt = .ok v rt1) (hv : Val.isTrue v = some false) :
    ifBranches (recAt K) env c t (chainElse cs fin) rt = elsePart K env cs fin rt1 := by
  unfold elsePart
  cases h : chainElse cs fin with
  | some l => exact Props.C05.if_falsy_runs_else _ env c t l rt rt1 v hc hv
  | none => exact Props.C05.if_falsy_no_else_runs_nothing _ env c t rt rt1 v hc hv

theorem ifBranches_err (r : Rec) (env : Env) (c : Expr) (t : List Stmt) (els : Option (List Stmt))
    (rt rt1 : RT) (e : Err) (hc : r.evalExpr env c rt = .err e rt1) :
    ifBranches r env c t els rt = .err e rt1 := by
  unfold ifBranches; exact bind_err hc

theorem ifBranches_crash (r : Rec) (env : Env) (c : Expr) (t : List Stmt) (els : Option (List Stmt))
    (rt rt1 : RT) (m : String) (hc : r.evalExpr env c rt = .crash m rt1) :
    ifBranches r env c t els rt = .crash m rt1 := by
  unfold ifBranches; exact bind_crash hc

/-! ### a prefix of falsy clauses -/

/-- `Falsy env M pre rt rt'`: evaluated one after the other from runtime `rt`, the conditions of `pre`
    all succeed with a falsy value and leave runtime `rt'`; the LAST one is evaluated at fuel `M + 1`,
    the one before at `M + 2`, …, the first at `M + pre.length` (so whatever comes next in the chain is
    at fuel `M`). -/
inductive Falsy (env : Env) (M : Nat) : List Clause → RT → RT → Prop
  | nil (rt : RT) : Falsy env M [] rt rt
  | cons {cl : Clause} {more : List Clause} {rt rt1 rt' : RT} {v : Val} :
      (recAt (M + more.length + 1)).evalExpr env cl.cond rt = .ok v rt1 → Val.isTrue v = some false →
      Falsy env M more rt1 rt' → Falsy env M (cl :: more) rt rt'

/-- conditions that do not touch the runtime and whose value does not depend on the fuel (literals,
    identifiers, …): enough to know each of them is falsy at every fuel ≥ 1 -/
theorem Falsy.of_forall (env : Env) (M : Nat) (rt : RT) : ∀ (pre : List Clause),
    (∀ cl ∈ pre, ∀ n, ∃ v, (recAt (n + 1)).evalExpr env cl.cond rt = .ok v rt ∧ Val.isTrue v = some false) →
    Falsy env M pre rt rt
  | [], _ => .nil rt
  | cl :: more, h => by
    obtain ⟨v, h1, h2⟩ := h cl (by simp) (M + more.length)
    exact .cons h1 h2 (Falsy.of_forall env M rt more (fun c hc => h c (by simp [hc])))

/-- after a falsy prefix the chain goes on with the rest, `pre.length` units of fuel further down
    (`elsePart (K + 1)` evaluates its first condition at fuel `K`) -/
theorem elsePart_skip (env : Env) (M : Nat) (fin : Option (List Stmt)) (rest : List Clause) :
    ∀ (pre : List Clause) (rt rt1 : RT), Falsy env M pre rt rt1 →
      elsePart (M + pre.length + 1) env (pre ++ rest) fin rt = elsePart (M + 1) env rest fin rt1 := by
  intro pre rt rt1 h
  induction h with
  | nil rt => rfl
  | @cons cl more rt rt1 rt' v hc hv _ ih =>
    show elsePart (M + more.length + 1 + 1) env (cl :: (more ++ rest)) fin rt = _
    rw [elsePart_cons, ifBranches_falsy _ env _ _ _ fin rt rt1 v hc hv, ih]

/-! ### the chain, at the level of the else part -/

/-- the first truthy clause: its body, and nothing else, is executed -/
theorem elsePart_truthy (env : Env) (M : Nat) (fin : Option (List Stmt)) (pre : List Clause) (cl : Clause)
    (post : List Clause) (rt rt1 rt2 : RT) (v : Val) (hpre : Falsy env M pre rt rt1)
    (hc : (recAt M).evalExpr env cl.cond rt1 = .ok v rt2) (hv : Val.isTrue v = some true) :
    elsePart (M + pre.length + 1) env (pre ++ cl :: post) fin rt = (recAt M).execList env cl.body rt2 := by
  rw [elsePart_skip env M fin (cl :: post) pre rt rt1 hpre, elsePart_cons]
  exact Props.C05.if_truthy_runs_then _ env _ _ _ rt1 rt2 v hc hv

/-- every clause falsy: the final else list, or nothing -/
theorem elsePart_allFalsy (env : Env) (M : Nat) (fin : Option (List Stmt)) (cs : List Clause)
    (rt rt1 : RT) (h : Falsy env M cs rt rt1) :
    elsePart (M + cs.length + 1) env cs fin rt = elsePart (M + 1) env [] fin rt1 := by
  have := elsePart_skip env M fin [] cs rt rt1 h
  rwa [List.append_nil] at this

/-- a condition that fails after a falsy prefix: the chain fails with that error -/
theorem elsePart_err (env : Env) (M : Nat) (fin : Option (List Stmt)) (pre : List Clause) (cl : Clause)
    (post : List Clause) (rt rt1 rt2 : RT) (e : Err) (hpre : Falsy env M pre rt rt1)
    (hc : (recAt M).evalExpr env cl.cond rt1 = .err e rt2) :
    elsePart (M + pre.length + 1) env (pre ++ cl :: post) fin rt = .err e rt2 := by
  rw [elsePart_skip env M fin (cl :: post) pre rt rt1 hpre, elsePart_cons]
  exact ifBranches_err _ env _ _ _ rt1 rt2 e hc

theorem elsePart_crash (env : Env) (M : Nat) (fin : Option (List Stmt)) (pre : List Clause) (cl : Clause)
    (post : List Clause) (rt rt1 rt2 : RT) (m : String) (hpre : Falsy env M pre rt rt1)
    (hc : (recAt M).evalExpr env cl.cond rt1 = .crash m rt2) :
    elsePart (M + pre.length + 1) env (pre ++ cl :: post) fin rt = .crash m rt2 := by
  rw [elsePart_skip env M fin (cl :: post) pre rt rt1 hpre, elsePart_cons]
  exact ifBranches_crash _ env _ _ _ rt1 rt2 m hc

/-- the chain as the only statement of a list (an else list, a body, a template root) -/
theorem execList_chain (K : Nat) (env : Env) (cl : Clause) (more : List Clause) (fin : Option (List Stmt)) :
    (recAt (K + 1)).execList env [chainStmt cl more fin] = elsePart (K + 1) env (cl :: more) fin := rfl

/-! ### identifiers as conditions -/

/-- `Runtime.resolve` as a function of the runtime (it never changes it) -/
def lookupVal (env : Env) (rt : RT) (name : Bytes) : Option Val :=
  if name = [46] then some rt.ctx
  else match lookupChain rt name rt.scope with
    | some (_, v) => some v.indirectEface
    | none =>
      match alookup name env.globals with
      | some v => some v.indirectEface
      | none => defaultVar name

theorem resolve_eq (env : Env) (name : Bytes) (rt : RT) : resolve env name rt = .ok (lookupVal env rt name) rt := by
  unfold resolve lookupVal
  by_cases h : name = [46]
  · simp [h]
  · simp only [h, if_false]
    cases lookupChain rt name rt.scope with
    | some p => rfl
    | none =>
      cases alookup name env.globals with
      | some v => rfl
      | none => cases defaultVar name <;> rfl

/-- the error of an identifier that is bound nowhere -/
def notAvailable (loc : Loc) : Err := { located := true, loc := loc, what := "identifier not available" }

/-- an identifier evaluates to what `resolve` finds, at every fuel ≥ 1, and leaves the runtime alone -/
theorem evalExpr_ident (n : Nat) (env : Env) (loc : Loc) (name : Bytes) (rt : RT) :
    (recAt (n + 1)).evalExpr env (.ident loc name) rt =
      match lookupVal env rt name with
      | some v => .ok v rt
      | none => .err (notAvailable loc) rt := by
  show (resolve env name >>= fun o => match o with
    | some v => pure v | none => errAt loc "identifier not available") rt = _
  rw [bind_ok (resolve_eq env name rt)]
  cases lookupVal env rt name <;> rfl

/-- what an identifier stands for at the start of `Template.Execute(w, vars, data)`: `.` is the data;
    otherwise the variable of that name, else the global, else the built-in (interface values unwrapped) -/
def identVal (env : Env) (vars : List (Bytes × Val)) (data : Val) (name : Bytes) : Option Val :=
  if name = [46] then some data
  else match alookup name vars with
    | some v => some v.indirectEface
    | none =>
      match alookup name env.globals with
      | some v => some v.indirectEface
      | none => defaultVar name

theorem lookupVal_initRT (env : Env) (t : Tmpl) (vars : List (Bytes × Val)) (data : Val) (name : Bytes) :
    lookupVal env (initRT t vars data) name = identVal env vars data name := by
  unfold lookupVal identVal
  simp only [initRT, lookupChain, frameAt, List.getElem?_cons_zero]
  cases alookup name vars <;> rfl

/-! ### the erasure of the parser's tree, for text and `if` nodes

  `Driver/ExecSrc.lean`'s `stmtA` / `exprA` / `optListA` turn the parser's tree into the evaluator's; they
  are `partial def`s, hence opaque to proofs.  Their cases for text nodes, for `if` nodes without `:=`
  and for leaf expressions are restated here as total functions: a node at line `l` gets the position
  `⟨path, l⟩`, an `if` keeps its condition, its body and its else list (the line of the list is dropped),
  and `none` as soon as anything else occurs. -/

/-- `exprA` on leaf expressions -/
def eraseE (path : Bytes) : Parse.PExpr → Option Expr
  | .ident l n => some (.ident ⟨path, l⟩ n)
  | .nilLit l => some (.nilLit ⟨path, l⟩)
  | .boolLit l b => some (.boolLit ⟨path, l⟩ b)
  | .strLit l s => some (.strLit ⟨path, l⟩ s)
  | _ => none

mutual
/-- `stmtA` on text nodes and on `if` nodes without `:=` -/
def eraseS (path : Bytes) : Parse.PStmt → Option Stmt
  | .text l b => some (.text ⟨path, l⟩ b)
  | .branch true l none (some c) _ list els =>
    match eraseE path c, eraseL path list, eraseO path els with
    | some c', some body, some el => some (.ifS ⟨path, l⟩ none c' body el)
    | _, _, _ => none
  | _ => none
/-- `list.mapM (stmtA path)` -/
def eraseL (path : Bytes) : List Parse.PStmt → Option (List Stmt)
  | [] => some []
  | s :: rest =>
    match eraseS path s, eraseL path rest with
    | some a, some b => some (a :: b)
    | _, _ => none
/-- `optListA` -/
def eraseO (path : Bytes) : Option (Nat × List Parse.PStmt) → Option (Option (List Stmt))
  | none => some none
  | some (_, ns) =>
    match eraseL path ns with
    | some l => some (some l)
    | none => none
end

theorem eraseL_texts (path : Bytes) (line : Nat) (bs : List Bytes) :
    eraseL path (bs.map (Parse.PStmt.text line)) = some (bs.map (Stmt.text ⟨path, line⟩)) := by
  induction bs with
  | nil => simp [eraseL]
  | cons b bs ih => simp [eraseL, eraseS, ih]

/-! ### chains of the statement grammar whose conditions are identifiers and whose bodies are text -/

open JetVerif.StmtGrammar JetVerif.Props.C05P

/-- a body that is a list of text items -/
def textsL (bs : List Bytes) : L := L.ofList (bs.map S.text)

theorem treeL_textsL (bs : List Bytes) : treeL (textsL bs) = bs.map (Parse.PStmt.text 1) := by
  induction bs with
  | nil => simp [textsL, L.ofList, treeL]
  | cons b bs ih => simp only [textsL] at ih; simp [textsL, L.ofList, treeL, treeS, ih]

/-- a clause of the grammar: `{{if name}}` / `{{else if name}}` followed by text items -/
def gClause (x : Bytes × List Bytes) : ExprGrammar.E7 × L := (atom7 x.1, textsL x.2)

/-- the same clause for the evaluator: everything is on line 1 of `path` (the canonical spelling of
    Model/StmtGrammar.lean puts every item at position 0) -/
def eClause (path : Bytes) (x : Bytes × List Bytes) : Clause :=
  { loc := ⟨path, 1⟩, cond := .ident ⟨path, 1⟩ x.1, body := x.2.map (Stmt.text ⟨path, 1⟩) }

def eFin (path : Bytes) (fin : Option (List Bytes)) : Option (List Stmt) :=
  fin.map fun bs => bs.map (Stmt.text ⟨path, 1⟩)

theorem tree7_atom7 (n : Bytes) : ExprGrammar.tree7 (atom7 n) = .ident 1 n := rfl

/-- **the erasure of the tree of a chain is the nested `ifS` chain** -/
theorem eraseS_chainTree (path : Bytes) (fin : Option (List Bytes)) : ∀ (more : List (Bytes × List Bytes)) (x : Bytes × List Bytes),
    eraseS path (chainTree (atom7 x.1) (textsL x.2) (more.map gClause) (fin.map textsL)) =
      some (chainStmt (eClause path x) (more.map (eClause path)) (eFin path fin))
  | [], x => by
    cases fin with
    | none => simp [chainTree, eraseS, tree7_atom7, eraseE, treeL_textsL, eraseL_texts, eraseO, chainStmt, eClause, chainElse, eFin]
    | some bs => simp [chainTree, eraseS, tree7_atom7, eraseE, treeL_textsL, eraseL_texts, eraseO, chainStmt, eClause, chainElse, eFin]
  | y :: more, x => by
    have ih := eraseS_chainTree path fin more y
    show eraseS path (chainTree (atom7 x.1) (textsL x.2) ((atom7 y.1, textsL y.2) :: more.map gClause) (fin.map textsL)) =
      some (chainStmt (eClause path x) (eClause path y :: more.map (eClause path)) (eFin path fin))
    simp [chainTree, eraseS, tree7_atom7, eraseE, treeL_textsL, eraseL_texts, eraseO, eraseL, ih, chainStmt, eClause, chainElse]

/-! ### executing such a chain from the start of `Template.Execute` -/

open JetVerif.TextOnly

theorem evalExpr_ident_init (n : Nat) (env : Env) (loc : Loc) (name : Bytes) (t : Tmpl)
    (vars : List (Bytes × Val)) (data : Val) :
    (recAt (n + 1)).evalExpr env (.ident loc name) (initRT t vars data) =
      match identVal env vars data name with
      | some v => .ok v (initRT t vars data)
      | none => .err (notAvailable loc) (initRT t vars data) := by
  rw [evalExpr_ident, lookupVal_initRT]

/-- identifiers bound to falsy values: a falsy prefix that leaves the runtime as `Execute` set it up -/
theorem falsy_idents (env : Env) (path : Bytes) (t : Tmpl) (vars : List (Bytes × Val)) (data : Val) (M : Nat)
    (pre : List (Bytes × List Bytes))
    (h : ∀ x ∈ pre, ∃ v, identVal env vars data x.1 = some v ∧ Val.isTrue v = some false) :
    Falsy env M (pre.map (eClause path)) (initRT t vars data) (initRT t vars data) := by
  apply Falsy.of_forall
  intro cl hcl n
  obtain ⟨x, hx, rfl⟩ := List.mem_map.mp hcl
  obtain ⟨v, h1, h2⟩ := h x hx
  refine ⟨v, ?_, h2⟩
  show (recAt (n + 1)).evalExpr env (.ident ⟨path, 1⟩ x.1) _ = _
  rw [evalExpr_ident_init, h1]

theorem exec_texts_body (m : Nat) (env : Env) (loc : Loc) (bs : List Bytes) (rt : RT) :
    (recAt (m + 1)).execList env (bs.map (Stmt.text loc)) rt = .ok .invalid (appendTo rt rt.writer (bs.map litChunk)) := by
  rw [execList_texts m env _ rt (by intro s hs; obtain ⟨b, _, rfl⟩ := List.mem_map.mp hs; rfl)]
  simp [List.map_map, Function.comp_def, stmtBytes]

theorem split_map (path : Bytes) (hd : Bytes × List Bytes) (tl pre post : List (Bytes × List Bytes)) (x : Bytes × List Bytes)
    (hsplit : hd :: tl = pre ++ x :: post) :
    eClause path hd :: tl.map (eClause path) = pre.map (eClause path) ++ eClause path x :: post.map (eClause path) := by
  rw [← List.map_cons, hsplit, List.map_append, List.map_cons]

/-- the list `[chain]` run from the runtime `Execute` sets up: the first identifier bound to a truthy
    value selects its text -/
theorem run_idChain_truthy (env : Env) (path : Bytes) (t : Tmpl) (vars : List (Bytes × Val)) (data : Val)
    (hd : Bytes × List Bytes) (tl pre post : List (Bytes × List Bytes)) (x : Bytes × List Bytes)
    (fin : Option (List Bytes)) (m : Nat) (v : Val) (hsplit : hd :: tl = pre ++ x :: post)
    (hpre : ∀ y ∈ pre, ∃ w, identVal env vars data y.1 = some w ∧ Val.isTrue w = some false)
    (hx : identVal env vars data x.1 = some v) (hv : Val.isTrue v = some true) :
    (recAt (m + pre.length + 2)).execList env
        [chainStmt (eClause path hd) (tl.map (eClause path)) (eFin path fin)] (initRT t vars data) =
      .ok .invalid (appendTo (initRT t vars data) (initRT t vars data).writer (x.2.map litChunk)) := by
  rw [show m + pre.length + 2 = (m + 1 + pre.length) + 1 from by omega, execList_chain, split_map path hd tl pre post x hsplit]
  have hf := falsy_idents env path t vars data (m + 1) pre hpre
  have hc : (recAt (m + 1)).evalExpr env (eClause path x).cond (initRT t vars data) = .ok v (initRT t vars data) := by
    show (recAt (m + 1)).evalExpr env (.ident ⟨path, 1⟩ x.1) _ = _
    rw [evalExpr_ident_init, hx]
  have := elsePart_truthy env (m + 1) (eFin path fin) _ (eClause path x) (post.map (eClause path)) _ _ _ v hf hc hv
  rw [List.length_map] at this
  rw [this]
  exact exec_texts_body m env _ x.2 _

/-- every identifier bound to a falsy value: the else text, or nothing -/
theorem run_idChain_allFalsy (env : Env) (path : Bytes) (t : Tmpl) (vars : List (Bytes × Val)) (data : Val)
    (hd : Bytes × List Bytes) (tl : List (Bytes × List Bytes)) (fin : Option (List Bytes)) (m : Nat)
    (hall : ∀ y ∈ hd :: tl, ∃ w, identVal env vars data y.1 = some w ∧ Val.isTrue w = some false) :
    (recAt (m + tl.length + 2)).execList env
        [chainStmt (eClause path hd) (tl.map (eClause path)) (eFin path fin)] (initRT t vars data) =
      .ok .invalid (appendTo (initRT t vars data) (initRT t vars data).writer ((fin.getD []).map litChunk)) := by
  rw [show m + tl.length + 2 = (m + (hd :: tl).length) + 1 from by simp; omega, execList_chain, ← List.map_cons]
  have hf := falsy_idents env path t vars data m (hd :: tl) hall
  have := elsePart_allFalsy env m (eFin path fin) _ _ _ hf
  rw [List.length_map] at this
  rw [this]
  cases fin with
  | none => simp [eFin, elsePart_nil_none, appendTo_nil]
  | some bs => simpa [eFin, elsePart_nil_some] using exec_texts_body m env _ bs _

/-- an identifier that is bound nowhere, after identifiers bound to falsy values: the located error
    "identifier not available", nothing written -/
theorem run_idChain_unbound (env : Env) (path : Bytes) (t : Tmpl) (vars : List (Bytes × Val)) (data : Val)
    (hd : Bytes × List Bytes) (tl pre post : List (Bytes × List Bytes)) (x : Bytes × List Bytes)
    (fin : Option (List Bytes)) (m : Nat) (hsplit : hd :: tl = pre ++ x :: post)
    (hpre : ∀ y ∈ pre, ∃ w, identVal env vars data y.1 = some w ∧ Val.isTrue w = some false)
    (hx : identVal env vars data x.1 = none) :
    (recAt (m + pre.length + 2)).execList env
        [chainStmt (eClause path hd) (tl.map (eClause path)) (eFin path fin)] (initRT t vars data) =
      .err (notAvailable ⟨path, 1⟩) (initRT t vars data) := by
  rw [show m + pre.length + 2 = (m + 1 + pre.length) + 1 from by omega, execList_chain, split_map path hd tl pre post x hsplit]
  have hf := falsy_idents env path t vars data (m + 1) pre hpre
  have hc : (recAt (m + 1)).evalExpr env (eClause path x).cond (initRT t vars data) =
      .err (notAvailable ⟨path, 1⟩) (initRT t vars data) := by
    show (recAt (m + 1)).evalExpr env (.ident ⟨path, 1⟩ x.1) _ = _
    rw [evalExpr_ident_init, hx]
  have := elsePart_err env (m + 1) (eFin path fin) _ (eClause path x) (post.map (eClause path)) _ _ _ _ hf hc
  rwa [List.length_map] at this

end JetVerif.IfChain
