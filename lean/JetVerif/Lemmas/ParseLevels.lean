/-
  The expression productions of the parser model, level by level, on the token spelling of a
  derivation of the stratified grammar (Model/ExprGrammar.lean).  Helper lemmas for Props/C04P.lean.
-/
import JetVerif.Lemmas.ParseExpr
import JetVerif.Model.ExprGrammar

namespace JetVerif.Parse
open JetVerif.ExprGrammar

/-- `s` is a state whose next non-space item is the head of `l`, leaving the buffer empty: either
    nothing is pushed back and `l` is what the lexer still has, or the head of `l` is pushed back -/
def Starts (s b : PSt) (l : List Item) : Prop :=
  ∃ t ts, l = t :: ts ∧ nextNonSpace s = .ok t (mkS b ts t 0)

def GoodHead (l : List Item) : Prop := ∃ t ts, l = t :: ts ∧ t.pos = 0 ∧ t.typ ≠ Tok.space

theorem GoodHead.append {l : List Item} (h : GoodHead l) (m : List Item) : GoodHead (l ++ m) := by
  obtain ⟨t, ts, rfl, h0, hs⟩ := h
  exact ⟨t, ts ++ m, rfl, h0, hs⟩

theorem starts_fresh (b : PSt) (x : Item) {l : List Item} (h : GoodHead l) : Starts (mkS b l x 0) b l := by
  obtain ⟨t, ts, rfl, h0, hs⟩ := h
  exact ⟨t, ts, rfl, nextNonSpace_cons b t ts x h0 hs⟩

theorem starts_pushed (b : PSt) (t : Item) (ts : List Item) (hs : t.typ ≠ Tok.space) :
    Starts (mkS b ts t 1) b (t :: ts) := ⟨t, ts, rfl, nextNonSpace_pushed b ts t hs⟩

/-! ### what may follow a sub-expression of each level -/

def isMulT (t : Tok) : Prop := Tok.mul.code ≤ t.code ∧ t.code ≤ Tok.mod.code
def isRelT (t : Tok) : Prop := Tok.great.code ≤ t.code ∧ t.code ≤ Tok.lessEquals.code

instance (t : Tok) : Decidable (isMulT t) := by unfold isMulT; infer_instance
instance (t : Tok) : Decidable (isRelT t) := by unfold isRelT; infer_instance

theorem mem_all (t : Tok) : t ∈ Tok.all := by cases t <;> simp [Tok.all]

/-- tie A: the `>= itemMul && <= itemMod` range test of multiplicativeExpression selects exactly
    `* / %` in the regenerated constant order -/
theorem isMulT_iff_all : ∀ t ∈ Tok.all, isMulT t ↔ (t = Tok.mul ∨ t = Tok.div ∨ t = Tok.mod) := by decide

/-- tie A: the `>= itemGreat && <= itemLessEquals` range test selects exactly `> >= < <=` -/
theorem isRelT_iff_all : ∀ t ∈ Tok.all, isRelT t ↔
    (t = Tok.great ∨ t = Tok.greatEquals ∨ t = Tok.less ∨ t = Tok.lessEquals) := by decide

theorem isMulT_iff (t : Tok) : isMulT t ↔ (t = Tok.mul ∨ t = Tok.div ∨ t = Tok.mod) :=
  isMulT_iff_all t (mem_all t)
theorem isRelT_iff (t : Tok) : isRelT t ↔
    (t = Tok.great ∨ t = Tok.greatEquals ∨ t = Tok.less ∨ t = Tok.lessEquals) :=
  isRelT_iff_all t (mem_all t)

def noPostfix (u : Item) : Prop :=
  u.pos = 0 ∧ u.typ ≠ Tok.space ∧ u.typ ≠ Tok.field ∧ u.typ ≠ Tok.leftParen ∧ u.typ ≠ Tok.leftBrackets
def stop2 (u : Item) : Prop := noPostfix u ∧ ¬ isMulT u.typ
def stop3 (u : Item) : Prop := stop2 u ∧ u.typ ≠ Tok.add ∧ u.typ ≠ Tok.minus
def stop4 (u : Item) : Prop := stop3 u ∧ ¬ isRelT u.typ
def stop5 (u : Item) : Prop := stop4 u ∧ u.typ ≠ Tok.equals ∧ u.typ ≠ Tok.notEquals
def stop6 (u : Item) : Prop := stop5 u ∧ u.typ ≠ Tok.and_ ∧ u.typ ≠ Tok.or_
def stop7 (u : Item) : Prop := stop6 u ∧ u.typ ≠ Tok.ternary

theorem noPostfix_mulop (op : MulOp) (v : Bytes) : noPostfix (it op.tok v) := by
  cases op <;> simp [noPostfix, it, MulOp.tok]
theorem stop2_addop (op : AddOp) (v : Bytes) : stop2 (it op.tok v) := by
  cases op <;> simp [stop2, noPostfix, it, AddOp.tok, isMulT_iff]
theorem stop3_relop (op : RelOp) (v : Bytes) : stop3 (it op.tok v) := by
  cases op <;> simp [stop3, stop2, noPostfix, it, RelOp.tok, isMulT_iff]
theorem stop4_eqop (op : EqOp) (v : Bytes) : stop4 (it op.tok v) := by
  cases op <;> simp [stop4, stop3, stop2, noPostfix, it, EqOp.tok, isMulT_iff, isRelT_iff]
theorem stop5_logop (op : LogOp) (v : Bytes) : stop5 (it op.tok v) := by
  cases op <;> simp [stop5, stop4, stop3, stop2, noPostfix, it, LogOp.tok, isMulT_iff, isRelT_iff]
theorem stop6_ternary (v : Bytes) : stop6 (it Tok.ternary v) := by
  simp [stop6, stop5, stop4, stop3, stop2, noPostfix, it, isMulT_iff, isRelT_iff]
theorem stop7_colon (v : Bytes) : stop7 (it Tok.colon v) := by
  simp [stop7, stop6, stop5, stop4, stop3, stop2, noPostfix, it, isMulT_iff, isRelT_iff]
theorem stop7_rparen (v : Bytes) : stop7 (it Tok.rightParen v) := by
  simp [stop7, stop6, stop5, stop4, stop3, stop2, noPostfix, it, isMulT_iff, isRelT_iff]

theorem isMulT_mulop (op : MulOp) : isMulT op.tok := by cases op <;> simp [isMulT_iff, MulOp.tok]
theorem isRelT_relop (op : RelOp) : isRelT op.tok := by cases op <;> simp [isRelT_iff, RelOp.tok]

/-! ### heads of spellings -/

mutual
theorem head0 : (e : E0) → ∃ t ts, toks0 e = t :: ts ∧ t.pos = 0 ∧ (t.typ = Tok.identifier ∨ t.typ = Tok.leftParen)
  | .atom _ => ⟨_, _, rfl, rfl, Or.inl rfl⟩
  | .paren _ => ⟨_, _, rfl, rfl, Or.inr rfl⟩
end

theorem good0 (e : E0) : GoodHead (toks0 e) := by
  obtain ⟨t, ts, h, h0, ht⟩ := head0 e
  refine ⟨t, ts, h, h0, ?_⟩
  rcases ht with ht | ht <;> simp [ht]

theorem good1 (e : E1) : GoodHead (toks1 e) := by
  cases e with
  | base e => exact good0 e
  | sign op v e => exact ⟨_, _, rfl, rfl, by cases op <;> simp [it, AddOp.tok]⟩

theorem good2 : (c : E2) → GoodHead (toks2 c)
  | .one e => good1 e
  | .more l _ _ _ => (good2 l).append _
theorem good3 : (c : E3) → GoodHead (toks3 c)
  | .one e => good2 e
  | .more l _ _ _ => (good3 l).append _
theorem good4 : (c : E4) → GoodHead (toks4 c)
  | .one e => good3 e
  | .more l _ _ _ => (good4 l).append _
theorem good5 : (c : E5) → GoodHead (toks5 c)
  | .one e => good4 e
  | .more l _ _ _ => (good5 l).append _
theorem good5n (x : E5n) : GoodHead (toks5n x) := by
  cases x with
  | plain e => exact good5 e
  | not v e => exact ⟨_, _, rfl, rfl, by simp [it]⟩
theorem good6 : (c : E6) → GoodHead (toks6 c)
  | .one e => good5n e
  | .more l _ _ _ => (good6 l).append _
theorem good7 (c : E7) : GoodHead (toks7 c) := by
  cases c with
  | one e => exact good6 e
  | tern c a b => exact (good6 c).append _

/-! ### loop iterations a chain takes -/

def it2 : E2 → Nat | .one _ => 0 | .more l _ _ _ => it2 l + 1
def it3 : E3 → Nat | .one _ => 0 | .more l _ _ _ => it3 l + 1
def it4 : E4 → Nat | .one _ => 0 | .more l _ _ _ => it4 l + 1
def it5 : E5 → Nat | .one _ => 0 | .more l _ _ _ => it5 l + 1
def it6 : E6 → Nat | .one _ => 0 | .more l _ _ _ => it6 l + 1

theorem it2_le : (c : E2) → it2 c + 1 ≤ sz2 c
  | .one _ => by simp [it2, sz2]
  | .more l _ _ _ => by have := it2_le l; simp [it2, sz2]; omega
theorem it3_le : (c : E3) → it3 c + 1 ≤ sz3 c
  | .one _ => by simp [it3, sz3]
  | .more l _ _ _ => by have := it3_le l; simp [it3, sz3]; omega
theorem it4_le : (c : E4) → it4 c + 1 ≤ sz4 c
  | .one _ => by simp [it4, sz4]
  | .more l _ _ _ => by have := it4_le l; simp [it4, sz4]; omega
theorem it5_le : (c : E5) → it5 c + 1 ≤ sz5 c
  | .one _ => by simp [it5, sz5]
  | .more l _ _ _ => by have := it5_le l; simp [it5, sz5]; omega
theorem it6_le : (c : E6) → it6 c + 1 ≤ sz6 c
  | .one _ => by simp [it6, sz6]
  | .more l _ _ _ => by have := it6_le l; simp [it6, sz6]; omega

/-! ### the loops stop at an item that is not theirs -/

theorem mulLoop_stop (cfg : Cfg) (k : Nat) (ctx : String) (left : PExpr) (u : Item) (s : PSt)
    (h : ¬ isMulT u.typ) : multiplicativeLoop cfg (k + 1) ctx left u s = .ok (left, u) s := by
  rw [multiplicativeLoop]; unfold isMulT at h; simp [h]

theorem addLoop_stop (cfg : Cfg) (k : Nat) (ctx : String) (left : PExpr) (u : Item) (s : PSt)
    (h1 : u.typ ≠ Tok.add) (h2 : u.typ ≠ Tok.minus) : additiveLoop cfg (k + 1) ctx left u s = .ok (left, u) s := by
  rw [additiveLoop]; simp [h1, h2]

theorem relLoop_stop (cfg : Cfg) (k : Nat) (ctx : String) (left : PExpr) (u : Item) (s : PSt)
    (h : ¬ isRelT u.typ) : numericComparativeLoop cfg (k + 1) ctx left u s = .ok (left, u) s := by
  rw [numericComparativeLoop]; unfold isRelT at h; simp [h]

theorem eqLoop_stop (cfg : Cfg) (k : Nat) (ctx : String) (left : PExpr) (u : Item) (s : PSt)
    (h1 : u.typ ≠ Tok.equals) (h2 : u.typ ≠ Tok.notEquals) : comparativeLoop cfg (k + 1) ctx left u s = .ok (left, u) s := by
  rw [comparativeLoop]; simp [h1, h2]

theorem logLoop_stop (cfg : Cfg) (k : Nat) (ctx : String) (left : PExpr) (u : Item) (s : PSt)
    (h1 : u.typ ≠ Tok.and_) (h2 : u.typ ≠ Tok.or_) : logicalLoop cfg (k + 1) ctx left u s = .ok (left, u) s := by
  rw [logicalLoop]; simp [h1, h2]

/-- `operand` from the label RESET on, when the next item starts no postfix -/
theorem operandReset_plain (cfg : Cfg) (n : Nat) (b : PSt) (x u : Item) (rest : List Item) (node : PExpr)
    (hu : noPostfix u) :
    operandReset cfg (n + 1) node (mkS b (u :: rest) x 0) = .ok node (mkS b rest u 1) := by
  obtain ⟨h0, hsp, hf, hlp, hlb⟩ := hu
  rw [operandReset]
  simp [bind_apply, h0, hf]
  by_cases hp : postfixable node.nt = true
  · simp [hp, bind_apply, hsp, hlp, hlb]
  · simp [hp]

end JetVerif.Parse
