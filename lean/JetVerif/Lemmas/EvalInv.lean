/-
  The central invariant of the evaluator model, proved for every construct and every fuel:

  * `Ext rt rt'`   (on success AND on failure): the output destination is the same object as
    before; sinks only grow, and only the current destination's sink (and buffers allocated
    later) can have grown — every other pre-existing sink is untouched.
  * `Rest rt rt'`  (on success): scope chain, context `.` and block content are exactly as
    before.

  Corollaries (in Props/): C07 scope/context restoration, C09 exec writes nothing, C12 output is a
  prefix, C13 try is all-or-nothing and leaves no trace, C17 isset is total.
-/
import JetVerif.Model.Eval

namespace JetVerif.Eval

/-- the current destination refers to an allocated sink -/
def WF (rt : RT) : Prop := ∀ k, rt.writer.idx = some k → k ≤ rt.nbufs

structure Ext (a b : RT) : Prop where
  writer : b.writer = a.writer
  nbufs : a.nbufs ≤ b.nbufs
  cur : ∀ k, a.writer.idx = some k → ∃ cs, b.sink k = cs ++ a.sink k
  other : ∀ k, k ≤ a.nbufs → a.writer.idx ≠ some k → b.sink k = a.sink k

structure Rest (a b : RT) : Prop where
  scope : b.scope = a.scope
  ctx : b.ctx = a.ctx
  content : b.content = a.content

theorem Ext.refl (a : RT) : Ext a a :=
  ⟨rfl, Nat.le_refl _, fun _ _ => ⟨[], rfl⟩, fun _ _ _ => rfl⟩

theorem Rest.refl (a : RT) : Rest a a := ⟨rfl, rfl, rfl⟩

theorem Ext.trans {a b c : RT} (h1 : Ext a b) (h2 : Ext b c) : Ext a c := by
  refine ⟨h2.writer.trans h1.writer, Nat.le_trans h1.nbufs h2.nbufs, ?_, ?_⟩
  · intro k hk
    have hk' : b.writer.idx = some k := by rw [h1.writer]; exact hk
    obtain ⟨cs1, e1⟩ := h1.cur k hk
    obtain ⟨cs2, e2⟩ := h2.cur k hk'
    exact ⟨cs2 ++ cs1, by rw [e2, e1, List.append_assoc]⟩
  · intro k hk hne
    have hne' : b.writer.idx ≠ some k := by rw [h1.writer]; exact hne
    rw [h2.other k (Nat.le_trans hk h1.nbufs) hne', h1.other k hk hne]

theorem Rest.trans {a b c : RT} (h1 : Rest a b) (h2 : Rest b c) : Rest a c :=
  ⟨h2.scope.trans h1.scope, h2.ctx.trans h1.ctx, h2.content.trans h1.content⟩

theorem Ext.wf {a b : RT} (hw : WF a) (h : Ext a b) : WF b := by
  intro k hk
  rw [h.writer] at hk
  exact Nat.le_trans (hw k hk) h.nbufs

/-- `Ext` only looks at writer, nbufs and sink -/
theorem Ext.congr_left {a a' b : RT} (h : Ext a b) (hw : a'.writer = a.writer) (hn : a'.nbufs = a.nbufs)
    (hs : a'.sink = a.sink) : Ext a' b := by
  refine ⟨by rw [hw]; exact h.writer, by rw [hn]; exact h.nbufs, ?_, ?_⟩
  · intro k hk; rw [hw] at hk; rw [hs]; exact h.cur k hk
  · intro k hk hne; rw [hn] at hk; rw [hw] at hne; rw [hs]; exact h.other k hk hne

theorem Ext.congr_right {a b b' : RT} (h : Ext a b) (hw : b'.writer = b.writer) (hn : b'.nbufs = b.nbufs)
    (hs : b'.sink = b.sink) : Ext a b' := by
  refine ⟨by rw [hw]; exact h.writer, by rw [hn]; exact h.nbufs, ?_, ?_⟩
  · intro k hk; rw [hs]; exact h.cur k hk
  · intro k hk hne; rw [hs]; exact h.other k hk hne

def Post {α} (rt : RT) : Res α → Prop
  | .ok _ rt' => Ext rt rt' ∧ Rest rt rt'
  | .err _ rt' => Ext rt rt'
  | .crash _ rt' => Ext rt rt'
  | .fuel => True
  | .unsupported _ => True

/-- the invariant every piece of the interpreter satisfies -/
structure Good {α} (m : M α) : Prop where
  post : ∀ rt, WF rt → Post rt (m rt)

/-! ### the monad -/

theorem good_pure {α} (a : α) : Good (pure a : M α) := by
  refine ⟨fun rt _ => ?_⟩; exact ⟨Ext.refl rt, Rest.refl rt⟩

theorem Good.bind {α β} {m : M α} {f : α → M β} (hm : Good m) (hf : ∀ a, Good (f a)) :
    Good (m >>= f) := by
  refine ⟨fun rt hwf => ?_⟩
  have h1 := hm.post rt hwf
  show Post rt (match m rt with
    | .ok a rt' => f a rt'
    | .err e rt' => .err e rt'
    | .crash s rt' => .crash s rt'
    | .fuel => .fuel
    | .unsupported w => .unsupported w)
  cases hmr : m rt with
  | ok a rt1 =>
    rw [hmr] at h1
    simp only
    have h2 := (hf a).post rt1 (h1.1.wf hwf)
    cases hfr : f a rt1 with
    | ok b rt2 => rw [hfr] at h2; exact ⟨h1.1.trans h2.1, h1.2.trans h2.2⟩
    | err e rt2 => rw [hfr] at h2; exact h1.1.trans h2
    | crash s rt2 => rw [hfr] at h2; exact h1.1.trans h2
    | fuel => trivial
    | unsupported w => trivial
  | err e rt1 => rw [hmr] at h1; exact h1
  | crash s rt1 => rw [hmr] at h1; exact h1
  | fuel => trivial
  | unsupported w => trivial

theorem Good.seq {α β} {m : M α} {k : M β} (hm : Good m) (hk : Good k) : Good (do let _ ← m; k) :=
  hm.bind (fun _ => hk)

theorem good_map {α β} {m : M α} (f : α → β) (hm : Good m) : Good (do let a ← m; pure (f a)) :=
  hm.bind (fun a => good_pure (f a))

theorem good_fail {α} (f : Fail) : Good (Fails.failWith f : M α) := by
  refine ⟨fun rt _ => ?_⟩
  cases f
  · exact Ext.refl rt
  · exact Ext.refl rt
  · trivial

theorem good_throwErr {α} (e : Err) : Good (throwErr e : M α) := good_fail _
theorem good_crash {α} (s : String) : Good (crash s : M α) := good_fail _
theorem good_unsupported {α} (s : String) : Good (unsupported s : M α) := good_fail _
theorem good_errAt {α} (l : Loc) (s : String) : Good (errAt l s : M α) := good_fail _
theorem good_errPlain {α} (s : String) : Good (errPlain s : M α) := good_fail _
theorem good_outOfFuel {α} : Good (outOfFuel : M α) := ⟨fun _ _ => trivial⟩

theorem good_liftOpt {α} (w : String) (o : Option α) : Good (liftOpt w o : M α) := by
  cases o with
  | none => exact good_unsupported w
  | some a => exact good_pure a

theorem good_liftP {α} (p : P α) : Good (liftP p) := by
  refine ⟨fun rt _ => ?_⟩
  unfold liftP
  cases p with
  | ok a => exact ⟨Ext.refl rt, Rest.refl rt⟩
  | error f =>
    cases f
    · exact Ext.refl rt
    · exact Ext.refl rt
    · trivial

theorem good_getRT : Good getRT := by
  refine ⟨fun rt _ => ?_⟩; exact ⟨Ext.refl rt, Rest.refl rt⟩

/-- a state change that leaves scope chain, context, content, writer and sinks alone
    (it may change frames and the log) -/
theorem good_modify (f : RT → RT)
    (h : ∀ rt, (f rt).scope = rt.scope ∧ (f rt).ctx = rt.ctx ∧ (f rt).content = rt.content ∧
      (f rt).writer = rt.writer ∧ (f rt).nbufs = rt.nbufs ∧ (f rt).sink = rt.sink) :
    Good (modifyRT f) := by
  refine ⟨fun rt _ => ?_⟩
  obtain ⟨h1, h2, h3, h4, h5, h6⟩ := h rt
  exact ⟨(Ext.refl rt).congr_right h4 h5 h6, ⟨h1, h2, h3⟩⟩

/-- a state function whose every outcome only changes frames / log -/
theorem good_of_frames_only {α} (m : M α)
    (h : ∀ rt, match m rt with
      | .ok _ rt' | .err _ rt' | .crash _ rt' =>
        rt'.scope = rt.scope ∧ rt'.ctx = rt.ctx ∧ rt'.content = rt.content ∧
        rt'.writer = rt.writer ∧ rt'.nbufs = rt.nbufs ∧ rt'.sink = rt.sink
      | _ => True) : Good m := by
  refine ⟨fun rt _ => ?_⟩
  have := h rt
  cases hm : m rt with
  | ok a rt' => rw [hm] at this; obtain ⟨h1, h2, h3, h4, h5, h6⟩ := this
                exact ⟨(Ext.refl rt).congr_right h4 h5 h6, ⟨h1, h2, h3⟩⟩
  | err e rt' => rw [hm] at this; obtain ⟨_, _, _, h4, h5, h6⟩ := this
                 exact (Ext.refl rt).congr_right h4 h5 h6
  | crash s rt' => rw [hm] at this; obtain ⟨_, _, _, h4, h5, h6⟩ := this
                   exact (Ext.refl rt).congr_right h4 h5 h6
  | fuel => trivial
  | unsupported w => trivial

/-! ### scope primitives -/

theorem post_same {α} (rt : RT) (a : α) : Post rt (Res.ok a rt) := ⟨Ext.refl rt, Rest.refl rt⟩
theorem post_crash_same {α} (rt : RT) (s : String) : Post rt (Res.crash s rt : Res α) := Ext.refl rt
theorem post_err_same {α} (rt : RT) (e : Err) : Post rt (Res.err e rt : Res α) := Ext.refl rt

theorem post_ok_setFrame {α} (rt : RT) (a : α) (id : Nat) (f : Frame) : Post rt (Res.ok a (setFrame rt id f)) :=
  ⟨(Ext.refl rt).congr_right rfl rfl rfl, ⟨rfl, rfl, rfl⟩⟩

theorem good_letVar (n : Bytes) (v : Val) : Good (letVar n v) := by
  refine ⟨fun rt _ => ?_⟩
  unfold letVar
  split
  · exact post_crash_same _ _
  · split
    · exact post_crash_same _ _
    · split
      · exact post_crash_same _ _
      · exact post_ok_setFrame _ _ _ _

theorem good_setBlocks (b : List (Bytes × BlockN)) : Good (setBlocks b) := by
  refine ⟨fun rt _ => ?_⟩
  unfold setBlocks
  split
  · exact post_crash_same _ _
  · split
    · exact post_crash_same _ _
    · exact post_ok_setFrame _ _ _ _

theorem good_setValue (n : Bytes) (v : Val) : Good (setValue n v) := by
  refine ⟨fun rt _ => ?_⟩
  unfold setValue
  split
  · exact post_same _ _
  · split
    · exact post_crash_same _ _
    · split
      · exact post_crash_same _ _
      · exact post_ok_setFrame _ _ _ _

theorem good_letGlobal (n : Bytes) (v : Val) : Good (letGlobal n v) := by
  refine ⟨fun rt _ => ?_⟩
  unfold letGlobal
  split
  · exact post_crash_same _ _
  · split
    · exact post_crash_same _ _
    · split
      · exact post_crash_same _ _
      · exact post_ok_setFrame _ _ _ _

theorem good_getBlock (n : Bytes) : Good (getBlock n) := by
  refine ⟨fun rt _ => ?_⟩; exact ⟨Ext.refl rt, Rest.refl rt⟩

theorem good_resolve (env : Env) (n : Bytes) : Good (resolve env n) := by
  refine ⟨fun rt _ => ?_⟩
  unfold resolve
  split
  · exact post_same _ _
  · split
    · exact post_same _ _
    · split
      · exact post_same _ _
      · split <;> exact post_same _ _

theorem good_logE (e : LogE) : Good (logE e) := by
  apply good_modify; intro rt; simp

/-! ### output primitives: they extend the current destination's sink only -/

theorem ext_appendTo (rt : RT) (cs : List Chunk) : Ext rt (appendTo rt rt.writer cs) := by
  unfold appendTo
  cases hidx : rt.writer.idx with
  | none => exact Ext.refl rt
  | some k =>
    refine ⟨rfl, Nat.le_refl _, ?_, ?_⟩
    · intro k' hk'
      rw [hidx] at hk'
      cases hk'
      exact ⟨cs.reverse, by simp⟩
    · intro k' _ hne
      rw [hidx] at hne
      have : k' ≠ k := fun h => hne (by rw [h])
      simp [this]

theorem rest_appendTo (rt : RT) (w : Wr) (cs : List Chunk) : Rest rt (appendTo rt w cs) := by
  unfold appendTo
  cases w.idx <;> exact ⟨rfl, rfl, rfl⟩

theorem good_writeLit (b : Bytes) : Good (writeLit b) := by
  refine ⟨fun rt _ => ?_⟩; exact ⟨ext_appendTo rt _, rest_appendTo rt _ _⟩

theorem good_printEscaped (env : Env) (v : Val) : Good (printEscaped env v) := by
  refine ⟨fun rt _ => ?_⟩
  unfold printEscaped
  split
  · trivial
  · split
    · exact ⟨ext_appendTo rt _, rest_appendTo rt _ _⟩
    · split
      · trivial
      · exact ⟨ext_appendTo rt _, rest_appendTo rt _ _⟩

theorem good_printSafe (sw : String) (v : Val) : Good (printSafe sw v) := by
  refine ⟨fun rt _ => ?_⟩
  unfold printSafe
  split
  · exact Ext.refl rt
  · split
    · trivial
    · split
      · trivial
      · exact ⟨ext_appendTo rt _, rest_appendTo rt _ _⟩

/-! ### unfolding binds along a known outcome -/

theorem bind_def {α β} (m : M α) (f : α → M β) (rt : RT) :
    (m >>= f) rt = match m rt with
      | .ok a rt' => f a rt'
      | .err e rt' => .err e rt'
      | .crash s rt' => .crash s rt'
      | .fuel => .fuel
      | .unsupported w => .unsupported w := rfl

theorem bind_ok {α β} {m : M α} {f : α → M β} {rt rt1 : RT} {a : α} (h : m rt = .ok a rt1) :
    (m >>= f) rt = f a rt1 := by rw [bind_def, h]
theorem bind_err {α β} {m : M α} {f : α → M β} {rt rt1 : RT} {e : Err} (h : m rt = .err e rt1) :
    (m >>= f) rt = .err e rt1 := by rw [bind_def, h]
theorem bind_crash {α β} {m : M α} {f : α → M β} {rt rt1 : RT} {s : String} (h : m rt = .crash s rt1) :
    (m >>= f) rt = .crash s rt1 := by rw [bind_def, h]
theorem bind_fuel {α β} {m : M α} {f : α → M β} {rt : RT} (h : m rt = .fuel) :
    (m >>= f) rt = .fuel := by rw [bind_def, h]
theorem bind_unsupported {α β} {m : M α} {f : α → M β} {rt : RT} {w : String} (h : m rt = .unsupported w) :
    (m >>= f) rt = .unsupported w := by rw [bind_def, h]

/-! ### scoping combinators -/

/-- the fields `Ext`/`Rest` look at, except the scope chain -/
def SameButScope (a b : RT) : Prop :=
  b.ctx = a.ctx ∧ b.content = a.content ∧ b.writer = a.writer ∧ b.nbufs = a.nbufs ∧ b.sink = a.sink

theorem newScope_cases (rt : RT) :
    (∃ rt', newScope rt = .ok () rt' ∧ rt'.scope.tail = rt.scope ∧ SameButScope rt rt') ∨
    (∃ s, newScope rt = .crash s rt) := by
  unfold newScope
  cases h : rt.scope with
  | nil => exact .inr ⟨_, rfl⟩
  | cons cur tl =>
    simp only
    cases hf : frameAt rt cur with
    | none => exact .inr ⟨_, rfl⟩
    | some f => exact .inl ⟨_, rfl, by simp [h], rfl, rfl, rfl, rfl, rfl⟩

theorem releaseScope_cases (rt : RT) :
    (∃ rt', releaseScope rt = .ok () rt' ∧ rt'.scope = rt.scope.tail ∧ SameButScope rt rt') ∨
    (∃ s, releaseScope rt = .crash s rt) := by
  unfold releaseScope
  cases h : rt.scope with
  | nil => exact .inr ⟨_, rfl⟩
  | cons cur tl => exact .inl ⟨_, rfl, by simp [h], rfl, rfl, rfl, rfl, rfl⟩

theorem popScope_fields (rt : RT) :
    (popScope rt).scope = rt.scope.tail ∧ SameButScope rt (popScope rt) := by
  unfold popScope
  cases h : rt.scope <;> simp [SameButScope, h]

theorem SameButScope.wf {a b : RT} (h : SameButScope a b) (hw : WF a) : WF b := by
  obtain ⟨_, _, w, n, _⟩ := h
  intro k hk; rw [w] at hk; rw [n]; exact hw k hk

theorem Ext.of_left {a a' b : RT} (h : SameButScope a a') (e : Ext a' b) : Ext a b :=
  e.congr_left h.2.2.1.symm h.2.2.2.1.symm h.2.2.2.2.symm

theorem Ext.of_right {a b b' : RT} (h : SameButScope b b') (e : Ext a b) : Ext a b' :=
  e.congr_right h.2.2.1 h.2.2.2.1 h.2.2.2.2

theorem good_withNewScopeND {α} {body : M α} (hb : Good body) : Good (withNewScopeND body) := by
  refine ⟨fun rt hwf => ?_⟩
  unfold withNewScopeND
  rcases newScope_cases rt with ⟨rt1, hn, hs, hsame⟩ | ⟨s, hn⟩
  · rw [bind_ok hn]
    have hb1 := hb.post rt1 (hsame.wf hwf)
    cases hbr : body rt1 with
    | ok a rt2 =>
      rw [hbr] at hb1
      rw [bind_ok hbr]
      rcases releaseScope_cases rt2 with ⟨rt3, hr, hs3, hsame3⟩ | ⟨s, hr⟩
      · rw [bind_ok hr]
        refine ⟨Ext.of_left hsame (Ext.of_right hsame3 hb1.1), ⟨?_, ?_, ?_⟩⟩
        · rw [hs3, hb1.2.scope, hs]
        · rw [hsame3.1, hb1.2.ctx, hsame.1]
        · rw [hsame3.2.1, hb1.2.content, hsame.2.1]
      · rw [bind_crash hr]
        exact Ext.of_left hsame hb1.1
    | err e rt2 => rw [hbr] at hb1; rw [bind_err hbr]; exact Ext.of_left hsame hb1
    | crash s rt2 => rw [hbr] at hb1; rw [bind_crash hbr]; exact Ext.of_left hsame hb1
    | fuel => rw [bind_fuel hbr]; trivial
    | unsupported w => rw [bind_unsupported hbr]; trivial
  · rw [bind_crash hn]; exact Ext.refl rt

theorem good_deferred_pop {α} {body : M α} (hb : Good body) (rt0 rt1 : RT) (hs : rt1.scope.tail = rt0.scope)
    (hsame : SameButScope rt0 rt1) (hwf : WF rt0) : Post rt0 (deferred popScope body rt1) := by
  have hb1 := hb.post rt1 (hsame.wf hwf)
  unfold deferred
  cases hbr : body rt1 with
  | ok a rt2 =>
    rw [hbr] at hb1
    obtain ⟨ps, psame⟩ := popScope_fields rt2
    refine ⟨Ext.of_left hsame (Ext.of_right psame hb1.1), ⟨?_, ?_, ?_⟩⟩
    · rw [ps, hb1.2.scope, hs]
    · rw [psame.1, hb1.2.ctx, hsame.1]
    · rw [psame.2.1, hb1.2.content, hsame.2.1]
  | err e rt2 =>
    rw [hbr] at hb1
    exact Ext.of_left hsame (Ext.of_right (popScope_fields rt2).2 hb1)
  | crash s rt2 =>
    rw [hbr] at hb1
    exact Ext.of_left hsame (Ext.of_right (popScope_fields rt2).2 hb1)
  | fuel => trivial
  | unsupported w => trivial

theorem good_withNewScopeD {α} {body : M α} (hb : Good body) : Good (withNewScopeD body) := by
  refine ⟨fun rt hwf => ?_⟩
  unfold withNewScopeD
  rcases newScope_cases rt with ⟨rt1, hn, hs, hsame⟩ | ⟨s, hn⟩
  · rw [bind_ok hn]; exact good_deferred_pop hb rt rt1 hs hsame hwf
  · rw [bind_crash hn]; exact Ext.refl rt

theorem good_withCtxND {α} (v : Val) {body : M α} (hb : Good body) : Good (withCtxND v body) := by
  refine ⟨fun rt hwf => ?_⟩
  unfold withCtxND
  have hb1 := hb.post { rt with ctx := v } (by intro k hk; exact hwf k hk)
  cases hbr : body { rt with ctx := v } with
  | ok a rt2 =>
    rw [hbr] at hb1
    exact ⟨Ext.congr_right (Ext.congr_left (a' := rt) hb1.1 rfl rfl rfl) rfl rfl rfl, ⟨hb1.2.scope, rfl, hb1.2.content⟩⟩
  | err e rt2 => rw [hbr] at hb1; exact Ext.congr_left (a' := rt) hb1 rfl rfl rfl
  | crash s rt2 => rw [hbr] at hb1; exact Ext.congr_left (a' := rt) hb1 rfl rfl rfl
  | fuel => trivial
  | unsupported w => trivial

theorem good_withContentND {α} (c : Option Closure) {body : M α} (hb : Good body) : Good (withContentND c body) := by
  refine ⟨fun rt hwf => ?_⟩
  unfold withContentND
  have hb1 := hb.post { rt with content := c } (by intro k hk; exact hwf k hk)
  cases hbr : body { rt with content := c } with
  | ok a rt2 =>
    rw [hbr] at hb1
    exact ⟨Ext.congr_right (Ext.congr_left (a' := rt) hb1.1 rfl rfl rfl) rfl rfl rfl, ⟨hb1.2.scope, hb1.2.ctx, rfl⟩⟩
  | err e rt2 => rw [hbr] at hb1; exact Ext.congr_left (a' := rt) hb1 rfl rfl rfl
  | crash s rt2 => rw [hbr] at hb1; exact Ext.congr_left (a' := rt) hb1 rfl rfl rfl
  | fuel => trivial
  | unsupported w => trivial

theorem good_withScopeContentND {α} (sc : List Nat) (ct : Option Closure) {body : M α} (hb : Good body) :
    Good (withScopeContentND sc ct body) := by
  refine ⟨fun rt hwf => ?_⟩
  unfold withScopeContentND
  have hb1 := hb.post { rt with scope := sc, content := ct } (by intro k hk; exact hwf k hk)
  cases hbr : body { rt with scope := sc, content := ct } with
  | ok a rt2 =>
    rw [hbr] at hb1
    exact ⟨Ext.congr_right (Ext.congr_left (a' := rt) hb1.1 rfl rfl rfl) rfl rfl rfl, ⟨rfl, hb1.2.ctx, rfl⟩⟩
  | err e rt2 => rw [hbr] at hb1; exact Ext.congr_left (a' := rt) hb1 rfl rfl rfl
  | crash s rt2 => rw [hbr] at hb1; exact Ext.congr_left (a' := rt) hb1 rfl rfl rfl
  | fuel => trivial
  | unsupported w => trivial

theorem good_withScopeContentD {α} (sc : List Nat) (ct : Option Closure) {body : M α} (hb : Good body) :
    Good (withScopeContentD sc ct body) := by
  refine ⟨fun rt hwf => ?_⟩
  unfold withScopeContentD
  have hb1 := hb.post { rt with scope := sc, content := ct } (by intro k hk; exact hwf k hk)
  cases hbr : body { rt with scope := sc, content := ct } with
  | ok a rt2 =>
    rw [hbr] at hb1
    exact ⟨Ext.congr_right (Ext.congr_left (a' := rt) hb1.1 rfl rfl rfl) rfl rfl rfl, ⟨rfl, hb1.2.ctx, rfl⟩⟩
  | err e rt2 => rw [hbr] at hb1; exact Ext.congr_right (Ext.congr_left (a' := rt) hb1 rfl rfl rfl) rfl rfl rfl
  | crash s rt2 => rw [hbr] at hb1; exact Ext.congr_right (Ext.congr_left (a' := rt) hb1 rfl rfl rfl) rfl rfl rfl
  | fuel => trivial
  | unsupported w => trivial

/-- a deferred context restore: on success and on failure the context is put back -/
theorem good_withCtxD {α} {e : M Val} {body : M α} (he : Good e) (hb : Good body) : Good (withCtxD e body) := by
  refine ⟨fun rt hwf => ?_⟩
  unfold withCtxD deferred
  -- the inner computation is Good except for the context, which the deferred function resets
  have hinner : ∀ rt0, WF rt0 → match (e >>= fun nv => (modifyRT fun rt' => { rt' with ctx := nv }) >>= fun _ => body) rt0 with
      | .ok _ rt' => Ext rt0 rt' ∧ rt'.scope = rt0.scope ∧ rt'.content = rt0.content
      | .err _ rt' => Ext rt0 rt'
      | .crash _ rt' => Ext rt0 rt'
      | _ => True := by
    intro rt0 hw0
    have he0 := he.post rt0 hw0
    cases her : e rt0 with
    | ok nv rt1 =>
      rw [her] at he0
      rw [bind_ok her]
      have hm : (modifyRT fun rt' => { rt' with ctx := nv }) rt1 = .ok () { rt1 with ctx := nv } := rfl
      rw [bind_ok hm]
      have hb1 := hb.post { rt1 with ctx := nv } (by intro k hk; exact (he0.1.wf hw0) k hk)
      cases hbr : body { rt1 with ctx := nv } with
      | ok a rt2 =>
        rw [hbr] at hb1
        exact ⟨he0.1.trans (Ext.congr_left (a' := rt1) hb1.1 rfl rfl rfl), by rw [hb1.2.scope]; exact he0.2.scope,
          by rw [hb1.2.content]; exact he0.2.content⟩
      | err e2 rt2 => rw [hbr] at hb1; exact he0.1.trans (Ext.congr_left (a' := rt1) hb1 rfl rfl rfl)
      | crash s rt2 => rw [hbr] at hb1; exact he0.1.trans (Ext.congr_left (a' := rt1) hb1 rfl rfl rfl)
      | fuel => trivial
      | unsupported w => trivial
    | err e2 rt1 => rw [her] at he0; rw [bind_err her]; exact he0
    | crash s rt1 => rw [her] at he0; rw [bind_crash her]; exact he0
    | fuel => rw [bind_fuel her]; trivial
    | unsupported w => rw [bind_unsupported her]; trivial
  have h := hinner rt hwf
  show Post rt (match (do
      let nv ← e
      modifyRT fun rt' => { rt' with ctx := nv }
      body) rt with
    | .ok a rt' => .ok a { rt' with ctx := rt.ctx }
    | .err e rt' => .err e { rt' with ctx := rt.ctx }
    | .crash s rt' => .crash s { rt' with ctx := rt.ctx }
    | .fuel => .fuel
    | .unsupported w => .unsupported w)
  revert h
  generalize (do
      let nv ← e
      modifyRT fun rt' => { rt' with ctx := nv }
      body : M α) rt = res
  intro h
  cases res with
  | ok a rt' => exact ⟨h.1.congr_right rfl rfl rfl, ⟨h.2.1, rfl, h.2.2⟩⟩
  | err e rt' => exact h.congr_right rfl rfl rfl
  | crash s rt' => exact h.congr_right rfl rfl rfl
  | fuel => trivial
  | unsupported w => trivial

/-- `w := st.Writer; defer restore; st.Writer = w'`: what the body writes goes to `w'` (or to
    buffers allocated later); every sink that existed before is untouched unless it is `w'`'s.
    Stated for the two uses: discard (exec) — nothing at all is written. -/
theorem good_withWriterD_discard {α} {body : M α} (hb : Good body) : Good (withWriterD .discard body) := by
  refine ⟨fun rt hwf => ?_⟩
  unfold withWriterD deferred
  have hwf1 : WF { rt with writer := Wr.discard } := by intro k hk; simp [Wr.idx] at hk
  have hb1 := hb.post { rt with writer := Wr.discard } hwf1
  -- with the discard writer every pre-existing sink is "other"
  have key : ∀ rt2, Ext { rt with writer := Wr.discard } rt2 → Ext rt { rt2 with writer := rt.writer } := by
    intro rt2 e
    refine ⟨rfl, e.nbufs, ?_, ?_⟩
    · intro k hk
      have : rt2.sink k = rt.sink k := e.other k (hwf k hk) (by simp [Wr.idx])
      exact ⟨[], by simp [this]⟩
    · intro k hk _
      exact e.other k hk (by simp [Wr.idx])
  cases hbr : body { rt with writer := Wr.discard } with
  | ok a rt2 => rw [hbr] at hb1; exact ⟨key rt2 hb1.1, ⟨hb1.2.scope, hb1.2.ctx, hb1.2.content⟩⟩
  | err e rt2 => rw [hbr] at hb1; exact key rt2 hb1
  | crash s rt2 => rw [hbr] at hb1; exact key rt2 hb1
  | fuel => trivial
  | unsupported w => trivial

/-- isSet's catch-all recover: a failure becomes `false` and scope/context/content are reset -/
theorem good_recoverFalse {m : M Bool} (hm : Good m) : Good (recoverFalse m) := by
  refine ⟨fun rt hwf => ?_⟩
  unfold recoverFalse
  have h := hm.post rt hwf
  cases hmr : m rt with
  | ok a rt' => rw [hmr] at h; exact h
  | err e rt' => rw [hmr] at h; exact ⟨h.congr_right rfl rfl rfl, ⟨rfl, rfl, rfl⟩⟩
  | crash s rt' => rw [hmr] at h; exact ⟨h.congr_right rfl rfl rfl, ⟨rfl, rfl, rfl⟩⟩
  | fuel => trivial
  | unsupported w => trivial

/-- `recoverFalse` never fails: C17's "isset never fails" -/
theorem recoverFalse_total (m : M Bool) (rt : RT) :
    (∃ b rt', recoverFalse m rt = .ok b rt') ∨ recoverFalse m rt = .fuel ∨ ∃ w, recoverFalse m rt = .unsupported w := by
  unfold recoverFalse
  cases m rt with
  | ok a rt' => exact .inl ⟨a, rt', rfl⟩
  | err e rt' => exact .inl ⟨false, _, rfl⟩
  | crash s rt' => exact .inl ⟨false, _, rfl⟩
  | fuel => exact .inr (.inl rfl)
  | unsupported w => exact .inr (.inr ⟨w, rfl⟩)

end JetVerif.Eval
