/-
  Helper lemmas for Props/C04Parse.lean: symbolic execution of the parser model's token buffer
  and of the expression productions on states whose items all sit at position 0 (so that
  `lineNumber` is 1 throughout and the statement is about grouping only).
-/
import JetVerif.Model.Parse

namespace JetVerif.Parse

/-- the parser state while an expression is read: everything but the item buffer is `b`'s -/
def mkS (b : PSt) (ts : List Item) (t0 : Item) (pc : Nat) : PSt :=
  { b with toks := ts, t0 := t0, peekCount := pc, lastPos := 0 }

@[simp] theorem mkS_toks (b ts t0 pc) : (mkS b ts t0 pc).toks = ts := rfl
@[simp] theorem mkS_pc (b ts t0 pc) : (mkS b ts t0 pc).peekCount = pc := rfl
@[simp] theorem mkS_t0 (b ts t0 pc) : (mkS b ts t0 pc).t0 = t0 := rfl
@[simp] theorem mkS_lastPos (b ts t0 pc) : (mkS b ts t0 pc).lastPos = 0 := rfl
@[simp] theorem mkS_input (b ts t0 pc) : (mkS b ts t0 pc).input = b.input := rfl
@[simp] theorem mkS_mkS (b ts t0 pc ts' t0' pc') : mkS (mkS b ts t0 pc) ts' t0' pc' = mkS b ts' t0' pc' := rfl

/-- what `>>=` does with the first computation's result -/
def PRes.andThen {α β} (r : PRes α) (f : α → PM β) : PRes β :=
  match r with
  | .ok a s' => f a s'
  | .err l m => .err l m
  | .crash w => .crash w
  | .fuel => .fuel
  | .unsupported w => .unsupported w

theorem bind_apply {α β} (m : PM α) (f : α → PM β) (s : PSt) : (m >>= f) s = (m s).andThen f := by
  show (match m s with | .ok a s' => f a s' | .err l m => .err l m | .crash w => .crash w | .fuel => .fuel | .unsupported w => .unsupported w) = _
  unfold PRes.andThen; rfl

@[simp] theorem andThen_ok {α β} (a : α) (s : PSt) (f : α → PM β) : (PRes.ok a s).andThen f = f a s := rfl

@[simp] theorem pure_apply {α} (a : α) (s : PSt) : (pure a : PM α) s = .ok a s := rfl

@[simp] theorem lineNumber_mkS (b ts t0 pc) : lineNumber (mkS b ts t0 pc) = .ok 1 (mkS b ts t0 pc) := by
  simp [lineNumber, Lex.slice, countNl]

@[simp] theorem backup_mkS (b ts t0 pc) : backup (mkS b ts t0 pc) = .ok () (mkS b ts t0 (pc + 1)) := rfl

@[simp] theorem next_cons (b : PSt) (t : Item) (ts : List Item) (x : Item) (h : t.pos = 0) :
    next (mkS b (t :: ts) x 0) = .ok t (mkS b ts t 0) := by
  simp [next, bind_apply, get, nextItem, modify, tokenAt, mkS, h]

@[simp] theorem next_pushed (b : PSt) (ts : List Item) (x : Item) :
    next (mkS b ts x 1) = .ok x (mkS b ts x 0) := by
  simp [next, bind_apply, get, modify, tokenAt, mkS]

@[simp] theorem peek_cons (b : PSt) (t : Item) (ts : List Item) (x : Item) (h : t.pos = 0) :
    peek (mkS b (t :: ts) x 0) = .ok t (mkS b ts t 1) := by
  simp [peek, bind_apply, get, nextItem, modify, mkS, h]

@[simp] theorem peek_pushed (b : PSt) (ts : List Item) (x : Item) :
    peek (mkS b ts x 1) = .ok x (mkS b ts x 1) := by
  simp [peek, bind_apply, get, tokenAt, mkS]

theorem nextNonSpaceLoop_cons (b : PSt) (t : Item) (ts : List Item) (x : Item) (n : Nat)
    (h : t.pos = 0) (hs : t.typ ≠ Tok.space) :
    nextNonSpaceLoop (n + 1) (mkS b (t :: ts) x 0) = .ok t (mkS b ts t 0) := by
  simp [nextNonSpaceLoop, bind_apply, h, hs]

@[simp] theorem nextNonSpace_cons (b : PSt) (t : Item) (ts : List Item) (x : Item)
    (h : t.pos = 0) (hs : t.typ ≠ Tok.space) :
    nextNonSpace (mkS b (t :: ts) x 0) = .ok t (mkS b ts t 0) := by
  simp only [nextNonSpace, mkS_toks, mkS_pc, List.length_cons]
  exact nextNonSpaceLoop_cons b t ts x _ h hs

@[simp] theorem nextNonSpace_pushed (b : PSt) (ts : List Item) (x : Item) (hs : x.typ ≠ Tok.space) :
    nextNonSpace (mkS b ts x 1) = .ok x (mkS b ts x 0) := by
  simp only [nextNonSpace, mkS_toks, mkS_pc]
  simp [nextNonSpaceLoop, bind_apply, hs]

@[simp] theorem peekNonSpace_cons (b : PSt) (t : Item) (ts : List Item) (x : Item)
    (h : t.pos = 0) (hs : t.typ ≠ Tok.space) :
    peekNonSpace (mkS b (t :: ts) x 0) = .ok t (mkS b ts t 1) := by
  simp [peekNonSpace, bind_apply, h, hs]

@[simp] theorem peekNonSpace_pushed (b : PSt) (ts : List Item) (x : Item) (hs : x.typ ≠ Tok.space) :
    peekNonSpace (mkS b ts x 1) = .ok x (mkS b ts x 1) := by
  simp [peekNonSpace, bind_apply, hs]

end JetVerif.Parse
